(** C03 — the relayer-fee escrow is backed, and no refusable packet is unrefundable.

    [FS]: on every chain, for every token, the packet contract HOLDS at least the sum of the fees recorded for the
    packets sent from that chain that are not yet acknowledged ([packetFees] of unpaid packets) — the executable
    check [fees_solvent] of the monitor (kind 18).  Invariant of every operation, hence of every history.

    [ack_possible]: in every reachable state every received packet whose callback address is usable and that either
    was delivered or carries transfer data CAN be acknowledged: the fee can be paid out of the packet contract, the
    escrow to release is there (conservation + backing), re-minting needs nothing.  So a refused transfer is never
    stuck with its value locked: "each transfer ends in exactly one of two ways" has a way to end. *)
From Coq Require Import List Arith PeanoNat NArith Bool Lia.
From Teleport Require Import Base.Outcome Model.Bridge Model.BridgeCheck Proofs.Bridge Proofs.BridgeOutcome Proofs.BridgeBacking.
Import ListNotations.
Local Open Scope N_scope.

(** * Sums over the packet table *)
Lemma sumN_cons x l : sumN (x :: l) = x + sumN l.
Proof. reflexivity. Qed.

Lemma sumN_map_ext {A} (f g : A -> N) l : (forall x, In x l -> f x = g x) -> sumN (map f l) = sumN (map g l).
Proof.
  induction l as [|x l IH]; intro H; [reflexivity|]. cbn [map]. rewrite !sumN_cons, (H x (or_introl eq_refl)), IH; [reflexivity|].
  intros y Hy. apply H. right. exact Hy.
Qed.

Lemma sumN_map_le {A} (f g : A -> N) l : (forall x, In x l -> f x <= g x) -> sumN (map f l) <= sumN (map g l).
Proof.
  induction l as [|x l IH]; intro H; [cbn; lia|]. cbn [map]. rewrite !sumN_cons.
  pose proof (H x (or_introl eq_refl)). assert (sumN (map f l) <= sumN (map g l)) by (apply IH; intros y Hy; apply H; right; exact Hy). lia.
Qed.

Lemma sumN_map_app {A} (f : A -> N) a b : sumN (map f (a ++ b)) = sumN (map f a) + sumN (map f b).
Proof. rewrite map_app. apply sumN_app. Qed.

Lemma sumN_map_add {A} (f g : A -> N) l : sumN (map (fun x => f x + g x) l) = sumN (map f l) + sumN (map g l).
Proof. induction l as [|x l IH]; [reflexivity|]. cbn [map]. rewrite !sumN_cons, IH. lia. Qed.

Lemma sumN_map_zero {A} (l : list A) : sumN (map (fun _ => 0) l) = 0.
Proof. induction l as [|x l IH]; [reflexivity|]. cbn [map]. rewrite sumN_cons, IH. reflexivity. Qed.

(** the unique packet with a given key *)
Lemma sumN_map_update (g : packet -> N) src dst sq fu ps p :
  uniq ps -> lookup src dst sq ps = Some p ->
  sumN (map g (update src dst sq fu ps)) + g p = sumN (map g ps) + g (fu p).
Proof.
  induction ps as [|q ps IH]; [cbn; discriminate|].
  change (update src dst sq fu (q :: ps)) with ((if key_is src dst sq q then fu q else q) :: update src dst sq fu ps).
  cbn [uniq lookup map]. rewrite !sumN_cons. intros [Hq Hu]. destruct (key_is src dst sq q) eqn:E.
  - intro H; inversion H; subst q.
    apply key_is_true in E as (E1 & E2 & E3). subst. rewrite (update_none _ _ _ _ _ Hq). lia.
  - intro H. specialize (IH Hu H). lia.
Qed.

Lemma sumN_key_once a src dst sq ps :
  uniq ps -> sumN (map (fun q => if key_is src dst sq q then a else 0) ps) <= a.
Proof.
  induction ps as [|q ps IH]; [cbn; lia|]. cbn [uniq map]. rewrite sumN_cons. intros [Hq Hu].
  destruct (key_is src dst sq q) eqn:E.
  - apply key_is_true in E as (E1 & E2 & E3). subst.
    rewrite (sumN_map_ext _ (fun _ => 0) ps), sumN_map_zero; [lia|].
    intros x Hx. rewrite (lookup_none_in _ _ _ _ _ Hq Hx). reflexivity.
  - specialize (IH Hu). lia.
Qed.

(** * The invariant *)
Definition FS (s : state) : Prop :=
  forall A t, sumN (map (fee_due (chains s) A t) (packets s)) <= bal (chains s A) t PacketC.

Lemma unpaid_on_recv code d p : unpaid (on_recv code d p) = true.
Proof. unfold unpaid; cbn. destruct (code =? 0); reflexivity. Qed.

Lemma unpaid_on_ack r p : unpaid (on_ack r p) = false.
Proof. unfold unpaid; cbn. destruct (p_code p =? 0); reflexivity. Qed.

Section WithCfg.
Variable cfg : config.

Ltac unf := unfold mint, burn, move in *; unfold credit, debit in *;
  unfold set_bal, set_supply, set_out, set_bind, set_next, set_ackst, set_fees, set_effects, upd_bal, upd1 in *;
  cbn [bal supply out_tokens bind_amt next_seq ack_status fees effects holder_eqb] in *.

Lemma bal_move_into cs t from a t' :
  from <> PacketC -> bal (move cs t from PacketC a) t' PacketC = bal cs t' PacketC + (if Nat.eqb t t' then a else 0).
Proof.
  intro Hn. unfold move, credit, debit, set_bal, upd_bal. cbn [bal].
  destruct (Nat.eqb_spec t t') as [<-|]; cbn [andb]; [|lia].
  rewrite holder_eqb_refl. rewrite Nat.eqb_refl. cbn [andb]. rewrite (proj2 (holder_eqb_neq from PacketC) Hn). reflexivity.
Qed.

Lemma bal_move_aside cs t from to a t' h :
  h <> from -> h <> to -> bal (move cs t from to a) t' h = bal cs t' h.
Proof. apply bal_move_other. Qed.

Lemma payer_not_pk h : payer h -> h <> PacketC /\ h <> Endpoint.
Proof. destruct h; cbn; intro H; try contradiction; split; discriminate. Qed.

(** ** what each chain-level function does to [fees] and to the packet contract's balances *)
Lemma take_tokens_pk c cs h tok amt dst cs' ori :
  take_tokens cfg c cs h tok amt dst = Some (cs', ori) -> payer h ->
  fees cs' = fees cs /\ forall t, bal cs' t PacketC = bal cs t PacketC.
Proof.
  unfold take_tokens. destruct (amt =? 0); [intro H; inv H; auto|].
  destruct (bound cfg c tok dst) as [[o k]|].
  - match goal with |- context [if ?g then _ else _] => destruct g end; [|discriminate]. intros H Hp; inv H.
    split; [reflexivity|]. intro t. destruct (payer_not_pk h Hp) as [N1 N2]. cbn [bal set_bind].
    unfold burn, debit, set_supply, set_bal, upd_bal. cbn [bal].
    rewrite (proj2 (holder_eqb_neq h PacketC) N1), andb_false_r. reflexivity.
  - destruct (amt <=? bal cs tok h); [|discriminate]. intros H Hp; inv H.
    split; [reflexivity|]. intro t. destruct (payer_not_pk h Hp) as [N1 N2]. cbn [bal set_out].
    apply bal_move_aside; [congruence|discriminate].
Qed.

Lemma take_fee_pk cs h ftok fee cs' :
  take_fee cs h ftok fee = Some cs' -> payer h ->
  fees cs' = fees cs /\ forall t, bal cs' t PacketC = bal cs t PacketC + (if Nat.eqb ftok t then fee else 0).
Proof.
  unfold take_fee. destruct (fee <=? bal cs ftok h); [|discriminate]. intros H Hp; inv H.
  split; [reflexivity|]. intro t. apply bal_move_into. apply (payer_not_pk h Hp).
Qed.

Lemma transfer_chain_pk c cs h tok amt dst rcv cd cb ftok fee cs' p :
  transfer_chain cfg c cs h tok amt dst rcv cd cb ftok fee = Some (cs', p) -> payer h ->
  fees cs' = upd_cs (fees cs) dst (next_seq cs dst) (ftok, fee) /\
  (forall t, bal cs' t PacketC = bal cs t PacketC + (if Nat.eqb ftok t then fee else 0)).
Proof.
  unfold transfer_chain, transfer_evm. destruct (dst_ok cfg c dst); [|discriminate].
  destruct ((amt =? 0) && cd_is_none cd); [discriminate|].
  destruct (take_tokens cfg c cs h tok amt dst) as [[cs1 ori]|] eqn:E1; [|discriminate].
  destruct (take_fee cs1 h ftok fee) as [cs2|] eqn:E2; [|discriminate].
  intros H Hp; inv H.
  apply take_tokens_pk in E1 as [F1 B1]; [|exact Hp]. apply take_fee_pk in E2 as [F2 B2]; [|exact Hp].
  cbn [fees bal set_fees set_next]. split; [rewrite F2, F1; reflexivity|].
  intro t. rewrite B2, B1. reflexivity.
Qed.

Lemma give_tokens_pk cs p cs' d :
  give_tokens cfg cs p = Some (cs', d) -> fees cs' = fees cs /\ forall t, bal cs t PacketC <= bal cs' t PacketC.
Proof.
  unfold give_tokens. destruct (p_amount p =? 0); [intro H; inv H; split; [reflexivity|intro; lia]|].
  destruct (p_recv p) as [r|]; [|discriminate]. destruct (p_ori p) as [t0|].
  - destruct (Nat.eqb t0 0 && is_contract r); [discriminate|].
    match goal with |- context [if ?g then _ else _] => destruct g end; [|discriminate]. intro H; inv H.
    split; [reflexivity|]. intro t. cbn [bal set_out].
    pose proof (move_lower cs t0 Endpoint r (p_amount p) t PacketC) as L. cbn [holder_eqb] in L. rewrite andb_false_r in L. lia.
  - destruct (trace cfg (p_dst p) (p_src p) (p_token p)) as [[loc k]|]; [|discriminate]. intro H; inv H.
    split; [reflexivity|]. intro t. cbn [bal set_bind]. apply mint_lower.
Qed.

Lemma ack_chain_pk cs p cs' r :
  ack_chain cfg cs p = Some (cs', r) -> sender_ok p ->
  fees cs' = fees cs /\
  snd (fees cs (p_dst p) (p_seq p)) <= bal cs (fst (fees cs (p_dst p) (p_seq p))) PacketC /\
  forall t, bal cs t PacketC - (if Nat.eqb (fst (fees cs (p_dst p) (p_seq p))) t then snd (fees cs (p_dst p) (p_seq p)) else 0)
            <= bal cs' t PacketC.
Proof.
  intros H Hs. unfold ack_chain in H. destruct (fees cs (p_dst p) (p_seq p)) as [ft f] eqn:Ef. cbn [fst snd].
  set (cs1 := set_ackst cs (upd_cs (ack_status cs) (p_dst p) (p_seq p) (if p_code p =? 0 then 1 else 2))) in *.
  assert (G : (f <=? bal cs1 ft PacketC) = true /\ exists cs2,
             give_back cfg (move cs1 ft PacketC Relayer f) p = Some (cs2, r) /\
             cs' = match p_cb p with
                   | CbAgent ref => if r =? 0 then cs2 else move cs2 (p_token p) (p_sender p) (User ref) r
                   | _ => cs2 end).
  { destruct (p_cb p) as [| |ref]; [|discriminate|];
      (destruct (f <=? bal cs1 ft PacketC); [|discriminate]);
      (match type of H with match ?g with Some _ => _ | None => _ end = _ => destruct g as [[cs2 r2]|] eqn:Eg end; [|discriminate]);
      injection H as <- <-; (split; [reflexivity|]); exists cs2; split; reflexivity. }
  destruct G as (Hle & cs2 & G & ->). apply N.leb_le in Hle.
  assert (Hm : fees (move cs1 ft PacketC Relayer f) = fees cs /\
               forall t, bal cs t PacketC - (if Nat.eqb ft t then f else 0) <= bal (move cs1 ft PacketC Relayer f) t PacketC).
  { split; [reflexivity|]. intro t. pose proof (move_lower cs1 ft PacketC Relayer f t PacketC) as L. cbn [holder_eqb] in L.
    rewrite andb_true_r in L. exact L. }
  destruct Hm as [M1 M2].
  assert (Hg : fees cs2 = fees cs /\ forall t, bal (move cs1 ft PacketC Relayer f) t PacketC <= bal cs2 t PacketC).
  { unfold give_back in G. destruct (p_code p =? 0); [inv G; split; [exact M1|intro; lia]|].
    destruct (p_amount p =? 0); [discriminate|]. destruct (p_ori p) as [t0|].
    - destruct (bound cfg (p_src p) (p_token p) (p_dst p)) as [[o k]|]; [|discriminate]. inv G.
      split; [exact M1|]. intro t. cbn [bal set_bind]. apply mint_lower.
    - match type of G with (if ?g then _ else _) = _ => destruct g end; [|discriminate]. inv G.
      split; [exact M1|]. intro t. cbn [bal set_out].
      pose proof (move_lower (move cs1 ft PacketC Relayer f) (p_token p) Endpoint (p_sender p) (p_amount p) t PacketC) as L.
      cbn [holder_eqb] in L. rewrite andb_false_r in L. lia. }
  destruct Hg as [G1 G2].
  split; [|split; [exact Hle|]].
  - destruct (p_cb p); try exact G1. destruct (r =? 0); [exact G1|]. cbn. exact G1.
  - intro t. specialize (M2 t). specialize (G2 t).
    destruct (p_cb p) as [| |ref]; try lia. destruct (r =? 0); [lia|].
    pose proof (move_lower cs2 (p_token p) (p_sender p) (User ref) r t PacketC) as L.
    assert (holder_eqb (p_sender p) PacketC = false) as E by (unfold sender_ok in Hs; destruct (p_sender p); try contradiction; reflexivity).
    rewrite E, andb_false_r in L. lia.
Qed.

End WithCfg.

Section Global.
Variable cfg : config.
Hypothesis Hcfg : cfg_consistent cfg.

Lemma fee_due_chain (cs cs' : chain -> cstate) A t p :
  fees (cs' A) = fees (cs A) -> fee_due cs' A t p = fee_due cs A t p.
Proof. intro H. unfold fee_due. rewrite H. reflexivity. Qed.

Lemma fee_due_other_chain cs A t p : p_src p <> A -> fee_due cs A t p = 0.
Proof. intro H. unfold fee_due. destruct (Nat.eqb_spec (p_src p) A); [contradiction|reflexivity]. Qed.

Lemma FS_ext s s' : (forall c, chains s c = chains s' c) -> packets s = packets s' -> FS s -> FS s'.
Proof.
  intros Hc Hp H A t. specialize (H A t). rewrite <- Hp, <- Hc.
  rewrite (sumN_map_ext (fee_due (chains s') A t) (fee_due (chains s) A t)); [exact H|].
  intros p _. apply fee_due_chain. rewrite Hc. reflexivity.
Qed.

(** a chain other than the one that changed: same ledger; packets from it keep their dues *)
Lemma fs_transfer s c h tok amt dst rcv cd cb ftok fee cs p :
  wf cfg s -> FS s -> payer h ->
  transfer_chain cfg c (chains s c) h tok amt dst rcv cd cb ftok fee = Some (cs, p) ->
  FS (set_chain s c cs (packets s ++ [p])).
Proof.
  intros [Hu Hall] HF Hp H.
  pose proof (transfer_chain_pk cfg _ _ _ _ _ _ _ _ _ _ _ _ _ H Hp) as [Ff Fb].
  apply (transfer_chain_spec cfg) in H as (_ & _ & _ & Hpk & _).
  assert (Hsrc : p_src p = c) by (rewrite Hpk; reflexivity).
  assert (Hdst : p_dst p = dst) by (rewrite Hpk; reflexivity).
  assert (Hseq : p_seq p = next_seq (chains s c) dst) by (rewrite Hpk; reflexivity).
  assert (Hst : unpaid p = true) by (rewrite Hpk; reflexivity).
  intros A t. cbn [packets set_chain]. rewrite sumN_map_app. cbn [map]. rewrite sumN_cons. cbn [sumN fold_right]. rewrite N.add_0_r.
  rewrite chains_set_chain. destruct (Nat.eqb_spec c A) as [<-|NA].
  - (* the sending chain *)
    assert (E1 : sumN (map (fee_due (chains (set_chain s c cs (packets s ++ [p]))) c t) (packets s))
                 = sumN (map (fee_due (chains s) c t) (packets s))).
    { apply sumN_map_ext. intros q Hq. unfold fee_due. rewrite chains_set_chain, Nat.eqb_refl.
      destruct (Nat.eqb_spec (p_src q) c) as [Eq|]; [|reflexivity]. cbn [andb].
      rewrite Ff. unfold upd_cs. destruct (Nat.eqb_spec dst (p_dst q)) as [Ed|]; cbn [andb]; [|reflexivity].
      destruct (N.eqb_spec (next_seq (chains s c) dst) (p_seq q)) as [E|]; [|reflexivity].
      destruct (Hall q Hq) as [_ Hlt]. rewrite Eq, <- Ed in Hlt. lia. }
    rewrite E1. unfold fee_due at 2. rewrite chains_set_chain, Nat.eqb_refl, Hsrc, Nat.eqb_refl, Hst, Hdst, Hseq, Ff. cbn [andb].
    unfold upd_cs. rewrite Nat.eqb_refl, N.eqb_refl. cbn [andb fst snd].
    specialize (HF c t). rewrite Fb. destruct (Nat.eqb ftok t); lia.
  - rewrite (fee_due_other_chain _ A t p) by congruence. rewrite N.add_0_r.
    rewrite (sumN_map_ext _ (fee_due (chains s) A t)); [apply HF|].
    intros q _. apply fee_due_chain. rewrite chains_set_chain. destruct (Nat.eqb_spec c A); [contradiction|reflexivity].
Qed.

(** a receive without onward packet: statuses Sent -> RecvOk / RecvErr (still unpaid), destination ledger only grows for
    the packet contract, fee table untouched *)
Lemma fs_recv_core s src dst sq p code d cs' :
  wf cfg s -> FS s -> lookup src dst sq (packets s) = Some p -> is_sent p = true ->
  fees cs' = fees (chains s dst) -> (forall t, bal (chains s dst) t PacketC <= bal cs' t PacketC) ->
  FS (set_chain s dst cs' (update src dst sq (on_recv code d) (packets s))).
Proof.
  intros [Hu Hall] HF Hl Hs Ff Fb A t. cbn [packets set_chain]. unfold update. rewrite map_map.
  assert (E : sumN (map (fun q => fee_due (chains (set_chain s dst cs' (map (fun p0 => if key_is src dst sq p0 then on_recv code d p0 else p0) (packets s)))) A t
                              (if key_is src dst sq q then on_recv code d q else q)) (packets s))
              = sumN (map (fee_due (chains s) A t) (packets s))).
  { apply sumN_map_ext. intros q Hq.
    assert (Hch : fees (chains (set_chain s dst cs' (map (fun p0 => if key_is src dst sq p0 then on_recv code d p0 else p0) (packets s))) A) = fees (chains s A)).
    { rewrite chains_set_chain. destruct (Nat.eqb_spec dst A) as [<-|]; [exact Ff|reflexivity]. }
    destruct (key_is src dst sq q) eqn:Ek.
    - assert (q = p) by (eapply uniq_key_unique; eauto). subst q.
      unfold fee_due. rewrite Hch. cbn [p_src p_dst p_seq on_recv]. rewrite unpaid_on_recv.
      unfold is_sent in Hs. unfold unpaid. destruct (p_status p); try discriminate. reflexivity.
    - unfold fee_due. rewrite Hch. reflexivity. }
  rewrite E. specialize (HF A t). rewrite chains_set_chain. destruct (Nat.eqb_spec dst A) as [<-|]; [|exact HF].
  specialize (Fb t). lia.
Qed.

Theorem step_fs s o s' : wf cfg s -> Ghost cfg s -> conserved cfg s -> FS s -> step cfg s o = Ok s' -> FS s'.
Proof.
  intros Hw HG Hcons HF H. pose proof Hw as [Hu Hall]. unfold step, step_gen in H.
  destruct o as [c u tok amt dst rcv cd cb ftok fee|src dst sq|src dst sq|c u dst sq amt|k src dst sq]; [| | | |discriminate].
  - destruct (transfer_chain cfg c (chains s c) (User u) tok amt dst rcv cd (if cb then CbBroken else CbNone) ftok fee) as [[cs p]|] eqn:E; [|discriminate].
    inv H. eapply fs_transfer; eauto. exact I.
  - destruct (lookup src dst sq (packets s)) as [p|] eqn:El; [|discriminate].
    destruct (is_sent p) eqn:Es; [|discriminate].
    destruct (recv_chain cfg (chains s dst) p) as [[[code cs] d] onw] eqn:Er. inv H.
    destruct (lookup_in _ _ _ _ _ El) as [_ Hk]. apply key_is_true in Hk as (_ & K2 & _).
    pose proof Er as Er0.
    apply (recv_chain_cases cfg) in Er as [(Hc & -> & _ & ->)|(-> & cs1 & G & [(-> & S)|(q & T & a2 & feer & ref & rcv2 & dst2 & -> & Ht)])].
    + cbn [opt_list]. rewrite app_nil_r. eapply fs_recv_core; eauto. intro; lia.
    + cbn [opt_list]. rewrite app_nil_r. destruct (give_tokens_pk cfg _ _ _ _ G) as [G1 G2].
      destruct S as (_ & _ & _ & S4 & _ & _ & S7).
      eapply fs_recv_core; eauto; [rewrite S7; exact G1|]. intro t. rewrite S4. apply G2.
    + cbn [opt_list]. rewrite K2 in Ht. destruct (give_tokens_pk cfg _ _ _ _ G) as [G1 G2].
      pose (s1 := set_chain s dst cs1 (update src dst sq (on_recv 0 d) (packets s))).
      assert (W1 : wf cfg s1).
      { apply (recv_core cfg Hcfg s src dst sq p 0 cs1 d); [split; assumption|exact El|exact Es|].
        right. split; [reflexivity|]. exists cs1, d. auto. }
      assert (F1 : FS s1) by (eapply fs_recv_core; eauto).
      assert (Hcs : chains s1 dst = cs1) by (unfold s1; rewrite chains_set_chain, Nat.eqb_refl; reflexivity).
      rewrite <- Hcs in Ht. apply (fs_transfer s1) in Ht; [|exact W1|exact F1|exact I].
      refine (FS_ext _ _ _ _ Ht); [|reflexivity].
      intro c. unfold s1. rewrite !chains_set_chain. destruct (Nat.eqb dst c); reflexivity.
  - destruct (lookup src dst sq (packets s)) as [p|] eqn:El; [|discriminate].
    destruct (is_received p) eqn:Es; [|discriminate].
    destruct (ack_chain cfg (chains s src) p) as [[cs r]|] eqn:Er; [|discriminate]. inv H.
    destruct (lookup_in _ _ _ _ _ El) as [Hin Hk]. apply key_is_true in Hk as (K1 & K2 & K3).
    destruct (ack_chain_pk cfg _ _ _ _ Er (proj1 (HG p Hin))) as (Ff & Fle & Fb). rewrite K2, K3 in *.
    intros A t. cbn [packets set_chain].
    assert (Hch : fees (chains (set_chain s src cs (update src dst sq (on_ack r) (packets s))) A) = fees (chains s A)).
    { rewrite chains_set_chain. destruct (Nat.eqb_spec src A) as [<-|]; [exact Ff|reflexivity]. }
    rewrite (sumN_map_ext _ (fee_due (chains s) A t)) by (intros q _; apply fee_due_chain; exact Hch).
    pose proof (sumN_map_update (fee_due (chains s) A t) src dst sq (on_ack r) (packets s) p Hu El) as Hsum.
    assert (E0 : fee_due (chains s) A t (on_ack r p) = 0).
    { unfold fee_due. cbn [p_src p_dst p_seq on_ack]. rewrite unpaid_on_ack, andb_false_r. reflexivity. }
    rewrite E0, N.add_0_r in Hsum. specialize (HF A t). rewrite chains_set_chain.
    destruct (Nat.eqb_spec src A) as [<-|NA].
    + assert (Ed : fee_due (chains s) src t p = if Nat.eqb (fst (fees (chains s src) dst sq)) t then snd (fees (chains s src) dst sq) else 0).
      { unfold fee_due. rewrite K1, K2, K3, Nat.eqb_refl. unfold is_received in Es. unfold unpaid.
        destruct (p_status p); try discriminate; reflexivity. }
      specialize (Fb t). rewrite Ed in Hsum. lia.
    + rewrite (fee_due_other_chain _ A t p) in Hsum by congruence. lia.
  - destruct (addfee_chain (chains s c) u dst sq amt) as [cs|] eqn:E; [|discriminate]. inv H.
    unfold addfee_chain in E. destruct (fees (chains s c) dst sq) as [ft f] eqn:Ef.
    match type of E with (if ?g then _ else _) = _ => destruct g end; [|discriminate]. inv E.
    intros A t. cbn [packets set_chain]. specialize (HF A t). rewrite chains_set_chain.
    destruct (Nat.eqb_spec c A) as [<-|NA].
    + cbn [bal set_fees]. rewrite bal_move_into by discriminate.
      assert (Hle : sumN (map (fee_due (chains (set_chain s c (set_fees (move (chains s c) ft (User u) PacketC amt)
                                   (upd_cs (fees (chains s c)) dst sq (ft, f + amt))) (packets s))) c t) (packets s))
                    <= sumN (map (fun q => fee_due (chains s) c t q + (if key_is c dst sq q then (if Nat.eqb ft t then amt else 0) else 0)) (packets s))).
      { apply sumN_map_le. intros q Hq. unfold fee_due. rewrite chains_set_chain, Nat.eqb_refl. cbn [fees set_fees].
        unfold upd_cs, key_is.
        destruct (Nat.eqb_spec (p_src q) c) as [Eq|]; cbn [andb]; [|lia].
        destruct (Nat.eqb_spec dst (p_dst q)) as [<-|]; cbn [andb].
        - rewrite Nat.eqb_refl. cbn [andb]. rewrite (N.eqb_sym (p_seq q) sq).
          destruct (N.eqb_spec sq (p_seq q)) as [<-|]; cbn [andb fst snd].
          + rewrite Ef. cbn [fst snd]. destruct (unpaid q); cbn [andb]; destruct (Nat.eqb ft t); lia.
          + lia.
        - rewrite (proj2 (Nat.eqb_neq (p_dst q) dst)) by congruence. cbn [andb]. lia. }
      rewrite sumN_map_add in Hle.
      pose proof (sumN_key_once (if Nat.eqb ft t then amt else 0) c dst sq (packets s) Hu). lia.
    + rewrite (sumN_map_ext _ (fee_due (chains s) A t)); [exact HF|].
      intros q _. apply fee_due_chain. rewrite chains_set_chain. destruct (Nat.eqb_spec c A); [contradiction|reflexivity].
Qed.

Theorem run_fs h : forall s, Good cfg s -> FS s -> FS (run cfg s h).
Proof.
  unfold run, run_gen. induction h as [|o h IH]; intros s HG HF; cbn; [exact HF|].
  unfold apply_gen at 2. destruct (step_gen recv_chain cfg s o) as [s'| |] eqn:E; try (apply IH; assumption).
  apply IH; [eapply step_good; eauto|]. destruct HG as [[Hw Hc] HGh]. eapply step_fs; eauto.
Qed.

Lemma init_fs s : init_ok s -> FS s.
Proof. intros [Hp _] A t. rewrite Hp. cbn. lia. Qed.

End Global.

(** monitor soundness for the fee check (kind 18) *)
Lemma fees_solvent_sound U s : FS s -> fees_solvent U (chains s) (packets s) = true.
Proof.
  intro H. unfold fees_solvent. apply forallb_forall. intros A _. apply forallb_forall. intros t _.
  apply N.leb_le. apply H.
Qed.

(** * Every refusable packet is refundable, every delivered packet can be closed *)
Definition cfg_pos (cfg : config) : Prop := forall c s o loc k, trace cfg c s o = Some (loc, k) -> k <> 0.

Lemma in_lookup ps p : uniq ps -> In p ps -> lookup (p_src p) (p_dst p) (p_seq p) ps = Some p.
Proof.
  induction ps as [|q ps IH]; [intros _ []|]. cbn [uniq lookup In]. intros [Hq Hu] [->|Hin].
  - assert (key_is (p_src p) (p_dst p) (p_seq p) p = true) as -> by (apply key_is_true; auto). reflexivity.
  - destruct (key_is (p_src p) (p_dst p) (p_seq p) q) eqn:E; [|apply IH; assumption].
    apply key_is_true in E as (E1 & E2 & E3). rewrite E1, E2, E3 in Hq.
    assert (key_is (p_src p) (p_dst p) (p_seq p) p = true) by (apply key_is_true; auto).
    rewrite (lookup_none_in _ _ _ _ _ Hq Hin) in H. discriminate.
Qed.

Lemma sumN_map_in {A} (g : A -> N) l x : In x l -> g x <= sumN (map g l).
Proof.
  induction l as [|y l IH]; [intros []|]. cbn [map]. rewrite sumN_cons. intros [->|Hin]; [lia|]. specialize (IH Hin). lia.
Qed.

Lemma sum_contrib_in A B t ps p : In p ps -> contrib A B t p <= sum_contrib A B t ps.
Proof.
  induction ps as [|q ps IH]; [intros []|]. cbn [sum_contrib]. intros [->|Hin]; [lia|]. specialize (IH Hin). lia.
Qed.

Lemma sum_over_in n f d : (d < n)%nat -> f d <= sum_over n f.
Proof.
  induction n as [|n IH]; intro H; [lia|]. rewrite sum_over_S. destruct (Nat.eqb_spec d n) as [->|]; [lia|].
  assert (d < n)%nat by lia. specialize (IH H0). lia.
Qed.

Theorem ack_possible_state cfg s p :
  cfg_pos cfg -> Good cfg s -> escrow_backed cfg s -> FS s ->
  In p (packets s) -> is_received p = true -> p_cb p <> CbBroken -> (p_code p = 0 \/ p_amount p <> 0) ->
  exists s', step cfg s (Ack (p_src p) (p_dst p) (p_seq p)) = Ok s'.
Proof.
  intros Hpos HGood HEB HFS Hin Hrec Hcb Hca.
  destruct HGood as [[[Hu Hall] Hcons] HG].
  destruct (Hall p Hin) as [(O1 & O2 & O3 & O4 & O5 & O6 & O7 & O8 & O9) _].
  unfold step, step_gen. rewrite (in_lookup _ _ Hu Hin), Hrec.
  assert (Hunp : unpaid p = true) by (unfold is_received in Hrec; unfold unpaid; destruct (p_status p); try discriminate; reflexivity).
  assert (Hack : exists cs r, ack_chain cfg (chains s (p_src p)) p = Some (cs, r)); [|destruct Hack as (cs & r & ->); eauto].
  unfold ack_chain. set (cs0 := chains s (p_src p)).
  destruct (fees cs0 (p_dst p) (p_seq p)) as [ft f] eqn:Ef.
  set (cs1 := set_ackst cs0 (upd_cs (ack_status cs0) (p_dst p) (p_seq p) (if p_code p =? 0 then 1 else 2))).
  assert (Hfee : (f <=? bal cs1 ft PacketC) = true).
  { apply N.leb_le. change (bal cs1 ft PacketC) with (bal cs0 ft PacketC).
    pose proof (sumN_map_in (fee_due (chains s) (p_src p) ft) (packets s) p Hin) as L.
    unfold fee_due at 1 in L. fold cs0 in L. rewrite Nat.eqb_refl, Hunp, Ef in L. cbn [fst snd andb] in L. rewrite Nat.eqb_refl in L.
    specialize (HFS (p_src p) ft). fold cs0 in HFS. lia. }
  assert (Hgb : exists cs2 r, give_back cfg (move cs1 ft PacketC Relayer f) p = Some (cs2, r)).
  { unfold give_back. destruct (p_code p =? 0) eqn:Ec; [eauto|]. apply N.eqb_neq in Ec.
    destruct Hca as [Hca|Hca]; [contradiction|]. apply N.eqb_neq in Hca. rewrite Hca. apply N.eqb_neq in Hca.
    destruct (p_ori p) as [t0|] eqn:Eo.
    - destruct (O2 t0 eq_refl) as [k ->]. eauto.
    - assert (Hst : p_status p = RecvErr).
      { unfold is_received in Hrec. destruct (p_status p) eqn:Est; try discriminate; [|reflexivity]. exfalso. apply Ec. auto. }
      assert (Hout : p_amount p <= out_tokens cs0 (p_token p) (p_dst p)).
      { pose proof (sum_contrib_in (p_src p) (p_dst p) (p_token p) (packets s) p Hin) as L.
        unfold contrib in L. rewrite Hst, Eo, !Nat.eqb_refl in L. cbn [inflight andb] in L.
        specialize (Hcons (p_src p) (p_dst p) (p_token p) O1). fold cs0 in Hcons.
        destruct (trace cfg (p_dst p) (p_src p) (p_token p)) as [[loc k]|] eqn:Et; [|lia].
        pose proof (Hpos _ _ _ _ _ Et). nia. }
      assert (Hep : p_amount p <= bal cs0 (p_token p) Endpoint).
      { specialize (HEB (p_src p) (p_token p)). fold cs0 in HEB.
        pose proof (sum_over_in (nchains cfg) (out_tokens cs0 (p_token p)) (p_dst p) O9). lia. }
      change (out_tokens (move cs1 ft PacketC Relayer f) (p_token p) (p_dst p)) with (out_tokens cs0 (p_token p) (p_dst p)).
      rewrite (bal_move_aside cs1 ft PacketC Relayer f (p_token p) Endpoint) by discriminate.
      change (bal cs1 (p_token p) Endpoint) with (bal cs0 (p_token p) Endpoint).
      apply N.leb_le in Hout, Hep. rewrite Hout, Hep. cbn [andb]. eauto. }
  destruct Hgb as (cs2 & r & Hgb). fold cs1. rewrite Hfee, Hgb.
  destruct (p_cb p) as [| |ref]; [eauto|contradiction|eauto].
Qed.

Theorem ack_possible cfg s0 h p :
  cfg_consistent cfg -> cfg_pos cfg -> init_ok s0 ->
  let s := run cfg s0 h in
  In p (packets s) -> is_received p = true -> p_cb p <> CbBroken -> (p_code p = 0 \/ p_amount p <> 0) ->
  exists s', step cfg s (Ack (p_src p) (p_dst p) (p_seq p)) = Ok s'.
Proof.
  intros Hc Hpos Hi s. apply ack_possible_state.
  - exact Hpos.
  - exact (run_good cfg Hc h s0 (init_good cfg s0 Hi)).
  - exact (proj1 (run_backed_init cfg Hc s0 h Hi)).
  - exact (run_fs cfg Hc h s0 (init_good cfg s0 Hi) (init_fs s0 Hi)).
Qed.

Lemma cfg_of_pos n l : binds_pos l = true -> cfg_pos (cfg_of n l).
Proof.
  intros H c s o loc k Ht. cbn in Ht. induction l as [|e l IH]; cbn in *; [discriminate|].
  apply andb_true_iff in H as [He Hl].
  destruct (Nat.eqb (be_c e) c && Nat.eqb (be_src e) s && Nat.eqb (be_ori e) o).
  - inv Ht. apply negb_true_iff, N.eqb_neq in He. exact He.
  - apply IH; assumption.
Qed.

Theorem run_fs_init cfg s0 h : cfg_consistent cfg -> init_ok s0 -> FS (run cfg s0 h).
Proof. intros Hc Hi. apply run_fs; [exact Hc|apply init_good; exact Hi|apply init_fs; exact Hi]. Qed.
