(** Proofs about the adapter hooks (Model/Adapter.v): what a receipt's log list is turned into. *)
From Teleport Require Import Base.Bytes Base.Outcome Model.Adapter.
Local Open Scope N_scope.

(** ** What one log means to one hook *)

(** the message a handler builds and submits for an event (or how it fails before the router) *)
Definition item_of_event (ev : event) : outcome msg :=
  m <- msg_of_event ev ;; if validate_basic m then Ok m else Err.

(** [None]: the hook skips the log.  [Some Panic] also covers the out-of-range [Topics[0]]. *)
Definition classify (h : hkind) (l : log) : option (outcome msg) :=
  if bytes_eqb (l_addr l) (sys_addr h) then
    match l_topics l with
    | [] => Some Panic
    | t0 :: _ =>
        match handler_of h t0 with
        | None => None
        | Some k =>
            Some (match parse_log k (length (l_topics l)) (l_data l) with
                  | None => Err
                  | Some ev => item_of_event ev
                  end)
        end
    end
  else None.

Fixpoint filter_map {A B} (f : A -> option B) (l : list A) : list B :=
  match l with
  | [] => []
  | x :: r => match f x with Some y => y :: filter_map f r | None => filter_map f r end
  end.

Lemma filter_map_app {A B} (f : A -> option B) a b : filter_map f (a ++ b) = filter_map f a ++ filter_map f b.
Proof. induction a as [|x a IH]; cbn; [reflexivity|]. destruct (f x); cbn; rewrite IH; reflexivity. Qed.

Section HookFacts.
  Variable S : Type.
  Variable exec : msg -> S -> outcome S.

  (** executing a list of items through the router, stopping at the first failure; the state
      returned on failure is the one reached so far *)
  Fixpoint run_items (items : list (outcome msg)) (s : S) : outcome unit * S :=
    match items with
    | [] => (Ok tt, s)
    | Ok m :: r => match exec m s with Ok s' => run_items r s' | Err => (Err, s) | Panic => (Panic, s) end
    | Err :: _ => (Err, s)
    | Panic :: _ => (Panic, s)
    end.

  Fixpoint run_msgs (ms : list msg) (s : S) : outcome S :=
    match ms with
    | [] => Ok s
    | m :: r => s' <- exec m s ;; run_msgs r s'
    end.

  Lemma handle_item k l s :
    handle exec k l s =
    match (match parse_log k (length (l_topics l)) (l_data l) with None => Err | Some ev => item_of_event ev end) with
    | Ok m => exec m s | Err => Err | Panic => Panic
    end.
  Proof.
    unfold handle, item_of_event, execute_msg.
    destruct (parse_log k (length (l_topics l)) (l_data l)) as [ev|]; [|reflexivity].
    destruct (msg_of_event ev) as [m| |]; cbn; [|reflexivity|reflexivity].
    destruct (validate_basic m); reflexivity.
  Qed.

  (** THE characterisation: for every log list, the hook executes exactly the items of the logs it
      does not skip, in log order, up to the first failure. *)
  Lemma post_tx_char h logs : forall s, post_tx exec h logs s = run_items (filter_map (classify h) logs) s.
  Proof.
    induction logs as [|l logs IH]; intro s; [reflexivity|].
    cbn [post_tx filter_map]. unfold classify at 1.
    destruct (bytes_eqb (l_addr l) (sys_addr h)); [|apply IH].
    destruct (l_topics l) as [|t0 ts] eqn:Et; [reflexivity|].
    destruct (handler_of h t0) as [k|]; [|apply IH].
    rewrite handle_item. rewrite Et.
    cbn [run_items].
    destruct (match parse_log k (length (t0 :: ts)) (l_data l) with None => Err | Some ev => item_of_event ev end) as [m| |];
      [|reflexivity|reflexivity].
    destruct (exec m s); [apply IH|reflexivity|reflexivity].
  Qed.

  Lemma run_items_app a b s :
    run_items (a ++ b) s = match run_items a s with (Ok _, s1) => run_items b s1 | r => r end.
  Proof.
    revert s; induction a as [|x a IH]; intro s; [reflexivity|].
    destruct x as [m| |]; cbn; [|reflexivity|reflexivity].
    destruct (exec m s); [apply IH|reflexivity|reflexivity].
  Qed.

  Lemma multi_hook_char logs s :
    multi_hook exec logs s = run_items (filter_map (classify HStaking) logs ++ filter_map (classify HGov) logs) s.
  Proof.
    unfold multi_hook. rewrite run_items_app, post_tx_char.
    destruct (run_items (filter_map (classify HStaking) logs) s) as [[u| |] s1]; try reflexivity.
    apply post_tx_char.
  Qed.

  (** logs of other addresses are skipped, wherever they stand *)
  Lemma classify_foreign h l : l_addr l <> sys_addr h -> classify h l = None.
  Proof. intro N. unfold classify. apply bytes_eqb_neq in N. rewrite N. reflexivity. Qed.

  Lemma post_tx_drop_foreign h l1 l l2 s :
    l_addr l <> sys_addr h -> post_tx exec h (l1 ++ l :: l2) s = post_tx exec h (l1 ++ l2) s.
  Proof.
    intro N. rewrite !post_tx_char, !filter_map_app. cbn [filter_map]. rewrite (classify_foreign h l N). reflexivity.
  Qed.

  Lemma post_tx_all_foreign h logs s :
    Forall (fun l => l_addr l <> sys_addr h) logs -> post_tx exec h logs s = (Ok tt, s).
  Proof.
    intro F. rewrite post_tx_char. replace (filter_map (classify h) logs) with (@nil (outcome msg)); [reflexivity|].
    induction F as [|l logs N F IH]; [reflexivity|]. cbn. rewrite (classify_foreign h l N). exact IH.
  Qed.

  (** success: the items are all messages, and exactly those messages ran, in order *)
  Lemma run_items_ok items : forall s s',
    run_items items s = (Ok tt, s') -> exists ms, items = map Ok ms /\ run_msgs ms s = Ok s'.
  Proof.
    induction items as [|x items IH]; intros s s' H.
    - exists []. cbn in *. inversion H; subst. split; reflexivity.
    - destruct x as [m| |]; cbn in H; try discriminate.
      destruct (exec m s) as [s1| |] eqn:E; try discriminate.
      destruct (IH _ _ H) as [ms [-> R]]. exists (m :: ms). split; [reflexivity|]. cbn. rewrite E. exact R.
  Qed.

  (** failure: exactly the messages before the failing item ran (the caller must discard them) *)
  Lemma run_items_fail items : forall s r s',
    run_items items s = (r, s') -> r <> Ok tt ->
    exists ms rest, items = map Ok ms ++ rest /\ run_msgs ms s = Ok s' /\ rest <> [].
  Proof.
    induction items as [|x items IH]; intros s r s' H NE.
    - cbn in H. inversion H; subst. exfalso; apply NE; reflexivity.
    - destruct x as [m| |]; cbn in H.
      + destruct (exec m s) as [s1| |] eqn:E.
        * destruct (IH _ _ _ H NE) as [ms [rest [-> [R NR]]]]. exists (m :: ms), rest.
          split; [reflexivity|]. split; [cbn; rewrite E; exact R | exact NR].
        * inversion H; subst. exists [], (Ok m :: items). repeat split; discriminate.
        * inversion H; subst. exists [], (Ok m :: items). repeat split; discriminate.
      + inversion H; subst. exists [], (Err :: items). repeat split; discriminate.
      + inversion H; subst. exists [], (Panic :: items). repeat split; discriminate.
  Qed.
End HookFacts.

(** the logs a hook reacts to: its own address and one of its event ids *)
Definition is_match (h : hkind) (l : log) : bool :=
  bytes_eqb (l_addr l) (sys_addr h) &&
  match l_topics l with t0 :: _ => match handler_of h t0 with Some _ => true | None => false end | [] => false end.

Lemma classify_none h l : classify h l = None -> is_match h l = false.
Proof.
  unfold classify, is_match. destruct (bytes_eqb (l_addr l) (sys_addr h)); [|reflexivity].
  destruct (l_topics l) as [|t0 ts]; [discriminate|]. destruct (handler_of h t0); [discriminate|reflexivity].
Qed.

Lemma classify_some h l o : classify h l = Some o -> o <> Panic -> is_match h l = true.
Proof.
  unfold classify, is_match. destruct (bytes_eqb (l_addr l) (sys_addr h)); [|discriminate].
  destruct (l_topics l) as [|t0 ts]; [intros H N; inversion H; subst; contradiction|].
  destruct (handler_of h t0); [reflexivity|discriminate].
Qed.

(** when every classified item is a message, the classified logs are exactly the matching ones:
    one message per matching log, in log order *)
Lemma classified_ok_matching h logs : forall ms,
  filter_map (classify h) logs = map Ok ms ->
  Forall2 (fun l m => classify h l = Some (Ok m)) (filter (is_match h) logs) ms.
Proof.
  induction logs as [|l logs IH]; intros ms H.
  - destruct ms; [constructor|discriminate].
  - cbn [filter_map filter] in *.
    destruct (classify h l) as [o|] eqn:C.
    + destruct ms as [|m ms]; [discriminate|]. cbn [map] in H. inversion H; subst.
      rewrite (classify_some h l (Ok m) C) by discriminate.
      constructor; [exact C | apply IH; assumption].
    + rewrite (classify_none h l C). apply IH; exact H.
Qed.

(** ** the caller's discard ([deliver], modelled after ethermint's ApplyTransaction) *)
Lemma deliver_fail {S} (exec : msg -> S -> outcome S) evm logs s r s' :
  deliver exec evm logs s = (r, s') -> r <> Ok tt -> s' = s.
Proof.
  unfold deliver. destruct (multi_hook exec logs (evm s)) as [[u| |] s1]; intros [= <- <-] N;
    [destruct u; exfalso; apply N; reflexivity | reflexivity | reflexivity].
Qed.

Lemma deliver_ok {S} (exec : msg -> S -> outcome S) evm logs s s' :
  deliver exec evm logs s = (Ok tt, s') -> multi_hook exec logs (evm s) = (Ok tt, s').
Proof.
  unfold deliver. destruct (multi_hook exec logs (evm s)) as [[u| |] s1]; intros [= <-]; try discriminate.
  destruct u; reflexivity.
Qed.

(** an invariant of the router's handlers is an invariant of any hook run *)
Lemma run_items_invariant {S} (exec : msg -> S -> outcome S) (P : S -> Prop) :
  (forall m s s', exec m s = Ok s' -> P s -> P s') ->
  forall items s r s', P s -> run_items S exec items s = (r, s') -> P s'.
Proof.
  intros Hstep. induction items as [|x items IH]; intros s r s' Hs H.
  - cbn in H. inversion H; subst; exact Hs.
  - destruct x as [m| |]; cbn in H; try (inversion H; subst; exact Hs).
    destruct (exec m s) as [s1| |] eqn:E; try (inversion H; subst; exact Hs).
    eapply IH; [eapply Hstep; eauto | exact H].
Qed.
