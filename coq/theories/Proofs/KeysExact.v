(** Exactness of the fixed-offset parsers: a key is read as a consensus state
    at height h IF AND ONLY IF it is the consensus state key of h — so, whatever
    else is stored under a client's prefix, IterateConsensusStates returns
    exactly the written consensus states (each once: the keys are injective). *)
From Teleport Require Import Base.Bytes Base.Outcome Base.Fmt Gen.KeysGen Model.Keys Proofs.Keys Proofs.KeysParse.
Local Open Scope N_scope.

Lemma be_val8_bound l : length l = 8%nat -> be_val l < two64.
Proof. intro L. pose proof (be_val_bound l) as H. rewrite L in H. rewrite two64_eq. exact H. Qed.

Lemma be8_of_val l : length l = 8%nat -> be_bytes 8 (be_val l) = l.
Proof. intro L. rewrite <- L. apply be_bytes_val. Qed.

Theorem parse_consensus_state_key_exact k h :
  parse_consensus_state_key k = Some h <-> (k = consensus_state_key h /\ valid_height h = true).
Proof.
  split.
  - unfold parse_consensus_state_key. destruct (strip _ k) as [hb|] eqn:E; [|discriminate].
    apply strip_some in E. destruct (Nat.eqb (length hb) 16) eqn:L; [|discriminate].
    apply Nat.eqb_eq in L.
    remember (firstn 8 hb) as a eqn:Ea. remember (firstn 8 (skipn 8 hb)) as b eqn:Eb. intros [= <-].
    assert (L1 : length a = 8%nat) by (subst a; rewrite firstn_length; lia).
    assert (L2 : length b = 8%nat) by (subst b; rewrite firstn_length, skipn_length; lia).
    split.
    + rewrite consensus_key_bytes. cbn [rev_number rev_height]. rewrite (be8_of_val _ L1), (be8_of_val _ L2).
      subst k. f_equal. subst a b.
      rewrite (firstn_exact (skipn 8 hb) 8) by (rewrite skipn_length; lia).
      symmetry. apply firstn_skipn.
    + unfold valid_height. cbn [rev_number rev_height].
      pose proof (be_val8_bound _ L1) as B1. pose proof (be_val8_bound _ L2) as B2.
      apply N.ltb_lt in B1, B2. rewrite B1, B2. reflexivity.
  - intros [-> V]. apply parse_consensus_state_key_roundtrip. exact V.
Qed.

(** IterateConsensusStates on any key under a client's prefix *)
Theorem consensus_iterator_exact name path n h :
  valid_chain_name name = true ->
  (iter_consensus_states (client_store_prefix name ++ path) = Got (n, h)
   <-> (n = name /\ path = consensus_state_key h /\ valid_height h = true)).
Proof.
  intro V. rewrite (iter_consensus_states_on_client_key name path (valid_chain_name_no_sep _ V)).
  split.
  - destruct (parse_consensus_state_key path) as [h'|] eqn:E; [|discriminate].
    intros [= <- <-]. apply parse_consensus_state_key_exact in E. tauto.
  - intros (-> & -> & Vh). rewrite (parse_consensus_state_key_roundtrip h Vh). reflexivity.
Qed.

(** IterateClients on any key under a client's prefix: exactly the client state key *)
Theorem clients_iterator_exact name path n :
  valid_chain_name name = true ->
  (iter_clients (client_store_prefix name ++ path) = Got n <-> (n = name /\ path = client_state_key)).
Proof.
  intro V. rewrite (iter_clients_on_client_key name path (valid_chain_name_no_sep _ V)).
  unfold client_state_key. rewrite shape_client_state. cbn [render render_item]. rewrite app_nil_r.
  destruct (bytes_eqb path host_KeyClientState) eqn:E.
  - apply bytes_eqb_eq in E. subst. split; [intros [= <-]; auto | intros [-> _]; reflexivity].
  - apply bytes_eqb_neq in E. split; [discriminate | intros [_ ->]; congruence].
Qed.

(** The Split-based parser the code used before the repair agrees with the
    fixed-offset one exactly on the keys whose binary height contains no
    separator byte — which is where the witness height 47 comes from. *)
Theorem old_parser_agrees_without_sep name h :
  valid_chain_name name = true -> valid_height h = true ->
  no_sep (be_bytes 8 (rev_number h) ++ be_bytes 8 (rev_height h)) = true ->
  iter_consensus_states_old (full_consensus_state_key name h) = Ok (iter_consensus_states (full_consensus_state_key name h)).
Proof.
  intros Vn Vh NS. rewrite (consensus_key_parse_roundtrip name h Vn Vh).
  pose proof (valid_chain_name_no_sep _ Vn) as Hn.
  unfold valid_height in Vh. apply andb_true_iff in Vh as [V1 V2]. apply N.ltb_lt in V1, V2.
  unfold iter_consensus_states_old, full_consensus_state_key, height_args. rewrite shape_full_consensus.
  cbn [render render_item get_s get_n nth_error]. rewrite app_nil_r.
  change (host_KeyClientStorePrefix ++ [sep] ++ name ++ [sep] ++ host_KeyConsensusStatePrefix ++ [sep] ++
          be_bytes 8 (rev_number h) ++ be_bytes 8 (rev_height h))
    with (host_KeyClientStorePrefix ++ sep :: name ++ sep :: host_KeyConsensusStatePrefix ++ sep ::
          (be_bytes 8 (rev_number h) ++ be_bytes 8 (rev_height h))).
  rewrite (split_sep_lit host_KeyClientStorePrefix _ eq_refl), (split_sep_lit name _ Hn),
          (split_sep_lit host_KeyConsensusStatePrefix _ eq_refl), (split_sep_end _ NS).
  cbn [length Nat.eqb negb orb nth]. rewrite bytes_eqb_refl. cbn [negb].
  rewrite app_length, !be8_length. cbn [Nat.add Nat.ltb Nat.leb].
  rewrite firstn8_be, skipn8_be. unfold go_be_uint64.
  rewrite !be8_length. cbn [Nat.ltb Nat.leb obind]. rewrite !firstn8_be'.
  rewrite (be8_val _ V1), (be8_val _ V2). destruct h; reflexivity.
Qed.
