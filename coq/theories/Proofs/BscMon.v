(** Monitor soundness for C09: every header the model accepts (in any reachable
    state) passes the conjunct functions the monitor evaluates on the
    implementation's observed trace. *)
From Teleport Require Import Base.Bytes Base.Outcome Model.Bsc Model.BscCheck
  Proofs.BscBase Proofs.Bsc Proofs.BscInv Proofs.BscThm.
From Coq Require Import ZifyN ZifyNat.
Local Open Scope N_scope.

Definition tog (b : gblock) : gentry := {| ge_key := gkey b; ge_sealer := gb_sealer b; ge_eff := gb_eff b |}.

Lemma list_eqb_refl {A} (eqb : A -> A -> bool) (l : list A) : (forall x, eqb x x = true) -> list_eqb eqb l l = true.
Proof. intro H. induction l as [|x l IH]; cbn; [reflexivity|]. rewrite H. exact IH. Qed.

Lemma add64_sub64_1 n : 0 < n -> n < two64 -> add64 (sub64 n 1) 1 = n.
Proof. intros H0 H. rewrite sub64_1 by assumption. rewrite add64_small by lia. lia. Qed.

(** ** the executable window = the blocks that are [kept] and within the limit *)
Lemma in_window_aux_spec n limit : forall ch bound e,
  In e (in_window_aux bound n limit (map tog ch)) ->
  exists pre b post, ch = pre ++ b :: post /\ e = tog b /\ n < gnum b + limit /\
    (bound < Z.of_N (gnum b))%Z /\ forall j, In j pre -> gnum j < gnum b + gb_eff j.
Proof.
  induction ch as [|c ch IH]; intros bound e Hin; cbn [map in_window_aux] in Hin; [destruct Hin|].
  cbn [tog ge_key ge_eff gkey hheight snd] in Hin. fold (gnum c) in Hin.
  destruct (n <? gnum c + limit) eqn:E; [|destruct Hin]. apply N.ltb_lt in E.
  assert (Hrest : In e (in_window_aux (Z.max bound (Z.of_N (gnum c) - Z.of_N (gb_eff c))) n limit (map tog ch)) ->
                  exists pre b post, c :: ch = pre ++ b :: post /\ e = tog b /\ n < gnum b + limit /\
                    (bound < Z.of_N (gnum b))%Z /\ forall j, In j pre -> gnum j < gnum b + gb_eff j).
  { intro H. destruct (IH _ _ H) as (pre & b & post & -> & -> & Hn & Hb & Hpre).
    exists (c :: pre), b, post. split; [reflexivity|]. split; [reflexivity|]. split; [exact Hn|].
    split; [lia|]. intros j [<-|Hj]; [lia | apply Hpre; exact Hj]. }
  destruct (bound <? Z.of_N (gnum c))%Z eqn:EB.
  - destruct Hin as [<-|Hin]; [|apply Hrest; exact Hin].
    apply Z.ltb_lt in EB. exists [], c, ch. split; [reflexivity|]. split; [reflexivity|].
    split; [exact E|]. split; [exact EB|]. intros j [].
  - apply Hrest; exact Hin.
Qed.

Lemma in_window_kept n limit ch e : consec ch ->
  In e (in_window n limit (map tog ch)) ->
  exists b, In b ch /\ e = tog b /\ n < gnum b + limit /\ kept ch b.
Proof.
  intros Hc Hin. unfold in_window in Hin.
  destruct (in_window_aux_spec _ _ _ _ _ Hin) as (pre & b & post & -> & -> & Hn & _ & Hpre).
  exists b. split; [apply in_or_app; right; left; reflexivity|]. split; [reflexivity|]. split; [exact Hn|].
  intros j Hj Hlt. apply in_app_or in Hj as [Hj|Hj]; [apply Hpre; exact Hj|].
  exfalso.
  assert (Hc' : consec (b :: post)).
  { clear -Hc. induction pre as [|p pre IH]; [exact Hc|]. apply IH. eapply consec_tail. exact Hc. }
  destruct Hj as [<-|Hj]; [lia|]. pose proof (consec_lt _ _ Hc' j Hj). lia.
Qed.

Section Mon.
  Variable HH : header -> bytes.
  Variable ER : N -> header -> option bytes.

  Theorem monitor_sound cs st ch bt h st' cs' :
    reach HH ER (cs, st) ch -> wf_hdr h -> 0 < h_num h ->
    update_client HH ER bt cs st h = (st', ROk cs') ->
    exists x0, last_epoch_extra (c_epoch cs) ch = Some x0 /\
      let rec := ER (c_chain cs) h in
      let sealer := match rec with Some a => to_addr a | None => [] end in
      let epoch_extra := if h_num h mod c_epoch cs =? 0 then h_extra h else x0 in
      mon_link (HH (c_header cs)) (c_header cs) h = true /\
      mon_struct (c_epoch cs) (c_header cs) h = true /\
      mon_seal rec (c_vals cs) h = true /\
      mon_window (map tog ch) (h_num h) (nodup_len (c_vals cs) / 2 + 1) sealer = [] /\
      mon_diff (c_vals cs) (c_header cs) h sealer = true /\
      mon_vals (c_epoch cs) h (c_vals cs) (c_vals cs') epoch_extra = true /\
      mon_pending (pending st') epoch_extra = true.
  Proof.
    intros HR Hwf H0 HU.
    destruct (valset_changes_only_at_offset _ _ _ _ _ _ _ _ _ HR HU) as (x0 & Hx0 & Hvals & Hpend). cbv zeta in Hvals, Hpend.
    exists x0. split; [exact Hx0|]. cbv zeta.
    destruct (recents_window _ _ _ _ _ _ _ _ _ HR Hwf H0 HU) as (signer & HS & HW).
    destruct (update_client_ok _ _ _ _ _ _ _ _ HU) as (_ & st5 & c' & HC & _).
    destruct (check_ok _ _ _ _ _ _ _ _ _ HC) as (signer' & _ & A & HD & _).
    assert (signer' = signer) by (rewrite (ac_sealer _ _ _ _ _ _ A) in HS; congruence). subst signer'.
    unfold sealer in HS. destruct (ER (c_chain cs) h) as [a|] eqn:ERh; [|discriminate HS].
    inversion HS as [Ea]. clear HS.
    destruct Hwf as [Hn Hex].
    pose proof (reach_inv _ _ _ _ HR) as I.
    split; [|split; [|split; [|split; [|split; [|split]]]]].
    - unfold mon_link. rewrite (ac_number _ _ _ _ _ _ A), add64_sub64_1, N.eqb_refl by assumption.
      rewrite (ac_parent _ _ _ _ _ _ A), bytes_eqb_refl. reflexivity.
    - unfold mon_struct.
      pose proof (ac_extra _ _ _ _ _ _ A) as B1. apply N.leb_le in B1. rewrite B1.
      rewrite (ac_mix _ _ _ _ _ _ A), (ac_uncle _ _ _ _ _ _ A), !bytes_eqb_refl. cbn [andb].
      pose proof (ac_vals_bytes _ _ _ _ _ _ A) as B2.
      assert (E2 : (if h_num h mod c_epoch cs =? 0 then (len (h_extra h) - 97) mod 20 =? 0 else len (h_extra h) =? 97) = true).
      { destruct (h_num h mod c_epoch cs =? 0); apply N.eqb_eq; exact B2. }
      rewrite E2. cbn [andb].
      assert (E3 : negb (N_of_bytes (h_diff h) =? 0) = true).
      { rewrite HD. destruct (inturn cs signer); reflexivity. }
      rewrite E3. cbn [andb].
      unfold gas_ok.
      pose proof (ac_gas_cap _ _ _ _ _ _ A) as G1. pose proof (ac_gas_used _ _ _ _ _ _ A) as G2.
      pose proof (ac_gas_bound _ _ _ _ _ _ A) as G3.
      apply N.leb_le in G2. rewrite G2. pose proof G1 as G1'. apply N.leb_le in G1'. rewrite G1'. cbn [andb].
      assert (G4 : minGasLimit <=? h_gaslimit h = true).
      { unfold gas_bound_bad in G3. apply orb_false_iff in G3 as [_ G3]. apply N.ltb_ge in G3. apply N.leb_le. exact G3. }
      rewrite G4. cbn [andb].
      apply gas_bound_math in G3 as [G3 _]. apply N.ltb_lt. exact G3.
    - unfold mon_seal. rewrite Ea, <- (ac_coinbase _ _ _ _ _ _ A), bytes_eqb_refl. cbn [andb].
      apply mem_In. apply (ac_member _ _ _ _ _ _ A).
    - unfold mon_window. rewrite Ea.
      destruct (filter _ _) as [|e l] eqn:EF; [reflexivity|]. exfalso.
      assert (Hin : In e (filter (fun e => bytes_eqb (ge_sealer e) signer)
                                 (in_window (h_num h) (nodup_len (c_vals cs) / 2 + 1) (map tog ch)))) by (rewrite EF; left; reflexivity).
      apply filter_In in Hin as [Hin Hs]. apply bytes_eqb_eq in Hs.
      destruct (in_window_kept _ _ _ _ (i_consec _ _ I) Hin) as (b & Hb & -> & Hlim & Hk).
      apply (HW b Hb Hk Hlim). exact Hs.
    - unfold mon_diff. rewrite Ea. rewrite HD. unfold inturn. apply N.eqb_refl.
    - unfold mon_vals. rewrite Hvals.
      destruct (h_num h mod c_epoch cs =? len (c_vals cs) / 2); apply list_eqb_refl; apply bytes_eqb_refl.
    - unfold mon_pending. rewrite Hpend. destruct (pend_of _); cbn; [|reflexivity].
      apply list_eqb_refl. apply bytes_eqb_refl.
  Qed.
End Mon.
