(** The round budget of [mpt_verify_g] (Model/EvmProofMpt.v: [walk_fuel]) is never a limit for a walk that ends:
    the Go loop of [trie.VerifyProof] is a deterministic iteration on states (wanted hash, remaining key); a walk
    that ends visits no state twice; every visited state has its hash among the Keccak hashes of the node list and
    its key among the suffixes of [keybytesToHex key]; so it ends within (#nodes x #suffixes) rounds < [walk_fuel].
    Consequently [WLoop] stands exactly for "the Go loop does not end", and completeness needs no side condition. *)
From Teleport Require Import Base.Bytes Base.Outcome Model.EvmProof Model.EvmProofMpt Proofs.EvmProofRlp Proofs.EvmProof
     Proofs.EvmProofMpt Proofs.EvmProofMptWf.
Local Open Scope N_scope.

(** [get] hands back a suffix of the key *)
Lemma get_rest_suffix n : forall key rest h, get n key = GHash rest h -> exists p, key = p ++ rest.
Proof.
  induction n as [| h0 | v | k v IH | cs IH] using node_ind'; intros key rest h G.
  - discriminate.
  - cbn in G. inversion G; subst. exists []. reflexivity.
  - discriminate.
  - cbn [get] in G. destruct (is_prefix k key) eqn:P; [|discriminate].
    apply is_prefix_split in P. destruct (IH _ _ _ G) as (p & E).
    exists (k ++ p). rewrite <- app_assoc, <- E. exact P.
  - destruct key as [|k0 kr]; [discriminate|]. rewrite get_full in G.
    destruct (nth_error cs (N.to_nat (nb k0))) as [c|] eqn:E; [|discriminate].
    rewrite Forall_forall in IH. destruct (IH c (nth_error_In _ _ E) _ _ _ G) as (p & ->).
    exists (k0 :: p). reflexivity.
Qed.

Section Loop.
  Variable keccak256 : bytes -> bytes.
  Variable nodes : list bytes.
  Notation find_node := (EvmProofMpt.find_node keccak256).
  Notation walk := (EvmProofMpt.walk keccak256 nodes).

  Definition state := (bytes * bytes)%type.

  (** one round of the loop: the next state, or [None] when the round ends the walk *)
  Definition next (s : state) : option state :=
    match find_node nodes (fst s) with
    | None => None
    | Some buf =>
        match decode_node buf with
        | None => None
        | Some n => match get n (snd s) with GHash rest h => Some (h, rest) | _ => None end
        end
    end.

  Fixpoint iter (k : nat) (s : state) : option state :=
    match k with
    | O => Some s
    | S k' => match next s with Some t => iter k' t | None => None end
    end.

  Lemma walk_next f s t : next s = Some t -> walk (S f) (fst s) (snd s) = walk f (fst t) (snd t).
  Proof.
    unfold next. cbn [EvmProofMpt.walk].
    destruct (find_node nodes (fst s)) as [buf|]; [|discriminate].
    destruct (decode_node buf) as [n|]; [|discriminate].
    destruct (get n (snd s)) as [|rest h|v|]; try discriminate. intro H; inversion H; subst. reflexivity.
  Qed.

  Lemma walk_done f s : next s = None -> walk (S f) (fst s) (snd s) = walk 1 (fst s) (snd s).
  Proof.
    unfold next. cbn [EvmProofMpt.walk].
    destruct (find_node nodes (fst s)) as [buf|]; [|reflexivity].
    destruct (decode_node buf) as [n|]; [|reflexivity].
    destruct (get n (snd s)) as [|rest h|v|]; try reflexivity. discriminate.
  Qed.

  (** a walk that answers within [f] rounds: the state sequence ends ([next = None]) at some round [k < f] *)
  Lemma definitive_ends : forall f s,
    definitive (walk f (fst s) (snd s)) ->
    exists k t, (k < f)%nat /\ iter k s = Some t /\ next t = None /\
                walk f (fst s) (snd s) = walk 1 (fst t) (snd t).
  Proof.
    induction f as [|f IH]; intros s D; [contradiction|].
    destruct (next s) as [t|] eqn:N.
    - rewrite (walk_next f s t N) in D. destruct (IH t D) as (k & u & L & I & E & W).
      exists (S k), u. split; [lia|]. split; [cbn [iter]; rewrite N; exact I|]. split; [exact E|].
      rewrite (walk_next f s t N). exact W.
    - exists O, s. split; [lia|]. split; [reflexivity|]. split; [exact N|]. apply walk_done. exact N.
  Qed.

  Lemma iter_walk : forall k s t f,
    iter k s = Some t -> walk (k + f) (fst s) (snd s) = walk f (fst t) (snd t).
  Proof.
    induction k as [|k IH]; intros s t f I.
    - inversion I; subst. reflexivity.
    - cbn [iter] in I. destruct (next s) as [u|] eqn:N; [|discriminate].
      change (S k + f)%nat with (S (k + f)). rewrite (walk_next _ s u N). apply IH. exact I.
  Qed.

  Lemma iter_add : forall i j s t, iter i s = Some t -> iter (i + j) s = iter j t.
  Proof.
    induction i as [|i IH]; intros j s t I; [inversion I; reflexivity|].
    cbn [iter] in I. change (S i + j)%nat with (S (i + j)). cbn [iter].
    destruct (next s) as [u|]; [|discriminate]. apply IH. exact I.
  Qed.

  Lemma iter_prefix : forall i j s t, (i <= j)%nat -> iter j s = Some t -> exists u, iter i s = Some u.
  Proof.
    induction i as [|i IH]; intros j s t L I; [exists s; reflexivity|].
    destruct j as [|j]; [lia|]. cbn [iter] in *. destruct (next s) as [u|]; [|discriminate].
    apply (IH j u t); [lia | exact I].
  Qed.

  (** a state that recurs is never left: the sequence cannot end after it *)
  Lemma recur_never_ends s p : (0 < p)%nat -> iter p s = Some s -> forall m, iter m s <> None.
  Proof.
    intros P R m. induction m as [m IH] using lt_wf_ind.
    destruct (Nat.lt_ge_cases m p) as [L|G].
    - destruct (iter_prefix m p s s (Nat.lt_le_incl _ _ L) R) as (u & ->). discriminate.
    - replace m with (p + (m - p))%nat by lia. rewrite (iter_add p (m - p) s s R). apply IH. lia.
  Qed.

  (** the states of a walk that ends after round [k] are pairwise distinct *)
  Fixpoint states (k : nat) (s : state) : list state :=
    match k with
    | O => []
    | S k' => s :: match next s with Some t => states k' t | None => [] end
    end.

  Lemma states_length : forall k s t, iter k s = Some t -> length (states (S k) s) = S k.
  Proof.
    induction k as [|k IH]; intros s t I; [cbn; destruct (next s); reflexivity|].
    cbn [iter] in I. change (states (S (S k)) s) with (s :: match next s with Some t0 => states (S k) t0 | None => [] end).
    cbn [length]. destruct (next s) as [u|] eqn:N; [|discriminate].
    f_equal. exact (IH u t I).
  Qed.

  Lemma in_states : forall k s x, In x (states k s) -> exists i, (i < k)%nat /\ iter i s = Some x.
  Proof.
    induction k as [|k IH]; intros s x I; [contradiction|].
    cbn [states] in I. destruct I as [<- | I]; [exists O; split; [lia | reflexivity]|].
    destruct (next s) as [t|] eqn:N; [|contradiction].
    destruct (IH t x I) as (i & L & E). exists (S i). split; [lia|]. cbn [iter]. rewrite N. exact E.
  Qed.

  Lemma state_eq_dec (a b : state) : {a = b} + {a <> b}.
  Proof. decide equality; apply bytes_eq_dec. Qed.

  Lemma states_nodup : forall k s t, iter k s = Some t -> next t = None -> NoDup (states (S k) s).
  Proof.
    induction k as [|k IH]; intros s t I E.
    - inversion I; subst. cbn [states]. rewrite E. constructor; [intros [] | constructor].
    - cbn [iter] in I. destruct (next s) as [u|] eqn:N; [|discriminate].
      change (states (S (S k)) s) with (s :: match next s with Some t0 => states (S k) t0 | None => [] end).
      rewrite N. constructor; [|exact (IH u t I E)].
      intro X. destruct (in_states _ _ _ X) as (i & L & R).
      (* s recurs after i+1 rounds: the sequence from s cannot end, but it ends at round k+1 *)
      assert (RS : iter (S i) s = Some s) by (cbn [iter]; rewrite N; exact R).
      assert (END : iter (S (S k)) s = None).
      { replace (S (S k)) with (S k + 1)%nat by lia.
        rewrite (iter_add (S k) 1 s t) by (cbn [iter]; rewrite N; exact I).
        cbn [iter]. rewrite E. reflexivity. }
      exact (recur_never_ends s (S i) (Nat.lt_0_succ _) RS _ END).
  Qed.

  Lemma states_incl_succ : forall m s x, In x (states m s) -> In x (states (S m) s).
  Proof.
    induction m as [|m IH]; intros s x X; [contradiction|].
    change (states (S (S m)) s) with (s :: match next s with Some t0 => states (S m) t0 | None => [] end).
    cbn [states] in X. destruct X as [<- | X]; [left; reflexivity|]. right.
    destruct (next s) as [u|]; [apply IH; exact X | contradiction].
  Qed.

  Lemma nodup_states_pred : forall m s, NoDup (states (S m) s) -> NoDup (states m s).
  Proof.
    induction m as [|m IH]; intros s Y; [constructor|].
    change (states (S (S m)) s) with (s :: match next s with Some t0 => states (S m) t0 | None => [] end) in Y.
    cbn [states]. inversion Y as [|? ? NI ND']; subst. destruct (next s) as [u|].
    - constructor; [intro X; apply NI, states_incl_succ, X | apply IH, ND'].
    - constructor; [intros [] | constructor].
  Qed.

  (** every state before the end has its hash among the hashes of the nodes and a suffix of the start key *)
  Fixpoint suffixes (k : bytes) : list bytes :=
    match k with [] => [[]] | _ :: r => k :: suffixes r end.

  Lemma suffixes_length k : length (suffixes k) = S (length k).
  Proof. induction k as [|b k IH]; [reflexivity|]. cbn [suffixes length]. rewrite IH. reflexivity. Qed.

  Lemma in_suffixes p r : In r (suffixes (p ++ r)).
  Proof.
    induction p as [|b p IH]; cbn [app].
    - destruct r; left; reflexivity.
    - cbn [suffixes]. right. exact IH.
  Qed.

  Lemma suffix_trans k r r' : In r (suffixes k) -> (exists p, r = p ++ r') -> In r' (suffixes k).
  Proof.
    intros I (p & ->). induction k as [|b k IH].
    - cbn in I. destruct I as [E|[]]. symmetry in E. apply app_eq_nil in E. destruct E as [_ ->]. left. reflexivity.
    - cbn [suffixes] in I. destruct I as [E | I].
      + rewrite E. apply in_suffixes.
      + cbn [suffixes]. right. apply IH. exact I.
  Qed.

  Definition valid (key0 : bytes) (s : state) : Prop :=
    In (fst s) (map keccak256 nodes) /\ In (snd s) (suffixes key0).

  Lemma next_valid key0 s t :
    In (snd s) (suffixes key0) -> next s = Some t -> valid key0 s /\ In (snd t) (suffixes key0).
  Proof.
    unfold next. intros K N.
    destruct (find_node nodes (fst s)) as [buf|] eqn:F; [|discriminate].
    destruct (decode_node buf) as [n|]; [|discriminate].
    destruct (get n (snd s)) as [|rest h|v|] eqn:G; try discriminate. inversion N; subst. cbn [fst snd].
    split.
    - split; [|exact K]. rewrite <- (find_node_hash keccak256 _ _ _ F). apply in_map. eapply find_node_in; exact F.
    - eapply suffix_trans; [exact K|]. eapply get_rest_suffix; exact G.
  Qed.

  Lemma states_valid key0 : forall k s t,
    In (snd s) (suffixes key0) -> iter k s = Some t ->
    forall x, In x (states k s) -> valid key0 x.
  Proof.
    induction k as [|k IH]; intros s t K I x X; [contradiction|].
    cbn [iter] in I. cbn [states] in X. destruct (next s) as [u|] eqn:N; [|discriminate].
    destruct (next_valid key0 s u K N) as [V K'].
    destruct X as [<- | X]; [exact V | exact (IH u t K' I x X)].
  Qed.

  Lemma valid_in_prod key0 s : valid key0 s -> In s (list_prod (map keccak256 nodes) (suffixes key0)).
  Proof. destruct s as [w k]. intros [A B]. apply in_prod; assumption. Qed.

  (** a walk that answers does so within (#nodes x #suffixes) + 1 rounds *)
  Theorem walk_ends_within f want key0 :
    definitive (walk f want key0) ->
    walk (S (length nodes * S (length key0))) want key0 = walk f want key0.
  Proof.
    intro D. destruct (definitive_ends f (want, key0) D) as (k & t & L & I & E & W). cbn [fst snd] in *.
    (* the k states before the last one are distinct and valid *)
    assert (ND : NoDup (states k (want, key0))) by (apply nodup_states_pred, (states_nodup k _ t I E)).
    assert (VL : forall x, In x (states k (want, key0)) -> valid key0 x).
    { apply (states_valid key0 k (want, key0) t); [|exact I]. cbn [snd]. apply (in_suffixes []). }
    assert (LEN : (k <= length nodes * S (length key0))%nat).
    { assert (LS : length (states k (want, key0)) = k).
      { destruct k as [|k]; [reflexivity|].
        destruct (iter_prefix k (S k) _ t (Nat.le_succ_diag_r k) I) as (u & Iu). exact (states_length k _ u Iu). }
      rewrite <- LS.
      replace (length nodes * S (length key0))%nat with (length (list_prod (map keccak256 nodes) (suffixes key0))).
      - apply NoDup_incl_length; [exact ND|]. intros x X. apply valid_in_prod, VL, X.
      - rewrite prod_length, map_length, suffixes_length. reflexivity. }
    (* so the budget covers rounds 0..k *)
    rewrite W.
    replace (S (length nodes * S (length key0))) with (k + S (length nodes * S (length key0) - k))%nat by lia.
    rewrite (iter_walk k (want, key0) t _ I). cbn [fst snd].
    apply (walk_done _ t E).
  Qed.
End Loop.

(** ** Consequences for [mpt_verify_g] *)
Section Verifier.
  Variable keccak256 : bytes -> bytes.

  Lemma length_nibbles k : length (nibbles k) = (2 * length k)%nat.
  Proof. induction k as [|b k IH]; [reflexivity|]. cbn [nibbles length]. rewrite IH. lia. Qed.

  Lemma walk_fuel_covers nodes key :
    (S (length nodes * S (length (keybytes_to_hex key))) <= walk_fuel nodes key)%nat.
  Proof.
    unfold walk_fuel, keybytes_to_hex. rewrite app_length, length_nibbles. cbn [length].
    apply le_n_S. replace (2 * length key + 1)%nat with (S (2 * length key)) by lia.
    apply Nat.mul_le_mono_r. lia.
  Qed.

  (** [mpt_verify_g] returns [v] exactly when the node list resolves the key to [v] in ANY number of rounds *)
  Theorem mpt_verify_g_iff_resolves root key nodes v :
    mpt_verify_g keccak256 root key nodes = Some v <-> resolves keccak256 nodes root key v.
  Proof.
    split; [apply mpt_verify_g_resolves|].
    intros (fuel & R).
    apply (mpt_verify_g_of_walk keccak256 root key nodes (S (length nodes * S (length (keybytes_to_hex key)))) v).
    - rewrite (walk_ends_within keccak256 nodes fuel root (keybytes_to_hex key)) by (eapply answer_definitive; exact R).
      exact R.
    - apply walk_fuel_covers.
  Qed.

  (** [WLoop] of the budgeted walk means: no number of rounds gives an answer (the Go loop does not end with a value
      or with "absent") *)
  Theorem wloop_means_no_answer root key nodes :
    EvmProofMpt.walk keccak256 nodes (walk_fuel nodes key) root (keybytes_to_hex key) = WLoop ->
    forall fuel, ~ definitive (EvmProofMpt.walk keccak256 nodes fuel root (keybytes_to_hex key)).
  Proof.
    intros W fuel D.
    pose proof (walk_ends_within keccak256 nodes fuel root (keybytes_to_hex key) D) as E.
    assert (D' : definitive (EvmProofMpt.walk keccak256 nodes (S (length nodes * S (length (keybytes_to_hex key)))) root
                                              (keybytes_to_hex key))) by (rewrite E; exact D).
    rewrite <- (walk_fuel_mono keccak256 nodes _ root (keybytes_to_hex key) D' _ (walk_fuel_covers nodes key)) in D'.
    rewrite W in D'. exact D'.
  Qed.

  (** ** Exact characterisation with the trie library inside the model: accepted IFF the gates hold and the proof's
      own node lists, read as node databases, resolve keccak(contract) under the stored root to the account the
      record's fields rebuild, and keccak(slot of this path) under that account's storage root to a canonical RLP
      string whose left-padding to 32 bytes is the value. *)
  Variable json_proof : bytes -> option proof_rec.

  Theorem verify_mpt_ok_iff cs cstore oh op ack src dst seq c :
    EvmProof.verify keccak256 (mpt_verify_g keccak256) json_proof cs cstore oh op ack src dst seq c = Ok tt <->
    exists h p, oh = Some h /\ op = Some p /\
      exists r rootb sp v t,
        height_lt (cs_head cs) h = false /\
        rn h = rn (cs_head cs) /\
        json_proof p = Some r /\
        cstore (consensus_key h) = ConsRoot rootb /\
        delay_block cs <= sub64 (rh (cs_head cs)) (rh h) /\
        from_hex (p_address r) = cs_contract cs /\
        resolves keccak256 (map from_hex (p_account_proof r)) (bytes_to_hash rootb) (keccak256 (cs_contract cs))
                 (rlp_account (account_of_record r)) /\
        p_storage_proof r = [Some sp] /\
        hex_to_hash (sr_key sp) = proof_key keccak256 ack src dst seq /\
        resolves keccak256 (map from_hex (sr_proof sp)) (a_storage (account_of_record r))
                 (keccak256 (proof_key keccak256 ack src dst seq)) v /\
        rlp_decode_bytes v = Some t /\ left_pad32 t = c.
  Proof.
    rewrite verify_ok_iff_plain. split.
    - intros (h & p & E1 & E2 & r & rootb & sp & v & t & G & RV & J & S & D & A & M1 & SP & K & M2 & C1 & C2).
      exists h, p. split; [exact E1|]. split; [exact E2|]. exists r, rootb, sp, v, t.
      apply mpt_verify_g_iff_resolves in M1, M2.
      repeat (split; [assumption|]). assumption.
    - intros (h & p & E1 & E2 & r & rootb & sp & v & t & G & RV & J & S & D & A & M1 & SP & K & M2 & C1 & C2).
      exists h, p. split; [exact E1|]. split; [exact E2|]. exists r, rootb, sp, v, t.
      apply mpt_verify_g_iff_resolves in M1, M2.
      repeat (split; [assumption|]). assumption.
  Qed.

  (** completeness without a round budget: the honest rendering of node lists that resolve the two keys is accepted *)
  Theorem honest_accepted_resolves cs cstore h p ack src dst seq c rootb a acct_nodes st_nodes value :
    rn h = rn (cs_head cs) -> rh h <= rh (cs_head cs) -> h64 (cs_head cs) ->
    delay_block cs <= rh (cs_head cs) - rh h ->
    json_proof p = Some (honest_record (cs_contract cs) a (proof_key keccak256 ack src dst seq) acct_nodes st_nodes value) ->
    cstore (consensus_key h) = ConsRoot rootb ->
    a_nonce a < 2 ^ 256 -> a_balance a < 2 ^ 256 -> length (a_storage a) = 32%nat -> length (a_code a) = 32%nat ->
    length (proof_key keccak256 ack src dst seq) = 32%nat ->
    resolves keccak256 acct_nodes (bytes_to_hash rootb) (keccak256 (cs_contract cs)) (rlp_account a) ->
    resolves keccak256 st_nodes (a_storage a) (keccak256 (proof_key keccak256 ack src dst seq)) (rlp_string (strip_zeros c)) ->
    length c = 32%nat ->
    EvmProof.verify keccak256 (mpt_verify_g keccak256) json_proof cs cstore (Some h) (Some p) ack src dst seq c = Ok tt.
  Proof.
    intros ER LE HH D J S Hn Hb Hs Hc Hk W1 W2 L.
    eapply honest_accepted; try eassumption; apply mpt_verify_g_iff_resolves; assumption.
  Qed.
End Verifier.
