(** Packet core: the exact effect of an accepted receive addressed to this chain (C04 failed-callback clause, C05).
    msg_server.go RecvPacket runs the destination callback on a branch of the state that is written back only for a
    nil error AND result code 0; receipt and acknowledgement are written on the parent in every case. *)
From Teleport Require Import Base.Bytes Base.Outcome Base.AList Model.Packet
     Proofs.Packet Proofs.PacketC01 Proofs.PacketC02 Proofs.PacketC05 Proofs.PacketC04.
Local Open Scope N_scope.

Section Cb.
  Variable P : params.

  Local Notation slog s := (log (st_app s)).

  (** what is left of an accepted receive whose callback did not persist: receipt + acknowledgement hash + one ghost event *)
  Definition recv_min (s : cstate) (t : triple) (h : bytes) : cstate :=
    add_log (EvAckWritten t h) (set_kv (akey P t) h (set_kv (rkey P t) receipt_value s)).

  (** the callback's outcome as seen by the message server, in the state [s1] that already holds the receipt *)
  Definition cb_persists (s1 : cstate) (p : packet) (cb : cbres) : option cstate :=
    match call_packet P s1 (EvOnRecv p) cb, cb_ret cb with
    | Ok s2, Some (code, _, _) => if code =? 0 then Some s2 else None
    | _, _ => None
    end.

  Theorem recv_step_exact env s m cb s' :
    exec P env s (ARecv m cb) = Ok s' ->
    let p := fst (decode P (rm_packet m)) in
    p_dst p = st_name s ->
    let t := triple_of p in
    let s1 := set_kv (rkey P t) receipt_value s in
    exists h,
      match cb_persists s1 p cb with
      | Some s2 =>
          (* callback returned code 0: its effects (incl. the sends of its PacketSent logs) are kept *)
          s' = add_log (EvAckWritten t h) (set_kv (akey P t) h s2)
      | None =>
          (* callback failed (revert, a nested send refused, another hook failing) or reported a non-zero code:
             NOTHING of it persists — no commitment, no counter change, no ghost event of the contract *)
          s' = recv_min s t h
      end.
  Proof.
    intros E p Dst t s1. cbn [exec] in E. apply recv_handler_ok in E. cbv zeta in E. fold p in E.
    destruct E as (s1' & relayer & RK & _ & _ & Cases).
    pose proof (recv_keeper_ok P _ _ _ _ RK) as X. cbv zeta in X. fold p in X.
    destruct X as (_ & _ & _ & ct & bz & _ & _ & _ & Es1).
    assert (NR : recv_relay s p = false).
    { unfold recv_relay. destruct (aget (p_dst p) (st_clients s)); [|reflexivity]. rewrite Dst, bytes_eqb_refl. reflexivity. }
    rewrite NR in Es1. change (set_kv _ receipt_value s) with s1 in Es1. subst s1'.
    assert (Nm : st_name s1 = st_name s) by reflexivity.
    destruct Cases as [(_ & s3 & a & abz & PA & WA & Br)|[(Ne & _)|(Ne & _)]];
      [|exfalso; apply Ne; rewrite Nm; exact Dst|exfalso; apply Ne; rewrite Nm; exact Dst].
    apply write_ack_ok in WA as (_ & _ & _ & ->). exists (sha256 P abz).
    unfold cb_persists. fold s1.
    destruct Br as [(CE & -> & _)|(s2 & code & res & msg & CO & CR & _ & ->)].
    - rewrite CE. reflexivity.
    - rewrite CO, CR. destruct (code =? 0); reflexivity.
  Qed.

  (** corollary in the words of the property: when the callback does not persist, the store differs from the old one
      at the receipt key and the acknowledgement key only, the contract counters are the old ones and the ghost log
      grew by the ack-written event alone *)
  Corollary failed_callback_noop env s m cb s' :
    exec P env s (ARecv m cb) = Ok s' ->
    let p := fst (decode P (rm_packet m)) in
    p_dst p = st_name s ->
    cb_persists (set_kv (rkey P (triple_of p)) receipt_value s) p cb = None ->
    (exists h, slog s' = slog s ++ [EvAckWritten (triple_of p) h]) /\
    cseq (st_app s') = cseq (st_app s) /\ st_clients s' = st_clients s /\ st_relayers s' = st_relayers s /\
    (forall k, k <> rkey P (triple_of p) -> k <> akey P (triple_of p) -> sget k s' = sget k s).
  Proof.
    intros E p Dst CB. destruct (recv_step_exact _ _ _ _ _ E Dst) as [h H]. fold p in H. rewrite CB in H. subst s'.
    split; [exists h; reflexivity|]. split; [reflexivity|]. split; [reflexivity|]. split; [reflexivity|].
    intros k N1 N2. unfold recv_min. rewrite sget_add_log, !sget_set_kv_other by assumption. reflexivity.
  Qed.

  (** when does the callback not persist: the call itself fails, a send of its PacketSent logs is refused, the
      return data does not unpack, or the result code is not 0 *)
  Lemma cb_persists_none s1 p cb :
    cb_fail cb = true \/ cb_ret cb = None \/ (exists c r m, cb_ret cb = Some (c, r, m) /\ c <> 0) \/
    (forall s2, hook_sends P (add_log (EvOnRecv p) s1) (cb_sends cb) <> Ok s2) ->
    cb_persists s1 p cb = None.
  Proof.
    unfold cb_persists, call_packet. intros [F|[R|[(c & r & m & R & Nz)|H]]].
    - rewrite F. reflexivity.
    - rewrite R. destruct (if cb_fail cb then _ else _); reflexivity.
    - rewrite R. destruct (if cb_fail cb then _ else _); try reflexivity.
      destruct (N.eqb_spec c 0); [contradiction | reflexivity].
    - destruct (cb_fail cb); [reflexivity|].
      destruct (hook_sends P (add_log (EvOnRecv p) s1) (cb_sends cb)) as [s2| |] eqn:E; try reflexivity.
      exfalso. exact (H _ eq_refl).
  Qed.
End Cb.
