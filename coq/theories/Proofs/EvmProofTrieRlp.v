(** Framing of RLP items as go-ethereum's rlp/raw.go reads them (Model/EvmProofMpt.v: [read_kind], [rlp_split],
    [split_string], [split_list], [count_values]) on what the encoder of Model/EvmProof.v writes ([rlp_header],
    [rlp_string], [rlp_list]): an encoded item followed by anything is split into exactly its content and the rest,
    and [CountValues] of a concatenation of items is their number. *)
From Teleport Require Import Base.Bytes Base.Outcome Model.EvmProof Model.EvmProofMpt Proofs.EvmProofRlp.
From Coq Require Import ZifyN ZifyNat.
Local Open Scope N_scope.
Ltac Zify.zify_post_hook ::= Z.div_mod_to_equations.

(** ** framing of RLP items as [rlp/raw.go] reads them *)

Lemma read_size_len_bytes len rest :
  56 <= len < two64 -> read_size (len_bytes len ++ rest) (length (len_bytes len)) = Some len.
Proof.
  intros [L H]. destruct (len_bytes_spec len) as (V & LB & l0 & r & EQ & NZ); [lia|].
  unfold read_size. rewrite app_length.
  replace (length (len_bytes len) + length rest <? length (len_bytes len))%nat with false
    by (symmetry; apply Nat.ltb_ge; lia).
  rewrite firstn_app_exact. rewrite EQ. rewrite <- EQ, V.
  replace (len <? 56) with false by (symmetry; apply N.ltb_ge; lia).
  replace (Byte.eqb l0 x00) with false by (symmetry; apply byte_eqb_false; exact NZ). reflexivity.
Qed.

(** a header [rlp_header base len] followed by [len] payload bytes and anything else *)
Lemma read_kind_header base (kind : rkind) payload rest :
  (base = 128 \/ base = 192) ->
  N.of_nat (length payload) < two64 ->
  (base = 128 -> match payload with [x] => 128 <= nb x | _ => True end) ->
  read_kind (rlp_header base (N.of_nat (length payload)) ++ payload ++ rest) =
  Some (if base =? 128 then KString else KList,
        N.of_nat (length (rlp_header base (N.of_nat (length payload)))), N.of_nat (length payload)).
Proof.
  intros HB HL HC. set (len := N.of_nat (length payload)) in *.
  unfold rlp_header. fold (len_bytes len).
  destruct (len <=? 55) eqn:E; [apply N.leb_le in E | apply N.leb_gt in E].
  - cbn [app length]. unfold read_kind.
    rewrite nb_byte_of_N, N.mod_small by lia.
    destruct HB as [-> | ->].
    + replace (128 + len <? 128) with false by (symmetry; apply N.ltb_ge; lia).
      replace (128 + len <? 184) with true by (symmetry; apply N.ltb_lt; lia).
      replace (128 + len - 128) with len by lia.
      assert (CAN : (len =? 1) && match payload ++ rest with [] => false | x :: _ => nb x <? 128 end = false).
      { destruct (len =? 1) eqn:E1; [|reflexivity]. apply N.eqb_eq in E1. cbn [andb].
        destruct payload as [|x [|y p]]; cbn [length] in len; subst len; try lia.
        cbn [app]. specialize (HC eq_refl). apply N.ltb_ge. exact HC. }
      rewrite CAN. cbn [length app].
      replace (N.of_nat (S (length (payload ++ rest))) - 1 <? len) with false
        by (symmetry; apply N.ltb_ge; rewrite app_length; lia).
      reflexivity.
    + replace (192 + len <? 128) with false by (symmetry; apply N.ltb_ge; lia).
      replace (192 + len <? 184) with false by (symmetry; apply N.ltb_ge; lia).
      replace (192 + len <? 192) with false by (symmetry; apply N.ltb_ge; lia).
      replace (192 + len <? 248) with true by (symmetry; apply N.ltb_lt; lia).
      replace (192 + len - 192) with len by lia. cbn [length].
      replace (N.of_nat (S (length (payload ++ rest))) - 1 <? len) with false
        by (symmetry; apply N.ltb_ge; rewrite app_length; lia).
      reflexivity.
  - destruct (len_bytes_spec len) as (V & LB & l0 & r & EQ & NZ); [lia|].
    set (k := length (len_bytes len)) in *.
    cbn [app]. unfold read_kind.
    rewrite nb_byte_of_N, N.mod_small by lia.
    destruct HB as [-> | ->].
    + replace (128 + 55 + N.of_nat k <? 128) with false by (symmetry; apply N.ltb_ge; lia).
      replace (128 + 55 + N.of_nat k <? 184) with false by (symmetry; apply N.ltb_ge; lia).
      replace (128 + 55 + N.of_nat k <? 192) with true by (symmetry; apply N.ltb_lt; lia).
      replace (128 + 55 + N.of_nat k - 183) with (N.of_nat k) by lia. rewrite Nat2N.id.
      unfold k. rewrite read_size_len_bytes by lia. fold k.
      cbn [length]. rewrite !app_length. fold k.
      replace (N.of_nat (S (k + (length payload + length rest))) - (N.of_nat k + 1) <? len) with false
        by (symmetry; apply N.ltb_ge; lia).
      change (128 =? 128) with true. cbn iota. f_equal. f_equal. f_equal. lia.
    + replace (192 + 55 + N.of_nat k <? 128) with false by (symmetry; apply N.ltb_ge; lia).
      replace (192 + 55 + N.of_nat k <? 184) with false by (symmetry; apply N.ltb_ge; lia).
      replace (192 + 55 + N.of_nat k <? 192) with false by (symmetry; apply N.ltb_ge; lia).
      replace (192 + 55 + N.of_nat k <? 248) with false by (symmetry; apply N.ltb_ge; lia).
      replace (192 + 55 + N.of_nat k - 247) with (N.of_nat k) by lia. rewrite Nat2N.id.
      unfold k. rewrite read_size_len_bytes by lia. fold k.
      cbn [length]. rewrite !app_length. fold k.
      replace (N.of_nat (S (k + (length payload + length rest))) - (N.of_nat k + 1) <? len) with false
        by (symmetry; apply N.ltb_ge; lia).
      change (192 =? 128) with false. cbn iota. f_equal. f_equal. f_equal. lia.
Qed.

Lemma rlp_split_header base payload rest :
  (base = 128 \/ base = 192) ->
  N.of_nat (length payload) < two64 ->
  (base = 128 -> match payload with [x] => 128 <= nb x | _ => True end) ->
  rlp_split (rlp_header base (N.of_nat (length payload)) ++ payload ++ rest) =
  Some (if base =? 128 then KString else KList, payload, rest).
Proof.
  intros HB HL HC. unfold rlp_split. rewrite (read_kind_header base KString payload rest HB HL HC).
  set (hdr := rlp_header base (N.of_nat (length payload))).
  replace (N.to_nat (N.of_nat (length hdr) + N.of_nat (length payload))) with (length hdr + length payload)%nat by lia.
  rewrite !Nat2N.id, skipn_app_exact, firstn_app_exact.
  replace (hdr ++ payload ++ rest) with ((hdr ++ payload) ++ rest) by (rewrite app_assoc; reflexivity).
  rewrite <- app_length, skipn_app_exact. reflexivity.
Qed.

Lemma split_list_encode payload rest :
  N.of_nat (length payload) < two64 ->
  split_list (rlp_header 192 (N.of_nat (length payload)) ++ payload ++ rest) = Some (payload, rest).
Proof.
  intro HL. unfold split_list. rewrite (rlp_split_header 192 payload rest) by (auto; discriminate). reflexivity.
Qed.

(** a string item: kind [KByte] for a single byte below 0x80, else [KString] *)
Lemma rlp_split_string_item b rest :
  N.of_nat (length b) < two64 ->
  exists k, rlp_split (rlp_string b ++ rest) = Some (k, b, rest) /\ k <> KList.
Proof.
  intro HL. unfold rlp_string. destruct b as [|x [|y b]].
  - exists KString. change (rlp_header 128 (N.of_nat (length (@nil byte))) ++ [] ++ rest) with (x80 :: rest).
    split; [|discriminate].
    exact (rlp_split_header 128 [] rest (or_introl eq_refl) HL (fun _ => I)).
  - destruct (nb x <? 128) eqn:E.
    + exists KByte. split; [|discriminate]. cbn [app]. unfold rlp_split, read_kind. rewrite E.
      cbn [length]. replace (N.of_nat (S (length rest)) - 0 <? 1) with false by (symmetry; apply N.ltb_ge; lia).
      reflexivity.
    + exists KString. split; [|discriminate].
      apply N.ltb_ge in E.
      exact (rlp_split_header 128 [x] rest (or_introl eq_refl) HL (fun _ => E)).
  - exists KString. split; [|discriminate].
    rewrite <- app_assoc.
    exact (rlp_split_header 128 (x :: y :: b) rest (or_introl eq_refl) HL (fun _ => I)).
Qed.

Lemma split_string_encode b rest :
  N.of_nat (length b) < two64 -> split_string (rlp_string b ++ rest) = Some (b, rest).
Proof.
  intro HL. destruct (rlp_split_string_item b rest HL) as (k & E & NL). unfold split_string. rewrite E.
  destruct k; [reflexivity | reflexivity | contradiction].
Qed.

(** ** items and [CountValues] *)
Definition item (e : bytes) : Prop :=
  e <> [] /\ forall rest, exists k ts cs, read_kind (e ++ rest) = Some (k, ts, cs) /\ N.to_nat (ts + cs) = length e.

Lemma rlp_header_nonempty base len : rlp_header base len <> [].
Proof. unfold rlp_header. destruct (len <=? 55); discriminate. Qed.

Lemma item_list payload : N.of_nat (length payload) < two64 -> item (rlp_header 192 (N.of_nat (length payload)) ++ payload).
Proof.
  intro HL. split.
  - intro E. apply app_eq_nil in E. destruct E as [E _]. exact (rlp_header_nonempty _ _ E).
  - intro rest. rewrite <- app_assoc.
    rewrite (read_kind_header 192 KList payload rest (or_intror eq_refl) HL) by discriminate.
    eexists _, _, _. split; [reflexivity|]. rewrite app_length. lia.
Qed.

Lemma item_string b : N.of_nat (length b) < two64 -> item (rlp_string b).
Proof.
  intro HL. unfold rlp_string. destruct b as [|x [|y b]].
  - split; [discriminate|]. intro rest.
    rewrite <- app_assoc.
    rewrite (read_kind_header 128 KString [] rest (or_introl eq_refl) HL (fun _ => I)).
    eexists _, _, _. split; [reflexivity|]. rewrite app_length. cbn [length]. lia.
  - destruct (nb x <? 128) eqn:E.
    + split; [discriminate|]. intro rest. cbn [app]. unfold read_kind. rewrite E. cbn [length].
      replace (N.of_nat (S (length rest)) - 0 <? 1) with false by (symmetry; apply N.ltb_ge; lia).
      eexists _, _, _. split; [reflexivity|]. reflexivity.
    + apply N.ltb_ge in E. split.
      * intro Q. apply app_eq_nil in Q. destruct Q as [Q _]. exact (rlp_header_nonempty _ _ Q).
      * intro rest. rewrite <- app_assoc.
        change (rlp_header 128 1) with (rlp_header 128 (N.of_nat (length [x]))).
        rewrite (read_kind_header 128 KString [x] rest (or_introl eq_refl) HL (fun _ => E)).
        eexists _, _, _. split; [reflexivity|]. rewrite app_length. cbn [length]. lia.
  - split.
    + intro Q. apply app_eq_nil in Q. destruct Q as [Q _]. exact (rlp_header_nonempty _ _ Q).
    + intro rest. rewrite <- app_assoc.
      rewrite (read_kind_header 128 KString (x :: y :: b) rest (or_introl eq_refl) HL (fun _ => I)).
      eexists _, _, _. split; [reflexivity|]. rewrite app_length. lia.
Qed.

Lemma count_values_step b f : b <> [] ->
  count_values_fuel (S f) b =
  match read_kind b with
  | None => None
  | Some (_, ts, cs) =>
      match count_values_fuel f (skipn (N.to_nat (ts + cs)) b) with Some c => Some (S c) | None => None end
  end.
Proof. destruct b; [contradiction | reflexivity]. Qed.

Lemma count_values_items : forall items f,
  Forall item items -> (length (concat items) <= f)%nat ->
  count_values_fuel f (concat items) = Some (length items).
Proof.
  induction items as [|e items IH]; intros f F L.
  - cbn. destruct f; reflexivity.
  - inversion F as [|? ? [NE IT] F']; subst. cbn [concat] in *.
    destruct (IT (concat items)) as (k & ts & cs & RK & SZ).
    assert (LE : (1 <= length e)%nat) by (destruct e; [contradiction | cbn; lia]).
    rewrite app_length in L.
    destruct f as [|f]; [lia|].
    rewrite count_values_step by (intro Q; apply app_eq_nil in Q; destruct Q; contradiction).
    rewrite RK, SZ, skipn_app_exact, (IH f F') by lia. reflexivity.
Qed.
