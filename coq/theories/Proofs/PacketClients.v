(** Client-store layer over the packet model: refinement and the C02 statements about accepted heights. *)
From Teleport Require Import Base.Bytes Base.Outcome Base.AList Model.Packet Model.PacketClients
     Proofs.Packet Proofs.PacketC02.
Local Open Scope N_scope.

Lemma height_eqb_eq a b : height_eqb a b = true <-> a = b.
Proof.
  destruct a as [a1 a2], b as [b1 b2]. unfold height_eqb. cbn. rewrite andb_true_iff, !N.eqb_eq.
  split; [intros [-> ->]; reflexivity | intro H; inversion H; auto].
Qed.

Lemma has_height_In cs n h : has_height cs n h = true <-> In h (heights_of cs n).
Proof.
  unfold has_height. rewrite existsb_exists. split.
  - intros (x & I & E). apply height_eqb_eq in E. subst; exact I.
  - intro I. exists h. split; [exact I | apply height_eqb_eq; reflexivity].
Qed.

Section Clients.
  Variable P : params.

  (** the layer only ever REJECTS more: an accepted step of the layer is an accepted step of the packet model with the
      same resulting packet state *)
  Lemma deliver2_ok env s cs a s' : deliver2 P env s cs a = Ok s' -> deliver P env s a = Ok s'.
  Proof. unfold deliver2. destruct (at_accepted P s cs a); [auto | discriminate]. Qed.

  Lemma step2_step sc o :
    (snd (step2 P sc o) = true /\ step P (fst sc) (fst o) = (fst (fst (step2 P sc o)), true)) \/
    (snd (step2 P sc o) = false /\ fst (step2 P sc o) = sc).
  Proof.
    destruct sc as [s cs]. unfold step2. destruct (deliver2 P (fst (fst o)) s cs (snd (fst o))) as [s'| |] eqn:D.
    - left. split; [reflexivity|]. cbn [fst]. unfold step. rewrite (deliver2_ok _ _ _ _ _ D). reflexivity.
    - right. split; reflexivity.
    - right. split; reflexivity.
  Qed.

  (** every packet state reached by the layer is reached by the packet model alone on the accepted operations: all
      theorems over [run] (C01 C04 C05) hold of the layered model *)
  Fixpoint accepted2 (sc : cstate * cstore) (l : list op2) : list op :=
    match l with
    | [] => []
    | o :: l' => if snd (step2 P sc o) then fst o :: accepted2 (fst (step2 P sc o)) l' else accepted2 (fst (step2 P sc o)) l'
    end.

  Theorem run2_as_run l : forall sc, fst (run2 P sc l) = run P (fst sc) (accepted2 sc l).
  Proof.
    induction l as [|o l IH]; intro sc; cbn [run2 accepted2]; [reflexivity|].
    destruct (step2_step sc o) as [[A S] | [A S]]; rewrite A.
    - cbn [run]. rewrite S. cbn [fst]. apply IH.
    - rewrite S. apply IH.
  Qed.

  (** C02: an accepted receive / acknowledgement through a proof-verifying (non-TSS) client carries a proof height at
      which the PRESENT client instance holds a consensus state it accepted itself — in addition to [recv_verified] /
      [ack_verified] *)
  Theorem recv_at_accepted_height env s cs m cb s' :
    deliver2 P env s cs (ARecv m cb) = Ok s' ->
    recv_verified P env s m /\
    forall ct, aget (p_src (fst (decode P (rm_packet m)))) (st_clients s) = Some ct -> is_tss ct = false ->
               In (rm_height m) (heights_of cs (p_src (fst (decode P (rm_packet m))))).
  Proof.
    unfold deliver2. destruct (at_accepted P s cs (ARecv m cb)) eqn:A; [|discriminate]. intro D.
    split; [eapply recv_accepted_verified; exact (deliver_ok _ _ _ _ _ D)|].
    intros ct C T. cbn [at_accepted] in A. rewrite C, T in A. cbn [orb] in A. apply has_height_In; exact A.
  Qed.

  Theorem ack_at_accepted_height (Sh : forall x, sha256 P x <> []) env s cs m cb1 cb2 cb3 s' :
    deliver2 P env s cs (AAck m cb1 cb2 cb3) = Ok s' ->
    ack_verified P env s m /\
    forall ct, aget (p_dst (fst (decode P (am_packet m)))) (st_clients s) = Some ct -> is_tss ct = false ->
               In (am_height m) (heights_of cs (p_dst (fst (decode P (am_packet m))))).
  Proof.
    unfold deliver2. destruct (at_accepted P s cs (AAck m cb1 cb2 cb3)) eqn:A; [|discriminate]. intro D.
    split; [eapply ack_accepted_verified; [exact Sh | exact (deliver_ok _ _ _ _ _ D)]|].
    intros ct C T. cbn [at_accepted] in A. rewrite C, T in A. cbn [orb] in A. apply has_height_In; exact A.
  Qed.

  (** after an accepted ToggleClient (or CreateClient) the client holds exactly the consensus states the new instance
      wrote: none of the old heights *)
  Theorem toggle_forgets_old_heights env s cs n c ok w s' cs' :
    step2 P (s, cs) ((env, AToggleClient n c ok), w) = ((s', cs'), true) -> heights_of cs' n = w.
  Proof.
    unfold step2. cbn [fst snd]. destruct (deliver2 P env s cs (AToggleClient n c ok)) as [s1| |]; intro H; inversion H; subst.
    unfold heights_of. cbn [cs_step]. rewrite aget_aset, bytes_eqb_refl. reflexivity.
  Qed.

  (** hence a message whose proof height was accepted only by an EARLIER instance of the client is rejected, state equal *)
  Theorem recv_at_forgotten_height_rejected env s cs m cb ct :
    aget (p_src (fst (decode P (rm_packet m)))) (st_clients s) = Some ct -> is_tss ct = false ->
    ~ In (rm_height m) (heights_of cs (p_src (fst (decode P (rm_packet m))))) ->
    forall w, step2 P (s, cs) ((env, ARecv m cb), w) = ((s, cs), false).
  Proof.
    intros C T N w. unfold step2, deliver2. cbn [fst snd at_accepted]. rewrite C, T. cbn [orb].
    destruct (has_height cs _ (rm_height m)) eqn:H; [apply has_height_In in H; contradiction | reflexivity].
  Qed.

  Theorem ack_at_forgotten_height_rejected env s cs m cb1 cb2 cb3 ct :
    aget (p_dst (fst (decode P (am_packet m)))) (st_clients s) = Some ct -> is_tss ct = false ->
    ~ In (am_height m) (heights_of cs (p_dst (fst (decode P (am_packet m))))) ->
    forall w, step2 P (s, cs) ((env, AAck m cb1 cb2 cb3), w) = ((s, cs), false).
  Proof.
    intros C T N w. unfold step2, deliver2. cbn [fst snd at_accepted]. rewrite C, T. cbn [orb].
    destruct (has_height cs _ (am_height m)) eqn:H; [apply has_height_In in H; contradiction | reflexivity].
  Qed.

  (** updates and upgrades only add heights *)
  Lemma cs_step_keeps cs a acc w n h :
    In h (heights_of cs n) ->
    match a with ARegisterClient n' _ _ | AToggleClient n' _ _ => n' <> n | _ => True end ->
    In h (heights_of (cs_step cs a acc w) n).
  Proof.
    intros I Hn. unfold cs_step. destruct acc; [|exact I].
    destruct a; try exact I; unfold heights_of in *; rewrite aget_aset;
      destruct (bytes_eqb_spec n name) as [E|E]; try exact I; subst; try contradiction;
      apply in_or_app; left; exact I.
  Qed.
End Clients.
