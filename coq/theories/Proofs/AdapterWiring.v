(** Proofs about the wiring layer (Model/AdapterWiring.v): hooks registered in any order / any number of
    times, and burns through the bank keeper a module was wired with. *)
From Teleport Require Import Base.Bytes Base.Outcome Base.AdapterWiringTypes Model.Adapter Model.AdapterNative
  Model.AdapterWiring Proofs.Adapter Proofs.AdapterNative.
Local Open Scope Z_scope.

Section MultiListFacts.
  Variable S : Type.
  Variable exec : msg -> S -> outcome S.

  (** ethermint's MultiEvmHooks over ANY registration list: the items of the first hook over the whole
      receipt, then those of the second, ... stopping at the first failure *)
  Lemma multi_hook_list_char hs : forall logs s,
    multi_hook_list exec hs logs s = run_items S exec (flat_map (fun h => filter_map (classify h) logs) hs) s.
  Proof.
    induction hs as [|h hs IH]; intros logs s; [reflexivity|].
    cbn [multi_hook_list flat_map]. rewrite run_items_app, post_tx_char.
    destruct (run_items S exec (filter_map (classify h) logs) s) as [[u| |] s1]; try reflexivity.
    apply IH.
  Qed.

  (** the registration the model transcribes is the two-element list *)
  Lemma multi_hook_is_list logs s : multi_hook exec logs s = multi_hook_list exec [HStaking; HGov] logs s.
  Proof.
    unfold multi_hook. cbn [multi_hook_list].
    destruct (post_tx exec HStaking logs s) as [[u| |] s1]; try reflexivity.
    destruct (post_tx exec HGov logs s1) as [[[]| |] s2]; reflexivity.
  Qed.

  Lemma hooks_ok_adapters l : hooks_ok l = true -> adapters_of l = [HStaking; HGov].
  Proof.
    unfold hooks_ok. generalize (adapters_of l). intros a H.
    destruct a as [|x [|y [|z a]]]; cbn in H; try discriminate;
      destruct x; cbn in H; try discriminate; destruct y; cbn in H; try discriminate. reflexivity.
  Qed.

  (** for a registration list that passes [hooks_ok], the registered chain IS the model's [multi_hook] *)
  Lemma wired_hooks_are_model l logs s :
    hooks_ok l = true -> multi_hook_list exec (adapters_of l) logs s = multi_hook exec logs s.
  Proof. intro H. rewrite (hooks_ok_adapters l H). symmetry. apply multi_hook_is_list. Qed.
End MultiListFacts.

(** ** all action sequences, burns going through the keeper each module was wired with *)
Inductive waction :=
| WAct (x : action)                                   (* a native message / a plain send / a burn through the override *)
| WBurn (who : burner) (module : bytes) (a : Z).      (* BurnCoins called by the staking or the gov keeper *)

Section WiredActions.
  Variable resolve : bytes -> option nat.
  Variable bonded_pool notbonded_pool distr_mod fee_collector : bytes.
  Variable max_entries : nat.
  Variable k_staking k_gov : bank_kind.

  Definition keeper_of (who : burner) : bank_kind := match who with BStaking => k_staking | BGov => k_gov end.

  Definition step_waction (x : waction) (s : nstate) : outcome nstate :=
    match x with
    | WAct a => step_action resolve bonded_pool notbonded_pool distr_mod fee_collector max_entries a s
    | WBurn who module a => burn_via (keeper_of who) fee_collector module a s
    end.

  Fixpoint run_wactions (l : list waction) (s : nstate) : nstate :=
    match l with
    | [] => s
    | x :: r => match step_waction x s with Ok s' => run_wactions r s' | _ => run_wactions r s end
    end.

  Theorem wired_supply_unchanged :
    k_staking = BKOverride -> k_gov = BKOverride ->
    forall l s, n_supply (run_wactions l s) = n_supply s /\ total_bal (run_wactions l s) = total_bal s.
  Proof.
    intros Hs Hg. induction l as [|x l IH]; intro s; [split; reflexivity|]. cbn [run_wactions].
    destruct (step_waction x s) as [s'| |] eqn:E; try apply IH.
    assert (C : n_supply s' = n_supply s /\ total_bal s' = total_bal s).
    { destruct x as [a | who module a]; cbn [step_waction] in E.
      - eapply step_action_conserves; eauto.
      - assert (K : keeper_of who = BKOverride) by (destruct who; assumption).
        rewrite K in E. cbn [burn_via] in E. apply burn_coins_conserves in E. tauto. }
    destruct C as [H1 H2]. destruct (IH s') as [H3 H4]. split; congruence.
  Qed.
End WiredActions.
