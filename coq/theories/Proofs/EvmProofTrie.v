(** Every well-formed abstract trie (Model/EvmProofTrie.v) is a world in the sense of Proofs/EvmProofMpt.v: its node
    database resolves every key to its content ([trie_resolves], [trie_db_value], [trie_commits]).  Steps: the compact
    encoding is inverted by [compactToHex]; [decodeNode] inverts the node encoder whatever follows the node in the
    buffer ([decode_enc]); [get] on the decoded node follows [tlookup] through embedded children and hands hash
    references to the next round of the walk ([get_means_all]).  Keccak is an arbitrary function returning 32 bytes;
    a node found under the wanted hash is the trie's node or an explicit collision. *)
From Teleport Require Import Base.Bytes Base.Outcome Model.EvmProof Model.EvmProofMpt Model.EvmProofTrie Proofs.EvmProofRlp
     Proofs.EvmProof Proofs.EvmProofMpt Proofs.EvmProofMptWf Proofs.EvmProofMptFuel Proofs.EvmProofMptLoop Proofs.EvmProofTrieRlp.
From Coq Require Import ZifyN ZifyNat.
Local Open Scope N_scope.
Ltac Zify.zify_post_hook ::= Z.div_mod_to_equations.

(** ** [compactToHex] inverts [hexToCompact] *)
Lemma nibbles_pack : forall n k, length k = (2 * n)%nat -> Forall lt16 k -> nibbles (pack k) = k.
Proof.
  induction n as [|n IH]; intros k L F.
  - destruct k; [reflexivity | discriminate].
  - destruct k as [|a [|b r]]; try (cbn in L; lia).
    inversion F as [|? ? Fa F']; subst. inversion F' as [|? ? Fb F'']; subst. unfold lt16 in Fa, Fb.
    cbn [pack nibbles]. rewrite nb_byte_of_N. rewrite (N.mod_small (16 * nb a + nb b)) by lia.
    replace ((16 * nb a + nb b) / 16) with (nb a) by lia.
    replace ((16 * nb a + nb b) mod 16) with (nb b) by lia.
    rewrite !byte_of_N_nb. rewrite (IH r); [reflexivity | cbn in L; lia | assumption].
Qed.

Lemma odd_even_length (k : bytes) : Nat.odd (length k) = false -> exists n, length k = (2 * n)%nat.
Proof.
  intro H. exists (Nat.div2 (length k)).
  pose proof (Nat.div2_odd (length k)) as E. rewrite H in E. cbn in E. lia.
Qed.

Lemma odd_length_S (k : bytes) a : Nat.odd (length (a :: k)) = true -> exists n, length k = (2 * n)%nat.
Proof.
  cbn [length]. rewrite Nat.odd_succ. intro H. rewrite <- Nat.negb_odd in H. apply negb_true_iff in H.
  apply odd_even_length. exact H.
Qed.

Lemma compact_roundtrip k term :
  Forall lt16 k -> compact_to_hex (hex_to_compact k term) = k ++ (if term then [x10] else []).
Proof.
  intro F. unfold hex_to_compact.
  destruct (Nat.odd (length k)) eqn:O.
  - destruct k as [|a r]; [discriminate|].
    destruct (odd_length_S r a O) as (n & L). inversion F as [|? ? Fa F']; subst. unfold lt16 in Fa.
    destruct term; cbv beta iota zeta.
    + unfold compact_to_hex, keybytes_to_hex. cbn [nibbles app].
      rewrite (nibbles_pack n r L F').
      assert (E : nb (byte_of_N (16 * (2 + 1) + nb a)) = 48 + nb a) by (rewrite nb_byte_of_N; apply N.mod_small; lia).
      rewrite !E.
      replace ((48 + nb a) / 16) with 3 by lia.
      replace ((48 + nb a) mod 16) with (nb a) by lia.
      rewrite byte_of_N_nb. change (nb (byte_of_N 3)) with 3.
      change (3 <? 2) with false. change (N.to_nat (2 - 3 mod 2)) with 1%nat. reflexivity.
    + unfold compact_to_hex, keybytes_to_hex. cbn [nibbles app].
      rewrite (nibbles_pack n r L F').
      assert (E : nb (byte_of_N (16 * (0 + 1) + nb a)) = 16 + nb a) by (rewrite nb_byte_of_N; apply N.mod_small; lia).
      rewrite !E.
      replace ((16 + nb a) / 16) with 1 by lia.
      replace ((16 + nb a) mod 16) with (nb a) by lia.
      rewrite byte_of_N_nb. change (nb (byte_of_N 1)) with 1.
      change (1 <? 2) with true. change (N.to_nat (2 - 1 mod 2)) with 1%nat.
      change (byte_of_N 1 :: a :: r ++ [x10]) with ((byte_of_N 1 :: a :: r) ++ [x10]).
      rewrite removelast_last. cbn [skipn]. rewrite app_nil_r. reflexivity.
  - destruct (odd_even_length k O) as (n & L).
    destruct term; cbv beta iota zeta.
    + unfold compact_to_hex, keybytes_to_hex. cbn [nibbles app].
      rewrite (nibbles_pack n k L F).
      change (nb (byte_of_N (16 * 2))) with 32. change (32 / 16) with 2. change (32 mod 16) with 0.
      change (nb (byte_of_N 2)) with 2. change (2 <? 2) with false. change (N.to_nat (2 - 2 mod 2)) with 2%nat.
      reflexivity.
    + unfold compact_to_hex, keybytes_to_hex. cbn [nibbles app].
      rewrite (nibbles_pack n k L F).
      change (nb (byte_of_N (16 * 0))) with 0. change (0 / 16) with 0. change (0 mod 16) with 0.
      change (nb (byte_of_N 0)) with 0. change (0 <? 2) with true. change (N.to_nat (2 - 0 mod 2)) with 2%nat.
      change (byte_of_N 0 :: byte_of_N 0 :: k ++ [x10]) with ((byte_of_N 0 :: byte_of_N 0 :: k) ++ [x10]).
      rewrite removelast_last. cbn [skipn]. rewrite app_nil_r. reflexivity.
Qed.

Section TnodeInd.
  Variable P : tnode -> Prop.
  Definition optP (oc : option tnode) : Prop := match oc with Some c => P c | None => True end.
  Hypothesis Hleaf : forall k v, P (TLeaf k v).
  Hypothesis Hext : forall k c, P c -> P (TExt k c).
  Hypothesis Hbranch : forall cs v, Forall optP cs -> P (TBranch cs v).
  Fixpoint tnode_ind' (t : tnode) : P t :=
    match t with
    | TLeaf k v => Hleaf k v
    | TExt k c => Hext k c (tnode_ind' c)
    | TBranch cs v =>
        Hbranch cs v
          ((fix go (l : list (option tnode)) : Forall optP l :=
              match l return Forall optP l with
              | [] => Forall_nil optP
              | oc :: l' =>
                  @Forall_cons _ optP oc l'
                    (match oc return optP oc with Some c => tnode_ind' c | None => I end) (go l')
              end) cs)
    end.
End TnodeInd.

(** [decodeNode] satisfies its own recursion equation *)
Lemma decode_node_unfold buf : decode_node buf = decode_node_step decode_node buf.
Proof.
  unfold decode_node at 1. cbn [decode_node_fuel]. apply decode_node_step_cong.
  intros b L. apply decode_node_fuel_enough. exact L.
Qed.

Section Trie.
  Variable keccak256 : bytes -> bytes.
  Hypothesis keccak_len : forall x, length (keccak256 x) = 32%nat.

  Notation mkref := (EvmProofTrie.mkref keccak256).
  Notation enc := (EvmProofTrie.enc keccak256).
  Notation shallow := (EvmProofTrie.shallow keccak256).
  Notation sref := (EvmProofTrie.sref keccak256).

  (** well-formed: nibbles below 16, 16 children per branch, every encoding below 2^64 bytes *)
  Fixpoint twf (t : tnode) : Prop :=
    N.of_nat (length (enc t)) < two64 /\
    match t with
    | TLeaf k v => Forall lt16 k
    | TExt k c => Forall lt16 k /\ twf c
    | TBranch cs v =>
        length cs = 16%nat /\
        (fix all (l : list (option tnode)) : Prop :=
           match l with [] => True | oc :: l' => match oc with Some c => twf c | None => True end /\ all l' end) cs
    end.

  Lemma enc_is_list t : exists payload, enc t = rlp_header 192 (N.of_nat (length payload)) ++ payload.
  Proof. destruct t; cbn [enc]; unfold rlp_list; eexists; reflexivity. Qed.

  Lemma length_app_le {A} (a b : list A) : (length b <= length (a ++ b))%nat.
  Proof. rewrite app_length. lia. Qed.

  (** decodeRef on a reference followed by anything *)
  Lemma decode_ref_mkref c rest :
    N.of_nat (length (enc c)) < two64 ->
    (forall rest', decode_node (enc c ++ rest') = Some (shallow c)) ->
    decode_ref decode_node (mkref (enc c) ++ rest) = Some (sref c, rest).
  Proof.
    intros HL D. unfold mkref, sref. destruct (length (enc c) <? 32)%nat eqn:E.
    - destruct (enc_is_list c) as (payload & EQ).
      assert (HP : N.of_nat (length payload) < two64).
      { rewrite EQ, app_length in HL. lia. }
      unfold decode_ref. rewrite EQ at 1. rewrite <- app_assoc. rewrite (rlp_split_header 192 payload rest) by (auto; discriminate).
      change (192 =? 128) with false. cbv iota.
      replace (32 <? length (enc c ++ rest) - length rest)%nat with false.
      2:{ symmetry. apply Nat.ltb_ge. rewrite app_length. apply Nat.ltb_lt in E. lia. }
      rewrite D. reflexivity.
    - unfold decode_ref.
      assert (HK : N.of_nat (length (keccak256 (enc c))) < two64) by (rewrite keccak_len; unfold two64; lia).
      destruct (rlp_split_string_item (keccak256 (enc c)) rest HK) as (k & S & NL). rewrite S.
      destruct k; try contradiction.
      + (* a single byte: impossible, the hash has 32 bytes *)
        exfalso. unfold rlp_string in S. pose proof (keccak_len (enc c)) as L32.
        destruct (keccak256 (enc c)) as [|x [|y r]]; cbn in L32; try lia.
        rewrite <- app_assoc in S.
        rewrite (rlp_split_header 128 (x :: y :: r) rest (or_introl eq_refl) HK (fun _ => I)) in S. discriminate.
      + rewrite keccak_len. reflexivity.
  Qed.

  Lemma twf_size t : twf t -> N.of_nat (length (enc t)) < two64.
  Proof. destruct t; cbn [twf]; intros [H _]; exact H. Qed.

  Lemma length_rlp_string_ge b : (length b <= length (rlp_string b))%nat.
  Proof.
    unfold rlp_string. destruct b as [|x [|y b]].
    - cbn. lia.
    - destruct (nb x <? 128); [cbn; lia | rewrite app_length; cbn; lia].
    - rewrite app_length. lia.
  Qed.

  Lemma length_rlp_list_ge items : (length (concat items) <= length (rlp_list items))%nat.
  Proof. unfold rlp_list. rewrite app_length. lia. Qed.

  Lemma decode_node_step_nonempty dn buf : buf <> [] ->
    decode_node_step dn buf =
    match split_list buf with
    | None => None
    | Some (elems, _) =>
        match count_values elems with
        | Some 2%nat => decode_short dn elems
        | Some 17%nat => decode_full dn elems
        | _ => None
        end
    end.
  Proof. destruct buf; [contradiction | reflexivity]. Qed.

  (** the first step of decoding [rlp_list items ++ rest] *)
  Lemma decode_list_step items rest :
    N.of_nat (length (rlp_list items)) < two64 -> Forall item items ->
    decode_node (rlp_list items ++ rest) =
    match length items with
    | 2%nat => decode_short decode_node (concat items)
    | 17%nat => decode_full decode_node (concat items)
    | _ => None
    end.
  Proof.
    intros HL FI. rewrite decode_node_unfold.
    assert (HP : N.of_nat (length (concat items)) < two64).
    { pose proof (length_rlp_list_ge items). lia. }
    rewrite decode_node_step_nonempty.
    2:{ unfold rlp_list. intro Q. apply app_eq_nil in Q. destruct Q as [Q _]. apply app_eq_nil in Q. destruct Q as [Q _].
        exact (rlp_header_nonempty _ _ Q). }
    unfold rlp_list. rewrite <- app_assoc. rewrite split_list_encode by exact HP.
    unfold count_values. rewrite (count_values_items items _ FI (le_n _)). reflexivity.
  Qed.

  Lemma item_mkref c : N.of_nat (length (enc c)) < two64 -> item (mkref (enc c)).
  Proof.
    intro HL. unfold mkref. destruct (length (enc c) <? 32)%nat.
    - destruct (enc_is_list c) as (payload & EQ). rewrite EQ. apply item_list. rewrite EQ, app_length in HL. lia.
    - apply item_string. rewrite keccak_len. unfold two64. lia.
  Qed.

  Lemma rlp_split_empty_string rest : rlp_split (rlp_string [] ++ rest) = Some (KString, [], rest).
  Proof.
    unfold rlp_string. rewrite <- app_assoc.
    apply (rlp_split_header 128 [] rest (or_introl eq_refl)); [unfold two64; cbn; lia | intros _; exact I].
  Qed.

  Definition refenc (oc : option tnode) : bytes := match oc with None => rlp_string [] | Some c => mkref (enc c) end.
  Definition srefo (oc : option tnode) : node := match oc with None => NNil | Some c => sref c end.

  Definition child_ok (oc : option tnode) : Prop :=
    match oc with
    | None => True
    | Some c => N.of_nat (length (enc c)) < two64 /\ forall rest, decode_node (enc c ++ rest) = Some (shallow c)
    end.

  Lemma decode_refs_children : forall cs rest,
    Forall child_ok cs ->
    decode_refs decode_node (length cs) (concat (map refenc cs) ++ rest) = Some (map srefo cs, rest).
  Proof.
    induction cs as [|oc cs IH]; intros rest F; [reflexivity|].
    inversion F as [|? ? OK F']; subst. cbn [length map concat decode_refs]. rewrite <- app_assoc.
    destruct oc as [c|]; cbn [refenc srefo].
    - destruct OK as [HL D]. rewrite (decode_ref_mkref c _ HL D). rewrite (IH rest F'). reflexivity.
    - unfold decode_ref. rewrite rlp_split_empty_string. cbn [length]. rewrite (IH rest F'). reflexivity.
  Qed.

  Lemma item_refenc oc : child_ok oc -> item (refenc oc).
  Proof.
    destruct oc as [c|]; cbn [refenc child_ok].
    - intros [HL _]. apply item_mkref. exact HL.
    - intros _. apply item_string. unfold two64. cbn. lia.
  Qed.

  Lemma twf_all_children cs :
    (fix all (l : list (option tnode)) : Prop :=
       match l with [] => True | oc :: l' => match oc with Some c => twf c | None => True end /\ all l' end) cs ->
    Forall (fun oc => match oc with Some c => twf c | None => True end) cs.
  Proof. induction cs as [|oc cs IH]; intros H; [constructor|]. destruct H as [H1 H2]. constructor; [exact H1 | exact (IH H2)]. Qed.

  (** ** [decodeNode] inverts the encoder (whatever follows the node in the buffer) *)
  Theorem decode_enc t : twf t -> forall rest, decode_node (enc t ++ rest) = Some (shallow t).
  Proof.
    induction t as [k v | k c IH | cs v IH] using tnode_ind'; intros W rest.
    - (* leaf *)
      pose proof (twf_size _ W) as HL. destruct W as [_ Fk]. cbn [enc] in *.
      set (ck := hex_to_compact k true) in *.
      assert (B1 : N.of_nat (length (rlp_string ck)) < two64 /\ N.of_nat (length (rlp_string v)) < two64).
      { pose proof (length_rlp_list_ge [rlp_string ck; rlp_string v]) as G. cbn [concat] in G.
        rewrite !app_length in G. cbn [length] in G. lia. }
      destruct B1 as [B1 B2].
      assert (Bk : N.of_nat (length ck) < two64) by (pose proof (length_rlp_string_ge ck); lia).
      assert (Bv : N.of_nat (length v) < two64) by (pose proof (length_rlp_string_ge v); lia).
      rewrite decode_list_step;
        [| exact HL | apply Forall_cons; [apply item_string; exact Bk | apply Forall_cons; [apply item_string; exact Bv | constructor]]].
      cbn [length concat]. unfold decode_short.
      rewrite split_string_encode by exact Bk. unfold ck. rewrite (compact_roundtrip k true Fk), has_term_snoc.
      rewrite split_string_encode by exact Bv. reflexivity.
    - (* extension *)
      pose proof (twf_size _ W) as HL. destruct W as [_ [Fk Wc]]. cbn [enc] in *.
      set (ck := hex_to_compact k false) in *.
      pose proof (twf_size _ Wc) as HLc.
      assert (Bk : N.of_nat (length ck) < two64).
      { pose proof (length_rlp_list_ge [rlp_string ck; mkref (enc c)]) as G. cbn [concat] in G.
        rewrite !app_length in G. pose proof (length_rlp_string_ge ck). lia. }
      rewrite decode_list_step;
        [| exact HL | apply Forall_cons; [apply item_string; exact Bk | apply Forall_cons; [apply item_mkref; exact HLc | constructor]]].
      cbn [length concat]. unfold decode_short.
      rewrite split_string_encode by exact Bk. unfold ck. rewrite (compact_roundtrip k false Fk), app_nil_r.
      rewrite (has_term_lt16 k Fk).
      rewrite (decode_ref_mkref c [] HLc (IH Wc)). reflexivity.
    - (* branch *)
      pose proof (twf_size _ W) as HL. destruct W as [_ [L16 WA]]. cbn [enc] in *.
      apply twf_all_children in WA.
      assert (OK : Forall child_ok cs).
      { rewrite Forall_forall in *. intros oc I. specialize (IH oc I). specialize (WA oc I).
        destruct oc as [c|]; [|exact Logic.I]. cbn [optP] in IH. split; [apply twf_size; exact WA | exact (IH WA)]. }
      fold refenc in *.
      assert (Bv : N.of_nat (length v) < two64).
      { pose proof (length_rlp_list_ge (map refenc cs ++ [rlp_string v])) as G. rewrite concat_app in G. cbn [concat] in G.
        rewrite !app_length in G. pose proof (length_rlp_string_ge v). lia. }
      rewrite decode_list_step; [| exact HL |].
      2:{ apply Forall_app. split.
          - rewrite Forall_forall in *. intros e I. apply in_map_iff in I. destruct I as (oc & <- & I). apply item_refenc, OK, I.
          - apply Forall_cons; [apply item_string; exact Bv | constructor]. }
      rewrite app_length, map_length, L16. cbn [length Nat.add].
      unfold decode_full. rewrite concat_app. cbn [concat]. rewrite app_nil_r.
      rewrite <- L16. rewrite (decode_refs_children cs (rlp_string v) OK).
      rewrite <- (app_nil_r (rlp_string v)) at 1. rewrite split_string_encode by exact Bv.
      cbn [shallow]. fold srefo. reflexivity.
  Qed.
  (** re-encoding the decoded node gives the encoding back: [enc] is [enc_node] of what [decodeNode] returns, so the
      run-time check "[enc_node (decode_node n) = n] on the nodes go-ethereum wrote" is a check of [enc] *)
  Theorem enc_node_shallow t : twf t -> enc_node (shallow t) = enc t.
  Proof.
    induction t as [k v | k c IH | cs v IH] using tnode_ind'; intros W.
    - cbn [EvmProofTrie.shallow enc_node EvmProofTrie.enc]. unfold compact_of_hex.
      rewrite has_term_snoc, removelast_last. reflexivity.
    - destruct W as [_ [Fk Wc]]. cbn [EvmProofTrie.shallow enc_node EvmProofTrie.enc]. unfold compact_of_hex.
      rewrite (has_term_lt16 k Fk). unfold EvmProofTrie.mkref.
      destruct (length (enc c) <? 32)%nat; [rewrite (IH Wc); reflexivity | reflexivity].
    - destruct W as [_ [L16 WA]]. apply twf_all_children in WA.
      cbn [EvmProofTrie.shallow enc_node EvmProofTrie.enc]. f_equal. rewrite map_app, map_map. cbn [map]. f_equal.
      + apply map_ext_in. intros oc I. rewrite Forall_forall in IH, WA. specialize (IH oc I). specialize (WA oc I).
        destruct oc as [c|]; [|reflexivity]. cbn [optP] in IH. unfold EvmProofTrie.mkref.
        destruct (length (enc c) <? 32)%nat; [exact (IH WA) | reflexivity].
      + destruct v; reflexivity.
  Qed.
End Trie.

Lemma tlookup_branch cs v k0 kr :
  tlookup (TBranch cs v) (k0 :: kr) =
  if Byte.eqb k0 x10 then v
  else match nth_error cs (N.to_nat (nb k0)) with Some (Some c) => tlookup c kr | _ => [] end.
Proof.
  cbn [tlookup]. destruct (Byte.eqb k0 x10); [reflexivity|].
  generalize (N.to_nat (nb k0)) as i. induction cs as [|oc cs IH]; intro i.
  - destruct i; reflexivity.
  - destruct i as [|i]; [destruct oc; reflexivity|]. cbn [nth_error]. apply IH.
Qed.

Section TrieDb.
  Variable keccak256 : bytes -> bytes.
  Hypothesis keccak_len : forall x, length (keccak256 x) = 32%nat.
  Notation enc := (EvmProofTrie.enc keccak256).
  Notation shallow := (EvmProofTrie.shallow keccak256).
  Notation sref := (EvmProofTrie.sref keccak256).
  Notation twf := (twf keccak256).
  Notation walk := (EvmProofMpt.walk keccak256).
  Notation find_node := (EvmProofMpt.find_node keccak256).
  Notation collision := (EvmProofMpt.collision keccak256).

  Notation db_of := (EvmProofTrie.db_of keccak256).

  Lemma db_of_head t : In (enc t) (db_of t).
  Proof. destruct t; left; reflexivity. Qed.

  Lemma find_node_some db x : In x db -> exists b, find_node db (keccak256 x) = Some b /\ keccak256 b = keccak256 x.
  Proof.
    induction db as [|n db IH]; intro I; [contradiction|]. cbn [EvmProofMpt.find_node].
    destruct (bytes_eqb (keccak256 n) (keccak256 x)) eqn:E.
    - exists n. split; [reflexivity | apply bytes_eqb_eq; exact E].
    - destruct I as [-> | I]; [rewrite bytes_eqb_refl in E; discriminate | exact (IH I)].
  Qed.

  (** what [get] on the decoded node means *)
  Definition get_means (db : list bytes) (t : tnode) (key : bytes) : Prop :=
    match get (shallow t) key with
    | GValue v => v = tlookup t key
    | GNil => tlookup t key = []
    | GPanic => False
    | GHash rest h => (exists fuel, answer (walk db fuel h rest) = Some (tlookup t key)) \/ collision
    end.

  Definition walk_means (db : list bytes) (t : tnode) (key : bytes) : Prop :=
    (exists fuel, answer (walk db fuel (keccak256 (enc t)) key) = Some (tlookup t key)) \/ collision.

  Lemma get_means_walk db t key :
    twf t -> In (enc t) db -> get_means db t key -> walk_means db t key.
  Proof.
    intros W I G. destruct (find_node_some db (enc t) I) as (b & F & H).
    destruct (bytes_eq_dec b (enc t)) as [-> | NE].
    2:{ right. exists b, (enc t). split; assumption. }
    pose proof (decode_enc keccak256 keccak_len t W []) as D. rewrite app_nil_r in D.
    unfold get_means in G. unfold walk_means.
    destruct (get (shallow t) key) as [|rest h|v|] eqn:GE.
    - left. exists 1%nat. cbn [EvmProofMpt.walk]. rewrite F, D, GE. cbn. rewrite G. reflexivity.
    - destruct G as [(fuel & A) | C]; [|right; exact C].
      left. exists (S fuel). cbn [EvmProofMpt.walk]. rewrite F, D, GE. exact A.
    - left. exists 1%nat. cbn [EvmProofMpt.walk]. rewrite F, D, GE. cbn. rewrite G. reflexivity.
    - contradiction.
  Qed.

  (** [get] on a child reference *)
  Lemma get_sref db c key :
    twf c -> In (enc c) db ->
    (forall key', good_key key' -> get_means db c key') ->
    good_key key ->
    match get (sref c) key with
    | GValue v => v = tlookup c key
    | GNil => tlookup c key = []
    | GPanic => False
    | GHash rest h => (exists fuel, answer (walk db fuel h rest) = Some (tlookup c key)) \/ collision
    end.
  Proof.
    intros W I G K. unfold EvmProofTrie.sref. destruct (length (enc c) <? 32)%nat.
    - exact (G key K).
    - cbn [get]. exact (get_means_walk db c key W I (G key K)).
  Qed.

  Lemma good_key_cons b s : good_key (b :: s) -> (b = x10 /\ s = []) \/ (lt16 b /\ good_key s).
  Proof.
    intros (p & E & F). destruct p as [|a p]; cbn in E.
    - inversion E; subst. left. split; reflexivity.
    - inversion E; subst. inversion F; subst. right. split; [assumption|]. exists p. split; [reflexivity | assumption].
  Qed.

  Lemma incl_flat_map_child cs (c : tnode) db :
    In (Some c) cs ->
    incl (flat_map (fun oc => match oc with Some c => db_of c | None => [] end) cs) db -> incl (db_of c) db.
  Proof. intros I H x X. apply H. apply in_flat_map. exists (Some c). split; assumption. Qed.

  Theorem get_means_all t : twf t -> forall db key, incl (db_of t) db -> good_key key -> get_means db t key.
  Proof.
    induction t as [k v | k c IH | cs v IH] using tnode_ind'; intros W db key INC K; unfold get_means.
    - (* leaf *)
      cbn [EvmProofTrie.shallow get tlookup]. destruct (is_prefix (k ++ [x10]) key); reflexivity.
    - (* extension *)
      destruct W as [_ [Fk Wc]].
      assert (INCc : incl (db_of c) db) by (intros x X; apply INC; right; exact X).
      cbn [EvmProofTrie.shallow get tlookup]. fold (sref c).
      destruct (is_prefix k key) eqn:P; [|reflexivity].
      destruct K as (s & -> & Fs). apply is_prefix_split in P.
      destruct (app_snoc_lt16 k s _ Fk Fs P) as (s' & E & Fs').
      apply (get_sref db c); [exact Wc | apply INCc, db_of_head | intros key' K'; apply IH; assumption |].
      exists s'. split; assumption.
    - (* branch *)
      destruct W as [_ [L16 WA]]. apply twf_all_children in WA.
      destruct key as [|k0 kr]; [destruct K as (s & E & _); destruct s; discriminate|].
      rewrite tlookup_branch. cbn [EvmProofTrie.shallow]. rewrite get_full.
      destruct (good_key_cons _ _ K) as [[-> ->] | [Lk Kr]].
      + (* the terminator: the value slot *)
        change (Byte.eqb x10 x10) with true. change (N.to_nat (nb x10)) with 16%nat.
        rewrite nth_error_app2 by (rewrite map_length; lia). rewrite map_length, L16, Nat.sub_diag. cbn [nth_error].
        destruct v; reflexivity.
      + assert (NE : Byte.eqb k0 x10 = false).
        { apply byte_eqb_false. intro Q. subst k0. unfold lt16 in Lk. rewrite nb_x10 in Lk. lia. }
        rewrite NE. unfold lt16 in Lk.
        assert (IL : (N.to_nat (nb k0) < length cs)%nat) by lia.
        rewrite nth_error_app1 by (rewrite map_length; exact IL).
        rewrite nth_error_map.
        destruct (nth_error cs (N.to_nat (nb k0))) as [oc|] eqn:NT; [|apply nth_error_None in NT; lia].
        cbn [option_map]. destruct oc as [c|]; [|reflexivity].
        pose proof (nth_error_In _ _ NT) as IC.
        rewrite Forall_forall in IH, WA. specialize (IH _ IC). specialize (WA _ IC). cbn [optP] in IH.
        assert (INCc : incl (db_of c) db).
        { apply (incl_flat_map_child cs c db IC). intros x X. apply INC. right. exact X. }
        fold (sref c).
        apply (get_sref db c); [exact WA | apply INCc, db_of_head | intros key' K'; apply IH; assumption | exact Kr].
  Qed.

  (** ** every well-formed abstract trie is a world: its node database resolves every key to its content *)
  Theorem trie_resolves t key :
    twf t -> resolves keccak256 (db_of t) (keccak256 (enc t)) key (tlookup t (keybytes_to_hex key)) \/ collision.
  Proof.
    intro W.
    pose proof (get_means_all t W (db_of t) (keybytes_to_hex key) (incl_refl _) (keybytes_to_hex_good key)) as G.
    destruct (get_means_walk (db_of t) t _ W (db_of_head t) G) as [(fuel & A) | C]; [left | right; exact C].
    exists fuel. exact A.
  Qed.

  Theorem trie_db_value t key :
    twf t -> db_value keccak256 (keccak256 (enc t)) key (lookup_result (tlookup t (keybytes_to_hex key))) \/ collision.
  Proof.
    intro W. destruct (trie_resolves t key W) as [R | C]; [left | right; exact C].
    exists (db_of t), (tlookup t (keybytes_to_hex key)). split; [exact R | reflexivity].
  Qed.

  Theorem trie_commits t :
    twf t -> ~ collision ->
    commits_db keccak256 (keccak256 (enc t)) (fun key => lookup_result (tlookup t (keybytes_to_hex key))).
  Proof.
    intros W NC. exists (db_of t). intro key. exists (tlookup t (keybytes_to_hex key)).
    split; [|reflexivity]. destruct (trie_resolves t key W) as [R | C]; [exact R | contradiction].
  Qed.
End TrieDb.

(** ** End to end, against abstract tries: the state trie and the storage trie of the configured contract *)
Section EndToEnd.
  Variable keccak256 : bytes -> bytes.
  Hypothesis keccak_len : forall x, length (keccak256 x) = 32%nat.
  Variable json_proof : bytes -> option proof_rec.
  Notation verify := (EvmProof.verify keccak256 (mpt_verify_g keccak256) json_proof).
  Notation proof_key := (EvmProof.proof_key keccak256).
  Notation enc := (EvmProofTrie.enc keccak256).

  (** If the root stored for the proof height is the root hash of the state trie [world], [world] holds the account
      [acct] at keccak(configured contract), and [acct]'s storage root is the root hash of the storage trie [st], then
      whatever is accepted for (kind, src, dst, seq, value) is what [st] holds at keccak(slot of exactly this path): a
      canonical RLP string whose left-padding to 32 bytes is exactly the value -- or a Keccak collision is exhibited. *)
  Theorem accepted_holds_trie cs cstore h p ack src dst seq c rootb (world st : tnode) acct :
    verify cs cstore (Some h) (Some p) ack src dst seq c = Ok tt ->
    cstore (consensus_key h) = ConsRoot rootb ->
    twf keccak256 world -> keccak256 (enc world) = bytes_to_hash rootb ->
    tlookup world (keybytes_to_hex (keccak256 (cs_contract cs))) = rlp_account acct ->
    account_wf acct -> length (a_storage acct) = 32%nat -> length (a_code acct) = 32%nat ->
    twf keccak256 st -> keccak256 (enc st) = a_storage acct ->
    (exists t, rlp_decode_bytes (tlookup st (keybytes_to_hex (keccak256 (proof_key ack src dst seq)))) = Some t /\
               left_pad32 t = c) \/ collision keccak256.
  Proof.
    intros V S Ww Rw Lw W LS LC Ws Rs.
    destruct (trie_db_value keccak256 keccak_len world (keccak256 (cs_contract cs)) Ww) as [DW | C]; [|right; exact C].
    destruct (trie_db_value keccak256 keccak_len st (keccak256 (proof_key ack src dst seq)) Ws) as [DS | C]; [|right; exact C].
    rewrite Rw, Lw in DW. rewrite Rs in DS.
    rewrite (lookup_result_some _ (rlp_account_nonempty acct)) in DW.
    destruct (accepted_holds_at keccak256 json_proof _ _ _ _ _ _ _ _ _ _ _ _ V S DW W LS LC DS) as [(raw & t & E & D & P) | C];
      [left | right; exact C].
    exists t. split; [|exact P].
    destruct (tlookup st (keybytes_to_hex (keccak256 (proof_key ack src dst seq)))) as [|b0 r0]; [discriminate E|].
    cbn [lookup_result] in E. inversion E; subst. exact D.
  Qed.

  (** ... and a false claim about such tries is rejected *)
  Theorem false_claim_rejected_trie cs cstore h p ack src dst seq c rootb (world st : tnode) acct :
    cstore (consensus_key h) = ConsRoot rootb ->
    twf keccak256 world -> keccak256 (enc world) = bytes_to_hash rootb ->
    tlookup world (keybytes_to_hex (keccak256 (cs_contract cs))) = rlp_account acct ->
    account_wf acct -> length (a_storage acct) = 32%nat -> length (a_code acct) = 32%nat ->
    twf keccak256 st -> keccak256 (enc st) = a_storage acct ->
    (forall t, rlp_decode_bytes (tlookup st (keybytes_to_hex (keccak256 (proof_key ack src dst seq)))) = Some t ->
               left_pad32 t <> c) ->
    verify cs cstore (Some h) (Some p) ack src dst seq c <> Ok tt \/ collision keccak256.
  Proof.
    intros S Ww Rw Lw W LS LC Ws Rs NV.
    destruct (verify cs cstore (Some h) (Some p) ack src dst seq c) as [[]| |] eqn:V; try (left; discriminate).
    destruct (accepted_holds_trie _ _ _ _ _ _ _ _ _ _ _ _ _ V S Ww Rw Lw W LS LC Ws Rs) as [(t & D & P) | C];
      [|right; exact C].
    exfalso. exact (NV t D P).
  Qed.

  (** Completeness over abstract tries: the honest rendering of the tries' node databases (and, with
      [resolves_subproof], of any node lists containing the two paths) is accepted for the value the storage trie
      holds -- any 32-byte value, leading zeros included. *)
  Theorem honest_accepted_trie cs cstore h p ack src dst seq c rootb (world st : tnode) acct value :
    rn h = rn (cs_head cs) -> rh h <= rh (cs_head cs) -> h64 (cs_head cs) ->
    delay_block cs <= rh (cs_head cs) - rh h ->
    json_proof p = Some (honest_record (cs_contract cs) acct (proof_key ack src dst seq)
                                       (EvmProofTrie.db_of keccak256 world) (EvmProofTrie.db_of keccak256 st) value) ->
    cstore (consensus_key h) = ConsRoot rootb ->
    twf keccak256 world -> keccak256 (enc world) = bytes_to_hash rootb ->
    tlookup world (keybytes_to_hex (keccak256 (cs_contract cs))) = rlp_account acct ->
    a_nonce acct < 2 ^ 256 -> a_balance acct < 2 ^ 256 -> length (a_storage acct) = 32%nat -> length (a_code acct) = 32%nat ->
    length (proof_key ack src dst seq) = 32%nat ->
    twf keccak256 st -> keccak256 (enc st) = a_storage acct ->
    tlookup st (keybytes_to_hex (keccak256 (proof_key ack src dst seq))) = rlp_string (strip_zeros c) ->
    length c = 32%nat ->
    verify cs cstore (Some h) (Some p) ack src dst seq c = Ok tt \/ collision keccak256.
  Proof.
    intros ER LE HH D J S Ww Rw Lw Hn Hb Hs Hc Hk Ws Rs Ls L.
    destruct (trie_resolves keccak256 keccak_len world (keccak256 (cs_contract cs)) Ww) as [R1 | C]; [|right; exact C].
    destruct (trie_resolves keccak256 keccak_len st (keccak256 (proof_key ack src dst seq)) Ws) as [R2 | C]; [|right; exact C].
    rewrite Rw, Lw in R1. rewrite Rs, Ls in R2.
    left. eapply honest_accepted_resolves; eassumption.
  Qed.
End EndToEnd.
