(** The two repair parameters of the hook model ([chk20], [ret]) and the shape facts the model relies on, read off
    the Go source by tools/gotocoq/ics20hook (Gen/Ics20HookGen.v, regenerated on every run). *)
From Coq Require Import List Bool Arith.
From Teleport Require Import Base.Bytes Base.Outcome Model.Ics20 Gen.Ics20HookGen.
Import ListNotations.

Definition is_src_ack (r : src_return) : bool := match r with SrcAck => true | _ => false end.

(** what the hook returns according to the source: the acknowledgement it was given iff EVERY return statement
    returns the (never reassigned) `ack` parameter; a `return nil` anywhere makes the model return nil *)
Definition src_ret : ack -> option ack :=
  if forallb is_src_ack src_hook_returns && negb src_hook_ack_reassigned
  then (fun a => Some a) else (fun _ => None).

Definition src_chk20 : bool := src_hook_len_guard.

(** seven return statements (decode error, amount error, receiver length, IBCDenom error, not registered,
    ConvertCoin error, success); ConvertCoin on the cache context; write() once, after the error test; the middleware
    is "wrapped app; error ack -> return it; else keeper hook"; OnTimeoutPacket inherited; OnAcknowledgementPacket =
    wrapped app then the keeper's no-op *)
Definition src_shape_ok : bool :=
  Nat.eqb (length src_hook_returns) 7 && src_hook_convert_on_cache_ctx && src_hook_write_once_after_error_test &&
  src_mw_recv_shape && src_mw_timeout_inherited && src_mw_ack_shape && src_keeper_ack_noop.

Section Source.
  Variable state : Type.
  Variable sha256 : bytes -> bytes.
  Variable decode : bytes -> option ftpd.
  Variable parse_int : bytes -> option Z.
  Variable from_bech32 : bytes -> option bytes.
  Variable is_registered : state -> bytes -> bool.
  Variable convert : state -> conv_msg -> outcome state.

  Definition hook_from_source :=
    hook_gen state sha256 decode parse_int from_bech32 is_registered convert src_chk20 src_ret.
End Source.
