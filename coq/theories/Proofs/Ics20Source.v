(** The two repair parameters of the hook model ([chk20], [ret]) and the shape facts the model relies on, read off
    the Go source by tools/gotocoq/ics20hook (Gen/Ics20HookGen.v, regenerated on every run).

    The translator EXECUTES Keeper.OnRecvPacket, the callbacks of IBCMiddleware and of ibc.Module symbolically
    (closures and same-package helpers inlined with parameter substitution, nil-ness of error values tracked per path,
    `switch` / if-else / early-return / nested forms all reduced to tests) and emits the decision TREE of each
    ([src_hook], [src_mw_recv], ...); tests are classified by data flow (which call produced the tested value), not by
    their text.  So renaming, writing `20` for common.AddressLength, deleting the dead `IBCDenom` error branch,
    reordering the early-return guards, moving the failure epilogue into a closure or a helper, splitting the hook
    into a decoding and a converting function that return errors, taking the cache context later, a `switch` in the
    middleware ... re-check, while a `return nil`, a dropped guard, a conversion on the parent context, a write() before
    the error test, a different amount / denomination / receiver in the message, a hook called after a failed transfer
    does not. *)
From Coq Require Import List Bool Arith.
From Teleport Require Import Base.Bytes Base.Outcome Model.Ics20 Gen.Ics20HookGen.
Import ListNotations.

Definition ret_code (r : src_return) : nat :=
  match r with SrcAck => 0 | SrcNil => 1 | SrcHook => 2 | SrcAppErr => 3 | SrcKeeperErr => 4 | SrcOther => 5 end.
Definition ret_eqb (a b : src_return) : bool := Nat.eqb (ret_code a) (ret_code b).

Definition guard_code (g : src_guard) : nat :=
  match g with
  | GDecode => 0 | GAmount => 1 | GRecvLen => 2 | GDenomErr => 3 | GNotRegistered => 4 | GConvertErr => 5 | GOther => 6
  | GAckNotSuccess => 7 | GAppErr => 8 | GKeeperErr => 9
  end.
Definition guard_eqb (a b : src_guard) : bool := Nat.eqb (guard_code a) (guard_code b).

Fixpoint tree_eqb (a b : src_tree) : bool :=
  match a, b with
  | TRet r, TRet r' => ret_eqb r r'
  | TGuard g f o, TGuard g' f' o' => guard_eqb g g' && tree_eqb f f' && tree_eqb o o'
  | TConvert c m t, TConvert c' m' t' => Bool.eqb c c' && Bool.eqb m m' && tree_eqb t t'
  | TWrite t, TWrite t' => tree_eqb t t'
  | _, _ => false          (* TOther equals nothing, not even itself *)
  end.

(** the statements of a function whose decision tree is a COMB: every failed test returns at once *)
Inductive src_stmt :=
| SGuard (g : src_guard) (r : src_return)
| SConvert (on_cache_ctx msg_from_packet : bool)
| SWrite
| SReturn (r : src_return)
| SOther.

Fixpoint flatten (t : src_tree) : list src_stmt :=
  match t with
  | TRet r => [SReturn r]
  | TGuard g (TRet r) ok => SGuard g r :: flatten ok
  | TGuard _ _ _ => [SOther]           (* something happens on the failure side before it returns *)
  | TConvert c m t' => SConvert c m :: flatten t'
  | TWrite t' => SWrite :: flatten t'
  | TOther => [SOther]
  end.

(** the leading early-return guards and what follows them *)
Fixpoint split_guards (l : list src_stmt) : list (src_guard * src_return) * list src_stmt :=
  match l with
  | SGuard g r :: t => let (gs, rest) := split_guards t in ((g, r) :: gs, rest)
  | _ => ([], l)
  end.

Definition has_guard (g : src_guard) (gs : list (src_guard * src_return)) : bool :=
  existsb (fun x => guard_eqb (fst x) g) gs.
Definition count_guard (g : src_guard) (gs : list (src_guard * src_return)) : nat :=
  length (filter (fun x => guard_eqb (fst x) g) gs).

(** Normal form of the hook: the early-return guards (decode error first — everything else reads the decoded data —
    then, in any order, amount, [receiver length], [the dead IBCDenom error], not registered; nothing unknown, none
    twice), then ConvertCoin on the cache context with the message built from the packet, then its error test, then
    write(), then the final return; every return statement returns the same thing.
    Result: is the receiver-length guard there, and what is returned. *)
Definition shape_of (l : list src_stmt) : option (bool * src_return) :=
  let (gs, rest) := split_guards l in
  match rest with
  | [SConvert true true; SGuard GConvertErr r1; SWrite; SReturn r2] =>
      match gs with
      | (GDecode, _) :: _ =>
          if has_guard GAmount gs && has_guard GNotRegistered gs &&
             negb (has_guard GOther gs) && negb (has_guard GConvertErr gs) &&
             Nat.eqb (count_guard GDecode gs) 1 && Nat.leb (count_guard GAmount gs) 1 &&
             Nat.leb (count_guard GRecvLen gs) 1 && Nat.leb (count_guard GNotRegistered gs) 1 &&
             Nat.leb (count_guard GDenomErr gs) 1 &&
             forallb (fun x => ret_eqb (snd x) r2) gs && ret_eqb r1 r2
          then Some (has_guard GRecvLen gs, r2) else None
      | _ => None
      end
  | _ => None
  end.

(** what the hook returns according to the source: the acknowledgement it was given iff EVERY return statement
    returns the (never reassigned) acknowledgement parameter; `return nil` makes the model return nil; anything else
    is outside the model (the obligation then fails on [src_shape_ok]) *)
Definition src_ret : ack -> option ack :=
  match shape_of (flatten src_hook) with
  | Some (_, SrcAck) => if src_hook_ack_reassigned then (fun _ => None) else (fun a => Some a)
  | _ => (fun _ => None)
  end.

Definition src_chk20 : bool :=
  match shape_of (flatten src_hook) with Some (c, _) => c | None => false end.

(** what the other callbacks must be:
    IBCMiddleware.OnRecvPacket: the wrapped module's acknowledgement; not successful -> return it, else the keeper hook
    on (ctx, packet, that acknowledgement);
    IBCMiddleware.OnAcknowledgementPacket: the wrapped module's callback, its error returned, then the keeper's;
    ibc.Module: every callback is the wrapped application's (returning the error value = returning it when non-nil and
    nil otherwise) *)
Definition expected_mw_recv : src_tree := TGuard GAckNotSuccess (TRet SrcAck) (TRet SrcHook).
Definition expected_mw_ack : src_tree :=
  TGuard GAppErr (TRet SrcAppErr) (TGuard GKeeperErr (TRet SrcKeeperErr) (TRet SrcNil)).
Definition expected_module_recv : src_tree := TRet SrcAck.
Definition expected_module_err : src_tree := TGuard GAppErr (TRet SrcAppErr) (TRet SrcNil).

(** the hook has the normal form; the denomination is IBCDenom(destination port, destination channel, data.Denom); the
    other callbacks are the expected ones; OnTimeoutPacket of the middleware is inherited; the keeper's
    OnAcknowledgementPacket is `return nil` *)
Definition src_shape_ok : bool :=
  match shape_of (flatten src_hook) with Some _ => true | None => false end &&
  src_hook_denom_from_dest &&
  tree_eqb src_mw_recv expected_mw_recv && tree_eqb src_mw_ack expected_mw_ack && src_mw_timeout_inherited &&
  src_keeper_ack_noop &&
  tree_eqb src_module_recv expected_module_recv && tree_eqb src_module_ack expected_module_err &&
  tree_eqb src_module_timeout expected_module_err.

Section Source.
  Variable state : Type.
  Variable sha256 : bytes -> bytes.
  Variable decode : bytes -> option ftpd.
  Variable parse_int : bytes -> option Z.
  Variable from_bech32 : bytes -> option bytes.
  Variable is_registered : state -> bytes -> bool.
  Variable convert : state -> conv_msg -> outcome state.

  Definition hook_from_source :=
    hook_gen state sha256 decode parse_int from_bech32 is_registered convert src_chk20 src_ret.
End Source.

(** [shape_of] on the shapes the history of the code went through (independent of the regenerated term) *)
Definition shape_head : list src_stmt :=
  [SGuard GDecode SrcAck; SGuard GAmount SrcAck; SGuard GRecvLen SrcAck; SGuard GDenomErr SrcAck;
   SGuard GNotRegistered SrcAck; SConvert true true; SGuard GConvertErr SrcAck; SWrite; SReturn SrcAck].

Example shape_of_head : shape_of shape_head = Some (true, SrcAck).
Proof. reflexivity. Qed.

(** harmless rewrites keep the normal form: dead branch deleted, guards reordered *)
Example shape_of_harmless :
  shape_of [SGuard GDecode SrcAck; SGuard GRecvLen SrcAck; SGuard GNotRegistered SrcAck; SGuard GAmount SrcAck;
            SConvert true true; SGuard GConvertErr SrcAck; SWrite; SReturn SrcAck] = Some (true, SrcAck).
Proof. reflexivity. Qed.

(** harmful ones do not: no length guard (e0a53b0 reverted) changes the parameter; `return nil` (6fec139 reverted)
    changes what is returned; parent context, write() before the error test, an error acknowledgement on one path,
    a dropped registration test have no normal form *)
Example shape_of_harmful :
  shape_of [SGuard GDecode SrcAck; SGuard GAmount SrcAck; SGuard GDenomErr SrcAck; SGuard GNotRegistered SrcAck;
            SConvert true true; SGuard GConvertErr SrcAck; SWrite; SReturn SrcAck] = Some (false, SrcAck) /\
  shape_of [SGuard GDecode SrcNil; SGuard GAmount SrcNil; SGuard GRecvLen SrcNil; SGuard GNotRegistered SrcNil;
            SConvert true true; SGuard GConvertErr SrcNil; SWrite; SReturn SrcNil] = Some (true, SrcNil) /\
  shape_of [SGuard GDecode SrcAck; SGuard GAmount SrcAck; SGuard GRecvLen SrcAck; SGuard GNotRegistered SrcAck;
            SConvert false true; SGuard GConvertErr SrcAck; SWrite; SReturn SrcAck] = None /\
  shape_of [SGuard GDecode SrcAck; SGuard GAmount SrcAck; SGuard GRecvLen SrcAck; SGuard GNotRegistered SrcAck;
            SConvert true true; SWrite; SGuard GConvertErr SrcAck; SReturn SrcAck] = None /\
  shape_of [SGuard GDecode SrcAck; SGuard GAmount SrcAck; SGuard GRecvLen SrcAck; SGuard GNotRegistered SrcAck;
            SConvert true true; SGuard GConvertErr SrcOther; SWrite; SReturn SrcAck] = None /\
  shape_of [SGuard GDecode SrcAck; SGuard GAmount SrcAck; SGuard GRecvLen SrcAck;
            SConvert true true; SGuard GConvertErr SrcAck; SWrite; SReturn SrcAck] = None /\
  shape_of [SGuard GDecode SrcAck; SGuard GAmount SrcAck; SGuard GRecvLen SrcAck; SGuard GNotRegistered SrcAck;
            SConvert true false; SGuard GConvertErr SrcAck; SWrite; SReturn SrcAck] = None.
Proof. repeat split; reflexivity. Qed.

(** [flatten]: a comb becomes the guard list; an effect on a failure side (write() before the error test in the nested
    form) or a test whose failure does not return does not *)
Example flatten_comb :
  flatten (TGuard GDecode (TRet SrcAck) (TGuard GAmount (TRet SrcAck) (TGuard GRecvLen (TRet SrcAck) (TGuard GDenomErr (TRet SrcAck)
            (TGuard GNotRegistered (TRet SrcAck) (TConvert true true (TGuard GConvertErr (TRet SrcAck) (TWrite (TRet SrcAck)))))))))
  = shape_head /\
  shape_of (flatten (TGuard GDecode (TRet SrcAck) (TGuard GAmount (TRet SrcAck) (TGuard GNotRegistered (TRet SrcAck)
            (TConvert true true (TGuard GConvertErr (TWrite (TRet SrcAck)) (TWrite (TRet SrcAck)))))))) = None /\
  shape_of (flatten (TGuard GDecode (TRet SrcAck) (TGuard GAmount (TRet SrcAck) (TGuard GNotRegistered (TRet SrcAck)
            (TConvert true true (TWrite (TGuard GConvertErr (TRet SrcAck) (TRet SrcAck)))))))) = None /\
  tree_eqb TOther TOther = false /\ tree_eqb (TRet SrcHook) expected_mw_recv = false.
Proof. repeat split; reflexivity. Qed.
