(** The two repair parameters of the hook model ([chk20], [ret]) and the shape facts the model relies on, read off
    the Go source by tools/gotocoq/ics20hook (Gen/Ics20HookGen.v, regenerated on every run).

    The translator emits the statements of Keeper.OnRecvPacket that matter as a list ([src_hook]); guards are
    classified by data flow (which call produced the tested value), not by their text, so renaming a variable,
    writing `20` for common.AddressLength, deleting the dead `IBCDenom` error branch or reordering the early-return
    guards re-checks, while a `return nil`, a dropped guard, a conversion on the parent context, a write() before the
    error test, a different amount / denomination / receiver in the message does not. *)
From Coq Require Import List Bool Arith.
From Teleport Require Import Base.Bytes Base.Outcome Model.Ics20 Gen.Ics20HookGen.
Import ListNotations.

Definition ret_eqb (a b : src_return) : bool :=
  match a, b with SrcAck, SrcAck | SrcNil, SrcNil | SrcOther, SrcOther => true | _, _ => false end.

Definition guard_code (g : src_guard) : nat :=
  match g with GDecode => 0 | GAmount => 1 | GRecvLen => 2 | GDenomErr => 3 | GNotRegistered => 4 | GConvertErr => 5 | GOther => 6 end.
Definition guard_eqb (a b : src_guard) : bool := Nat.eqb (guard_code a) (guard_code b).

(** the leading early-return guards and what follows them *)
Fixpoint split_guards (l : list src_stmt) : list (src_guard * src_return) * list src_stmt :=
  match l with
  | SGuard g r :: t => let (gs, rest) := split_guards t in ((g, r) :: gs, rest)
  | _ => ([], l)
  end.

Definition has_guard (g : src_guard) (gs : list (src_guard * src_return)) : bool :=
  existsb (fun x => guard_eqb (fst x) g) gs.
Definition count_guard (g : src_guard) (gs : list (src_guard * src_return)) : nat :=
  length (filter (fun x => guard_eqb (fst x) g) gs).

(** Normal form of the hook: the early-return guards (decode error first — everything else reads the decoded data —
    then, in any order, amount, [receiver length], [the dead IBCDenom error], not registered; nothing unknown, none
    twice), then ConvertCoin on the cache context with the message built from the packet, then its error test, then
    write(), then the final return; every return statement returns the same thing.
    Result: is the receiver-length guard there, and what is returned. *)
Definition shape_of (l : list src_stmt) : option (bool * src_return) :=
  let (gs, rest) := split_guards l in
  match rest with
  | [SConvert true true; SGuard GConvertErr r1; SWrite; SReturn r2] =>
      match gs with
      | (GDecode, _) :: _ =>
          if has_guard GAmount gs && has_guard GNotRegistered gs &&
             negb (has_guard GOther gs) && negb (has_guard GConvertErr gs) &&
             Nat.eqb (count_guard GDecode gs) 1 && Nat.leb (count_guard GAmount gs) 1 &&
             Nat.leb (count_guard GRecvLen gs) 1 && Nat.leb (count_guard GNotRegistered gs) 1 &&
             Nat.leb (count_guard GDenomErr gs) 1 &&
             forallb (fun x => ret_eqb (snd x) r2) gs && ret_eqb r1 r2
          then Some (has_guard GRecvLen gs, r2) else None
      | _ => None
      end
  | _ => None
  end.

(** what the hook returns according to the source: the acknowledgement it was given iff EVERY return statement
    returns the (never reassigned) acknowledgement parameter; `return nil` makes the model return nil; anything else
    is outside the model (the obligation then fails on [src_shape_ok]) *)
Definition src_ret : ack -> option ack :=
  match shape_of src_hook with
  | Some (_, SrcAck) => if src_hook_ack_reassigned then (fun _ => None) else (fun a => Some a)
  | _ => (fun _ => None)
  end.

Definition src_chk20 : bool :=
  match shape_of src_hook with Some (c, _) => c | None => false end.

(** the hook has the normal form; the denomination is IBCDenom(destination port, destination channel, data.Denom);
    write() is called exactly once; the middleware is "wrapped app; error ack -> return it; else keeper hook";
    OnTimeoutPacket inherited; OnAcknowledgementPacket = wrapped app then the keeper's no-op *)
Definition src_shape_ok : bool :=
  match shape_of src_hook with Some _ => true | None => false end &&
  src_hook_denom_from_dest && Nat.eqb src_hook_write_calls 1 &&
  src_mw_recv_shape && src_mw_timeout_inherited && src_mw_ack_shape && src_keeper_ack_noop.

Section Source.
  Variable state : Type.
  Variable sha256 : bytes -> bytes.
  Variable decode : bytes -> option ftpd.
  Variable parse_int : bytes -> option Z.
  Variable from_bech32 : bytes -> option bytes.
  Variable is_registered : state -> bytes -> bool.
  Variable convert : state -> conv_msg -> outcome state.

  Definition hook_from_source :=
    hook_gen state sha256 decode parse_int from_bech32 is_registered convert src_chk20 src_ret.
End Source.

(** [shape_of] on the shapes the history of the code went through (independent of the regenerated term) *)
Definition shape_head : list src_stmt :=
  [SGuard GDecode SrcAck; SGuard GAmount SrcAck; SGuard GRecvLen SrcAck; SGuard GDenomErr SrcAck;
   SGuard GNotRegistered SrcAck; SConvert true true; SGuard GConvertErr SrcAck; SWrite; SReturn SrcAck].

Example shape_of_head : shape_of shape_head = Some (true, SrcAck).
Proof. reflexivity. Qed.

(** harmless rewrites keep the normal form: dead branch deleted, guards reordered *)
Example shape_of_harmless :
  shape_of [SGuard GDecode SrcAck; SGuard GRecvLen SrcAck; SGuard GNotRegistered SrcAck; SGuard GAmount SrcAck;
            SConvert true true; SGuard GConvertErr SrcAck; SWrite; SReturn SrcAck] = Some (true, SrcAck).
Proof. reflexivity. Qed.

(** harmful ones do not: no length guard (e0a53b0 reverted) changes the parameter; `return nil` (6fec139 reverted)
    changes what is returned; parent context, write() before the error test, an error acknowledgement on one path,
    a dropped registration test have no normal form *)
Example shape_of_harmful :
  shape_of [SGuard GDecode SrcAck; SGuard GAmount SrcAck; SGuard GDenomErr SrcAck; SGuard GNotRegistered SrcAck;
            SConvert true true; SGuard GConvertErr SrcAck; SWrite; SReturn SrcAck] = Some (false, SrcAck) /\
  shape_of [SGuard GDecode SrcNil; SGuard GAmount SrcNil; SGuard GRecvLen SrcNil; SGuard GNotRegistered SrcNil;
            SConvert true true; SGuard GConvertErr SrcNil; SWrite; SReturn SrcNil] = Some (true, SrcNil) /\
  shape_of [SGuard GDecode SrcAck; SGuard GAmount SrcAck; SGuard GRecvLen SrcAck; SGuard GNotRegistered SrcAck;
            SConvert false true; SGuard GConvertErr SrcAck; SWrite; SReturn SrcAck] = None /\
  shape_of [SGuard GDecode SrcAck; SGuard GAmount SrcAck; SGuard GRecvLen SrcAck; SGuard GNotRegistered SrcAck;
            SConvert true true; SWrite; SGuard GConvertErr SrcAck; SReturn SrcAck] = None /\
  shape_of [SGuard GDecode SrcAck; SGuard GAmount SrcAck; SGuard GRecvLen SrcAck; SGuard GNotRegistered SrcAck;
            SConvert true true; SGuard GConvertErr SrcOther; SWrite; SReturn SrcAck] = None /\
  shape_of [SGuard GDecode SrcAck; SGuard GAmount SrcAck; SGuard GRecvLen SrcAck;
            SConvert true true; SGuard GConvertErr SrcAck; SWrite; SReturn SrcAck] = None /\
  shape_of [SGuard GDecode SrcAck; SGuard GAmount SrcAck; SGuard GRecvLen SrcAck; SGuard GNotRegistered SrcAck;
            SConvert true false; SGuard GConvertErr SrcAck; SWrite; SReturn SrcAck] = None.
Proof. repeat split; reflexivity. Qed.
