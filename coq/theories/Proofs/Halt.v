(** Proofs for C15 (xibc client proposals, genesis initialisation, rvesting). *)
From Coq Require Import String.
From Teleport Require Import Base.Bytes Base.Outcome Model.Rvesting Model.RvestingCheck Proofs.Rvesting.
From Teleport Require Import Model.HaltGuardIR Gen.HaltGuardsGen Proofs.HaltGuards Model.Halt Model.HaltAgg Model.HaltCheck.
Local Open Scope N_scope.

(** * Generic facts about [outcome] *)
Lemma obind_not_panic {A B} (x : outcome A) (f : A -> outcome B) :
  x <> Panic -> (forall a, x = Ok a -> f a <> Panic) -> obind x f <> Panic.
Proof. destruct x; cbn; intros H1 H2; [apply H2; reflexivity | discriminate | congruence]. Qed.

Lemma obind_ok {A B} (x : outcome A) (f : A -> outcome B) b :
  obind x f = Ok b -> exists a, x = Ok a /\ f a = Ok b.
Proof. destruct x; cbn; intro H; [eauto | discriminate | discriminate]. Qed.

Lemma all_ok_ok {A} (f : A -> outcome unit) l : all_ok f l = Ok tt -> forall x, In x l -> f x = Ok tt.
Proof.
  induction l as [|y l IH]; cbn; intros H x Hin; [contradiction|].
  apply obind_ok in H as (u & Hy & Hl). destruct u. destruct Hin as [<-|Hin]; [exact Hy | apply IH; assumption].
Qed.

Lemma all_ok_intro {A} (f : A -> outcome unit) l : (forall x, In x l -> f x = Ok tt) -> all_ok f l = Ok tt.
Proof.
  induction l as [|y l IH]; cbn; intro H; [reflexivity|].
  rewrite (H y (or_introl eq_refl)). cbn. apply IH. intros x Hx; apply H; right; exact Hx.
Qed.

(** * The "recentSingers" keys *)
Lemma split_slash_nonempty s : forall cur, exists x r, split_slash s cur = x :: r.
Proof.
  induction s as [|c t IH]; cbn; intro cur; [eauto|].
  destruct (Byte.to_N c =? 47); [eauto | apply IH].
Qed.

Lemma split_slash_has s : has_slash s = true -> forall cur, exists a b r, split_slash s cur = a :: b :: r.
Proof.
  induction s as [|c t IH]; cbn; intros H cur; [discriminate|].
  destruct (Byte.to_N c =? 47) eqn:E.
  - destruct (split_slash_nonempty t []) as (x & r & ->). eauto.
  - cbn in H. apply IH. exact H.
Qed.

(** DeleteAllSigner cannot index out of range when every key under the prefix has a separator. *)
Lemma delete_all_signer_no_panic l : forallb has_slash l = true -> delete_all_signer l <> Panic.
Proof.
  induction l as [|s t IH]; cbn; intro H; [discriminate|].
  apply andb_true_iff in H as [Hs Ht].
  destruct (split_slash_has s Hs []) as (a & b & r & ->).
  destruct (parse_height b); [|discriminate].
  specialize (IH Ht). destruct (delete_all_signer t); congruence.
Qed.

(** * Safety predicate: the outcome is not [Panic], and a returned value satisfies [P]. *)
Definition osafe {A} (P : A -> Prop) (o : outcome A) : Prop :=
  match o with Ok a => P a | Err => True | Panic => False end.

Lemma osafe_bind {A B} (P : A -> Prop) (Q : B -> Prop) (x : outcome A) (f : A -> outcome B) :
  osafe P x -> (forall a, P a -> osafe Q (f a)) -> osafe Q (obind x f).
Proof. destruct x; cbn; intros H1 H2; [apply H2; exact H1 | exact I | contradiction]. Qed.

Lemma osafe_not_panic {A} (P : A -> Prop) o : osafe P o -> o <> Panic.
Proof. destruct o; cbn; intros H; [discriminate | discriminate | contradiction]. Qed.

Lemma osafe_weaken {A} (P Q : A -> Prop) o : (forall a, P a -> Q a) -> osafe P o -> osafe Q o.
Proof. destruct o; cbn; auto. Qed.

(** * Client stores: every key under "recentSingers" has a separator *)
Definition store_wf (st : cstore) : Prop := forallb has_slash (c_signers st) = true.
Definition xstate_wf (s : xstate) : Prop := forall chain, store_wf (xget s chain).

Lemma store_wf_empty : store_wf empty_store.
Proof. reflexivity. Qed.

Lemma xstate_wf_nil : xstate_wf [].
Proof. intro chain. reflexivity. Qed.

Lemma forallb_sorted_insert (P : bytes -> bool) k l :
  P k = true -> forallb P l = true -> forallb P (sorted_insert k l) = true.
Proof.
  intros Hk. induction l as [|x t IH]; cbn; intro H; [rewrite Hk; reflexivity|].
  apply andb_true_iff in H as [Hx Ht].
  destruct (bytes_cmp k x); cbn; rewrite ?Hk, ?Hx, ?Ht; cbn; auto.
Qed.

Lemma forallb_filter (P Q : bytes -> bool) l : forallb P l = true -> forallb P (filter Q l) = true.
Proof.
  induction l as [|x t IH]; cbn; intro H; [reflexivity|].
  apply andb_true_iff in H as [Hx Ht]. destruct (Q x); cbn; rewrite ?Hx; auto.
Qed.

Lemma forallb_fold_remove (P : bytes -> bool) (dels : list height) : forall l,
  forallb P l = true -> forallb P (fold_left (fun l h => remove_key (signer_suffix h) l) dels l) = true.
Proof.
  induction dels as [|h t IH]; cbn; intros l H; [exact H|].
  apply IH. unfold remove_key. apply forallb_filter. exact H.
Qed.

Lemma has_slash_signer_suffix h : has_slash (signer_suffix h) = true.
Proof. reflexivity. Qed.

Lemma store_wf_set_signer st hd : store_wf st -> store_wf (bsc_set_signer st hd).
Proof. unfold store_wf, bsc_set_signer; cbn. apply forallb_sorted_insert. apply has_slash_signer_suffix. Qed.

Lemma store_wf_set_client st cs : store_wf st -> store_wf (set_client st cs).
Proof. exact (fun H => H). Qed.

Lemma store_wf_set_cons st h c : store_wf st -> store_wf (set_cons st h c).
Proof. exact (fun H => H). Qed.

(** * What the stateless validation guarantees *)

(** ** Side conditions on the REGENERATED guards (Gen/HaltGuardsGen.v), decided by [vm_compute]: the guards of
    the validation functions of /repo imply the bounds the guarded code needs.  A harmless rewrite of the Go
    code (reordered, merged, stronger guards) re-checks; a weakened or dropped guard computes to [false] and
    these lemmas - hence every theorem of Props/C15.v - no longer check. *)
Lemma guard_obligations_hold : failed_guard_obligations = [].
Proof. vm_compute. reflexivity. Qed.

Lemma guard_obligation (i : nat) : nth i (map snd guard_obligations) true = true.
Proof.
  assert (H : forallb (fun o => snd o) guard_obligations = true) by (vm_compute; reflexivity).
  rewrite forallb_forall in H.
  destruct (Nat.ltb i (List.length guard_obligations)) eqn:E.
  - apply PeanoNat.Nat.ltb_lt in E. rewrite <- (map_length snd) in E.
    pose proof (nth_In (map snd guard_obligations) true E) as Hin. apply in_map_iff in Hin as (o & Ho & Hin).
    rewrite <- Ho. apply H. exact Hin.
  - apply PeanoNat.Nat.ltb_ge in E. rewrite <- (map_length snd) in E. apply nth_overflow. exact E.
Qed.

Lemma bsc_guards_epoch : existsb (forced (ABelow (KFld "Epoch") 1)) bsc_client_validate_guards = true.
Proof. exact (guard_obligation 0). Qed.
Lemma bsc_guards_extra : existsb (forced (ABelow (KLen "Header.Extra") (bsc_extra_vanity + bsc_extra_seal))) bsc_client_validate_guards = true.
Proof. exact (guard_obligation 1). Qed.
Lemma bsc_guards_bloom : existsb (forced (AAbove (KLen "Header.Bloom") bsc_bloom_byte_length)) bsc_client_validate_guards = true.
Proof. exact (guard_obligation 2). Qed.
Lemma bsc_guards_nonce : existsb (forced (AAbove (KLen "Header.Nonce") bsc_nonce_byte_length)) bsc_client_validate_guards = true.
Proof. exact (guard_obligation 3). Qed.
Lemma bsc_guards_ecrecover :
  existsb (forced (ABelow (KLen "Extra") (N.max bsc_extra_seal 65))) bsc_ecrecover_guards
  || (N.max bsc_extra_seal 65 <=? bsc_extra_vanity + bsc_extra_seal) = true.
Proof. exact (guard_obligation 4). Qed.
Lemma eth_guards_bloom : existsb (forced (AAbove (KLen "Header.Bloom") 256)) eth_client_validate_guards = true.
Proof. exact (guard_obligation 5). Qed.
Lemma metadata_guards_key : existsb (forced (ABelow (KLen "Key") 1)) genesis_metadata_validate_guards = true.
Proof. exact (guard_obligation 6). Qed.
Lemma aggregate_pair_guards_denoms : existsb (forced (ABelow (KLen "Denoms") 1)) aggregate_genesis_pair_guards = true.
Proof. exact (guard_obligation 7). Qed.
Lemma packet_ack_guards_data : existsb (forced (ABelow (KLen "Data") 1)) packet_genesis_ack_guards = true.
Proof. exact (guard_obligation 8). Qed.
Lemma packet_commitment_guards_data : existsb (forced (ABelow (KLen "Data") 1)) packet_genesis_commitment_guards = true.
Proof. exact (guard_obligation 9). Qed.

(** A lower bound of 1 on a length means the list is not empty. *)
Lemma lenN_pos {A} (l : list A) : 1 <= lenN l -> l <> [].
Proof. intros H E. subst. cbn in H. apply N.le_ngt in H. apply H. reflexivity. Qed.

Lemma validate_bsc_facts hd cid epoch tr :
  validate_bsc hd cid epoch tr = Ok tt ->
  epoch <> 0 /\ bsc_extra_vanity + bsc_extra_seal <= hd_extra_len hd /\
  hd_bloom_len hd <= bsc_bloom_byte_length /\ hd_nonce_len hd <= bsc_nonce_byte_length.
Proof.
  unfold validate_bsc.
  destruct (guards_reject (bsc_client_env hd cid epoch tr) bsc_client_validate_guards) eqn:E0; [discriminate|].
  pose proof E0 as E1. intros _. repeat split.
  - pose proof (accepted_lower_bound _ _ _ _ epoch E0 bsc_guards_epoch eq_refl) as H. intro Hz. subst. apply N.le_ngt in H. apply H. reflexivity.
  - exact (accepted_lower_bound _ _ _ _ _ E1 bsc_guards_extra eq_refl).
  - exact (accepted_upper_bound _ _ _ _ _ E1 bsc_guards_bloom eq_refl).
  - exact (accepted_upper_bound _ _ _ _ _ E1 bsc_guards_nonce eq_refl).
Qed.

Lemma validate_eth_facts hd tr : validate_eth hd tr = Ok tt -> hd_bloom_len hd <= 256.
Proof.
  unfold validate_eth.
  destruct (guards_reject (eth_client_env hd tr) eth_client_validate_guards) eqn:E1; [discriminate|].
  intros _. exact (accepted_upper_bound _ _ _ _ _ E1 eth_guards_bloom eq_refl).
Qed.

(** * Initialize / UpgradeState of a validated client state *)
Section Safe.
  Variable now : N.
  Variable native : bytes.

  (** Both slicings of the seal are in bounds: by ecrecover's own length test (regenerated) or by the length the
      validation guarantees - whichever the regenerated code provides (obligation bsc_guards_ecrecover). *)
  Lemma bsc_recover_safe hd cid seal :
    bsc_extra_vanity + bsc_extra_seal <= hd_extra_len hd -> osafe (fun _ => True) (bsc_recover false hd cid seal).
  Proof.
    intro Hx. unfold bsc_recover. destruct (guards_reject (header_env hd) bsc_ecrecover_guards) eqn:E; [exact I|].
    assert (H : N.max bsc_extra_seal 65 <= hd_extra_len hd).
    { pose proof bsc_guards_ecrecover as Hob. apply orb_true_iff in Hob as [Hob|Hob].
      - exact (accepted_lower_bound _ _ _ _ _ E Hob eq_refl).
      - apply N.leb_le in Hob. eapply N.le_trans; [exact Hob | exact Hx]. }
    assert (H1 : hd_extra_len hd <? bsc_extra_seal = false) by (apply N.ltb_ge; eapply N.le_trans; [apply N.le_max_l | exact H]).
    assert (H2 : hd_extra_len hd <? 65 = false) by (apply N.ltb_ge; eapply N.le_trans; [apply N.le_max_r | exact H]).
    rewrite H1, H2. cbn [orb andb]. destruct seal; exact I.
  Qed.

  Lemma parse_validators_safe hd : bsc_extra_vanity + bsc_extra_seal <= hd_extra_len hd -> osafe (fun _ => True) (parse_validators hd).
  Proof.
    intro H. unfold parse_validators. apply N.ltb_ge in H. rewrite H.
    destruct ((hd_extra_len hd - (bsc_extra_vanity + bsc_extra_seal)) mod bsc_address_length =? 0); exact I.
  Qed.

  Lemma bsc_initialize_safe st hd cid epoch tr seal :
    validate_bsc hd cid epoch tr = Ok tt -> store_wf st -> osafe store_wf (bsc_initialize false st hd cid epoch seal).
  Proof.
    intros Hv Hwf. destruct (validate_bsc_facts _ _ _ _ Hv) as (He & Hx & _ & _).
    unfold bsc_initialize. apply N.eqb_neq in He. rewrite He.
    destruct (negb (h_ht (hd_height hd) mod epoch =? 0)); [exact I|].
    eapply osafe_bind; [apply bsc_recover_safe; exact Hx|]. intros _ _.
    eapply osafe_bind; [apply parse_validators_safe; exact Hx|]. intros _ _.
    cbn. apply store_wf_set_signer. exact Hwf.
  Qed.

  Lemma bsc_upgrade_safe st hd cid epoch trusting seal :
    validate_bsc hd cid epoch trusting = Ok tt -> store_wf st -> osafe store_wf (bsc_upgrade now false false st hd cid epoch trusting seal).
  Proof.
    intros Hv Hwf. destruct (validate_bsc_facts _ _ _ _ Hv) as (He & Hx & _ & _).
    unfold bsc_upgrade. apply N.eqb_neq in He. rewrite He.
    destruct (negb (h_ht (hd_height hd) mod epoch =? 0)); [exact I|].
    eapply (osafe_bind (fun _ => True)).
    { destruct (c_cons st) as [|[h c] t]; [exact I|]. destruct c; exact I. }
    intros cons' _.
    eapply (osafe_bind (fun _ => True)).
    { pose proof (delete_all_signer_no_panic _ Hwf) as Hn. destruct (delete_all_signer (c_signers st)); cbn; congruence || exact I. }
    intros dels _.
    eapply osafe_bind; [apply bsc_recover_safe; exact Hx|]. intros _ _.
    eapply osafe_bind; [apply parse_validators_safe; exact Hx|]. intros _ _.
    cbn. apply store_wf_set_signer. unfold store_wf; cbn. apply forallb_fold_remove. exact Hwf.
  Qed.

  (** checkConsensusRoot (aa5560b) converts the header before it compares the roots: the conversion cannot panic for a
      validated client state (bloom length, regenerated guard), for ANY consensus state. *)
  Lemma eth_check_root_safe hd tr k : validate_eth hd tr = Ok tt -> osafe (fun _ => True) (eth_check_root hd k).
  Proof.
    intros Hv. apply validate_eth_facts in Hv. unfold eth_check_root, to_eth_header.
    apply N.ltb_ge in Hv. rewrite Hv. cbn [obind].
    destruct (bytes_eqb (bytes_to_hash (cons_root k)) (bytes_to_hash (hd_root hd))); exact I.
  Qed.

  Lemma eth_initialize_nopanic st hd tr k : validate_eth hd tr = Ok tt -> osafe (fun st' => st' = st) (eth_initialize false st hd k).
  Proof.
    intros Hv. unfold eth_initialize. eapply osafe_bind; [eapply eth_check_root_safe; exact Hv|]. intros _ _.
    apply validate_eth_facts in Hv. unfold to_eth_header. apply N.ltb_ge in Hv. rewrite Hv. reflexivity.
  Qed.

  Lemma eth_initialize_safe st hd tr k : validate_eth hd tr = Ok tt -> store_wf st -> osafe store_wf (eth_initialize false st hd k).
  Proof.
    intros Hv Hwf. eapply osafe_weaken; [|eapply eth_initialize_nopanic; exact Hv]. intros a ->. exact Hwf.
  Qed.

  Lemma initialize_safe st cs k :
    validate_client cs = Ok tt -> store_wf st -> osafe store_wf (initialize_gen false st cs k).
  Proof.
    intros Hv Hwf. destruct cs as [c n d t u dr l sp|hd cid epoch tr seal|hd tr|a]; unfold validate_client, validate_client_gen in Hv; cbn [initialize_gen].
    - destruct k; cbn; auto.
    - eapply bsc_initialize_safe; eassumption.
    - eapply eth_initialize_safe; eassumption.
    - exact Hwf.
  Qed.

  Lemma upgrade_state_safe st cs k :
    validate_client cs = Ok tt -> store_wf st -> osafe store_wf (upgrade_state_gen now false false st cs k).
  Proof.
    intros Hv Hwf. destruct cs as [c n d t u dr l sp|hd cid epoch tr seal|hd tr|a]; unfold validate_client, validate_client_gen in Hv; cbn [upgrade_state_gen].
    - exact Hwf.
    - apply bsc_upgrade_safe; assumption.
    - eapply eth_initialize_safe; eassumption.
    - exact Hwf.
  Qed.

  (** * Keeper life cycle *)
  Lemma create_client_safe st cs k :
    validate_client cs = Ok tt -> store_wf st -> osafe store_wf (create_client false st cs k).
  Proof.
    intros Hv Hwf. unfold create_client.
    eapply osafe_bind; [apply initialize_safe; [exact Hv | apply store_wf_set_client; exact Hwf]|].
    intros st1 H1. cbn. destruct (is_tss_cons k); [exact H1 | apply store_wf_set_cons; exact H1].
  Qed.

  Lemma upgrade_client_safe st cs k :
    validate_client cs = Ok tt -> store_wf st -> osafe store_wf (upgrade_client now false false st cs k).
  Proof.
    intros Hv Hwf. unfold upgrade_client.
    destruct (c_client st) as [cur|]; [|exact I].
    destruct (negb (ctype_eqb (client_type cur) (client_type cs))); [exact I|].
    pose proof (upgrade_state_safe st cs k Hv Hwf) as H.
    destruct (upgrade_state_gen now false false st cs k) as [st1| |]; cbn in *; [|exact I|contradiction].
    destruct (ctype_eqb (client_type cs) TTSS); cbn; [apply store_wf_set_client | apply store_wf_set_cons, store_wf_set_client]; exact H.
  Qed.

  Lemma toggle_client_safe st cs k :
    validate_client cs = Ok tt -> store_wf st -> osafe store_wf (toggle_client false st cs k).
  Proof.
    intros Hv Hwf. unfold toggle_client.
    destruct (c_client st) as [cur|]; [|exact I].
    destruct (ctype_eqb (client_type cur) (client_type cs)); [exact I|].
    cbn [negb andb]. eapply osafe_bind; [apply initialize_safe; [exact Hv | apply store_wf_set_client; apply store_wf_empty]|].
    intros st1 H1. cbn. destruct (is_tss_cons k); [exact H1 | apply store_wf_set_cons; exact H1].
  Qed.

  Lemma cons_type_ok_safe c k : osafe (fun _ => True) (cons_type_ok false c k).
  Proof. unfold cons_type_ok. destruct (cons_type k) as [t|]; [|exact I]. destruct (ctype_eqb t (client_type c)); exact I. Qed.

  (** * Proposal handlers *)
  Lemma xget_xset s chain v chain' : xget (xset s chain v) chain' = if bytes_eqb chain chain' then v else xget s chain'.
  Proof. reflexivity. Qed.

  Lemma xstate_wf_xset s chain v : xstate_wf s -> store_wf v -> xstate_wf (xset s chain v).
  Proof. intros Hs Hv c. rewrite xget_xset. destruct (bytes_eqb chain c); [exact Hv | apply Hs]. Qed.

  Lemma unpack_safe {A} (a : any A) : osafe (fun v => a = AnyVal v) (unpack a).
  Proof. destruct a; cbn; auto. Qed.

  (** What ValidateBasic guarantees about a client proposal. *)
  Lemma client_prop_validate_facts t d chain cs k :
    client_prop_validate false t d chain cs k = Ok tt -> exists c, cs = AnyVal c /\ validate_client c = Ok tt.
  Proof.
    unfold client_prop_validate.
    destruct (is_wrong cs || is_wrong k); [discriminate|].
    destruct (negb (abstract_ok t d)); [discriminate|].
    destruct (negb (identifier_ok chain)); [discriminate|].
    destruct cs; cbn; try discriminate. intro H. eauto.
  Qed.

  (** What ValidateBasic guarantees about a relayer proposal: the address (the store key) is not empty, because
      sdk.AccAddressFromBech32 refuses blank strings. *)
  Lemma relayer_validate_facts t d a dec chains n :
    xprop_validate (PRelayer t d a dec chains n) = Ok tt -> (lenN a =? 0) = false.
  Proof.
    unfold xprop_validate, xprop_validate_gen.
    destruct (negb (abstract_ok t d)); [discriminate|].
    destruct (acc_address_from_bech32 a dec) eqn:E; [|discriminate]. intros _.
    destruct a as [|b a']; [discriminate E | reflexivity].
  Qed.

  Theorem handle_xprop_safe s p :
    xprop_validate p = Ok tt -> xstate_wf s -> osafe xstate_wf (handle_xprop now false native s p).
  Proof.
    intros Hv Hwf. destruct p as [t d chain cs k|t d chain cs k|t d chain cs k|t d a dec chains n]; [cbn in Hv | cbn in Hv | cbn in Hv |].
    - apply client_prop_validate_facts in Hv as (c & -> & Hc). unfold handle_xprop, handle_xprop_gen.
      cbn [negb andb]. destruct (bytes_eqb chain native); [exact I|].
      destruct (c_client (xget s chain)); [exact I|]. cbn [unpack obind].
      eapply osafe_bind; [apply unpack_safe|]. intros kk _.
      eapply osafe_bind; [apply cons_type_ok_safe|]. intros _ _.
      eapply osafe_bind; [apply create_client_safe; [exact Hc | apply Hwf]|].
      intros st' H'. cbn. apply xstate_wf_xset; assumption.
    - apply client_prop_validate_facts in Hv as (c & -> & Hc). unfold handle_xprop, handle_xprop_gen. cbn [unpack obind].
      eapply osafe_bind; [apply unpack_safe|]. intros kk _.
      eapply osafe_bind; [apply cons_type_ok_safe|]. intros _ _.
      eapply osafe_bind; [apply upgrade_client_safe; [exact Hc | apply Hwf]|].
      intros st' H'. cbn. apply xstate_wf_xset; assumption.
    - apply client_prop_validate_facts in Hv as (c & -> & Hc). unfold handle_xprop, handle_xprop_gen.
      destruct (c_client (xget s chain)); [|exact I]. cbn [unpack obind].
      eapply osafe_bind; [apply unpack_safe|]. intros kk _.
      eapply osafe_bind; [apply cons_type_ok_safe|]. intros _ _.
      eapply osafe_bind; [apply toggle_client_safe; [exact Hc | apply Hwf]|].
      intros st' H'. cbn. apply xstate_wf_xset; assumption.
    - cbn. rewrite (relayer_validate_facts _ _ _ _ _ _ Hv). exact Hwf.
  Qed.

  (** Histories of governance executions: each proposal passed ValidateBasic when it was submitted. *)
  Fixpoint run_gov (s : xstate) (ps : list xprop) : outcome xstate :=
    match ps with
    | [] => Ok s
    | p :: t => match gov_exec (handle_xprop now false native) s p with Ok s' => run_gov s' t | Err => Err | Panic => Panic end
    end.

  Theorem run_gov_safe ps : forall s,
    (forall p, In p ps -> xprop_validate p = Ok tt) -> xstate_wf s -> exists s', run_gov s ps = Ok s' /\ xstate_wf s'.
  Proof.
    induction ps as [|p t IH]; cbn; intros s Hv Hwf; [eauto|].
    pose proof (handle_xprop_safe s p (Hv p (or_introl eq_refl)) Hwf) as H.
    unfold gov_exec. destruct (handle_xprop now false native s p) as [s'| |]; cbn in H; [| |contradiction].
    - apply IH; [intros q Hq; apply Hv; right; exact Hq | exact H].
    - apply IH; [intros q Hq; apply Hv; right; exact Hq | exact Hwf].
  Qed.
End Safe.

(** * Genesis *)

Lemma all_ok_not_panic {A} (f : A -> outcome unit) l : (forall x, In x l -> f x <> Panic) -> all_ok f l <> Panic.
Proof.
  induction l as [|y l IH]; cbn; intro H; [discriminate|].
  apply obind_not_panic; [apply H; left; reflexivity|]. intros _ _. apply IH. intros x Hx; apply H; right; exact Hx.
Qed.

(** ** xibc *)
Lemma gx_validate_clients_vals l : forall acc types,
  gx_validate_clients l acc = Ok types -> forall c, In c l -> exists cs, snd c = AnyVal cs.
Proof.
  induction l as [|[chain a] t IH]; cbn; intros acc types H c Hin; [contradiction|].
  destruct (negb (identifier_ok chain)); [discriminate|].
  destruct a as [| | |cs]; try discriminate.
  apply obind_ok in H as (u & _ & H). destruct Hin as [<-|Hin]; [cbn; eauto | eapply IH; eassumption].
Qed.

Definition relayers_nonempty (g : gx_genesis) : Prop := forall r, In r (gx_relayers g) -> rl_addr_len r <> 0.

Lemma gx_init_safe relayer_check g :
  gx_validate_gen relayer_check g = Ok tt -> (relayer_check = true \/ relayers_nonempty g) -> gx_init g = Ok tt.
Proof.
  unfold gx_validate_gen. destruct (negb (gx_decodes g)); [discriminate|]. intros H Hrel.
  apply obind_ok in H as (types & Hc & H).
  apply obind_ok in H as ([] & Hcons & H).
  apply obind_ok in H as ([] & Hmeta & H).
  apply obind_ok in H as ([] & Hr & H).
  apply obind_ok in H as ([] & _ & H).
  apply obind_ok in H as ([] & Hacks & H).
  apply obind_ok in H as ([] & _ & H).
  apply obind_ok in H as ([] & Hcomm & _).
  unfold gx_init.
  assert (E1 : all_ok (fun m : bytes * list (bytes * N) =>
                 all_ok (fun kv : bytes * N => if lenN (fst kv) =? 0 then Panic else Ok tt) (snd m)) (gx_metadata g) = Ok tt).
  { apply all_ok_intro. intros m Hm. pose proof (all_ok_ok _ _ Hmeta m Hm) as Hm'. cbn in Hm'.
    destruct (assoc_type types (fst m)); [|discriminate].
    apply all_ok_intro. intros kv Hkv. pose proof (all_ok_ok _ _ Hm' kv Hkv) as Hkv'. unfold gx_validate_metadata in Hkv'.
    destruct (guards_reject (metadata_env kv) genesis_metadata_validate_guards) eqn:Eg; [discriminate|].
    pose proof (accepted_lower_bound _ _ _ _ _ Eg metadata_guards_key eq_refl) as Hk.
    destruct (lenN (fst kv) =? 0) eqn:Ez; [|reflexivity]. apply N.eqb_eq in Ez. rewrite Ez in Hk. exfalso. apply N.le_ngt in Hk. apply Hk. reflexivity. }
  rewrite E1. cbn [obind].
  assert (E2 : all_ok (fun c : bytes * any client_state => match snd c with AnyVal _ => Ok tt | _ => Panic end) (gx_clients g) = Ok tt).
  { apply all_ok_intro. intros c Hin. destruct (gx_validate_clients_vals _ _ _ Hc c Hin) as (cs & ->). reflexivity. }
  rewrite E2. cbn [obind].
  assert (E3 : all_ok (fun cc : bytes * list (height * any cons_state) =>
                 all_ok (fun hc : height * any cons_state => match snd hc with AnyVal _ => Ok tt | _ => Panic end) (snd cc)) (gx_consensus g) = Ok tt).
  { apply all_ok_intro. intros cc Hcc. pose proof (all_ok_ok _ _ Hcons cc Hcc) as H'. cbn in H'.
    destruct (assoc_type types (fst cc)); [|discriminate].
    apply all_ok_intro. intros [h a] Hhc. pose proof (all_ok_ok _ _ H' _ Hhc) as H''. cbn in H''.
    destruct ((h_rev h =? 0) && (h_ht h =? 0) && negb (ctype_eqb c TETH) && negb (ctype_eqb c TBSC)); [discriminate|]. destruct a; try discriminate. reflexivity. }
  rewrite E3. cbn [obind].
  assert (E4 : all_ok (fun r : gx_relayer => if rl_addr_len r =? 0 then Panic else Ok tt) (gx_relayers g) = Ok tt).
  { apply all_ok_intro. intros r Hin. destruct (rl_addr_len r =? 0) eqn:E; [|reflexivity]. exfalso. apply N.eqb_eq in E.
    destruct Hrel as [->|Hne].
    - cbn in Hr. destruct (forallb relayer_ok (gx_relayers g)) eqn:Ex; [|discriminate].
      rewrite forallb_forall in Ex. specialize (Ex r Hin). unfold relayer_ok in Ex. rewrite E in Ex. discriminate.
    - exact (Hne r Hin E). }
  rewrite E4. cbn [obind].
  assert (Hdata : forall gs l, existsb (forced (ABelow (KLen "Data") 1)) gs = true -> all_ok (gx_validate_packet gs) l = Ok tt ->
            all_ok (fun p : gx_packet => if gp_data_len p =? 0 then Panic else Ok tt) l = Ok tt).
  { intros gs l Hf Hl. apply all_ok_intro. intros p Hp. pose proof (all_ok_ok _ _ Hl p Hp) as Hv. unfold gx_validate_packet in Hv.
    destruct (negb (identifier_ok (gp_src p))); [discriminate|]. destruct (negb (identifier_ok (gp_dst p))); [discriminate|].
    destruct (gp_seq p =? 0); [discriminate|].
    destruct (guards_reject (packet_env p) gs) eqn:Eg; [discriminate|].
    pose proof (accepted_lower_bound _ _ _ _ _ Eg Hf eq_refl) as Hk.
    destruct (gp_data_len p =? 0) eqn:Ez; [|reflexivity]. apply N.eqb_eq in Ez. rewrite Ez in Hk. exfalso. apply N.le_ngt in Hk. apply Hk. reflexivity. }
  rewrite (Hdata _ _ packet_ack_guards_data Hacks). cbn [obind].
  exact (Hdata _ _ packet_commitment_guards_data Hcomm).
Qed.

(** ** aggregate *)
Lemma ga_validate_pairs_denoms l : forall se sd,
  ga_validate_pairs false l se sd = Ok tt -> forall p, In p l -> gp_denoms p <> [].
Proof.
  induction l as [|q t IH]; intros se sd H p Hin; [contradiction|]. cbn [ga_validate_pairs] in H.
  destruct (mem (addr_key (gp_erc20 q)) se); [discriminate|].
  destruct (guards_reject (ga_pair_env q) aggregate_genesis_pair_guards) eqn:Eg; [discriminate|].
  pose proof (lenN_pos _ (accepted_lower_bound _ _ _ _ _ Eg aggregate_pair_guards_denoms eq_refl)) as Hq.
  destruct (denoms_fresh (gp_denoms q) sd) as [seen|]; [|discriminate].
  destruct (negb (forallb (fun d => valid_denom d && negb (is_hex_address d)) (gp_denoms q))); [discriminate|].
  destruct (negb (is_hex_address (gp_erc20 q))); [discriminate|].
  destruct Hin as [<-|Hin]; [exact Hq | eapply IH; eassumption].
Qed.

Lemma ga_init_safe l : ga_validate l = Ok tt -> ga_init l = Ok tt.
Proof.
  intro H. unfold ga_init. apply all_ok_intro. intros p Hp.
  pose proof (ga_validate_pairs_denoms _ _ _ H p Hp) as Hd. destruct (gp_denoms p); [contradiction | reflexivity].
Qed.

(** ** rvesting *)
Lemma gr_init_safe g :
  gr_validate g = Ok tt -> (gr_from_empty g = true \/ covers (gr_from_bal g) (gr_init g) = true) -> gr_init_genesis g = Ok tt.
Proof.
  unfold gr_validate, gr_init_genesis.
  destruct (negb (validate_rewards (gr_rewards g))); [discriminate|].
  destruct (gr_from_empty g); [reflexivity|].
  destruct (negb (gr_from_ok g)); [discriminate|].
  destruct (coins_valid (gr_init g)); [|discriminate].
  intros _ [Hc|Hc]; [discriminate|]. cbn. rewrite Hc. reflexivity.
Qed.

(** * rvesting parameters and BeginBlocker (from the C20 development) *)
Lemma begin_block_validated_no_panic p s :
  validate_rewards (rewards p) = true -> pool_ok s -> begin_block p s <> Panic.
Proof.
  intros Hv Hp. destruct (enable p) eqn:E.
  - destruct (begin_block_enabled p s E Hv Hp) as (s' & -> & _). discriminate.
  - rewrite (begin_block_disabled p s E). discriminate.
Qed.

(** * Monitor soundness: the executable monitor accepts what the model produces *)
Lemma mon_steps_sound_x now native s p i :
  xstate_wf s -> mon_steps i [(oclass (xprop_validate p), oclass (handle_xprop now false native s p))] = [].
Proof.
  intro Hwf. cbn. destruct (xprop_validate p) as [[]| |] eqn:Ev; cbn; try reflexivity.
  pose proof (handle_xprop_safe now native s p Ev Hwf) as H.
  destruct (handle_xprop now false native s p); cbn in *; [reflexivity | reflexivity | contradiction].
Qed.

(** * The repaired recent-signer key parser: no state invariant is needed *)
Lemma delete_all_signer_strict_no_panic l : delete_all_signer_strict l <> Panic.
Proof.
  induction l as [|s t IH]; cbn; [discriminate|].
  destruct (split_slash s []) as [|a [|b [|c r]]]; try discriminate.
  destruct (parse_height b); [|discriminate].
  destruct (delete_all_signer_strict t); congruence.
Qed.

Section SafeStrict.
  Variable now : N.
  Variable native : bytes.
  Notation T := (fun _ : cstore => True).

  Lemma bsc_initialize_nopanic st hd cid epoch tr seal :
    validate_bsc hd cid epoch tr = Ok tt -> osafe T (bsc_initialize false st hd cid epoch seal).
  Proof.
    intros Hv. destruct (validate_bsc_facts _ _ _ _ Hv) as (He & Hx & _ & _).
    unfold bsc_initialize. apply N.eqb_neq in He. rewrite He.
    destruct (negb (h_ht (hd_height hd) mod epoch =? 0)); [exact I|].
    eapply osafe_bind; [apply bsc_recover_safe; exact Hx|]. intros _ _.
    eapply osafe_bind; [apply parse_validators_safe; exact Hx|]. intros _ _. exact I.
  Qed.

  Lemma bsc_upgrade_strict_nopanic st hd cid epoch trusting seal :
    validate_bsc hd cid epoch trusting = Ok tt -> osafe T (bsc_upgrade now true false st hd cid epoch trusting seal).
  Proof.
    intros Hv. destruct (validate_bsc_facts _ _ _ _ Hv) as (He & Hx & _ & _).
    unfold bsc_upgrade. apply N.eqb_neq in He. rewrite He.
    destruct (negb (h_ht (hd_height hd) mod epoch =? 0)); [exact I|].
    eapply (osafe_bind (fun _ => True)).
    { destruct (c_cons st) as [|[h c] t]; [exact I|]. destruct c; exact I. }
    intros cons' _.
    eapply (osafe_bind (fun _ => True)).
    { pose proof (delete_all_signer_strict_no_panic (c_signers st)) as Hn.
      destruct (delete_all_signer_strict (c_signers st)); cbn; congruence || exact I. }
    intros dels _.
    eapply osafe_bind; [apply bsc_recover_safe; exact Hx|]. intros _ _.
    eapply osafe_bind; [apply parse_validators_safe; exact Hx|]. intros _ _. exact I.
  Qed.

  Lemma initialize_nopanic st cs k : validate_client cs = Ok tt -> osafe T (initialize_gen false st cs k).
  Proof.
    intros Hv. destruct cs as [c n d t u dr l sp|hd cid epoch tr seal|hd tr|a]; unfold validate_client, validate_client_gen in Hv; cbn [initialize_gen].
    - destruct k; cbn; auto.
    - eapply bsc_initialize_nopanic; eassumption.
    - eapply osafe_weaken; [|eapply eth_initialize_nopanic; exact Hv]. intros; exact I.
    - exact I.
  Qed.

  Lemma upgrade_state_strict_nopanic st cs k : validate_client cs = Ok tt -> osafe T (upgrade_state_gen now true false st cs k).
  Proof.
    intros Hv. destruct cs as [c n d t u dr l sp|hd cid epoch tr seal|hd tr|a]; unfold validate_client, validate_client_gen in Hv; cbn [upgrade_state_gen].
    - exact I.
    - apply bsc_upgrade_strict_nopanic; assumption.
    - eapply osafe_weaken; [|eapply eth_initialize_nopanic; exact Hv]. intros; exact I.
    - exact I.
  Qed.

  Lemma osafe_T_ok {A B} (o : outcome A) (f : A -> B) :
    osafe (fun _ => True) o -> osafe (fun _ => True) (match o with Ok a => Ok (f a) | Err => Err | Panic => Panic end).
  Proof. destruct o; cbn; auto. Qed.

  Theorem handle_xprop_strict_safe s p : xprop_validate p = Ok tt -> handle_xprop now true native s p <> Panic.
  Proof.
    intros Hv. apply (osafe_not_panic (fun _ => True)).
    destruct p as [t d chain cs k|t d chain cs k|t d chain cs k|t d a dec chains n]; [cbn in Hv | cbn in Hv | cbn in Hv |].
    - apply client_prop_validate_facts in Hv as (c & -> & Hc). unfold handle_xprop, handle_xprop_gen.
      cbn [negb andb]. destruct (bytes_eqb chain native); [exact I|].
      destruct (c_client (xget s chain)); [exact I|]. cbn [unpack obind].
      eapply osafe_bind; [apply unpack_safe|]. intros kk _.
      eapply osafe_bind; [apply cons_type_ok_safe|]. intros _ _.
      eapply (osafe_bind (fun _ => True)); [|intros; exact I].
      unfold create_client. eapply osafe_bind; [apply initialize_nopanic; exact Hc|]. intros; exact I.
    - apply client_prop_validate_facts in Hv as (c & -> & Hc). unfold handle_xprop, handle_xprop_gen. cbn [unpack obind].
      eapply osafe_bind; [apply unpack_safe|]. intros kk _.
      eapply osafe_bind; [apply cons_type_ok_safe|]. intros _ _.
      eapply (osafe_bind (fun _ => True)); [|intros; exact I].
      unfold upgrade_client. destruct (c_client (xget s chain)) as [cur|]; [|exact I].
      destruct (negb (ctype_eqb (client_type cur) (client_type c))); [exact I|].
      pose proof (upgrade_state_strict_nopanic (xget s chain) c kk Hc) as H.
      destruct (upgrade_state_gen now true false (xget s chain) c kk); cbn in *; auto.
    - apply client_prop_validate_facts in Hv as (c & -> & Hc). unfold handle_xprop, handle_xprop_gen.
      destruct (c_client (xget s chain)); [|exact I]. cbn [unpack obind].
      eapply osafe_bind; [apply unpack_safe|]. intros kk _.
      eapply osafe_bind; [apply cons_type_ok_safe|]. intros _ _.
      eapply (osafe_bind (fun _ => True)); [|intros; exact I].
      unfold toggle_client. destruct (c_client (xget s chain)) as [cur|]; [|exact I].
      destruct (ctype_eqb (client_type cur) (client_type c)); [exact I|].
      cbn [negb andb]. eapply osafe_bind; [apply initialize_nopanic; exact Hc|]. intros; exact I.
    - cbn. rewrite (relayer_validate_facts _ _ _ _ _ _ Hv). exact I.
  Qed.
End SafeStrict.

Lemma mon_steps_sound_x_strict now native s p i :
  mon_steps i [(oclass (xprop_validate p), oclass (handle_xprop now true native s p))] = [].
Proof.
  cbn. destruct (xprop_validate p) as [[]| |] eqn:Ev; cbn; try reflexivity.
  pose proof (handle_xprop_strict_safe now native s p Ev) as H.
  destruct (handle_xprop now true native s p); cbn in *; [reflexivity | reflexivity | congruence].
Qed.

(** Histories executed by gov.EndBlocker with the handlers of /repo HEAD: any start state. *)
Fixpoint run_gov_head (now : N) (native : bytes) (s : xstate) (ps : list xprop) : outcome xstate :=
  match ps with
  | [] => Ok s
  | p :: t => match gov_exec (handle_xprop now true native) s p with Ok s' => run_gov_head now native s' t | Err => Err | Panic => Panic end
  end.

Theorem run_gov_head_safe now native ps : forall s,
  (forall p, In p ps -> xprop_validate p = Ok tt) -> exists s', run_gov_head now native s ps = Ok s'.
Proof.
  induction ps as [|p t IH]; cbn; intros s Hv; [eauto|].
  pose proof (handle_xprop_strict_safe now native s p (Hv p (or_introl eq_refl))) as H.
  unfold gov_exec. destruct (handle_xprop now true native s p) as [s'| |]; [| |congruence];
    apply IH; intros q Hq; apply Hv; right; exact Hq.
Qed.
