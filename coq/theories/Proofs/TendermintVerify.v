(** Soundness of header acceptance (C07): validator-set conversion, the two
    voting-power tallies with their early exits, light.Verify, checkValidity. *)
From Teleport Require Import Base.Bytes Base.Outcome Model.Tendermint Proofs.TendermintStore.
From Coq Require Import Lia ZArith NArith List Bool.
From Coq Require Import ZifyN ZifyNat ZifyBool.
Local Open Scope Z_scope.

(** * Outcome monad inversion *)
Lemma obind_ok {A B} (x : outcome A) (f : A -> outcome B) b :
  obind x f = Ok b -> exists a, x = Ok a /\ f a = Ok b.
Proof. destruct x; cbn; intro H; try discriminate; eauto. Qed.

Ltac inv_ok H :=
  repeat match type of H with
  | obind _ _ = Ok _ => let a := fresh "a" in let Ha := fresh "Ha" in apply obind_ok in H as (a & Ha & H)
  | Ok _ = Ok _ => inversion H; clear H; subst
  | Err = Ok _ => discriminate H
  | Panic = Ok _ => discriminate H
  end.

(** * Integer conversions *)
Lemma wrap64_small z : min_int64 <= z <= max_int64 -> wrap64 z = z.
Proof. unfold wrap64, min_int64, max_int64, two63, two64. intro H. rewrite Z.mod_small; lia. Qed.

Lemma i64_small n : (n < 9223372036854775808)%N -> i64 n = Z.of_N n.
Proof. intro H. unfold i64. apply wrap64_small. unfold min_int64, max_int64. lia. Qed.

Lemma u64_small z : 0 <= z < two64 -> u64 z = Z.to_N z.
Proof. intro H. unfold u64. now rewrite Z.mod_small. Qed.

(** * Validator sets *)
Definition nonneg_powers (vals : list validator) : Prop := Forall (fun v => 0 <= va_power v) vals.

Lemma total_of_hash_input_cons v l :
  total_of (hash_input (v :: l)) = va_power v + total_of (hash_input l).
Proof. reflexivity. Qed.

Lemma total_of_nonneg l : nonneg_powers l -> 0 <= total_of (hash_input l).
Proof.
  induction l as [|v l IH]; intro H; [cbn; lia|].
  inversion H; subst. rewrite total_of_hash_input_cons. specialize (IH H3). lia.
Qed.

Lemma total_power_loop_ok l : forall sum t,
  0 <= sum <= max_total_power -> nonneg_powers l ->
  total_power_loop sum l = Ok t -> t = sum + total_of (hash_input l) /\ 0 <= t <= max_total_power.
Proof.
  induction l as [|v l IH]; intros sum t Hs Hn H.
  - cbn in *. inversion H; subst. lia.
  - inversion Hn as [|? ? Hv Hl]; subst. cbn [total_power_loop] in H.
    destruct (safe_add_clip sum (va_power v) >? max_total_power) eqn:E; [discriminate|].
    assert (S : safe_add_clip sum (va_power v) = sum + va_power v).
    { unfold safe_add_clip in *. unfold max_total_power, max_int64, min_int64 in *.
      destruct ((va_power v >? 0) && (sum >? 9223372036854775807 - va_power v)) eqn:C1; [lia|].
      destruct ((va_power v <? 0) && (sum <? -9223372036854775808 - va_power v)) eqn:C2; [lia|reflexivity]. }
    rewrite S in *. apply IH in H; [|lia|assumption].
    rewrite total_of_hash_input_cons. lia.
Qed.

Lemma forallb_validator_basic vals :
  forallb validator_basic vals = true -> nonneg_powers vals /\ Forall (fun v => blen (va_addr v) = address_size) vals.
Proof.
  induction vals as [|v l IH]; cbn; [split; constructor|].
  intro H. apply andb_true_iff in H as [Hv Hl]. unfold validator_basic in Hv.
  apply andb_true_iff in Hv as [H1 H2]. apply Z.leb_le in H1. apply Z.eqb_eq in H2.
  destruct (IH Hl). split; constructor; auto.
Qed.

Lemma valset_from_proto_ok vp vals tot :
  valset_from_proto vp = Ok (vals, tot) ->
  exists p, vp = Some p /\ vals_from_proto (vs_vals p) = Ok vals /\ vals <> [] /\
            nonneg_powers vals /\ tot = total_of (hash_input vals) /\ 0 <= tot <= max_total_power.
Proof.
  unfold valset_from_proto. destruct vp as [p|]; [|discriminate].
  intro H. apply obind_ok in H as (vs & Hvs & H). apply obind_ok in H as (pr & Hpr & H).
  apply obind_ok in H as (t & Ht & H).
  destruct vs as [|v l]; [discriminate|].
  destruct (forallb validator_basic (v :: l) && validator_basic pr) eqn:F; [|discriminate].
  inversion H; subst. apply andb_true_iff in F as [F _]. apply forallb_validator_basic in F as [Hn _].
  destruct (total_power_loop_ok (v :: l) 0 tot) as [E R]; auto; [unfold max_total_power; lia|].
  exists p. split; [reflexivity|]. split; [exact Hvs|]. split; [discriminate|]. split; [exact Hn|].
  split; [lia|exact R].
Qed.

(** * Sums over index lists *)
Fixpoint sum_f (w : nat -> Z) (l : list nat) : Z :=
  match l with [] => 0 | j :: t => w j + sum_f w t end.

Lemma sum_f_app w a b : sum_f w (a ++ b) = sum_f w a + sum_f w b.
Proof. induction a; cbn; lia. Qed.

Lemma sum_f_incl w : (forall j, 0 <= w j) -> forall L M, NoDup L -> incl L M -> sum_f w L <= sum_f w M.
Proof.
  intros Hw. induction L as [|a L IH]; intros M ND I.
  - cbn. clear I. induction M; cbn; [lia|]. specialize (Hw a). lia.
  - inversion ND as [|? ? Na NDL]; subst.
    assert (Ia : In a M) by (apply I; left; reflexivity).
    apply in_split in Ia as (M1 & M2 & ->).
    assert (I' : incl L (M1 ++ M2)).
    { intros x Hx. assert (Hx' : In x (M1 ++ a :: M2)) by (apply I; right; exact Hx).
      apply in_app_or in Hx' as [?|[->|?]]; [apply in_or_app; auto | contradiction | apply in_or_app; auto]. }
    specialize (IH _ NDL I'). rewrite sum_f_app in *. cbn. lia.
Qed.

Lemma sum_f_map_S w L : sum_f w (map S L) = sum_f (fun j => w (S j)) L.
Proof. induction L; cbn; congruence. Qed.

Lemma sum_f_ext w w' L : (forall j, In j L -> w j = w' j) -> sum_f w L = sum_f w' L.
Proof. induction L; cbn; intro H; [reflexivity|]. rewrite H, IHL; auto. Qed.

Lemma fold_sum_seq {A} (f : A -> Z) (d : A) l :
  fold_right (fun v acc => f v + acc) 0 l = sum_f (fun j => f (nth j l d)) (seq 0 (length l)).
Proof.
  induction l as [|x l IH]; [reflexivity|].
  cbn [fold_right length seq sum_f nth]. rewrite <- seq_shift, sum_f_map_S, IH. reflexivity.
Qed.

Lemma number_from_app {A} (a b : list A) i :
  number_from i (a ++ b) = number_from i a ++ number_from (i + length a) b.
Proof.
  revert i; induction a as [|x a IH]; intro i; cbn; [now rewrite Nat.add_0_r|].
  rewrite IH. replace (S i + length a)%nat with (i + S (length a))%nat by lia. reflexivity.
Qed.

Lemma index_of_addr_spec addr : forall vals i vi v,
  index_of_addr addr i vals = Some (vi, v) -> exists k, vi = (i + k)%nat /\ nth_error vals k = Some v.
Proof.
  induction vals as [|x vals IH]; intros i vi v H; cbn in H; [discriminate|].
  destruct (bytes_eqb (va_addr x) addr).
  - inversion H; subst. exists 0%nat. split; [lia|reflexivity].
  - apply IH in H as (k & -> & N). exists (S k). split; [lia|exact N].
Qed.


Section Tallies.
  Variable verify_sig : pubkey -> bytes -> pcommit -> nat -> bool.
  Variables (chain : bytes) (c : pcommit).

  (** ** The own-set tally: early exit never over-counts *)
  Lemma signed_own_from_nonneg : forall vals sigs i,
    nonneg_powers vals -> 0 <= signed_own_from verify_sig chain c i (hash_input vals) sigs.
  Proof.
    induction vals as [|v vals IH]; intros sigs i Hn; [cbn; lia|].
    inversion Hn as [|? ? Hv Hl]; subst. destruct sigs as [|s sigs]; cbn; [lia|].
    specialize (IH sigs (S i) Hl). unfold hash_input in *. destruct (signs verify_sig chain c (va_pk v) (i, s)); lia.
  Qed.

  Lemma vcl_loop_sound needed : forall sigs vals idx tallied,
    nonneg_powers vals ->
    vcl_loop verify_sig chain c needed idx tallied sigs vals = Ok tt ->
    tallied + signed_own_from verify_sig chain c idx (hash_input vals) sigs > needed.
  Proof.
    induction sigs as [|s sigs IH]; intros vals idx tallied Hn H; [destruct vals; discriminate|].
    destruct vals as [|v vals]; [discriminate|]. inversion Hn as [|? ? Hv Hl]; subst.
    cbn [vcl_loop] in H. unfold hash_input in *. cbn [map signed_own_from fst snd]. unfold signs; cbn [fst snd].
    destruct (for_block s) eqn:FB; cbn [negb andb] in *.
    - destruct (verify_sig (va_pk v) chain c idx) eqn:V; cbn [negb] in H; [|discriminate].
      pose proof (signed_own_from_nonneg vals sigs (S idx) Hl) as NN. unfold hash_input in NN.
      destruct (tallied + va_power v >? needed) eqn:G.
      + lia.
      + apply IH in H; auto; lia.
    - apply IH in H; auto; lia.
  Qed.

  Lemma verify_commit_light_sound vals total height :
    nonneg_powers vals -> 0 <= total ->
    verify_commit_light verify_sig chain vals total height c = Ok tt ->
    length vals = length (cm_sigs c) /\ height = cm_height c /\
    3 * signed_own verify_sig chain c (hash_input vals) > 2 * total.
  Proof.
    intros Hn Ht H. unfold verify_commit_light in H.
    destruct (length vals =? length (cm_sigs c))%nat eqn:L; cbn [negb] in H; [|discriminate].
    destruct (height =? cm_height c) eqn:Hh; cbn [negb] in H; [|discriminate].
    apply vcl_loop_sound in H; auto. apply Nat.eqb_eq in L. apply Z.eqb_eq in Hh.
    repeat split; auto. unfold signed_own.
    rewrite Z.quot_div_nonneg in H by lia.
    pose proof (Z.mul_succ_div_gt (total * 2) 3 ltac:(lia)). lia.
  Qed.

  (** ** The trusted-set tally *)
  Variable tvals : list validator.
  Let dv : validator := {| va_addr := []; va_pk := (O, []); va_power := 0 |}.
  Let P (j : nat) : bool := signed_by verify_sig chain c (va_pk (nth j tvals dv)).
  Let pw (j : nat) : Z := va_power (nth j tvals dv).

  Lemma vclt_loop_sound needed : forall sigs pre idx tallied seen,
    cm_sigs c = pre ++ sigs -> length pre = idx ->
    NoDup seen -> (forall j, In j seen -> (j < length tvals)%nat /\ P j = true) -> tallied = sum_f pw seen ->
    vclt_loop verify_sig chain c tvals needed idx tallied seen sigs = Ok tt ->
    exists seen', NoDup seen' /\ (forall j, In j seen' -> (j < length tvals)%nat /\ P j = true) /\
                  sum_f pw seen' > needed.
  Proof.
    induction sigs as [|s sigs IH]; intros pre idx tallied seen Hc Hl ND Hs Ht H; [discriminate|].
    assert (Hc' : cm_sigs c = (pre ++ [s]) ++ sigs) by (rewrite <- app_assoc; exact Hc).
    assert (Hl' : length (pre ++ [s]) = S idx) by (rewrite app_length; cbn; lia).
    cbn [vclt_loop] in H.
    destruct (for_block s) eqn:FB; cbn [negb] in H; [|eapply IH; eauto].
    destruct (get_by_address tvals (sg_addr s)) as [[vi v]|] eqn:G; [|eapply IH; eauto].
    destruct (existsb (Nat.eqb vi) seen) eqn:EX; [discriminate|].
    destruct (verify_sig (va_pk v) chain c idx) eqn:V; cbn [negb] in H; [|discriminate].
    apply index_of_addr_spec in G as (k & Ek & Nk). cbn in Ek; subst vi.
    assert (Hk : (k < length tvals)%nat) by (apply nth_error_Some; congruence).
    assert (Nv : nth k tvals dv = v) by (apply nth_error_nth; exact Nk).
    assert (Pk : P k = true).
    { unfold P, signed_by. rewrite Nv. apply existsb_exists. exists (idx, s). split.
      - rewrite Hc, number_from_app. apply in_or_app. right. cbn. left. f_equal. lia.
      - unfold signs; cbn [fst snd]. now rewrite FB, V. }
    assert (Nin : ~ In k seen).
    { intro I. assert (existsb (Nat.eqb k) seen = true) by (apply existsb_exists; exists k; split; [auto|apply Nat.eqb_refl]).
      congruence. }
    assert (ND' : NoDup (k :: seen)) by (constructor; auto).
    assert (Hs' : forall j, In j (k :: seen) -> (j < length tvals)%nat /\ P j = true).
    { intros j [<-|I]; auto. }
    assert (Ht' : tallied + va_power v = sum_f pw (k :: seen)) by (cbn; unfold pw at 1; rewrite Nv; lia).
    destruct (tallied + va_power v >? needed) eqn:GT.
    - exists (k :: seen). repeat split; auto; try (apply Hs'; auto). lia.
    - eapply IH; eauto.
  Qed.

  Lemma signed_trusted_sum :
    signed_trusted verify_sig chain c (hash_input tvals) =
    sum_f (fun j => if P j then pw j else 0) (seq 0 (length tvals)).
  Proof.
    unfold signed_trusted.
    rewrite (fold_sum_seq (fun v => if signed_by verify_sig chain c (fst v) then snd v else 0) (va_pk dv, va_power dv)).
    assert (L : length (hash_input tvals) = length tvals) by (unfold hash_input; apply map_length).
    rewrite L. apply sum_f_ext. intros j _.
    assert (N : nth j (hash_input tvals) (va_pk dv, va_power dv) = (va_pk (nth j tvals dv), va_power (nth j tvals dv)))
      by (unfold hash_input; apply (map_nth (fun v => (va_pk v, va_power v)))).
    rewrite N. reflexivity.
  Qed.

  Lemma seen_le_signed_trusted seen :
    nonneg_powers tvals -> NoDup seen -> (forall j, In j seen -> (j < length tvals)%nat /\ P j = true) ->
    sum_f pw seen <= signed_trusted verify_sig chain c (hash_input tvals).
  Proof.
    intros Hn ND Hs. rewrite signed_trusted_sum.
    rewrite (sum_f_ext pw (fun j => if P j then pw j else 0) seen).
    - apply sum_f_incl; auto.
      + intro j. destruct (P j); [|lia]. unfold pw.
        destruct (Nat.lt_ge_cases j (length tvals)) as [L|G].
        * pose proof (proj1 (Forall_forall _ _) Hn (nth j tvals dv) (nth_In _ _ L)). exact H.
        * rewrite nth_overflow by exact G. cbn. lia.
      + intros j I. apply in_seq. destruct (Hs j I). lia.
    - intros j I. destruct (Hs j I) as [_ ->]. reflexivity.
  Qed.

  Lemma verify_commit_light_trusting_sound ttotal num den :
    nonneg_powers tvals -> ttotal = total_of (hash_input tvals) ->
    (num < 9223372036854775808)%N -> (den < 9223372036854775808)%N ->
    verify_commit_light_trusting verify_sig chain tvals ttotal c num den = Ok tt ->
    Z.of_N den * signed_trusted verify_sig chain c (hash_input tvals) > Z.of_N num * total_of (hash_input tvals).
  Proof.
    intros Hn Ht Hnum Hden H. unfold verify_commit_light_trusting in H.
    destruct (N.eqb_spec den 0) as [|Dz]; [discriminate|].
    rewrite (i64_small num Hnum), (i64_small den Hden) in H.
    pose proof (total_of_nonneg tvals Hn) as Tn. rewrite <- Ht in *. clear Ht.
    set (n := Z.of_N num) in *. set (d := Z.of_N den) in *.
    assert (Hn0 : 0 <= n) by (unfold n; lia). assert (Hd0 : 0 < d) by (unfold d; lia).
    destruct (safe_mul ttotal n) as [m ov] eqn:SM.
    destruct ov; [discriminate|].
    assert (Em : m = ttotal * n /\ 0 <= m <= max_int64).
    { unfold safe_mul in SM.
      destruct ((ttotal =? 0) || (n =? 0)) eqn:Z0.
      - inversion SM as [[E1]]. apply orb_true_iff in Z0 as [Z0|Z0]; apply Z.eqb_eq in Z0; rewrite Z0; unfold max_int64; lia.
      - apply orb_false_iff in Z0 as [Z1 Z2]. apply Z.eqb_neq in Z1. apply Z.eqb_neq in Z2.
        destruct (n <? 0) eqn:B0; [lia|]. destruct (ttotal <? 0) eqn:A0; [lia|].
        destruct (ttotal >? Z.quot max_int64 n) eqn:OV; [discriminate|].
        inversion SM as [[E1]].
        rewrite Z.quot_div_nonneg in OV by (unfold max_int64; lia).
        assert (ttotal * n <= max_int64).
        { pose proof (Z.mul_div_le max_int64 n ltac:(lia)). nia. }
        rewrite wrap64_small by (unfold min_int64; lia). lia. }
    destruct Em as [Em Rm]. rewrite Em in *. clear Em SM.
    assert (Q : 0 <= Z.quot (ttotal * n) d <= max_int64).
    { rewrite Z.quot_div_nonneg by lia. split; [apply Z.div_pos; lia|].
      apply Z.div_le_upper_bound; [lia|]. unfold max_int64 in *. nia. }
    rewrite wrap64_small in H by (unfold min_int64; lia).
    apply (vclt_loop_sound _ _ [] 0%nat 0 []) in H; [ | reflexivity | reflexivity | constructor | intros j [] | reflexivity ].
    destruct H as (seen' & ND & Hs & G).
    pose proof (seen_le_signed_trusted seen' Hn ND Hs) as LE.
    rewrite Z.quot_div_nonneg in G by lia.
    pose proof (Z.mul_succ_div_gt (ttotal * n) d ltac:(lia)). nia.
  Qed.
End Tallies.
