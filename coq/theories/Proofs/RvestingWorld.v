(** Proofs about the world-level model (Model/RvestingWorld.v): the rvesting BeginBlocker inside arbitrary
    histories of other modules' bank operations, parameter changes and whole blocks; InitGenesis / ExportGenesis. *)
From Teleport Require Import Base.Bytes Base.Outcome Model.Rvesting Model.RvestingCheck Model.RvestingIR Model.RvestingBank
  Model.RvestingParams Model.RvestingWorld Model.RvestingCode Proofs.Rvesting Proofs.RvestingBank Proofs.RvestingParams.
Local Open Scope Z_scope.

(** What one rvesting BeginBlocker does to the world ([expected_move] is the monitor's definition). *)
Definition w_begin_spec (p : params) (w w' : world) : Prop :=
  (forall d, get (acct (w_accts w') A_POOL) d =
             get (acct (w_accts w) A_POOL) d - expected_move p (get (acct (w_accts w) A_POOL) d) d) /\
  (forall d, get (acct (w_accts w') A_FEE) d =
             get (acct (w_accts w) A_FEE) d + expected_move p (get (acct (w_accts w) A_POOL) d) d) /\
  (forall i, i <> A_POOL -> i <> A_FEE -> acct (w_accts w') i = acct (w_accts w) i) /\
  w_sup w' = w_sup w /\ w_ps w' = w_ps w /\ w_height w' = w_height w.

Definition is_mint_burn (op : wop) : bool := match op with WMint _ _ | WBurn _ _ => true | _ => false end.

Section Std.
  Variables (pairs : list ppair) (lgs : list lguard) (cgs : list cguard) (order : list bbmod).
  Hypothesis Hp : pairs_std pairs = true.
  Hypothesis Hg : guards_std lgs cgs = true.

  Definition w_inv (w : world) : Prop := bank_ok (w_accts w) (w_sup w) /\ ps_ok pairs (w_ps w).

  Definition op_known (op : wop) : Prop :=
    match op with WParam k _ => find_pair pairs k <> None | _ => True end.

  Notation wbegin := (w_begin_block pairs).
  Notation wstep := (w_step pairs lgs cgs order).
  Notation wrun := (w_run pairs lgs cgs order).

  Lemma expected_move_nonneg p x d : params_ok p -> 0 <= x -> 0 <= expected_move p x d.
  Proof.
    intros Hpar Hx. unfold expected_move. destruct (enable p); [|lia].
    apply validate_rewards_parts in Hpar as (_ & Hfa & _). pose proof (reward_of_nonneg (rewards p) d Hfa). lia.
  Qed.

  (** ** The BeginBlocker *)
  Lemma w_begin_block_exact w p :
    w_inv w -> get_params pairs (w_ps w) = Ok p ->
    exists w', wbegin w = Ok w' /\ w_begin_spec p w w' /\ w_inv w'.
  Proof.
    intros [[Hs Hn] Hps] Hgp. destruct Hps as (p0 & Hgp0 & Hpar). rewrite Hgp in Hgp0. inversion Hgp0; subst p0. clear Hgp0.
    assert (Hpool : pool_ok (w_state w)) by (intro d; apply Hn).
    assert (Hstep : exists s', begin_block p (w_state w) = Ok s' /\
              (forall d, get (pool s') d = get (pool (w_state w)) d - expected_move p (get (pool (w_state w)) d) d) /\
              (forall d, get (fee s') d = get (fee (w_state w)) d + expected_move p (get (pool (w_state w)) d) d)).
    { unfold expected_move. destruct (enable p) eqn:He.
      - destruct (begin_block_enabled p _ He Hpar Hpool) as (s' & Hb & H1 & H2 & _). exists s'. repeat split; assumption.
      - exists (w_state w). rewrite begin_block_disabled by exact He. repeat split; intro d; lia. }
    destruct Hstep as (s' & Hb & H1 & H2). unfold w_begin_block. rewrite Hgp, Hb.
    eexists. split; [reflexivity|].
    assert (Hspec : w_begin_spec p w (with_accts w (set_acct (set_acct (w_accts w) A_POOL (pool s')) A_FEE (fee s')))).
    { unfold w_begin_spec, with_accts; cbn [w_accts w_sup w_ps w_height]. repeat split.
      - intro d. rewrite !acct_set. cbn [A_POOL A_FEE Nat.eqb]. apply H1.
      - intro d. rewrite !acct_set. cbn [A_POOL A_FEE Nat.eqb]. apply H2.
      - intros i Hi0 Hi1. rewrite !acct_set. unfold A_POOL, A_FEE in *.
        destruct i as [|[|i]]; [contradiction|contradiction|reflexivity]. }
    split; [exact Hspec|].
    destruct Hspec as (S1 & S2 & S3 & _). unfold with_accts in *; cbn [w_accts w_sup w_ps w_height] in *.
    unfold w_inv, bank_ok; cbn [w_accts w_sup w_ps w_height].
    split; [|exists p; split; assumption]. split.
    - intro d. rewrite !sumd_set, acct_set. cbn [A_POOL A_FEE Nat.eqb].
      specialize (H1 d). specialize (H2 d). cbn [w_state pool fee] in H1, H2. rewrite <- Hs. unfold A_POOL, A_FEE in *. lia.
    - intros i d. pose proof (expected_move_nonneg p (get (acct (w_accts w) A_POOL) d) d Hpar (Hn A_POOL d)) as Hm.
      destruct (Nat.eq_dec i A_POOL) as [->|H0].
      + rewrite S1. unfold expected_move in *. specialize (Hn A_POOL d). destruct (enable p); lia.
      + destruct (Nat.eq_dec i A_FEE) as [->|H1'].
        * rewrite S2. specialize (Hn A_FEE d). lia.
        * rewrite (S3 i H0 H1'). apply Hn.
  Qed.

  (** ** The distribution sweep *)
  Lemma distr_sweep_spec a s :
    bank_ok a s ->
    bank_ok (distr_sweep a) s /\
    (forall d, get (acct (distr_sweep a) A_FEE) d = 0) /\
    (forall d, get (acct (distr_sweep a) A_DISTR) d = get (acct a A_DISTR) d + get (acct a A_FEE) d) /\
    (forall i, i <> A_FEE -> i <> A_DISTR -> acct (distr_sweep a) i = acct a i).
  Proof.
    intros [Hs Hn]. unfold distr_sweep. set (l := all_balances (acct a A_FEE)).
    assert (Hv : forall d, vtotal l d = get (acct a A_FEE) d).
    { intro d. unfold l. rewrite vtotal_all_balances. specialize (Hn A_FEE d). lia. }
    assert (G : forall k d, get (acct (add_coins (sub_coins a A_FEE l) A_DISTR l) k) d =
              get (acct a k) d - (if Nat.eqb A_FEE k then vtotal l d else 0) + (if Nat.eqb A_DISTR k then vtotal l d else 0)).
    { intros k d. rewrite add_coins_get, sub_coins_get. reflexivity. }
    split; [split|split; [|split]].
    - intro d. rewrite add_coins_sum, sub_coins_sum, <- Hs. lia.
    - intros k d. rewrite G, Hv. pose proof (Hn k d). pose proof (Hn A_FEE d).
      destruct (Nat.eqb A_FEE k) eqn:E1; destruct (Nat.eqb A_DISTR k) eqn:E2; try lia.
      apply Nat.eqb_eq in E1. subst k. lia.
    - intro d. rewrite G, Hv. cbn. lia.
    - intro d. rewrite G, Hv. cbn. lia.
    - intros i H1 H2. rewrite add_coins_other, sub_coins_other by congruence. reflexivity.
  Qed.

  (** ** Every operation keeps the invariant; only mint / burn change the supply; nothing panics except a
      parameter change on an unregistered key (Subspace.Update panics: SDK behaviour, see Refuted/C20_refuted.v). *)
  Lemma w_module_bb_inv m w : w_inv w -> exists w', w_module_bb pairs m w = Ok w' /\ w_inv w' /\ w_sup w' = w_sup w /\ w_ps w' = w_ps w /\ w_height w' = w_height w.
  Proof.
    intros Hinv. destruct m; cbn [w_module_bb].
    - destruct Hinv as [Hb (p & Hgp & Hpar)].
      destruct (w_begin_block_exact w p (conj Hb (ex_intro _ p (conj Hgp Hpar))) Hgp) as (w' & Hw & (_ & _ & _ & S4 & S5 & S6) & Hi).
      exists w'. repeat split; try assumption; apply Hi.
    - destruct (1 <? w_height w); [|exists w; repeat split; apply Hinv].
      eexists; split; [reflexivity|]. destruct Hinv as [Hb Hps].
      destruct (distr_sweep_spec _ _ Hb) as (Hb' & _). unfold with_accts; cbn. repeat split; try assumption; apply Hb'.
  Qed.

  Lemma w_bbs_inv ms : forall w, w_inv w ->
    exists w', w_bbs pairs ms w = Ok w' /\ w_inv w' /\ w_sup w' = w_sup w /\ w_ps w' = w_ps w /\ w_height w' = w_height w.
  Proof.
    induction ms as [|m ms IH]; intros w Hinv; cbn [w_bbs]; [exists w; repeat split; try reflexivity; apply Hinv|].
    destruct (w_module_bb_inv m w Hinv) as (w1 & -> & Hi1 & S1 & P1 & E1).
    destruct (IH w1 Hi1) as (w2 & -> & Hi2 & S2 & P2 & E2). exists w2. repeat split; try congruence; apply Hi2.
  Qed.

  Lemma w_step_inv op w :
    w_inv w -> op_known op ->
    exists w', wstep op w = Ok w' /\ w_inv w' /\ (is_mint_burn op = false -> w_sup w' = w_sup w).
  Proof.
    intros Hinv Hk. destruct op as [| |k v|i j l|i l|i l]; cbn [w_step is_mint_burn].
    - destruct (w_module_bb_inv BBRvesting w Hinv) as (w' & Hw & Hi & S & _). exists w'. cbn in Hw. auto.
    - unfold w_block.
      assert (Hinv' : w_inv {| w_accts := w_accts w; w_sup := w_sup w; w_ps := w_ps w; w_height := w_height w + 1 |}) by exact Hinv.
      destruct (w_bbs_inv order _ Hinv') as (w' & Hw & Hi & S & _). exists w'. cbn in S. auto.
    - destruct Hinv as [Hb Hps]. pose proof (subspace_update_ok pairs lgs cgs Hp Hg (w_ps w) k v Hps) as H.
      destruct (subspace_update pairs lgs cgs (w_ps w) k v) as [[s'|]| |].
      + eexists; split; [reflexivity|]. split; [split; [exact Hb|exact H]|reflexivity].
      + exists w. split; [reflexivity|]. split; [split; assumption|reflexivity].
      + contradiction.
      + cbn in Hk. contradiction.
    - destruct (bank_send (w_accts w) i j l) as [a'| |] eqn:E.
      + eexists; split; [reflexivity|]. destruct Hinv as [Hb Hps]. split; [split; [exact (bank_send_ok _ _ _ _ _ _ Hb E)|exact Hps]|reflexivity].
      + exists w; auto.
      + exists w; auto.
    - destruct (bank_mint (w_accts w) (w_sup w) i l) as [[a' s']| |] eqn:E.
      + eexists; split; [reflexivity|]. destruct Hinv as [Hb Hps]. destruct (bank_mint_ok _ _ _ _ _ _ Hb E) as [Hb' _].
        split; [split; assumption|discriminate].
      + exists w; split; [reflexivity|]; split; [assumption|discriminate].
      + exists w; split; [reflexivity|]; split; [assumption|discriminate].
    - destruct (bank_burn (w_accts w) (w_sup w) i l) as [[a' s']| |] eqn:E.
      + eexists; split; [reflexivity|]. destruct Hinv as [Hb Hps]. destruct (bank_burn_ok _ _ _ _ _ _ Hb E) as [Hb' _].
        split; [split; assumption|discriminate].
      + exists w; split; [reflexivity|]; split; [assumption|discriminate].
      + exists w; split; [reflexivity|]; split; [assumption|discriminate].
  Qed.

  (** Mint and burn by other modules change the supply by exactly the coins (or not at all when rejected). *)
  Lemma w_step_mint_burn op w w' :
    w_inv w -> wstep op w = Ok w' ->
    match op with
    | WMint _ l => w' = w \/ forall d, get (w_sup w') d = get (w_sup w) d + vtotal l d
    | WBurn _ l => w' = w \/ forall d, get (w_sup w') d = get (w_sup w) d - vtotal l d
    | _ => True
    end.
  Proof.
    intros [Hb _]. destruct op; cbn [w_step]; try exact (fun _ => I).
    - destruct (bank_mint (w_accts w) (w_sup w) i l) as [[a' s']| |] eqn:E; intro H; inversion H; subst; auto.
      right. cbn. apply (bank_mint_ok _ _ _ _ _ _ Hb E).
    - destruct (bank_burn (w_accts w) (w_sup w) i l) as [[a' s']| |] eqn:E; intro H; inversion H; subst; auto.
      right. cbn. apply (bank_burn_ok _ _ _ _ _ _ Hb E).
  Qed.

  (** ** Histories *)
  Lemma w_run_inv ops : forall w,
    w_inv w -> Forall op_known ops ->
    exists w', wrun ops w = Ok w' /\ w_inv w' /\ (forallb (fun op => negb (is_mint_burn op)) ops = true -> w_sup w' = w_sup w).
  Proof.
    induction ops as [|op ops IH]; intros w Hinv Hk; cbn [w_run forallb].
    - exists w. auto.
    - inversion Hk as [|? ? Hk1 Hk2]; subst.
      destruct (w_step_inv op w Hinv Hk1) as (w1 & -> & Hi1 & S1).
      destruct (IH w1 Hi1 Hk2) as (w2 & -> & Hi2 & S2). exists w2. split; [reflexivity|]. split; [exact Hi2|].
      intro H. apply andb_true_iff in H as [H1 H2]. apply negb_true_iff in H1. rewrite (S2 H2). apply S1; exact H1.
  Qed.

  (** After ANY history of registered parameter changes, other modules' sends / mints / burns, whole blocks and
      BeginBlockers, the next rvesting BeginBlocker returns and is exact for the parameters in force. *)
  Lemma w_run_begin_exact ops w w1 p :
    w_inv w -> Forall op_known ops -> wrun ops w = Ok w1 -> get_params pairs (w_ps w1) = Ok p ->
    exists w2, wstep WBegin w1 = Ok w2 /\ w_begin_spec p w1 w2 /\ w_inv w2.
  Proof.
    intros Hinv Hk Hrun Hgp. destruct (w_run_inv ops w Hinv Hk) as (w1' & Hrun' & Hi1 & _).
    rewrite Hrun in Hrun'. inversion Hrun'; subst w1'. exact (w_begin_block_exact w1 p Hi1 Hgp).
  Qed.

  (** ** A whole BeginBlock with rvesting before distribution (app.go's order): the vested coins of the block
      end up, together with whatever the fee collector held, in the distribution module account. *)
  Lemma w_block_exact w p :
    order = [BBRvesting; BBDistr] -> w_inv w -> get_params pairs (w_ps w) = Ok p -> 0 <= w_height w ->
    exists w', wstep WBlock w = Ok w' /\ w_inv w' /\
      (forall d, get (acct (w_accts w') A_POOL) d =
                 get (acct (w_accts w) A_POOL) d - expected_move p (get (acct (w_accts w) A_POOL) d) d) /\
      (w_height w = 0 ->
         (forall d, get (acct (w_accts w') A_FEE) d =
                    get (acct (w_accts w) A_FEE) d + expected_move p (get (acct (w_accts w) A_POOL) d) d) /\
         acct (w_accts w') A_DISTR = acct (w_accts w) A_DISTR) /\
      (0 < w_height w ->
         (forall d, get (acct (w_accts w') A_FEE) d = 0) /\
         (forall d, get (acct (w_accts w') A_DISTR) d =
                    get (acct (w_accts w) A_DISTR) d + get (acct (w_accts w) A_FEE) d
                    + expected_move p (get (acct (w_accts w) A_POOL) d) d)) /\
      (forall i, i <> A_POOL -> i <> A_FEE -> i <> A_DISTR -> acct (w_accts w') i = acct (w_accts w) i) /\
      w_sup w' = w_sup w /\ w_ps w' = w_ps w /\ w_height w' = w_height w + 1.
  Proof.
    intros Ho Hinv Hgp Hh. cbn [w_step]. unfold w_block. rewrite Ho. cbn [w_bbs w_module_bb].
    set (w0 := {| w_accts := w_accts w; w_sup := w_sup w; w_ps := w_ps w; w_height := w_height w + 1 |}).
    assert (Hinv0 : w_inv w0) by exact Hinv.
    destruct (w_begin_block_exact w0 p Hinv0 Hgp) as (w1 & -> & (S1 & S2 & S3 & S4 & S5 & S6) & Hi1).
    cbn [w0 w_accts w_sup w_ps w_height] in S1, S2, S3, S4, S5, S6. rewrite S6.
    destruct (1 <? w_height w + 1) eqn:Eh.
    - apply Z.ltb_lt in Eh. eexists. split; [reflexivity|].
      destruct Hi1 as [Hb1 Hps1]. destruct (distr_sweep_spec _ _ Hb1) as (Hb2 & F & D & O).
      unfold with_accts; cbn [w_accts w_sup w_ps w_height].
      split; [split; [exact Hb2|exact Hps1]|].
      split; [intro d; rewrite O by (unfold A_POOL, A_FEE, A_DISTR; lia); apply S1|].
      split; [intro; lia|].
      split; [intros _; split; [exact F|intro d; rewrite D, S2, (S3 A_DISTR) by (unfold A_POOL, A_FEE, A_DISTR; lia); lia]|].
      split; [intros i H0 H1 H2; rewrite O by assumption; apply S3; assumption|].
      repeat split; assumption.
    - apply Z.ltb_ge in Eh. exists w1. split; [reflexivity|]. split; [exact Hi1|].
      split; [exact S1|]. split; [intros _; split; [exact S2|apply S3; unfold A_POOL, A_FEE, A_DISTR; lia]|]. split; [intro; lia|].
      split; [intros i H0 H1 _; apply S3; assumption|]. repeat split; assumption.
  Qed.

  (** ** Genesis *)
  Variable module : bytes.

  Fixpoint nsend (steps : list (bool * istep)) : nat :=
    match steps with
    | [] => O
    | (_, ISendToModule _) :: t => S (nsend t)
    | _ :: t => nsend t
    end.

  (** InitGenesis keeps the bank invariant and the supply whatever its statements are. *)
  Lemma init_steps_inv steps g : forall fa w w',
    bank_ok (w_accts w) (w_sup w) -> init_steps pairs lgs cgs module steps g fa w = Ok w' ->
    bank_ok (w_accts w') (w_sup w') /\ w_sup w' = w_sup w /\ w_height w' = w_height w.
  Proof.
    induction steps as [|[t st] steps IH]; intros fa w w' Hb; cbn [init_steps]; intro H.
    - inversion H; subst. auto.
    - destruct (t && from_empty g); [apply IH in H; auto|]. destruct st.
      + destruct (set_param_set pairs lgs cgs (g_enable g) (g_rewards g) (w_ps w)) as [s'| |]; try discriminate.
        apply IH in H; [|exact Hb]. exact H.
      + destruct (g_from g); try discriminate. apply IH in H; auto.
      + destruct (negb (bytes_eqb module0 module)); [discriminate|]. destruct fa as [i|]; [|discriminate].
        destruct (bank_send (w_accts w) i A_POOL (g_init g)) as [a| |] eqn:E; try discriminate.
        apply IH in H; [exact H|]. cbn. exact (bank_send_ok _ _ _ _ _ _ Hb E).
      + discriminate.
  Qed.

  (** What it stores are the validated parameters of the genesis state. *)
  Lemma init_steps_params steps g : forall fa w w',
    init_steps pairs lgs cgs module steps g fa w = Ok w' ->
    (sets_params_always steps = true \/
     exists r, g_rewards g = lift_coins r /\ validate_rewards r = true /\
               get_params pairs (w_ps w) = Ok {| enable := g_enable g; rewards := r |}) ->
    exists r, g_rewards g = lift_coins r /\ validate_rewards r = true /\
              get_params pairs (w_ps w') = Ok {| enable := g_enable g; rewards := r |}.
  Proof.
    unfold sets_params_always.
    induction steps as [|[t st] steps IH]; intros fa w w'; cbn [init_steps existsb fst snd]; intros H Hpre.
    - inversion H; subst. destruct Hpre as [Hpre|Hpre]; [discriminate|exact Hpre].
    - destruct (t && from_empty g) eqn:Et.
      + apply (IH _ _ _ H). destruct Hpre as [Hpre|Hpre]; [left|right; exact Hpre].
        apply andb_true_iff in Et as [-> _]. cbn in Hpre. exact Hpre.
      + destruct st.
        * destruct (set_param_set pairs lgs cgs (g_enable g) (g_rewards g) (w_ps w)) as [s'| |] eqn:E; try discriminate.
          apply (IH _ _ _ H). right. cbn. exact (set_param_set_ok pairs lgs cgs Hp Hg _ _ _ _ E).
        * destruct (g_from g); try discriminate. apply (IH _ _ _ H).
          destruct Hpre as [Hpre|Hpre]; [left|right; exact Hpre]. cbn [is_set_params] in Hpre. rewrite andb_false_r in Hpre. exact Hpre.
        * destruct (negb (bytes_eqb module0 module)); [discriminate|]. destruct fa as [i|]; [|discriminate].
          destruct (bank_send (w_accts w) i A_POOL (g_init g)) as [a| |]; try discriminate.
          apply (IH _ _ _ H). destruct Hpre as [Hpre|Hpre]; [left|right; exact Hpre].
          cbn [is_set_params] in Hpre. rewrite andb_false_r in Hpre. exact Hpre.
        * discriminate.
  Qed.

  (** With a funding account other than the pool, a returning InitGenesis moved exactly
      [nsend steps] x InitReward from it to the pool and touched nothing else. *)
  Lemma init_steps_moves steps g i : forall fa w w',
    g_from g = FromAcct i -> i <> A_POOL -> (fa = None \/ fa = Some i) ->
    init_steps pairs lgs cgs module steps g fa w = Ok w' ->
    (forall d, get (acct (w_accts w') A_POOL) d = get (acct (w_accts w) A_POOL) d + Z.of_nat (nsend steps) * vtotal (g_init g) d) /\
    (forall d, get (acct (w_accts w') i) d = get (acct (w_accts w) i) d - Z.of_nat (nsend steps) * vtotal (g_init g) d) /\
    (forall k, k <> A_POOL -> k <> i -> acct (w_accts w') k = acct (w_accts w) k).
  Proof.
    intros fa w w' Hfrom Hi. revert fa w w'.
    assert (Hne : from_empty g = false) by (unfold from_empty; rewrite Hfrom; reflexivity).
    induction steps as [|[t st] steps IH]; intros fa w w' Hfa; cbn [init_steps nsend]; intro H.
    - inversion H; subst. repeat split; intros; cbn; try lia; reflexivity.
    - rewrite Hne, andb_false_r in H. destruct st.
      + destruct (set_param_set pairs lgs cgs (g_enable g) (g_rewards g) (w_ps w)) as [s'| |]; try discriminate.
        apply (IH _ _ _ Hfa) in H. exact H.
      + rewrite Hfrom in H. apply (IH (Some i)) in H; [exact H|right; reflexivity].
      + destruct (negb (bytes_eqb module0 module)); [discriminate|]. destruct Hfa as [->| ->]; [discriminate|].
        destruct (bank_send (w_accts w) i A_POOL (g_init g)) as [a| |] eqn:E; try discriminate.
        apply (IH (Some i)) in H; [|right; reflexivity]. destruct H as (H1 & H2 & H3). cbn [with_accts w_accts] in *.
        assert (Ei : Nat.eqb i A_POOL = false) by (apply Nat.eqb_neq; exact Hi).
        assert (Ei' : Nat.eqb A_POOL i = false) by (apply Nat.eqb_neq; congruence).
        repeat split.
        * intro d. rewrite H1, (bank_send_get _ _ _ _ _ A_POOL d E), Ei, Nat.eqb_refl. lia.
        * intro d. rewrite H2, (bank_send_get _ _ _ _ _ i d E), Ei', Nat.eqb_refl. lia.
        * intros k K1 K2. rewrite H3 by assumption. apply (bank_send_other _ _ _ _ _ _ E); congruence.
      + discriminate.
  Qed.

  (** Importing a state without From (every export) executes nothing but the storing of the parameters. *)
  Lemma init_steps_no_from steps g : forall fa w w',
    g_from g = FromEmpty -> only_params_without_from steps = true ->
    init_steps pairs lgs cgs module steps g fa w = Ok w' ->
    w_accts w' = w_accts w /\ w_sup w' = w_sup w /\ w_height w' = w_height w.
  Proof.
    intros fa w w' Hfrom. revert fa w w'.
    assert (He : from_empty g = true) by (unfold from_empty; rewrite Hfrom; reflexivity).
    unfold only_params_without_from.
    induction steps as [|[t st] steps IH]; intros fa w w'; cbn [init_steps forallb fst snd]; intros Hs H.
    - inversion H; subst; auto.
    - apply andb_true_iff in Hs as [Hh Hs]. rewrite He, andb_true_r in H. destruct t.
      + apply (IH _ _ _ Hs) in H. exact H.
      + cbn [orb] in Hh. destruct st; try discriminate.
        destruct (set_param_set pairs lgs cgs (g_enable g) (g_rewards g) (w_ps w)) as [s'| |]; try discriminate.
        apply (IH _ _ _ Hs) in H. exact H.
  Qed.

  Lemma init_steps_no_from_total steps g r : forall w,
    g_from g = FromEmpty -> only_params_without_from steps = true ->
    g_rewards g = lift_coins r -> validate_rewards r = true ->
    exists w', init_steps pairs lgs cgs module steps g None w = Ok w'.
  Proof.
    intros w Hfrom. revert w.
    assert (He : from_empty g = true) by (unfold from_empty; rewrite Hfrom; reflexivity).
    unfold only_params_without_from.
    induction steps as [|[t st] steps IH]; intros w; cbn [init_steps forallb fst snd]; intros Hs Hr Hv; [eexists; reflexivity|].
    apply andb_true_iff in Hs as [Hh Hs]. rewrite He, andb_true_r. destruct t.
    - apply IH; assumption.
    - cbn [orb] in Hh. destruct st; try discriminate.
      rewrite Hr. destruct (set_param_set_total pairs lgs cgs Hp Hg (g_enable g) r (w_ps w) Hv) as (s' & ->).
      apply IH; assumption.
  Qed.
End Std.
