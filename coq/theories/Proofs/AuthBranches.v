(** C06 — the acknowledgement-writing branches of msg_server.RecvPacket, one by one, and what
    follows for every acknowledgement written during an arbitrary history. *)
From Teleport Require Import Base.Bytes Base.Outcome Model.Auth Proofs.Auth.

Section Branches.
  Variables (D HD PK AK : Type).
  Variable canon : bytes -> bytes.
  Variable fold_eq : bytes -> bytes -> bool.
  Variable bech32_ok : bytes -> bool.
  Variable L : lower D HD PK AK.

  Notation state := (state D).
  Notation handle_recv := (handle_recv D HD PK AK L).
  Notation step := (step D HD PK AK canon fold_eq bech32_ok L).
  Notation run := (run D HD PK AK canon fold_eq bech32_ok L).
  Notation op := (op D HD PK AK).
  Notation wack_of := (wack_of PK).

  (** The state after an acknowledgement [a] for the packet of [m] was written on lower state [d3]. *)
  Definition acked (s : state) (d3 : D) (m : recv_msg PK) (a : ack) : state :=
    {| reg := reg D s; low := d3; wlog := wlog D s ++ [wack_of m a] |}.

  (** Which way an accepted RecvPacket went, with everything it did.  [relayer] is the address
      looked up for (packet source, msg.Signer). *)
  Definition recv_outcome (s : state) (m : recv_msg PK) (d1 : D) (relayer : bytes) (s' : state) : Prop :=
    (* 1. addressed to this chain, CallPacket(onRecvPacket) returned an ERROR: error acknowledgement, code 1 *)
    (rm_dst PK m = self_chain L d1 /\
     exists d2 d3, lo_callback D HD PK AK L d1 m = CbFailed D d2 /\
       let a := mk_ack 1 [] (B "receive packet callback failed") relayer (rm_fee PK m) in
       lo_write_ack D HD PK AK L d2 m a = Ok d3 /\ s' = acked s d3 m a)
    \/
    (* 2. addressed to this chain, the callback returned (code, result, message) *)
    (rm_dst PK m = self_chain L d1 /\
     exists d2 code res msg d3, lo_callback D HD PK AK L d1 m = CbReturned D d2 (Some (code, res, msg)) /\
       let a := mk_ack code res msg relayer (rm_fee PK m) in
       lo_write_ack D HD PK AK L d2 m a = Ok d3 /\ s' = acked s d3 m a)
    \/
    (* 3. addressed to a chain this chain has no client for: error acknowledgement, code 1 *)
    (rm_dst PK m <> self_chain L d1 /\ client_of L d1 (rm_dst PK m) = None /\
     exists d3,
       let a := mk_ack 1 [] (B "dstChain not found") relayer (rm_fee PK m) in
       lo_write_ack D HD PK AK L d1 m a = Ok d3 /\ s' = acked s d3 m a)
    \/
    (* 4. relayed onwards to a known chain: no acknowledgement is written here *)
    (rm_dst PK m <> self_chain L d1 /\ client_of L d1 (rm_dst PK m) <> None /\ s' = set_low D s d1).

  Lemma write_ack_acked s d m a s' :
    write_ack D HD PK AK L s d m a = Ok s' -> exists d3, lo_write_ack D HD PK AK L d m a = Ok d3 /\ s' = acked s d3 m a.
  Proof.
    unfold write_ack. destruct (lo_write_ack D HD PK AK L d m a) as [d3| |]; cbn; try discriminate.
    intro H; inversion H; subst. exists d3. split; reflexivity.
  Qed.

  (** EXACT characterisation of an accepted RecvPacket: both directions. *)
  Lemma handle_recv_exact s m s' :
    handle_recv s m = Ok s' <->
    exists d1 relayer,
      tss_signer_ok D HD PK AK L (low D s) (rm_src PK m) (rm_signer PK m) = true /\
      lo_recv D HD PK AK L (low D s) m = Ok d1 /\
      other_chain_addr (reg D s) (rm_src PK m) (rm_signer PK m) = Ok (Some relayer) /\
      recv_outcome s m d1 relayer s'.
  Proof.
    unfold Auth.handle_recv, packet_recv, recv_outcome. split.
    - destruct (tss_signer_ok D HD PK AK L (low D s) (rm_src PK m) (rm_signer PK m)); [|discriminate].
      destruct (lo_recv D HD PK AK L (low D s) m) as [d1| |]; cbn; try discriminate.
      destruct (other_chain_addr (reg D s) (rm_src PK m) (rm_signer PK m)) as [[relayer|]| |]; cbn; try discriminate.
      intro H. exists d1, relayer. repeat (split; [reflexivity|]).
      destruct (bytes_eqb_spec (rm_dst PK m) (self_chain L d1)) as [Es|Ns].
      + destruct (lo_callback D HD PK AK L d1 m) as [d2|d2 r|] eqn:Ec; [| destruct r as [[[code res] msg]|] |]; try discriminate.
        * apply write_ack_acked in H as [d3 [H1 H2]]. left. split; [exact Es|]. exists d2, d3. auto.
        * apply write_ack_acked in H as [d3 [H1 H2]]. right; left. split; [exact Es|]. exists d2, code, res, msg, d3. auto.
      + destruct (client_of L d1 (rm_dst PK m)) as [c|] eqn:Ecl.
        * inversion H; subst. right; right; right. split; [exact Ns|]. split; [congruence | reflexivity].
        * apply write_ack_acked in H as [d3 [H1 H2]]. right; right; left. split; [exact Ns|]. split; [reflexivity|].
          exists d3. auto.
    - intros [d1 [relayer [Ht [El [Ho Hb]]]]]. rewrite Ht, El. cbn. rewrite Ho. cbn.
      destruct Hb as [[Es [d2 [d3 [Ec [Hw ->]]]]] | [[Es [d2 [code [res [msg [d3 [Ec [Hw ->]]]]]]]] |
                      [[Ns [Ecl [d3 [Hw ->]]]] | [Ns [Ecl ->]]]]].
      + rewrite Es, bytes_eqb_refl, Ec. unfold write_ack. cbn in Hw. rewrite Hw. reflexivity.
      + rewrite Es, bytes_eqb_refl, Ec. unfold write_ack. cbn in Hw. rewrite Hw. reflexivity.
      + apply bytes_eqb_neq in Ns. rewrite Ns, Ecl. unfold write_ack. cbn in Hw. rewrite Hw. reflexivity.
      + apply bytes_eqb_neq in Ns. rewrite Ns. destruct (client_of L d1 (rm_dst PK m)); [reflexivity | contradiction].
  Qed.

  (** In EACH of the three acknowledgement-writing branches the Relayer of the acknowledgement is the
      address looked up for (source chain, signer) — never msg.Signer, never another chain's address —
      and the fee option is the packet's; the error acknowledgements have code 1. *)
  Lemma recv_outcome_ack s m d1 relayer s' :
    recv_outcome s m d1 relayer s' ->
    (wlog D s' = wlog D s /\ reg D s' = reg D s) \/
    exists a, wlog D s' = wlog D s ++ [wack_of m a] /\ reg D s' = reg D s /\
              ack_relayer a = relayer /\ ack_fee a = rm_fee PK m.
  Proof.
    intros [[_ [d2 [d3 [_ [_ ->]]]]] | [[_ [d2 [code [res [msg [d3 [_ [_ ->]]]]]]]] | [[_ [_ [d3 [_ ->]]]] | [_ [_ ->]]]]]; cbn.
    - right. eexists. repeat split; reflexivity.
    - right. eexists. repeat split; reflexivity.
    - right. eexists. repeat split; reflexivity.
    - left. split; reflexivity.
  Qed.

  (** EXACT characterisation of an accepted UpdateClient. *)
  Lemma handle_update_exact s m s' :
    handle_update D HD PK AK canon L s m = Ok s' <->
    auth_relayer (reg D s) (um_chain HD m) (um_signer HD m) = true /\
    exists c d', client_of L (low D s) (um_chain HD m) = Some c /\ check_msg canon c (um_signer HD m) = true /\
      lo_update D HD PK AK L (low D s) (um_chain HD m) (um_header HD m) = Ok d' /\ s' = set_low D s d'.
  Proof.
    split; [apply handle_update_ok|].
    intros [Ha [c [d' [Ec [Ck [Eu ->]]]]]]. unfold handle_update. rewrite Ha, Ec, Ck. cbn. rewrite Eu. reflexivity.
  Qed.

  (** * Histories: every acknowledgement in the log was written by an accepted RecvPacket of the
      history, for that packet, with the address registered AT THAT MOMENT for (its source chain,
      the submitting signer). *)
  Definition justified (s : state) (m : recv_msg PK) (w : wack) : Prop :=
    w_src w = rm_src PK m /\ w_dst w = rm_dst PK m /\ w_seq w = rm_seq PK m /\
    ack_fee (w_ack w) = rm_fee PK m /\
    exists x i, reg_get (reg D s) (rm_signer PK m) = Some x /\
                first_index (r_chains x) (rm_src PK m) = Some i /\
                nth_error (r_addrs x) i = Some (ack_relayer (w_ack w)).

  Lemma step_wlog s o :
    wlog D (fst (step s o)) = wlog D s \/
    exists m w, o = ORecv D HD PK AK m /\ snd (step s o) = true /\
                wlog D (fst (step s o)) = wlog D s ++ [w] /\ justified s m w.
  Proof.
    destruct o as [a cs ads|a cs ads|m|m|m|f]; cbn.
    - left. destruct (validate_basic bech32_ok a cs ads); [|reflexivity].
      unfold do_register. destruct (register_relayers (reg D s) a cs ads); reflexivity.
    - left. unfold do_register. destruct (register_relayers (reg D s) a cs ads); reflexivity.
    - left. destruct (handle_update D HD PK AK canon L s m) as [s'| |] eqn:E; cbn; try reflexivity.
      apply handle_update_ok in E as [_ [c [d' [_ [_ [_ ->]]]]]]. reflexivity.
    - destruct (handle_recv s m) as [s'| |] eqn:E; cbn; [|left; reflexivity|left; reflexivity].
      apply handle_recv_ok in E as [_ [d1 [rel [_ [Ho [_ [[Hw _]|[a [Hw [Hr Hf]]]]]]]]]]; [left; exact Hw|].
      right. exists m, (wack_of m a). split; [reflexivity|]. split; [reflexivity|]. split; [exact Hw|].
      apply other_chain_addr_some in Ho as [x [i [E1 [E2 E3]]]].
      unfold justified; cbn. repeat split; try exact Hf. exists x, i. rewrite Hr. auto.
    - left. destruct (handle_ack D HD PK AK fold_eq bech32_ok L s m) as [s'| |] eqn:E; cbn; try reflexivity.
      apply handle_ack_ok in E as [_ [_ [H _]]]. exact H.
    - left. reflexivity.
  Qed.

  (** the log only grows *)
  Lemma run_wlog_prefix ops s : exists l, wlog D (run ops s) = wlog D s ++ l.
  Proof.
    revert s; induction ops as [|o ops IH]; intro s; cbn.
    - exists []. rewrite app_nil_r; reflexivity.
    - destruct (IH (fst (step s o))) as [l Hl]. rewrite Hl.
      destruct (step_wlog s o) as [E|[m [w [_ [_ [E _]]]]]]; rewrite E.
      + exists l; reflexivity.
      + exists (w :: l). rewrite <- app_assoc. reflexivity.
  Qed.

  Theorem run_wlog_justified ops s0 w :
    In w (wlog D (run ops s0)) ->
    In w (wlog D s0) \/
    exists pre m post, ops = pre ++ ORecv D HD PK AK m :: post /\
      snd (step (run pre s0) (ORecv D HD PK AK m)) = true /\ justified (run pre s0) m w.
  Proof.
    revert s0; induction ops as [|o ops IH]; intros s0 Hin; cbn in Hin; [left; exact Hin|].
    destruct (IH _ Hin) as [H0|[pre [m [post [-> [Ha Hj]]]]]].
    - destruct (step_wlog s0 o) as [E|[m [w' [-> [Ha [E Hj]]]]]].
      + left. rewrite <- E. exact H0.
      + rewrite E in H0. apply in_app_or in H0 as [H0|[<-|[]]]; [left; exact H0|].
        right. exists [], m, ops. split; [reflexivity|]. split; [exact Ha | exact Hj].
    - right. exists (o :: pre), m, post. split; [reflexivity|]. cbn. split; [exact Ha | exact Hj].
  Qed.
End Branches.
