(** Concrete module state used by the non-vacuity examples and the refutation witnesses of C13:
    a Tendermint client "abc" with consensus states at heights 0-47, 0-303 and 47-9 (their 16 key
    bytes contain 0x2F) with processed times and iteration keys, an ETH client "abc-1" anchored at
    block 0, a TSS client "abc+" (the three names are prefixes of one another: the store order of
    their keys differs from the order of the names), a relayer, packet traffic with sequences 47
    and 303, a disabled two-denomination token pair, reward parameters.  The oracles are the table
    look-ups of Model/GenesisCheck.v. *)
From Teleport Require Import Base.Bytes Base.Outcome Base.AList Base.Fmt Gen.KeysGen Model.Keys Model.Genesis Model.GenesisCheck.
From Teleport Require Model.Rvesting.
Local Open Scope N_scope.

Definition hh (r h : N) : height := {| rev_number := r; rev_height := h |}.
Definition csT := B "tm-client-state".
Definition consT (n : N) := B "tm-cons-" ++ dec n.
Definition T0 : tables :=
  {| t_cs := [(csT, (TM, (TM, true))); (B "eth-client-state", (ETH, (ETH, true))); (B "tss-client-state", (TSS, (TSS, true))); (B "bsc-client-state", (BSC, (BSC, true)))];
     t_cons := [(consT 1, (TM, (TM, true))); (consT 2, (TM, (TM, true))); (consT 3, (TM, (TM, true))); (B "eth-cons", (ETH, (ETH, true))); (B "bsc-cons", (BSC, (BSC, true)))];
     t_rel := [(B "rel-1", {| r_address := B "cosmos1abc"; r_chains := [B "abc"]; r_addresses := [B "0x01"] |})];
     t_tp := [(B "pair-1", {| tp_erc20 := B "0x00000000000000000000000000000000000000a2"; tp_denoms := [B "coin"; B "ibc/XYZ"]; tp_enabled := false; tp_owner := 1 |})];
     t_sha := [(B "0x00000000000000000000000000000000000000a2|coin", B "id-of-pair-1")];
     t_addr := [(B "0x00000000000000000000000000000000000000a2", B "addr-a2")] |}.
Definition tmkeys (name : bytes) (h : height) (c : bytes) : store :=
  [(full_consensus_state_key name h, c);
   (client_store_prefix name ++ tm_processed_time_key h, be_bytes 8 1000);
   (client_store_prefix name ++ tm_iteration_key h, consensus_state_key h)].
Definition raw : store :=
  [(chain_name_key, B "teleport"); (full_client_state_key (B "abc"), csT)]
  ++ tmkeys (B "abc") (hh 0 47) (consT 1) ++ tmkeys (B "abc") (hh 0 303) (consT 2) ++ tmkeys (B "abc") (hh 47 9) (consT 3)
  ++ [(full_client_state_key (B "abc-1"), B "eth-client-state"); (full_consensus_state_key (B "abc-1") (hh 0 0), B "eth-cons");
      (client_store_prefix (B "abc-1") ++ eth_KeyIndexEthHeaderPrefix ++ B "/0xabc47", B "header");
      (full_client_state_key (B "abc+"), B "tss-client-state");
      (relayer_key (B "cosmos1abc"), B "rel-1");
      (packet_ack_key {| t_src := B "abc"; t_dst := B "teleport"; t_seq := 47 |}, B "ackhash");
      (packet_commitment_key {| t_src := B "teleport"; t_dst := B "abc"; t_seq := 303 |}, B "commitment");
      (packet_receipt_key {| t_src := B "abc"; t_dst := B "teleport"; t_seq := 47 |}, [x01]);
      (next_seq_send_key (B "teleport") (B "abc"), be_bytes 8 304)].
Definition s0 : store := Eval vm_compute in apply_writes raw [].
Definition a0 : store := Eval vm_compute in apply_writes
  [(x01 :: B "id-of-pair-1", B "pair-1"); (x02 :: B "addr-a2", B "id-of-pair-1"); (x03 :: B "coin", B "id-of-pair-1"); (x03 :: B "ibc/XYZ", B "id-of-pair-1")] [].
Definition st0 : mstate := {| st_xibc := s0; st_agg := a0; st_agg_params := (true, false);
  st_rv_params := {| Rvesting.enable := true; Rvesting.rewards := [(B "atele", 5%Z)] |} |}.

(** the same state with one more entry under the client "abc-1" (ETH): a Tendermint processed-time key, as left
    behind by the pre-repair ToggleClient *)
Definition s_foreign : store :=
  Eval vm_compute in apply_writes [(client_store_prefix (B "abc-1") ++ tm_processed_time_key (hh 1 5), be_bytes 8 7)] s0.
(** ... a Tendermint consensus state under the ETH client *)
Definition s_mixed : store := Eval vm_compute in apply_writes [(full_consensus_state_key (B "abc-1") (hh 1 5), consT 1)] s0.
(** ... a zero-height consensus state under the Tendermint client *)
Definition s_zero : store := Eval vm_compute in apply_writes [(full_consensus_state_key (B "abc") (hh 0 0), consT 1)] s0.
(** ... a BSC client whose pending-validators entry is empty *)
Definition s_empty_md : store :=
  Eval vm_compute in apply_writes [(full_client_state_key (B "bsc"), B "bsc-client-state");
                                   (client_store_prefix (B "bsc") ++ bsc_PrefixPendingValidators, [])] s0.
