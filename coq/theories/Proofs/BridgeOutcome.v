(** C03 — "delivered or refunded, never both": per-packet outcome automaton, ghost accounting, and what an
    error / success acknowledgement does to the real ledgers. *)
From Coq Require Import List Arith PeanoNat NArith Bool Lia.
From Teleport Require Import Base.Outcome Model.Bridge Model.BridgeCheck Proofs.Bridge.
Import ListNotations.
Local Open Scope N_scope.

(** * The outcome automaton *)
Inductive legal : status -> status -> Prop :=
| legal_refl a : legal a a
| legal_recv_ok : legal Sent RecvOk
| legal_recv_err : legal Sent RecvErr
| legal_ack_ok : legal RecvOk AckOk
| legal_refund : legal RecvErr Refunded.

Inductive legal_star : status -> status -> Prop :=
| ls_refl a : legal_star a a
| ls_step a b c : legal a b -> legal_star b c -> legal_star a c.

Lemma legal_star_trans a b c : legal_star a b -> legal_star b c -> legal_star a c.
Proof. induction 1; intro H2; [exact H2|]. econstructor; eauto. Qed.

(** delivered is final: once [AckOk], always [AckOk] (never refunded); once [Refunded], always [Refunded] *)
Lemma legal_star_ackok b : legal_star AckOk b -> b = AckOk.
Proof.
  intro H. remember AckOk as a eqn:E. induction H as [|a b c H1 H2 IH]; [reflexivity|].
  subst a. inversion H1; subst; apply IH; reflexivity.
Qed.

Lemma legal_star_refunded b : legal_star Refunded b -> b = Refunded.
Proof.
  intro H. remember Refunded as a eqn:E. induction H as [|a b c H1 H2 IH]; [reflexivity|].
  subst a. inversion H1; subst; apply IH; reflexivity.
Qed.

Lemma legal_star_recvok b : legal_star RecvOk b -> b = RecvOk \/ b = AckOk.
Proof.
  intro H. remember RecvOk as a eqn:E. induction H as [|a b c H1 H2 IH]; [left; reflexivity|].
  subst a. inversion H1; subst; [apply IH; reflexivity|]. right. apply legal_star_ackok. exact H2.
Qed.

Lemma legal_star_recverr b : legal_star RecvErr b -> b = RecvErr \/ b = Refunded.
Proof.
  intro H. remember RecvErr as a eqn:E. induction H as [|a b c H1 H2 IH]; [left; reflexivity|].
  subst a. inversion H1; subst; [apply IH; reflexivity|]. right. apply legal_star_refunded. exact H2.
Qed.

Section WithCfg.
Variable cfg : config.

(** ** Ghost accounting of one packet: what was delivered, refunded and paid to the relayer in each status *)
Definition delivered_due (p : packet) : N :=
  match delivery_due cfg p with Some (_, a) => a | None => 0 end.

(** packets are sent by users or by the agent contract *)
Definition sender_ok (p : packet) : Prop := match p_sender p with User _ | Agent => True | _ => False end.

Definition ghost_ok (p : packet) : Prop :=
  sender_ok p /\
  match p_status p with
  | Sent => p_code p = 0 /\ p_delivered p = 0 /\ p_refunded p = 0 /\ p_feepaid p = 0
  | RecvOk => p_code p = 0 /\ p_delivered p = delivered_due p /\ p_refunded p = 0 /\ p_feepaid p = 0
  | RecvErr => p_code p <> 0 /\ p_delivered p = 0 /\ p_refunded p = 0 /\ p_feepaid p = 0
  | AckOk => p_code p = 0 /\ p_delivered p = delivered_due p /\ p_refunded p = 0 /\ p_feepaid p = 1
  | Refunded => p_code p <> 0 /\ p_delivered p = 0 /\ p_refunded p = refund_due cfg p /\ p_feepaid p = 1 /\ p_amount p <> 0
  end.

Definition Ghost (s : state) : Prop := forall p, In p (packets s) -> ghost_ok p.

Lemma delivery_due_on_recv code d p : delivery_due cfg (on_recv code d p) = delivery_due cfg p.
Proof. reflexivity. Qed.
Lemma delivery_due_on_ack r p : delivery_due cfg (on_ack r p) = delivery_due cfg p.
Proof. reflexivity. Qed.
Lemma refund_due_on_ack r p : refund_due cfg (on_ack r p) = refund_due cfg p.
Proof. reflexivity. Qed.

Lemma give_tokens_delivered cs p cs1 d : give_tokens cfg cs p = Some (cs1, d) -> d = delivered_due p.
Proof.
  unfold give_tokens, delivered_due, delivery_due. destruct (p_amount p =? 0); [intro H; inv H; reflexivity|].
  destruct (p_recv p) as [r|]; [|discriminate]. destruct (p_ori p) as [t|].
  - destruct (Nat.eqb t 0 && is_contract r); [discriminate|].
    match goal with |- context [if ?c then _ else _] => destruct c end; [|discriminate]. intro H; inv H. reflexivity.
  - destruct (trace cfg (p_dst p) (p_src p) (p_token p)) as [[loc k]|]; [|discriminate]. intro H; inv H. reflexivity.
Qed.

Lemma give_back_refund cs p cs1 r : give_back cfg cs p = Some (cs1, r) -> p_code p <> 0 -> r = refund_due cfg p /\ p_amount p <> 0.
Proof.
  unfold give_back, refund_due. destruct (p_code p =? 0) eqn:Ec; [apply N.eqb_eq in Ec; congruence|].
  destruct (p_amount p =? 0) eqn:Ea; [discriminate|]. apply N.eqb_neq in Ea.
  destruct (p_ori p) as [t|].
  - destruct (bound cfg (p_src p) (p_token p) (p_dst p)) as [[o k]|]; [|discriminate]. intros H _; inv H. auto.
  - match goal with |- context [if ?c then _ else _] => destruct c end; [|discriminate]. intros H _; inv H. auto.
Qed.

Lemma uniq_key_unique ps src dst sq p q :
  uniq ps -> lookup src dst sq ps = Some p -> In q ps -> key_is src dst sq q = true -> q = p.
Proof.
  induction ps as [|x l IH]; [contradiction|]. cbn [uniq lookup]. intros [Hx Hu] Hl Hin Hk.
  destruct (key_is src dst sq x) eqn:Ex.
  - inv Hl. destruct Hin as [->|Hin]; [reflexivity|].
    apply key_is_true in Ex as (E1 & E2 & E3). subst.
    rewrite (lookup_none_in _ _ _ _ _ Hx Hin) in Hk. discriminate.
  - destruct Hin as [->|Hin]; [congruence|]. apply IH; assumption.
Qed.

Lemma fresh_ghost c cs0 h tok amt dst rcv cd cb ftok fee cs q :
  transfer_chain cfg c cs0 h tok amt dst rcv cd cb ftok fee = Some (cs, q) ->
  (match h with User _ | Agent => True | _ => False end) -> ghost_ok q.
Proof.
  intros E Hh. apply transfer_chain_spec in E as (_ & _ & _ & Hp & _). rewrite Hp. unfold ghost_ok, sender_ok; cbn. auto.
Qed.

Theorem step_ghost s o s' : wf cfg s -> Ghost s -> step cfg s o = Ok s' -> Ghost s'.
Proof.
  intros [Hu _] HG H. unfold step, step_gen in H.
  destruct o as [c u tok amt dst rcv cd cb ftok fee|src dst sq|src dst sq|c u dst sq amt|k src dst sq]; [| | | |discriminate].
  - destruct (transfer_chain cfg c (chains s c) (User u) tok amt dst rcv cd (if cb then CbBroken else CbNone) ftok fee) as [[cs p]|] eqn:E; [|discriminate].
    inv H. intros q Hq. cbn in Hq. apply in_app_or in Hq as [Hq|[<-|[]]]; [apply HG; exact Hq|].
    eapply fresh_ghost; eauto. exact I.
  - destruct (lookup src dst sq (packets s)) as [p|] eqn:El; [|discriminate].
    destruct (is_sent p) eqn:Es; [|discriminate].
    destruct (recv_chain cfg (chains s dst) p) as [[[code cs] d] onw] eqn:Er. inv H.
    intros q Hq. cbn in Hq. apply in_app_or in Hq as [Hq|Hq].
    + apply in_update in Hq as (q0 & Hq0 & ->).
      destruct (key_is src dst sq q0) eqn:Ek; [|apply HG; exact Hq0].
      assert (q0 = p) as -> by (eapply uniq_key_unique; eauto).
      specialize (HG p Hq0). unfold ghost_ok in *. unfold is_sent in Es. destruct HG as [HS HG]. split; [exact HS|].
      destruct (p_status p) eqn:Est; try discriminate. destruct HG as (G1 & G2 & G3 & G4).
      apply recv_chain_cases in Er as [(Hc & _ & -> & _)|(-> & cs1 & G & _)].
      * cbn. apply N.eqb_neq in Hc. rewrite Hc. apply N.eqb_neq in Hc. auto.
      * cbn. apply give_tokens_delivered in G. auto.
    + apply recv_chain_cases in Er as [(_ & _ & _ & ->)|(_ & cs1 & _ & [(-> & _)|(q' & T & a2 & feer & ref & rcv2 & dst2 & -> & Ht)])];
        try (cbn in Hq; contradiction).
      cbn in Hq. destruct Hq as [<-|[]]. eapply fresh_ghost; eauto. exact I.
  - destruct (lookup src dst sq (packets s)) as [p|] eqn:El; [|discriminate].
    destruct (is_received p) eqn:Es; [|discriminate].
    destruct (ack_chain cfg (chains s src) p) as [[cs r]|] eqn:Er; [|discriminate]. inv H.
    intros q Hq. cbn in Hq. apply in_update in Hq as (q0 & Hq0 & ->).
    destruct (key_is src dst sq q0) eqn:Ek; [|apply HG; exact Hq0].
    assert (q0 = p) as -> by (eapply uniq_key_unique; eauto).
    specialize (HG p Hq0). unfold ghost_ok in *. unfold is_received in Es. destruct HG as [HS HG]. split; [exact HS|].
    assert (Hgb : exists cs0 cs2, give_back cfg cs0 p = Some (cs2, r)).
    { unfold ack_chain in Er. destruct (fees (chains s src) (p_dst p) (p_seq p)) as [ft f].
      destruct (p_cb p); try discriminate;
        (match type of Er with (if ?g then _ else _) = _ => destruct g end; [|discriminate]);
        (match type of Er with match ?g with Some _ => _ | None => _ end = _ => destruct g as [[cs2 r2]|] eqn:Eg end; [|discriminate]);
        injection Er as _ <-; eauto. }
    destruct Hgb as (cs0 & cs2 & Hgb).
    destruct (p_status p) eqn:Est; try discriminate.
    + destruct HG as (G1 & G2 & G3 & G4). cbn. rewrite G1. cbn.
      unfold give_back in Hgb. rewrite G1 in Hgb. cbn in Hgb. inv Hgb. repeat split; auto; lia.
    + destruct HG as (G1 & G2 & G3 & G4). cbn. apply N.eqb_neq in G1 as G1'. rewrite G1'. cbn.
      apply give_back_refund in Hgb as [-> Ha]; [|exact G1]. rewrite refund_due_on_ack. repeat split; auto; lia.
  - destruct (addfee_chain (chains s c) u dst sq amt) as [cs|] eqn:E; [|discriminate]. inv H. exact HG.
Qed.

(** ** Status transitions of one step *)
Theorem step_status s o s' src dst sq q :
  Ghost s -> step cfg s o = Ok s' -> lookup src dst sq (packets s) = Some q ->
  exists q', lookup src dst sq (packets s') = Some q' /\ legal (p_status q) (p_status q') /\
             (p_status q' <> p_status q -> o = Recv src dst sq \/ o = Ack src dst sq).
Proof.
  intros HG H Hl. unfold step, step_gen in H.
  destruct o as [c u tok amt dst0 rcv cd cb ftok fee|src0 dst0 sq0|src0 dst0 sq0|c u dst0 sq0 amt|k src0 dst0 sq0]; [| | | |discriminate].
  - destruct (transfer_chain cfg c (chains s c) (User u) tok amt dst0 rcv cd (if cb then CbBroken else CbNone) ftok fee) as [[cs p]|]; [|discriminate].
    inv H. cbn. rewrite lookup_app, Hl. exists q. split; [reflexivity|]. split; [constructor|congruence].
  - destruct (lookup src0 dst0 sq0 (packets s)) as [p|] eqn:El; [|discriminate].
    destruct (is_sent p) eqn:Es; [|discriminate].
    destruct (recv_chain cfg (chains s dst0) p) as [[[code cs] d] onw]. inv H. cbn.
    rewrite lookup_app, (lookup_update _ _ _ _ _ _ _ _ (on_recv_key code d)), Hl.
    destruct (key_is src0 dst0 sq0 q) eqn:Ek.
    + exists (on_recv code d q). split; [reflexivity|].
      destruct (lookup_in _ _ _ _ _ Hl) as [_ Hk]. apply key_is_true in Hk as (K1 & K2 & K3). apply key_is_true in Ek as (E1 & E2 & E3).
      assert (src0 = src /\ dst0 = dst /\ sq0 = sq) as (-> & -> & ->) by (repeat split; congruence).
      rewrite Hl in El. inv El. unfold is_sent in Es. destruct (p_status p) eqn:Est; try discriminate.
      cbn. split; [destruct (code =? 0); constructor|auto].
    + exists q. split; [reflexivity|]. split; [constructor|congruence].
  - destruct (lookup src0 dst0 sq0 (packets s)) as [p|] eqn:El; [|discriminate].
    destruct (is_received p) eqn:Es; [|discriminate].
    destruct (ack_chain cfg (chains s src0) p) as [[cs r]|] eqn:Er; [|discriminate]. inv H. cbn.
    rewrite (lookup_update _ _ _ _ _ _ _ _ (on_ack_key r)), Hl.
    destruct (key_is src0 dst0 sq0 q) eqn:Ek.
    + exists (on_ack r q). split; [reflexivity|].
      destruct (lookup_in _ _ _ _ _ Hl) as [_ Hk]. apply key_is_true in Hk as (K1 & K2 & K3). apply key_is_true in Ek as (E1 & E2 & E3).
      assert (src0 = src /\ dst0 = dst /\ sq0 = sq) as (-> & -> & ->) by (repeat split; congruence).
      rewrite Hl in El. inv El. split; [|auto].
      destruct (lookup_in _ _ _ _ _ Hl) as [Hin _]. specialize (HG p Hin). unfold ghost_ok in HG. destruct HG as [_ HG].
      unfold is_received in Es. cbn. destruct (p_status p) eqn:Est; try discriminate.
      * destruct HG as (G1 & _). rewrite G1. cbn. constructor.
      * destruct HG as (G1 & _). apply N.eqb_neq in G1. rewrite G1. constructor.
    + exists q. split; [reflexivity|]. split; [constructor|congruence].
  - destruct (addfee_chain (chains s c) u dst0 sq0 amt) as [cs|]; [|discriminate]. inv H. cbn.
    exists q. split; [exact Hl|]. split; [constructor|congruence].
Qed.

(** ** Histories *)
Definition Good (s : state) : Prop := Inv cfg s /\ Ghost s.

Hypothesis Hcfg : cfg_consistent cfg.

Lemma step_good s o s' : Good s -> step cfg s o = Ok s' -> Good s'.
Proof.
  intros [HI HG] H. split; [eapply step_inv; eauto|]. destruct HI as [Hw _]. eapply step_ghost; eauto.
Qed.

Lemma apply_good s o : Good s -> Good (apply_gen recv_chain cfg s o).
Proof.
  intro HG. unfold apply_gen. destruct (step_gen recv_chain cfg s o) as [s'| |] eqn:E; try exact HG.
  eapply step_good; eauto.
Qed.

Theorem run_good h : forall s, Good s -> Good (run cfg s h).
Proof.
  unfold run, run_gen. induction h as [|o h IH]; intros s HG; cbn; [exact HG|]. apply IH. apply apply_good. exact HG.
Qed.

(** Over any history a packet is never lost and its status only moves along
    Sent -> (RecvOk -> AckOk | RecvErr -> Refunded). *)
Theorem run_status h : forall s src dst sq q,
  Good s -> lookup src dst sq (packets s) = Some q ->
  exists q', lookup src dst sq (packets (run cfg s h)) = Some q' /\ legal_star (p_status q) (p_status q').
Proof.
  unfold run, run_gen. induction h as [|o h IH]; intros s src dst sq q HG Hl; cbn.
  - exists q. split; [exact Hl|constructor].
  - unfold apply_gen at 2. destruct (step_gen recv_chain cfg s o) as [s'| |] eqn:E.
    + destruct (step_status s o s' src dst sq q (proj2 HG) E Hl) as (q1 & Hl1 & Hleg & _).
      destruct (IH s' src dst sq q1 (step_good _ _ _ HG E) Hl1) as (q' & Hl' & Hstar).
      exists q'. split; [exact Hl'|]. econstructor; eauto.
    + apply IH; assumption.
    + apply IH; assumption.
Qed.

(** Delivered is final: a packet acknowledged with success is never refunded by any later history;
    a refunded packet stays refunded (it is refunded once: [p_refunded] below). *)
Corollary delivered_final h s src dst sq q :
  Good s -> lookup src dst sq (packets s) = Some q -> p_status q = AckOk ->
  exists q', lookup src dst sq (packets (run cfg s h)) = Some q' /\ p_status q' = AckOk.
Proof.
  intros HG Hl Hst. destruct (run_status h s src dst sq q HG Hl) as (q' & Hl' & Hs). exists q'. split; [exact Hl'|].
  rewrite Hst in Hs. apply legal_star_ackok. exact Hs.
Qed.

Corollary refunded_final h s src dst sq q :
  Good s -> lookup src dst sq (packets s) = Some q -> p_status q = Refunded ->
  exists q', lookup src dst sq (packets (run cfg s h)) = Some q' /\ p_status q' = Refunded.
Proof.
  intros HG Hl Hst. destruct (run_status h s src dst sq q HG Hl) as (q' & Hl' & Hs). exists q'. split; [exact Hl'|].
  rewrite Hst in Hs. apply legal_star_refunded. exact Hs.
Qed.

(** Never both: in every reachable state, for every packet: nothing delivered or nothing refunded;
    refunded packets left nothing on the destination and got back exactly what was taken, once;
    delivered packets were never refunded; the relayer fee was paid at most once. *)
Theorem never_both s p :
  Ghost s -> In p (packets s) ->
  (p_delivered p = 0 \/ p_refunded p = 0) /\ p_feepaid p <= 1 /\
  (p_status p = Refunded -> p_delivered p = 0 /\ p_refunded p = refund_due cfg p /\ p_feepaid p = 1) /\
  (p_status p = AckOk -> p_refunded p = 0 /\ p_delivered p = delivered_due p /\ p_feepaid p = 1) /\
  (p_status p = RecvErr -> p_delivered p = 0) /\
  (p_feepaid p = 1 <-> (p_status p = AckOk \/ p_status p = Refunded)).
Proof.
  intros HG Hin. specialize (HG p Hin). unfold ghost_ok in HG.
  destruct (p_status p); repeat split; try (intro; discriminate); intuition (try lia; try discriminate; auto).
Qed.

(** * What the acknowledgements do to the REAL ledgers *)

(** An error acknowledgement is written: no chain's ledger changed (no token or contract effect of the
    callback is left on the destination). *)
Theorem recv_error_no_effect s src dst sq s' q' :
  step cfg s (Recv src dst sq) = Ok s' ->
  lookup src dst sq (packets s') = Some q' -> p_code q' <> 0 ->
  forall c, chains s' c = chains s c.
Proof.
  intros H Hl' Hc c. unfold step, step_gen in H.
  destruct (lookup src dst sq (packets s)) as [p|] eqn:El; [|discriminate].
  destruct (is_sent p); [|discriminate].
  destruct (recv_chain cfg (chains s dst) p) as [[[code cs] d] onw] eqn:Er. inv H. cbn in *.
  rewrite lookup_app, (lookup_update _ _ _ _ _ _ _ _ (on_recv_key code d)), El in Hl'.
  destruct (lookup_in _ _ _ _ _ El) as [_ Hk]. rewrite Hk in Hl'. inv Hl'. cbn in Hc.
  apply recv_chain_cases in Er as [(_ & -> & _)|(-> & _)]; [|congruence].
  unfold upd1. destruct (Nat.eqb_spec dst c) as [->|]; reflexivity.
Qed.

(** A rejected operation changes nothing. *)
Theorem rejected_no_effect s o : step cfg s o = Err -> apply_gen recv_chain cfg s o = s.
Proof. intro H. unfold apply_gen. unfold step in H. rewrite H. reflexivity. Qed.

Lemma holder_eqb_spec a b : reflect (a = b) (holder_eqb a b).
Proof.
  destruct (holder_eqb a b) eqn:E; constructor; [apply holder_eqb_eq|apply holder_eqb_neq]; exact E.
Qed.

Lemma bal_move_other cs t from to a t' h :
  h <> from -> h <> to -> bal (move cs t from to a) t' h = bal cs t' h.
Proof.
  intros H1 H2. unfold move, credit, debit, set_bal, upd_bal. cbn [bal].
  destruct (Nat.eqb t t'), (holder_eqb_spec to h), (holder_eqb_spec from h); cbn; congruence.
Qed.

Lemma bal_move_to cs t from to a : from <> to -> bal (move cs t from to a) t to = bal cs t to + a.
Proof.
  intro H. unfold move, credit, debit, set_bal, upd_bal. cbn [bal]. rewrite Nat.eqb_refl.
  destruct (holder_eqb_spec to to), (holder_eqb_spec from to); cbn; congruence.
Qed.

Lemma bal_move_from cs t from to a : from <> to -> bal (move cs t from to a) t from = bal cs t from - a.
Proof.
  intro H. unfold move, credit, debit, set_bal, upd_bal. cbn [bal]. rewrite Nat.eqb_refl.
  destruct (holder_eqb_spec to from), (holder_eqb_spec from from); cbn; congruence.
Qed.

(** Success acknowledgement on the source: ack status := 1, the fee goes packet contract -> relayer;
    NOTHING else changes anywhere: in particular no escrow is released, nothing is re-minted and the
    sender's balances are untouched (a delivered transfer is never refunded). *)
Theorem ack_success_effect s src dst sq s' p :
  step cfg s (Ack src dst sq) = Ok s' -> lookup src dst sq (packets s) = Some p -> p_code p = 0 ->
  (forall c, c <> src -> chains s' c = chains s c) /\
  out_tokens (chains s' src) = out_tokens (chains s src) /\
  bind_amt (chains s' src) = bind_amt (chains s src) /\
  supply (chains s' src) = supply (chains s src) /\
  next_seq (chains s' src) = next_seq (chains s src) /\
  fees (chains s' src) = fees (chains s src) /\
  effects (chains s' src) = effects (chains s src) /\
  ack_status (chains s' src) dst sq = 1 /\
  (forall t h, h <> PacketC -> h <> Relayer -> bal (chains s' src) t h = bal (chains s src) t h) /\
  bal (chains s' src) (fst (fees (chains s src) dst sq)) Relayer =
    bal (chains s src) (fst (fees (chains s src) dst sq)) Relayer + snd (fees (chains s src) dst sq) /\
  bal (chains s' src) (fst (fees (chains s src) dst sq)) PacketC =
    bal (chains s src) (fst (fees (chains s src) dst sq)) PacketC - snd (fees (chains s src) dst sq).
Proof.
  intros H Hl Hc. unfold step, step_gen in H. rewrite Hl in H.
  destruct (is_received p); [|discriminate].
  destruct (ack_chain cfg (chains s src) p) as [[cs r]|] eqn:Er; [|discriminate]. inv H.
  destruct (lookup_in _ _ _ _ _ Hl) as [_ Hk]. apply key_is_true in Hk as (K1 & K2 & K3).
  assert (E : cs = move (set_ackst (chains s src) (upd_cs (ack_status (chains s src)) dst sq 1))
                        (fst (fees (chains s src) dst sq)) PacketC Relayer (snd (fees (chains s src) dst sq))).
  { unfold ack_chain in Er. rewrite K2, K3 in Er. destruct (fees (chains s src) dst sq) as [ft f].
    unfold give_back in Er. rewrite Hc in Er. cbn [N.eqb] in Er.
    destruct (p_cb p); try discriminate;
      (match type of Er with (if ?g then _ else _) = _ => destruct g end; [|discriminate]);
      cbn in Er; injection Er as <- _; reflexivity. }
  clear Er K1 K2 K3. subst cs.
  cbn [chains set_chain].
  split.
  { intros c Hne. unfold upd1. destruct (Nat.eqb_spec src c); [congruence|reflexivity]. }
  unfold upd1. rewrite Nat.eqb_refl.
  repeat split; try reflexivity.
  - cbn. unfold upd_cs. rewrite Nat.eqb_refl, N.eqb_refl. reflexivity.
  - intros t h H1 H2. rewrite bal_move_other by assumption. reflexivity.
  - rewrite bal_move_to by discriminate. reflexivity.
  - rewrite bal_move_from by discriminate. reflexivity.
Qed.

(** Error acknowledgement on the source: ack status := 2 and the sender -- or, for a packet sent on by the agent
    contract, the refund address the agent was given -- gets back exactly what was taken (the escrowed amount, or
    the re-minted burned amount) in the token that was sent. *)
Theorem ack_error_refund s src dst sq s' p :
  step cfg s (Ack src dst sq) = Ok s' -> lookup src dst sq (packets s) = Some p -> p_code p <> 0 -> sender_ok p ->
  (forall c, c <> src -> chains s' c = chains s c) /\
  ack_status (chains s' src) dst sq = 2 /\
  bal (chains s' src) (p_token p) (refund_target p) =
    bal (chains s src) (p_token p) (refund_target p) + refund_due cfg p.
Proof.
  intros H Hl Hc Hso. unfold step, step_gen in H. rewrite Hl in H.
  destruct (is_received p); [|discriminate].
  destruct (ack_chain cfg (chains s src) p) as [[cs r]|] eqn:Er; [|discriminate]. inv H.
  destruct (lookup_in _ _ _ _ _ Hl) as [_ Hk]. apply key_is_true in Hk as (K1 & K2 & K3).
  cbn [chains set_chain].
  split.
  { intros c Hne. unfold upd1. destruct (Nat.eqb_spec src c); [congruence|reflexivity]. }
  unfold upd1. rewrite Nat.eqb_refl.
  unfold ack_chain in Er. rewrite K2, K3 in Er. destruct (fees (chains s src) dst sq) as [ft f].
  apply N.eqb_neq in Hc as Hc'. rewrite Hc' in Er.
  unfold give_back, refund_due, refund_target in *. rewrite Hc', K1, K2 in *. clear K1 K2 K3.
  unfold sender_ok in Hso.
  destruct (p_amount p =? 0) eqn:Ea.
  { destruct (p_cb p); try discriminate; (match type of Er with (if ?g then _ else _) = _ => destruct g end; discriminate). }
  apply N.eqb_neq in Ea.
  assert (Hr0 : forall k, k <> 0 -> (p_amount p * k =? 0) = false) by (intros k Hk; apply N.eqb_neq; lia).
  destruct (p_ori p) as [t0|].
  - destruct (bound cfg src (p_token p) dst) as [[o k]|];
      [|destruct (p_cb p); try discriminate; (match type of Er with (if ?g then _ else _) = _ => destruct g end; discriminate)].
    destruct (p_cb p) as [| |ref]; try discriminate;
      (match type of Er with (if ?g then _ else _) = _ => destruct g end; [|discriminate]); injection Er as <- <-.
    + split; [cbn; unfold upd_cs; rewrite Nat.eqb_refl, N.eqb_refl; reflexivity|].
      destruct (p_sender p); try contradiction; cbn; unfold upd_bal; rewrite ?Nat.eqb_refl; cbn;
        rewrite ?andb_false_r, ?Nat.eqb_refl; cbn; rewrite ?Nat.eqb_refl; reflexivity.
    + split; [destruct (p_amount p * k =? 0); cbn; unfold upd_cs; rewrite Nat.eqb_refl, N.eqb_refl; reflexivity|].
      destruct (p_amount p * k =? 0) eqn:E0.
      * apply N.eqb_eq in E0. rewrite E0.
        destruct (p_sender p) as [u| | | | |]; try contradiction; cbn; unfold upd_bal; rewrite ?Nat.eqb_refl; cbn;
          rewrite ?andb_false_r; cbn; try (destruct (Nat.eqb_spec u ref); subst; cbn); lia.
      * destruct (p_sender p) as [u| | | | |]; try contradiction; cbn; unfold upd_bal; rewrite ?Nat.eqb_refl; cbn;
          rewrite ?andb_false_r, ?Nat.eqb_refl; cbn; rewrite ?Nat.eqb_refl; cbn;
          try (destruct (Nat.eqb_spec u ref); subst; cbn; rewrite ?Nat.eqb_refl; cbn); lia.
  - destruct (p_cb p) as [| |ref]; try discriminate;
      (match type of Er with (if ?g then _ else _) = _ => destruct g end; [|discriminate]);
      (match type of Er with match (if ?g then _ else _) with Some _ => _ | None => _ end = _ => destruct g end; [|discriminate]);
      injection Er as <- <-.
    + split; [cbn; unfold upd_cs; rewrite Nat.eqb_refl, N.eqb_refl; reflexivity|].
      destruct (p_sender p); try contradiction; cbn; unfold upd_bal; rewrite ?Nat.eqb_refl; cbn;
        rewrite ?andb_false_r, ?Nat.eqb_refl; cbn; rewrite ?Nat.eqb_refl; reflexivity.
    + apply N.eqb_neq in Ea as Ea'. rewrite Ea'.
      split; [cbn; unfold upd_cs; rewrite Nat.eqb_refl, N.eqb_refl; reflexivity|].
      destruct (p_sender p) as [u| | | | |]; try contradiction; cbn; unfold upd_bal; rewrite ?Nat.eqb_refl; cbn;
        rewrite ?andb_false_r, ?Nat.eqb_refl; cbn; rewrite ?Nat.eqb_refl; cbn;
        try (destruct (Nat.eqb_spec u ref); subst; cbn; rewrite ?Nat.eqb_refl; cbn); lia.
Qed.

End WithCfg.

(** * Initial states *)
Definition init_ok (s : state) : Prop :=
  packets s = [] /\ forall A B t, out_tokens (chains s A) t B = 0 /\ bind_amt (chains s A) t B = 0.

Lemma init_good cfg s : init_ok s -> Good cfg s.
Proof.
  intros [Hp H0]. split; [split|].
  - unfold wf. rewrite Hp. split; [exact I|]. intros p [].
  - intros A B t _. rewrite Hp. cbn. destruct (trace cfg B A t) as [[loc k]|].
    + rewrite (proj1 (H0 A B t)), (proj2 (H0 B A loc)). lia.
    + apply H0.
  - intros p Hin. rewrite Hp in Hin. destruct Hin.
Qed.

Theorem run_conserved cfg s0 h :
  cfg_consistent cfg -> init_ok s0 -> conserved cfg (run cfg s0 h).
Proof.
  intros Hcfg Hi. destruct (run_good cfg Hcfg h s0 (init_good cfg s0 Hi)) as [[_ Hc] _]. exact Hc.
Qed.

(** * Monitor soundness: the executable conservation check of the monitor (Model/BridgeCheck.v) accepts every
    state that satisfies the invariant, whatever the universe of chains and tokens it is evaluated on; and
    conversely a state it accepts satisfies the equation for every triple of that universe. *)
Lemma conserved_at_iff cfg cs ps A B t :
  conserved_at cfg cs ps A B t = true <->
  match trace cfg B A t with
  | Some (loc, k) => out_tokens (cs A) t B * k = bind_amt (cs B) loc A + k * sum_contrib A B t ps
  | None => out_tokens (cs A) t B = sum_contrib A B t ps
  end.
Proof.
  unfold conserved_at. destruct (trace cfg B A t) as [[loc k]|]; apply N.eqb_eq.
Qed.

Theorem conserved_all_sound cfg U s : conserved cfg s -> conserved_all U cfg (chains s) (packets s) = true.
Proof.
  intro Hc. unfold conserved_all. apply forallb_forall. intros A _. apply forallb_forall. intros B _.
  destruct (Nat.eqb_spec A B) as [->|Hne]; [reflexivity|]. cbn [orb]. apply forallb_forall. intros t _.
  apply conserved_at_iff. apply Hc. exact Hne.
Qed.

Theorem conserved_all_complete cfg U cs ps A B t :
  conserved_all U cfg cs ps = true -> In A (chain_ids U) -> In B (chain_ids U) -> A <> B -> In t (tokens U A) ->
  match trace cfg B A t with
  | Some (loc, k) => out_tokens (cs A) t B * k = bind_amt (cs B) loc A + k * sum_contrib A B t ps
  | None => out_tokens (cs A) t B = sum_contrib A B t ps
  end.
Proof.
  unfold conserved_all. intros H HA HB Hne Ht.
  rewrite forallb_forall in H. specialize (H A HA). rewrite forallb_forall in H. specialize (H B HB).
  destruct (Nat.eqb_spec A B); [contradiction|]. cbn [orb] in H. rewrite forallb_forall in H.
  apply conserved_at_iff. apply H. exact Ht.
Qed.
