(** C03 — "delivered or refunded, never both": per-packet outcome automaton, ghost accounting, and what an
    error / success acknowledgement does to the real ledgers. *)
From Coq Require Import List Arith PeanoNat NArith Bool Lia.
From Teleport Require Import Base.Outcome Model.Bridge Model.BridgeCheck Proofs.Bridge.
Import ListNotations.
Local Open Scope N_scope.

(** * The outcome automaton *)
Inductive legal : status -> status -> Prop :=
| legal_refl a : legal a a
| legal_recv_ok : legal Sent RecvOk
| legal_recv_err : legal Sent RecvErr
| legal_ack_ok : legal RecvOk AckOk
| legal_refund : legal RecvErr Refunded.

Inductive legal_star : status -> status -> Prop :=
| ls_refl a : legal_star a a
| ls_step a b c : legal a b -> legal_star b c -> legal_star a c.

Lemma legal_star_trans a b c : legal_star a b -> legal_star b c -> legal_star a c.
Proof. induction 1; intro H2; [exact H2|]. econstructor; eauto. Qed.

(** delivered is final: once [AckOk], always [AckOk] (never refunded); once [Refunded], always [Refunded] *)
Lemma legal_star_ackok b : legal_star AckOk b -> b = AckOk.
Proof.
  intro H. remember AckOk as a eqn:E. induction H as [|a b c H1 H2 IH]; [reflexivity|].
  subst a. inversion H1; subst; apply IH; reflexivity.
Qed.

Lemma legal_star_refunded b : legal_star Refunded b -> b = Refunded.
Proof.
  intro H. remember Refunded as a eqn:E. induction H as [|a b c H1 H2 IH]; [reflexivity|].
  subst a. inversion H1; subst; apply IH; reflexivity.
Qed.

Lemma legal_star_recvok b : legal_star RecvOk b -> b = RecvOk \/ b = AckOk.
Proof.
  intro H. remember RecvOk as a eqn:E. induction H as [|a b c H1 H2 IH]; [left; reflexivity|].
  subst a. inversion H1; subst; [apply IH; reflexivity|]. right. apply legal_star_ackok. exact H2.
Qed.

Lemma legal_star_recverr b : legal_star RecvErr b -> b = RecvErr \/ b = Refunded.
Proof.
  intro H. remember RecvErr as a eqn:E. induction H as [|a b c H1 H2 IH]; [left; reflexivity|].
  subst a. inversion H1; subst; [apply IH; reflexivity|]. right. apply legal_star_refunded. exact H2.
Qed.

Section WithCfg.
Variable cfg : config.

(** ** Ghost accounting of one packet: what was delivered, refunded and paid to the relayer in each status *)
Definition delivered_due (p : packet) : N :=
  match delivery_due cfg p with Some (_, a) => a | None => 0 end.

Definition ghost_ok (p : packet) : Prop :=
  match p_status p with
  | Sent => p_code p = 0 /\ p_delivered p = 0 /\ p_refunded p = 0 /\ p_feepaid p = 0
  | RecvOk => p_code p = 0 /\ p_delivered p = delivered_due p /\ p_refunded p = 0 /\ p_feepaid p = 0
  | RecvErr => p_code p <> 0 /\ p_delivered p = 0 /\ p_refunded p = 0 /\ p_feepaid p = 0
  | AckOk => p_code p = 0 /\ p_delivered p = delivered_due p /\ p_refunded p = 0 /\ p_feepaid p = 1
  | Refunded => p_code p <> 0 /\ p_delivered p = 0 /\ p_refunded p = refund_due cfg p /\ p_feepaid p = 1 /\ p_amount p <> 0
  end.

Definition Ghost (s : state) : Prop := forall p, In p (packets s) -> ghost_ok p.

Lemma delivery_due_on_recv code d p : delivery_due cfg (on_recv code d p) = delivery_due cfg p.
Proof. reflexivity. Qed.
Lemma delivery_due_on_ack r p : delivery_due cfg (on_ack r p) = delivery_due cfg p.
Proof. reflexivity. Qed.
Lemma refund_due_on_ack r p : refund_due cfg (on_ack r p) = refund_due cfg p.
Proof. reflexivity. Qed.

Lemma give_tokens_delivered cs p cs1 d : give_tokens cfg cs p = Some (cs1, d) -> d = delivered_due p.
Proof.
  unfold give_tokens, delivered_due, delivery_due. destruct (p_amount p =? 0); [intro H; inv H; reflexivity|].
  destruct (p_recv p) as [r|]; [|discriminate]. destruct (p_ori p) as [t|].
  - destruct (Nat.eqb t 0 && is_contract r); [discriminate|].
    match goal with |- context [if ?c then _ else _] => destruct c end; [|discriminate]. intro H; inv H. reflexivity.
  - destruct (trace cfg (p_dst p) (p_src p) (p_token p)) as [[loc k]|]; [|discriminate]. intro H; inv H. reflexivity.
Qed.

Lemma give_back_refund cs p cs1 r : give_back cfg cs p = Some (cs1, r) -> p_code p <> 0 -> r = refund_due cfg p /\ p_amount p <> 0.
Proof.
  unfold give_back, refund_due. destruct (p_code p =? 0) eqn:Ec; [apply N.eqb_eq in Ec; congruence|].
  destruct (p_amount p =? 0) eqn:Ea; [discriminate|]. apply N.eqb_neq in Ea.
  destruct (p_ori p) as [t|].
  - destruct (bound cfg (p_src p) (p_token p) (p_dst p)) as [[o k]|]; [|discriminate]. intros H _; inv H. auto.
  - match goal with |- context [if ?c then _ else _] => destruct c end; [|discriminate]. intros H _; inv H. auto.
Qed.

Lemma uniq_key_unique ps src dst sq p q :
  uniq ps -> lookup src dst sq ps = Some p -> In q ps -> key_is src dst sq q = true -> q = p.
Proof.
  induction ps as [|x l IH]; [contradiction|]. cbn [uniq lookup]. intros [Hx Hu] Hl Hin Hk.
  destruct (key_is src dst sq x) eqn:Ex.
  - inv Hl. destruct Hin as [->|Hin]; [reflexivity|].
    apply key_is_true in Ex as (E1 & E2 & E3). subst.
    rewrite (lookup_none_in _ _ _ _ _ Hx Hin) in Hk. discriminate.
  - destruct Hin as [->|Hin]; [congruence|]. apply IH; assumption.
Qed.

Theorem step_ghost s o s' : wf cfg s -> Ghost s -> step cfg s o = Ok s' -> Ghost s'.
Proof.
  intros [Hu _] HG H. unfold step, step_gen in H.
  destruct o as [c u tok amt dst rcv cd cb ftok fee|src dst sq|src dst sq|c u dst sq amt].
  - destruct (transfer_chain cfg c (chains s c) u tok amt dst rcv cd cb ftok fee) as [[cs p]|] eqn:E; [|discriminate].
    inv H. intros q Hq. cbn in Hq. apply in_app_or in Hq as [Hq|[<-|[]]]; [apply HG; exact Hq|].
    apply transfer_chain_spec in E as (_ & Hp & _). rewrite Hp. unfold ghost_ok; cbn. auto.
  - destruct (lookup src dst sq (packets s)) as [p|] eqn:El; [|discriminate].
    destruct (is_sent p) eqn:Es; [|discriminate].
    destruct (recv_chain cfg (chains s dst) p) as [[code cs] d] eqn:Er. inv H.
    intros q Hq. cbn in Hq. apply in_update in Hq as (q0 & Hq0 & ->).
    destruct (key_is src dst sq q0) eqn:Ek; [|apply HG; exact Hq0].
    assert (q0 = p) as -> by (eapply uniq_key_unique; eauto).
    specialize (HG p Hq0). unfold ghost_ok in *. unfold is_sent in Es.
    destruct (p_status p) eqn:Est; try discriminate. destruct HG as (G1 & G2 & G3 & G4).
    apply recv_chain_cases in Er as [(Hc & _ & ->)|(-> & cs1 & G & _)].
    + cbn. apply N.eqb_neq in Hc. rewrite Hc. apply N.eqb_neq in Hc. auto.
    + cbn. apply give_tokens_delivered in G. auto.
  - destruct (lookup src dst sq (packets s)) as [p|] eqn:El; [|discriminate].
    destruct (is_received p) eqn:Es; [|discriminate].
    destruct (ack_chain cfg (chains s src) p) as [[cs r]|] eqn:Er; [|discriminate]. inv H.
    intros q Hq. cbn in Hq. apply in_update in Hq as (q0 & Hq0 & ->).
    destruct (key_is src dst sq q0) eqn:Ek; [|apply HG; exact Hq0].
    assert (q0 = p) as -> by (eapply uniq_key_unique; eauto).
    specialize (HG p Hq0). unfold ghost_ok in *. unfold is_received in Es.
    unfold ack_chain in Er. destruct (p_cb p); [|discriminate].
    destruct (fees (chains s src) (p_dst p) (p_seq p)) as [ft f].
    match type of Er with (if ?g then _ else _) = _ => destruct g end; [|discriminate].
    destruct (p_status p) eqn:Est; try discriminate.
    + destruct HG as (G1 & G2 & G3 & G4). cbn. rewrite G1. cbn.
      unfold give_back in Er. rewrite G1 in Er. cbn in Er. inv Er. repeat split; auto; lia.
    + destruct HG as (G1 & G2 & G3 & G4). cbn. apply N.eqb_neq in G1 as G1'. rewrite G1'. cbn.
      apply give_back_refund in Er as [-> Ha]; [|exact G1]. rewrite refund_due_on_ack. repeat split; auto; lia.
  - destruct (addfee_chain (chains s c) u dst sq amt) as [cs|] eqn:E; [|discriminate]. inv H. exact HG.
Qed.

(** ** Status transitions of one step *)
Theorem step_status s o s' src dst sq q :
  Ghost s -> step cfg s o = Ok s' -> lookup src dst sq (packets s) = Some q ->
  exists q', lookup src dst sq (packets s') = Some q' /\ legal (p_status q) (p_status q') /\
             (p_status q' <> p_status q -> o = Recv src dst sq \/ o = Ack src dst sq).
Proof.
  intros HG H Hl. unfold step, step_gen in H.
  destruct o as [c u tok amt dst0 rcv cd cb ftok fee|src0 dst0 sq0|src0 dst0 sq0|c u dst0 sq0 amt].
  - destruct (transfer_chain cfg c (chains s c) u tok amt dst0 rcv cd cb ftok fee) as [[cs p]|]; [|discriminate].
    inv H. cbn. rewrite lookup_app, Hl. exists q. split; [reflexivity|]. split; [constructor|congruence].
  - destruct (lookup src0 dst0 sq0 (packets s)) as [p|] eqn:El; [|discriminate].
    destruct (is_sent p) eqn:Es; [|discriminate].
    destruct (recv_chain cfg (chains s dst0) p) as [[code cs] d]. inv H. cbn.
    rewrite (lookup_update _ _ _ _ _ _ _ _ (on_recv_key code d)), Hl.
    destruct (key_is src0 dst0 sq0 q) eqn:Ek.
    + exists (on_recv code d q). split; [reflexivity|].
      destruct (lookup_in _ _ _ _ _ Hl) as [_ Hk]. apply key_is_true in Hk as (K1 & K2 & K3). apply key_is_true in Ek as (E1 & E2 & E3).
      assert (src0 = src /\ dst0 = dst /\ sq0 = sq) as (-> & -> & ->) by (repeat split; congruence).
      rewrite Hl in El. inv El. unfold is_sent in Es. destruct (p_status p) eqn:Est; try discriminate.
      cbn. split; [destruct (code =? 0); constructor|auto].
    + exists q. split; [reflexivity|]. split; [constructor|congruence].
  - destruct (lookup src0 dst0 sq0 (packets s)) as [p|] eqn:El; [|discriminate].
    destruct (is_received p) eqn:Es; [|discriminate].
    destruct (ack_chain cfg (chains s src0) p) as [[cs r]|] eqn:Er; [|discriminate]. inv H. cbn.
    rewrite (lookup_update _ _ _ _ _ _ _ _ (on_ack_key r)), Hl.
    destruct (key_is src0 dst0 sq0 q) eqn:Ek.
    + exists (on_ack r q). split; [reflexivity|].
      destruct (lookup_in _ _ _ _ _ Hl) as [_ Hk]. apply key_is_true in Hk as (K1 & K2 & K3). apply key_is_true in Ek as (E1 & E2 & E3).
      assert (src0 = src /\ dst0 = dst /\ sq0 = sq) as (-> & -> & ->) by (repeat split; congruence).
      rewrite Hl in El. inv El. split; [|auto].
      destruct (lookup_in _ _ _ _ _ Hl) as [Hin _]. specialize (HG p Hin). unfold ghost_ok in HG.
      unfold is_received in Es. cbn. destruct (p_status p) eqn:Est; try discriminate.
      * destruct HG as (G1 & _). rewrite G1. cbn. constructor.
      * destruct HG as (G1 & _). apply N.eqb_neq in G1. rewrite G1. constructor.
    + exists q. split; [reflexivity|]. split; [constructor|congruence].
  - destruct (addfee_chain (chains s c) u dst0 sq0 amt) as [cs|]; [|discriminate]. inv H. cbn.
    exists q. split; [exact Hl|]. split; [constructor|congruence].
Qed.

End WithCfg.
