(** Top-level results about the Ethereum client model (Model/Eth.v): soundness of acceptance,
    preservation of the invariant by every accepted update, the main-chain theorem and (at the
    end) completeness: no wedge.  Props/C10.v restates them. *)
From Coq Require Import Lia ZArith NArith List.
From Teleport Require Import Base.Bytes Base.Outcome Model.Eth Proofs.EthBase Proofs.EthValid Proofs.EthChain
  Proofs.EthInv Proofs.EthStep.
Local Open Scope N_scope.

(** * Header equality *)
Lemma if_andb (x y : bool) : (if x then y else false) = x && y.
Proof. reflexivity. Qed.

Lemma header_eqb_eq a b : header_eqb a b = true -> a = b.
Proof.
  destruct a as [a1 a2 a3 a4 a5 a6 a7 a8 a9 a10 a11 a12 a13 a14 a15 a16 a17],
           b as [b1 b2 b3 b4 b5 b6 b7 b8 b9 b10 b11 b12 b13 b14 b15 b16 b17].
  unfold header_eqb. cbn [h_parent h_uncle h_coinbase h_root h_tx h_receipt h_bloom h_diff h_rev h_num
    h_gaslimit h_gasused h_time h_extra h_mix h_nonce h_basefee].
  rewrite !if_andb, !andb_true_iff, !N.eqb_eq.
  intros H. repeat match goal with H : _ /\ _ |- _ => destruct H end.
  repeat match goal with H : beq ?x ?y = true |- _ => destruct (beq_spec x y) as [?|?]; [subst | discriminate H] end.
  subst. reflexivity.
Qed.

Section Top.
  Variable hash : header -> bytes.
  Variable ethash_ok : header -> bool.
  (** The header hash has 32 bytes and covers the block number and the parent hash (for block
      numbers below 2^63; above, rlp refuses the number).  No other property of the hash is used. *)
  Variable U : header -> Prop.   (* the headers that occur (creation header + every submitted header) *)
  Hypothesis hash_len : forall a, U a -> length (hash a) = 32%nat.
  Hypothesis hash_num : forall a b, U a -> U b -> h_num a < two63 -> h_num b < two63 -> hash a = hash b -> h_num a = h_num b.
  Hypothesis hash_parent : forall a b, U a -> U b -> h_num a < two63 -> h_num b < two63 -> hash a = hash b ->
                                       to_hash (h_parent a) = to_hash (h_parent b).
  Variable r0 g0 : N.
  Notation idx_wf := (idx_wf hash r0).
  Notation wf_hdr := (wf_hdr r0).
  Notation key := (key hash).
  Notation Stored := (Stored hash).
  Notation Inv := (Inv hash r0 g0 U).
  Notation update_client := (update_client hash ethash_ok).
  Notation valid_child_b := (valid_child_b hash ethash_ok).

  (** * Hypotheses on an accepted header, Boolean and propositional *)
  Lemma fresh_root_prop s h :
    fresh_root_b hash s h = true ->
    forall a, Stored (idx s) a -> h_num a = h_num h -> to_hash (h_root a) = to_hash (h_root h) -> key a = key h.
  Proof.
    intros F a Sa En Er. unfold fresh_root_b in F. rewrite forallb_forall in F.
    pose proof (mget_in hkey_eqb hkey_eqb_spec _ _ _ Sa) as I. specialize (F _ I). cbn [snd] in F.
    rewrite En, N.eqb_refl, Er, beq_refl in F. cbn in F.
    destruct (beq_spec (hash a) (hash h)) as [E|_]; [|discriminate].
    unfold EthChain.key. rewrite E, En. reflexivity.
  Qed.

  Lemma noalias_prop s h : noalias_b hash s h = true -> forall a, iget (key h) (idx s) = Some a -> a = h.
  Proof.
    intros F a E. unfold noalias_b in F. unfold EthChain.key in E. rewrite E in F. apply header_eqb_eq. exact F.
  Qed.

  (** * The validity check accepts exactly ... (Proofs/EthValid.v), for the current variant *)
  Lemma check_validity_ok bt s h :
    idx_wf (idx s) -> h_num h < two63 -> check_validity hash ethash_ok bt s h = Ok tt ->
    valid_child_b bt s h = true /\ rev_ok cur s h = true /\ exp_ok cur bt s h = true.
  Proof.
    intros WF Hh CV. unfold check_validity in CV. rewrite (check_validity_eq hash ethash_ok cur r0 bt s h WF Hh) in CV.
    destruct (Eth.valid_child_b hash ethash_ok bt s h); [|discriminate].
    destruct (rev_ok cur s h); [|discriminate]. destruct (exp_ok cur bt s h); [|discriminate]. repeat split.
  Qed.

  (** with the revision repair in place an accepted header carries the head's revision number *)
  Lemma rev_ok_fixed s h : fix_rev = true -> rev_ok cur s h = true -> h_rev h = h_rev (head s).
  Proof.
    unfold rev_ok. change (v_rev cur) with fix_rev. intros E H. rewrite E in H. apply N.eqb_eq. exact H.
  Qed.

  (** * The step after pruning *)
  Lemma step_from_pruned s1 L D h c3 rm3 :
    Inv s1 L D -> wf_hdr h -> U h -> g0 <= h_num h ->
    (fix_root = false ->
     forall a, Stored (idx s1) a -> h_num a = h_num h -> to_hash (h_root a) = to_hash (h_root h) -> key a = key h) ->
    (forall a, iget (key h) (idx s1) = Some a -> a = h) ->
    (forall d, In d D -> key h <> key d) ->
    (beq (hash (head s1)) (h_parent h) = true -> parent_of (idx s1) h = Some (head s1)) ->
    (if negb (beq (hash (head s1)) (h_parent h))
     then restrict_chain hash (store_header hash s1 h) (head s1) h
     else Ok (cons (store_header hash s1 h), rmain (store_header hash s1 h))) = Ok (c3, rm3) ->
    exists L',
      Inv {| head := h; chain_id := chain_id s1; trusting := trusting s1; idx := idx (store_header hash s1 h);
             rmain := rm3; cons := cset (h_rev h, h_num h) (cstate_of h) c3 |} L' D
      /\ low h L' = low (head s1) L.
  Proof.
    intros I1 Wh HU Hg0 Hfresh Hnoalias Hdead Hchild R.
    pose proof (inv_wf _ _ _ _ _ _ _ I1) as WF1. pose proof (inv_main _ _ _ _ _ _ _ I1) as M1.
    destruct (inv_head_wf _ _ _ _ _ _ _ I1) as [_ [Hold _]].
    destruct (main_cons _ _ _ M1) as [l EqL].
    assert (WF2 : idx_wf (iset (key h) h (idx s1))) by (apply store_wf; assumption).
    pose proof Wh as [Hrev [Hh Hgl]]. rewrite Hrev.
    cbn [store_header idx rmain cons] in *. change (hash h, h_num h) with (key h) in *.
    destruct (beq (hash (head s1)) (h_parent h)) eqn:B; cbn [negb] in R.
    - (* the new header extends the head *)
      inversion R; subst c3 rm3. specialize (Hchild eq_refl).
      destruct (parent_of_spec _ _ _ _ _ WF1 Hh Hchild) as [_ [Hn _]].
      assert (CC := cons_conds r0 (cons s1) h [h] []).
      destruct CC as [K1 [K2 [K3 K4]]].
      { constructor; [intros [] | constructor]. }
      { constructor. }
      { left; reflexivity. }
      { intros a []. }
      { intros a [->|[]]; left; reflexivity. }
      { exact (inv_cnodup _ _ _ _ _ _ _ I1). }
      assert (RC := rmain_conds hash (rmain s1) h [h] [] fix_root).
      destruct RC as [R0 [R1 R2]].
      { constructor; [intros [] | constructor]. }
      { constructor. }
      { left; reflexivity. }
      { intros a []. }
      { intros a [->|[]]; left; reflexivity. }
      eexists. apply (rebuild_inv hash r0 g0 U s1 L D h I1 Wh HU Hg0 Hfresh Hnoalias Hdead 0%nat 0%nat h); try assumption.
      + reflexivity.
      + rewrite store_parent by lia. rewrite Hchild, EqL. reflexivity.
      + cbn. lia.
      + lia.
      + intro Z. rewrite EqL in Z. discriminate.
    - (* re-organisation *)
      destruct (restrict_ok_shape hash r0 g0 U s1 L D h I1 Wh Hfresh Hnoalias (fun _ => Hg0) (fun _ => Hdead) c3 rm3 R) as [J [m [new2 [y [A [Ey [En [Ep [-> ->]]]]]]]]].
      destruct (main_num _ _ _ _ _ WF1 Hold M1 _ _ Ey) as [Qy Hy].
      assert (S2h : Stored (iset (key h) h (idx s1)) h) by apply store_stored_h.
      destruct (nth_anc_num _ _ _ _ _ _ WF2 Hh A) as [Qn Hn2].
      assert (CC := cons_conds r0 (cons s1) h (ancs (iset (key h) h (idx s1)) h J) (rev (ancs (iset (key h) h (idx s1)) h J))).
      destruct CC as [K1 [K2 [K3 K4]]].
      { eapply ancs_nodup; eauto. }
      { rewrite map_rev. apply NoDup_rev. eapply ancs_nodup; eauto. }
      { destruct J; cbn; left; reflexivity. }
      { intros a Ia. apply in_rev. exact Ia. }
      { intros a Ia. right. apply -> in_rev. exact Ia. }
      { exact (inv_cnodup _ _ _ _ _ _ _ I1). }
      assert (RC := rmain_conds hash (rmain s1) h (ancs (iset (key h) h (idx s1)) h J) (rev (ancs (iset (key h) h (idx s1)) h J)) fix_root).
      destruct RC as [R0 [R1 R2]].
      { eapply ancs_nodup; eauto. }
      { rewrite map_rev. apply NoDup_rev. eapply ancs_nodup; eauto. }
      { destruct J; cbn; left; reflexivity. }
      { intros a Ia. apply in_rev. exact Ia. }
      { intros a Ia. right. apply -> in_rev. exact Ia. }
      eexists. apply (rebuild_inv hash r0 g0 U s1 L D h I1 Wh HU Hg0 Hfresh Hnoalias Hdead J (S m) new2); try assumption.
      + (* the parent of the fork-height header is the main chain's next element *)
        rewrite (parent_of_same _ new2 y) by congruence.
        rewrite store_parent by lia.
        rewrite <- (M1 (S m)). rewrite nth_anc_S, M1, Ey. reflexivity.
      + lia.
      + apply nth_error_Some. congruence.
      + intro Z. unfold pkey. rewrite <- Ep, En.
        assert (E : nth_error L (length L - 1) = Some (last L (head s1))) by (apply nth_error_last; rewrite EqL; discriminate).
        replace (length L - 1)%nat with m in E by lia. rewrite Ey in E. inversion E; subst. reflexivity.
  Qed.

  (** * Inversion of a successful update *)
  Lemma update_shape bt s h s' :
    update_client bt s h = Ok s' ->
    active bt s = true /\ check_validity hash ethash_ok bt s h = Ok tt /\
    exists s1 c3 rm3, prune bt s = Ok s1 /\
      (if negb (beq (hash (head s)) (h_parent h))
       then restrict_chain hash (store_header hash s1 h) (head s) h
       else Ok (cons (store_header hash s1 h), rmain (store_header hash s1 h))) = Ok (c3, rm3) /\
      s' = {| head := h; chain_id := chain_id s; trusting := trusting s; idx := idx (store_header hash s1 h);
              rmain := rm3; cons := cset (h_rev h, h_num h) (cstate_of h) c3 |}.
  Proof.
    unfold Eth.update_client, update_client_gen, check_header_gen. change (v_d2 cur) with true. change (v_root cur) with fix_root.
    fold (check_validity hash ethash_ok). intro Upd.
    destruct (active bt s) eqn:Act; cbn [negb] in Upd; [|discriminate]. split; [reflexivity|].
    destruct (cget (h_rev (head s), h_num (head s)) (cons s)); [|discriminate].
    destruct (check_validity hash ethash_ok bt s h) as [[]| |] eqn:CV; try discriminate. split; [reflexivity|].
    cbn [obind] in Upd. destruct (prune bt s) as [s1| |] eqn:P; try discriminate. cbn [obind] in Upd.
    fold (restrict_chain hash) in Upd.
    destruct (if negb (beq (hash (head s)) (h_parent h)) then restrict_chain hash (store_header hash s1 h) (head s) h
              else Ok (cons (store_header hash s1 h), rmain (store_header hash s1 h))) as [[c3 rm3]| |] eqn:R; try discriminate.
    cbn [obind fst snd] in Upd. inversion Upd; subst s'. exists s1, c3, rm3. repeat split; assumption.
  Qed.

  (** after an accepted update the client is active exactly when the accepted header itself is
      not older than the trusting period *)
  Lemma update_active_after bt s h s' :
    update_client bt s h = Ok s' -> active bt s' = negb (add64 (h_time h) (trusting s) <? bt).
  Proof.
    intro Upd. destruct (update_shape _ _ _ _ Upd) as [_ [_ [s1 [c3 [rm3 [_ [_ ->]]]]]]].
    unfold active. cbn [head cons trusting]. unfold cset, cget. rewrite cget_cset, ckey_eqb_refl. reflexivity.
  Qed.

  (** the key of a header whose parent is stored is not the key of a pruned main-chain header (those have no
      stored parent, and the hash determines the parent hash) *)
  Lemma not_dead s L D h p :
    Inv s L D -> U h -> h_num h < two63 -> iget (pkey h) (idx s) = Some p ->
    forall d, In d D -> key h <> key d.
  Proof.
    intros I HU Hh PH d Id K.
    pose proof (inv_wf _ _ _ _ _ _ _ I) as WF.
    assert (Range : forall x n a, iget (x, n) (idx s) = Some a -> g0 <= n < two63).
    { intros x n a E. destruct (stored_lookup _ _ _ _ _ _ WF E) as [Sa Ka].
      destruct (stored_wf _ _ _ _ WF Sa) as [_ [Q _]]. pose proof (inv_low _ _ _ _ _ _ _ I a Sa).
      inversion Ka; subst. lia. }
    destruct (deadpath_parent_gone _ _ _ _ _ _ Range (inv_dead _ _ _ _ _ _ _ I)) as [_ DeadD].
    destruct (DeadD d Id) as [Nd [Hd Ud]].
    inversion K as [[Kh Kn]].
    assert (E : pkey h = pkey d) by (unfold pkey; rewrite (hash_parent h d HU Ud Hh Hd Kh), Kn; reflexivity).
    rewrite E in PH. congruence.
  Qed.

  (** * Every accepted update preserves the invariant *)
  Theorem update_inv s L D bt h s' :
    Inv s L D -> U h -> (fix_rev = true \/ h_rev h = r0) -> h_num h < two63 ->
    (fix_root = true \/ fresh_root_b hash s h = true) -> noalias_b hash s h = true ->
    update_client bt s h = Ok s' ->
    exists L' D', Inv s' L' D' /\ head s' = h.
  Proof.
    intros I HU Hrev' Hh Fr' Na Upd.
    assert (Fr : fix_root = false -> fresh_root_b hash s h = true).
    { intro F. destruct Fr' as [T|Fr]; [rewrite F in T; discriminate T | exact Fr]. }
    destruct (update_shape _ _ _ _ Upd) as [Act [CV [s1 [c3 [rm3 [P [R ->]]]]]]].
    pose proof (inv_wf _ _ _ _ _ _ _ I) as WF.
    destruct (check_validity_ok _ _ _ WF Hh CV) as [V [RO _]].
    assert (Hrev : h_rev h = r0).
    { destruct Hrev' as [Fx|E]; [|exact E]. rewrite (rev_ok_fixed _ _ Fx RO). exact (proj1 (inv_head_wf _ _ _ _ _ _ _ I)). }
    destruct (valid_child_parent _ _ _ _ _ V) as [H1 [_ [p [Ep [Hp Ru]]]]].
    assert (Hgl : h_gaslimit h < two63).
    { unfold rules_b in Ru. rewrite !andb_true_iff in Ru. apply validate_basic_gaslimit. tauto. }
    assert (Wh : wf_hdr h) by (repeat split; assumption).
    destruct (stored_lookup _ _ _ _ _ _ WF Ep) as [Sp Kp].
    destruct (stored_wf _ _ _ _ WF Sp) as [_ [Hp63 _]].
    assert (Np : h_num p = h_num h - 1) by (inversion Kp; reflexivity).
    assert (Hg0 : g0 <= h_num h) by (pose proof (inv_low _ _ _ _ _ _ _ I p Sp); lia).
    assert (H64 : h_num h < two64) by (pose proof two63_lt_two64; lia).
    assert (PK : pkey h = key p) by (unfold pkey; rewrite sub64_pred by assumption; symmetry; exact Kp).
    assert (PH : iget (pkey h) (idx s) = Some p) by (rewrite PK; exact Sp).
    (* a dead header's parent key holds nothing, the new header's parent key holds p *)
    assert (NotDead : forall d, h_num d < two63 /\ U d -> iget (pkey d) (idx s) = None -> key h <> key d).
    { intros d [Hd Ud] Nd K. inversion K as [[Kh Kn]].
      assert (E : pkey h = pkey d) by (unfold pkey; rewrite (hash_parent h d HU Ud Hh Hd Kh), Kn; reflexivity).
      rewrite E in PH. congruence. }
    assert (Range : forall x n a, iget (x, n) (idx s) = Some a -> g0 <= n < two63).
    { intros x n a E. destruct (stored_lookup _ _ _ _ _ _ WF E) as [Sa Ka].
      destruct (stored_wf _ _ _ _ WF Sa) as [_ [Q _]]. pose proof (inv_low _ _ _ _ _ _ _ I a Sa).
      inversion Ka; subst. lia. }
    destruct (deadpath_parent_gone _ _ _ _ _ _ Range (inv_dead _ _ _ _ _ _ _ I)) as [_ DeadD].
    destruct (inv_head_wf _ _ _ _ _ _ _ I) as [_ [Hold _]].
    (* the new header extends the head: its parent is the head *)
    assert (Child : beq (hash (head s)) (h_parent h) = true -> p = head s).
    { intro B. destruct (beq_spec (hash (head s)) (h_parent h)) as [E|]; [|discriminate].
      assert (T : to_hash (h_parent h) = hash (head s)).
      { rewrite <- E; apply to_hash_32; apply hash_len. exact (inv_univ _ _ _ _ _ _ _ I _ (inv_head _ _ _ _ _ _ _ I)). }
      assert (Hh' : hash p = hash (head s)) by congruence.
      pose proof (hash_num _ _ (inv_univ _ _ _ _ _ _ _ I _ Sp) (inv_univ _ _ _ _ _ _ _ I _ (inv_head _ _ _ _ _ _ _ I)) Hp63 Hold Hh') as Nn.
      pose proof (inv_head _ _ _ _ _ _ _ I) as SH. unfold EthChain.Stored, EthChain.key in SH, Sp.
      rewrite Hh', Nn in Sp. congruence. }
    destruct (prune_spec hash r0 g0 U bt s L D I Act) as [[_ P0]|[_ [L1 [aL [EqL [NE1 [P1 [I1 [Low1 [SaL PaL]]]]]]]]]].
    - (* nothing pruned *)
      rewrite P0 in P. inversion P; subst s1.
      destruct (step_from_pruned s L D h c3 rm3 I Wh HU Hg0) as [L' [I' _]]; try assumption.
      + intro F. apply fresh_root_prop; exact (Fr F).
      + apply noalias_prop; exact Na.
      + intros d Id. destruct (DeadD d Id). apply NotDead; assumption.
      + intro B. rewrite <- (Child B). exact PH.
      + exists L', D. split; [exact I' | reflexivity].
    - (* the earliest consensus state and its header were pruned *)
      rewrite P1 in P. inversion P; subst s1.
      destruct (step_from_pruned (pruned hash r0 s aL) L1 (aL :: D) h c3 rm3 I1 Wh HU Hg0) as [L' [I' _]]; try assumption.
      + intros F a Sa. apply (fresh_root_prop _ _ (Fr F)). exact (idel_sub hash U _ _ _ _ Sa).
      + intros a Ea. apply (noalias_prop _ _ Na). exact (idel_sub hash U _ _ _ _ Ea).
      + intros d [<-|Id].
        * apply NotDead; [split; [exact (proj1 (proj2 (stored_wf _ _ _ _ WF SaL))) | exact (inv_univ _ _ _ _ _ _ _ I _ SaL)] | exact PaL].
        * destruct (DeadD d Id). apply NotDead; assumption.
      + intro B. cbn [head pruned] in *. pose proof (Child B) as Ep'. subst p.
        pose proof (inv_head _ _ _ _ _ _ _ I1) as SH1. cbn [head pruned] in SH1.
        unfold parent_of. fold (pkey h). rewrite PK. exact SH1.
      + exists L', (aL :: D). split; [exact I' | reflexivity].
  Qed.

  (** * The state after creation *)
  Lemma init_inv chain trust g :
    wf_hdr g -> U g -> h_num g = g0 -> Inv (create_client hash chain trust g (cstate_of g)) [g] [].
  Proof.
    intros [Hr [Hn Hg]] Ug G0.
    assert (H64 : h_num g < two64) by (pose proof two63_lt_two64; lia).
    assert (NoParent : parent_of [((hash g, h_num g), g)] g = None).
    { unfold parent_of, iget. cbn [mget]. destruct (hkey_eqb_spec (to_hash (h_parent g), sub64 (h_num g) 1) (hash g, h_num g)) as [K|_]; [|reflexivity].
      exfalso. injection K as _ Q. destruct (N.eq_dec (h_num g) 0) as [Z|NZ].
      - rewrite Z, sub64_zero in Q. unfold two64 in Q. lia.
      - rewrite sub64_pred in Q by lia. lia. }
    assert (Only : forall k a, iget k [((hash g, h_num g), g)] = Some a -> k = (hash g, h_num g) /\ a = g).
    { intros k a E. unfold iget in E. cbn [mget] in E. destruct (hkey_eqb_spec k (hash g, h_num g)) as [->|_]; [|discriminate].
      inversion E; tauto. }
    constructor; cbn [create_client idx cons rmain head].
    - intros x k a E. destruct (Only _ _ E) as [K ->]. injection K as -> ->. repeat split; assumption.
    - intros [|i]; [reflexivity|]. cbn [EthChain.nth_anc]. rewrite NoParent. destruct i; reflexivity.
    - unfold EthChain.Stored, EthChain.key, iget. cbn [mget]. rewrite hkey_eqb_refl. reflexivity.
    - intros r k c E. unfold cget in E. cbn [mget] in E. destruct (ckey_eqb_spec (r, k) (h_rev g, h_num g)) as [K|_]; [|discriminate].
      injection K as -> ->. split; [exact Hr | unfold low; cbn; lia].
    - intros a [<-|[]]. unfold cget. cbn [mget]. rewrite Hr, ckey_eqb_refl. reflexivity.
    - cbn. constructor; [intros [] | constructor].
    - intros a Sa La. destruct (Only _ _ Sa) as [_ ->]. unfold low in La. cbn in La. lia.
    - intros a Sa _. destruct (Only _ _ Sa) as [_ ->]. unfold rget. cbn [mget]. rewrite hkey_eqb_refl. reflexivity.
    - intros a Sa. destruct (Only _ _ Sa) as [_ ->]. lia.
    - intros a Sa. destruct (Only _ _ Sa) as [_ ->]. exact Ug.
    - cbn [last DeadPath]. unfold pkey. cbn [snd]. destruct (N.eq_dec (h_num g) 0) as [Z|NZ].
      + right. rewrite Z, sub64_zero. unfold two63, two64. lia.
      + left. rewrite sub64_pred by lia. lia.
  Qed.

  (** * Reachable states, indexed by the history of accepted headers (newest first, the creation
      header last): creation with the installed header's own consensus state, then accepted
      updates with headers of the client's revision number, number below 2^63, a state root no
      stored sibling has, and no different header stored under the same hash.  Refused
      submissions leave the state unchanged (Model/Eth.v: [run]) and need no constructor. *)
  Inductive Reach : list header -> state -> Prop :=
  | reach_init chain trust g : wf_hdr g -> U g -> h_num g = g0 -> Reach [g] (create_client hash chain trust g (cstate_of g))
  | reach_step hist s bt h s' :
      Reach hist s -> U h -> (fix_rev = true \/ h_rev h = r0) -> h_num h < two63 ->
      (fix_root = true \/ fresh_root_b hash s h = true) -> noalias_b hash s h = true ->
      update_client bt s h = Ok s' -> Reach (h :: hist) s'.

  Lemma reach_inv hist s : Reach hist s -> exists L D, Inv s L D.
  Proof.
    induction 1 as [chain trust g W Ug G|hist s bt h s' _ [L [D I]] Uh Hr Hn Fr Na Upd].
    - exists [g], []. apply init_inv; assumption.
    - destruct (update_inv _ _ _ _ _ _ I Uh Hr Hn Fr Na Upd) as [L' [D' [I' _]]]. exists L', D'. exact I'.
  Qed.

  (** the head is the last accepted header *)
  Lemma reach_head hist s : Reach hist s -> exists rest, hist = head s :: rest.
  Proof.
    destruct 1 as [chain trust g W Ug G|hist s bt h s' _ Uh Hr Hn Fr Na Upd].
    - exists []. reflexivity.
    - destruct (update_shape _ _ _ _ Upd) as [_ [_ [s1 [c3 [rm3 [_ [_ ->]]]]]]]. exists hist. reflexivity.
  Qed.

  (** every stored header is the creation header or was accepted before *)
  Lemma prune_idx_sub bt s s1 k a : prune bt s = Ok s1 -> iget k (idx s1) = Some a -> iget k (idx s) = Some a.
  Proof.
    unfold prune. destruct (cfirst (cons s)) as [[k0 c]|]; [|intro E; inversion E; subst; tauto].
    destruct (add64 (c_time c) (trusting s) <? bt); [|intro E; inversion E; subst; tauto].
    destruct (rget _ (rmain s)) as [ik|]; [|discriminate].
    intro E; inversion E; subst; cbn [idx]. apply (idel_sub hash U).
  Qed.

  Lemma reach_stored hist s : Reach hist s -> forall k a, iget k (idx s) = Some a -> In a hist.
  Proof.
    induction 1 as [chain trust g W Ug G|hist s bt h s' _ IH Uh Hr Hn Fr Na Upd]; intros k a E.
    - cbn [create_client idx] in E. unfold iget in E. cbn [mget] in E.
      destruct (hkey_eqb k (hash g, h_num g)); [|discriminate]. inversion E; subst. left; reflexivity.
    - destruct (update_shape _ _ _ _ Upd) as [_ [_ [s1 [c3 [rm3 [P [_ ->]]]]]]]. cbn [idx store_header] in E.
      unfold iset, iget in E. rewrite iget_iset in E.
      destruct (hkey_eqb k (hash h, h_num h)).
      + inversion E; subst. left; reflexivity.
      + right. apply (IH k a). exact (prune_idx_sub _ _ _ _ _ P E).
  Qed.

  (** Every consensus state kept (under the client's revision number) for a height up to the
      head's is (timestamp, height, state root) of the head's stored ancestor at that height. *)
  Lemma inv_main_chain_roots s L D k c :
    Inv s L D -> cget (h_rev (head s), k) (cons s) = Some c -> k <= h_num (head s) ->
    exists a, nth_anc (idx s) (head s) (N.to_nat (h_num (head s) - k)) = Some a /\ h_num a = k /\ c = cstate_of a.
  Proof.
    intros I E Hk. destruct (inv_head_wf _ _ _ _ _ _ _ I) as [Hr [Hx _]]. rewrite Hr in E.
    pose proof (inv_wf _ _ _ _ _ _ _ I) as WF. pose proof (inv_main _ _ _ _ _ _ _ I) as M.
    destruct (inv_cdom _ _ _ _ _ _ _ I _ _ _ E) as [_ Lo].
    destruct (main_at _ _ _ _ _ WF Hx M k) as [a [Ea Na]]; [lia|].
    exists a. rewrite M. split; [exact Ea|]. split; [exact Na|].
    assert (Ia : In a L) by (eapply nth_error_In; exact Ea).
    pose proof (inv_cmain _ _ _ _ _ _ _ I a Ia) as C. rewrite Na in C. congruence.
  Qed.

  Theorem main_chain_roots hist s k c :
    Reach hist s -> cget (h_rev (head s), k) (cons s) = Some c -> k <= h_num (head s) ->
    exists a, nth_anc (idx s) (head s) (N.to_nat (h_num (head s) - k)) = Some a /\ h_num a = k /\ c = cstate_of a.
  Proof. intros R. destruct (reach_inv _ _ R) as [L [D I]]. exact (inv_main_chain_roots _ _ _ _ _ I). Qed.

  (** * Soundness of acceptance *)
  Theorem accept_sound s bt h s' :
    idx_wf (idx s) -> h_num h < two63 -> update_client bt s h = Ok s' ->
    active bt s = true /\
    (exists p, iget (to_hash (h_parent h), h_num h - 1) (idx s) = Some p /\
               hash p = to_hash (h_parent h) /\ h_num h = h_num p + 1 /\
               validate_basic h = true /\
               h_time h <= bt + 15 /\ h_time p < h_time h /\
               (Z.abs (Z.of_N (h_gaslimit p) - Z.of_N (h_gaslimit h)) < Z.of_N (h_gaslimit p / 1024))%Z /\
               5000 <= h_gaslimit h /\
               big (h_basefee h) = expected_base_fee p /\
               (chain_id s <> rinkeby ->
                  Z.of_N (big (h_diff h)) = calc_difficulty (h_time h) p /\ len (h_extra h) <= 32 /\ ethash_ok h = true)) /\
    head s' = h.
  Proof.
    intros WF Hh Upd. destruct (update_shape _ _ _ _ Upd) as [Act [CV [s1 [c3 [rm3 [_ [_ ->]]]]]]].
    split; [exact Act|]. split; [|reflexivity].
    destruct (check_validity_ok _ _ _ WF Hh CV) as [V _].
    destruct (valid_child_parent _ _ _ _ _ V) as [H1 [_ [p [Ep [Hp Ru]]]]].
    exists p. split; [exact Ep|]. split; [exact Hp|].
    destruct (WF _ _ _ Ep) as [_ [Np _]]. split; [lia|].
    unfold rules_b, gaslimit_ok in Ru. rewrite !andb_true_iff, orb_true_iff, !andb_true_iff in Ru.
    destruct Ru as [[[[[VB T1] T2] [G1 G2]] BF] Dd].
    split; [exact VB|]. split; [apply N.leb_le; exact T1|]. split; [apply N.ltb_lt; exact T2|].
    split; [apply Z.ltb_lt; exact G1|]. split; [apply N.leb_le; exact G2|]. split; [apply N.eqb_eq; exact BF|].
    intro NR. destruct Dd as [Rk|[[D1 D2] D3]]; [apply N.eqb_eq in Rk; contradiction|].
    split; [apply Z.eqb_eq; exact D1|]. split; [apply N.leb_le; exact D2 | exact D3].
  Qed.

  (** a refused update changes nothing; an accepted header is the new head *)
  Lemma run_head v s bt h : match update_client_gen hash ethash_ok v bt s h with Ok s' => head s' = h | _ => True end.
  Proof.
    unfold update_client_gen, check_header_gen.
    destruct (active bt s); cbn [negb]; [|exact I].
    destruct (cget _ (cons s)); [|exact I].
    destruct (check_validity_gen hash ethash_ok v bt s h) as [[]| |]; cbn [obind]; try exact I.
    destruct (prune bt s); cbn [obind]; try exact I.
    destruct (if negb (beq (hash (head s)) (h_parent h)) then _ else _); cbn [obind]; try exact I. reflexivity.
  Qed.
End Top.
