(** Proofs about Model/EvmProof.v (C08): exact characterisation of acceptance, oracle footprint,
    soundness against the abstract tries committed by the stored roots, completeness for honest proofs,
    rejection corollaries, the revision-number hole of the height gates, monitor soundness. *)
From Teleport Require Import Base.Bytes Base.Outcome Model.EvmProof Model.EvmProofCheck Proofs.EvmProofRlp.
From Coq Require Import ZifyN ZifyNat.
Local Open Scope N_scope.
Ltac Zify.zify_post_hook ::= Z.div_mod_to_equations.

(** ** Heights *)

Definition h64 (h : height) : Prop := rn h < two64 /\ rh h < two64.

Lemma sub64_no_wrap a b : b <= a -> a < two64 -> sub64 a b = a - b.
Proof. intros H1 H2. unfold sub64, two64 in *. lia. Qed.

Lemma sub64_wrap a b : a < b -> b < two64 -> sub64 a b = two64 - (b - a).
Proof. intros H1 H2. unfold sub64, two64 in *. lia. Qed.

Lemma height_lt_false a b :
  height_lt a b = false <-> (rn b < rn a \/ (rn a = rn b /\ rh b <= rh a)).
Proof.
  unfold height_lt. destruct (rn a =? rn b) eqn:E.
  - apply N.eqb_eq in E. rewrite N.ltb_ge. lia.
  - apply N.eqb_neq in E. rewrite N.ltb_ge. lia.
Qed.

Lemma consensus_key_injective h h' : h64 h -> h64 h' -> consensus_key h = consensus_key h' -> h = h'.
Proof.
  intros [A1 A2] [B1 B2] E. unfold consensus_key in E. apply app_inv_head in E.
  assert (L : forall a b a' b' : bytes, length a = length a' -> a ++ b = a' ++ b' -> a = a' /\ b = b').
  { intros a; induction a as [|x a IH]; intros b [|y a'] b' HL HE; cbn in *; try discriminate.
    - split; [reflexivity | exact HE].
    - inversion HE; subst. destruct (IH b a' b') as [-> ->]; [lia | assumption | split; reflexivity]. }
  apply L in E; [| rewrite !length_be_fixed; reflexivity]. destruct E as [E1 E2].
  apply (f_equal N_of_be) in E1, E2. rewrite !N_of_be_be_fixed in E1, E2.
  change (256 ^ N.of_nat 8) with two64 in E1, E2.
  rewrite !N.mod_small in E1, E2 by assumption.
  destruct h, h'; cbn in *; subst; reflexivity.
Qed.

Section Oracles.
  Variable keccak256 : bytes -> bytes.
  Variable mpt_verify : bytes -> bytes -> list bytes -> option bytes.
  Variable json_proof : bytes -> option proof_rec.

  Notation verify := (EvmProof.verify keccak256 mpt_verify json_proof).
  Notation proof_key := (EvmProof.proof_key keccak256).

  (** ** Exact characterisation of acceptance (at the level of the oracles).
      [g = true]: the code as it is; [g = false]: the code before fix 0ebe7e9 (no revision gate). *)
  Definition accept_spec_gen (g : bool) (cs : client_state) (cstore : bytes -> cons_entry) (h : height) (p : bytes)
             (ack : bool) (src dst : bytes) (seq : N) (c : bytes) : Prop :=
    exists r rootb sp v t,
      height_lt (cs_head cs) h = false /\
      (g = true -> rn h = rn (cs_head cs)) /\
      json_proof p = Some r /\
      cstore (consensus_key h) = ConsRoot rootb /\
      delay_block cs <= sub64 (rh (cs_head cs)) (rh h) /\
      from_hex (p_address r) = cs_contract cs /\
      mpt_verify (bytes_to_hash rootb) (keccak256 (cs_contract cs)) (map from_hex (p_account_proof r))
        = Some (rlp_account (account_of_record r)) /\
      p_storage_proof r = [Some sp] /\
      hex_to_hash (sr_key sp) = proof_key ack src dst seq /\
      mpt_verify (a_storage (account_of_record r)) (keccak256 (proof_key ack src dst seq))
                 (map from_hex (sr_proof sp)) = Some v /\
      rlp_decode_bytes v = Some t /\ left_pad32 t = c.

  Definition accept_spec := accept_spec_gen true.

  Lemma verify_gen_ok_iff g cs cstore oh op ack src dst seq c :
    EvmProof.verify_gen keccak256 mpt_verify json_proof g cs cstore oh op ack src dst seq c = Ok tt <->
    exists h p, oh = Some h /\ op = Some p /\ accept_spec_gen g cs cstore h p ack src dst seq c.
  Proof.
    unfold EvmProof.verify_gen, produce_args_gen. split.
    - destruct oh as [h|]; [|discriminate].
      destruct (height_lt (cs_head cs) h) eqn:G; [discriminate|].
      destruct (g && negb (rn h =? rn (cs_head cs))) eqn:RG; [discriminate|].
      destruct op as [p|]; [|discriminate].
      destruct (json_proof p) as [r|] eqn:J; [|discriminate].
      destruct (cstore (consensus_key h)) as [| |rootb] eqn:S; try discriminate.
      destruct (sub64 (rh (cs_head cs)) (rh h) <? delay_block cs) eqn:D; [discriminate|].
      apply N.ltb_ge in D. unfold verify_merkle.
      destruct (bytes_eqb (from_hex (p_address r)) (cs_contract cs)) eqn:A; cbn [negb]; [|discriminate].
      apply bytes_eqb_eq in A.
      destruct (mpt_verify (bytes_to_hash rootb) (keccak256 (from_hex (p_address r)))
                           (map from_hex (p_account_proof r))) as [av|] eqn:M1; [|discriminate].
      destruct (bytes_eqb (rlp_account (account_of_record r)) av) eqn:AE; cbn [negb]; [|discriminate].
      apply bytes_eqb_eq in AE.
      destruct (p_storage_proof r) as [|[sp|] [|? ?]] eqn:SP; try discriminate.
      destruct (bytes_eqb (hex_to_hash (sr_key sp)) (proof_key ack src dst seq)) eqn:K; cbn [negb]; [|discriminate].
      apply bytes_eqb_eq in K.
      destruct (mpt_verify (a_storage (account_of_record r)) (keccak256 (hex_to_hash (sr_key sp)))
                           (map from_hex (sr_proof sp))) as [v|] eqn:M2; [|discriminate].
      destruct (check_proof_result v c) eqn:C; [|discriminate].
      intros _. apply check_proof_result_spec in C. destruct C as (t & C1 & C2).
      exists h, p. split; [reflexivity|]. split; [reflexivity|].
      exists r, rootb, sp, v, t. rewrite A in M1. rewrite K in M2. subst av.
      assert (RV : g = true -> rn h = rn (cs_head cs)).
      { intro Eg. subst g. cbn [andb] in RG. apply negb_false_iff, N.eqb_eq in RG. exact RG. }
      repeat (split; [assumption|]). assumption.
    - intros (h & p & -> & -> & r & rootb & sp & v & t & G & RV & J & S & D & A & M1 & SP & K & M2 & C1 & C2).
      rewrite G.
      replace (g && negb (rn h =? rn (cs_head cs))) with false.
      2:{ symmetry. destruct g; [|reflexivity]. cbn [andb]. apply negb_false_iff, N.eqb_eq. apply RV. reflexivity. }
      rewrite J, S.
      replace (sub64 (rh (cs_head cs)) (rh h) <? delay_block cs) with false
        by (symmetry; apply N.ltb_ge; exact D).
      unfold verify_merkle. rewrite A, bytes_eqb_refl. cbn [negb]. rewrite M1, bytes_eqb_refl. cbn [negb].
      rewrite SP, K, bytes_eqb_refl. cbn [negb]. rewrite M2.
      replace (check_proof_result v c) with true
        by (symmetry; apply check_proof_result_spec; exists t; split; assumption).
      reflexivity.
  Qed.

  Lemma verify_ok_iff cs cstore oh op ack src dst seq c :
    verify cs cstore oh op ack src dst seq c = Ok tt <->
    exists h p, oh = Some h /\ op = Some p /\ accept_spec cs cstore h p ack src dst seq c.
  Proof. apply verify_gen_ok_iff. Qed.

  Lemma verify_ok_iff_plain cs cstore oh op ack src dst seq c :
    verify cs cstore oh op ack src dst seq c = Ok tt <->
    exists h p, oh = Some h /\ op = Some p /\
      exists r rootb sp v t,
        height_lt (cs_head cs) h = false /\
        rn h = rn (cs_head cs) /\
        json_proof p = Some r /\
        cstore (consensus_key h) = ConsRoot rootb /\
        delay_block cs <= sub64 (rh (cs_head cs)) (rh h) /\
        from_hex (p_address r) = cs_contract cs /\
        mpt_verify (bytes_to_hash rootb) (keccak256 (cs_contract cs)) (map from_hex (p_account_proof r))
          = Some (rlp_account (account_of_record r)) /\
        p_storage_proof r = [Some sp] /\
        hex_to_hash (sr_key sp) = proof_key ack src dst seq /\
        mpt_verify (a_storage (account_of_record r)) (keccak256 (proof_key ack src dst seq))
                   (map from_hex (sr_proof sp)) = Some v /\
        rlp_decode_bytes v = Some t /\ left_pad32 t = c.
  Proof.
    rewrite verify_ok_iff. split.
    - intros (h & p & E1 & E2 & r & rootb & sp & v & t & G & RV & Rest).
      exists h, p. split; [exact E1|]. split; [exact E2|]. exists r, rootb, sp, v, t.
      split; [exact G|]. split; [exact (RV eq_refl) | exact Rest].
    - intros (h & p & E1 & E2 & r & rootb & sp & v & t & G & RV & Rest).
      exists h, p. split; [exact E1|]. split; [exact E2|]. exists r, rootb, sp, v, t.
      split; [exact G|]. split; [intros _; exact RV | exact Rest].
  Qed.

  (** the code before the fix accepted everything the repaired code accepts *)
  Lemma verify_implies_old cs cstore oh op ack src dst seq c :
    verify cs cstore oh op ack src dst seq c = Ok tt ->
    EvmProof.verify_old keccak256 mpt_verify json_proof cs cstore oh op ack src dst seq c = Ok tt.
  Proof.
    intro V. apply verify_ok_iff in V. destruct V as (h & p & E1 & E2 & A).
    apply verify_gen_ok_iff. exists h, p. split; [exact E1|]. split; [exact E2|].
    destruct A as (r & rootb & sp & v & t & G & RV & Rest). exists r, rootb, sp, v, t.
    split; [exact G|]. split; [discriminate | exact Rest].
  Qed.

  (** Acceptance of the OLD code never depended on the head beyond the two gates. *)
  Lemma accept_old_change_head cs cs' cstore h p ack src dst seq c :
    accept_spec_gen false cs cstore h p ack src dst seq c ->
    cs_contract cs' = cs_contract cs ->
    height_lt (cs_head cs') h = false ->
    delay_block cs' <= sub64 (rh (cs_head cs')) (rh h) ->
    accept_spec_gen false cs' cstore h p ack src dst seq c.
  Proof.
    intros (r & rootb & sp & v & t & G & RV & J & S & D & A & M1 & SP & K & M2 & C1 & C2) EC G' D'.
    exists r, rootb, sp, v, t. rewrite EC. split; [assumption|]. split; [discriminate|].
    repeat (split; [assumption|]). assumption.
  Qed.

  (** ** Completeness: an honest proof of a present slot is accepted *)
  Lemma complete cs cstore h p r ack src dst seq c rootb sp :
    height_lt (cs_head cs) h = false ->
    rn h = rn (cs_head cs) ->
    delay_block cs <= sub64 (rh (cs_head cs)) (rh h) ->
    json_proof p = Some r ->
    cstore (consensus_key h) = ConsRoot rootb ->
    from_hex (p_address r) = cs_contract cs ->
    mpt_verify (bytes_to_hash rootb) (keccak256 (cs_contract cs)) (map from_hex (p_account_proof r))
      = Some (rlp_account (account_of_record r)) ->
    p_storage_proof r = [Some sp] ->
    hex_to_hash (sr_key sp) = proof_key ack src dst seq ->
    mpt_verify (a_storage (account_of_record r)) (keccak256 (proof_key ack src dst seq))
               (map from_hex (sr_proof sp)) = Some (rlp_string (strip_zeros c)) ->
    length c = 32%nat ->
    verify cs cstore (Some h) (Some p) ack src dst seq c = Ok tt.
  Proof.
    intros G RV D J S A M1 SP K M2 L. apply verify_ok_iff. exists h, p. split; [reflexivity|]. split; [reflexivity|].
    exists r, rootb, sp, (rlp_string (strip_zeros c)), (strip_zeros c).
    split; [assumption|]. split; [intros _; exact RV|].
    repeat (split; [assumption|]). split.
    - apply rlp_decode_encode. pose proof (strip_zeros_length c). unfold two64. lia.
    - unfold left_pad32. rewrite <- L. apply strip_zeros_pad.
  Qed.

  (** The honest rendering of a proof: "0x"-prefixed lower-case hex of every component. *)
  Definition honest_record (addr : bytes) (a : account) (slot : bytes) (acct_nodes st_nodes : list bytes) (value : bytes)
    : proof_rec :=
    {| p_address := hex0x addr;
       p_balance := hex0x (be_min (a_balance a));
       p_code_hash := hex0x (a_code a);
       p_nonce := hex0x (be_min (a_nonce a));
       p_storage_hash := hex0x (a_storage a);
       p_account_proof := map hex0x acct_nodes;
       p_storage_proof := [Some {| sr_key := hex0x slot; sr_value := value; sr_proof := map hex0x st_nodes |}] |}.

  Lemma map_from_hex_hex0x l : map from_hex (map hex0x l) = l.
  Proof. induction l as [|x l IH]; cbn; [reflexivity | rewrite from_hex_hex0x, IH; reflexivity]. Qed.

  Lemma bytes_to_hash_be_min n : n < 2 ^ 256 -> N_of_be (bytes_to_hash (be_min n)) = n.
  Proof.
    intro H. pose proof (length_be_min n) as L. unfold bytes_to_hash.
    replace (32 <? length (be_min n))%nat with false by (symmetry; apply Nat.ltb_ge; lia).
    unfold N_of_be. rewrite rev_app_distr, N_of_le_app.
    assert (Z : forall k, N_of_le (rev (zeros k)) = 0).
    { intro k. induction k as [|k IH]; [reflexivity|]. cbn [zeros repeat rev]. fold (zeros k).
      rewrite N_of_le_app, IH. cbn. lia. }
    rewrite Z. fold (N_of_be (be_min n)). rewrite be_min_roundtrip by exact H. lia.
  Qed.

  Lemma account_of_honest_record addr a slot an sn value :
    a_nonce a < 2 ^ 256 -> a_balance a < 2 ^ 256 ->
    length (a_storage a) = 32%nat -> length (a_code a) = 32%nat ->
    account_of_record (honest_record addr a slot an sn value) = a.
  Proof.
    intros Hn Hb Hs Hc. unfold account_of_record, honest_record, hex_to_hash. cbn [p_nonce p_balance p_storage_hash p_code_hash].
    rewrite !from_hex_hex0x, !bytes_to_hash_be_min by assumption.
    rewrite !bytes_to_hash_32 by assumption. destruct a; reflexivity.
  Qed.

  (** ** Oracle footprint: [verify] depends on the oracles only through [queries] *)
  Section Footprint.
    Variable keccak2 : bytes -> bytes.
    Variable mpt2 : bytes -> bytes -> list bytes -> option bytes.
    Variable json2 : bytes -> option proof_rec.

    Definition agree (q : query) : Prop :=
      match q with
      | QKeccak x => keccak256 x = keccak2 x
      | QMpt r k ns => mpt_verify r k ns = mpt2 r k ns
      | QJson p => json_proof p = json2 p
      end.

    Lemma merkle_footprint r root contract c pkey :
      (forall q, In q (merkle_queries keccak256 mpt_verify r root contract pkey) -> agree q) ->
      verify_merkle keccak256 mpt_verify r root contract c pkey = verify_merkle keccak2 mpt2 r root contract c pkey.
    Proof.
      unfold merkle_queries, verify_merkle.
      destruct (bytes_eqb (from_hex (p_address r)) contract); cbn [negb]; [|reflexivity].
      intro H.
      assert (HK : keccak256 (from_hex (p_address r)) = keccak2 (from_hex (p_address r))).
      { apply (H (QKeccak _)). apply in_or_app. left. left. reflexivity. }
      assert (HM : mpt_verify (bytes_to_hash root) (keccak256 (from_hex (p_address r))) (map from_hex (p_account_proof r))
                   = mpt2 (bytes_to_hash root) (keccak256 (from_hex (p_address r))) (map from_hex (p_account_proof r))).
      { apply (H (QMpt _ _ _)). apply in_or_app. left. right. left. reflexivity. }
      rewrite <- HK, <- HM.
      destruct (mpt_verify (bytes_to_hash root) (keccak256 (from_hex (p_address r))) (map from_hex (p_account_proof r)))
        as [av|]; [|reflexivity].
      destruct (bytes_eqb (rlp_account (account_of_record r)) av); cbn [negb]; [|reflexivity].
      destruct (p_storage_proof r) as [|[sp|] [|? ?]]; try reflexivity.
      destruct (bytes_eqb (hex_to_hash (sr_key sp)) pkey); cbn [negb]; [|reflexivity].
      assert (HK2 : keccak256 (hex_to_hash (sr_key sp)) = keccak2 (hex_to_hash (sr_key sp))).
      { apply (H (QKeccak _)). apply in_or_app. right. left. reflexivity. }
      assert (HM2 : mpt_verify (a_storage (account_of_record r)) (keccak256 (hex_to_hash (sr_key sp))) (map from_hex (sr_proof sp))
                    = mpt2 (a_storage (account_of_record r)) (keccak256 (hex_to_hash (sr_key sp))) (map from_hex (sr_proof sp))).
      { apply (H (QMpt _ _ _)). apply in_or_app. right. right. left. reflexivity. }
      rewrite <- HK2, <- HM2. reflexivity.
    Qed.

    Lemma verify_footprint cs cstore oh op ack src dst seq c :
      (forall q, In q (queries keccak256 mpt_verify json_proof cs cstore oh op ack src dst seq) -> agree q) ->
      verify cs cstore oh op ack src dst seq c = EvmProof.verify keccak2 mpt2 json2 cs cstore oh op ack src dst seq c.
    Proof.
      unfold EvmProof.verify, EvmProof.verify_gen, produce_args_gen, queries.
      destruct oh as [h|]; [|reflexivity].
      destruct (height_lt (cs_head cs) h); [reflexivity|].
      cbn [andb]. destruct (negb (rn h =? rn (cs_head cs))); [reflexivity|].
      destruct op as [p|]; [|reflexivity].
      intro H.
      assert (HJ : json_proof p = json2 p) by (apply (H (QJson p)); left; reflexivity).
      rewrite <- HJ.
      destruct (json_proof p) as [r|]; [|reflexivity].
      destruct (cstore (consensus_key h)) as [| |rootb]; try reflexivity.
      destruct (sub64 (rh (cs_head cs)) (rh h) <? delay_block cs); [reflexivity|].
      assert (HK : keccak256 (packet_path ack src dst seq ++ pad32_208) = keccak2 (packet_path ack src dst seq ++ pad32_208)).
      { apply (H (QKeccak _)). right. left. reflexivity. }
      unfold EvmProof.proof_key. rewrite <- HK.
      apply merkle_footprint. intros q Hq. apply H. right. right. exact Hq.
    Qed.
  End Footprint.

  (** ** Soundness against the abstract tries committed by the roots *)
  Section Abstract.
    (** [commits root m]: [root] is the Merkle-Patricia root hash of the finite map [m]
        (key -> non-empty value).  How a hash commits to a map is not modelled: the only assumption is
        [mpt_sound], i.e. what [trie.VerifyProof] returns for [(root, key)] is the content of every map
        [root] commits to (an absent key is reported as the empty value). *)
    Variable commits : bytes -> (bytes -> option bytes) -> Prop.

    Definition lookup_result (v : bytes) : option bytes := match v with [] => None | _ => Some v end.

    Hypothesis mpt_sound : forall root key nodes v m,
      mpt_verify root key nodes = Some v -> commits root m -> m key = lookup_result v.

    Lemma rlp_account_nonempty a : rlp_account a <> [].
    Proof.
      unfold rlp_account, rlp_list, rlp_header.
      destruct (N.of_nat (length (concat _)) <=? 55); discriminate.
    Qed.

    Lemma lookup_result_some v : v <> [] -> lookup_result v = Some v.
    Proof. destruct v; [contradiction | reflexivity]. Qed.

    (** What acceptance proves about the committed world. *)
    Definition proves (cs : client_state) (cstore : bytes -> cons_entry) (h : height)
               (ack : bool) (src dst : bytes) (seq : N) (c : bytes) : Prop :=
      exists rootb acct,
        cstore (consensus_key h) = ConsRoot rootb /\
        account_wf acct /\ length (a_storage acct) = 32%nat /\ length (a_code acct) = 32%nat /\
        (forall world, commits (bytes_to_hash rootb) world ->
                       world (keccak256 (cs_contract cs)) = Some (rlp_account acct)) /\
        (forall st, commits (a_storage acct) st ->
                    exists raw t, st (keccak256 (proof_key ack src dst seq)) = Some raw /\
                                  rlp_decode_bytes raw = Some t /\ left_pad32 t = c).

    Lemma account_of_record_wf r :
      account_wf (account_of_record r) /\
      length (a_storage (account_of_record r)) = 32%nat /\ length (a_code (account_of_record r)) = 32%nat.
    Proof.
      unfold account_wf, account_of_record, hex_to_hash; cbn [a_nonce a_balance a_storage a_code].
      rewrite !length_bytes_to_hash. repeat split; try apply N_of_be_hash_bound; unfold two64; lia.
    Qed.

    Lemma accept_proves cs cstore h p ack src dst seq c :
      accept_spec cs cstore h p ack src dst seq c -> proves cs cstore h ack src dst seq c.
    Proof.
      intros (r & rootb & sp & v & t & G & RV & J & S & D & A & M1 & SP & K & M2 & C1 & C2).
      destruct (account_of_record_wf r) as (W & L1 & L2).
      exists rootb, (account_of_record r). repeat (split; [assumption|]). split.
      - intros world HW. rewrite (mpt_sound _ _ _ _ _ M1 HW). apply lookup_result_some, rlp_account_nonempty.
      - intros st HS. exists v, t. split; [|split; assumption].
        rewrite (mpt_sound _ _ _ _ _ M2 HS). apply lookup_result_some.
        intro E; subst v. discriminate.
    Qed.

    (** Gates: what the code checks ... *)
    Definition gates (cs : client_state) (h : height) : Prop :=
      rn h = rn (cs_head cs) /\ rh h <= rh (cs_head cs) /\
      delay_block cs <= sub64 (rh (cs_head cs)) (rh h).

    (** ... and what that means numerically for a uint64 head: the subtraction cannot wrap *)
    Lemma gates_numeric cs h :
      h64 (cs_head cs) -> gates cs h ->
      rn h = rn (cs_head cs) /\ rh h <= rh (cs_head cs) /\ delay_block cs <= rh (cs_head cs) - rh h.
    Proof.
      intros [_ HH] (R & G & D). split; [exact R|]. split; [exact G|].
      rewrite sub64_no_wrap in D by assumption. exact D.
    Qed.

    Theorem sound cs cstore oh op ack src dst seq c :
      verify cs cstore oh op ack src dst seq c = Ok tt ->
      exists h p, oh = Some h /\ op = Some p /\ gates cs h /\ proves cs cstore h ack src dst seq c.
    Proof.
      intro V. apply verify_ok_iff in V. destruct V as (h & p & -> & -> & A).
      exists h, p. split; [reflexivity|]. split; [reflexivity|]. split.
      - destruct A as (r & rootb & sp & v & t & G & RV & J & S & D & _).
        specialize (RV eq_refl). split; [exact RV|]. split; [|exact D].
        apply height_lt_false in G. destruct G as [G|[G1 G2]]; [lia | exact G2].
      - eapply accept_proves; eauto.
    Qed.

    (** *** Rejection corollaries.  [world] / [st] are the real tries committed by the stored root and by
        the contract's storage root. *)

    (** Whatever proof is accepted (any node lists, any spelling, any mutation), the value it
        establishes is the one value the committed tries hold: two accepted proofs for the same client
        state, store, height and path carry the same 32-byte value. *)
    Lemma proves_unique cs cstore h ack src dst seq c1 c2 world :
      proves cs cstore h ack src dst seq c1 -> proves cs cstore h ack src dst seq c2 ->
      (forall rootb, cstore (consensus_key h) = ConsRoot rootb -> commits (bytes_to_hash rootb) world) ->
      (forall acct, world (keccak256 (cs_contract cs)) = Some (rlp_account acct) -> exists st, commits (a_storage acct) st) ->
      c1 = c2.
    Proof.
      intros (rb1 & a1 & S1 & W1 & LS1 & LC1 & HW1 & HS1) (rb2 & a2 & S2 & W2 & LS2 & LC2 & HW2 & HS2) CW CS.
      rewrite S1 in S2. inversion S2; subst rb2.
      pose proof (HW1 world (CW _ S1)) as E1. pose proof (HW2 world (CW _ S1)) as E2.
      rewrite E1 in E2. inversion E2 as [E].
      apply rlp_account_injective in E; try assumption; try lia. subst a2.
      destruct (CS a1 E1) as (st & HST).
      destruct (HS1 st HST) as (raw1 & t1 & R1 & D1 & P1).
      destruct (HS2 st HST) as (raw2 & t2 & R2 & D2 & P2).
      rewrite R1 in R2. inversion R2; subst raw2. rewrite D1 in D2. inversion D2; subst t2.
      rewrite <- P1, <- P2. reflexivity.
    Qed.

    (** another value / absent key: the committed storage of the committed account decides *)
    Lemma wrong_value_rejected cs cstore h ack src dst seq c rootb world acct st :
      proves cs cstore h ack src dst seq c ->
      cstore (consensus_key h) = ConsRoot rootb -> commits (bytes_to_hash rootb) world ->
      world (keccak256 (cs_contract cs)) = Some (rlp_account acct) ->
      account_wf acct -> length (a_storage acct) = 32%nat -> length (a_code acct) = 32%nat ->
      commits (a_storage acct) st ->
      match st (keccak256 (proof_key ack src dst seq)) with
      | None => False
      | Some raw => exists t, rlp_decode_bytes raw = Some t /\ left_pad32 t = c
      end.
    Proof.
      intros (rb & a & S & W & LS & LC & HW & HS) S' CW EW W' LS' LC' CST.
      rewrite S in S'. inversion S'; subst rb.
      pose proof (HW world CW) as E. rewrite EW in E. inversion E as [E'].
      apply rlp_account_injective in E'; try assumption; try lia. subst a.
      destruct (HS st CST) as (raw & t & R & D & P). rewrite R. exists t. split; assumption.
    Qed.

    (** no account at the configured contract address in the committed world *)
    Lemma no_account_rejected cs cstore h ack src dst seq c rootb world :
      proves cs cstore h ack src dst seq c ->
      cstore (consensus_key h) = ConsRoot rootb -> commits (bytes_to_hash rootb) world ->
      world (keccak256 (cs_contract cs)) <> None.
    Proof.
      intros (rb & a & S & W & LS & LC & HW & HS) S' CW. rewrite S in S'. inversion S'; subst rb.
      rewrite (HW world CW). discriminate.
    Qed.

    Lemma accepted_value_unique cs cstore h p1 p2 ack src dst seq c1 c2 world :
      verify cs cstore (Some h) (Some p1) ack src dst seq c1 = Ok tt ->
      verify cs cstore (Some h) (Some p2) ack src dst seq c2 = Ok tt ->
      (forall rootb, cstore (consensus_key h) = ConsRoot rootb -> commits (bytes_to_hash rootb) world) ->
      (forall acct, world (keccak256 (cs_contract cs)) = Some (rlp_account acct) -> exists st, commits (a_storage acct) st) ->
      c1 = c2.
    Proof.
      intros V1 V2 CW CS.
      apply sound in V1. destruct V1 as (h1 & q1 & E1 & _ & _ & P1). inversion E1; subst h1.
      apply sound in V2. destruct V2 as (h2 & q2 & E2 & _ & _ & P2). inversion E2; subst h2.
      eapply proves_unique; eauto.
    Qed.

    Lemma false_claim_rejected cs cstore h p ack src dst seq c rootb world acct st :
      cstore (consensus_key h) = ConsRoot rootb -> commits (bytes_to_hash rootb) world ->
      world (keccak256 (cs_contract cs)) = Some (rlp_account acct) ->
      account_wf acct -> length (a_storage acct) = 32%nat -> length (a_code acct) = 32%nat ->
      commits (a_storage acct) st ->
      match st (keccak256 (proof_key ack src dst seq)) with
      | None => True
      | Some raw => forall t, rlp_decode_bytes raw = Some t -> left_pad32 t <> c
      end ->
      verify cs cstore (Some h) (Some p) ack src dst seq c <> Ok tt.
    Proof.
      intros S CW EW W LS LC CST NV V.
      apply sound in V. destruct V as (h1 & q1 & E1 & _ & _ & P1). inversion E1; subst h1.
      pose proof (wrong_value_rejected _ _ _ _ _ _ _ _ _ _ _ _ P1 S CW EW W LS LC CST) as X.
      destruct (st (keccak256 (proof_key ack src dst seq))) as [raw|]; [|exact X].
      destruct X as (t & D & PD). exact (NV t D PD).
    Qed.

    Lemma missing_account_rejected cs cstore h p ack src dst seq c rootb world :
      cstore (consensus_key h) = ConsRoot rootb -> commits (bytes_to_hash rootb) world ->
      world (keccak256 (cs_contract cs)) = None ->
      verify cs cstore (Some h) (Some p) ack src dst seq c <> Ok tt.
    Proof.
      intros S CW EW V.
      apply sound in V. destruct V as (h1 & q1 & E1 & _ & _ & P1). inversion E1; subst h1.
      exact (no_account_rejected _ _ _ _ _ _ _ _ _ _ P1 S CW EW).
    Qed.
  End Abstract.

  (** *** Rejections that need no assumption on the tries *)
  Lemma reject_other_contract cs cstore h p r ack src dst seq c :
    json_proof p = Some r -> from_hex (p_address r) <> cs_contract cs ->
    verify cs cstore (Some h) (Some p) ack src dst seq c <> Ok tt.
  Proof.
    intros J NA V. apply verify_ok_iff in V. destruct V as (h0 & p0 & E1 & E2 & r0 & rootb & sp & v & t & _ & _ & J0 & _ & _ & A & _).
    inversion E2; subst p0. rewrite J in J0. inversion J0; subst r0. contradiction.
  Qed.

  Lemma reject_other_slot cs cstore h p r sp ack src dst seq c :
    json_proof p = Some r -> p_storage_proof r = [Some sp] -> hex_to_hash (sr_key sp) <> proof_key ack src dst seq ->
    verify cs cstore (Some h) (Some p) ack src dst seq c <> Ok tt.
  Proof.
    intros J SP NK V. apply verify_ok_iff in V.
    destruct V as (h0 & p0 & E1 & E2 & r0 & rootb & sp0 & v & t & _ & _ & J0 & _ & _ & _ & _ & SP0 & K & _).
    inversion E2; subst p0. rewrite J in J0. inversion J0; subst r0. rewrite SP in SP0. inversion SP0; subst sp0. contradiction.
  Qed.

  Lemma reject_storage_proof_count cs cstore h p r ack src dst seq c :
    json_proof p = Some r -> length (p_storage_proof r) <> 1%nat ->
    verify cs cstore (Some h) (Some p) ack src dst seq c <> Ok tt.
  Proof.
    intros J NL V. apply verify_ok_iff in V.
    destruct V as (h0 & p0 & E1 & E2 & r0 & rootb & sp0 & v & t & _ & _ & J0 & _ & _ & _ & _ & SP0 & _).
    inversion E2; subst p0. rewrite J in J0. inversion J0; subst r0. rewrite SP0 in NL. apply NL. reflexivity.
  Qed.

  Lemma reject_no_consensus_state cs cstore h p ack src dst seq c :
    (forall root, cstore (consensus_key h) <> ConsRoot root) ->
    verify cs cstore (Some h) (Some p) ack src dst seq c <> Ok tt.
  Proof.
    intros NS V. apply verify_ok_iff in V.
    destruct V as (h0 & p0 & E1 & E2 & r0 & rootb & sp0 & v & t & _ & _ & _ & S & _).
    inversion E1; subst h0. exact (NS rootb S).
  Qed.

  Lemma reject_above_head cs cstore h p ack src dst seq c :
    rh (cs_head cs) < rh h ->
    verify cs cstore (Some h) (Some p) ack src dst seq c <> Ok tt.
  Proof.
    intros H V. apply verify_ok_iff in V.
    destruct V as (h0 & p0 & E1 & E2 & r0 & rootb & sp0 & v & t & G & RV & _).
    inversion E1; subst h0. specialize (RV eq_refl).
    apply height_lt_false in G. destruct G as [G|[G1 G2]]; lia.
  Qed.

  Lemma reject_other_revision cs cstore h p ack src dst seq c :
    rn h <> rn (cs_head cs) ->
    verify cs cstore (Some h) (Some p) ack src dst seq c <> Ok tt.
  Proof.
    intros H V. apply verify_ok_iff in V.
    destruct V as (h0 & p0 & E1 & E2 & r0 & rootb & sp0 & v & t & G & RV & _).
    inversion E1; subst h0. exact (H (RV eq_refl)).
  Qed.

  Lemma reject_unconfirmed cs cstore h p ack src dst seq c :
    h64 (cs_head cs) -> rh h <= rh (cs_head cs) -> rh (cs_head cs) - rh h < delay_block cs ->
    verify cs cstore (Some h) (Some p) ack src dst seq c <> Ok tt.
  Proof.
    intros [_ HH] LE D V. apply verify_ok_iff in V.
    destruct V as (h0 & p0 & E1 & E2 & r0 & rootb & sp0 & v & t & _ & _ & _ & _ & D0 & _).
    inversion E1; subst h0. rewrite sub64_no_wrap in D0 by assumption. lia.
  Qed.

  Lemma reject_undecodable cs cstore oh op ack src dst seq c :
    (forall p, op = Some p -> json_proof p = None) ->
    verify cs cstore oh op ack src dst seq c <> Ok tt.
  Proof.
    intros NJ V. apply verify_ok_iff in V.
    destruct V as (h0 & p0 & E1 & E2 & r0 & rootb & sp0 & v & t & _ & _ & J & _).
    rewrite (NJ p0 E2) in J. discriminate.
  Qed.

  (** an honest rendering of an honest proof is accepted *)
  Lemma honest_accepted cs cstore h p ack src dst seq c rootb a acct_nodes st_nodes value :
    rn h = rn (cs_head cs) -> rh h <= rh (cs_head cs) -> h64 (cs_head cs) ->
    delay_block cs <= rh (cs_head cs) - rh h ->
    json_proof p = Some (honest_record (cs_contract cs) a (proof_key ack src dst seq) acct_nodes st_nodes value) ->
    cstore (consensus_key h) = ConsRoot rootb ->
    a_nonce a < 2 ^ 256 -> a_balance a < 2 ^ 256 -> length (a_storage a) = 32%nat -> length (a_code a) = 32%nat ->
    length (proof_key ack src dst seq) = 32%nat ->
    mpt_verify (bytes_to_hash rootb) (keccak256 (cs_contract cs)) acct_nodes = Some (rlp_account a) ->
    mpt_verify (a_storage a) (keccak256 (proof_key ack src dst seq)) st_nodes = Some (rlp_string (strip_zeros c)) ->
    length c = 32%nat ->
    verify cs cstore (Some h) (Some p) ack src dst seq c = Ok tt.
  Proof.
    intros ER LE [_ HH] D J S Hn Hb Hs Hc Hk M1 M2 L.
    pose proof (account_of_honest_record (cs_contract cs) a (proof_key ack src dst seq) acct_nodes st_nodes value Hn Hb Hs Hc) as EA.
    eapply complete with (rootb := rootb); try eassumption.
    - apply height_lt_false. right. split; [symmetry; exact ER | exact LE].
    - rewrite sub64_no_wrap by assumption. exact D.
    - cbn [honest_record p_address]. apply from_hex_hex0x.
    - rewrite EA. cbn [honest_record p_account_proof]. rewrite map_from_hex_hex0x. exact M1.
    - reflexivity.
    - cbn [sr_key]. unfold hex_to_hash. rewrite from_hex_hex0x. apply bytes_to_hash_32. exact Hk.
    - rewrite EA. cbn [sr_proof]. rewrite map_from_hex_hex0x. exact M2.
  Qed.

  (** ** The revision-number hole of the code before fix 0ebe7e9: both gates could be passed by a proof
      height ABOVE the head *)
  Lemma gate_bypass_old cs cstore h p ack src dst seq c head' :
    EvmProof.verify_old keccak256 mpt_verify json_proof cs cstore (Some h) (Some p) ack src dst seq c = Ok tt ->
    rn h < rn head' ->
    delay_block cs <= sub64 (rh head') (rh h) ->
    EvmProof.verify_old keccak256 mpt_verify json_proof
           {| cs_kind := cs_kind cs; cs_head := head'; cs_contract := cs_contract cs;
              cs_block_delay := cs_block_delay cs; cs_nvalidators := cs_nvalidators cs |}
           cstore (Some h) (Some p) ack src dst seq c = Ok tt.
  Proof.
    intros V R D. apply verify_gen_ok_iff in V. destruct V as (h0 & p0 & E1 & E2 & A). inversion E1; inversion E2; subst h0 p0.
    apply verify_gen_ok_iff. exists h, p. split; [reflexivity|]. split; [reflexivity|].
    eapply accept_old_change_head; [exact A | reflexivity | | exact D].
    cbn [cs_head]. apply height_lt_false. left. exact R.
  Qed.

  (** ** Monitor soundness: on a case whose ground truth is what the committed tries hold, the
      executable monitor of Model/EvmProofCheck.v has nothing to report when the model accepts. *)
  Lemma left_pad32_hash t c : left_pad32 t = c -> length c = 32%nat -> bytes_to_hash t = c.
  Proof.
    intros P L. assert (LT : (length t <= 32)%nat).
    { rewrite <- P in L. unfold left_pad32 in L. rewrite app_length, length_zeros in L. lia. }
    unfold bytes_to_hash. replace (32 <? length t)%nat with false by (symmetry; apply Nat.ltb_ge; lia).
    exact P.
  Qed.

  Section Monitor.
    Variable commits : bytes -> (bytes -> option bytes) -> Prop.
    Hypothesis mpt_sound : forall root key nodes v m,
      mpt_verify root key nodes = Some v -> commits root m -> m key = lookup_result v.

    (** the ground-truth word of a case is what geth reads in the committed storage of the committed
        account ([rlp.Split] then [Hash.SetBytes]) *)
    Definition gt_consistent (c : ecase) (k : client_kind) (h : height) : Prop :=
      forall rootb, cstore_of c (consensus_key h) = ConsRoot rootb ->
        exists world, commits (bytes_to_hash rootb) world /\
          forall acct, world (keccak256 (c_contract c)) = Some (rlp_account acct) ->
            exists st, commits (a_storage acct) st /\
              forall raw t, st (keccak256 (proof_key (c_ack c) (c_src c) (c_dst c) (c_seq c))) = Some raw ->
                            rlp_decode_bytes raw = Some t -> c_gt_word c = Some (bytes_to_hash t).

    Lemma monitor_sound (c : ecase) (k : client_kind) h :
      c_height c = Some h -> h64 (c_head c) ->
      (forall p, c_proof c = Some p -> json_proof p = c_json c) ->
      gt_consistent c k h ->
      verify (cs_of c k) (cstore_of c) (c_height c) (c_proof c) (c_ack c) (c_src c) (c_dst c) (c_seq c) (c_commitment c) = Ok tt ->
      mon_copy c (delay_block (cs_of c k)) 0 = [].
    Proof.
      intros EH HH HJ GT V. unfold mon_copy. cbn [Nat.eqb]. unfold accept_ok.
      assert (OS : one_storage_proof c = true).
      { apply verify_ok_iff in V. destruct V as (h1 & p1 & _ & EP & r & rootb & sp & v & t & _ & _ & J & _ & _ & _ & _ & SP & _).
        unfold one_storage_proof. rewrite <- (HJ p1 EP), J, SP. reflexivity. }
      rewrite OS.
      apply (sound commits mpt_sound) in V. destruct V as (h0 & p & E1 & E2 & G & P).
      rewrite EH in E1. inversion E1; subst h0.
      destruct (gates_numeric (cs_of c k) h HH G) as (_ & N2 & N3). cbn [cs_of cs_head] in N2, N3.
      unfold numeric_ok. rewrite EH.
      replace (rh h <=? rh (c_head c)) with true by (symmetry; apply N.leb_le; exact N2).
      replace (delay_block (cs_of c k) <=? rh (c_head c) - rh h) with true by (symmetry; apply N.leb_le; exact N3).
      cbn [andb app].
      rewrite app_nil_r.
      destruct (Nat.eqb (length (c_commitment c)) 32) eqn:L; [|reflexivity]. apply Nat.eqb_eq in L.
      destruct P as (rootb & acct & S & W & LS & LC & HW & HS).
      destruct (GT rootb S) as (world & CW & GA).
      destruct (GA acct (HW world CW)) as (st & CST & GW).
      destruct (HS st CST) as (raw & t & R & D & PD).
      unfold gt_holds. rewrite (GW raw t R D), (left_pad32_hash t _ PD L), bytes_eqb_refl. reflexivity.
    Qed.
  End Monitor.
End Oracles.
