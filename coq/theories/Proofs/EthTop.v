(** Final form of the results about the Ethereum client model, as restated by Props/C10.v:
    the hypotheses on the hash oracle as a decidable check on a finite universe of headers,
    absence of panics, the theorems over all reachable states (= all histories), and the
    soundness of the executable monitors of Model/EthCheck.v with respect to the model. *)
From Coq Require Import Lia ZArith NArith List.
From Teleport Require Import Base.Bytes Base.Outcome Model.Eth Model.EthCheck Proofs.EthBase Proofs.EthValid Proofs.EthChain
  Proofs.EthInv Proofs.EthStep Proofs.Eth Proofs.EthWedge.
Local Open Scope N_scope.

(** * The update never panics (whatever the state and the header) *)
Section NoPanic.
  Variable hash : header -> bytes.
  Variable ethash_ok : header -> bool.

  Lemma verify_gaslimit_parent pg hg : verify_gaslimit pg hg = true -> 1024 <= pg.
  Proof.
    unfold verify_gaslimit. intro H.
    destruct (N.le_gt_cases 1024 pg) as [L|L]; [exact L|]. exfalso.
    rewrite (N.div_small pg 1024 L) in H. rewrite (proj2 (N.leb_le 0 _) (N.le_0_l _)) in H. discriminate.
  Qed.

  Lemma walk1_no_panic ix : forall fuel new ti si acc, walk1 hash fuel ix new ti si acc <> Panic.
  Proof.
    induction fuel as [|f IH]; intros new ti si acc; cbn; destruct (si <? ti); try discriminate.
    destruct (parent_of ix new); [apply IH | discriminate].
  Qed.

  Lemma walk2_no_panic ix : forall fuel cur new ti acc, walk2 hash fuel ix cur new ti acc <> Panic.
  Proof.
    induction fuel as [|f IH]; intros cur new ti acc; cbn; destruct (beq (h_parent cur) (h_parent new)); try discriminate.
    destruct (parent_of ix new); [|discriminate]. destruct (parent_of ix cur); [apply IH | discriminate].
  Qed.

  Lemma repoint_no_panic fr ix rev : forall hs ti c rm, repoint fr ix rev ti hs c rm <> Panic.
  Proof.
    induction hs as [|x hs IH]; intros ti c rm; cbn; [discriminate|].
    destruct (iget (x, ti) ix); [apply IH | discriminate].
  Qed.

  Lemma walk0_no_panic ix : forall fuel cur si ti, walk0 fuel ix cur si ti <> Panic.
  Proof.
    induction fuel as [|f IH]; intros cur si ti; cbn; destruct (ti <? si); try discriminate.
    destruct (parent_of ix cur); [apply IH | discriminate].
  Qed.

  Lemma restrict_no_panic fixed fr s old new : restrict_chain_gen hash fixed fr s old new <> Panic.
  Proof.
    unfold restrict_chain_gen.
    destruct (if h_num new <? h_num old then _ else _) as [cs| |] eqn:E; cbn [obind]; try discriminate.
    - destruct (walk1 hash _ (idx s) new (h_num new) (snd cs) []) as [[[new1 ti1] acc1]| |] eqn:W1; cbn [obind]; try discriminate.
      + destruct (walk2 hash _ (idx s) (fst cs) new1 ti1 acc1) as [[[new2 ti2] acc2]| |] eqn:W2; cbn [obind]; try discriminate.
        * apply repoint_no_panic.
        * exfalso. exact (walk2_no_panic _ _ _ _ _ _ W2).
      + exfalso. exact (walk1_no_panic _ _ _ _ _ _ W1).
    - exfalso. destruct (h_num new <? h_num old); [|discriminate]. destruct fr.
      + pose proof (walk0_no_panic (idx s) (S (length (idx s))) old (h_num old) (h_num new)) as W.
        destruct (walk0 _ (idx s) old (h_num old) (h_num new)); cbn [obind] in E; try discriminate. congruence.
      + destruct (cget _ (cons s)); [|discriminate]. destruct (rget _ (rmain s)); [|discriminate].
        destruct (iget _ (idx s)); discriminate.
  Qed.

  Lemma check_validity_no_panic v bt s h : check_validity_gen hash ethash_ok v bt s h <> Panic.
  Proof.
    unfold check_validity_gen. destruct (validate_basic h); cbn [negb]; [|discriminate].
    destruct (rev_ok v s h); cbn [negb]; [|discriminate].
    assert (VH : verify_header hash bt s h <> Panic); [|destruct (verify_header hash bt s h) as [[]| |]; cbn [obind]; try discriminate; try congruence;
      destruct (exp_ok v bt s h); cbn [negb]; [|discriminate]; destruct (chain_id s =? rinkeby); [discriminate|];
      destruct (32 <? len (h_extra h)); [discriminate|]; destruct (ethash_ok h); discriminate].
    unfold verify_header. destruct (parent_of (idx s) h) as [p|]; cbn [obind]; [|discriminate].
    destruct (beq (hash p) (to_hash (h_parent h))); cbn [negb obind]; [|discriminate].
    destruct (bt + 15 <? h_time h); cbn [obind]; [discriminate|].
    destruct (h_time h <=? h_time p); cbn [obind]; [discriminate|].
    destruct (verify_gaslimit (h_gaslimit p) (h_gaslimit h)) eqn:G; cbn [negb obind]; [|discriminate].
    apply verify_gaslimit_parent in G.
    rewrite calc_base_fee_spec by lia.
    destruct (big (h_basefee h) =? expected_base_fee p); cbn [negb obind]; [|discriminate].
    destruct (calc_difficulty (h_time h) p =? Z.of_N (big (h_diff h)))%Z; [discriminate|].
    destruct (chain_id s =? rinkeby); discriminate.
  Qed.

  Theorem update_no_panic v bt s h : update_client_gen hash ethash_ok v bt s h <> Panic.
  Proof.
    unfold update_client_gen, check_header_gen.
    destruct (active bt s); cbn [negb]; [|discriminate].
    destruct (cget _ (cons s)); cbn [obind]; [|discriminate].
    destruct (check_validity_gen hash ethash_ok v bt s h) as [[]| |] eqn:CV; cbn [obind]; try discriminate.
    2:{ exfalso. exact (check_validity_no_panic _ _ _ _ CV). }
    assert (P : prune bt s <> Panic).
    { unfold prune. destruct (cfirst (cons s)) as [[k0 c0]|]; [|discriminate].
      destruct (add64 (c_time c0) (trusting s) <? bt); [|discriminate]. destruct (rget _ (rmain s)); discriminate. }
    destruct (prune bt s) as [s1| |]; cbn [obind]; try discriminate; [|congruence].
    destruct (negb (beq (hash (head s)) (h_parent h))); cbn [obind]; [|discriminate].
    pose proof (restrict_no_panic (v_d2 v) (v_root v) (store_header hash s1 h) (head s) h) as R.
    destruct (restrict_chain_gen hash (v_d2 v) (v_root v) (store_header hash s1 h) (head s) h); cbn [obind]; try discriminate. congruence.
  Qed.
End NoPanic.

(** * The hash hypotheses from the executable check [hash_ok_b] *)
Section HashOk.
  Variable hash : header -> bytes.
  Variable univ : list header.
  Hypothesis HOK : hash_ok_b hash univ = true.

  Lemma hash_ok_len a : In a univ -> length (hash a) = 32%nat.
  Proof.
    intro I. unfold hash_ok_b in HOK. rewrite forallb_forall in HOK. specialize (HOK a I).
    apply andb_true_iff in HOK. destruct HOK as [H _]. apply Nat.eqb_eq. exact H.
  Qed.

  Lemma hash_ok_pair a b : In a univ -> In b univ -> hash a = hash b ->
    h_num a = h_num b /\ to_hash (h_parent a) = to_hash (h_parent b).
  Proof.
    intros Ia Ib E. unfold hash_ok_b in HOK. rewrite forallb_forall in HOK. specialize (HOK a Ia).
    apply andb_true_iff in HOK. destruct HOK as [_ H]. rewrite forallb_forall in H. specialize (H b Ib).
    rewrite E, beq_refl in H. cbn [negb orb] in H. apply andb_true_iff in H. destruct H as [H1 H2].
    apply N.eqb_eq in H1. split; [exact H1|]. destruct (beq_spec (to_hash (h_parent a)) (to_hash (h_parent b))); [assumption | discriminate].
  Qed.
End HashOk.

(** the wedge monitor's condition is [should_accept] without the no-alias restriction *)
Lemma should_accept_m_spec t bt s h :
  should_accept_m t bt s h = true -> noalias_b (t_hash t) s h = true -> should_accept (t_hash t) (t_seal t) bt s h = true.
Proof.
  unfold should_accept_m, should_accept. intros H Na.
  destruct (active bt s); [|discriminate]. destruct (valid_child_b _ _ bt s h); [|discriminate].
  destruct (h_rev h =? h_rev (head s)); [|discriminate]. destruct (exp_ok cur bt s h); [|discriminate].
  destruct (fix_root || fresh_root_b _ s h); [|discriminate].
  rewrite Na, H. reflexivity.
Qed.

(** * The theorems over all histories *)
Section Final.
  Variable hash : header -> bytes.
  Variable ethash_ok : header -> bool.
  Variable univ : list header.
  Hypothesis HOK : hash_ok_b hash univ = true.
  Variable r0 g0 : N.
  Let U := fun a : header => In a univ.
  Notation Reach := (Reach hash ethash_ok U r0 g0).
  Notation Inv := (Inv hash r0 g0 U).
  Notation update_client := (update_client hash ethash_ok).

  Lemma reach_inv' hist s : Reach hist s -> exists L D, Inv s L D.
  Proof.
    apply reach_inv.
    - intros a Ua. exact (hash_ok_len hash univ HOK a Ua).
    - intros a b Ua Ub _ _ E. exact (proj1 (hash_ok_pair hash univ HOK a b Ua Ub E)).
    - intros a b Ua Ub _ _ E. exact (proj2 (hash_ok_pair hash univ HOK a b Ua Ub E)).
  Qed.

  (** ** An executable producer of [Reach] proofs: run a history, checking the side conditions of
      [reach_step] at every accepted submission *)
  Fixpoint run_checked (hist : list header) (s : state) (l : list (N * header)) : option (list header * state) :=
    match l with
    | [] => Some (hist, s)
    | (bt, h) :: l' =>
        match update_client bt s h with
        | Ok s' => if existsb (header_eqb h) univ && (fix_rev || (h_rev h =? r0)) && (h_num h <? two63)
                      && (fix_root || fresh_root_b hash s h) && noalias_b hash s h
                   then run_checked (h :: hist) s' l' else None
        | Err => run_checked hist s l'
        | Panic => None
        end
    end.

  Lemma existsb_header_in h : existsb (header_eqb h) univ = true -> In h univ.
  Proof.
    intro E. apply existsb_exists in E. destruct E as [x [I Q]]. apply header_eqb_eq in Q. subst. exact I.
  Qed.

  Lemma run_checked_reach l : forall hist s hist' s',
    Reach hist s -> run_checked hist s l = Some (hist', s') -> Reach hist' s'.
  Proof.
    induction l as [|[bt h] l IH]; intros hist s hist' s' R E; cbn [run_checked] in E.
    - inversion E; subst. exact R.
    - destruct (update_client bt s h) as [s1| |] eqn:Upd; [|exact (IH _ _ _ _ R E)|discriminate].
      destruct (existsb (header_eqb h) univ && (fix_rev || (h_rev h =? r0)) && (h_num h <? two63)
                && (fix_root || fresh_root_b hash s h) && noalias_b hash s h) eqn:C; [|discriminate].
      rewrite !andb_true_iff in C. destruct C as [[[[C1 C2] C3] C4] C5].
      assert (C2' : fix_rev = true \/ h_rev h = r0).
      { apply orb_true_iff in C2. destruct C2 as [C2|C2]; [left; exact C2 | right; apply N.eqb_eq; exact C2]. }
      apply (IH _ _ _ _ (reach_step hash ethash_ok U r0 g0 hist s bt h s1 R (existsb_header_in _ C1)
                           C2' (proj1 (N.ltb_lt _ _) C3) (proj1 (orb_true_iff _ _) C4) C5 Upd) E).
  Qed.

  Lemma run_checked_init chain trust g l hist s :
    existsb (header_eqb g) univ = true -> h_rev g = r0 -> h_num g = g0 -> h_num g < two63 -> h_gaslimit g < two63 ->
    run_checked [g] (create_client hash chain trust g (cstate_of g)) l = Some (hist, s) -> Reach hist s.
  Proof.
    intros Ug Hr Hn H63 Hg E. refine (run_checked_reach l _ _ _ _ _ E).
    apply reach_init; [repeat split; assumption | exact (existsb_header_in _ Ug) | exact Hn].
  Qed.

  (** ** Soundness of acceptance *)
  Theorem final_accept_sound hist s bt h s' :
    Reach hist s -> h_num h < two63 -> update_client bt s h = Ok s' ->
    active bt s = true /\
    (exists p, In p hist /\ iget (to_hash (h_parent h), h_num h - 1) (idx s) = Some p /\
               hash p = to_hash (h_parent h) /\ h_num h = h_num p + 1 /\
               validate_basic h = true /\
               h_time h <= bt + 15 /\ h_time p < h_time h /\
               (Z.abs (Z.of_N (h_gaslimit p) - Z.of_N (h_gaslimit h)) < Z.of_N (h_gaslimit p / 1024))%Z /\
               5000 <= h_gaslimit h /\
               big (h_basefee h) = expected_base_fee p /\
               (chain_id s <> rinkeby ->
                  Z.of_N (big (h_diff h)) = calc_difficulty (h_time h) p /\ len (h_extra h) <= 32 /\ ethash_ok h = true)) /\
    rev_ok cur s h = true /\ exp_ok cur bt s h = true /\
    head s' = h /\ chain_id s' = chain_id s /\ trusting s' = trusting s.
  Proof.
    intros R Hh Upd. destruct (reach_inv' _ _ R) as [L [D I]].
    destruct (accept_sound hash ethash_ok r0 s bt h s' (inv_wf _ _ _ _ _ _ _ I) Hh Upd) as [A [[p [Ep Rest]] Hd]].
    split; [exact A|]. split.
    - exists p. split; [exact (reach_stored hash ethash_ok U r0 g0 _ _ R _ _ Ep)|]. split; [exact Ep | exact Rest].
    - destruct (update_shape hash ethash_ok _ _ _ _ Upd) as [_ [CV [s1 [c3 [rm3 [_ [_ E]]]]]]].
      destruct (check_validity_ok hash ethash_ok r0 bt s h (inv_wf _ _ _ _ _ _ _ I) Hh CV) as [_ [RO EO]].
      split; [exact RO|]. split; [exact EO|]. split; [exact Hd|]. rewrite E. split; reflexivity.
  Qed.

  (** the hash of a header of the universe determines its parent key *)
  Lemma hash_pkey h : (fix_root = true -> In h univ) ->
    fix_root = true -> forall d, h_num d < two63 -> U d -> key hash h = key hash d -> pkey h = pkey d.
  Proof.
    intros Uh F d Hd Ud K. inversion K as [[Kh Kn]]. unfold pkey.
    rewrite (proj2 (hash_ok_pair hash univ HOK h d (Uh F) Ud Kh)), Kn. reflexivity.
  Qed.

  (** ** No wedge *)
  Theorem final_no_wedge hist s bt h :
    Reach hist s ->
    active bt s = true -> valid_child_b hash ethash_ok bt s h = true -> h_rev h = h_rev (head s) ->
    exp_ok cur bt s h = true ->
    (fix_root = true \/ fresh_root_b hash s h = true) -> noalias_b hash s h = true ->
    (fix_root = true -> In h univ) ->
    (beq (hash (head s)) (h_parent h) = true \/
     MeetsAt s (main_chain s) h (if prune_due bt s then base s + 1 else base s)) ->
    exists s', update_client bt s h = Ok s' /\ head s' = h /\
               active bt s' = negb (add64 (h_time h) (trusting s) <? bt).
  Proof.
    intros R Act V Rv Ex Fr Na Uh CM. destruct (reach_inv' _ _ R) as [L [D I]].
    destruct (inv_main_chain hash U r0 g0 s L D I) as [MC Bs]. rewrite MC, Bs in CM.
    destruct (no_wedge_core hash ethash_ok U r0 g0 s L D bt h I Act V Rv Ex Fr Na (hash_pkey h Uh) CM) as [s' [Upd Hd]].
    exists s'. split; [exact Upd|]. split; [exact Hd|]. exact (update_active_after hash ethash_ok _ _ _ _ Upd).
  Qed.

  (** a readable special case of the meeting hypothesis: the stored ancestry of the new header reaches the main
      chain (the head's stored ancestry) at a height whose consensus state is not pruned *)
  Theorem final_no_wedge_common_ancestor hist s bt h J x :
    Reach hist s ->
    active bt s = true -> valid_child_b hash ethash_ok bt s h = true -> h_rev h = h_rev (head s) ->
    exp_ok cur bt s h = true ->
    (fix_root = true \/ fresh_root_b hash s h = true) -> noalias_b hash s h = true ->
    (fix_root = true -> In h univ) ->
    nth_anc (idx s) h J = Some x -> In x (main_chain s) -> (if prune_due bt s then base s + 1 else base s) <= h_num x ->
    exists s', update_client bt s h = Ok s' /\ head s' = h /\
               active bt s' = negb (add64 (h_time h) (trusting s) <? bt).
  Proof.
    intros R Act V Rv Ex Fr Na Uh A Ix Lo.
    apply (final_no_wedge hist s bt h R Act V Rv Ex Fr Na Uh). right.
    exists J, x, x. repeat split; try assumption; reflexivity.
  Qed.

  (** the Boolean form evaluated by the monitor *)
  Theorem final_no_wedge_b hist s bt h :
    Reach hist s -> should_accept hash ethash_ok bt s h = true -> (fix_root = true -> In h univ) ->
    exists s', update_client bt s h = Ok s' /\ head s' = h.
  Proof.
    intros R SA Uh. destruct (reach_inv' _ _ R) as [L [D I]].
    exact (no_wedge hash ethash_ok U r0 g0 s L D bt h I SA (hash_pkey h Uh)).
  Qed.

  Theorem monitor_wedge_ok t hist s bt h :
    hash = t_hash t -> ethash_ok = t_seal t ->
    Reach hist s -> should_accept_m t bt s h = true -> noalias_b hash s h = true -> (fix_root = true -> In h univ) ->
    exists s', update_client bt s h = Ok s' /\ head s' = h.
  Proof.
    intros Eh Ee R SA Na Uh. apply (final_no_wedge_b hist s bt h R); [|exact Uh]. subst hash ethash_ok.
    apply should_accept_m_spec; assumption.
  Qed.

  (** ** Main chain roots *)
  Theorem final_main_chain_roots hist s r k c :
    Reach hist s -> cget (r, k) (cons s) = Some c -> k <= h_num (head s) ->
    r = h_rev (head s) /\ base s <= k /\
    exists a, nth_anc (idx s) (head s) (N.to_nat (h_num (head s) - k)) = Some a /\ In a hist /\
              h_num a = k /\ c = cstate_of a.
  Proof.
    intros R E Hk. destruct (reach_inv' _ _ R) as [L [D I]].
    destruct (inv_head_wf _ _ _ _ _ _ _ I) as [Hr [Hx _]].
    destruct (inv_cdom _ _ _ _ _ _ _ I _ _ _ E) as [-> Lo].
    destruct (inv_main_chain hash U r0 g0 s L D I) as [_ Bs].
    split; [symmetry; exact Hr|]. split; [rewrite Bs; exact Lo|].
    rewrite <- Hr in E.
    destruct (inv_main_chain_roots hash U r0 g0 s L D k c I E Hk) as [a [A [Na Ca]]].
    exists a. split; [exact A|]. split; [|split; assumption].
    pose proof (nth_anc_stored hash r0 _ _ _ _ (inv_wf _ _ _ _ _ _ _ I) Hx (inv_head _ _ _ _ _ _ _ I) A) as Sa.
    exact (reach_stored hash ethash_ok U r0 g0 _ _ R _ _ Sa).
  Qed.

  (** every height between the oldest stored main-chain header and the head HAS its consensus state *)
  Theorem final_main_chain_complete hist s j a :
    Reach hist s -> nth_anc (idx s) (head s) j = Some a ->
    cget (h_rev (head s), h_num a) (cons s) = Some (cstate_of a).
  Proof.
    intros R A. destruct (reach_inv' _ _ R) as [L [D I]].
    destruct (inv_head_wf _ _ _ _ _ _ _ I) as [Hr _]. rewrite Hr.
    apply (inv_cmain _ _ _ _ _ _ _ I). exact (proj1 (main_anc_in _ _ _ _ _ (inv_main _ _ _ _ _ _ _ I) A)).
  Qed.

  (** ** Monitor soundness: the executable monitor of Model/EthCheck.v accepts the states of the model *)
  Lemma at_height_main ix x L k a :
    idx_wf hash r0 ix -> h_num x < two63 -> Main ix x L -> In a L -> h_num a = k -> at_height L k = Some a.
  Proof.
    intros WF Hx M Ia Na. unfold at_height.
    destruct (find (fun b => h_num b =? k) L) as [b|] eqn:F.
    - apply find_some in F. destruct F as [Ib Nb]. apply N.eqb_eq in Nb.
      f_equal. apply (main_num_inj hash r0 ix x L WF Hx M); [exact Ib | exact Ia | congruence].
    - exfalso. pose proof (find_none _ _ F a Ia) as Q. cbn in Q. apply N.eqb_neq in Q. contradiction.
  Qed.

  Lemma cstate_eqb_refl c : cstate_eqb c c = true.
  Proof. unfold cstate_eqb. rewrite !N.eqb_refl, beq_refl. reflexivity. Qed.

  Theorem monitor_main_chain_ok t hist s : Reach hist s -> main_chain_ok t s = true.
  Proof.
    intro R. destruct (reach_inv' _ _ R) as [L [D I]].
    destruct (inv_main_chain hash U r0 g0 s L D I) as [MC _].
    destruct (inv_head_wf _ _ _ _ _ _ _ I) as [Hr [Hx _]].
    pose proof (inv_wf _ _ _ _ _ _ _ I) as WF. pose proof (inv_main _ _ _ _ _ _ _ I) as M.
    unfold main_chain_ok. rewrite MC. apply forallb_forall. intros [[r n] c] Ic.
    pose proof (in_mget_nodup ckey_eqb ckey_eqb_spec _ _ _ (inv_cnodup _ _ _ _ _ _ _ I) Ic) as E.
    destruct (inv_cdom _ _ _ _ _ _ _ I _ _ _ E) as [-> Lo].
    destruct (N.leb_spec n (h_num (head s))) as [Le|Gt]; [|rewrite andb_false_r; reflexivity].
    rewrite Hr, N.eqb_refl. cbn [andb negb orb].
    destruct (main_at hash r0 _ _ _ WF Hx M n) as [a [Ea Na]]; [lia|].
    assert (Ia : In a L) by (eapply nth_error_In; exact Ea).
    rewrite (at_height_main _ _ _ _ _ WF Hx M Ia Na).
    pose proof (inv_cmain _ _ _ _ _ _ _ I a Ia) as C. rewrite Na in C. unfold cget in *. rewrite C in E. inversion E; subst.
    apply cstate_eqb_refl.
  Qed.

  (** an accepted step of the model passes the acceptance monitor (kinds 21, 23) *)
  Theorem monitor_accept_ok hist s bt h s' :
    Reach hist s -> h_num h < two63 -> update_client bt s h = Ok s' ->
    active bt s = true /\ valid_child_b hash ethash_ok bt s h = true /\ header_eqb (head s') h = true.
  Proof.
    intros R Hh Upd. destruct (reach_inv' _ _ R) as [L [D I]].
    destruct (update_shape hash ethash_ok _ _ _ _ Upd) as [Act [CV [s1 [c3 [rm3 [_ [_ ->]]]]]]].
    split; [exact Act|].
    destruct (check_validity_ok hash ethash_ok r0 bt s h (inv_wf _ _ _ _ _ _ _ I) Hh CV) as [V _]. split; [exact V|].
    cbn [head]. clear. destruct h. unfold header_eqb. cbn. rewrite !N.eqb_refl, !beq_refl. reflexivity.
  Qed.
End Final.

Lemma monitor_wedge_sound : forall t univ, hash_ok_b (t_hash t) univ = true -> forall r0 g0 hist s bt h,
  Reach (t_hash t) (t_seal t) (fun a => In a univ) r0 g0 hist s ->
  should_accept_m t bt s h = true -> noalias_b (t_hash t) s h = true -> (fix_root = true -> In h univ) ->
  exists s', update_client (t_hash t) (t_seal t) bt s h = Ok s' /\ head s' = h.
Proof.
  intros t univ H r0 g0 hist s bt h. exact (monitor_wedge_ok (t_hash t) (t_seal t) univ H r0 g0 t hist s bt h eq_refl eq_refl).
Qed.
