(** Generic lemmas about the interpreters of Model/RvestingParams.v: under the decidable conditions of
    Model/RvestingCode.v ([guards_std], [pairs_std]) the regenerated validatePerBlockReward IS
    [Rvesting.validate_rewards], never panics, and the params subspace only ever holds validated parameters. *)
From Teleport Require Import Base.Bytes Base.Outcome Model.Rvesting Model.RvestingIR Model.RvestingBank
  Model.RvestingParams Model.RvestingWorld Model.RvestingCode Proofs.Rvesting.
Local Open Scope Z_scope.

(** * validatePerBlockReward *)

Definition fire (g : cguard) (seen : list bytes) (d : bytes) (a : Z) : bool :=
  match g with
  | GEmptyDenom => match d with [] => true | _ => false end
  | GValidDenom => negb (valid_denom d)
  | GNilAmount => false
  | GNegative => a <? 0
  | GDuplicate => mem d seen
  | GUnknown _ => false
  end.

Lemma cguard_eval_some g seen d a :
  cg_known g = true -> cguard_eval g seen (d, Some a) = Ok (fire g seen d a).
Proof. destruct g; cbn; intro H; try reflexivity; discriminate. Qed.

Lemma coin_rejected_some gs seen d a :
  forallb cg_known gs = true ->
  coin_rejected gs seen (d, Some a) = Ok (existsb (fun g => fire g seen d a) gs).
Proof.
  induction gs as [|g gs IH]; cbn [forallb coin_rejected existsb]; intro H; [reflexivity|].
  apply andb_true_iff in H as [Hg H]. specialize (IH H). rewrite (cguard_eval_some g seen d a Hg).
  destruct (fire g seen d a); cbn [orb]; [reflexivity|exact IH].
Qed.

Lemma cg_mem_In g gs : cg_known g = true -> cg_mem g gs = true -> In g gs.
Proof.
  intros Hk. induction gs as [|x gs IH]; cbn [cg_mem]; [discriminate|].
  intro H. apply orb_true_iff in H as [H|H]; [|right; apply IH; exact H].
  left. destruct g, x; try discriminate; reflexivity.
Qed.

Lemma fire_std gs seen d a :
  cg_mem GValidDenom gs = true -> cg_mem GNegative gs = true -> cg_mem GDuplicate gs = true ->
  existsb (fun g => fire g seen d a) gs = negb (valid_denom d && (0 <=? a)) || mem d seen.
Proof.
  intros H1 H2 H3.
  apply cg_mem_In in H1; [|reflexivity]. apply cg_mem_In in H2; [|reflexivity]. apply cg_mem_In in H3; [|reflexivity].
  apply Bool.eq_iff_eq_true. rewrite existsb_exists, orb_true_iff, negb_true_iff, andb_false_iff. split.
  - intros (g & _ & Hf). destruct g; cbn [fire] in Hf; try discriminate.
    + destruct d; [|discriminate]. left; left; reflexivity.
    + left; left. apply negb_true_iff; exact Hf.
    + left; right. apply Z.ltb_lt in Hf. apply Z.leb_gt. exact Hf.
    + right; exact Hf.
  - intros [[H|H]|H].
    + exists GValidDenom. split; [exact H1|]. cbn. rewrite H. reflexivity.
    + exists GNegative. split; [exact H2|]. cbn. apply Z.ltb_lt. apply Z.leb_gt in H. exact H.
    + exists GDuplicate. split; [exact H3|]. exact H.
Qed.

Lemma coin_rejected_none gs seen d :
  forallb cg_known gs = true -> nil_safe gs = true -> coin_rejected gs seen (d, None) = Ok true.
Proof.
  induction gs as [|g gs IH]; cbn [forallb nil_safe coin_rejected]; intros Hk Hn; [discriminate|].
  apply andb_true_iff in Hk as [Hg Hk].
  destruct g; cbn [cguard_eval fst snd] in *; try discriminate; try reflexivity.
  - destruct d; [reflexivity|]. apply IH; assumption.
  - destruct (negb (valid_denom d)); [reflexivity|]. apply IH; assumption.
  - destruct (mem d seen); [reflexivity|]. apply IH; assumption.
Qed.

(** Duplicate detection by the "seen" set = [nodup_denoms]. *)
Fixpoint nodup_seen (seen : list bytes) (r : list (bytes * Z)) : bool :=
  match r with
  | [] => true
  | (d, _) :: t => negb (mem d seen) && nodup_seen (d :: seen) t
  end.

Lemma nodup_seen_iff r : forall seen,
  nodup_seen seen r = true <-> nodup_denoms r = true /\ (forall c, In c r -> mem (fst c) seen = false).
Proof.
  induction r as [|[d a] t IH]; intro seen; cbn [nodup_seen nodup_denoms].
  - split; [intros _; split; [reflexivity|intros c []] | reflexivity].
  - rewrite !andb_true_iff, !negb_true_iff, IH. split.
    + intros (Hd & Hn & Hs). split; [split; [|exact Hn]|].
      * apply mem_false_notin. intro Hin. apply in_map_iff in Hin as (c & Hc & Hin). specialize (Hs c Hin).
        cbn [mem] in Hs. rewrite <- Hc, bytes_eqb_refl in Hs. discriminate.
      * intros c [<-|Hin]; [exact Hd|]. specialize (Hs c Hin). cbn [mem] in Hs. apply orb_false_iff in Hs as [_ Hs]. exact Hs.
    + intros ((Hd & Hn) & Hs). split; [apply (Hs (d, a)); left; reflexivity|]. split; [exact Hn|].
      intros c Hin. cbn [mem]. apply orb_false_iff. split; [|apply Hs; right; exact Hin].
      apply bytes_eqb_neq. intro E. apply mem_false_notin in Hd. apply Hd. rewrite E. apply in_map. exact Hin.
Qed.

Lemma nodup_seen_nil r : nodup_seen [] r = nodup_denoms r.
Proof.
  apply Bool.eq_iff_eq_true. rewrite nodup_seen_iff. split; [tauto|]. intro H; split; [exact H|reflexivity].
Qed.

Definition okc (c : bytes * Z) : bool := valid_denom (fst c) && (0 <=? snd c).

Lemma coins_rejected_std gs r : forall seen,
  forallb cg_known gs = true ->
  cg_mem GValidDenom gs = true -> cg_mem GNegative gs = true -> cg_mem GDuplicate gs = true ->
  coins_rejected gs seen (lift_coins r) = Ok (negb (forallb okc r && nodup_seen seen r)).
Proof.
  induction r as [|[d a] t IH]; intros seen Hk H1 H2 H3; cbn [lift_coins map coins_rejected forallb nodup_seen]; [reflexivity|].
  unfold lift_coin at 1. cbn [fst snd]. rewrite coin_rejected_some by exact Hk. rewrite (fire_std gs seen d a H1 H2 H3).
  unfold okc at 1. cbn [fst snd].
  destruct (valid_denom d && (0 <=? a)); cbn [negb orb andb]; [|reflexivity].
  destruct (mem d seen); cbn [negb andb]; [rewrite andb_false_r; reflexivity|].
  apply (IH (d :: seen) Hk H1 H2 H3).
Qed.

Lemma list_rejected_std lgs l :
  forallb lg_known lgs = true -> lg_has_empty lgs = true ->
  list_rejected lgs l = Ok (match l with [] => true | _ => false end).
Proof.
  assert (G : forall lgs, forallb lg_known lgs = true ->
            list_rejected lgs l = Ok (lg_has_empty lgs && match l with [] => true | _ => false end)).
  { clear lgs. induction lgs as [|g gs IH]; cbn [forallb list_rejected lg_has_empty]; intro H; [reflexivity|].
    apply andb_true_iff in H as [Hg H]. specialize (IH H).
    destruct g; cbn [lguard_eval] in *; try discriminate.
    - exact IH.
    - destruct l; cbn [andb]; [reflexivity|]. rewrite IH. rewrite andb_false_r. reflexivity. }
  intros Hk He. rewrite (G lgs Hk), He. reflexivity.
Qed.

Lemma guards_std_parts lgs cgs :
  guards_std lgs cgs = true ->
  forallb lg_known lgs = true /\ forallb cg_known cgs = true /\ lg_has_empty lgs = true /\
  cg_mem GValidDenom cgs = true /\ cg_mem GNegative cgs = true /\ cg_mem GDuplicate cgs = true /\ nil_safe cgs = true.
Proof.
  unfold guards_std. intro H. repeat (apply andb_true_iff in H as [H ?]). repeat split; assumption.
Qed.

(** The regenerated validation function is [validate_rewards] on lists whose amounts are all present ... *)
Lemma validate_raw_std lgs cgs r :
  guards_std lgs cgs = true -> validate_raw lgs cgs (lift_coins r) = Ok (validate_rewards r).
Proof.
  intro H. apply guards_std_parts in H as (Hl & Hc & He & H1 & H2 & H3 & _).
  unfold validate_raw. rewrite (list_rejected_std lgs _ Hl He).
  destruct r as [|c t]; [reflexivity|]. cbn [lift_coins map].
  change (lift_coin c :: map lift_coin t) with (lift_coins (c :: t)).
  rewrite (coins_rejected_std cgs (c :: t) [] Hc H1 H2 H3), nodup_seen_nil, negb_involutive.
  unfold validate_rewards. cbn [negb andb]. reflexivity.
Qed.

Lemma strip_lift l r : strip_coins l = Some r -> l = lift_coins r.
Proof.
  revert r; induction l as [|[d [a|]] t IH]; intros r; cbn [strip_coins]; intro H; try discriminate.
  - inversion H; reflexivity.
  - destruct (strip_coins t) as [r'|]; [|discriminate]. inversion H; subst. cbn. rewrite (IH r' eq_refl). reflexivity.
Qed.

Lemma strip_lift_id r : strip_coins (lift_coins r) = Some r.
Proof.
  unfold lift_coins. induction r as [|[d a] t IH]; cbn [map lift_coin fst snd strip_coins]; [reflexivity|].
  rewrite IH. reflexivity.
Qed.

Lemma coins_rejected_nil_amount gs l : forall seen,
  forallb cg_known gs = true -> nil_safe gs = true -> strip_coins l = None -> coins_rejected gs seen l = Ok true.
Proof.
  induction l as [|[d [a|]] t IH]; intros seen Hk Hn; cbn [strip_coins coins_rejected]; intro H; try discriminate.
  - rewrite coin_rejected_some by exact Hk. destruct (existsb _ gs); [reflexivity|].
    apply IH; try assumption. destruct (strip_coins t); [discriminate|reflexivity].
  - rewrite coin_rejected_none by assumption. reflexivity.
Qed.

(** ... and a list with an absent amount is rejected (no panic). *)
Lemma validate_raw_nil_amount lgs cgs l :
  guards_std lgs cgs = true -> strip_coins l = None -> validate_raw lgs cgs l = Ok false.
Proof.
  intros H Hs. apply guards_std_parts in H as (Hl & Hc & He & _ & _ & _ & Hn).
  unfold validate_raw. rewrite (list_rejected_std lgs _ Hl He).
  destruct l as [|c t]; [reflexivity|]. rewrite (coins_rejected_nil_amount cgs _ [] Hc Hn Hs). reflexivity.
Qed.

Lemma validate_raw_total lgs cgs l :
  guards_std lgs cgs = true ->
  validate_raw lgs cgs l = Ok (match strip_coins l with Some r => validate_rewards r | None => false end).
Proof.
  intro H. destruct (strip_coins l) as [r|] eqn:E.
  - rewrite (strip_lift l r E). apply validate_raw_std; exact H.
  - apply validate_raw_nil_amount; assumption.
Qed.

(** * The params subspace *)
Lemma kv_get_set_same s k v : kv_get (kv_set s k v) k = Some v.
Proof.
  induction s as [|[k' v'] t IH]; cbn [kv_set kv_get]; [rewrite bytes_eqb_refl; reflexivity|].
  destruct (bytes_eqb k' k) eqn:E; cbn [kv_get]; [rewrite bytes_eqb_refl; reflexivity|]. rewrite E. exact IH.
Qed.

Lemma kv_get_set_other s k v k' : k <> k' -> kv_get (kv_set s k v) k' = kv_get s k'.
Proof.
  intro Hne. induction s as [|[k0 v0] t IH]; cbn [kv_set kv_get].
  - apply bytes_eqb_neq in Hne. rewrite Hne. reflexivity.
  - destruct (bytes_eqb k0 k) eqn:E; cbn [kv_get].
    + apply bytes_eqb_eq in E. subst k0. apply bytes_eqb_neq in Hne. rewrite Hne. reflexivity.
    + destruct (bytes_eqb k0 k'); [reflexivity|exact IH].
Qed.

(** What [pairs_std] says: a Boolean key [kb] and a coin-list key [kc]. *)
Definition pairs_shape (ps : list ppair) (kb kc : bytes) : Prop :=
  kb <> kc /\
  (forall k, bytes_eqb k kb = false -> bytes_eqb k kc = false -> find_pair ps k = None) /\
  (forall s, get_params ps s =
     match kv_get s kb, kv_get s kc with
     | Some (PB b), Some (PC l) => Ok {| enable := b; rewards := l |}
     | _, _ => Panic
     end) /\
  (forall lgs cgs s k v, subspace_update ps lgs cgs s k v =
     if bytes_eqb k kb then
       match v with JBool b => Ok (Some (kv_set s kb (PB b))) | _ => Ok None end
     else if bytes_eqb k kc then
       match v with
       | JCoins l =>
           match validate_raw lgs cgs l with
           | Ok true => match strip_coins l with Some r => Ok (Some (kv_set s kc (PC r))) | None => Err end
           | Ok false => Ok None
           | Err => Err
           | Panic => Panic
           end
       | _ => Ok None
       end
     else Panic) /\
  (forall lgs cgs en rw s s', set_param_set ps lgs cgs en rw s = Ok s' ->
     exists r, rw = lift_coins r /\ validate_raw lgs cgs rw = Ok true /\
               kv_get s' kb = Some (PB en) /\ kv_get s' kc = Some (PC r)) /\
  (forall lgs cgs en r s, validate_raw lgs cgs (lift_coins r) = Ok true ->
     exists s', set_param_set ps lgs cgs en (lift_coins r) s = Ok s').

Definition bool_key (ps : list ppair) : bytes :=
  match find (fun p => match pp_type p with TBool => true | _ => false end) ps with Some p => pp_key p | None => [] end.
Definition coins_key (ps : list ppair) : bytes :=
  match find (fun p => match pp_type p with TCoins => true | _ => false end) ps with Some p => pp_key p | None => [] end.

Lemma pairs_std_shape_keys ps : pairs_std ps = true -> pairs_shape ps (bool_key ps) (coins_key ps).
Proof.
  unfold pairs_std. destruct ps as [|[k1 f1 t1 v1] [|[k2 f2 t2 v2] [|]]]; try discriminate.
  cbn [pp_key pp_type pp_validator]. intro H. apply andb_true_iff in H as [Hne H]. apply negb_true_iff, bytes_eqb_neq in Hne.
  destruct t1, v1, t2, v2; try discriminate.
  - (* bool first *)
    unfold bool_key, coins_key; cbn [find pp_type pp_key]. split; [exact Hne|]. split; [|split; [|split; [|split]]].
    + intros k E1 E2. cbn [find_pair pp_key]. rewrite (bytes_eqb_sym k1 k), (bytes_eqb_sym k2 k), E1, E2. reflexivity.
    + intro s. unfold get_params. cbn [get_bool_from get_coins_from pp_type pp_key].
      destruct (kv_get s k1) as [[b|l]|]; destruct (kv_get s k2) as [[b'|l']|]; reflexivity.
    + intros lgs cgs s k v. unfold subspace_update. cbn [find_pair pp_key].
      rewrite (bytes_eqb_sym k1 k), (bytes_eqb_sym k2 k).
      destruct (bytes_eqb k k1) eqn:E1.
      * apply bytes_eqb_eq in E1. subst k. unfold run_validator. cbn [pp_type pp_validator]. destruct v; reflexivity.
      * destruct (bytes_eqb k k2) eqn:E2; [|reflexivity].
        apply bytes_eqb_eq in E2. subst k. unfold run_validator. cbn [pp_type pp_validator]. destruct v; try reflexivity.
        destruct (validate_raw lgs cgs l) as [[|]| |]; try reflexivity. destruct (strip_coins l); reflexivity.
    + intros lgs cgs en rw s s'. unfold set_param_set. cbn [set_param_set_from field_value pp_type pp_key run_validator pp_validator].
      destruct (validate_raw lgs cgs rw) as [[|]| |] eqn:Ev; try discriminate.
      destruct (strip_coins rw) as [r|] eqn:Es; [|discriminate]. intro H'. inversion H'; subst s'.
      exists r. split; [apply strip_lift; exact Es|]. split; [reflexivity|]. split.
      * rewrite kv_get_set_other by congruence. apply kv_get_set_same.
      * apply kv_get_set_same.
    + intros lgs cgs en r s Hv. unfold set_param_set. cbn [set_param_set_from field_value pp_type pp_key run_validator pp_validator].
      rewrite Hv, strip_lift_id. eexists; reflexivity.
  - (* coins first *)
    unfold bool_key, coins_key; cbn [find pp_type pp_key]. split; [congruence|]. split; [|split; [|split; [|split]]].
    + intros k E1 E2. cbn [find_pair pp_key]. rewrite (bytes_eqb_sym k1 k), (bytes_eqb_sym k2 k), E1, E2. reflexivity.
    + intro s. unfold get_params. cbn [get_bool_from get_coins_from pp_type pp_key].
      destruct (kv_get s k1) as [[b|l]|]; destruct (kv_get s k2) as [[b'|l']|]; reflexivity.
    + intros lgs cgs s k v. unfold subspace_update. cbn [find_pair pp_key].
      rewrite (bytes_eqb_sym k1 k), (bytes_eqb_sym k2 k).
      destruct (bytes_eqb k k1) eqn:E1.
      * apply bytes_eqb_eq in E1. subst k. apply bytes_eqb_neq in Hne. rewrite Hne.
        unfold run_validator. cbn [pp_type pp_validator]. destruct v; try reflexivity.
        destruct (validate_raw lgs cgs l) as [[|]| |]; try reflexivity. destruct (strip_coins l); reflexivity.
      * destruct (bytes_eqb k k2) eqn:E2; [|reflexivity].
        apply bytes_eqb_eq in E2. subst k. unfold run_validator. cbn [pp_type pp_validator]. destruct v; reflexivity.
    + intros lgs cgs en rw s s'. unfold set_param_set. cbn [set_param_set_from field_value pp_type pp_key run_validator pp_validator].
      destruct (validate_raw lgs cgs rw) as [[|]| |] eqn:Ev; try discriminate.
      destruct (strip_coins rw) as [r|] eqn:Es; [|discriminate]. intro H'. inversion H'; subst s'.
      exists r. split; [apply strip_lift; exact Es|]. split; [reflexivity|]. split.
      * apply kv_get_set_same.
      * rewrite kv_get_set_other by congruence. apply kv_get_set_same.
    + intros lgs cgs en r s Hv. unfold set_param_set. cbn [set_param_set_from field_value pp_type pp_key run_validator pp_validator].
      rewrite Hv, strip_lift_id. eexists; reflexivity.
Qed.

Lemma pairs_std_shape ps : pairs_std ps = true -> exists kb kc, pairs_shape ps kb kc.
Proof. intro H. exists (bool_key ps), (coins_key ps). apply pairs_std_shape_keys; exact H. Qed.

(** The store holds validated parameters. *)
Definition ps_ok (pairs : list ppair) (s : kv) : Prop :=
  exists p, get_params pairs s = Ok p /\ params_ok p.

Section Std.
  Variables (pairs : list ppair) (lgs : list lguard) (cgs : list cguard).
  Hypothesis Hp : pairs_std pairs = true.
  Hypothesis Hg : guards_std lgs cgs = true.

  (** A parameter change never makes the store invalid, never fails to be interpreted, and panics exactly on an
      unregistered key. *)
  Lemma subspace_update_ok s k v :
    ps_ok pairs s ->
    match subspace_update pairs lgs cgs s k v with
    | Ok (Some s') => ps_ok pairs s'
    | Ok None => True
    | Err => False
    | Panic => find_pair pairs k = None
    end.
  Proof.
    destruct (pairs_std_shape pairs Hp) as (kb & kc & Hne & Hnone & Hget & Hupd & _ & _).
    intros (p & Hgp & Hpar). rewrite Hupd. rewrite Hget in Hgp.
    destruct (kv_get s kb) as [[b|?]|] eqn:Eb; try discriminate.
    destruct (kv_get s kc) as [[?|l]|] eqn:Ec; try discriminate. inversion Hgp; subst p. clear Hgp.
    destruct (bytes_eqb k kb) eqn:E1.
    - destruct v; try exact I. exists {| enable := b0; rewards := l |}. split; [|exact Hpar].
      rewrite Hget, kv_get_set_same, kv_get_set_other, Ec by exact Hne. reflexivity.
    - destruct (bytes_eqb k kc) eqn:E2.
      + destruct v; try exact I. rewrite (validate_raw_total lgs cgs l0 Hg).
        destruct (strip_coins l0) as [r|] eqn:Es; [|exact I].
        destruct (validate_rewards r) eqn:Ev; [|exact I].
        exists {| enable := b; rewards := r |}. split; [|exact Ev].
        rewrite Hget, kv_get_set_same, kv_get_set_other, Eb by congruence. reflexivity.
      + apply Hnone; assumption.
  Qed.

  Lemma set_param_set_ok en rw s s' :
    set_param_set pairs lgs cgs en rw s = Ok s' ->
    exists r, rw = lift_coins r /\ validate_rewards r = true /\ get_params pairs s' = Ok {| enable := en; rewards := r |}.
  Proof.
    destruct (pairs_std_shape pairs Hp) as (kb & kc & Hne & _ & Hget & _ & Hset & _).
    intro H. destruct (Hset lgs cgs en rw s s' H) as (r & -> & Hv & Hb & Hc).
    exists r. split; [reflexivity|]. rewrite (validate_raw_std lgs cgs r Hg) in Hv. inversion Hv as [Hv'].
    split; [reflexivity|]. rewrite Hget, Hb, Hc. reflexivity.
  Qed.

  Lemma set_param_set_total en r s :
    validate_rewards r = true -> exists s', set_param_set pairs lgs cgs en (lift_coins r) s = Ok s'.
  Proof.
    destruct (pairs_std_shape pairs Hp) as (kb & kc & _ & _ & _ & _ & _ & Htot).
    intro Hv. apply Htot. rewrite (validate_raw_std lgs cgs r Hg), Hv. reflexivity.
  Qed.

  (** SetParamSet never returns on a reward list validation rejects (it panics). *)
  Lemma set_param_set_rejects en rw s :
    validate_raw lgs cgs rw = Ok false -> is_ok (set_param_set pairs lgs cgs en rw s) = false.
  Proof.
    destruct (pairs_std_shape pairs Hp) as (kb & kc & _ & _ & _ & _ & Hset & _).
    intro Hv. destruct (set_param_set pairs lgs cgs en rw s) as [s'| |] eqn:E; try reflexivity.
    destruct (Hset lgs cgs en rw s s' E) as (r & _ & Hv' & _). congruence.
  Qed.
End Std.

(** * ValidateGenesis without a funding account: only the parameters are validated *)
Lemma validate_genesis_no_from_ok lgs cgs shape g steps :
  g_from g = FromEmpty ->
  forallb (fun ts => fst ts || is_gv_params (snd ts)) steps = true ->
  params_validate lgs cgs shape (g_enable g) (g_rewards g) = Ok true ->
  validate_genesis lgs cgs shape steps g = Ok true.
Proof.
  intros Hf Hall Hpv. induction steps as [|[t st] steps IH]; cbn [validate_genesis forallb fst snd] in *; [reflexivity|].
  apply andb_true_iff in Hall as [Hh Hall]. rewrite Hf. destruct t; cbn [andb orb] in *; [apply IH; exact Hall|].
  destruct st; try discriminate. cbn [gvstep_rejects]. rewrite Hpv. cbn [negb]. apply IH; exact Hall.
Qed.

Lemma validate_genesis_no_from_reject lgs cgs shape g steps :
  g_from g = FromEmpty ->
  forallb (fun ts => fst ts || is_gv_params (snd ts)) steps = true ->
  existsb (fun ts => negb (fst ts) && is_gv_params (snd ts)) steps = true ->
  params_validate lgs cgs shape (g_enable g) (g_rewards g) = Ok false ->
  validate_genesis lgs cgs shape steps g = Ok false.
Proof.
  intros Hf Hall Hex Hpv. induction steps as [|[t st] steps IH]; cbn [validate_genesis forallb existsb fst snd] in *; [discriminate|].
  apply andb_true_iff in Hall as [Hh Hall]. rewrite Hf. destruct t; cbn [andb orb negb] in *; [apply IH; assumption|].
  destruct st; try discriminate. cbn [gvstep_rejects]. rewrite Hpv. reflexivity.
Qed.
