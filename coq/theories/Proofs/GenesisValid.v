(** C13, clause "the export passes the modules' own genesis validation":
    for EVERY well-formed xibc store [s], the genesis [export_xibc s] returns is
    accepted by [GenesisState.Validate] (client + packet sub-modules) EXACTLY
    when every entry of [s] satisfies the per-entry condition
    [valid_xibc_entry] — the client state validates under a valid chain name,
    each consensus state validates, has the client's type and a non-zero height
    (zero allowed for ETH / BSC), metadata values are non-empty, relayers pass
    [IdentifiedRelayer.Validate], packet entries carry valid chain names, a
    non-zero sequence and data, the native chain name is valid.  Both
    directions: the condition is sufficient (the property) and necessary (so
    the hypothesis of the positive theorem cannot be weakened). *)
From Teleport Require Import Base.Bytes Base.Outcome Base.AList Base.Fmt Gen.KeysGen Model.Keys Model.Genesis.
From Teleport Require Import Proofs.Keys Proofs.KeysParse Proofs.GenesisStore Proofs.GenesisKeys Proofs.GenesisXibc.
Local Open Scope N_scope.

(** * Lists: groups are never empty, [lookup_last] on a list with unique names *)
Lemma group_add_nonempty {X} name (x : X) g :
  (forall n ys, In (n, ys) g -> ys <> []) -> forall n ys, In (n, ys) (group_add name x g) -> ys <> [].
Proof.
  induction g as [|[m xs] g IH]; intros H n ys I; cbn in I.
  - destruct I as [I|[]]. inversion I; subst. discriminate.
  - destruct (bytes_eqb m name).
    + destruct I as [I|I].
      * inversion I; subst. destruct xs; discriminate.
      * apply (H n ys). right. exact I.
    + destruct I as [I|I].
      * inversion I; subst. apply (H n ys). left. reflexivity.
      * apply (IH (fun n' ys' I' => H n' ys' (or_intror I')) n ys I).
Qed.

Lemma group_by_name_nonempty {X} (l : list (bytes * X)) n ys : In (n, ys) (group_by_name l) -> ys <> [].
Proof.
  unfold group_by_name.
  assert (G : forall g, (forall n ys, In (n, ys) g -> ys <> []) ->
                        forall n ys, In (n, ys) (fold_left (fun g nx => group_add (fst nx) (snd nx) g) l g) -> ys <> []).
  { induction l as [|[m x] l IH]; intros g H; cbn [fold_left]; [exact H|].
    apply IH. apply group_add_nonempty. exact H. }
  apply G. intros ? ? [].
Qed.

Lemma lookup_last_in {X} name (l : list (bytes * X)) x : lookup_last name l = Some x -> In (name, x) l.
Proof.
  induction l as [|[n y] l IH]; cbn; [discriminate|].
  destruct (lookup_last name l) as [z|] eqn:E.
  - intros [= <-]. right. apply IH. reflexivity.
  - destruct (bytes_eqb_spec n name) as [->|N]; [|discriminate]. intros [= <-]. left. reflexivity.
Qed.

Lemma lookup_last_unique {X} name (l : list (bytes * X)) x :
  (forall y z, In (name, y) l -> In (name, z) l -> y = z) -> In (name, x) l -> lookup_last name l = Some x.
Proof.
  induction l as [|[n y] l IH]; intros U I; [destruct I|]. cbn.
  destruct (lookup_last name l) as [z|] eqn:E.
  - apply lookup_last_in in E. f_equal. apply U; [right; exact E | exact I].
  - destruct I as [I|I].
    + inversion I; subst. rewrite bytes_eqb_refl. reflexivity.
    + exfalso. enough (L : @None X = Some x) by discriminate.
      apply IH; [intros a b Ia Ib; apply U; right; assumption | exact I].
Qed.

(** * The metadata paths are neither the client state key nor a consensus state key (regenerated constants) *)
Lemma prefix_not_client_state p k :
  is_prefix p host_KeyClientState = false -> is_prefix p k = true -> bytes_eqb k host_KeyClientState = false.
Proof.
  intros F P. destruct (bytes_eqb k host_KeyClientState) eqn:E; [|reflexivity].
  rewrite (prefix_of_eq _ _ P _ E) in F. discriminate.
Qed.

Lemma prefix_not_consensus_key p k :
  incomparable p (host_KeyConsensusStatePrefix ++ [sep]) = true -> is_prefix p k = true -> parse_consensus_state_key k = None.
Proof.
  intros I P. unfold parse_consensus_state_key.
  destruct (strip (host_KeyConsensusStatePrefix ++ [sep]) k) as [hb|] eqn:S; [|reflexivity].
  apply strip_some in S. pose proof (prefix_exclusive _ _ _ I P) as Q. rewrite S, is_prefix_app in Q. discriminate.
Qed.

Lemma metadata_path_not_state t k :
  metadata_path t k = true ->
  bytes_eqb k host_KeyClientState = false /\ parse_consensus_state_key k = None /\ k <> [].
Proof.
  destruct t; unfold metadata_path; intro M.
  - apply orb_true_iff in M as [M|M].
    + apply andb_true_iff in M as [P G]. refine (conj _ (conj _ _)).
      * apply (prefix_not_client_state host_KeyConsensusStatePrefix); [reflexivity | exact P].
      * unfold iter_processed_time in G. destruct (parse_consensus_state_key k); [discriminate | reflexivity].
      * apply (is_prefix_nonempty host_KeyConsensusStatePrefix); [discriminate | exact P].
    + refine (conj _ (conj _ _)).
      * apply (prefix_not_client_state tm_KeyIterateConsensusStatePrefix); [reflexivity | exact M].
      * apply (prefix_not_consensus_key tm_KeyIterateConsensusStatePrefix); [reflexivity | exact M].
      * apply (is_prefix_nonempty tm_KeyIterateConsensusStatePrefix); [discriminate | exact M].
  - apply orb_true_iff in M as [M|M]; refine (conj _ (conj _ _)).
    + apply (prefix_not_client_state bsc_PrefixKeyRecentSingers); [reflexivity | exact M].
    + apply (prefix_not_consensus_key bsc_PrefixKeyRecentSingers); [reflexivity | exact M].
    + apply (is_prefix_nonempty bsc_PrefixKeyRecentSingers); [discriminate | exact M].
    + apply (prefix_not_client_state bsc_PrefixPendingValidators); [reflexivity | exact M].
    + apply (prefix_not_consensus_key bsc_PrefixPendingValidators); [reflexivity | exact M].
    + apply (is_prefix_nonempty bsc_PrefixPendingValidators); [discriminate | exact M].
  - apply orb_true_iff in M as [M|M]; refine (conj _ (conj _ _)).
    + apply (prefix_not_client_state eth_KeyIndexEthHeaderPrefix); [reflexivity | exact M].
    + apply (prefix_not_consensus_key eth_KeyIndexEthHeaderPrefix); [reflexivity | exact M].
    + apply (is_prefix_nonempty eth_KeyIndexEthHeaderPrefix); [discriminate | exact M].
    + apply (prefix_not_client_state eth_KeyMainRootPrefix); [reflexivity | exact M].
    + apply (prefix_not_consensus_key eth_KeyMainRootPrefix); [reflexivity | exact M].
    + apply (is_prefix_nonempty eth_KeyMainRootPrefix); [discriminate | exact M].
  - discriminate.
Qed.

Section Valid.
  Variables CS CONS : Type.
  Variable cs_unmarshal : bytes -> option CS.
  Variable cs_marshal : CS -> bytes.
  Variable cs_type : CS -> ctype.
  Variable cs_valid : CS -> bool.
  Variable cons_unmarshal : bytes -> option CONS.
  Variable cons_marshal : CONS -> bytes.
  Variable cons_type : CONS -> ctype.
  Variable cons_valid : CONS -> bool.
  Variable rel_unmarshal : bytes -> option relayer.
  Variable rel_marshal : relayer -> bytes.
  Variable acc_addr_ok : bytes -> bool.

  Notation wf_xibc := (wf_xibc CS CONS cs_unmarshal cs_marshal cs_type cons_unmarshal cons_marshal rel_unmarshal rel_marshal).
  Notation wf_client_entry := (wf_client_entry CS CONS cs_unmarshal cs_marshal cs_type cons_unmarshal cons_marshal).
  Notation client_type_of := (client_type_of CS cs_unmarshal cs_type).
  Notation valid_xibc := (valid_xibc CS CONS cs_unmarshal cs_type cs_valid cons_unmarshal cons_type cons_valid rel_unmarshal acc_addr_ok).
  Notation valid_xibc_entry := (valid_xibc_entry CS CONS cs_unmarshal cs_type cs_valid cons_unmarshal cons_type cons_valid rel_unmarshal acc_addr_ok).
  Notation valid_client_entry := (valid_client_entry CS CONS cs_unmarshal cs_type cs_valid cons_unmarshal cons_type cons_valid).
  Notation validate_client := (validate_client CS CONS cs_type cs_valid cons_type cons_valid acc_addr_ok).
  Notation validate_xibc := (validate_xibc CS CONS cs_type cs_valid cons_type cons_valid acc_addr_ok).
  Notation relayer_valid := (relayer_valid acc_addr_ok).
  Notation cg := (the_client_genesis CS CONS cs_unmarshal cs_type cons_unmarshal rel_unmarshal).
  Notation clients_of := (clients_of CS cs_unmarshal).
  Notation consensus_of := (consensus_of CONS cons_unmarshal).
  Notation relayers_of := (relayers_of rel_unmarshal).
  Notation export_xibc := (export_xibc CS CONS cs_unmarshal cs_type cons_unmarshal rel_unmarshal).

  Section WithStore.
    Variable s : store.
    Hypothesis WF : wf_xibc s = true.

    Let sorted_s : sorted s = true := wf_sorted _ _ _ _ _ _ _ _ _ s WF.

    (** the branch [valid_xibc_entry] takes, per family *)
    Lemma valid_clients_branch k v :
      is_prefix host_KeyClientStorePrefix k = true -> valid_xibc_entry s (k, v) = valid_client_entry s k v.
    Proof. intro P. unfold Genesis.valid_xibc_entry. rewrite P. reflexivity. Qed.

    Lemma valid_chain_name_branch v : valid_xibc_entry s (chain_name_key, v) = valid_chain_name v.
    Proof.
      unfold Genesis.valid_xibc_entry.
      rewrite (chain_name_no_prefix host_KeyClientStorePrefix chain_name_key ltac:(in_prefixes) (bytes_eqb_refl _)), bytes_eqb_refl.
      reflexivity.
    Qed.

    Lemma valid_relayers_branch k v :
      is_prefix clienttypes_KeyRelayers k = true ->
      valid_xibc_entry s (k, v) = match rel_unmarshal v with Some r => relayer_valid r | None => false end.
    Proof.
      intro P. unfold Genesis.valid_xibc_entry.
      rewrite (not_chain_name clienttypes_KeyRelayers k ltac:(in_prefixes) P).
      rewrite (prefix_exclusive clienttypes_KeyRelayers host_KeyClientStorePrefix k eq_refl P), P. reflexivity.
    Qed.

    Lemma valid_acks_branch k v :
      is_prefix host_KeyPacketAckPrefix k = true -> valid_xibc_entry s (k, v) = valid_packet_entry k v true.
    Proof.
      intro P. unfold Genesis.valid_xibc_entry.
      rewrite (not_chain_name host_KeyPacketAckPrefix k ltac:(in_prefixes) P).
      rewrite (prefix_exclusive host_KeyPacketAckPrefix host_KeyClientStorePrefix k eq_refl P),
              (prefix_exclusive host_KeyPacketAckPrefix clienttypes_KeyRelayers k eq_refl P), P. reflexivity.
    Qed.

    Lemma valid_comms_branch k v :
      is_prefix host_KeyPacketCommitmentPrefix k = true -> valid_xibc_entry s (k, v) = valid_packet_entry k v true.
    Proof.
      intro P. unfold Genesis.valid_xibc_entry.
      rewrite (not_chain_name host_KeyPacketCommitmentPrefix k ltac:(in_prefixes) P).
      rewrite (prefix_exclusive host_KeyPacketCommitmentPrefix host_KeyClientStorePrefix k eq_refl P),
              (prefix_exclusive host_KeyPacketCommitmentPrefix clienttypes_KeyRelayers k eq_refl P),
              (prefix_exclusive host_KeyPacketCommitmentPrefix host_KeyPacketAckPrefix k eq_refl P), P. reflexivity.
    Qed.

    Lemma valid_rcpts_branch k v :
      is_prefix host_KeyPacketReceiptPrefix k = true -> valid_xibc_entry s (k, v) = valid_packet_entry k v true.
    Proof.
      intro P. unfold Genesis.valid_xibc_entry.
      rewrite (not_chain_name host_KeyPacketReceiptPrefix k ltac:(in_prefixes) P).
      rewrite (prefix_exclusive host_KeyPacketReceiptPrefix host_KeyClientStorePrefix k eq_refl P),
              (prefix_exclusive host_KeyPacketReceiptPrefix clienttypes_KeyRelayers k eq_refl P),
              (prefix_exclusive host_KeyPacketReceiptPrefix host_KeyPacketAckPrefix k eq_refl P),
              (prefix_exclusive host_KeyPacketReceiptPrefix host_KeyPacketCommitmentPrefix k eq_refl P), P. reflexivity.
    Qed.

    Lemma valid_seqs_branch k v :
      is_prefix host_KeyNextSeqSendPrefix k = true ->
      valid_xibc_entry s (k, v) = match parse_path k, sdk_be_to_uint64 v with
                                  | Ok (a, b), Ok n => validate_gen_fields a b n
                                  | _, _ => false end.
    Proof.
      intro P. unfold Genesis.valid_xibc_entry.
      rewrite (not_chain_name host_KeyNextSeqSendPrefix k ltac:(in_prefixes) P).
      rewrite (prefix_exclusive host_KeyNextSeqSendPrefix host_KeyClientStorePrefix k eq_refl P),
              (prefix_exclusive host_KeyNextSeqSendPrefix clienttypes_KeyRelayers k eq_refl P),
              (prefix_exclusive host_KeyNextSeqSendPrefix host_KeyPacketAckPrefix k eq_refl P),
              (prefix_exclusive host_KeyNextSeqSendPrefix host_KeyPacketCommitmentPrefix k eq_refl P),
              (prefix_exclusive host_KeyNextSeqSendPrefix host_KeyPacketReceiptPrefix k eq_refl P), P. reflexivity.
    Qed.

    (** names are unique among the exported clients *)
    Lemma clients_unique name c1 c2 : In (name, c1) (clients_of s) -> In (name, c2) (clients_of s) -> c1 = c2.
    Proof.
      intros I1 I2. apply in_clients_of in I1 as [v1 [I1 [U1 _]]]. apply in_clients_of in I2 as [v2 [I2 [U2 _]]].
      rewrite (sorted_in_unique _ _ _ _ sorted_s I1 I2) in U1. rewrite U1 in U2. inversion U2. reflexivity.
    Qed.

    Lemma lookup_client name c :
      In (name, c) (clients_of s) -> lookup_last name (g_clients _ _ (cg s)) = Some c.
    Proof.
      intro I. cbn [g_clients the_client_genesis]. unfold the_clients. apply lookup_last_unique.
      - intros y z Iy Iz. apply sort_by_name_in1 in Iy, Iz. eapply clients_unique; eassumption.
      - apply sort_by_name_in2. exact I.
    Qed.

    Lemma lookup_client_inv name c :
      lookup_last name (g_clients _ _ (cg s)) = Some c -> In (name, c) (clients_of s).
    Proof. intro L. apply lookup_last_in in L. cbn [g_clients the_client_genesis] in L. apply sort_by_name_in1 in L. exact L. Qed.

    (** ** Sufficiency: every entry valid => the export validates *)
    Section Sufficient.
      Hypothesis V : forall kv, In kv s -> valid_xibc_entry s kv = true.

      Lemma suff_clients : forallb (fun nc => valid_chain_name (fst nc) && cs_valid (snd nc)) (g_clients _ _ (cg s)) = true.
      Proof.
        apply forallb_forall. intros [name c] I. cbn [g_clients the_client_genesis] in I. apply sort_by_name_in1 in I.
        apply in_clients_of in I as [v [I [U N]]]. pose proof (V _ I) as W.
        rewrite valid_clients_branch in W by (rewrite full_client_state_key_split; apply is_prefix_client_store).
        unfold Genesis.valid_client_entry in W. rewrite full_client_state_key_split, (parse_client_key_prefix _ _ N), bytes_eqb_refl, U in W.
        exact W.
      Qed.

      Lemma suff_consensus :
        forallb (fun ncs =>
           match lookup_last (fst ncs) (g_clients _ _ (cg s)) with
           | None => false
           | Some c => forallb (fun hc => negb (height_is_zero (fst hc) && negb (has_height_zero (cs_type c)))
                                          && cons_valid (snd hc) && ctype_eqb (cs_type c) (cons_type (snd hc))) (snd ncs)
           end) (g_consensus _ _ (cg s)) = true.
      Proof.
        apply forallb_forall. intros [name ys] I. cbn [g_consensus the_client_genesis] in I. apply sort_by_name_in1 in I.
        cbn [fst snd].
        assert (E : forall h c, In (h, c) ys ->
                   exists c0, In (name, c0) (clients_of s) /\
                     negb (height_is_zero h && negb (has_height_zero (cs_type c0))) && cons_valid c && ctype_eqb (cs_type c0) (cons_type c) = true).
        { intros h c Ih.
          assert (X : In (name, (h, c)) (consensus_of s)) by (apply group_by_name_in; exists ys; auto).
          apply in_consensus_of in X as [v [X [U [N Vh]]]]. pose proof (V _ X) as W.
          rewrite valid_clients_branch in W by (rewrite full_consensus_key_split; apply is_prefix_client_store).
          unfold Genesis.valid_client_entry in W.
          rewrite full_consensus_key_split, (parse_client_key_prefix _ _ N), consensus_key_not_client_state,
                  (parse_consensus_state_key_roundtrip h Vh), U in W.
          destruct (client_type_of name s) as [t|] eqn:T; [|discriminate].
          apply (client_type_of_spec _ _ _ _ _ _ _ _ _ s WF name t N) in T as [c0 [Ic <-]]. exists c0. auto. }
        destruct ys as [|[h c] ys'] eqn:Ey; [exfalso; eapply group_by_name_nonempty; eauto|].
        destruct (E h c (or_introl eq_refl)) as [c0 [Ic _]]. rewrite (lookup_client _ _ Ic).
        apply forallb_forall. intros [h' c'] Ih. cbn [fst snd]. destruct (E h' c' Ih) as [c1 [Ic1 W]].
        rewrite (clients_unique _ _ _ Ic Ic1). exact W.
      Qed.

      Lemma suff_metadata :
        forallb (fun igm =>
           match lookup_last (fst igm) (g_clients _ _ (cg s)) with
           | None => false
           | Some _ => forallb (fun md => negb (is_nil (fst md)) && negb (is_nil (snd md))) (snd igm)
           end) (g_metadata _ _ (cg s)) = true.
      Proof.
        apply forallb_forall. intros [name gms] I. cbn [fst snd].
        assert (Ic : exists c, In (name, c) (clients_of s)).
        { cbn [g_metadata the_client_genesis] in I. unfold all_client_metadata in I. apply in_flat_map in I as [[n c] [Ic I]].
          cbn [fst snd] in I. destruct (is_nil _); [destruct I|]. destruct I as [I|[]]. inversion I; subst.
          exists c. apply sort_by_name_in1 in Ic. exact Ic. }
        destruct Ic as [c Ic]. rewrite (lookup_client _ _ Ic).
        apply forallb_forall. intros [k v] K. cbn [fst snd].
        assert (X : exists gms, In (name, gms) (g_metadata _ _ (cg s)) /\ In (k, v) gms) by (exists gms; auto).
        apply in_the_metadata in X as [c' [Ic' [X M]]].
        apply in_clients_of in Ic' as [_ [_ [_ N]]].
        destruct (metadata_path_not_state _ _ M) as [M1 [M2 M3]].
        pose proof (V _ X) as W. rewrite valid_clients_branch in W by apply is_prefix_client_store.
        unfold Genesis.valid_client_entry in W. rewrite (parse_client_key_prefix _ _ N), M1, M2 in W.
        rewrite W. destruct k; [congruence | reflexivity].
      Qed.

      Lemma suff_relayers : forallb relayer_valid (g_relayers _ _ (cg s)) = true.
      Proof.
        apply forallb_forall. intros r I. cbn [g_relayers the_client_genesis] in I. unfold GenesisXibc.relayers_of in I.
        apply in_flat_map in I as [[k v] [I H]]. apply in_prefix_iter in I as [I P]. cbn [fst snd] in *.
        pose proof (V _ I) as W. rewrite (valid_relayers_branch _ _ P) in W.
        destruct (rel_unmarshal v) as [r'|]; [|destruct H]. destruct H as [H|[]]. subst r'. exact W.
      Qed.

      Lemma suff_native : valid_chain_name (g_native _ _ (cg s)) = true.
      Proof.
        destruct (wf_chain_name _ _ _ _ _ _ _ _ _ s WF) as [v I]. cbn [g_native the_client_genesis]. unfold get_chain_name.
        rewrite (aget_in_sorted _ _ _ sorted_s I). pose proof (V _ I) as W. rewrite valid_chain_name_branch in W. exact W.
      Qed.

      Lemma suff_hashes p :
        (forall k v, is_prefix p k = true -> valid_xibc_entry s (k, v) = valid_packet_entry k v true) ->
        forallb validate_packet_state (packets_of p s) = true.
      Proof.
        intro B. apply forallb_forall. intros x I. unfold packets_of in I. apply in_flat_map in I as [[k v] [I H]].
        apply in_prefix_iter in I as [I P]. cbn [fst snd] in *. pose proof (V _ I) as W. rewrite (B _ _ P) in W.
        unfold valid_packet_entry in W. destruct (iterate_hashes_parse k) as [t| |]; try discriminate.
        destruct H as [H|[]]. subst x. unfold validate_packet_state. cbn [ps_src ps_dst ps_seq ps_data].
        apply andb_true_iff in W as [W1 W2]. cbn [negb orb] in W2. rewrite W1, W2. reflexivity.
      Qed.

      Lemma suff_seqs :
        forallb (fun x => validate_gen_fields (fst (fst x)) (snd (fst x)) (snd x))
                (seqs_of_list (prefix_iter host_KeyNextSeqSendPrefix s)) = true.
      Proof.
        apply forallb_forall. intros [[a b] n] I. unfold seqs_of_list in I. apply in_flat_map in I as [[k v] [I H]].
        apply in_prefix_iter in I as [I P]. cbn [fst snd] in *. pose proof (V _ I) as W. rewrite (valid_seqs_branch _ _ P) in W.
        destruct (wf_hashes _ _ _ _ _ _ _ _ _ s WF _ _ I) as [_ [_ [_ Wf]]]. destruct (Wf P) as [a' [b' [PP [_ L]]]].
        rewrite PP in H, W. destruct H as [H|[]]. inversion H; subst a' b' n.
        destruct (sdk_be_to_uint64_8 v L) as [B _]. rewrite B in W. exact W.
      Qed.

      Lemma sufficient : validate_xibc (cg s, the_packet_genesis s) = true.
      Proof.
        unfold Genesis.validate_xibc, Genesis.validate_client, validate_packet. cbn [fst snd].
        rewrite suff_clients, suff_consensus, suff_metadata, suff_relayers, suff_native. cbn [andb].
        cbn [g_acks g_commitments g_receipts g_send_seqs the_packet_genesis].
        rewrite (suff_hashes _ valid_acks_branch), (suff_hashes _ valid_rcpts_branch), (suff_hashes _ valid_comms_branch), suff_seqs.
        reflexivity.
      Qed.
    End Sufficient.

    (** ** Necessity: the export validates => every entry is valid *)
    Section Necessary.
      Hypothesis V : validate_xibc (cg s, the_packet_genesis s) = true.

      Let Vc : validate_client (cg s) = true.
      Proof. unfold Genesis.validate_xibc in V. apply andb_true_iff in V as [A _]. exact A. Qed.
      Let Vp : validate_packet (the_packet_genesis s) = true.
      Proof. unfold Genesis.validate_xibc in V. apply andb_true_iff in V as [_ A]. exact A. Qed.

      Lemma nec_parts :
        forallb (fun nc => valid_chain_name (fst nc) && cs_valid (snd nc)) (g_clients _ _ (cg s)) = true /\
        forallb (fun ncs =>
           match lookup_last (fst ncs) (g_clients _ _ (cg s)) with
           | None => false
           | Some c => forallb (fun hc => negb (height_is_zero (fst hc) && negb (has_height_zero (cs_type c)))
                                          && cons_valid (snd hc) && ctype_eqb (cs_type c) (cons_type (snd hc))) (snd ncs)
           end) (g_consensus _ _ (cg s)) = true /\
        forallb (fun igm =>
           match lookup_last (fst igm) (g_clients _ _ (cg s)) with
           | None => false
           | Some _ => forallb (fun md => negb (is_nil (fst md)) && negb (is_nil (snd md))) (snd igm)
           end) (g_metadata _ _ (cg s)) = true /\
        forallb relayer_valid (g_relayers _ _ (cg s)) = true /\
        valid_chain_name (g_native _ _ (cg s)) = true.
      Proof.
        pose proof Vc as A. unfold Genesis.validate_client in A.
        apply andb_true_iff in A as [A A5]. apply andb_true_iff in A as [A A4]. apply andb_true_iff in A as [A A3].
        apply andb_true_iff in A as [A1 A2]. auto.
      Qed.

      Lemma nec_hashes p render_key k v :
        In (k, v) s -> is_prefix p k = true -> wf_packet_key render_key k = true ->
        (forall x, In x (packets_of p s) -> validate_packet_state x = true) -> valid_packet_entry k v true = true.
      Proof.
        intros I P W B. unfold wf_packet_key in W. unfold valid_packet_entry.
        destruct (iterate_hashes_parse k) as [t| |] eqn:T; try discriminate.
        specialize (B {| ps_src := t_src t; ps_dst := t_dst t; ps_seq := t_seq t; ps_data := v |}).
        unfold validate_packet_state in B. cbn [ps_src ps_dst ps_seq ps_data] in B. cbn [negb orb].
        rewrite andb_comm. apply B. unfold packets_of. apply in_flat_map. exists (k, v).
        split; [apply in_prefix_iter; auto|]. cbn [fst snd]. rewrite T. left; reflexivity.
      Qed.

      Lemma necessary kv : In kv s -> valid_xibc_entry s kv = true.
      Proof.
        destruct kv as [k v]. intro I. destruct nec_parts as [A1 [A2 [A3 [A4 A5]]]].
        pose proof Vp as B. unfold validate_packet in B.
        apply andb_true_iff in B as [B B4]. apply andb_true_iff in B as [B B3]. apply andb_true_iff in B as [B1 B2].
        cbn [g_acks g_commitments g_receipts g_send_seqs the_packet_genesis] in B1, B2, B3, B4.
        rewrite forallb_forall in A1, A2, A3, A4, B1, B2, B3, B4.
        destruct (wf_family _ _ _ _ _ _ _ _ _ s WF _ _ I) as [P|[E|[P|[P|[P|[P|P]]]]]].
        - (* under "clients" *)
          rewrite (valid_clients_branch _ _ P). pose proof (wf_clients _ _ _ _ _ _ _ _ _ s WF _ _ I P) as W.
          unfold Genesis.wf_client_entry in W. unfold Genesis.valid_client_entry.
          destruct (parse_client_key k) as [[name path]|] eqn:PK; [|discriminate].
          apply parse_client_key_exact in PK as [-> N].
          destruct (bytes_eqb_spec path host_KeyClientState) as [->|NE].
          + unfold canonical_cs in W. destruct (cs_unmarshal v) as [c|] eqn:U; [|discriminate].
            assert (Ic : In (name, c) (clients_of s)) by (apply in_clients_of; exists v; rewrite full_client_state_key_split; auto).
            apply (A1 (name, c)). cbn [g_clients the_client_genesis]. apply sort_by_name_in2. exact Ic.
          + destruct (parse_consensus_state_key path) as [h|] eqn:PC.
            * apply parse_consensus_state_key_exact in PC as [-> Vh].
              unfold canonical_cons in W. destruct (cons_unmarshal v) as [c|] eqn:U; [|discriminate].
              assert (X : In (name, (h, c)) (consensus_of s)).
              { apply in_consensus_of. exists v. rewrite full_consensus_key_split. auto. }
              apply group_by_name_in in X as [ys [X Y]].
              assert (X' : In (name, ys) (g_consensus _ _ (cg s))) by (cbn [g_consensus the_client_genesis]; apply sort_by_name_in2; exact X).
              specialize (A2 _ X'). cbn [fst snd] in A2.
              destruct (lookup_last name (g_clients _ _ (cg s))) as [c0|] eqn:L; [|discriminate].
              apply lookup_client_inv in L.
              assert (T : client_type_of name s = Some (cs_type c0)).
              { apply (client_type_of_spec _ _ _ _ _ _ _ _ _ s WF name _ N). exists c0. auto. }
              rewrite T. rewrite forallb_forall in A2. apply (A2 (h, c) Y).
            * destruct (client_type_of name s) as [t|] eqn:T; [|discriminate]. apply andb_true_iff in W as [M _].
              apply (client_type_of_spec _ _ _ _ _ _ _ _ _ s WF name t N) in T as [c [Ic Et]]. subst t.
              assert (X : exists gms, In (name, gms) (g_metadata _ _ (cg s)) /\ In (path, v) gms).
              { apply in_the_metadata. exists c. auto. }
              destruct X as [gms [X Y]]. specialize (A3 _ X). cbn [fst snd] in A3.
              destruct (lookup_last name (g_clients _ _ (cg s))); [|discriminate].
              rewrite forallb_forall in A3. specialize (A3 _ Y). cbn [fst snd] in A3. apply andb_true_iff in A3 as [_ A3]. exact A3.
        - (* chain name *)
          subst k. rewrite valid_chain_name_branch. cbn [g_native the_client_genesis] in A5. unfold get_chain_name in A5.
          rewrite (aget_in_sorted _ _ _ sorted_s I) in A5. exact A5.
        - (* relayers *)
          rewrite (valid_relayers_branch _ _ P). destruct (wf_relayers _ _ _ _ _ _ _ _ _ s WF _ _ I P) as [r [U _]]. rewrite U.
          apply A4. cbn [g_relayers the_client_genesis]. unfold GenesisXibc.relayers_of. apply in_flat_map. exists (k, v).
          split; [apply in_prefix_iter; auto|]. cbn [snd]. rewrite U. left; reflexivity.
        - rewrite (valid_acks_branch _ _ P).
          apply (nec_hashes _ packet_ack_key k v I P (proj1 (wf_hashes _ _ _ _ _ _ _ _ _ s WF _ _ I) P) B1).
        - rewrite (valid_comms_branch _ _ P).
          apply (nec_hashes _ packet_commitment_key k v I P (proj1 (proj2 (wf_hashes _ _ _ _ _ _ _ _ _ s WF _ _ I)) P) B3).
        - rewrite (valid_rcpts_branch _ _ P).
          apply (nec_hashes _ packet_receipt_key k v I P (proj1 (proj1 (proj2 (proj2 (wf_hashes _ _ _ _ _ _ _ _ _ s WF _ _ I))) P)) B2).
        - rewrite (valid_seqs_branch _ _ P).
          destruct (wf_hashes _ _ _ _ _ _ _ _ _ s WF _ _ I) as [_ [_ [_ Wf]]]. destruct (Wf P) as [a [b [PP [_ L]]]].
          rewrite PP. destruct (sdk_be_to_uint64_8 v L) as [Bv _]. rewrite Bv.
          apply (B4 ((a, b), be_val v)). unfold seqs_of_list. apply in_flat_map. exists (k, v).
          split; [apply in_prefix_iter; auto|]. cbn [fst snd]. rewrite PP. left; reflexivity.
      Qed.
    End Necessary.

    Theorem xibc_validate_iff : validate_xibc (cg s, the_packet_genesis s) = valid_xibc s.
    Proof.
      apply Bool.eq_iff_eq_true. unfold Genesis.valid_xibc. rewrite forallb_forall. split.
      - intros V kv I. apply necessary; assumption.
      - intro V. apply sufficient. exact V.
    Qed.

    (** stated on the exporter itself *)
    Theorem export_xibc_validates_iff g : export_xibc s = Ok g -> validate_xibc g = valid_xibc s.
    Proof.
      intro E. rewrite (export_xibc_ok _ _ _ _ _ _ _ _ _ s WF) in E. inversion E; subst g. apply xibc_validate_iff.
    Qed.
  End WithStore.
End Valid.
