(** * C14 — the replay monitor means what it says

    [replay_disagreements cases = []] iff in every case every replay's trace EQUALS the reference trace
    (all ten observed fields of every operation, including the application hash after every block). *)
From Coq Require Import List String NArith Bool Lia.
From Teleport Require Import Model.ReplayCheck.
Import ListNotations.

Lemma obs_diff_0 (a b : obs) : obs_diff a b = 0 <-> a = b.
Proof.
  split.
  - unfold obs_diff. destruct a, b; cbn.
    repeat match goal with
    | |- context [N.eqb ?x ?y] => destruct (N.eqb_spec x y); cbn; try discriminate
    end.
    intros _. congruence.
  - intros <-. unfold obs_diff. rewrite !N.eqb_refl. reflexivity.
Qed.

Lemma trace_diffs_nil (t1 t2 : list obs) : forall i, trace_diffs i t1 t2 = [] <-> t1 = t2.
Proof.
  revert t2; induction t1 as [|a r1 IH]; intros [|b r2] i; cbn; split; intro H; try reflexivity; try discriminate.
  - destruct (obs_diff a b) eqn:D; [|discriminate].
    apply obs_diff_0 in D. apply IH in H. congruence.
  - inversion H; subst. assert (D : obs_diff b b = 0) by (apply obs_diff_0; reflexivity).
    rewrite D. apply IH. reflexivity.
Qed.

Lemma traces_agree_eq (t1 t2 : list obs) : traces_agree t1 t2 = true <-> t1 = t2.
Proof.
  unfold traces_agree. destruct (trace_diffs 0 t1 t2) eqn:E.
  - apply trace_diffs_nil in E. split; auto.
  - split; [discriminate|]. intro H. apply (trace_diffs_nil t1 t2 0) in H. congruence.
Qed.

Lemma case_diffs_nil (ref : list obs) (others : list (list obs)) :
  case_diffs (ref :: others) = [] <-> forall t, In t others -> t = ref.
Proof.
  cbn. induction others as [|t ts IH]; cbn.
  - split; auto. intros _ ? [].
  - split.
    + intro H. apply app_eq_nil in H as [H1 H2]. apply trace_diffs_nil in H1.
      intros t' [<-|I]; auto. apply IH; auto.
    + intro H.
      assert (E1 : trace_diffs 0 ref t = []) by (apply trace_diffs_nil; symmetry; apply H; auto).
      rewrite E1. cbn. apply IH. intros; apply H; auto.
Qed.

Lemma flat_map_nil {A B} (f : A -> list B) (l : list A) : flat_map f l = [] <-> forall x, In x l -> f x = [].
Proof.
  induction l as [|a l IH]; cbn; split; auto.
  - intros _ ? [].
  - intro H. apply app_eq_nil in H as [H1 H2]. intros x [<-|I]; auto. apply IH; auto.
  - intro H. rewrite (H a) by auto. cbn. apply IH. intros; apply H; auto.
Qed.

Lemma number_from_In {A} (l : list A) : forall i x, In x l -> exists j, In (j, x) (number_from i l).
Proof.
  induction l as [|a l IH]; intros i x []; cbn.
  - subst. exists i; auto.
  - destruct (IH (S i) x H) as [j Hj]. exists j; auto.
Qed.

(** monitor soundness: no reported disagreement => every replay of every history equals the reference replay *)
Theorem replay_monitor_sound (cases : list (list (list obs))) :
  replay_disagreements cases = [] ->
  forall ref others, In (ref :: others) cases -> forall t, In t others -> t = ref.
Proof.
  unfold replay_disagreements. intros H ref others I t It.
  destruct (number_from_In cases 0 _ I) as [j Hj].
  pose proof (proj1 (flat_map_nil _ _) H (j, ref :: others) Hj) as E. cbn [fst snd] in E.
  apply map_eq_nil in E. apply (proj1 (case_diffs_nil ref others) E). exact It.
Qed.

(** and it is complete: equal traces are never reported *)
Theorem replay_monitor_complete (cases : list (list (list obs))) :
  (forall ref others, In (ref :: others) cases -> forall t, In t others -> t = ref) ->
  (forall c, In c cases -> c <> []) ->
  replay_disagreements cases = [].
Proof.
  intros H NE. unfold replay_disagreements. apply flat_map_nil. intros [j c] I. cbn [fst snd].
  assert (Ic : In c cases).
  { clear -I. revert I. generalize 0. induction cases as [|a l IH]; cbn; intros n []; auto.
    - inversion H; subst; auto.
    - right. eapply IH; eauto. }
  destruct c as [|ref others]; [exfalso; eapply NE; eauto|].
  rewrite (proj2 (case_diffs_nil ref others)); [reflexivity|]. intros; eapply H; eauto.
Qed.
