(** Basic facts about the packet model: uint64 codec round trip, inversion ("spec") lemmas of the keeper
    functions, frame lemmas.  Shared by Proofs/PacketC01 C02 C04 C05. *)
From Teleport Require Import Base.Bytes Base.Outcome Base.AList Model.Packet.
From Coq Require Import ZifyN ZifyNat.
Local Open Scope N_scope.

(** ** big-endian codec *)
Lemma byte_of_N_to_N n : Byte.to_N (byte_of_N n) = n mod 256.
Proof.
  unfold byte_of_N. destruct (Byte.of_N (n mod 256)) eqn:E.
  - apply Byte.to_of_N in E. exact E.
  - apply Byte.of_N_None_iff in E. assert (n mod 256 < 256) by (apply N.mod_lt; discriminate). lia.
Qed.

Lemma unbe_app l x : unbe (l ++ [x]) = unbe l * 256 + Byte.to_N x.
Proof. unfold unbe. rewrite fold_left_app. reflexivity. Qed.

Lemma unbe_be_bytes k n : unbe (be_bytes k n) = n mod 256 ^ N.of_nat k.
Proof.
  revert n; induction k as [|k IH]; intro n.
  - cbn. rewrite N.mod_1_r. reflexivity.
  - cbn [be_bytes]. rewrite unbe_app, IH, byte_of_N_to_N.
    rewrite Nat2N.inj_succ, N.pow_succ_r'.
    rewrite (N.mod_mul_r n 256 (256 ^ N.of_nat k)) by (try discriminate; apply N.pow_nonzero; discriminate).
    lia.
Qed.

Lemma length_be_bytes k n : length (be_bytes k n) = k.
Proof. revert n; induction k as [|k IH]; intro n; cbn; [reflexivity|]. rewrite app_length, IH. cbn. lia. Qed.

Lemma unbe_be64 n : unbe (be64 n) = n mod two64.
Proof. unfold be64. rewrite unbe_be_bytes. reflexivity. Qed.

Lemma length_be64 n : length (be64 n) = 8%nat.
Proof. apply length_be_bytes. Qed.

Lemma unbe_bound l : unbe l < 256 ^ N.of_nat (length l).
Proof.
  induction l as [|x l IH] using rev_ind.
  - cbn. lia.
  - rewrite unbe_app, app_length. cbn [length]. rewrite Nat.add_1_r, Nat2N.inj_succ, N.pow_succ_r'.
    assert (Byte.to_N x < 256) by (pose proof (Byte.to_N_bounded x); lia). lia.
Qed.

Lemma add64_lt a b : add64 a b < two64.
Proof. unfold add64. apply N.mod_lt. discriminate. Qed.

Lemma add64_succ n : n < two64 -> (n + 1 < two64 /\ add64 n 1 = n + 1) \/ (n = two64 - 1 /\ add64 n 1 = 0).
Proof.
  intro H. unfold add64. destruct (N.ltb_spec (n + 1) two64).
  - left. split; [assumption|]. apply N.mod_small; assumption.
  - right. assert (n = two64 - 1) by lia. subst. split; [reflexivity|]. reflexivity.
Qed.

(** ** projections of the state updates *)
Section Frames.
  Variable P : params.

  Lemma store_set_kv k v s : st_store (set_kv k v s) = aset k v (st_store s). Proof. reflexivity. Qed.
  Lemma store_del_kv k s : st_store (del_kv k s) = adel k (st_store s). Proof. reflexivity. Qed.
  Lemma store_add_log e s : st_store (add_log e s) = st_store s. Proof. reflexivity. Qed.
  Lemma store_set_cseq d n s : st_store (set_cseq d n s) = st_store s. Proof. reflexivity. Qed.

  Lemma sget_set_kv k v k2 s : sget k2 (set_kv k v s) = if bytes_eqb k2 k then Some v else sget k2 s.
  Proof. unfold sget. cbn. apply aget_aset. Qed.
  Lemma sget_del_kv k k2 s : sget k2 (del_kv k s) = if bytes_eqb k2 k then None else sget k2 s.
  Proof. unfold sget. cbn. apply aget_adel. Qed.
  Lemma sget_add_log e k s : sget k (add_log e s) = sget k s. Proof. reflexivity. Qed.
  Lemma sget_set_cseq d n k s : sget k (set_cseq d n s) = sget k s. Proof. reflexivity. Qed.

  Lemma sget_set_kv_same k v s : sget k (set_kv k v s) = Some v.
  Proof. rewrite sget_set_kv, bytes_eqb_refl. reflexivity. Qed.
  Lemma sget_set_kv_other k v k2 s : k2 <> k -> sget k2 (set_kv k v s) = sget k2 s.
  Proof. intro N. rewrite sget_set_kv. apply bytes_eqb_neq in N. rewrite N. reflexivity. Qed.
  Lemma sget_del_kv_same k s : sget k (del_kv k s) = None.
  Proof. rewrite sget_del_kv, bytes_eqb_refl. reflexivity. Qed.
  Lemma sget_del_kv_other k k2 s : k2 <> k -> sget k2 (del_kv k s) = sget k2 s.
  Proof. intro N. rewrite sget_del_kv. apply bytes_eqb_neq in N. rewrite N. reflexivity. Qed.

  (** next_seq only reads one key *)
  Lemma next_seq_ext s s' a b : sget (nextseq_key P a b) s' = sget (nextseq_key P a b) s -> next_seq P s' a b = next_seq P s a b.
  Proof. unfold next_seq. intros ->. reflexivity. Qed.

  Lemma next_seq_val s a b n : n < two64 -> sget (nextseq_key P a b) s = Some (be64 n) -> next_seq P s a b = Ok n.
  Proof.
    intros H E. unfold next_seq. rewrite E.
    pose proof (length_be64 n) as L. destruct (be64 n) as [|x l] eqn:E2; [discriminate|].
    rewrite L. cbn [Nat.ltb Nat.leb]. rewrite <- E2.
    replace (firstn 8 (be64 n)) with (be64 n) by (symmetry; apply firstn_all2; rewrite length_be64; lia).
    rewrite unbe_be64, N.mod_small by assumption. reflexivity.
  Qed.

  Lemma next_seq_after_set s a b n : n < two64 -> next_seq P (set_kv (nextseq_key P a b) (be64 n) s) a b = Ok n.
  Proof. intro H. apply next_seq_val; [exact H | apply sget_set_kv_same]. Qed.

  Lemma next_seq_bound s a b n : next_seq P s a b = Ok n -> n < two64.
  Proof.
    unfold next_seq. destruct (sget (nextseq_key P a b) s) as [[|x l]|]; intro H.
    - inversion H; subst. reflexivity.
    - destruct (Nat.ltb (length (x :: l)) 8) eqn:E; [discriminate|]. inversion H; subst.
      pose proof (unbe_bound (firstn 8 (x :: l))) as B.
      assert (length (firstn 8 (x :: l)) = 8%nat) as L.
      { apply firstn_length_le. apply Nat.ltb_ge in E. exact E. }
      rewrite L in B. exact B.
    - inversion H; subst. reflexivity.
  Qed.

  (** *** SendPacket *)
  Definition sent_state (s : cstate) (p : packet) (bz : bytes) : cstate :=
    add_log (EvSent p)
      (set_kv (commitment_key P (p_src p) (p_dst p) (p_seq p)) (sha256 P bz)
         (add_log (EvSetSeq (p_dst p) (add64 (p_seq p) 1))
            (set_cseq (p_dst p) (add64 (p_seq p) 1)
               (set_kv (nextseq_key P (p_src p) (p_dst p)) (be64 (add64 (p_seq p) 1)) s)))).

  Lemma send_packet_ok s p ok s' :
    send_packet P s p ok = Ok s' ->
    validate_basic p = true /\ p_src p = st_name s /\ (exists c, aget (p_dst p) (st_clients s) = Some c) /\
    next_seq P s (p_src p) (p_dst p) = Ok (p_seq p) /\ ok = true /\
    exists bz, abi_pack P p = Some bz /\ s' = sent_state s p bz.
  Proof.
    unfold send_packet. intro H.
    destruct (validate_basic p) eqn:V; cbn in H; [|discriminate].
    destruct (bytes_eqb_spec (p_src p) (st_name s)) as [E|E]; cbn in H; [|discriminate].
    destruct (aget (p_dst p) (st_clients s)) as [c|] eqn:C; [|discriminate].
    destruct (next_seq P s (p_src p) (p_dst p)) as [nxt| |] eqn:Nx; cbn in H; try discriminate.
    destruct (N.eqb_spec (p_seq p) nxt) as [Q|Q]; cbn in H; [|discriminate]. subst nxt.
    destruct (abi_pack P p) as [bz|] eqn:A; [|discriminate].
    destruct ok; cbn in H; [|discriminate].
    inversion H; subst. repeat split; eauto.
  Qed.

  Lemma validate_basic_seq p : validate_basic p = true -> p_seq p <> 0.
  Proof.
    unfold validate_basic. intro H. repeat (apply andb_true_iff in H as [H ?]).
    destruct (N.eqb_spec (p_seq p) 0); [discriminate | assumption].
  Qed.

  (** A predicate on states that every successful SendPacket preserves is preserved by the hook and by CallPacket. *)
  Lemma hook_sends_ind (I : cstate -> Prop) :
    (forall s p ok s', I s -> send_packet P s p ok = Ok s' -> I s') ->
    forall l s s', I s -> hook_sends P s l = Ok s' -> I s'.
  Proof.
    intros Hs l. induction l as [|[p ok] l IH]; intros s s' Is H; cbn in H.
    - inversion H; subst; assumption.
    - destruct (send_packet P s p ok) as [s1| |] eqn:E; cbn in H; try discriminate.
      eapply IH; [|exact H]. eapply Hs; eauto.
  Qed.

  Lemma call_packet_ind (I : cstate -> Prop) :
    (forall s p ok s', I s -> send_packet P s p ok = Ok s' -> I s') ->
    (forall s e, I s -> I (add_log e s)) ->
    forall s e cb s', I s -> call_packet P s e cb = Ok s' -> I s'.
  Proof.
    intros Hs Hl s e cb s' Is H. unfold call_packet in H.
    destruct (cb_fail cb); [discriminate|].
    eapply hook_sends_ind; [exact Hs| |exact H]. apply Hl; assumption.
  Qed.

  (** Same for a relation between the state before and after (reflexive, transitive). *)
  Lemma hook_sends_rel (R : cstate -> cstate -> Prop) :
    (forall s, R s s) -> (forall a b c, R a b -> R b c -> R a c) ->
    (forall s p ok s', send_packet P s p ok = Ok s' -> R s s') ->
    forall l s s', hook_sends P s l = Ok s' -> R s s'.
  Proof.
    intros Rr Rt Hs l. induction l as [|[p ok] l IH]; intros s s' H; cbn in H.
    - inversion H; subst; apply Rr.
    - destruct (send_packet P s p ok) as [s1| |] eqn:E; cbn in H; try discriminate.
      eapply Rt; [eapply Hs; exact E | eapply IH; exact H].
  Qed.

  Lemma call_packet_rel (R : cstate -> cstate -> Prop) :
    (forall s, R s s) -> (forall a b c, R a b -> R b c -> R a c) ->
    (forall s p ok s', send_packet P s p ok = Ok s' -> R s s') ->
    (forall s e, R s (add_log e s)) ->
    forall s e cb s', call_packet P s e cb = Ok s' -> R s s'.
  Proof.
    intros Rr Rt Hs Hl s e cb s' H. unfold call_packet in H.
    destruct (cb_fail cb); [discriminate|].
    eapply Rt; [apply Hl|]. eapply hook_sends_rel; eauto.
  Qed.

  (** *** RecvPacket (keeper) *)
  Definition recv_relay (s : cstate) (p : packet) : bool :=
    match aget (p_dst p) (st_clients s) with
    | Some _ => negb (bytes_eqb (p_dst p) (st_name s))
    | None => false
    end.

  Lemma recv_keeper_ok env s m s' :
    recv_keeper P env s m = Ok s' ->
    let p := fst (decode P (rm_packet m)) in
    (snd (decode P (rm_packet m)) = true -> p_seq p <> 0) /\
    validate_packet s p = true /\
    sget (receipt_key P (p_src p) (p_dst p) (p_seq p)) s = None /\
    exists ct bz, aget (p_src p) (st_clients s) = Some ct /\ abi_pack P p = Some bz /\
      client_verify P env (p_src p) ct kind_commit (rm_height m) (if is_tss ct then rm_signer m else rm_proof m)
                    (p_src p) (p_dst p) (p_seq p) (sha256 P bz) = true /\
      s' = (if recv_relay s p
            then set_kv (commitment_key P (p_src p) (p_dst p) (p_seq p)) (sha256 P bz)
                        (set_kv (receipt_key P (p_src p) (p_dst p) (p_seq p)) receipt_value s)
            else set_kv (receipt_key P (p_src p) (p_dst p) (p_seq p)) receipt_value s).
  Proof.
    unfold recv_keeper. destruct (decode P (rm_packet m)) as [p err] eqn:D. cbn [fst snd]. intro H.
    destruct (err && (p_seq p =? 0)) eqn:G; [discriminate|].
    destruct (validate_packet s p) eqn:V; cbn in H; [|discriminate].
    destruct (sget (receipt_key P (p_src p) (p_dst p) (p_seq p)) s) eqn:R; [discriminate|].
    destruct (aget (p_src p) (st_clients s)) as [ct|] eqn:C; [|discriminate].
    destruct (abi_pack P p) as [bz|] eqn:A; [|discriminate].
    match type of H with (if negb ?c then _ else _) = _ => destruct c eqn:Vf end; cbn in H; [|discriminate].
    split.
    { intros ->. cbn in G. destruct (N.eqb_spec (p_seq p) 0); [discriminate|assumption]. }
    split; [reflexivity|]. split; [reflexivity|].
    exists ct, bz. repeat split; try assumption.
    unfold recv_relay. cbn in H.
    destruct (aget (p_dst p) (st_clients s)); [|inversion H; reflexivity].
    destruct (bytes_eqb (p_dst p) (st_name s)); cbn in H |- *; inversion H; reflexivity.
  Qed.

  (** *** WriteAcknowledgement *)
  Lemma write_ack_ok s p bz s' :
    write_ack P s p bz = Ok s' ->
    bz <> [] /\ sget (ack_key P (p_src p) (p_dst p) (p_seq p)) s = None /\
    (exists c, aget (p_src p) (st_clients s) = Some c) /\
    s' = add_log (EvAckWritten (triple_of p) (sha256 P bz))
           (set_kv (ack_key P (p_src p) (p_dst p) (p_seq p)) (sha256 P bz) s).
  Proof.
    unfold write_ack. intro H.
    destruct bz as [|b bz]; [discriminate|]. cbn [is_nil] in H.
    destruct (sget (ack_key P (p_src p) (p_dst p) (p_seq p)) s) eqn:A; [discriminate|].
    destruct (aget (p_src p) (st_clients s)) as [c|] eqn:C; [|discriminate].
    destruct (abi_pack P p); [|discriminate]. inversion H; subst.
    repeat split; eauto. discriminate.
  Qed.

  (** *** AcknowledgePacket *)
  Lemma ack_keeper_ok env s m s' :
    ack_keeper P env s m = Ok s' ->
    let p := fst (decode P (am_packet m)) in
    snd (decode P (am_packet m)) = false /\
    validate_packet s p = true /\
    exists bz ct, abi_pack P p = Some bz /\
      bytes_eqb (match sget (commitment_key P (p_src p) (p_dst p) (p_seq p)) s with Some c => c | None => [] end)
                (sha256 P bz) = true /\
      aget (p_dst p) (st_clients s) = Some ct /\
      client_verify P env (p_dst p) ct kind_ack (am_height m) (if is_tss ct then am_signer m else am_proof m)
                    (p_src p) (p_dst p) (p_seq p) (sha256 P (am_ack m)) = true /\
      ((p_src p = st_name s /\ s' = del_kv (commitment_key P (p_src p) (p_dst p) (p_seq p)) s) \/
       (p_src p <> st_name s /\ (exists c, aget (p_src p) (st_clients s) = Some c) /\
        s' = add_log (EvRelayAck (triple_of p) (sha256 P (am_ack m)))
               (set_kv (ack_key P (p_src p) (p_dst p) (p_seq p)) (sha256 P (am_ack m))
                  (del_kv (commitment_key P (p_src p) (p_dst p) (p_seq p)) s)))).
  Proof.
    unfold ack_keeper. destruct (decode P (am_packet m)) as [p err] eqn:D. cbn [fst snd]. intro H.
    destruct err; [discriminate|].
    destruct (validate_packet s p) eqn:V; cbn in H; [|discriminate].
    destruct (abi_pack P p) as [bz|] eqn:A; [|discriminate].
    match type of H with (if negb ?c then _ else _) = _ => destruct c eqn:Eq end; cbn in H; [|discriminate].
    destruct (aget (p_dst p) (st_clients s)) as [ct|] eqn:C; [|discriminate].
    match type of H with (if negb ?c then _ else _) = _ => destruct c eqn:Vf end; cbn in H; [|discriminate].
    split; [reflexivity|]. split; [reflexivity|]. exists bz, ct. repeat split; try assumption.
    destruct (bytes_eqb_spec (p_src p) (st_name s)) as [E|E]; cbn in H.
    - left. inversion H; subst. split; [assumption | reflexivity].
    - right. destruct (aget (p_src p) (st_clients s)) as [c|] eqn:C2; [|discriminate].
      inversion H; subst. split; [assumption|]. split; [eauto | reflexivity].
  Qed.
End Frames.

(** ** stateless validation in front of the handlers *)
Lemma deliver_ok P env s a s' : deliver P env s a = Ok s' -> exec P env s a = Ok s'.
Proof. unfold deliver. destruct (msg_basic P a); [auto | discriminate]. Qed.

Lemma deliver_not_ok P env s a : (forall s', exec P env s a <> Ok s') -> forall s', deliver P env s a <> Ok s'.
Proof. intros H s' D. exact (H s' (deliver_ok _ _ _ _ _ D)). Qed.

Lemma deliver_basic P env s a s' : deliver P env s a = Ok s' -> msg_basic P a = true.
Proof. unfold deliver. destruct (msg_basic P a); [reflexivity | discriminate]. Qed.

(** ** governance: client creation (HEAD: own name refused) and upgrade *)
Lemma register_client_ok P s name c ok s' :
  register_client P s name c ok = Ok s' ->
  valid_name P name = true /\ name <> st_name s /\ aget name (st_clients s) = None /\
  s' = set_clients (aset name c (st_clients s)) s.
Proof.
  unfold register_client. intro H. destruct (valid_name P name); cbn in H; [|discriminate].
  destruct (bytes_eqb_spec name (st_name s)) as [E|E]; [discriminate|].
  destruct (aget name (st_clients s)); [discriminate|]. destruct ok; inversion H; subst. auto.
Qed.

Lemma upgrade_client_ok P s name c ok s' : upgrade_client P s name c ok = Ok s' -> s' = s.
Proof.
  unfold upgrade_client. intro H. destruct (valid_name P name); cbn in H; [|discriminate].
  destruct (aget name (st_clients s)) as [c0|]; [|discriminate].
  destruct (c0 =? c); [|discriminate]. destruct ok; inversion H; reflexivity.
Qed.

Lemma register_own_name_refused P s c ok : register_client P s (st_name s) c ok = Err.
Proof. unfold register_client. destruct (valid_name P (st_name s)); cbn; [|reflexivity]. rewrite bytes_eqb_refl. reflexivity. Qed.

Lemma step_rejected P s env a : (forall s', exec P env s a <> Ok s') -> step P s (env, a) = (s, false).
Proof.
  intro H. unfold step. cbn [fst snd]. destruct (deliver P env s a) as [s'| |] eqn:D; try reflexivity.
  exfalso. exact (H s' (deliver_ok _ _ _ _ _ D)).
Qed.

(** ** key hypotheses (proved for the concrete builders of host/keys.go in Proofs/PacketKeys.v) *)
Definition valid_triple (P : params) (t : triple) : Prop :=
  valid_name P (fst (fst t)) = true /\ valid_name P (snd (fst t)) = true.

Record keys_ok (P : params) : Prop := mkKeysOk {
  (* the four families never collide, whatever the arguments *)
  ko_ra : forall t t', rkey P t <> akey P t';
  ko_rc : forall t t', rkey P t <> ckey P t';
  ko_rn : forall t a b, rkey P t <> nextseq_key P a b;
  ko_ac : forall t t', akey P t <> ckey P t';
  ko_an : forall t a b, akey P t <> nextseq_key P a b;
  ko_cn : forall t a b, ckey P t <> nextseq_key P a b;
  (* a key built from valid chain names is built from no other arguments *)
  ko_rinj : forall t t', valid_triple P t -> rkey P t = rkey P t' -> t = t';
  ko_ainj : forall t t', valid_triple P t -> akey P t = akey P t' -> t = t';
  ko_cinj : forall t t', valid_triple P t -> ckey P t = ckey P t' -> t = t';
  ko_ninj : forall a b a' b', valid_name P a = true -> valid_name P b = true ->
                              nextseq_key P a b = nextseq_key P a' b' -> a = a' /\ b = b' }.

(** ** "every binding of a family is kept" *)
Section Keeps.
  Variable P : params.

  Definition keeps (K : bytes -> Prop) (s s' : cstate) : Prop :=
    forall k v, K k -> sget k s = Some v -> sget k s' = Some v.

  Lemma keeps_refl (K : bytes -> Prop) s : keeps K s s. Proof. intros k v _ H; exact H. Qed.
  Lemma keeps_trans (K : bytes -> Prop) a b c : keeps K a b -> keeps K b c -> keeps K a c.
  Proof. intros H1 H2 k v Kk H. apply H2; [assumption|]. apply H1; assumption. Qed.
  Lemma keeps_set_other (K : bytes -> Prop) k v s : (forall k', K k' -> k' <> k) -> keeps K s (set_kv k v s).
  Proof. intros D k' v' Kk H. rewrite sget_set_kv_other; [assumption | apply D; assumption]. Qed.
  Lemma keeps_set_fresh (K : bytes -> Prop) k v s : sget k s = None -> keeps K s (set_kv k v s).
  Proof.
    intros F k' v' _ H. destruct (bytes_eq_dec k' k) as [->|N]; [congruence|].
    rewrite sget_set_kv_other; assumption.
  Qed.
  Lemma keeps_del_other (K : bytes -> Prop) k s : (forall k', K k' -> k' <> k) -> keeps K s (del_kv k s).
  Proof. intros D k' v' Kk H. rewrite sget_del_kv_other; [assumption | apply D; assumption]. Qed.
  Lemma keeps_add_log (K : bytes -> Prop) e s : keeps K s (add_log e s). Proof. intros k v _ H; exact H. Qed.
  Lemma keeps_set_cseq (K : bytes -> Prop) d n s : keeps K s (set_cseq d n s). Proof. intros k v _ H; exact H. Qed.

  Definition is_rkey (k : bytes) : Prop := exists t, k = rkey P t.
  Definition is_akey (k : bytes) : Prop := exists t, k = akey P t.
  Definition is_ckey (k : bytes) : Prop := exists t, k = ckey P t.

  Lemma rkey_eq s d q : receipt_key P s d q = rkey P (s, d, q). Proof. reflexivity. Qed.
  Lemma akey_eq s d q : ack_key P s d q = akey P (s, d, q). Proof. reflexivity. Qed.
  Lemma ckey_eq s d q : commitment_key P s d q = ckey P (s, d, q). Proof. reflexivity. Qed.

  (** SendPacket writes one nextSequenceSend key and one commitment key *)
  Lemma send_keeps (K : bytes -> Prop) s p ok s' :
    (forall k, K k -> forall a b, k <> nextseq_key P a b) -> (forall k, K k -> forall t, k <> ckey P t) ->
    send_packet P s p ok = Ok s' -> keeps K s s'.
  Proof.
    intros Dn Dc H. apply send_packet_ok in H as (_ & _ & _ & _ & _ & bz & _ & ->). unfold sent_state.
    eapply keeps_trans; [|apply keeps_add_log].
    eapply keeps_trans; [|apply keeps_set_other; intros k' Kk; rewrite ckey_eq; apply Dc; exact Kk].
    eapply keeps_trans; [|apply keeps_add_log].
    eapply keeps_trans; [|apply keeps_set_cseq].
    apply keeps_set_other. intros k' Kk. apply Dn; exact Kk.
  Qed.

  Lemma call_packet_keeps (K : bytes -> Prop) s e cb s' :
    (forall k, K k -> forall a b, k <> nextseq_key P a b) -> (forall k, K k -> forall t, k <> ckey P t) ->
    call_packet P s e cb = Ok s' -> keeps K s s'.
  Proof.
    intros Dn Dc. apply (call_packet_rel P (keeps K)).
    - apply keeps_refl.
    - apply keeps_trans.
    - intros; eapply send_keeps; eauto.
    - intros; apply keeps_add_log.
  Qed.

  Lemma hook_sends_keeps (K : bytes -> Prop) s l s' :
    (forall k, K k -> forall a b, k <> nextseq_key P a b) -> (forall k, K k -> forall t, k <> ckey P t) ->
    hook_sends P s l = Ok s' -> keeps K s s'.
  Proof.
    intros Dn Dc. apply (hook_sends_rel P (keeps K)).
    - apply keeps_refl.
    - apply keeps_trans.
    - intros; eapply send_keeps; eauto.
  Qed.
End Keeps.

(** ** inversion of the two message handlers *)
Section Handlers.
  Variable P : params.

  Lemma recv_handler_ok env s m cb s' :
    recv_handler P env s m cb = Ok s' ->
    let p := fst (decode P (rm_packet m)) in
    exists s1 relayer,
      recv_keeper P env s m = Ok s1 /\ snd (decode P (rm_packet m)) = false /\
      relayer_on_other_chain s1 (p_src p) (rm_signer m) = Ok (Some relayer) /\
      ((p_dst p = st_name s1 /\
        exists s3 a bz, pack_ack P a = Some bz /\ write_ack P s3 p bz = Ok s' /\
          ((call_packet P s1 (EvOnRecv p) cb = Err /\ s3 = s1 /\ a = mkAck 1 [] msg_callback_failed relayer (p_fee p)) \/
           (exists s2 code res msg, call_packet P s1 (EvOnRecv p) cb = Ok s2 /\ cb_ret cb = Some (code, res, msg) /\
              a = mkAck code res msg relayer (p_fee p) /\ s3 = if code =? 0 then s2 else s1))) \/
       (p_dst p <> st_name s1 /\ aget (p_dst p) (st_clients s1) = None /\
        exists bz, pack_ack P (mkAck 1 [] msg_dst_not_found relayer (p_fee p)) = Some bz /\ write_ack P s1 p bz = Ok s') \/
       (p_dst p <> st_name s1 /\ (exists c, aget (p_dst p) (st_clients s1) = Some c) /\ s' = s1)).
  Proof.
    unfold recv_handler. intro H.
    destruct (recv_keeper P env s m) as [s1| |] eqn:RK; cbn [obind] in H; try discriminate.
    destruct (decode P (rm_packet m)) as [p err] eqn:D. cbn [fst snd]. cbv zeta.
    destruct err; [discriminate|].
    destruct (relayer_on_other_chain s1 (p_src p) (rm_signer m)) as [[relayer|]| |] eqn:RL; cbn [obind] in H; try discriminate.
    exists s1, relayer. split; [reflexivity|]. split; [reflexivity|]. split; [exact RL|].
    destruct (bytes_eqb_spec (p_dst p) (st_name s1)) as [E|E].
    - left. split; [assumption|].
      destruct (call_packet P s1 (EvOnRecv p) cb) as [s2| |] eqn:CP; try discriminate.
      + destruct (cb_ret cb) as [[[code res] msg]|] eqn:CR; [|discriminate].
        destruct (pack_ack P (mkAck code res msg relayer (p_fee p))) as [bz|] eqn:PA; [|discriminate].
        exists (if code =? 0 then s2 else s1), (mkAck code res msg relayer (p_fee p)), bz.
        split; [assumption|]. split; [assumption|]. right. exists s2, code, res, msg. repeat split; reflexivity.
      + destruct (pack_ack P (mkAck 1 [] msg_callback_failed relayer (p_fee p))) as [bz|] eqn:PA; [|discriminate].
        exists s1, (mkAck 1 [] msg_callback_failed relayer (p_fee p)), bz.
        split; [assumption|]. split; [assumption|]. left. repeat split; reflexivity.
    - right. destruct (aget (p_dst p) (st_clients s1)) as [c|] eqn:C.
      + right. inversion H; subst. split; [assumption|]. split; [eauto|reflexivity].
      + left. split; [assumption|]. split; [reflexivity|].
        destruct (pack_ack P (mkAck 1 [] msg_dst_not_found relayer (p_fee p))) as [bz|] eqn:PA; [|discriminate].
        exists bz. split; [reflexivity | assumption].
  Qed.

  Lemma ack_handler_ok env s m cb1 cb2 cb3 s' :
    ack_handler P env s m cb1 cb2 cb3 = Ok s' ->
    let p := fst (decode P (am_packet m)) in
    exists s1 a,
      ack_keeper P env s m = Ok s1 /\ decode_ack P (am_ack m) = Some a /\ ack_empty a = false /\
      ((p_src p <> st_name s1 /\ s' = s1) \/
       (p_src p = st_name s1 /\
        exists s2 s3 r addr,
          call_packet P s1 (EvAckStatus (p_dst p) (p_seq p) (if a_code a =? 0 then 1 else 2)) cb1 = Ok s2 /\
          relayer_on_teleport P s2 (p_dst p) (a_relayer a) = Ok (Some r) /\ bech32_decode P r = Some addr /\
          call_packet P s2 (EvFee (p_dst p) (p_seq p) addr) cb2 = Ok s3 /\
          call_packet P s3 (EvOnAck p a) cb3 = Ok s')).
  Proof.
    unfold ack_handler. intro H.
    destruct (ack_keeper P env s m) as [s1| |] eqn:AK; cbn [obind] in H; try discriminate.
    destruct (decode P (am_packet m)) as [p err] eqn:D. cbn [fst snd]. cbv zeta.
    destruct err; [discriminate|].
    destruct (decode_ack P (am_ack m)) as [a|] eqn:DA; [|discriminate].
    destruct (ack_empty a) eqn:AE; [discriminate|].
    exists s1, a. split; [reflexivity|]. split; [first [reflexivity | exact DA]|]. split; [first [reflexivity | exact AE]|].
    destruct (bytes_eqb_spec (p_src p) (st_name s1)) as [E|E].
    - right. split; [assumption|].
      destruct (call_packet P s1 _ cb1) as [s2| |] eqn:C1; cbn [obind] in H; try discriminate.
      destruct (relayer_on_teleport P s2 (p_dst p) (a_relayer a)) as [[r|]| |] eqn:RT; cbn [obind] in H; try discriminate.
      destruct (bech32_decode P r) as [addr|] eqn:BD; [|discriminate].
      destruct (call_packet P s2 _ cb2) as [s3| |] eqn:C2; cbn [obind] in H; try discriminate.
      exists s2, s3, r, addr. repeat split; assumption.
    - left. inversion H; subst. split; [assumption | reflexivity].
  Qed.
End Handlers.

(** variants of the CallPacket induction principles for a specific ghost event *)
Section CallRel.
  Variable P : params.

  Lemma call_packet_rel_e (R : cstate -> cstate -> Prop) s e cb s' :
    (forall s, R s s) -> (forall a b c, R a b -> R b c -> R a c) ->
    (forall s p ok s', send_packet P s p ok = Ok s' -> R s s') ->
    R s (add_log e s) ->
    call_packet P s e cb = Ok s' -> R s s'.
  Proof.
    intros Rr Rt Hs Hl H. unfold call_packet in H.
    destruct (cb_fail cb); [discriminate|].
    eapply Rt; [apply Hl|]. eapply hook_sends_rel; eauto.
  Qed.

  (** relation that may depend on an invariant holding at the source state *)
  Lemma hook_sends_rel_inv (I : cstate -> Prop) (R : cstate -> cstate -> Prop) :
    (forall s, R s s) -> (forall a b c, R a b -> R b c -> R a c) ->
    (forall s p ok s', I s -> send_packet P s p ok = Ok s' -> I s' /\ R s s') ->
    forall l s s', I s -> hook_sends P s l = Ok s' -> I s' /\ R s s'.
  Proof.
    intros Rr Rt Hs l. induction l as [|[p ok] l IH]; intros s s' Is H; cbn in H.
    - inversion H; subst; split; [assumption | apply Rr].
    - destruct (send_packet P s p ok) as [s1| |] eqn:E; cbn in H; try discriminate.
      destruct (Hs _ _ _ _ Is E) as [I1 R1]. destruct (IH _ _ I1 H) as [I2 R2].
      split; [assumption | eapply Rt; eauto].
  Qed.

  Lemma call_packet_rel_inv (I : cstate -> Prop) (R : cstate -> cstate -> Prop) s e cb s' :
    (forall s, R s s) -> (forall a b c, R a b -> R b c -> R a c) ->
    (forall s p ok s', I s -> send_packet P s p ok = Ok s' -> I s' /\ R s s') ->
    (I s -> I (add_log e s) /\ R s (add_log e s)) ->
    I s -> call_packet P s e cb = Ok s' -> I s' /\ R s s'.
  Proof.
    intros Rr Rt Hs Hl Is H. unfold call_packet in H.
    destruct (cb_fail cb); [discriminate|].
    destruct (Hl Is) as [I1 R1].
    destruct (hook_sends_rel_inv I R Rr Rt Hs _ _ _ I1 H) as [I2 R2].
    split; [assumption | eapply Rt; eauto].
  Qed.
End CallRel.
