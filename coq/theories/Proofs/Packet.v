(** Basic facts about the packet model: uint64 codec round trip, inversion ("spec") lemmas of the keeper
    functions, frame lemmas.  Shared by Proofs/PacketC01 C02 C04 C05. *)
From Teleport Require Import Base.Bytes Base.Outcome Base.AList Model.Packet.
From Coq Require Import ZifyN ZifyNat.
Local Open Scope N_scope.

(** ** big-endian codec *)
Lemma byte_of_N_to_N n : Byte.to_N (byte_of_N n) = n mod 256.
Proof.
  unfold byte_of_N. destruct (Byte.of_N (n mod 256)) eqn:E.
  - apply Byte.to_of_N in E. exact E.
  - apply Byte.of_N_None_iff in E. assert (n mod 256 < 256) by (apply N.mod_lt; discriminate). lia.
Qed.

Lemma unbe_app l x : unbe (l ++ [x]) = unbe l * 256 + Byte.to_N x.
Proof. unfold unbe. rewrite fold_left_app. reflexivity. Qed.

Lemma unbe_be_bytes k n : unbe (be_bytes k n) = n mod 256 ^ N.of_nat k.
Proof.
  revert n; induction k as [|k IH]; intro n.
  - cbn. rewrite N.mod_1_r. reflexivity.
  - cbn [be_bytes]. rewrite unbe_app, IH, byte_of_N_to_N.
    rewrite Nat2N.inj_succ, N.pow_succ_r'.
    rewrite (N.mod_mul_r n 256 (256 ^ N.of_nat k)) by (try discriminate; apply N.pow_nonzero; discriminate).
    lia.
Qed.

Lemma length_be_bytes k n : length (be_bytes k n) = k.
Proof. revert n; induction k as [|k IH]; intro n; cbn; [reflexivity|]. rewrite app_length, IH. cbn. lia. Qed.

Lemma unbe_be64 n : unbe (be64 n) = n mod two64.
Proof. unfold be64. rewrite unbe_be_bytes. reflexivity. Qed.

Lemma length_be64 n : length (be64 n) = 8%nat.
Proof. apply length_be_bytes. Qed.

Lemma unbe_bound l : unbe l < 256 ^ N.of_nat (length l).
Proof.
  induction l as [|x l IH] using rev_ind.
  - cbn. lia.
  - rewrite unbe_app, app_length. cbn [length]. rewrite Nat.add_1_r, Nat2N.inj_succ, N.pow_succ_r'.
    assert (Byte.to_N x < 256) by (pose proof (Byte.to_N_bounded x); lia). lia.
Qed.

Lemma add64_lt a b : add64 a b < two64.
Proof. unfold add64. apply N.mod_lt. discriminate. Qed.

Lemma add64_succ n : n < two64 -> (n + 1 < two64 /\ add64 n 1 = n + 1) \/ (n = two64 - 1 /\ add64 n 1 = 0).
Proof.
  intro H. unfold add64. destruct (N.ltb_spec (n + 1) two64).
  - left. split; [assumption|]. apply N.mod_small; assumption.
  - right. assert (n = two64 - 1) by lia. subst. split; [reflexivity|]. reflexivity.
Qed.

(** ** projections of the state updates *)
Section Frames.
  Variable P : params.

  Lemma store_set_kv k v s : st_store (set_kv k v s) = aset k v (st_store s). Proof. reflexivity. Qed.
  Lemma store_del_kv k s : st_store (del_kv k s) = adel k (st_store s). Proof. reflexivity. Qed.
  Lemma store_add_log e s : st_store (add_log e s) = st_store s. Proof. reflexivity. Qed.
  Lemma store_set_cseq d n s : st_store (set_cseq d n s) = st_store s. Proof. reflexivity. Qed.

  Lemma sget_set_kv k v k2 s : sget k2 (set_kv k v s) = if bytes_eqb k2 k then Some v else sget k2 s.
  Proof. unfold sget. cbn. apply aget_aset. Qed.
  Lemma sget_del_kv k k2 s : sget k2 (del_kv k s) = if bytes_eqb k2 k then None else sget k2 s.
  Proof. unfold sget. cbn. apply aget_adel. Qed.
  Lemma sget_add_log e k s : sget k (add_log e s) = sget k s. Proof. reflexivity. Qed.
  Lemma sget_set_cseq d n k s : sget k (set_cseq d n s) = sget k s. Proof. reflexivity. Qed.

  Lemma sget_set_kv_same k v s : sget k (set_kv k v s) = Some v.
  Proof. rewrite sget_set_kv, bytes_eqb_refl. reflexivity. Qed.
  Lemma sget_set_kv_other k v k2 s : k2 <> k -> sget k2 (set_kv k v s) = sget k2 s.
  Proof. intro N. rewrite sget_set_kv. apply bytes_eqb_neq in N. rewrite N. reflexivity. Qed.
  Lemma sget_del_kv_same k s : sget k (del_kv k s) = None.
  Proof. rewrite sget_del_kv, bytes_eqb_refl. reflexivity. Qed.
  Lemma sget_del_kv_other k k2 s : k2 <> k -> sget k2 (del_kv k s) = sget k2 s.
  Proof. intro N. rewrite sget_del_kv. apply bytes_eqb_neq in N. rewrite N. reflexivity. Qed.

  (** next_seq only reads one key *)
  Lemma next_seq_ext s s' a b : sget (nextseq_key P a b) s' = sget (nextseq_key P a b) s -> next_seq P s' a b = next_seq P s a b.
  Proof. unfold next_seq. intros ->. reflexivity. Qed.

  Lemma next_seq_after_set s a b n : n < two64 -> next_seq P (set_kv (nextseq_key P a b) (be64 n) s) a b = Ok n.
  Proof.
    intro H. unfold next_seq. rewrite sget_set_kv_same.
    pose proof (length_be64 n) as L. destruct (be64 n) as [|x l] eqn:E; [discriminate|].
    rewrite L. cbn [Nat.ltb Nat.leb]. rewrite <- E.
    replace (firstn 8 (be64 n)) with (be64 n) by (symmetry; apply firstn_all2; rewrite length_be64; lia).
    rewrite unbe_be64, N.mod_small by assumption. reflexivity.
  Qed.

  Lemma next_seq_bound s a b n : next_seq P s a b = Ok n -> n < two64.
  Proof.
    unfold next_seq. destruct (sget (nextseq_key P a b) s) as [[|x l]|]; intro H.
    - inversion H; subst. reflexivity.
    - destruct (Nat.ltb (length (x :: l)) 8) eqn:E; [discriminate|]. inversion H; subst.
      pose proof (unbe_bound (firstn 8 (x :: l))) as B.
      assert (length (firstn 8 (x :: l)) = 8%nat) as L.
      { apply firstn_length_le. apply Nat.ltb_ge in E. exact E. }
      rewrite L in B. exact B.
    - inversion H; subst. reflexivity.
  Qed.

  (** *** SendPacket *)
  Definition sent_state (s : cstate) (p : packet) (bz : bytes) : cstate :=
    add_log (EvSent p)
      (set_kv (commitment_key P (p_src p) (p_dst p) (p_seq p)) (sha256 P bz)
         (add_log (EvSetSeq (p_dst p) (add64 (p_seq p) 1))
            (set_cseq (p_dst p) (add64 (p_seq p) 1)
               (set_kv (nextseq_key P (p_src p) (p_dst p)) (be64 (add64 (p_seq p) 1)) s)))).

  Lemma send_packet_ok s p ok s' :
    send_packet P s p ok = Ok s' ->
    validate_basic p = true /\ p_src p = st_name s /\ (exists c, aget (p_dst p) (st_clients s) = Some c) /\
    next_seq P s (p_src p) (p_dst p) = Ok (p_seq p) /\ ok = true /\
    exists bz, abi_pack P p = Some bz /\ s' = sent_state s p bz.
  Proof.
    unfold send_packet. intro H.
    destruct (validate_basic p) eqn:V; cbn in H; [|discriminate].
    destruct (bytes_eqb_spec (p_src p) (st_name s)) as [E|E]; cbn in H; [|discriminate].
    destruct (aget (p_dst p) (st_clients s)) as [c|] eqn:C; [|discriminate].
    destruct (next_seq P s (p_src p) (p_dst p)) as [nxt| |] eqn:Nx; cbn in H; try discriminate.
    destruct (N.eqb_spec (p_seq p) nxt) as [Q|Q]; cbn in H; [|discriminate]. subst nxt.
    destruct (abi_pack P p) as [bz|] eqn:A; [|discriminate].
    destruct ok; cbn in H; [|discriminate].
    inversion H; subst. repeat split; eauto.
  Qed.

  Lemma validate_basic_seq p : validate_basic p = true -> p_seq p <> 0.
  Proof.
    unfold validate_basic. intro H. repeat (apply andb_true_iff in H as [H ?]).
    destruct (N.eqb_spec (p_seq p) 0); [discriminate | assumption].
  Qed.

  (** A predicate on states that every successful SendPacket preserves is preserved by the hook and by CallPacket. *)
  Lemma hook_sends_ind (I : cstate -> Prop) :
    (forall s p ok s', I s -> send_packet P s p ok = Ok s' -> I s') ->
    forall l s s', I s -> hook_sends P s l = Ok s' -> I s'.
  Proof.
    intros Hs l. induction l as [|[p ok] l IH]; intros s s' Is H; cbn in H.
    - inversion H; subst; assumption.
    - destruct (send_packet P s p ok) as [s1| |] eqn:E; cbn in H; try discriminate.
      eapply IH; [|exact H]. eapply Hs; eauto.
  Qed.

  Lemma call_packet_ind (I : cstate -> Prop) :
    (forall s p ok s', I s -> send_packet P s p ok = Ok s' -> I s') ->
    (forall s e, I s -> I (add_log e s)) ->
    forall s e cb s', I s -> call_packet P s e cb = Ok s' -> I s'.
  Proof.
    intros Hs Hl s e cb s' Is H. unfold call_packet in H.
    destruct (cb_fail cb); [discriminate|].
    eapply hook_sends_ind; [exact Hs| |exact H]. apply Hl; assumption.
  Qed.

  (** Same for a relation between the state before and after (reflexive, transitive). *)
  Lemma hook_sends_rel (R : cstate -> cstate -> Prop) :
    (forall s, R s s) -> (forall a b c, R a b -> R b c -> R a c) ->
    (forall s p ok s', send_packet P s p ok = Ok s' -> R s s') ->
    forall l s s', hook_sends P s l = Ok s' -> R s s'.
  Proof.
    intros Rr Rt Hs l. induction l as [|[p ok] l IH]; intros s s' H; cbn in H.
    - inversion H; subst; apply Rr.
    - destruct (send_packet P s p ok) as [s1| |] eqn:E; cbn in H; try discriminate.
      eapply Rt; [eapply Hs; exact E | eapply IH; exact H].
  Qed.

  Lemma call_packet_rel (R : cstate -> cstate -> Prop) :
    (forall s, R s s) -> (forall a b c, R a b -> R b c -> R a c) ->
    (forall s p ok s', send_packet P s p ok = Ok s' -> R s s') ->
    (forall s e, R s (add_log e s)) ->
    forall s e cb s', call_packet P s e cb = Ok s' -> R s s'.
  Proof.
    intros Rr Rt Hs Hl s e cb s' H. unfold call_packet in H.
    destruct (cb_fail cb); [discriminate|].
    eapply Rt; [apply Hl|]. eapply hook_sends_rel; eauto.
  Qed.

  (** *** RecvPacket (keeper) *)
  Definition recv_relay (s : cstate) (p : packet) : bool :=
    match aget (p_dst p) (st_clients s) with
    | Some _ => negb (bytes_eqb (p_dst p) (st_name s))
    | None => false
    end.

  Lemma recv_keeper_ok env s m s' :
    recv_keeper P env s m = Ok s' ->
    let p := fst (decode P (rm_packet m)) in
    (snd (decode P (rm_packet m)) = true -> p_seq p <> 0) /\
    validate_packet s p = true /\
    sget (receipt_key P (p_src p) (p_dst p) (p_seq p)) s = None /\
    exists ct bz, aget (p_src p) (st_clients s) = Some ct /\ abi_pack P p = Some bz /\
      client_verify P env (p_src p) ct kind_commit (rm_height m) (if is_tss ct then rm_signer m else rm_proof m)
                    (p_src p) (p_dst p) (p_seq p) (sha256 P bz) = true /\
      s' = (if recv_relay s p
            then set_kv (commitment_key P (p_src p) (p_dst p) (p_seq p)) (sha256 P bz)
                        (set_kv (receipt_key P (p_src p) (p_dst p) (p_seq p)) receipt_value s)
            else set_kv (receipt_key P (p_src p) (p_dst p) (p_seq p)) receipt_value s).
  Proof.
    unfold recv_keeper. destruct (decode P (rm_packet m)) as [p err] eqn:D. cbn [fst snd]. intro H.
    destruct (err && (p_seq p =? 0)) eqn:G; [discriminate|].
    destruct (validate_packet s p) eqn:V; cbn in H; [|discriminate].
    destruct (sget (receipt_key P (p_src p) (p_dst p) (p_seq p)) s) eqn:R; [discriminate|].
    destruct (aget (p_src p) (st_clients s)) as [ct|] eqn:C; [|discriminate].
    destruct (abi_pack P p) as [bz|] eqn:A; [|discriminate].
    match type of H with (if negb ?c then _ else _) = _ => destruct c eqn:Vf end; cbn in H; [|discriminate].
    split.
    { intros ->. cbn in G. destruct (N.eqb_spec (p_seq p) 0); [discriminate|assumption]. }
    split; [reflexivity|]. split; [reflexivity|].
    exists ct, bz. repeat split; try assumption.
    unfold recv_relay. cbn in H.
    destruct (aget (p_dst p) (st_clients s)); [|inversion H; reflexivity].
    destruct (bytes_eqb (p_dst p) (st_name s)); cbn in H |- *; inversion H; reflexivity.
  Qed.

  (** *** WriteAcknowledgement *)
  Lemma write_ack_ok s p bz s' :
    write_ack P s p bz = Ok s' ->
    bz <> [] /\ sget (ack_key P (p_src p) (p_dst p) (p_seq p)) s = None /\
    (exists c, aget (p_src p) (st_clients s) = Some c) /\
    s' = add_log (EvAckWritten (triple_of p) (sha256 P bz))
           (set_kv (ack_key P (p_src p) (p_dst p) (p_seq p)) (sha256 P bz) s).
  Proof.
    unfold write_ack. intro H.
    destruct bz as [|b bz]; [discriminate|]. cbn [is_nil] in H.
    destruct (sget (ack_key P (p_src p) (p_dst p) (p_seq p)) s) eqn:A; [discriminate|].
    destruct (aget (p_src p) (st_clients s)) as [c|] eqn:C; [|discriminate].
    destruct (abi_pack P p); [|discriminate]. inversion H; subst.
    repeat split; eauto. discriminate.
  Qed.

  (** *** AcknowledgePacket *)
  Lemma ack_keeper_ok env s m s' :
    ack_keeper P env s m = Ok s' ->
    let p := fst (decode P (am_packet m)) in
    snd (decode P (am_packet m)) = false /\
    validate_packet s p = true /\
    exists bz ct, abi_pack P p = Some bz /\
      bytes_eqb (match sget (commitment_key P (p_src p) (p_dst p) (p_seq p)) s with Some c => c | None => [] end)
                (sha256 P bz) = true /\
      aget (p_dst p) (st_clients s) = Some ct /\
      client_verify P env (p_dst p) ct kind_ack (am_height m) (if is_tss ct then am_signer m else am_proof m)
                    (p_src p) (p_dst p) (p_seq p) (sha256 P (am_ack m)) = true /\
      ((p_src p = st_name s /\ s' = del_kv (commitment_key P (p_src p) (p_dst p) (p_seq p)) s) \/
       (p_src p <> st_name s /\ (exists c, aget (p_src p) (st_clients s) = Some c) /\
        s' = add_log (EvRelayAck (triple_of p) (sha256 P (am_ack m)))
               (set_kv (ack_key P (p_src p) (p_dst p) (p_seq p)) (sha256 P (am_ack m))
                  (del_kv (commitment_key P (p_src p) (p_dst p) (p_seq p)) s)))).
  Proof.
    unfold ack_keeper. destruct (decode P (am_packet m)) as [p err] eqn:D. cbn [fst snd]. intro H.
    destruct err; [discriminate|].
    destruct (validate_packet s p) eqn:V; cbn in H; [|discriminate].
    destruct (abi_pack P p) as [bz|] eqn:A; [|discriminate].
    match type of H with (if negb ?c then _ else _) = _ => destruct c eqn:Eq end; cbn in H; [|discriminate].
    destruct (aget (p_dst p) (st_clients s)) as [ct|] eqn:C; [|discriminate].
    match type of H with (if negb ?c then _ else _) = _ => destruct c eqn:Vf end; cbn in H; [|discriminate].
    split; [reflexivity|]. split; [reflexivity|]. exists bz, ct. repeat split; try assumption.
    destruct (bytes_eqb_spec (p_src p) (st_name s)) as [E|E]; cbn in H.
    - left. inversion H; subst. split; [assumption | reflexivity].
    - right. destruct (aget (p_src p) (st_clients s)) as [c|] eqn:C2; [|discriminate].
      inversion H; subst. split; [assumption|]. split; [eauto | reflexivity].
  Qed.
End Frames.
