(** C13: the domain [wf_agg] of the aggregate round-trip theorem is an INVARIANT of the writes of the aggregate keeper
    (Model/GenesisOps.v: register a pair, delete a pair, rewrite a pair (toggle), add a denomination), so every
    aggregate store reachable from the empty store round-trips through its exported token pairs.

    Method: [wf_agg s] is equivalent to "[s] is sorted and holds exactly the entries demanded by a set of pairs whose
    codec round-trips and that have denominations" ([wf_agg_iff]); each write is then a change of that set. *)
From Teleport Require Import Base.Bytes Base.Outcome Base.AList Base.Fmt Gen.KeysGen Model.Keys Model.Genesis Model.GenesisOps.
From Teleport Require Import Proofs.GenesisStore Proofs.GenesisXibc Proofs.GenesisAgg Proofs.GenesisOps.

Lemma bytes_dec (a b : bytes) : {a = b} + {a <> b}.
Proof. destruct (bytes_eqb_spec a b); [left | right]; assumption. Qed.

Lemma pair_dec (q p : token_pair) : q = p \/ q <> p.
Proof.
  assert (D : {q = p} + {q <> p}).
  { decide equality; [apply N.eq_dec | apply Bool.bool_dec | apply list_eq_dec; apply bytes_dec | apply bytes_dec]. }
  destruct D; [left | right]; assumption.
Qed.

Section AggInv.
  Variable tp_unmarshal : bytes -> option token_pair.
  Variable tp_marshal : token_pair -> bytes.
  Variable sha256 : bytes -> bytes.
  Variable hex_to_address : bytes -> bytes.

  Notation wf_agg := (wf_agg tp_unmarshal tp_marshal sha256 hex_to_address).
  Notation agg_pairs := (agg_pairs tp_unmarshal).
  Notation id_of := (id_or_nil sha256).
  Notation W := (fun p => pair_writes tp_marshal hex_to_address p (id_or_nil sha256 p)).
  Notation agg_step := (agg_step tp_unmarshal tp_marshal sha256 hex_to_address).
  Notation agg_reach := (agg_reach tp_unmarshal tp_marshal sha256 hex_to_address).

  (** ** The writes of one pair *)
  Lemma in_W p kv :
    In kv (W p) <->
    kv = (x01 :: id_of p, tp_marshal p) \/ (exists d, In d (tp_denoms p) /\ kv = (x03 :: d, id_of p)) \/
    kv = (x02 :: hex_to_address (tp_erc20 p), id_of p).
  Proof.
    unfold Genesis.pair_writes. change aggregate_KeyPrefixTokenPair with [x01]. change aggregate_KeyPrefixTokenPairByDenom with [x03].
    change aggregate_KeyPrefixTokenPairByERC20 with [x02]. cbn [In app]. rewrite in_app_iff, in_map_iff. cbn [In]. split.
    - intros [H|[[d [E D]]|[H|[]]]]; [left; auto | right; left; exists d; auto | right; right; auto].
    - intros [H|[[d [D E]]|H]]; [left; auto | right; left; exists d; auto | right; right; left; auto].
  Qed.

  Lemma W_functional p k v1 v2 : In (k, v1) (W p) -> In (k, v2) (W p) -> v1 = v2.
  Proof.
    intros H1 H2. apply in_W in H1, H2.
    destruct H1 as [H1|[[d1 [_ H1]]|H1]]; destruct H2 as [H2|[[d2 [_ H2]]|H2]]; inversion H1; inversion H2; subst; try congruence.
  Qed.

  Lemma last_write_W p k v : In (k, v) (W p) <-> last_write k (W p) = Some v.
  Proof.
    split; [|apply last_write_in]. intro H. destruct (last_write k (W p)) as [v'|] eqn:L.
    - f_equal. apply (W_functional p k); [apply last_write_in; exact L | exact H].
    - exfalso. eapply last_write_none; eauto.
  Qed.

  (** ** [wf_agg] as "exactly the entries a set of pairs demands" *)
  Definition good (P : token_pair -> Prop) : Prop :=
    forall p, P p -> tp_denoms p <> [] /\ tp_unmarshal (tp_marshal p) = Some p.
  Definition demanded (P : token_pair -> Prop) (kv : bytes * bytes) : Prop := exists p, P p /\ In kv (W p).
  Definition ainv (s : store) : Prop :=
    sorted s = true /\ exists P, good P /\ forall kv, In kv s <-> demanded P kv.

  Lemma in_agg_pairs_raw (s : store) q :
    In q (agg_pairs s) <-> exists id v, In (x01 :: id, v) s /\ tp_unmarshal v = Some q.
  Proof.
    unfold Genesis.agg_pairs. rewrite in_flat_map. split.
    - intros [[k v] [I H]]. apply in_prefix_iter in I as [I P]. cbn [fst snd] in *.
      apply prefix_x01 in P as [id ->]. destruct (tp_unmarshal v) as [q'|] eqn:U; [|destruct H].
      destruct H as [H|[]]. subst q'. exists id, v. auto.
    - intros [id [v [I U]]]. exists (x01 :: id, v). split.
      + apply in_prefix_iter. split; [exact I|]. apply prefix_x01. eexists; reflexivity.
      + cbn [snd]. rewrite U. left; reflexivity.
  Qed.

  Section FromDemanded.
    Variable s : store.
    Variable P : token_pair -> Prop.
    Hypothesis S : sorted s = true.
    Hypothesis G : good P.
    Hypothesis E : forall kv, In kv s <-> demanded P kv.

    Lemma P_entry p kv : P p -> In kv (W p) -> In kv s.
    Proof. intros Pp I. apply E. exists p. auto. Qed.

    Lemma P_in_pairs p : P p -> In p (agg_pairs s).
    Proof.
      intro Pp. apply in_agg_pairs_raw. exists (id_of p), (tp_marshal p). split.
      - apply (P_entry p _ Pp). apply in_W. left. reflexivity.
      - apply G. exact Pp.
    Qed.

    Lemma pairs_in_P q : In q (agg_pairs s) -> P q.
    Proof.
      intro I. apply in_agg_pairs_raw in I as [id [v [I U]]]. apply E in I as [p [Pp I]]. apply in_W in I.
      destruct I as [I|[[d [_ I]]|I]]; inversion I; subst.
      destruct (G p Pp) as [_ RT]. rewrite RT in U. inversion U; subst. exact Pp.
    Qed.

    (** two pairs of the set that demand an entry under the same key are the same pair *)
    Lemma same_key_same_pair p q k v v' : P p -> P q -> In (k, v) (W p) -> In (k, v') (W q) -> p = q.
    Proof.
      intros Pp Pq Ip Iq.
      assert (Id : id_of p = id_of q).
      { pose proof (sorted_in_unique _ _ _ _ S (P_entry p _ Pp Ip) (P_entry q _ Pq Iq)) as Ev. subst v'.
        apply in_W in Ip, Iq.
        destruct Ip as [Ip|[[d1 [_ Ip]]|Ip]]; destruct Iq as [Iq|[[d2 [_ Iq]]|Iq]]; inversion Ip; inversion Iq; subst; try congruence. }
      assert (I1 : In (x01 :: id_of p, tp_marshal p) s) by (apply (P_entry p _ Pp); apply in_W; left; reflexivity).
      assert (I2 : In (x01 :: id_of p, tp_marshal q) s) by (rewrite Id; apply (P_entry q _ Pq); apply in_W; left; reflexivity).
      pose proof (sorted_in_unique _ _ _ _ S I1 I2) as M.
      destruct (G p Pp) as [_ R1]. destruct (G q Pq) as [_ R2]. rewrite M, R2 in R1. inversion R1. reflexivity.
    Qed.

    Lemma wf_from_demanded : wf_agg s = true.
    Proof.
      unfold Genesis.wf_agg. rewrite !andb_true_iff, !forallb_forall. refine (conj (conj S _) _).
      - intros [k v] I. pose proof I as D. apply E in D as [p [Pp D]]. destruct (G p Pp) as [ND RT]. apply in_W in D.
        destruct D as [D|[[d [Dd D]]|D]]; inversion D; subst; cbn [wf_agg_entry].
        + rewrite RT, !bytes_eqb_refl. destruct (tp_denoms p); [congruence | reflexivity].
        + apply existsb_exists. exists p. split; [apply P_in_pairs; exact Pp|]. rewrite bytes_eqb_refl, andb_true_r.
          unfold bmem. apply existsb_exists. exists d. split; [exact Dd | apply bytes_eqb_refl].
        + apply existsb_exists. exists p. split; [apply P_in_pairs; exact Pp|]. rewrite !bytes_eqb_refl. reflexivity.
      - intros q I. apply pairs_in_P in I. unfold agg_index_complete. apply andb_true_iff. split.
        + change aggregate_KeyPrefixTokenPairByERC20 with [x02]. cbn [app].
          rewrite (aget_in_sorted s (x02 :: hex_to_address (tp_erc20 q)) (id_of q) S).
          * apply bytes_eqb_refl.
          * apply (P_entry q _ I). apply in_W. right. right. reflexivity.
        + apply forallb_forall. intros d Dd. change aggregate_KeyPrefixTokenPairByDenom with [x03]. cbn [app].
          rewrite (aget_in_sorted s (x03 :: d) (id_of q) S).
          * apply bytes_eqb_refl.
          * apply (P_entry q _ I). apply in_W. right. left. exists d. auto.
    Qed.
  End FromDemanded.

  Theorem wf_agg_iff s : wf_agg s = true <-> ainv s.
  Proof.
    split.
    - intro WF. split; [apply (agg_sorted _ _ _ _ s WF)|]. exists (fun p => In p (agg_pairs s)). split.
      + intros p I. apply (in_agg_pairs _ _ _ _ s WF) in I as [v [_ [U [M D]]]]. split; [exact D|]. rewrite M. exact U.
      + intro kv. unfold demanded. split.
        * intro I. apply (agg_writes_complete _ _ _ _ s WF) in I. apply in_flat_map in I. exact I.
        * intro D. apply (agg_writes_sound _ _ _ _ s WF). apply in_flat_map. exact D.
    - intros [S [P [G E]]]. apply (wf_from_demanded s P S G E).
  Qed.

  (** ** The empty store *)
  Lemma ainv_nil : ainv [].
  Proof.
    split; [reflexivity|]. exists (fun _ => False). split; [intros p []|].
    intro kv. split; [intros [] | intros [p [[] _]]].
  Qed.

  (** ** Register a pair whose id, contract and denominations are new *)
  Lemma ainv_register s p :
    ainv s -> tp_denoms p <> [] -> tp_unmarshal (tp_marshal p) = Some p ->
    (forall kv, In kv (W p) -> aget (fst kv) s = None) ->
    ainv (agg_register tp_marshal sha256 hex_to_address p s).
  Proof.
    intros [S [P [G E]]] ND RT Fresh. unfold agg_register. split; [apply apply_writes_sorted; exact S|].
    exists (fun q => q = p \/ P q). split.
    - intros q [->|Pq]; [auto | apply G; exact Pq].
    - intros [k v]. rewrite (in_sorted_iff _ _ _ (apply_writes_sorted (W p) s S)), aget_apply_writes. split.
      + destruct (last_write k (W p)) as [v'|] eqn:L.
        * intros [= <-]. exists p. split; [left; reflexivity | apply last_write_in; exact L].
        * intro A. apply aget_some_in, E in A as [q [Pq I]]. exists q. auto.
      + intros [q [[->|Pq] I]].
        * apply last_write_W in I. rewrite I. reflexivity.
        * assert (Is : In (k, v) s) by (apply E; exists q; auto).
          destruct (last_write k (W p)) as [v'|] eqn:L.
          -- apply last_write_in in L. specialize (Fresh _ L). cbn [fst] in Fresh.
             rewrite (aget_in_sorted _ _ _ S Is) in Fresh. discriminate.
          -- apply aget_in_sorted; assumption.
  Qed.

  (** ** Delete a registered pair *)
  Lemma ainv_delete s p : ainv s -> In p (agg_pairs s) -> ainv (agg_delete tp_marshal sha256 hex_to_address p s).
  Proof.
    intros [S [P [G E]]] Ip. pose proof (pairs_in_P s P G E p Ip) as Pp. unfold agg_delete.
    split; [apply sorted_filter; exact S|]. exists (fun q => P q /\ q <> p). split.
    - intros q [Pq _]. apply G. exact Pq.
    - intros [k v]. rewrite filter_In. cbn [fst]. split.
      + intros [I F]. apply E in I as [q [Pq I]]. exists q. split; [|exact I]. split; [exact Pq|]. intros ->.
        apply negb_true_iff in F. unfold bmem in F. assert (X : existsb (bytes_eqb k) (map fst (W p)) = true).
        { apply existsb_exists. exists k. split; [|apply bytes_eqb_refl]. apply in_map_iff. exists (k, v). auto. }
        congruence.
      + intros [q [[Pq NE] I]]. split; [apply E; exists q; auto|]. apply negb_true_iff. apply not_true_is_false. intro X.
        unfold bmem in X. apply existsb_exists in X as [k' [Ik Ek]]. apply bytes_eqb_eq in Ek. subst k'.
        apply in_map_iff in Ik as [[k'' v'] [Ek I']]. cbn [fst] in Ek. subst k''.
        apply NE. symmetry. apply (same_key_same_pair s P S G E p q k v' v Pp Pq I' I).
  Qed.

  (** ** Rewrite a pair: same contract and denominations (hence the same id) *)
  Lemma W_same_index p p' kv :
    tp_erc20 p' = tp_erc20 p -> tp_denoms p' = tp_denoms p ->
    (In kv (W p') <-> kv = (x01 :: id_of p, tp_marshal p') \/ (In kv (W p) /\ fst kv <> x01 :: id_of p)).
  Proof.
    intros Ee Ed.
    assert (Id : id_of p' = id_of p) by (unfold Genesis.id_or_nil, Genesis.pair_id; rewrite Ee, Ed; reflexivity).
    rewrite !in_W, Id, Ee, Ed. split.
    - intros [H|[[d [D H]]|H]]; [left; exact H | right | right]; (split; [|subst kv; cbn [fst]; congruence]).
      + right. left. exists d. auto.
      + right. right. exact H.
    - intros [H|[[H|[[d [D H]]|H]] N]]; [left; exact H | | right; left; exists d; auto | right; right; exact H].
      subst kv. cbn [fst] in N. congruence.
  Qed.

  Lemma ainv_set_pair s p p' :
    ainv s -> In p (agg_pairs s) -> tp_erc20 p' = tp_erc20 p -> tp_denoms p' = tp_denoms p ->
    tp_unmarshal (tp_marshal p') = Some p' -> ainv (agg_set_pair tp_marshal sha256 p' s).
  Proof.
    intros [S [P [G E]]] Ip Ee Ed RT. pose proof (pairs_in_P s P G E p Ip) as Pp. unfold agg_set_pair, pair_key.
    assert (Id : id_of p' = id_of p) by (unfold Genesis.id_or_nil, Genesis.pair_id; rewrite Ee, Ed; reflexivity).
    rewrite Id. change aggregate_KeyPrefixTokenPair with [x01]. cbn [app].
    split; [apply aset_sorted; exact S|]. exists (fun q => q = p' \/ (P q /\ q <> p)). split.
    - intros q [->|[Pq _]]; [|apply G; exact Pq]. split; [rewrite Ed; apply (G p Pp) | exact RT].
    - intro kv. rewrite (in_aset _ _ _ _ S). split.
      + intros [->|[I N]].
        * exists p'. split; [left; reflexivity|]. apply (W_same_index p p' _ Ee Ed). left. reflexivity.
        * apply E in I as [q [Pq I]]. destruct (pair_dec q p) as [->|NE].
          -- exists p'. split; [left; reflexivity|]. apply (W_same_index p p' _ Ee Ed). right. auto.
          -- exists q. split; [right; auto | exact I].
      + intros [q [[->|[Pq NE]] I]].
        * apply (W_same_index p p' _ Ee Ed) in I as [->|[I N]]; [left; reflexivity|]. right. split; [|exact N].
          apply E. exists p. auto.
        * right. split; [apply E; exists q; auto|]. intro X. destruct kv as [k v]. cbn [fst] in X. subst k.
          apply NE. apply (same_key_same_pair s P S G E q p _ v (tp_marshal p) Pq Pp I). apply in_W. left. reflexivity.
  Qed.

  (** ** Add a denomination to a registered pair (the first denomination, hence the id, is unchanged) *)
  Lemma id_with_denom p d : tp_denoms p <> [] -> id_of (with_denom p d) = id_of p.
  Proof. unfold Genesis.id_or_nil, Genesis.pair_id, with_denom. cbn [tp_denoms tp_erc20]. destruct (tp_denoms p); [congruence | reflexivity]. Qed.

  Lemma W_with_denom p d kv :
    tp_denoms p <> [] ->
    (In kv (W (with_denom p d)) <->
     kv = (x01 :: id_of p, tp_marshal (with_denom p d)) \/ kv = (x03 :: d, id_of p) \/ (In kv (W p) /\ fst kv <> x01 :: id_of p)).
  Proof.
    intro ND. rewrite !in_W, (id_with_denom p d ND). cbn [with_denom tp_denoms tp_erc20]. split.
    - intros [H|[[d0 [D H]]|H]].
      + left. exact H.
      + apply in_app_or in D as [D|[<-|[]]].
        * right. right. split; [right; left; exists d0; auto | subst kv; cbn [fst]; congruence].
        * right. left. exact H.
      + right. right. split; [right; right; exact H | subst kv; cbn [fst]; congruence].
    - intros [H|[H|[[H|[[d0 [D H]]|H]] N]]].
      + left. exact H.
      + right. left. exists d. split; [apply in_or_app; right; left; reflexivity | exact H].
      + subst kv. cbn [fst] in N. congruence.
      + right. left. exists d0. split; [apply in_or_app; left; exact D | exact H].
      + right. right. exact H.
  Qed.

  Lemma ainv_add_denom s p d :
    ainv s -> In p (agg_pairs s) -> aget (denom_key d) s = None ->
    tp_unmarshal (tp_marshal (with_denom p d)) = Some (with_denom p d) ->
    ainv (agg_add_denom tp_marshal sha256 p d s).
  Proof.
    intros [S [P [G E]]] Ip Fresh RT. pose proof (pairs_in_P s P G E p Ip) as Pp. destruct (G p Pp) as [ND _].
    unfold agg_add_denom, pair_key, denom_key in *. rewrite (id_with_denom p d ND).
    change aggregate_KeyPrefixTokenPair with [x01]. change aggregate_KeyPrefixTokenPairByDenom with [x03] in *. cbn [app] in *.
    set (p' := with_denom p d) in *.
    assert (S1 : sorted (aset (x01 :: id_of p) (tp_marshal p') s) = true) by (apply aset_sorted; exact S).
    split; [apply aset_sorted; exact S1|]. exists (fun q => q = p' \/ (P q /\ q <> p)). split.
    - intros q [->|[Pq _]]; [|apply G; exact Pq]. split; [|exact RT]. unfold p', with_denom. cbn [tp_denoms].
      destruct (tp_denoms p); discriminate.
    - assert (NotD : forall k v, In (k, v) s -> k <> x03 :: d).
      { intros k v I ->. rewrite (aget_in_sorted _ _ _ S I) in Fresh. discriminate. }
      intro kv. rewrite (in_aset _ _ _ _ S1), (in_aset _ _ _ _ S). split.
      + intros [->|[[->|[I N1]] N2]].
        * exists p'. split; [left; reflexivity|]. apply (W_with_denom p d _ ND). right. left. reflexivity.
        * exists p'. split; [left; reflexivity|]. apply (W_with_denom p d _ ND). left. reflexivity.
        * apply E in I as [q [Pq I]]. destruct (pair_dec q p) as [->|NE].
          -- exists p'. split; [left; reflexivity|]. apply (W_with_denom p d _ ND). right. right. auto.
          -- exists q. split; [right; auto | exact I].
      + intros [q [[->|[Pq NE]] I]].
        * apply (W_with_denom p d _ ND) in I as [->|[->|[I N]]].
          -- right. split; [left; reflexivity | cbn [fst]; congruence].
          -- left. reflexivity.
          -- assert (Is : In kv s) by (apply E; exists p; auto). destruct kv as [k v]. right. split; [right; auto|].
             cbn [fst]. apply (NotD k v Is).
        * assert (Is : In kv s) by (apply E; exists q; auto). destruct kv as [k v]. right. split.
          -- right. split; [exact Is|]. cbn [fst]. intros ->. apply NE.
             apply (same_key_same_pair s P S G E q p _ v (tp_marshal p) Pq Pp I). apply in_W. left. reflexivity.
          -- cbn [fst]. apply (NotD k v Is).
  Qed.

  (** ** Every write of the aggregate keeper preserves [wf_agg]; every reachable aggregate store round-trips *)
  Theorem agg_step_wf s s' : wf_agg s = true -> agg_step s s' -> wf_agg s' = true.
  Proof.
    intros WF St. apply wf_agg_iff. apply wf_agg_iff in WF. destruct St.
    - apply ainv_register; assumption.
    - apply ainv_delete; assumption.
    - eapply ainv_set_pair; eassumption.
    - apply ainv_add_denom; assumption.
  Qed.

  Theorem agg_reach_wf s : agg_reach s -> wf_agg s = true.
  Proof.
    induction 1 as [|s s' R IH St]; [reflexivity|]. eapply agg_step_wf; eassumption.
  Qed.

  Theorem agg_reach_round_trip s :
    agg_reach s -> exists ps, export_agg tp_unmarshal s = Ok ps /\ import_agg tp_marshal sha256 hex_to_address ps = Ok s.
  Proof. intro R. apply agg_round_trip. apply agg_reach_wf. exact R. Qed.
End AggInv.
