(** C13: monitor soundness.  The executable monitor [mon_case] (Model/GenesisCheck.v: the property on the
    implementation's observations) accepts the observations the MODEL produces for every state inside the domain of
    the theorems: when the real code behaves like the model on a well-formed, valid state, no monitor code fires —
    so a monitor failure on a real trace is a deviation from the proved behaviour, never an artefact of the monitor. *)
From Teleport Require Import Base.Bytes Base.Outcome Base.AList Base.Fmt Gen.KeysGen Model.Keys Model.Genesis Model.GenesisCheck.
From Teleport Require Import Proofs.GenesisStore Proofs.GenesisKeys Proofs.GenesisXibc Proofs.GenesisAgg Proofs.GenesisValid Proofs.Genesis.
From Teleport Require Model.Rvesting.
Local Open Scope N_scope.

Lemma list_eqb_refl {X} (e : X -> X -> bool) l : (forall x, In x l -> e x x = true) -> list_eqb e l l = true.
Proof.
  induction l as [|x l IH]; intro H; [reflexivity|]. cbn. rewrite (H x (or_introl eq_refl)). apply IH.
  intros y Hy. apply H. right. exact Hy.
Qed.
Lemma kv_eqb_refl x : kv_eqb x x = true.
Proof. unfold kv_eqb. rewrite !bytes_eqb_refl. reflexivity. Qed.
Lemma store_eqb_refl s : store_eqb s s = true.
Proof. apply list_eqb_refl. intros. apply kv_eqb_refl. Qed.
Lemma bytes_list_eqb_refl l : list_eqb bytes_eqb l l = true.
Proof. apply list_eqb_refl. intros. apply bytes_eqb_refl. Qed.
Lemma relayer_eqb_refl r : relayer_eqb r r = true.
Proof. unfold relayer_eqb. rewrite bytes_eqb_refl, !bytes_list_eqb_refl. reflexivity. Qed.
Lemma pair_eqb_refl p : pair_eqb p p = true.
Proof. unfold pair_eqb. rewrite bytes_eqb_refl, bytes_list_eqb_refl, Bool.eqb_reflx, N.eqb_refl. reflexivity. Qed.
Lemma pstate_eqb_refl p : pstate_eqb p p = true.
Proof. unfold pstate_eqb. rewrite !bytes_eqb_refl, N.eqb_refl. reflexivity. Qed.
Lemma height_eqb_refl h : height_eqb h h = true.
Proof. unfold height_eqb. rewrite !N.eqb_refl. reflexivity. Qed.
Lemma rv_eqb_refl p : rv_eqb p p = true.
Proof.
  unfold rv_eqb. rewrite Bool.eqb_reflx. cbn [andb]. apply list_eqb_refl. intros x _. rewrite bytes_eqb_refl, Z.eqb_refl. reflexivity.
Qed.
Lemma bb_eqb_refl p : bb_eqb p p = true.
Proof. unfold bb_eqb. rewrite !Bool.eqb_reflx. reflexivity. Qed.

Lemma genesis_eqb_refl g : genesis_eqb g g = true.
Proof.
  unfold genesis_eqb, client_genesis_eqb, packet_genesis_eqb.
  rewrite bb_eqb_refl, rv_eqb_refl, bytes_eqb_refl.
  rewrite (list_eqb_refl kv_eqb) by (intros; apply kv_eqb_refl).
  rewrite (list_eqb_refl relayer_eqb) by (intros; apply relayer_eqb_refl).
  rewrite (list_eqb_refl pair_eqb) by (intros; apply pair_eqb_refl).
  rewrite !(list_eqb_refl pstate_eqb) by (intros; apply pstate_eqb_refl).
  rewrite (list_eqb_refl (fun x y : bytes * bytes * N => bytes_eqb (fst (fst x)) (fst (fst y)) && bytes_eqb (snd (fst x)) (snd (fst y)) && (snd x =? snd y)))
    by (intros x _; rewrite !bytes_eqb_refl, N.eqb_refl; reflexivity).
  rewrite (list_eqb_refl (fun x y : bytes * list (bytes * bytes) => bytes_eqb (fst x) (fst y) && list_eqb kv_eqb (snd x) (snd y)))
    by (intros x _; rewrite bytes_eqb_refl; apply (list_eqb_refl kv_eqb); intros; apply kv_eqb_refl).
  rewrite (list_eqb_refl (fun x y : bytes * list (height * bytes) => bytes_eqb (fst x) (fst y)
             && list_eqb (fun p q => height_eqb (fst p) (fst q) && bytes_eqb (snd p) (snd q)) (snd x) (snd y)))
    by (intros x _; rewrite bytes_eqb_refl; apply list_eqb_refl; intros p _; rewrite height_eqb_refl, bytes_eqb_refl; reflexivity).
  reflexivity.
Qed.

Section Monitor.
  Variable T : tables.

  Definition m_wf_state (st : mstate) : bool := m_wf_xibc T (st_xibc st) && m_wf_agg T (st_agg st).
  Definition m_valid_state (st : mstate) : bool :=
    m_valid_xibc T (st_xibc st) && validate_agg (o_addr T) (m_agg_pairs T (st_agg st)) && validate_rv (st_rv_params st).

  (** the observations of a run in which the real code behaves exactly like the model *)
  Definition model_case (st : mstate) : option gcase :=
    match m_export T st with
    | Ok g =>
        match m_import T g with
        | Ok st' =>
            match m_export T st' with
            | Ok g2 =>
                Some {| c_tab := T; c_has_pre := true; c_pre := st; c_export_class := 0; c_export := g; c_app_equal := true;
                        c_validate := (bclass (m_validate_xibc T g), (bclass (m_validate_agg T g), bclass (m_validate_rv g)));
                        c_init_class := 0; c_post := st'; c_export2_class := 0; c_export2 := g2;
                        c_has_input := false; c_input := empty_genesis; c_in_validate := (0, (0, 0))%nat; c_in_init := 9;
                        c_texts := [] |}
            | _ => None
            end
        | _ => None
        end
    | _ => None
    end.

  Theorem monitor_accepts_model st :
    m_wf_state st = true -> m_valid_state st = true -> exists c, model_case st = Some c /\ mon_case c = [].
  Proof.
    intros W V. unfold m_wf_state, m_wf_xibc, m_wf_agg in W.
    assert (W' : wf_state bytes bytes (o_cs_unmarshal T) (fun v => v) (o_cs_type T) (o_cons_unmarshal T) (fun v => v)
                          (o_rel_unmarshal T) (o_rel_marshal T) (o_tp_unmarshal T) (o_tp_marshal T) (o_sha T) (o_addr T) st = true) by exact W.
    destruct (export_import_id _ _ _ _ _ _ _ _ _ _ _ _ _ st W') as [g [E I]].
    pose proof (export_validates_iff _ _ _ _ _ _ _ _ _ _ _ _ _ (o_cs_valid T) (o_cons_type T) (o_cons_valid T) (o_acc_ok T) st g W' E) as Vg.
    assert (Vs : valid_state bytes bytes (o_cs_unmarshal T) (o_cs_type T) (o_cs_valid T) (o_cons_unmarshal T) (o_cons_type T)
                             (o_cons_valid T) (o_rel_unmarshal T) (o_acc_ok T) (o_tp_unmarshal T) (o_addr T) st = true) by exact V.
    rewrite Vs in Vg. unfold validate in Vg. apply andb_true_iff in Vg as [Vg V3]. apply andb_true_iff in Vg as [V1 V2].
    unfold model_case, m_export, m_import. rewrite E, I, E. eexists. split; [reflexivity|].
    unfold mon_case. cbn [c_has_input c_in_init c_has_pre c_export_class c_validate c_app_equal c_init_class c_pre c_post c_export c_export2
                          c_export2_class andb negb nonzero Nat.eqb flag app].
    unfold m_validate_xibc, m_validate_agg, m_validate_rv. rewrite V1, V2, V3. cbn [bclass Nat.eqb orb flag app negb].
    rewrite !store_eqb_refl, bb_eqb_refl, rv_eqb_refl, genesis_eqb_refl. reflexivity.
  Qed.
End Monitor.
