(** C07 over whole histories: a ghost log of the accepted writes (the initial
    consensus state of CreateClient and every accepted header) is carried along
    [run_updates]; invariants relate the client store to that log:

    - [recorded]: every consensus state in the store is the one written by the
      LATEST logged event for its height, and the processed time stored for that
      height is the block time of that very event (so a header replacing an
      already stored height restarts the delay period), and its iteration key is
      present;
    - [iter_backed]: every iteration key has its consensus state, hence the
      pruning step of CheckHeaderAndUpdateState never fails on a reachable store
      (the "should never occur" branch really never occurs);
    - every logged event other than the initial one is an accepted UpdateClient
      message of the history.

    Consequence ([verify_after_last_processing]): a proof is honoured only against
    the app hash of the last header accepted for that height, and only when the
    configured delay has passed since THAT header was processed. *)
From Teleport Require Import Base.Bytes Base.Outcome Model.Tendermint Model.TendermintCheck
  Proofs.TendermintStore Proofs.TendermintVerify Proofs.Tendermint Proofs.TendermintMonitor.
From Coq Require Import Lia ZArith NArith List Bool.
Local Open Scope Z_scope.

Lemma h_eqb_eq a b : h_eqb a b = true <-> a = b.
Proof.
  unfold h_eqb. destruct a as [ar ah], b as [br bh]; cbn. rewrite andb_true_iff, !N.eqb_eq.
  split; [intros [-> ->]; reflexivity | intro E; inversion E; auto].
Qed.

Lemma h_eqb_neq a b : a <> b -> h_eqb a b = false.
Proof. intro N. destruct (h_eqb a b) eqn:E; [apply h_eqb_eq in E; contradiction | reflexivity]. Qed.

Lemma pt_key_eq_cons_key a b : pt_key a = pt_key b -> cons_key a = cons_key b.
Proof. unfold pt_key. apply app_inv_tail. Qed.

Lemma iter_key_eq_cons_key a b : iter_key a = iter_key b -> cons_key a = cons_key b.
Proof. unfold iter_key, cons_key. intro E. apply app_inv_head in E. now rewrite E. Qed.

Lemma cons_key_eq_iter_key a b : cons_key a = cons_key b -> iter_key a = iter_key b.
Proof. unfold iter_key, cons_key. intro E. apply app_inv_head in E. now rewrite E. Qed.

Lemma cons_key_eq_pt_key a b : cons_key a = cons_key b -> pt_key a = pt_key b.
Proof. unfold pt_key. now intros ->. Qed.

(** [in_pruned] on the three kinds of keys *)
Lemma in_pruned_cons p h : in_pruned p (cons_key h) = match p with Some ph => bytes_eqb (cons_key h) (cons_key ph) | None => false end.
Proof.
  destruct p as [ph|]; [|reflexivity]. unfold in_pruned.
  destruct (bytes_eqb_spec (cons_key h) (pt_key ph)) as [E|_]; [now apply cons_pt_neq in E|].
  destruct (bytes_eqb_spec (cons_key h) (iter_key ph)) as [E|_]; [now apply cons_iter_neq in E|].
  now rewrite !orb_false_r.
Qed.

Lemma in_pruned_pt p h : in_pruned p (pt_key h) = match p with Some ph => bytes_eqb (pt_key h) (pt_key ph) | None => false end.
Proof.
  destruct p as [ph|]; [|reflexivity]. unfold in_pruned.
  destruct (bytes_eqb_spec (pt_key h) (cons_key ph)) as [E|_]; [symmetry in E; now apply cons_pt_neq in E|].
  destruct (bytes_eqb_spec (pt_key h) (iter_key ph)) as [E|_]; [now apply pt_iter_neq in E|].
  now rewrite orb_false_r.
Qed.

Lemma in_pruned_iter p h : in_pruned p (iter_key h) = match p with Some ph => bytes_eqb (iter_key h) (iter_key ph) | None => false end.
Proof.
  destruct p as [ph|]; [|reflexivity]. unfold in_pruned.
  destruct (bytes_eqb_spec (iter_key h) (cons_key ph)) as [E|_]; [symmetry in E; now apply cons_iter_neq in E|].
  destruct (bytes_eqb_spec (iter_key h) (pt_key ph)) as [E|_]; [symmetry in E; now apply pt_iter_neq in E|].
  reflexivity.
Qed.

(** the three keys of one height are pruned together *)
Lemma in_pruned_cons_pt p h : in_pruned p (pt_key h) = in_pruned p (cons_key h).
Proof.
  rewrite in_pruned_cons, in_pruned_pt. destruct p as [ph|]; [|reflexivity].
  destruct (bytes_eqb_spec (cons_key h) (cons_key ph)) as [E|N].
  - rewrite (cons_key_eq_pt_key _ _ E). apply bytes_eqb_refl.
  - destruct (bytes_eqb_spec (pt_key h) (pt_key ph)) as [E|_]; [apply pt_key_eq_cons_key in E; contradiction | reflexivity].
Qed.

Lemma in_pruned_cons_iter p h : in_pruned p (iter_key h) = in_pruned p (cons_key h).
Proof.
  rewrite in_pruned_cons, in_pruned_iter. destruct p as [ph|]; [|reflexivity].
  destruct (bytes_eqb_spec (cons_key h) (cons_key ph)) as [E|N].
  - rewrite (cons_key_eq_iter_key _ _ E). apply bytes_eqb_refl.
  - destruct (bytes_eqb_spec (iter_key h) (iter_key ph)) as [E|_]; [apply iter_key_eq_cons_key in E; contradiction | reflexivity].
Qed.

(** * The invariants *)
Definition recorded (s : store) (log : list event) : Prop :=
  forall h c, valid_height h -> get_cons s h = Ok c ->
  exists e, latest_event h log = Some e /\ ev_cons e = c /\
            get_processed_time s h = Some (Ok (u64 (ev_now e))) /\
            sget (iter_key h) s = Some (VBytes (cons_key h)).

Definition iter_backed (s : store) : Prop :=
  forall h, valid_height h -> sget (iter_key h) s <> None -> exists c, get_cons s h = Ok c.

Lemma get_cons_some s h c : get_cons s h = Ok c <-> sget (cons_key h) s = Some (VCons c).
Proof.
  unfold get_cons. destruct (sget (cons_key h) s) as [[| |]|]; split; intro H; inversion H; reflexivity.
Qed.

Lemma processed_time_be64 s h t :
  sget (pt_key h) s = Some (VBytes (be64 (u64 t))) -> get_processed_time s h = Some (Ok (u64 t)).
Proof.
  intro H. unfold get_processed_time. rewrite H.
  destruct (be64 (u64 t)) as [|x b] eqn:E.
  - apply (f_equal (@length byte)) in E. rewrite be64_length in E. discriminate.
  - rewrite <- E. now rewrite be_uint64_be64 by apply u64_bound.
Qed.

(** CreateClient establishes them, with the initial consensus state as first event *)
Definition init_event (cs : client_state) (cons : cons_state) (now0 : Z) : event :=
  {| ev_h := cs_latest cs; ev_cons := cons; ev_now := now0 |}.

Lemma create_client_sget cs cons now0 k :
  sget k (create_client [] cs cons now0) =
    if bytes_eqb k (cons_key (cs_latest cs)) then Some (VCons cons)
    else if bytes_eqb k (iter_key (cs_latest cs)) then Some (VBytes (cons_key (cs_latest cs)))
    else if bytes_eqb k (pt_key (cs_latest cs)) then Some (VBytes (be64 (u64 now0)))
    else if bytes_eqb k client_key then Some (VClient cs) else None.
Proof. unfold create_client, set_metadata. rewrite !sget_sset. reflexivity. Qed.

Lemma create_client_recorded cs cons now0 :
  valid_height (cs_latest cs) -> recorded (create_client [] cs cons now0) [init_event cs cons now0].
Proof.
  intros V h c Vh Hc. apply get_cons_some in Hc. rewrite create_client_sget in Hc.
  destruct (bytes_eqb_spec (cons_key h) (cons_key (cs_latest cs))) as [E|N].
  - apply cons_key_inj in E; auto. subst h. inversion Hc; subst c.
    exists (init_event cs cons now0). unfold latest_event. cbn [find init_event ev_h]. rewrite h_eqb_refl.
    split; [reflexivity|]. split; [reflexivity|]. split.
    + apply processed_time_be64. rewrite create_client_sget.
      destruct (bytes_eqb_spec (pt_key (cs_latest cs)) (cons_key (cs_latest cs))) as [E|_]; [symmetry in E; now apply cons_pt_neq in E|].
      destruct (bytes_eqb_spec (pt_key (cs_latest cs)) (iter_key (cs_latest cs))) as [E|_]; [now apply pt_iter_neq in E|].
      now rewrite bytes_eqb_refl.
    + rewrite create_client_sget.
      destruct (bytes_eqb_spec (iter_key (cs_latest cs)) (cons_key (cs_latest cs))) as [E|_]; [symmetry in E; now apply cons_iter_neq in E|].
      now rewrite bytes_eqb_refl.
  - destruct (bytes_eqb_spec (cons_key h) (iter_key (cs_latest cs))) as [E|_]; [now apply cons_iter_neq in E|].
    destruct (bytes_eqb_spec (cons_key h) (pt_key (cs_latest cs))) as [E|_]; [now apply cons_pt_neq in E|].
    destruct (bytes_eqb_spec (cons_key h) client_key) as [E|_]; [now apply cons_client_neq in E|]. discriminate.
Qed.

Lemma create_client_iter_backed cs cons now0 :
  valid_height (cs_latest cs) -> iter_backed (create_client [] cs cons now0).
Proof.
  intros V h Vh Hi. rewrite create_client_sget in Hi.
  destruct (bytes_eqb_spec (iter_key h) (cons_key (cs_latest cs))) as [E|_]; [symmetry in E; now apply cons_iter_neq in E|].
  destruct (bytes_eqb_spec (iter_key h) (iter_key (cs_latest cs))) as [E|_].
  - apply iter_key_inj in E; auto. subst h. exists cons. apply get_cons_some. rewrite create_client_sget.
    now rewrite bytes_eqb_refl.
  - destruct (bytes_eqb_spec (iter_key h) (pt_key (cs_latest cs))) as [E|_]; [symmetry in E; now apply pt_iter_neq in E|].
    destruct (bytes_eqb_spec (iter_key h) client_key) as [E|_]; [now apply iter_client_neq in E|]. congruence.
Qed.

Lemma first_with_prefix_in p s k v : first_with_prefix p s = Some (k, v) -> In (k, v) s /\ is_prefix p k = true.
Proof.
  induction s as [|[k' v'] t IH]; [discriminate|]. cbn [first_with_prefix].
  destruct (is_prefix p k') eqn:P.
  - intro F. inversion F; subst. split; [left; reflexivity | exact P].
  - intro F. destruct (IH F). split; [right; assumption | assumption].
Qed.

Lemma In_sget_some k v s : In (k, v) s -> sget k s <> None.
Proof.
  induction s as [|[k' v'] t IH]; [intros []|]. cbn [sget In].
  destruct (bytes_eqb_spec k k'); [discriminate|].
  intros [E|I]; [inversion E; subst; contradiction | auto].
Qed.

Section History.
  Variable valset_hash : list (pubkey * Z) -> bytes.
  Variable header_hash : pheader -> bytes.
  Variable verify_sig : pubkey -> bytes -> pcommit -> nat -> bool.

  Notation upd := (update_client valset_hash header_hash verify_sig).

  Definition event_of (hdr : header) (now : Z) : option event :=
    match get_height hdr, header_pheader hdr with
    | Ok hh, Ok h => Some {| ev_h := hh; ev_cons := new_cons_state h; ev_now := now |}
    | _, _ => None
    end.

  (** [run_updates] with the ghost log (newest event first) *)
  Fixpoint run_log (s : store) (log : list event) (ops : list (header * Z)) : store * list event :=
    match ops with
    | [] => (s, log)
    | (hdr, now) :: ops' =>
        match upd s hdr now, event_of hdr now with
        | Ok s', Some e => run_log s' (e :: log) ops'
        | _, _ => run_log s log ops'
        end
    end.

  Lemma update_event s hdr now s' :
    upd s hdr now = Ok s' -> exists hh h, get_height hdr = Ok hh /\ header_pheader hdr = Ok h /\
      event_of hdr now = Some {| ev_h := hh; ev_cons := new_cons_state h; ev_now := now |}.
  Proof.
    intro U. apply update_exact in U as (cs & h & hh & p & _ & Hp & Hh & _).
    exists hh, h. unfold event_of. rewrite Hh, Hp. auto.
  Qed.

  (** the ghost log does not influence the store *)
  Lemma run_log_fst ops : forall s log,
    fst (run_log s log ops) = run_updates valset_hash header_hash verify_sig s ops.
  Proof.
    induction ops as [|[hdr now] ops IH]; intros s log; cbn [run_log run_updates]; [reflexivity|].
    unfold deliver_update. destruct (upd s hdr now) as [s'| |] eqn:U; try apply IH.
    destruct (update_event _ _ _ _ U) as (hh & h & _ & _ & ->). apply IH.
  Qed.

  (** one accepted update preserves both invariants *)
  Lemma update_recorded s log hdr now s' e :
    recorded s log -> upd s hdr now = Ok s' -> event_of hdr now = Some e -> recorded s' (e :: log).
  Proof.
    intros R U Ev. destruct (update_event _ _ _ _ U) as (hh & h & Hh & Hp & Ev'). rewrite Ev in Ev'. inversion Ev'; subst e. clear Ev'.
    pose proof (get_height_valid _ _ Hh) as Vhh.
    pose proof (processed_time_recorded _ _ _ _ _ _ _ _ U Hh) as [PT _].
    apply update_exact in U as (cs & h' & hh' & p & _ & Hp' & Hh' & _ & Hk).
    rewrite Hh in Hh'. inversion Hh'; subst hh'. rewrite Hp in Hp'. inversion Hp'; subst h'.
    intros h0 c V0 Hc. apply get_cons_some in Hc. rewrite Hk in Hc.
    destruct (bytes_eqb_spec (cons_key h0) (cons_key hh)) as [E|N].
    - apply cons_key_inj in E; auto. subst h0. inversion Hc; subst c.
      eexists. unfold latest_event. cbn [find ev_h]. rewrite h_eqb_refl.
      split; [reflexivity|]. split; [reflexivity|]. split; [exact PT|].
      rewrite Hk.
      destruct (bytes_eqb_spec (iter_key hh) (cons_key hh)) as [E|_]; [symmetry in E; now apply cons_iter_neq in E|].
      destruct (bytes_eqb_spec (iter_key hh) client_key) as [E|_]; [now apply iter_client_neq in E|].
      now rewrite bytes_eqb_refl.
    - destruct (bytes_eqb_spec (cons_key h0) client_key) as [E|_]; [now apply cons_client_neq in E|].
      destruct (bytes_eqb_spec (cons_key h0) (iter_key hh)) as [E|_]; [now apply cons_iter_neq in E|].
      destruct (bytes_eqb_spec (cons_key h0) (pt_key hh)) as [E|_]; [now apply cons_pt_neq in E|].
      destruct (in_pruned p (cons_key h0)) eqn:Pr; [discriminate|].
      apply get_cons_some in Hc. destruct (R h0 c V0 Hc) as (e & Le & Ec & Pt & It).
      exists e. unfold latest_event. cbn [find ev_h].
      assert (Nh : hh <> h0) by (intro X; subst; contradiction).
      rewrite (h_eqb_neq _ _ Nh). split; [exact Le|]. split; [exact Ec|]. split.
      + unfold get_processed_time in *. rewrite Hk.
        destruct (bytes_eqb_spec (pt_key h0) (cons_key hh)) as [E|_]; [symmetry in E; now apply cons_pt_neq in E|].
        destruct (bytes_eqb_spec (pt_key h0) client_key) as [E|_]; [now apply pt_client_neq in E|].
        destruct (bytes_eqb_spec (pt_key h0) (iter_key hh)) as [E|_]; [now apply pt_iter_neq in E|].
        destruct (bytes_eqb_spec (pt_key h0) (pt_key hh)) as [E|_]; [apply pt_key_eq_cons_key in E; contradiction|].
        rewrite in_pruned_cons_pt, Pr. exact Pt.
      + rewrite Hk.
        destruct (bytes_eqb_spec (iter_key h0) (cons_key hh)) as [E|_]; [symmetry in E; now apply cons_iter_neq in E|].
        destruct (bytes_eqb_spec (iter_key h0) client_key) as [E|_]; [now apply iter_client_neq in E|].
        destruct (bytes_eqb_spec (iter_key h0) (iter_key hh)) as [E|_]; [apply iter_key_eq_cons_key in E; contradiction|].
        destruct (bytes_eqb_spec (iter_key h0) (pt_key hh)) as [E|_]; [symmetry in E; now apply pt_iter_neq in E|].
        rewrite in_pruned_cons_iter, Pr. exact It.
  Qed.

  Lemma update_iter_backed s hdr now s' :
    iter_backed s -> upd s hdr now = Ok s' -> iter_backed s'.
  Proof.
    intros B U. destruct (update_event _ _ _ _ U) as (hh & h & Hh & Hp & _).
    pose proof (get_height_valid _ _ Hh) as Vhh.
    apply update_exact in U as (cs & h' & hh' & p & _ & Hp' & Hh' & _ & Hk).
    rewrite Hh in Hh'. inversion Hh'; subst hh'.
    intros h0 V0 Hi. rewrite Hk in Hi.
    destruct (bytes_eqb_spec (cons_key h0) (cons_key hh)) as [E|N].
    - eexists. apply get_cons_some. rewrite Hk, E, bytes_eqb_refl. reflexivity.
    - destruct (bytes_eqb_spec (iter_key h0) (cons_key hh)) as [E|_]; [symmetry in E; now apply cons_iter_neq in E|].
      destruct (bytes_eqb_spec (iter_key h0) client_key) as [E|_]; [now apply iter_client_neq in E|].
      destruct (bytes_eqb_spec (iter_key h0) (iter_key hh)) as [E|_]; [apply iter_key_eq_cons_key in E; contradiction|].
      destruct (bytes_eqb_spec (iter_key h0) (pt_key hh)) as [E|_]; [symmetry in E; now apply pt_iter_neq in E|].
      rewrite in_pruned_cons_iter in Hi. destruct (in_pruned p (cons_key h0)) eqn:Pr; [congruence|].
      destruct (B h0 V0 Hi) as (c & Hc). exists c. apply get_cons_some. rewrite Hk.
      destruct (bytes_eqb_spec (cons_key h0) (cons_key hh)) as [E|_]; [contradiction|].
      destruct (bytes_eqb_spec (cons_key h0) client_key) as [E|_]; [now apply cons_client_neq in E|].
      destruct (bytes_eqb_spec (cons_key h0) (iter_key hh)) as [E|_]; [now apply cons_iter_neq in E|].
      destruct (bytes_eqb_spec (cons_key h0) (pt_key hh)) as [E|_]; [now apply cons_pt_neq in E|].
      rewrite Pr. now apply get_cons_some.
  Qed.

  (** every logged event beyond the given prefix is an accepted message of the history *)
  Definition from_ops (ops : list (header * Z)) (e : event) : Prop :=
    exists hdr s_pre s_post, In (hdr, ev_now e) ops /\ upd s_pre hdr (ev_now e) = Ok s_post /\
      event_of hdr (ev_now e) = Some e.

  Lemma run_log_invariants ops : forall s log,
    recorded s log -> iter_backed s ->
    recorded (fst (run_log s log ops)) (snd (run_log s log ops)) /\
    iter_backed (fst (run_log s log ops)) /\
    (forall e, In e (snd (run_log s log ops)) -> In e log \/ from_ops ops e).
  Proof.
    induction ops as [|[hdr now] ops IH]; intros s log R B; cbn [run_log]; [cbn; auto|].
    destruct (upd s hdr now) as [s'| |] eqn:U.
    - destruct (update_event _ _ _ _ U) as (hh & h & _ & _ & Ev). rewrite Ev.
      destruct (IH s' (_ :: log) (update_recorded _ _ _ _ _ _ R U Ev) (update_iter_backed _ _ _ _ B U)) as (R' & B' & L').
      split; [exact R'|]. split; [exact B'|].
      intros e I. destruct (L' e I) as [[E|I0]|(hdr' & a & b & I1 & U1 & E1)].
      + right. subst e. exists hdr, s, s'. cbn [ev_now]. split; [left; reflexivity|]. auto.
      + auto.
      + right. exists hdr', a, b. split; [right; exact I1|]. auto.
    - destruct (IH s log R B) as (R' & B' & L'). split; [exact R'|]. split; [exact B'|].
      intros e I. destruct (L' e I) as [I0|(hdr' & a & b & I1 & U1 & E1)]; [auto|].
      right. exists hdr', a, b. split; [right; exact I1|]. auto.
    - destruct (IH s log R B) as (R' & B' & L'). split; [exact R'|]. split; [exact B'|].
      intros e I. destruct (L' e I) as [I0|(hdr' & a & b & I1 & U1 & E1)]; [auto|].
      right. exists hdr', a, b. split; [right; exact I1|]. auto.
  Qed.

  (** ** The pruning step never fails on a well-formed, iteration-backed store *)
  Lemma prune_never_fails cs s now :
    wf_iter_keys s -> iter_backed s -> exists p, prune_height cs s now = Ok p.
  Proof.
    intros W B. unfold prune_height. destruct (first_with_prefix iter_prefix s) as [[k v]|] eqn:F; [|eauto].
    destruct (first_with_prefix_in _ _ _ _ F) as [I P]. destruct (W k v I P) as (h & Vh & ->).
    rewrite height_from_iter_key_iter_key by exact Vh. cbn [obind].
    pose proof (In_sget_some _ _ _ I) as G.
    destruct (B h Vh G) as (c & Hc). rewrite Hc. cbn [obind]. eauto.
  Qed.
End History.

(** on a well-formed store the pruned height is a genuine height, its consensus
    state is expired, and no stored height (iteration key) is lower *)
Lemma prune_is_earliest_expired_wf cs s now p :
  sorted s -> wf_iter_keys s -> prune_height cs s now = Ok (Some p) ->
  valid_height p /\
  (exists c, get_cons s p = Ok c /\ c_time c + cs_trusting cs <= now) /\
  sget (iter_key p) s <> None /\
  forall h', valid_height h' -> sget (iter_key h') s <> None -> h_lte p h' = true.
Proof.
  intros S W H. destruct (prune_is_earliest_expired cs s now p S H) as (E & k & v & I & P & Hk & M).
  destruct (W k v I P) as (h & Vh & ->).
  rewrite height_from_iter_key_iter_key in Hk by exact Vh. inversion Hk; subst h.
  split; [exact Vh|]. split; [exact E|]. split; [eapply In_sget_some; eauto|].
  intros h' Vh' G. apply M; auto.
Qed.

(** nothing is pruned unless expired: when the earliest stored state is still
    within the trusting period the pruning step deletes nothing *)
Lemma prune_none_when_fresh cs s now k v h c :
  first_with_prefix iter_prefix s = Some (k, v) -> height_from_iter_key k = Ok h -> get_cons s h = Ok c ->
  c_time c + cs_trusting cs > now -> prune_height cs s now = Ok None.
Proof.
  intros F Hk Hc T. unfold prune_height. rewrite F, Hk. cbn [obind]. rewrite Hc. cbn [obind].
  unfold is_expired. destruct (c_time c + cs_trusting cs >? now) eqn:E; [reflexivity|]. lia.
Qed.

(** * Proofs are honoured only against the last accepted header of a height and
    only after the delay since THAT header was processed *)
Section Gate.
  Variable proof_decodes : bytes -> bool.
  Variable membership_ok : client_state -> bytes -> bytes -> bool -> (bytes * bytes * N) -> bytes -> bool.

  Lemma verify_after_last_processing s log cs now h proof ack path val :
    recorded s log -> valid_height h -> (cs_delay cs < two64N)%N ->
    verify_packet proof_decodes membership_ok cs s now h proof ack path val = Ok tt ->
    h_lte h (cs_latest cs) = true /\
    exists e pf, latest_event h log = Some e /\ proof = Some pf /\ proof_decodes pf = true /\
      membership_ok cs (c_root (ev_cons e)) pf ack path val = true /\
      (u64 (ev_now e) + cs_delay cs <= u64 now)%N.
  Proof.
    intros R V D H. apply verify_packet_gates in H as (L & cons & pf & pt & Hc & Hp & Hd & Hm & Hpt & Hle); [|exact D].
    split; [exact L|]. destruct (R h cons V Hc) as (e & Le & Ec & Pt & _).
    rewrite Pt in Hpt. inversion Hpt; subst pt.
    exists e, pf. subst cons. auto 10.
  Qed.

  Lemma latest_event_app h a b e : latest_event h a = Some e -> latest_event h (a ++ b) = Some e.
  Proof.
    unfold latest_event. induction a as [|x a IH]; [discriminate|]. cbn [find app].
    destruct (h_eqb (ev_h x) h); [auto|exact IH].
  Qed.

  (** the trace-history monitor accepts every proof the model honours: [tl] is the
      log of the trace (newest first), [rest] what happened before the trace began *)
  Lemma mon_verify_hist_sound tl rest s cs now h proof ack path val :
    recorded s (tl ++ rest) -> valid_height h -> client_of s = Some cs -> (cs_delay cs < two64N)%N ->
    0 <= now < two64 ->
    verify_packet proof_decodes membership_ok cs s now h proof ack path val = Ok tt ->
    mon_verify_hist tl s now h = [].
  Proof.
    intros R V Hc D Hn H. unfold mon_verify_hist. rewrite Hc.
    destruct (latest_event h tl) as [e|] eqn:Le; [|reflexivity].
    apply (latest_event_app _ _ rest) in Le.
    pose proof H as H'. apply verify_after_last_processing with (log := tl ++ rest) in H as (_ & e' & pf & Le' & _ & _ & _ & Hle); auto.
    rewrite Le in Le'. inversion Le'; subst e'.
    apply verify_packet_gates in H' as (_ & cons & _ & _ & Hcons & _); [|exact D].
    destruct (R h cons V Hcons) as (e2 & Le2 & Ec & _). rewrite Le in Le2. inversion Le2; subst e2.
    apply get_cons_some in Hcons. rewrite Hcons, Ec, cons_eqb_refl.
    assert (Eu : u64 now = Z.to_N now) by (apply u64_small; exact Hn).
    rewrite Eu in Hle.
    destruct (Z.of_N (u64 (ev_now e)) + Z.of_N (cs_delay cs) <=? now) eqn:E; [reflexivity|].
    apply Z.leb_gt in E. lia.
  Qed.
End Gate.
