(** * C14 — order independence of every map-ranging loop of [Model/MapLoops.v]

    Shape of every theorem: [Permutation l l' -> (side condition on the keys) -> loop l ~ loop l'] where [l], [l']
    are two enumerations of the same map and [~] is equality of the observable result ([eq] for lists / booleans,
    lookup-equivalence for Go maps, same outcome class and lookup-equivalence for a loop that may panic). *)
From Coq Require Import List String NArith Bool Permutation Sorting.Sorted Lia.
From Teleport Require Import Base.Bytes Base.Outcome Model.MapLoops.
Import ListNotations.

(** ** generic list facts *)

Lemma find_app {A} (p : A -> bool) (l1 l2 : list A) :
  find p (l1 ++ l2) = match find p l1 with Some x => Some x | None => find p l2 end.
Proof. induction l1 as [|a l1 IH]; cbn; [reflexivity|]. destruct (p a); auto. Qed.

Lemma NoDup_map_In_inj {A B} (f : A -> B) (l : list A) (x y : A) :
  NoDup (map f l) -> In x l -> In y l -> f x = f y -> x = y.
Proof.
  induction l as [|a l IH]; cbn; intros ND Hx Hy E; [contradiction|].
  inversion ND as [|? ? Hn ND']; subst.
  destruct Hx as [->|Hx], Hy as [->|Hy]; auto.
  - exfalso. apply Hn. rewrite E. apply in_map; assumption.
  - exfalso. apply Hn. rewrite <- E. apply in_map; assumption.
Qed.

Lemma existsb_perm {A} (p : A -> bool) (l l' : list A) : Permutation l l' -> existsb p l = existsb p l'.
Proof.
  intro P. destruct (existsb p l) eqn:E, (existsb p l') eqn:E'; auto.
  - apply existsb_exists in E as (x & I & Hx).
    assert (existsb p l' = true) by (apply existsb_exists; exists x; split; [eapply Permutation_in; eauto|auto]). congruence.
  - apply existsb_exists in E' as (x & I & Hx).
    assert (existsb p l = true) by (apply existsb_exists; exists x; split; [eapply Permutation_in; [apply Permutation_sym|]; eauto|auto]). congruence.
Qed.

(** ** Loop 1: building a map from a map *)
Section InsertLoop.
  Context {K V K' V' : Type} (tk : K -> V -> K') (tv : K -> V -> V').
  Context (keqb : K' -> K' -> bool) (keqb_spec : forall a b, keqb a b = true <-> a = b).

  Let tk' (e : K * V) := tk (fst e) (snd e).
  Let tv' (e : K * V) := tv (fst e) (snd e).

  Lemma insert_fold_lookup (l : list (K * V)) (m0 : gomap K' V') (k : K') :
    mlookup keqb k (fold_left (insert_step tk tv) l m0) =
    match find (fun e => keqb k (tk' e)) (rev l) with
    | Some e => Some (tv' e)
    | None => mlookup keqb k m0
    end.
  Proof.
    revert m0; induction l as [|e l IH]; intro m0; cbn [fold_left rev]; [reflexivity|].
    rewrite IH, find_app. destruct (find _ (rev l)); [reflexivity|].
    cbn. unfold tk', tv'. destruct (keqb k (tk (fst e) (snd e))); reflexivity.
  Qed.

  (** entries that write the same destination key write the same value *)
  Definition consistent (l : list (K * V)) : Prop :=
    forall e1 e2, In e1 l -> In e2 l -> tk' e1 = tk' e2 -> tv' e1 = tv' e2.

  Theorem insert_loop_perm_gen (l l' : list (K * V)) :
    Permutation l l' -> consistent l ->
    mequiv keqb (insert_loop tk tv l) (insert_loop tk tv l').
  Proof.
    intros P C k. unfold insert_loop. rewrite !insert_fold_lookup. cbn [mlookup].
    destruct (find _ (rev l)) as [e|] eqn:F; destruct (find _ (rev l')) as [e'|] eqn:F'.
    - apply find_some in F as [I E]. apply find_some in F' as [I' E'].
      apply keqb_spec in E. apply keqb_spec in E'.
      rewrite <- in_rev in I, I'. f_equal. apply C; auto.
      + eapply Permutation_in; [apply Permutation_sym; exact P|exact I'].
      + congruence.
    - apply find_some in F as [I E]. rewrite <- in_rev in I.
      eapply find_none in F'; [|rewrite <- in_rev; eapply Permutation_in; eauto]. cbv beta in F'. congruence.
    - apply find_some in F' as [I' E']. rewrite <- in_rev in I'.
      eapply find_none in F; [|rewrite <- in_rev; eapply Permutation_in; [apply Permutation_sym; exact P|exact I']].
      cbv beta in F. congruence.
    - reflexivity.
  Qed.

  (** BlockedAddrs: different module names must map to different addresses (premise: no collision of the
      address derivation on the keys of THIS map) *)
  Theorem insert_loop_perm (l l' : list (K * V)) :
    Permutation l l' -> NoDup (map tk' l) ->
    mequiv keqb (insert_loop tk tv l) (insert_loop tk tv l').
  Proof.
    intros P ND. apply insert_loop_perm_gen; [exact P|].
    intros e1 e2 I1 I2 E. rewrite (NoDup_map_In_inj tk' l e1 e2 ND I1 I2 E). reflexivity.
  Qed.

  (** what the loop computes: the value written for [k] comes from an entry whose destination key is [k] *)
  Theorem insert_loop_lookup (l : list (K * V)) (k : K') :
    consistent l ->
    forall v, mlookup keqb k (insert_loop tk tv l) = Some v <-> exists e, In e l /\ tk' e = k /\ tv' e = v.
  Proof.
    intros C v. unfold insert_loop. rewrite insert_fold_lookup. cbn [mlookup].
    destruct (find _ (rev l)) as [e|] eqn:F.
    - apply find_some in F as [I E]. apply keqb_spec in E. rewrite <- in_rev in I. split.
      + intro H; inversion H; subst. exists e; auto.
      + intros (e2 & I2 & E2 & <-). f_equal. apply C; auto; congruence.
    - split; [discriminate|]. intros (e2 & I2 & E2 & _).
      eapply find_none in F; [|rewrite <- in_rev; exact I2]. cbv beta in F.
      assert (keqb k (tk' e2) = true) by (apply keqb_spec; auto). congruence.
  Qed.
End InsertLoop.

(** ModuleAccountAddrs: every entry writes [true] — no premise on the address derivation at all *)
Theorem insert_loop_const_perm {K V K' V'} (tk : K -> V -> K') (c : V')
    (keqb : K' -> K' -> bool) (keqb_spec : forall a b, keqb a b = true <-> a = b) (l l' : list (K * V)) :
  Permutation l l' ->
  mequiv keqb (insert_loop tk (fun _ _ => c) l) (insert_loop tk (fun _ _ => c) l').
Proof. intro P. apply insert_loop_perm_gen; auto. intros ? ? ? ? ?; reflexivity. Qed.

(** GetMaccPerms / GetStoreKeys: copy under the same key, value transformed by [g] *)
Theorem copy_loop_perm {K V V'} (g : K -> V -> V')
    (keqb : K -> K -> bool) (keqb_spec : forall a b, keqb a b = true <-> a = b) (l l' : list (K * V)) :
  Permutation l l' -> NoDup (map fst l) ->
  mequiv keqb (insert_loop (fun k _ => k) g l) (insert_loop (fun k _ => k) g l').
Proof. intros P ND. apply insert_loop_perm; auto. Qed.

(** the copy really is a copy *)
Theorem copy_loop_lookup {K V} (keqb : K -> K -> bool) (keqb_spec : forall a b, keqb a b = true <-> a = b)
    (l : list (K * V)) (k : K) (v : V) :
  NoDup (map fst l) ->
  (mlookup keqb k (insert_loop (fun k _ => k) (fun _ v => v) l) = Some v <-> In (k, v) l).
Proof.
  intro ND. rewrite insert_loop_lookup; auto.
  - split.
    + intros ([k' v'] & I & E1 & E2); cbn in *; subst; exact I.
    + intro I. exists (k, v); auto.
  - intros e1 e2 I1 I2 E. cbn in E. rewrite (NoDup_map_In_inj fst l e1 e2 ND I1 I2 E). reflexivity.
Qed.

(** ** Loop 2: adapter handler tables *)

Definition outcome_mequiv {K V} (keqb : K -> K -> bool) (x y : outcome (gomap K V)) : Prop :=
  match x, y with
  | Ok m, Ok m' => mequiv keqb m m'
  | Err, Err => True
  | Panic, Panic => True
  | _, _ => False
  end.

Section HandlerLoop.
  Context {Name Ev Id H : Type} (handler_of : Name -> option H) (id_of : Ev -> Id).
  Context (ideqb : Id -> Id -> bool) (ideqb_spec : forall a b, ideqb a b = true <-> a = b).

  Let bad (e : Name * Ev) : bool := match handler_of (fst e) with None => true | Some _ => false end.

  Lemma handler_fold_panic (l : list (Name * Ev)) :
    fold_left (handler_step handler_of id_of) l Panic = Panic.
  Proof. induction l; cbn; auto. Qed.

  Lemma handler_fold_bad (l : list (Name * Ev)) (m0 : gomap Id H) :
    existsb bad l = true -> fold_left (handler_step handler_of id_of) l (Ok m0) = Panic.
  Proof.
    revert m0; induction l as [|e l IH]; intro m0; cbn; [discriminate|].
    unfold bad at 1. destruct (handler_of (fst e)) eqn:E; cbn.
    - apply IH.
    - intros _. apply handler_fold_panic.
  Qed.

  Lemma handler_fold_good (l : list (Name * Ev)) (m0 : gomap Id H) :
    existsb bad l = false ->
    exists m, fold_left (handler_step handler_of id_of) l (Ok m0) = Ok m /\
      forall k, mlookup ideqb k m =
        match find (fun e => ideqb k (id_of (snd e))) (rev l) with
        | Some e => handler_of (fst e)
        | None => mlookup ideqb k m0
        end.
  Proof.
    revert m0; induction l as [|e l IH]; intro m0; cbn [fold_left existsb rev].
    - intros _. exists m0; split; auto.
    - unfold bad at 1. unfold handler_step at 2. destruct (handler_of (fst e)) as [h|] eqn:E; cbn [orb]; [|discriminate].
      intro G. destruct (IH (minsert (id_of (snd e)) h m0) G) as (m & Hm & L).
      exists m; split; [exact Hm|]. intro k. rewrite L, find_app.
      destruct (find _ (rev l)); [reflexivity|]. cbn.
      destruct (ideqb k (id_of (snd e))); [symmetry; exact E|reflexivity].
  Qed.

  Lemma handler_loop_bad (l : list (Name * Ev)) :
    existsb bad l = true -> handler_loop handler_of id_of l = Panic.
  Proof. intro B. exact (handler_fold_bad l [] B). Qed.

  Lemma handler_loop_good (l : list (Name * Ev)) :
    existsb bad l = false ->
    exists m, handler_loop handler_of id_of l = Ok m /\
      forall k, mlookup ideqb k m =
        match find (fun e => ideqb k (id_of (snd e))) (rev l) with
        | Some e => handler_of (fst e)
        | None => None
        end.
  Proof. intro B. exact (handler_fold_good l [] B). Qed.

  (** the table is the same map (or the construction panics in both runs), whatever order the ABI's event map
      is ranged in — provided the event IDs (topic hashes) of the ABI's events are pairwise different *)
  Theorem handler_loop_perm (l l' : list (Name * Ev)) :
    Permutation l l' -> NoDup (map (fun e => id_of (snd e)) l) ->
    outcome_mequiv ideqb (handler_loop handler_of id_of l) (handler_loop handler_of id_of l').
  Proof.
    intros P ND.
    pose proof (existsb_perm bad l l' P) as EB.
    destruct (existsb bad l) eqn:B.
    - rewrite (handler_loop_bad l B), (handler_loop_bad l') by congruence. exact I.
    - destruct (handler_loop_good l B) as (m & -> & L).
      destruct (handler_loop_good l') as (m' & -> & L'); [congruence|].
      intro k. rewrite L, L'.
      destruct (find _ (rev l)) as [e|] eqn:F; destruct (find _ (rev l')) as [e'|] eqn:F'.
      + apply find_some in F as [I1 E]. apply find_some in F' as [I1' E'].
        apply ideqb_spec in E. apply ideqb_spec in E'. rewrite <- in_rev in I1, I1'.
        assert (e = e') as ->; [|reflexivity].
        apply (NoDup_map_In_inj (fun e => id_of (snd e)) l); auto.
        * eapply Permutation_in; [apply Permutation_sym; exact P|exact I1'].
        * congruence.
      + apply find_some in F as [I1 E]. rewrite <- in_rev in I1.
        eapply find_none in F'; [|rewrite <- in_rev; eapply Permutation_in; eauto]. cbv beta in F'. congruence.
      + apply find_some in F' as [I1' E']. rewrite <- in_rev in I1'.
        eapply find_none in F; [|rewrite <- in_rev; eapply Permutation_in; [apply Permutation_sym; exact P|exact I1']].
        cbv beta in F. congruence.
      + reflexivity.
  Qed.

  (** when does construction panic: exactly when the ABI has an event the switch does not know *)
  Theorem handler_loop_panics_iff (l : list (Name * Ev)) :
    handler_loop handler_of id_of l = Panic <-> exists e, In e l /\ handler_of (fst e) = None.
  Proof.
    destruct (existsb bad l) eqn:B.
    - rewrite (handler_loop_bad l B). split; auto. intros _.
      apply existsb_exists in B as (e & I1 & Hb). exists e; split; auto.
      unfold bad in Hb. destruct (handler_of (fst e)); [discriminate|reflexivity].
    - destruct (handler_loop_good l B) as (m & -> & _). split; [discriminate|].
      intros (e & I1 & Hn). exfalso.
      assert (existsb bad l = true); [|congruence].
      apply existsb_exists. exists e; split; auto. unfold bad. rewrite Hn. reflexivity.
  Qed.
End HandlerLoop.

(** ** Loop 3: BSC recently-signed test *)
Section RecentsLoop.
  Context (signer : bytes) (number limit : N).

  Lemma recents_loop_existsb (l : list (N * bytes)) :
    recents_loop signer number limit l = existsb (recent_hit signer number limit) l.
  Proof. induction l as [|e l IH]; cbn; [reflexivity|]. destruct (recent_hit _ _ _ e); auto. Qed.

  (** whether ErrRecentlySigned is returned does not depend on the order in which [Recents] is ranged
      (no premise: not even distinct keys are needed) *)
  Theorem recents_loop_perm (l l' : list (N * bytes)) :
    Permutation l l' -> recents_loop signer number limit l = recents_loop signer number limit l'.
  Proof. intro P. rewrite !recents_loop_existsb. apply existsb_perm; exact P. Qed.

  Theorem recents_loop_spec (l : list (N * bytes)) :
    recents_loop signer number limit l = true <->
    exists seen recent, In (seen, recent) l /\ recent = signer /\ (number < limit \/ sub64 number limit < seen)%N.
  Proof.
    rewrite recents_loop_existsb, existsb_exists. split.
    - intros ([seen recent] & I1 & Hh). unfold recent_hit in Hh. cbn in Hh.
      apply andb_true_iff in Hh as [E L]. apply bytes_eqb_eq in E. apply orb_true_iff in L.
      exists seen, recent. repeat split; auto. destruct L as [L|L]; apply N.ltb_lt in L; auto.
    - intros (seen & recent & I1 & -> & L). exists (seen, signer); split; auto.
      unfold recent_hit; cbn. rewrite bytes_eqb_refl. cbn. apply orb_true_iff.
      destruct L as [L|L]; apply N.ltb_lt in L; auto.
  Qed.
End RecentsLoop.

(** ** Loop 4: BSC validator list (collect, then sort) *)

Lemma addr_le_antisym a b : addr_le a b -> addr_le b a -> a = b.
Proof.
  unfold addr_le, bytes_ltb. intros H1 H2. apply bytes_cmp_eq.
  pose proof (bytes_cmp_antisym a b) as A.
  destruct (bytes_cmp a b) eqn:C; auto; cbn in A.
  - discriminate.
  - rewrite A in H1. discriminate.
Qed.

Lemma addr_le_trans a b c : addr_le a b -> addr_le b c -> addr_le a c.
Proof.
  unfold addr_le, bytes_ltb. intros H1 H2.
  destruct (bytes_cmp c a) eqn:Cca; auto. exfalso.
  (* c < a; with b <= c ... *)
  destruct (bytes_cmp c b) eqn:Ccb; try discriminate.
  - apply bytes_cmp_eq in Ccb; subst. rewrite Cca in H1. discriminate.
  - (* c > b, i.e. b < c, c < a => b < a *)
    pose proof (bytes_cmp_antisym c b) as A. rewrite Ccb in A. cbn in A.
    rewrite (bytes_cmp_lt_trans b c a A Cca) in H1. discriminate.
Qed.

Lemma sorted_perm_unique_gen {A} (R : A -> A -> Prop) (l1 l2 : list A) :
  (forall a b, In a l1 -> In b l1 -> R a b -> R b a -> a = b) ->
  StronglySorted R l1 -> StronglySorted R l2 -> Permutation l1 l2 -> l1 = l2.
Proof.
  revert l2; induction l1 as [|h1 t1 IH]; intros l2 AS S1 S2 P.
  - apply Permutation_nil in P. auto.
  - destruct l2 as [|h2 t2]; [apply Permutation_sym, Permutation_nil in P; discriminate|].
    apply StronglySorted_inv in S1 as [S1 F1]. apply StronglySorted_inv in S2 as [S2 F2].
    assert (h1 = h2) as ->.
    { assert (I1 : In h1 (h2 :: t2)) by (eapply Permutation_in; [exact P|left; reflexivity]).
      assert (I2 : In h2 (h1 :: t1)) by (eapply Permutation_in; [apply Permutation_sym; exact P|left; reflexivity]).
      destruct I1 as [->|I1]; [reflexivity|]. destruct I2 as [->|I2]; [reflexivity|].
      rewrite Forall_forall in F1, F2. apply AS; [left; reflexivity|right; exact I2|auto|auto]. }
    f_equal. apply IH; auto.
    + intros a b Ia Ib. apply AS; right; assumption.
    + eapply Permutation_cons_inv; exact P.
Qed.

Lemma sorted_perm_unique (l1 l2 : list bytes) :
  StronglySorted addr_le l1 -> StronglySorted addr_le l2 -> Permutation l1 l2 -> l1 = l2.
Proof. apply sorted_perm_unique_gen. intros a b _ _. apply addr_le_antisym. Qed.

Section ValidatorsLoop.
  Context {V : Type} (sort : list bytes -> list bytes) (sort_ok : sort_spec sort).

  Lemma collect_fold (l : list (bytes * V)) (acc : list bytes) :
    fold_left (fun acc e => acc ++ [fst e]) l acc = acc ++ map fst l.
  Proof.
    revert acc; induction l as [|e l IH]; intro acc; cbn; [rewrite app_nil_r; reflexivity|].
    rewrite IH, <- app_assoc. reflexivity.
  Qed.

  Lemma collect_loop_keys (l : list (bytes * V)) : collect_loop l = map fst l.
  Proof. unfold collect_loop. rewrite collect_fold. reflexivity. Qed.

  (** the slice returned by validators() — and hence every index into it — is the same whatever order the
      validator SET is ranged in, for ANY sorting routine meeting [sort_spec] (Go's sort.Sort is unstable and its
      algorithm is unspecified; neither matters) *)
  Theorem validators_loop_perm (l l' : list (bytes * V)) :
    Permutation l l' -> validators_loop sort l = validators_loop sort l'.
  Proof.
    intro P. unfold validators_loop. rewrite !collect_loop_keys.
    destruct (sort_ok (map fst l)) as [P1 S1]. destruct (sort_ok (map fst l')) as [P2 S2].
    apply sorted_perm_unique; auto.
    eapply Permutation_trans; [exact P1|]. eapply Permutation_trans; [|apply Permutation_sym; exact P2].
    apply Permutation_map; exact P.
  Qed.

  Theorem inturn_perm (l l' : list (bytes * V)) (number : N) (validator : bytes) :
    Permutation l l' -> inturn sort l number validator = inturn sort l' number validator.
  Proof. intro P. unfold inturn. rewrite (validators_loop_perm l l' P). reflexivity. Qed.

  (** the result is the sorted key set *)
  Theorem validators_loop_spec (l : list (bytes * V)) :
    Permutation (validators_loop sort l) (map fst l) /\ StronglySorted addr_le (validators_loop sort l).
  Proof. unfold validators_loop. rewrite collect_loop_keys. apply sort_ok. Qed.
End ValidatorsLoop.

(** [sort_spec] is satisfiable: insertion sort meets it *)
Lemma addr_insert_perm a l : Permutation (addr_insert a l) (a :: l).
Proof.
  induction l as [|h t IH]; cbn; [apply Permutation_refl|].
  destruct (bytes_ltb h a); [|apply Permutation_refl].
  eapply Permutation_trans; [apply perm_skip; exact IH|apply perm_swap].
Qed.

Lemma addr_insert_sorted a l : StronglySorted addr_le l -> StronglySorted addr_le (addr_insert a l).
Proof.
  induction l as [|h t IH]; cbn; intro S.
  - constructor; constructor.
  - apply StronglySorted_inv in S as [S F]. destruct (bytes_ltb h a) eqn:L.
    + constructor; [apply IH; exact S|].
      eapply Permutation_Forall; [apply Permutation_sym, addr_insert_perm|].
      constructor; [|exact F].
      unfold addr_le, bytes_ltb in *. pose proof (bytes_cmp_antisym h a) as A.
      destruct (bytes_cmp h a); try discriminate. rewrite A. reflexivity.
    + constructor; [constructor; assumption|].
      constructor; [exact L|].
      rewrite Forall_forall in *. intros x I1. eapply addr_le_trans; [exact L|apply F; exact I1].
Qed.

Theorem addr_sort_spec : sort_spec addr_sort.
Proof.
  intro l. induction l as [|a l [P S]]; cbn; split.
  - apply Permutation_refl.
  - constructor.
  - eapply Permutation_trans; [apply addr_insert_perm|apply perm_skip; exact P].
  - apply addr_insert_sorted; exact S.
Qed.

(** ** Loop 5: typed-event attributes (library loop) and its repair *)

Lemma typed_event_attrs_id {K V} (l : list (K * V)) : typed_event_attrs l = l.
Proof.
  unfold typed_event_attrs.
  assert (G : forall acc, fold_left (fun acc e => acc ++ [e]) l acc = acc ++ l).
  { induction l as [|e l IH]; intro acc; cbn; [rewrite app_nil_r; reflexivity|].
    rewrite IH, <- app_assoc. reflexivity. }
  apply (G []).
Qed.

(** with the repair, the emitted attribute list is the same for every enumeration of the attribute map *)
Theorem typed_event_attrs_sorted_perm {V} (sort : list (bytes * V) -> list (bytes * V)) :
  attr_sort_spec sort ->
  forall l l', Permutation l l' -> NoDup (map fst l) ->
  typed_event_attrs_sorted sort l = typed_event_attrs_sorted sort l'.
Proof.
  intros SP l l' P ND. unfold typed_event_attrs_sorted. rewrite !typed_event_attrs_id.
  destruct (SP l) as [P1 S1]. destruct (SP l') as [P2 S2].
  apply (sorted_perm_unique_gen attr_le); auto.
  - intros a b Ia Ib H1 H2. unfold attr_le in *.
    apply (NoDup_map_In_inj fst l a b ND).
    + eapply Permutation_in; [exact P1|exact Ia].
    + eapply Permutation_in; [exact P1|exact Ib].
    + apply addr_le_antisym; assumption.
  - eapply Permutation_trans; [exact P1|]. eapply Permutation_trans; [exact P|apply Permutation_sym; exact P2].
Qed.

(** ** ETH seal verification: the repaired function does not read the environment *)
Theorem verify_cascading_in_memory_env_independent (t1 t2 seal_ok : bool) :
  verify_cascading_in_memory t1 seal_ok = verify_cascading_in_memory t2 seal_ok.
Proof. reflexivity. Qed.

(** the unrepaired one agrees between nodes only when both have a usable temporary directory *)
Theorem verify_cascading_same_env (seal_ok : bool) :
  verify_cascading true seal_ok = verify_cascading_in_memory true seal_ok.
Proof. reflexivity. Qed.

(** ** ETH seal verification: with the cache generated in memory and light verification (what VerifyCascadingFields
    passes — checked on the regenerated call, [Props/C14_inventory.v]) neither the file system nor the scheduler is
    consulted *)
Theorem verify_cascading_env_independent {Header Sched} (light : list N -> Header -> bool) (full : Sched -> Header -> option bool)
    (gen : list N) (fs fs' : fs_env) (sc sc' : Sched) (h : Header) :
  verify_cascading_env light full false true gen fs sc h = verify_cascading_env light full false true gen fs' sc' h.
Proof. reflexivity. Qed.

(** and it is the verdict of hashimotoLight on the generated words *)
Theorem verify_cascading_env_meaning {Header Sched} (light : list N -> Header -> bool) (full : Sched -> Header -> option bool)
    (gen : list N) (fs : fs_env) (sc : Sched) (h : Header) :
  verify_cascading_env light full false true gen fs sc h = Ok tt <-> light gen h = true.
Proof. unfold verify_cascading_env, verify_seal, cache_generate. destruct (light gen h); split; auto; discriminate. Qed.
