(** The accepted headers form ONE chain: over all histories since creation, every accepted block names the
    hash of the block accepted before it as its parent, has the next number, and every block of the chain
    (the creation block included) was sealed by the account it names as coinbase. *)
From Teleport Require Import Base.Bytes Base.Outcome Model.Bsc Model.BscCheck Model.BscRlp Proofs.BscBase Proofs.Bsc Proofs.BscInv Proofs.BscThm.
Local Open Scope N_scope.

Section Chain.
  Variable HH : header -> bytes.
  Variable ER : N -> header -> option bytes.

  Fixpoint linked (l : list gblock) : Prop :=
    match l with
    | b2 :: ((b1 :: _) as t) =>
        HH (gb_hdr b1) = to_hash (h_parent (gb_hdr b2)) /\ gnum b2 = gnum b1 + 1 /\ linked t
    | _ => True
    end.

  Definition sealed_ok (chain : N) (b : gblock) : Prop :=
    sealer ER chain (gb_hdr b) = Some (gb_sealer b) /\ gb_sealer b = to_addr (h_coinbase (gb_hdr b)).

  Theorem reach_chain k ch : reach HH ER k ch -> linked ch /\ Forall (sealed_ok (c_chain (fst k))) ch.
  Proof.
    induction 1 as [cs c0 st signer HC HS Hwf Hlen | cs st ch bt h cs' st' signer HR IH HU HS Hwf H0].
    - split; [exact I|]. constructor; [|constructor].
      destruct (create_ok ER _ _ _ HC) as (s & _ & _ & S & Ecb & _).
      assert (Es : s = signer) by congruence. rewrite Es in Ecb. split; cbn [fst gb_hdr gb_sealer]; [exact HS | exact Ecb].
    - destruct IH as [IL IS]. cbn [fst] in *.
      pose proof (reach_inv HH ER _ _ HR) as Iv.
      destruct (i_head _ _ Iv) as (b0 & rest & Ech & Ehd). cbn [fst] in Ehd.
      destruct (update_client_ok _ _ _ _ _ _ _ _ HU) as (_ & st5 & c' & HCk & _).
      destruct (accept_sound _ _ _ _ _ _ _ _ _ HCk) as (signer' & A & _).
      pose proof (ac_sealer _ _ _ _ _ _ A) as S. assert (Es : signer' = signer) by congruence. rewrite Es in A. clear S Es.
      destruct (consensus_root HH ER _ _ _ _ _ _ HU) as (_ & _ & Echain & _).
      split.
      + subst ch. cbn [linked gb_hdr]. split; [|split; [|exact IL]].
        * rewrite Ehd. exact (ac_parent _ _ _ _ _ _ A).
        * unfold gnum at 1. cbn [gb_hdr]. unfold gnum. rewrite Ehd.
          destruct Hwf as [Hn _]. eapply number_succ; eauto.
      + constructor.
        * split; cbn [gb_hdr gb_sealer]; [rewrite Echain; exact HS | exact (ac_coinbase _ _ _ _ _ _ A)].
        * rewrite Echain. exact IS.
  Qed.

  (** any two neighbours of the chain *)
  Lemma linked_app pre l : linked (pre ++ l) -> linked l.
  Proof.
    induction pre as [|a pre IH]; [auto|]. cbn [app]. intro H.
    destruct (pre ++ l) as [|b t] eqn:E.
    - destruct pre; [cbn in E; subst l; exact I | discriminate E].
    - apply IH. cbn [linked] in H. tauto.
  Qed.

  Theorem chain_neighbours k ch pre b2 b1 t :
    reach HH ER k ch -> ch = pre ++ b2 :: b1 :: t ->
    gnum b2 = gnum b1 + 1 /\ HH (gb_hdr b1) = to_hash (h_parent (gb_hdr b2)) /\
    sealed_ok (c_chain (fst k)) b2 /\ sealed_ok (c_chain (fst k)) b1.
  Proof.
    intros HR E. destruct (reach_chain _ _ HR) as [L S]. subst ch.
    apply linked_app in L. cbn [linked] in L. destruct L as (P & Nm & _).
    rewrite Forall_forall in S.
    split; [exact Nm|]. split; [exact P|].
    split; apply S; apply in_or_app; right; [left; reflexivity | right; left; reflexivity].
  Qed.
End Chain.

(** ** The oracles opened (Model/BscRlp.v): what acceptance means in terms of keccak256 and signature recovery *)
Theorem accept_sound_opened keccak recover bt cs st h st' cs' c' :
  check_header_and_update (block_hash keccak) (seal_recover keccak recover) bt cs st h = (st', ROk (cs', c')) ->
  exists account,
    65 <= len (h_extra h) /\
    recover (keccak (seal_rlp (c_chain cs) h)) (extra_seal (h_extra h)) = Some account /\
    to_addr account = to_addr (h_coinbase h) /\ In (to_addr account) (map to_addr (c_vals cs)) /\
    keccak (block_rlp (c_header cs)) = to_hash (h_parent h).
Proof.
  intro H. destruct (accept_sound _ _ _ _ _ _ _ _ _ H) as (signer & A & _).
  pose proof (ac_sealer _ _ _ _ _ _ A) as S. pose proof (ac_coinbase _ _ _ _ _ _ A) as Cb.
  pose proof (ac_member _ _ _ _ _ _ A) as M. pose proof (ac_parent _ _ _ _ _ _ A) as P.
  unfold sealer, seal_recover, seal_hash in S.
  destruct (len (h_extra h) <? extraSeal) eqn:E; [discriminate S|].
  destruct (recover (keccak (seal_rlp (c_chain cs) h)) (extra_seal (h_extra h))) as [a|] eqn:R; [|discriminate S].
  assert (Es : to_addr a = signer) by congruence. rewrite <- Es in Cb, M. exists a. apply N.ltb_ge in E. unfold extraSeal in E.
  split; [exact E|]. split; [reflexivity|]. split; [exact Cb|]. split; [exact M | exact P].
Qed.
