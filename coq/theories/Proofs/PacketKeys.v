(** The key hypotheses of the packet proofs ([keys_ok]) hold for the REAL key builders: the format terms that
    tools/gotocoq/keys regenerates from x/xibc/core/host/keys.go (Gen/KeysGen.v, rendered by Base/Fmt.v — the
    C19 key library) and the identifier validator of host/validate.go.

    The packet proofs need a little more than the two-sided injectivity of Proofs/Keys.v: packets carry
    UNVALIDATED chain names (ValidateBasic only checks non-emptiness), so a key built from valid names must not
    collide with a key built from ANY other arguments (one-sided injectivity), and the four families must be
    disjoint for ALL arguments.  Both are proved here from the shape of the regenerated formats; if host/keys.go
    changes shape the [reflexivity] side conditions below stop checking. *)
From Teleport Require Import Base.Bytes Base.Outcome Base.AList Base.Fmt Gen.KeysGen Model.Packet Model.PacketKeys Proofs.Packet.
From Teleport Require Model.Keys Proofs.Keys.
Local Open Scope N_scope.

(** ** counting separators *)
Definition cnt_sep (l : bytes) : nat := length (filter is_sep l).

Lemma cnt_sep_app a b : cnt_sep (a ++ b) = (cnt_sep a + cnt_sep b)%nat.
Proof. unfold cnt_sep. rewrite filter_app, app_length. reflexivity. Qed.

Lemma cnt_sep_cons x l : cnt_sep (x :: l) = ((if is_sep x then 1 else 0) + cnt_sep l)%nat.
Proof. unfold cnt_sep. cbn. destruct (is_sep x); reflexivity. Qed.

Lemma no_sep_cnt l : no_sep l = true <-> cnt_sep l = 0%nat.
Proof.
  induction l as [|x l IH]; [cbn; tauto|].
  rewrite cnt_sep_cons. unfold no_sep in *. cbn [forallb]. unfold not_sep at 1.
  destruct (is_sep x); cbn; [split; [discriminate | lia] | exact IH].
Qed.

Lemma digits_no_sep l : forallb is_digit l = true -> no_sep l = true.
Proof.
  induction l as [|x l IH]; [reflexivity|]. cbn. intro H. apply andb_true_iff in H as [D H].
  unfold no_sep in *. cbn. rewrite (IH H), andb_true_r.
  destruct x; try discriminate; reflexivity.
Qed.

Lemma cnt_sep_dec n : cnt_sep (dec n) = 0%nat.
Proof. apply no_sep_cnt, digits_no_sep, dec_digits. Qed.

Lemma is_sep_sep : is_sep sep = true. Proof. reflexivity. Qed.

(** splitting at the first separator *)
Lemma split_first s r s' r' :
  no_sep s = true -> no_sep s' = true -> s ++ sep :: r = s' ++ sep :: r' -> s = s' /\ r = r'.
Proof.
  intros H1 H2 E.
  destruct (span_unique not_sep s (sep :: r) s' (sep :: r')) as [A B]; try assumption; try reflexivity.
  inversion B. auto.
Qed.

(** ** the two shapes of packet keys *)
Definition seqfmt (l m : bytes) : fmt := [Lit l; Sep; Str 0; Sep; Str 1; Sep; Lit m; Sep; Dec 2].
Definition pairfmt (l : bytes) : fmt := [Lit l; Sep; Str 0; Sep; Str 1].

Lemma render_seqfmt l m s d q :
  render (seqfmt l m) [VS s; VS d; VN q] = l ++ sep :: s ++ sep :: d ++ sep :: m ++ sep :: dec q.
Proof. cbn. rewrite app_nil_r. reflexivity. Qed.

Lemma render_pairfmt l s d : render (pairfmt l) [VS s; VS d] = l ++ sep :: s ++ sep :: d.
Proof. cbn. rewrite app_nil_r. reflexivity. Qed.

Lemma seqfmt_inj1 l m s d q s' d' q' :
  no_sep s = true -> no_sep d = true ->
  render (seqfmt l m) [VS s; VS d; VN q] = render (seqfmt l m) [VS s'; VS d'; VN q'] ->
  s = s' /\ d = d' /\ q = q'.
Proof.
  intros Hs Hd E. rewrite !render_seqfmt in E. apply app_inv_head in E. inversion E as [E1]. clear E.
  assert (C : (cnt_sep s' + cnt_sep d' = 0)%nat).
  { apply (f_equal cnt_sep) in E1.
    rewrite !cnt_sep_app, !cnt_sep_cons, !cnt_sep_app, !cnt_sep_cons, !cnt_sep_app, !cnt_sep_cons, !cnt_sep_dec in E1.
    apply no_sep_cnt in Hs, Hd. rewrite Hs, Hd in E1. lia. }
  assert (Hs' : no_sep s' = true) by (apply no_sep_cnt; lia).
  assert (Hd' : no_sep d' = true) by (apply no_sep_cnt; lia).
  destruct (split_first _ _ _ _ Hs Hs' E1) as [-> E2].
  destruct (split_first _ _ _ _ Hd Hd' E2) as [-> E3].
  apply app_inv_head in E3. inversion E3 as [E4]. apply dec_inj in E4. auto.
Qed.

Lemma pairfmt_inj1 l s d s' d' :
  no_sep s = true -> no_sep d = true ->
  render (pairfmt l) [VS s; VS d] = render (pairfmt l) [VS s'; VS d'] -> s = s' /\ d = d'.
Proof.
  intros Hs Hd E. rewrite !render_pairfmt in E. apply app_inv_head in E. inversion E as [E1]. clear E.
  assert (C : (cnt_sep s' + cnt_sep d' = 0)%nat).
  { apply (f_equal cnt_sep) in E1. rewrite !cnt_sep_app, !cnt_sep_cons in E1.
    apply no_sep_cnt in Hs, Hd. rewrite Hs, Hd in E1. lia. }
  assert (Hs' : no_sep s' = true) by (apply no_sep_cnt; lia).
  destruct (split_first _ _ _ _ Hs Hs' E1) as [-> E2]. auto.
Qed.

(** ** the real builders: Model/PacketKeys.v *)

(** shape side conditions on the regenerated terms *)
Lemma receipt_shape : exists l m, host_PacketReceiptKey = seqfmt l m. Proof. do 2 eexists; reflexivity. Qed.
Lemma ack_shape : exists l m, host_PacketAcknowledgementKey = seqfmt l m. Proof. do 2 eexists; reflexivity. Qed.
Lemma commitment_shape : exists l m, host_PacketCommitmentKey = seqfmt l m. Proof. do 2 eexists; reflexivity. Qed.
Lemma nextseq_shape : exists l, host_NextSequenceSendKey = pairfmt l. Proof. eexists; reflexivity. Qed.

Definition real_keys (P : params) : Prop :=
  receipt_key P = k_receipt /\ ack_key P = k_ack /\ commitment_key P = k_commitment /\
  nextseq_key P = k_nextseq /\ valid_name P = k_valid.

Lemma seq_inj1_gen (f : fmt) :
  (exists l m, f = seqfmt l m) ->
  forall s d q s' d' q', k_valid s = true -> k_valid d = true ->
    render f [VS s; VS d; VN q] = render f [VS s'; VS d'; VN q'] -> (s, d, q) = (s', d', q').
Proof.
  intros (l & m & ->) s d q s' d' q' Vs Vd E.
  destruct (seqfmt_inj1 l m s d q s' d' q') as (-> & -> & ->); auto using Proofs.Keys.valid_chain_name_no_sep.
Qed.

Theorem real_keys_ok P : real_keys P -> keys_ok P.
Proof.
  intros (Er & Ea & Ec & En & Ev).
  constructor; unfold rkey, akey, ckey, valid_triple; rewrite ?Er, ?Ea, ?Ec, ?En, ?Ev;
    unfold k_receipt, k_ack, k_commitment, k_nextseq,
           Keys.packet_receipt_key, Keys.packet_ack_key, Keys.packet_commitment_key, Keys.next_seq_send_key,
           Keys.triple_args; cbn [Keys.t_src Keys.t_dst Keys.t_seq].
  - intros [[s d] q] [[s' d'] q']. apply heads_apart_neq. reflexivity.
  - intros [[s d] q] [[s' d'] q']. apply heads_apart_neq. reflexivity.
  - intros [[s d] q] a b. apply heads_apart_neq. reflexivity.
  - intros [[s d] q] [[s' d'] q']. apply heads_apart_neq. reflexivity.
  - intros [[s d] q] a b. apply heads_apart_neq. reflexivity.
  - intros [[s d] q] a b. apply heads_apart_neq. reflexivity.
  - intros [[s d] q] [[s' d'] q'] [V1 V2]. cbn [fst snd] in V1, V2. apply (seq_inj1_gen _ receipt_shape); assumption.
  - intros [[s d] q] [[s' d'] q'] [V1 V2]. cbn [fst snd] in V1, V2. apply (seq_inj1_gen _ ack_shape); assumption.
  - intros [[s d] q] [[s' d'] q'] [V1 V2]. cbn [fst snd] in V1, V2. apply (seq_inj1_gen _ commitment_shape); assumption.
  - intros a b a' b' Va Vb E. destruct nextseq_shape as [l Sh]. rewrite Sh in E.
    apply (pairfmt_inj1 l a b a' b'); auto using Proofs.Keys.valid_chain_name_no_sep.
Qed.
