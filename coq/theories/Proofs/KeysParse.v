(** Every written key is read back as the triple / height it was written for
    (C19, second half of "parseable").  The parsers are the transcriptions of
    the Go iterators in Model/Keys.v (at /repo HEAD: fixed offsets for binary
    heights); the key builders are the regenerated format terms.  Each proof
    first pins the SHAPE of the regenerated term by [reflexivity] (a changed key
    layout breaks exactly that line) and then reasons for all arguments. *)
From Teleport Require Import Base.Bytes Base.Outcome Base.Fmt Gen.KeysGen Model.Keys Proofs.Keys.
Local Open Scope N_scope.

(** * Helpers *)

Lemma split_sep_lit s r : no_sep s = true -> split_sep (s ++ sep :: r) = s :: split_sep r.
Proof. intro H. apply split_on_app; [exact H | reflexivity]. Qed.

Lemma split_sep_end s : no_sep s = true -> split_sep s = [s].
Proof. intro H. apply split_on_free. exact H. Qed.

Lemma digit_not_sep c : is_digit c = true -> not_sep c = true.
Proof. destruct c; try discriminate; reflexivity. Qed.

Lemma digit_not_dash c : is_digit c = true -> negb (is_dash c) = true.
Proof. destruct c; try discriminate; reflexivity. Qed.

Lemma dec_no_sep n : no_sep (dec n) = true.
Proof.
  unfold no_sep. pose proof (dec_digits n) as D. rewrite forallb_forall in *. intros c Hc. apply digit_not_sep. auto.
Qed.

Lemma dec_no_dash n : forallb (fun c => negb (is_dash c)) (dec n) = true.
Proof.
  pose proof (dec_digits n) as D. rewrite forallb_forall in *. intros c Hc. apply digit_not_dash. auto.
Qed.

Lemma parse_uint_go_dec n : n < two64 -> parse_uint_go (dec n) = Some n.
Proof.
  intro H. unfold parse_uint_go. pose proof (dec_nonempty n) as NE.
  destruct (dec n) as [|c r] eqn:E; [congruence|]. rewrite <- E.
  unfold dec. rewrite bytes_uint_bytes, DecimalN.Unsigned.of_to. apply N.ltb_lt in H. rewrite H. reflexivity.
Qed.

Lemma cut_sep_app s r : no_sep s = true -> cut_sep (s ++ sep :: r) = Some (s, r).
Proof.
  induction s as [|c s IH]; cbn; intro H; [reflexivity|].
  apply andb_true_iff in H as [H1 H2]. unfold not_sep in H1. apply negb_true_iff in H1. rewrite H1, (IH H2). reflexivity.
Qed.

Lemma strip_app2 p q r : strip (p ++ q) (p ++ q ++ r) = Some r.
Proof. rewrite app_assoc. apply strip_app. Qed.

Lemma be8_length n : length (be_bytes 8 n) = 8%nat.
Proof. apply be_bytes_length. Qed.

Lemma be8_val n : n < two64 -> be_val (be_bytes 8 n) = n.
Proof. intro H. apply be_val_bytes_small. rewrite <- two64_eq. exact H. Qed.

Lemma firstn_app_exact {A} (a r : list A) n : length a = n -> firstn n (a ++ r) = a.
Proof. intros <-. rewrite firstn_app, Nat.sub_diag, firstn_all. cbn. apply app_nil_r. Qed.

Lemma skipn_app_exact {A} (a r : list A) n : length a = n -> skipn n (a ++ r) = r.
Proof. intros <-. rewrite skipn_app, Nat.sub_diag, skipn_all. reflexivity. Qed.

Lemma firstn_exact {A} (a : list A) n : length a = n -> firstn n a = a.
Proof. intros <-. apply firstn_all. Qed.

Lemma firstn8_be n r : firstn 8 (be_bytes 8 n ++ r) = be_bytes 8 n.
Proof. apply firstn_app_exact, be8_length. Qed.

Lemma skipn8_be n r : skipn 8 (be_bytes 8 n ++ r) = r.
Proof. apply skipn_app_exact, be8_length. Qed.

Lemma firstn8_be' n : firstn 8 (be_bytes 8 n) = be_bytes 8 n.
Proof. apply firstn_exact, be8_length. Qed.

Lemma has_suffix_refl s : has_suffix s s = true.
Proof. destruct s; cbn [has_suffix]; rewrite bytes_eqb_refl; reflexivity. Qed.

Lemma has_suffix_app p s : has_suffix s (p ++ s) = true.
Proof.
  induction p as [|c p IH]; [apply has_suffix_refl|].
  cbn [app has_suffix]. rewrite IH. apply orb_true_r.
Qed.

(** * Shapes of the regenerated builders (each [reflexivity] is a tie to Gen/KeysGen.v) *)

Definition triple_shape (p q : bytes) : fmt := [Lit p; Sep; Str 0; Sep; Str 1; Sep; Lit q; Sep; Dec 2].

Lemma shape_receipt : host_PacketReceiptKey = triple_shape host_KeyPacketReceiptPrefix host_KeySequencePrefix.
Proof. reflexivity. Qed.
Lemma shape_ack : host_PacketAcknowledgementKey = triple_shape host_KeyPacketAckPrefix host_KeySequencePrefix.
Proof. reflexivity. Qed.
Lemma shape_commitment : host_PacketCommitmentKey = triple_shape host_KeyPacketCommitmentPrefix host_KeySequencePrefix.
Proof. reflexivity. Qed.
Lemma shape_next_seq : host_NextSequenceSendKey = [Lit host_KeyNextSeqSendPrefix; Sep; Str 0; Sep; Str 1].
Proof. reflexivity. Qed.
Lemma shape_consensus : host_ConsensusStateKey = [Lit host_KeyConsensusStatePrefix; Sep; BE64 0; BE64 1].
Proof. reflexivity. Qed.
Lemma shape_client_state : host_ClientStateKey = [Lit host_KeyClientState].
Proof. reflexivity. Qed.
Lemma shape_client_prefix : clientkeeper_ClientStore_prefix = [Lit host_KeyClientStorePrefix; Sep; Str 0; Sep].
Proof. reflexivity. Qed.
Lemma shape_full_client_state : host_FullClientStateKey = [Lit host_KeyClientStorePrefix; Sep; Str 0; Sep; Lit host_KeyClientState].
Proof. reflexivity. Qed.
Lemma shape_full_consensus :
  host_FullConsensusStateKey = [Lit host_KeyClientStorePrefix; Sep; Str 0; Sep; Lit host_KeyConsensusStatePrefix; Sep; BE64 1; BE64 2].
Proof. reflexivity. Qed.
Lemma shape_processed_time :
  tm_ProcessedTimeKey = [Lit host_KeyConsensusStatePrefix; Sep; BE64 0; BE64 1; Sep; Lit (B "processedTime")].
Proof. reflexivity. Qed.
Lemma shape_processed_time_suffix : tm_KeyProcessedTime = sep :: B "processedTime".
Proof. reflexivity. Qed.
Lemma shape_iteration : tm_IterationKey = [Lit tm_KeyIterateConsensusStatePrefix; BE64 0; BE64 1].
Proof. reflexivity. Qed.
Lemma shape_signer : bsc_keyRecentSinger = [Lit bsc_PrefixKeyRecentSingers; Sep; Dec 0; Lit [x2d]; Dec 1].
Proof. reflexivity. Qed.

(** the literals are separator-free (so they are whole fields for [strings.Split]) *)
Lemma lits_no_sep :
  no_sep host_KeyPacketReceiptPrefix = true /\ no_sep host_KeyPacketAckPrefix = true /\
  no_sep host_KeyPacketCommitmentPrefix = true /\ no_sep host_KeySequencePrefix = true /\
  no_sep host_KeyNextSeqSendPrefix = true /\ no_sep bsc_PrefixKeyRecentSingers = true.
Proof. repeat split; reflexivity. Qed.

(** * Packet keys: [iterateHashes] and [ParsePath] *)

(** what the parser needs of the arguments: separator-free names, a uint64 sequence
    (weaker than [valid_triple]: no length or character-class condition) *)
Definition valid_triple_args (t : triple) : Prop :=
  no_sep (t_src t) = true /\ no_sep (t_dst t) = true /\ t_seq t < two64.

Lemma iterate_hashes_shape_args p q t :
  no_sep p = true -> no_sep q = true -> valid_triple_args t ->
  iterate_hashes_parse (render (triple_shape p q) (triple_args t)) = Ok t.
Proof.
  intros Hp Hq (V1 & V2 & V3).
  destruct t as [s d n]. cbn [t_src t_dst t_seq] in *.
  unfold iterate_hashes_parse, triple_shape, triple_args. cbn [t_src t_dst t_seq].
  cbn [render render_item get_s get_n nth_error app].
  rewrite app_nil_r.
  change (p ++ [sep] ++ s ++ [sep] ++ d ++ [sep] ++ q ++ [sep] ++ dec n)
    with (p ++ sep :: s ++ sep :: d ++ sep :: q ++ sep :: dec n).
  rewrite (split_sep_lit p _ Hp), (split_sep_lit s _ V1), (split_sep_lit d _ V2), (split_sep_lit q _ Hq),
          (split_sep_end _ (dec_no_sep n)).
  cbn [nth_error last]. rewrite (parse_uint_go_dec n V3). reflexivity.
Qed.

Lemma valid_triple_args_of t : valid_triple t = true -> valid_triple_args t.
Proof.
  unfold valid_triple. intro V. apply andb_true_iff in V as [V V3]. apply andb_true_iff in V as [V1 V2].
  apply valid_chain_name_no_sep in V1, V2. apply N.ltb_lt in V3. repeat split; assumption.
Qed.

Lemma iterate_hashes_shape p q t :
  no_sep p = true -> no_sep q = true -> valid_triple t = true ->
  iterate_hashes_parse (render (triple_shape p q) (triple_args t)) = Ok t.
Proof. intros Hp Hq V. apply iterate_hashes_shape_args; auto using valid_triple_args_of. Qed.

Theorem receipt_key_parse_roundtrip t : valid_triple t = true -> iterate_hashes_parse (packet_receipt_key t) = Ok t.
Proof. unfold packet_receipt_key. rewrite shape_receipt. apply iterate_hashes_shape; reflexivity. Qed.

Theorem ack_key_parse_roundtrip t : valid_triple t = true -> iterate_hashes_parse (packet_ack_key t) = Ok t.
Proof. unfold packet_ack_key. rewrite shape_ack. apply iterate_hashes_shape; reflexivity. Qed.

Theorem commitment_key_parse_roundtrip t : valid_triple t = true -> iterate_hashes_parse (packet_commitment_key t) = Ok t.
Proof. unfold packet_commitment_key. rewrite shape_commitment. apply iterate_hashes_shape; reflexivity. Qed.

Theorem next_seq_key_parse_roundtrip s d :
  valid_chain_name s = true -> valid_chain_name d = true -> parse_path (next_seq_send_key s d) = Ok (s, d).
Proof.
  intros Vs Vd. apply valid_chain_name_no_sep in Vs, Vd.
  unfold next_seq_send_key, parse_path. rewrite shape_next_seq.
  cbn [render render_item get_s nth_error app]. rewrite app_nil_r.
  change (host_KeyNextSeqSendPrefix ++ [sep] ++ s ++ [sep] ++ d) with (host_KeyNextSeqSendPrefix ++ sep :: s ++ sep :: d).
  rewrite (split_sep_lit _ _ (proj1 (proj2 (proj2 (proj2 (proj2 lits_no_sep)))))), (split_sep_lit s _ Vs), (split_sep_end d Vd).
  reflexivity.
Qed.

(** * Client keys at fixed offsets — ALL revision numbers and heights *)

Lemma consensus_key_bytes h :
  consensus_state_key h = (host_KeyConsensusStatePrefix ++ [sep]) ++ be_bytes 8 (rev_number h) ++ be_bytes 8 (rev_height h).
Proof.
  unfold consensus_state_key, height_args. rewrite shape_consensus.
  cbn [render render_item get_n nth_error]. rewrite app_nil_r, <- app_assoc. reflexivity.
Qed.

Theorem parse_consensus_state_key_roundtrip h :
  valid_height h = true -> parse_consensus_state_key (consensus_state_key h) = Some h.
Proof.
  intro V. unfold valid_height in V. apply andb_true_iff in V as [V1 V2]. apply N.ltb_lt in V1, V2.
  rewrite consensus_key_bytes. unfold parse_consensus_state_key. rewrite strip_app.
  rewrite app_length, !be8_length. cbn [Nat.add Nat.eqb].
  rewrite firstn8_be, skipn8_be.
  rewrite firstn8_be'.
  rewrite (be8_val _ V1), (be8_val _ V2). destruct h; reflexivity.
Qed.

Lemma client_prefix_bytes name : client_store_prefix name = (host_KeyClientStorePrefix ++ [sep]) ++ name ++ [sep].
Proof.
  unfold client_store_prefix. rewrite shape_client_prefix. cbn [render render_item get_s nth_error].
  rewrite app_nil_r, <- app_assoc. reflexivity.
Qed.

Lemma parse_client_key_prefix name path :
  no_sep name = true -> parse_client_key (client_store_prefix name ++ path) = Some (name, path).
Proof.
  intro H. rewrite client_prefix_bytes. unfold parse_client_key.
  rewrite <- !app_assoc. rewrite strip_app2. cbn [app]. apply cut_sep_app. exact H.
Qed.

Lemma full_consensus_key_split name h :
  full_consensus_state_key name h = client_store_prefix name ++ consensus_state_key h.
Proof.
  rewrite client_prefix_bytes, consensus_key_bytes. unfold full_consensus_state_key, height_args.
  rewrite shape_full_consensus. cbn [render render_item get_s get_n nth_error]. rewrite app_nil_r, <- !app_assoc. reflexivity.
Qed.

Lemma full_client_state_key_split name :
  full_client_state_key name = client_store_prefix name ++ client_state_key.
Proof.
  rewrite client_prefix_bytes. unfold full_client_state_key, client_state_key.
  rewrite shape_full_client_state, shape_client_state.
  cbn [render render_item get_s nth_error]. rewrite !app_nil_r, <- !app_assoc. reflexivity.
Qed.

(** the keeper iterators on ANY key of a client's prefix store *)
Theorem iter_consensus_states_on_client_key name path :
  no_sep name = true ->
  iter_consensus_states (client_store_prefix name ++ path) =
    match parse_consensus_state_key path with Some h => Got (name, h) | None => Skip end.
Proof. intro H. unfold iter_consensus_states. rewrite (parse_client_key_prefix name path H). reflexivity. Qed.

Theorem iter_clients_on_client_key name path :
  no_sep name = true ->
  iter_clients (client_store_prefix name ++ path) = if bytes_eqb path host_KeyClientState then Got name else Skip.
Proof. intro H. unfold iter_clients. rewrite (parse_client_key_prefix name path H). reflexivity. Qed.

(** [IterateConsensusStates] reads every consensus state key back, for ALL heights *)
Theorem consensus_key_parse_roundtrip name h :
  valid_chain_name name = true -> valid_height h = true ->
  iter_consensus_states (full_consensus_state_key name h) = Got (name, h).
Proof.
  intros Vn Vh. rewrite full_consensus_key_split, (iter_consensus_states_on_client_key _ _ (valid_chain_name_no_sep _ Vn)).
  rewrite (parse_consensus_state_key_roundtrip h Vh). reflexivity.
Qed.

(** ... and takes no other key of a client store for a consensus state *)
Lemma parse_consensus_state_key_length k h : parse_consensus_state_key k = Some h ->
  length k = (length (host_KeyConsensusStatePrefix ++ [sep]) + 16)%nat.
Proof.
  unfold parse_consensus_state_key. destruct (strip _ k) as [hb|] eqn:E; [|discriminate].
  apply strip_some in E. destruct (Nat.eqb (length hb) 16) eqn:L; [|discriminate]. intros _.
  apply Nat.eqb_eq in L. subst k. rewrite app_length, L. reflexivity.
Qed.

Theorem iter_consensus_states_skips_others name h :
  valid_chain_name name = true ->
  iter_consensus_states (full_client_state_key name) = Skip /\
  iter_consensus_states (client_store_prefix name ++ tm_processed_time_key h) = Skip /\
  iter_consensus_states (client_store_prefix name ++ tm_iteration_key h) = Skip.
Proof.
  intro Vn. pose proof (valid_chain_name_no_sep _ Vn) as H.
  rewrite full_client_state_key_split, !(iter_consensus_states_on_client_key _ _ H).
  split; [reflexivity | split; reflexivity].
Qed.

(** [IterateClients] reads every client state key back and skips every consensus
    state key — for ALL heights (before the repair a height whose bytes end in
    "/clientState" was taken for a client state) *)
Theorem client_key_parse_roundtrip name :
  valid_chain_name name = true -> iter_clients (full_client_state_key name) = Got name.
Proof.
  intro Vn. rewrite full_client_state_key_split, (iter_clients_on_client_key _ _ (valid_chain_name_no_sep _ Vn)).
  reflexivity.
Qed.

Theorem iter_clients_skips_consensus name h :
  valid_chain_name name = true -> iter_clients (full_consensus_state_key name h) = Skip.
Proof.
  intro Vn. rewrite full_consensus_key_split, (iter_clients_on_client_key _ _ (valid_chain_name_no_sep _ Vn)).
  rewrite consensus_key_bytes.
  destruct (bytes_eqb _ host_KeyClientState) eqn:E; [|reflexivity].
  apply bytes_eqb_eq in E. apply (f_equal (@length byte)) in E.
  rewrite !app_length, !be8_length in E. cbn in E. lia.
Qed.

(** tendermint [IterateProcessedTime]: exactly the processed-time keys, all heights *)
Theorem processed_time_key_roundtrip h :
  iter_processed_time (tm_processed_time_key h) = Got (tm_processed_time_key h) /\
  (valid_height h = true -> iter_processed_time (consensus_state_key h) = Skip).
Proof.
  split.
  - unfold iter_processed_time.
    destruct (parse_consensus_state_key (tm_processed_time_key h)) eqn:E.
    + apply parse_consensus_state_key_length in E. exfalso. revert E.
      unfold tm_processed_time_key, height_args. rewrite shape_processed_time.
      cbn [render render_item get_n nth_error]. rewrite !app_length, !be8_length. cbn. lia.
    + assert (S : has_suffix tm_KeyProcessedTime (tm_processed_time_key h) = true); [|rewrite S; reflexivity].
      unfold tm_processed_time_key, height_args. rewrite shape_processed_time, shape_processed_time_suffix.
      cbn [render render_item get_n nth_error]. rewrite app_nil_r.
      rewrite !app_assoc. rewrite <- (app_assoc _ [sep] (B "processedTime")). apply has_suffix_app.
  - intro V. unfold iter_processed_time. rewrite (parse_consensus_state_key_roundtrip h V). reflexivity.
Qed.

(** BSC / ETH [IterateConsensusStateAscending]: every consensus state key, all heights *)
Theorem evm_consensus_key_roundtrip h :
  valid_height h = true -> iter_evm_consensus (consensus_state_key h) = Ok (Got h).
Proof.
  intro V. unfold iter_evm_consensus. rewrite (parse_consensus_state_key_roundtrip h V).
  unfold valid_height in V. apply andb_true_iff in V as [V1 V2]. apply N.ltb_lt in V1, V2.
  unfold evm_height_from_key. rewrite consensus_key_bytes.
  set (P := host_KeyConsensusStatePrefix ++ [sep]).
  rewrite app_length, app_length, !be8_length.
  replace (Nat.ltb (length P + (8 + 8)) (length P)) with false by (symmetry; apply Nat.ltb_ge; lia).
  rewrite (skipn_app_exact P _ (length P) eq_refl).
  rewrite app_length, !be8_length. cbn [Nat.add Nat.ltb Nat.leb].
  rewrite firstn8_be, skipn8_be.
  unfold sdk_be_to_uint64, go_be_uint64.
  destruct (be_bytes 8 (rev_number h)) as [|b0 l0] eqn:E0; [apply (f_equal (@length byte)) in E0; rewrite be8_length in E0; discriminate|].
  destruct (be_bytes 8 (rev_height h)) as [|b1 l1] eqn:E1; [apply (f_equal (@length byte)) in E1; rewrite be8_length in E1; discriminate|].
  rewrite <- E0, <- E1, !be8_length. cbn [Nat.ltb Nat.leb obind].
  rewrite !firstn8_be'.
  rewrite (be8_val _ V1), (be8_val _ V2). destruct h; reflexivity.
Qed.

(** tendermint iteration keys (fixed offset before and after the repair) *)
Theorem tm_iteration_key_roundtrip h :
  valid_height h = true -> tm_height_from_iteration_key (tm_iteration_key h) = Ok h.
Proof.
  intro V. unfold valid_height in V. apply andb_true_iff in V as [V1 V2]. apply N.ltb_lt in V1, V2.
  unfold tm_height_from_iteration_key, tm_iteration_key, height_args. rewrite shape_iteration.
  cbn [render render_item get_n nth_error]. rewrite app_nil_r.
  set (P := tm_KeyIterateConsensusStatePrefix).
  rewrite app_length, app_length, !be8_length.
  replace (Nat.ltb (length P + (8 + 8)) (length P)) with false by (symmetry; apply Nat.ltb_ge; lia).
  rewrite (skipn_app_exact P _ (length P) eq_refl).
  rewrite app_length, !be8_length. cbn [Nat.add Nat.ltb Nat.leb].
  rewrite firstn8_be, skipn8_be. unfold go_be_uint64. rewrite !be8_length. cbn [Nat.ltb Nat.leb obind].
  rewrite !firstn8_be'.
  rewrite (be8_val _ V1), (be8_val _ V2). destruct h; reflexivity.
Qed.

(** BSC recent-signer keys (decimal text) *)
Theorem bsc_signer_key_roundtrip h :
  valid_height h = true -> bsc_signer_height_parse (bsc_recent_signer_key h) = Ok h.
Proof.
  intro V. unfold valid_height in V. apply andb_true_iff in V as [V1 V2]. apply N.ltb_lt in V1, V2.
  unfold bsc_signer_height_parse, bsc_recent_signer_key, height_args. rewrite shape_signer.
  cbn [render render_item get_n nth_error]. rewrite app_nil_r.
  change (bsc_PrefixKeyRecentSingers ++ [sep] ++ dec (rev_number h) ++ [x2d] ++ dec (rev_height h))
    with (bsc_PrefixKeyRecentSingers ++ sep :: (dec (rev_number h) ++ x2d :: dec (rev_height h))).
  rewrite (split_sep_lit _ _ (proj2 (proj2 (proj2 (proj2 (proj2 lits_no_sep)))))).
  assert (NS : no_sep (dec (rev_number h) ++ x2d :: dec (rev_height h)) = true).
  { unfold no_sep. rewrite forallb_app. cbn [forallb]. fold (no_sep (dec (rev_number h))). fold (no_sep (dec (rev_height h))).
    rewrite !dec_no_sep. reflexivity. }
  rewrite (split_sep_end _ NS). cbv beta iota.
  unfold parse_height_go.
  rewrite (split_on_app is_dash (dec (rev_number h)) x2d (dec (rev_height h)) (dec_no_dash _) eq_refl).
  rewrite (split_on_free is_dash _ (dec_no_dash (rev_height h))).
  rewrite (parse_uint_go_dec _ V1), (parse_uint_go_dec _ V2). destruct h; reflexivity.
Qed.
