(** C05 — acknowledgement lifecycle (part 1): one ack per accepted receive, acks are never rewritten
    (with the invariant that makes the unguarded relay-ack write of AcknowledgePacket harmless — no
    hypothesis about self-named clients is needed), commitments disappear only through a verified ack.
    Part 2 (ack processed once) is in Proofs/PacketC04.v because it shares the send-counter invariant. *)
From Teleport Require Import Base.Bytes Base.Outcome Base.AList Model.Packet Proofs.Packet Proofs.PacketC01 Proofs.PacketC02.
Local Open Scope N_scope.

Definition is_any_ackw (e : event) : bool := match e with EvAckWritten _ _ => true | _ => false end.

Section C05.
  Variable P : params.
  Hypothesis KO : keys_ok P.

  Local Notation slog s := (log (st_app s)).

  (** ** small facts *)
  Lemma validate_packet_side s p : validate_packet s p = true -> p_dst p = st_name s \/ p_src p = st_name s.
  Proof.
    unfold validate_packet. intro H. apply andb_true_iff in H as [_ H].
    destruct (bytes_eqb_spec (p_dst p) (st_name s)); [left; assumption|].
    destruct (bytes_eqb_spec (p_src p) (st_name s)); [right; assumption | discriminate].
  Qed.

  Lemma akey_not_n k : is_akey P k -> forall a b, k <> nextseq_key P a b.
  Proof. intros [t ->] a b. apply (ko_an P KO). Qed.
  Lemma akey_not_c' k : is_akey P k -> forall t, k <> ckey P t.
  Proof. intros [t ->] t'. apply (ko_ac P KO). Qed.
  Lemma akey_not_r k : is_akey P k -> forall t, k <> rkey P t.
  Proof. intros [t ->] t' E. apply (ko_ra P KO t' t). symmetry; exact E. Qed.

  Lemma sget_sent s p bz k :
    sget k (sent_state P s p bz) =
    if bytes_eqb k (ckey P (triple_of p)) then Some (sha256 P bz)
    else if bytes_eqb k (nextseq_key P (p_src p) (p_dst p)) then Some (be64 (add64 (p_seq p) 1)) else sget k s.
  Proof.
    unfold sent_state. rewrite sget_add_log, sget_set_kv. unfold triple_of; cbn [ckey].
    destruct (bytes_eqb k _); [reflexivity|]. rewrite sget_add_log, sget_set_cseq, sget_set_kv. reflexivity.
  Qed.

  (** ** ack family untouched *)
  Definition same_on (K : bytes -> Prop) (s s' : cstate) : Prop := forall k, K k -> sget k s' = sget k s.
  Lemma same_refl (K : bytes -> Prop) s : same_on K s s. Proof. intros k _; reflexivity. Qed.
  Lemma same_trans (K : bytes -> Prop) a b c : same_on K a b -> same_on K b c -> same_on K a c.
  Proof. intros H1 H2 k Kk. rewrite (H2 k Kk). apply H1; exact Kk. Qed.
  Lemma same_set_other (K : bytes -> Prop) k v s : (forall k', K k' -> k' <> k) -> same_on K s (set_kv k v s).
  Proof. intros D k' Kk. apply sget_set_kv_other. apply D; exact Kk. Qed.
  Lemma same_del_other (K : bytes -> Prop) k s : (forall k', K k' -> k' <> k) -> same_on K s (del_kv k s).
  Proof. intros D k' Kk. apply sget_del_kv_other. apply D; exact Kk. Qed.
  Lemma same_add_log (K : bytes -> Prop) e s : same_on K s (add_log e s). Proof. intros k _; reflexivity. Qed.

  Lemma send_same_a s p ok s' : send_packet P s p ok = Ok s' -> same_on (is_akey P) s s'.
  Proof.
    intro H. apply send_packet_ok in H as (_ & _ & _ & _ & _ & bz & _ & ->).
    intros k K. rewrite sget_sent.
    destruct (bytes_eqb_spec k (ckey P (triple_of p))) as [E|_]; [exfalso; eapply akey_not_c'; eauto|].
    destruct (bytes_eqb_spec k (nextseq_key P (p_src p) (p_dst p))) as [E|_]; [exfalso; eapply akey_not_n; eauto|].
    reflexivity.
  Qed.

  Lemma call_same_a s e cb s' : call_packet P s e cb = Ok s' -> same_on (is_akey P) s s'.
  Proof.
    apply (call_packet_rel P (same_on (is_akey P))).
    - apply same_refl.
    - apply same_trans.
    - intros; eapply send_same_a; eauto.
    - intros; apply same_add_log.
  Qed.

  Lemma recv_keeper_same_a env s m s' : recv_keeper P env s m = Ok s' -> same_on (is_akey P) s s'.
  Proof.
    intro H. apply recv_keeper_ok in H. cbv zeta in H.
    destruct H as (_ & _ & _ & ct & bz & _ & _ & _ & ->).
    destruct (recv_relay s _).
    - eapply same_trans; [apply same_set_other | apply same_set_other].
      + intros k K. rewrite rkey_eq. apply akey_not_r; exact K.
      + intros k K. rewrite ckey_eq. apply akey_not_c'; exact K.
    - apply same_set_other. intros k K. rewrite rkey_eq. apply akey_not_r; exact K.
  Qed.

  (** ** C05.ack_written_with_recv *)
  Definition error_ack (relayer : bytes) (p : packet) (a : ackt) : Prop :=
    a = mkAck 1 [] msg_callback_failed relayer (p_fee p).
  Definition result_ack (cb : cbres) (relayer : bytes) (p : packet) (a : ackt) : Prop :=
    exists code res msg, cb_ret cb = Some (code, res, msg) /\ a = mkAck code res msg relayer (p_fee p).

  Lemma cnt_blind_any : send_blind is_any_ackw. Proof. split; reflexivity. Qed.

  Lemma ack_written_with_recv env s m cb s' :
    exec P env s (ARecv m cb) = Ok s' ->
    let p := fst (decode P (rm_packet m)) in
    p_dst p = st_name s ->
    exists relayer a bz,
      relayer_on_other_chain s (p_src p) (rm_signer m) = Ok (Some relayer) /\
      (error_ack relayer p a \/ result_ack cb relayer p a) /\ pack_ack P a = Some bz /\
      sget (akey P (triple_of p)) s = None /\
      sget (akey P (triple_of p)) s' = Some (sha256 P bz) /\
      (forall k, is_akey P k -> k <> akey P (triple_of p) -> sget k s' = sget k s) /\
      cnt is_any_ackw (slog s') = S (cnt is_any_ackw (slog s)) /\
      cnt (is_ackw (triple_of p)) (slog s') = S (cnt (is_ackw (triple_of p)) (slog s)).
  Proof.
    cbn [exec]. cbv zeta. intros H Dst. apply recv_handler_ok in H. cbv zeta in H.
    set (p := fst (decode P (rm_packet m))) in *.
    destruct H as (s1 & relayer & RK & _ & RL & Hc).
    pose proof (recv_keeper_same_a _ _ _ _ RK) as S1.
    assert (N1 : st_name s1 = st_name s /\ st_relayers s1 = st_relayers s /\ slog s1 = slog s).
    { apply recv_keeper_ok in RK. cbv zeta in RK. destruct RK as (_ & _ & _ & ct & bz & _ & _ & _ & ->).
      destruct (recv_relay s _); repeat split; reflexivity. }
    destruct N1 as (Nm & Rl & Lg).
    destruct Hc as [(_ & s3 & a & bz & PA & WA & Hcb) | [(Dn & _) | (Dn & _)]];
      [| exfalso; apply Dn; rewrite Nm; exact Dst | exfalso; apply Dn; rewrite Nm; exact Dst].
    exists relayer, a, bz.
    split. { unfold relayer_on_other_chain in *. rewrite <- Rl. exact RL. }
    assert (S3 : same_on (is_akey P) s s3 /\ (forall f, send_blind f -> (forall q, f (EvOnRecv q) = false) -> cnt f (slog s3) = cnt f (slog s))).
    { destruct Hcb as [(_ & -> & _) | (s2 & code & res & msg & CP & _ & _ & ->)].
      - split; [exact S1 | intros; rewrite Lg; reflexivity].
      - destruct (code =? 0).
        + split; [eapply same_trans; [exact S1 | eapply call_same_a; exact CP]|].
          intros f B E. rewrite (call_cnt P _ _ _ _ _ B CP), E, Lg. lia.
        + split; [exact S1 | intros; rewrite Lg; reflexivity]. }
    destruct S3 as (S3 & C3).
    split.
    { destruct Hcb as [(_ & _ & ->) | (s2 & code & res & msg & _ & CR & -> & _)].
      - left; reflexivity.
      - right. exists code, res, msg. split; [exact CR | reflexivity]. }
    split; [exact PA|].
    apply write_ack_ok in WA as (_ & F & _ & ->).
    split. { rewrite <- (S3 _ (ex_intro _ (triple_of p) eq_refl)). exact F. }
    split. { rewrite sget_add_log. unfold triple_of; cbn [akey]. apply sget_set_kv_same. }
    split. { intros k K N. rewrite sget_add_log, sget_set_kv_other; [apply S3; exact K | exact N]. }
    split.
    - cbn [slog add_log st_app log]. rewrite cnt_app, cnt_one. cbn [is_any_ackw].
      change (log (st_app (set_kv _ _ s3))) with (slog s3).
      rewrite (C3 _ cnt_blind_any) by reflexivity. lia.
    - cbn [slog add_log st_app log]. rewrite cnt_app, cnt_one. cbn [is_ackw]. rewrite triple_eqb_refl.
      change (log (st_app (set_kv _ _ s3))) with (slog s3).
      rewrite (C3 _ (send_blind_ackw _)) by reflexivity. lia.
  Qed.

  (** ** the invariant behind acks_monotone *)
  Definition inv5 (s : cstate) : Prop :=
    valid_name P (st_name s) = true /\
    (forall n c, aget n (st_clients s) = Some c -> valid_name P n = true) /\
    (forall t, valid_triple P t -> sget (akey P t) s <> None -> sget (rkey P t) s <> None) /\
    (forall t, valid_triple P t -> fst (fst t) <> st_name s -> sget (ckey P t) s <> None ->
               sget (akey P t) s = None /\ sget (rkey P t) s <> None).

  Lemma inv5_add_log e s : inv5 s -> inv5 (add_log e s).
  Proof. intro H; exact H. Qed.

  Lemma inv5_send s p ok s' : inv5 s -> send_packet P s p ok = Ok s' -> inv5 s'.
  Proof.
    intros (Vn & Vc & I1 & J) H. apply send_packet_ok in H as (_ & Src & _ & _ & _ & bz & _ & ->).
    assert (SA : forall t, sget (akey P t) (sent_state P s p bz) = sget (akey P t) s).
    { intro t. rewrite sget_sent.
      destruct (bytes_eqb_spec (akey P t) (ckey P (triple_of p))) as [E|_]; [exfalso; eapply (ko_ac P KO); eauto|].
      destruct (bytes_eqb_spec (akey P t) (nextseq_key P (p_src p) (p_dst p))) as [E|_]; [exfalso; eapply (ko_an P KO); eauto|].
      reflexivity. }
    assert (SR : forall t, sget (rkey P t) (sent_state P s p bz) = sget (rkey P t) s).
    { intro t. rewrite sget_sent.
      destruct (bytes_eqb_spec (rkey P t) (ckey P (triple_of p))) as [E|_]; [exfalso; eapply (ko_rc P KO); eauto|].
      destruct (bytes_eqb_spec (rkey P t) (nextseq_key P (p_src p) (p_dst p))) as [E|_]; [exfalso; eapply (ko_rn P KO); eauto|].
      reflexivity. }
    split; [exact Vn|]. split; [exact Vc|]. split.
    - intros t Vt. rewrite SA, SR. apply I1; exact Vt.
    - intros t Vt Ns. change (st_name (sent_state P s p bz)) with (st_name s) in Ns.
      rewrite SA, SR, sget_sent.
      destruct (bytes_eqb_spec (ckey P t) (ckey P (triple_of p))) as [E|_].
      + apply (ko_cinj P KO) in E; [|exact Vt]. subst t. exfalso. apply Ns. exact Src.
      + destruct (bytes_eqb_spec (ckey P t) (nextseq_key P (p_src p) (p_dst p))) as [E|_]; [exfalso; eapply (ko_cn P KO); eauto|].
        apply J; assumption.
  Qed.

  Lemma inv5_call s e cb s' : inv5 s -> call_packet P s e cb = Ok s' -> inv5 s'.
  Proof.
    apply (call_packet_ind P inv5).
    - intros; eapply inv5_send; eauto.
    - intros; apply inv5_add_log; assumption.
  Qed.

  Lemma inv5_hook l s s' : inv5 s -> hook_sends P s l = Ok s' -> inv5 s'.
  Proof. apply (hook_sends_ind P inv5). intros; eapply inv5_send; eauto. Qed.

  Lemma recv_relay_true s p : recv_relay s p = true -> (exists c, aget (p_dst p) (st_clients s) = Some c) /\ p_dst p <> st_name s.
  Proof.
    unfold recv_relay. destruct (aget (p_dst p) (st_clients s)) as [c|]; [|discriminate].
    destruct (bytes_eqb_spec (p_dst p) (st_name s)); [discriminate|]. intros _. split; [eauto | assumption].
  Qed.

  Lemma inv5_recv_keeper env s m s' : inv5 s -> recv_keeper P env s m = Ok s' -> inv5 s'.
  Proof.
    intros (Vn & Vc & I1 & J) H. apply recv_keeper_ok in H. cbv zeta in H.
    set (p := fst (decode P (rm_packet m))) in *.
    destruct H as (_ & V & F & ct & bz & C & _ & _ & ->).
    change (receipt_key P (p_src p) (p_dst p) (p_seq p)) with (rkey P (triple_of p)) in *.
    change (commitment_key P (p_src p) (p_dst p) (p_seq p)) with (ckey P (triple_of p)) in *.
    destruct (recv_relay s p) eqn:RR.
    - apply recv_relay_true in RR as [[c Cd] Dn].
      assert (Vt0 : valid_triple P (triple_of p)) by (split; cbn; eapply Vc; eauto).
      split; [exact Vn|]. split; [exact Vc|]. split.
      + intros t Vt. rewrite !sget_set_kv.
        destruct (bytes_eqb_spec (akey P t) (ckey P (triple_of p))) as [E|_]; [exfalso; eapply (ko_ac P KO); eauto|].
        destruct (bytes_eqb_spec (akey P t) (rkey P (triple_of p))) as [E|_]; [exfalso; eapply (ko_ra P KO); eauto|].
        destruct (bytes_eqb_spec (rkey P t) (ckey P (triple_of p))) as [E|_]; [exfalso; eapply (ko_rc P KO); eauto|].
        destruct (bytes_eqb (rkey P t) (rkey P (triple_of p))); [discriminate | apply I1; exact Vt].
      + intros t Vt Ns. cbn [st_name set_kv] in Ns. rewrite !sget_set_kv.
        destruct (bytes_eqb_spec (akey P t) (ckey P (triple_of p))) as [E|_]; [exfalso; eapply (ko_ac P KO); eauto|].
        destruct (bytes_eqb_spec (akey P t) (rkey P (triple_of p))) as [E|_]; [exfalso; eapply (ko_ra P KO); eauto|].
        destruct (bytes_eqb_spec (rkey P t) (ckey P (triple_of p))) as [E|_]; [exfalso; eapply (ko_rc P KO); eauto|].
        destruct (bytes_eqb_spec (ckey P t) (ckey P (triple_of p))) as [E|_].
        * apply (ko_cinj P KO) in E; [|exact Vt]. subst t. intros _. rewrite bytes_eqb_refl.
          split; [|discriminate].
          destruct (sget (akey P (triple_of p)) s) eqn:A; [|reflexivity].
          exfalso. apply (I1 _ Vt0); [rewrite A; discriminate | exact F].
        * destruct (bytes_eqb_spec (ckey P t) (rkey P (triple_of p))) as [E|_]; [exfalso; eapply (ko_rc P KO); eauto|].
          intro Cp. destruct (J t Vt Ns Cp) as [A R]. split; [exact A|].
          destruct (bytes_eqb (rkey P t) (rkey P (triple_of p))); [discriminate | exact R].
    - split; [exact Vn|]. split; [exact Vc|]. split.
      + intros t Vt. rewrite !sget_set_kv.
        destruct (bytes_eqb_spec (akey P t) (rkey P (triple_of p))) as [E|_]; [exfalso; eapply (ko_ra P KO); eauto|].
        destruct (bytes_eqb (rkey P t) (rkey P (triple_of p))); [discriminate | apply I1; exact Vt].
      + intros t Vt Ns. cbn [st_name set_kv] in Ns. rewrite !sget_set_kv.
        destruct (bytes_eqb_spec (akey P t) (rkey P (triple_of p))) as [E|_]; [exfalso; eapply (ko_ra P KO); eauto|].
        destruct (bytes_eqb_spec (ckey P t) (rkey P (triple_of p))) as [E|_]; [exfalso; eapply (ko_rc P KO); eauto|].
        intro Cp. destruct (J t Vt Ns Cp) as [A R]. split; [exact A|].
        destruct (bytes_eqb (rkey P t) (rkey P (triple_of p))); [discriminate | exact R].
  Qed.

  (** WriteAcknowledgement keeps the invariant when the receipt is there and no foreign commitment of the same
      triple exists (both hold where msg_server calls it) *)
  Lemma inv5_write_ack s p bz s' :
    inv5 s -> sget (rkey P (triple_of p)) s <> None ->
    (valid_triple P (triple_of p) -> p_src p <> st_name s -> sget (ckey P (triple_of p)) s = None) ->
    write_ack P s p bz = Ok s' -> inv5 s'.
  Proof.
    intros (Vn & Vc & I1 & J) R C H. apply write_ack_ok in H as (_ & F & _ & ->).
    change (ack_key P (p_src p) (p_dst p) (p_seq p)) with (akey P (triple_of p)) in *.
    split; [exact Vn|]. split; [exact Vc|]. split.
    - intros t Vt. rewrite !sget_add_log, !sget_set_kv.
      destruct (bytes_eqb_spec (rkey P t) (akey P (triple_of p))) as [E|_]; [exfalso; eapply (ko_ra P KO); eauto|].
      destruct (bytes_eqb_spec (akey P t) (akey P (triple_of p))) as [E|_].
      + apply (ko_ainj P KO) in E; [|exact Vt]. subst t. intros _. exact R.
      + apply I1; exact Vt.
    - intros t Vt Ns. cbn [st_name set_kv add_log] in Ns. rewrite !sget_add_log, !sget_set_kv.
      destruct (bytes_eqb_spec (rkey P t) (akey P (triple_of p))) as [E|_]; [exfalso; eapply (ko_ra P KO); eauto|].
      destruct (bytes_eqb_spec (ckey P t) (akey P (triple_of p))) as [E|_]; [exfalso; eapply (ko_ac P KO); eauto|].
      intro Cp. destruct (J t Vt Ns Cp) as [A Rt].
      destruct (bytes_eqb_spec (akey P t) (akey P (triple_of p))) as [E|_].
      + apply (ko_ainj P KO) in E; [|exact Vt]. subst t. exfalso. apply Cp. apply C; assumption.
      + split; assumption.
  Qed.

  (** sha256 never returns the empty string (bytes.Equal(nil, []) holds in AcknowledgePacket) *)
  Hypothesis sha_nonempty : forall x, sha256 P x <> [].

  Lemma inv5_ack_keeper env s m s' :
    inv5 s -> ack_keeper P env s m = Ok s' -> inv5 s' /\ keeps (is_akey P) s s'.
  Proof.
    intros (Vn & Vc & I1 & J) H. apply ack_keeper_ok in H. cbv zeta in H.
    set (p := fst (decode P (am_packet m))) in *.
    destruct H as (_ & V & bz & ct & _ & E & Cd & _ & Hs).
    change (commitment_key P (p_src p) (p_dst p) (p_seq p)) with (ckey P (triple_of p)) in *.
    change (ack_key P (p_src p) (p_dst p) (p_seq p)) with (akey P (triple_of p)) in *.
    assert (Cp : sget (ckey P (triple_of p)) s <> None).
    { destruct (sget (ckey P (triple_of p)) s); [discriminate|].
      apply bytes_eqb_eq in E. symmetry in E. apply sha_nonempty in E. contradiction. }
    destruct Hs as [[Src ->] | (Ns & [c Cs] & ->)].
    - split.
      + split; [exact Vn|]. split; [exact Vc|]. split.
        * intros t Vt. rewrite !sget_del_kv.
          destruct (bytes_eqb_spec (akey P t) (ckey P (triple_of p))) as [X|_]; [exfalso; eapply (ko_ac P KO); eauto|].
          destruct (bytes_eqb_spec (rkey P t) (ckey P (triple_of p))) as [X|_]; [exfalso; eapply (ko_rc P KO); eauto|].
          apply I1; exact Vt.
        * intros t Vt Nt. cbn [st_name del_kv] in Nt. rewrite !sget_del_kv.
          destruct (bytes_eqb_spec (akey P t) (ckey P (triple_of p))) as [X|_]; [exfalso; eapply (ko_ac P KO); eauto|].
          destruct (bytes_eqb_spec (rkey P t) (ckey P (triple_of p))) as [X|_]; [exfalso; eapply (ko_rc P KO); eauto|].
          destruct (bytes_eqb (ckey P t) (ckey P (triple_of p))); [congruence|]. apply J; assumption.
      + apply keeps_del_other. intros k K. apply akey_not_c'; exact K.
    - (* relay ack: src <> this chain, hence dst = this chain; both names valid *)
      assert (Vt0 : valid_triple P (triple_of p)).
      { split; cbn; [eapply Vc; eauto|].
        destruct (validate_packet_side _ _ V) as [D|S]; [rewrite D; exact Vn | contradiction]. }
      destruct (J _ Vt0 Ns Cp) as [A0 R0].
      split.
      + split; [exact Vn|]. split; [exact Vc|]. split.
        * intros t Vt. rewrite !sget_add_log, !sget_set_kv, !sget_del_kv.
          destruct (bytes_eqb_spec (rkey P t) (akey P (triple_of p))) as [X|_]; [exfalso; eapply (ko_ra P KO); eauto|].
          destruct (bytes_eqb_spec (rkey P t) (ckey P (triple_of p))) as [X|_]; [exfalso; eapply (ko_rc P KO); eauto|].
          destruct (bytes_eqb_spec (akey P t) (akey P (triple_of p))) as [X|_].
          -- apply (ko_ainj P KO) in X; [|exact Vt]. subst t. intros _. exact R0.
          -- destruct (bytes_eqb_spec (akey P t) (ckey P (triple_of p))) as [X|_]; [exfalso; eapply (ko_ac P KO); eauto|].
             apply I1; exact Vt.
        * intros t Vt Nt. cbn [st_name del_kv set_kv add_log] in Nt. rewrite !sget_add_log, !sget_set_kv, !sget_del_kv.
          destruct (bytes_eqb_spec (rkey P t) (akey P (triple_of p))) as [X|_]; [exfalso; eapply (ko_ra P KO); eauto|].
          destruct (bytes_eqb_spec (rkey P t) (ckey P (triple_of p))) as [X|_]; [exfalso; eapply (ko_rc P KO); eauto|].
          destruct (bytes_eqb_spec (ckey P t) (akey P (triple_of p))) as [X|_]; [exfalso; eapply (ko_ac P KO); eauto|].
          destruct (bytes_eqb_spec (ckey P t) (ckey P (triple_of p))) as [X|Nc]; [congruence|].
          intro Ct. destruct (J t Vt Nt Ct) as [A Rt].
          destruct (bytes_eqb_spec (akey P t) (akey P (triple_of p))) as [X|_].
          -- apply (ko_ainj P KO) in X; [|exact Vt]. subst t. contradiction.
          -- destruct (bytes_eqb_spec (akey P t) (ckey P (triple_of p))) as [X|_]; [exfalso; eapply (ko_ac P KO); eauto|].
             split; assumption.
      + eapply keeps_trans; [|apply keeps_add_log].
        eapply keeps_trans; [apply keeps_del_other; intros k K; apply akey_not_c'; exact K|].
        apply keeps_set_fresh. rewrite sget_del_kv_other; [exact A0 | apply (ko_ac P KO)].
  Qed.

  (** sends never touch a foreign commitment of a valid triple *)
  Definition foreign_same (s s' : cstate) : Prop :=
    st_name s' = st_name s /\
    forall t, valid_triple P t -> fst (fst t) <> st_name s -> sget (ckey P t) s' = sget (ckey P t) s.

  Lemma foreign_refl s : foreign_same s s. Proof. split; [reflexivity | intros; reflexivity]. Qed.
  Lemma foreign_trans a b c : foreign_same a b -> foreign_same b c -> foreign_same a c.
  Proof.
    intros [N1 H1] [N2 H2]. split; [congruence|]. intros t Vt Ns.
    rewrite H2; [apply H1; assumption | exact Vt | rewrite N1; exact Ns].
  Qed.
  Lemma foreign_send s p ok s' : send_packet P s p ok = Ok s' -> foreign_same s s'.
  Proof.
    intro H. apply send_packet_ok in H as (_ & Src & _ & _ & _ & bz & _ & ->).
    split; [reflexivity|]. intros t Vt Ns. rewrite sget_sent.
    destruct (bytes_eqb_spec (ckey P t) (ckey P (triple_of p))) as [E|_].
    - apply (ko_cinj P KO) in E; [|exact Vt]. subst t. exfalso. apply Ns. exact Src.
    - destruct (bytes_eqb_spec (ckey P t) (nextseq_key P (p_src p) (p_dst p))) as [E|_]; [exfalso; eapply (ko_cn P KO); eauto|].
      reflexivity.
  Qed.
  Lemma foreign_call s e cb s' : call_packet P s e cb = Ok s' -> foreign_same s s'.
  Proof.
    apply (call_packet_rel P foreign_same).
    - apply foreign_refl.
    - apply foreign_trans.
    - intros; eapply foreign_send; eauto.
    - intros; split; [reflexivity | intros; reflexivity].
  Qed.

  Lemma akey_keeps_call s e cb s' : call_packet P s e cb = Ok s' -> keeps (is_akey P) s s'.
  Proof. apply call_packet_keeps; [apply akey_not_n | apply akey_not_c']. Qed.

  Lemma inv5_recv_handler env s m cb s' :
    inv5 s -> recv_handler P env s m cb = Ok s' -> inv5 s' /\ keeps (is_akey P) s s'.
  Proof.
    intros I H. apply recv_handler_ok in H. cbv zeta in H.
    set (p := fst (decode P (rm_packet m))) in *.
    destruct H as (s1 & relayer & RK & _ & _ & Hc).
    pose proof (inv5_recv_keeper _ _ _ _ I RK) as I1.
    pose proof RK as RK2. apply recv_keeper_ok in RK2. cbv zeta in RK2. fold p in RK2.
    destruct RK2 as (_ & V & F & ct & bz0 & Cs & _ & _ & S1).
    change (receipt_key P (p_src p) (p_dst p) (p_seq p)) with (rkey P (triple_of p)) in *.
    change (commitment_key P (p_src p) (p_dst p) (p_seq p)) with (ckey P (triple_of p)) in *.
    assert (K1 : keeps (is_akey P) s s1).
    { subst s1. destruct (recv_relay s p).
      - eapply keeps_trans; apply keeps_set_other; intros k K; [apply akey_not_r | apply akey_not_c']; exact K.
      - apply keeps_set_other; intros k K; apply akey_not_r; exact K. }
    (* before the message no foreign commitment of this triple exists (its receipt is absent) *)
    assert (C0 : valid_triple P (triple_of p) -> p_src p <> st_name s -> sget (ckey P (triple_of p)) s = None).
    { intros Vt Ns. destruct (sget (ckey P (triple_of p)) s) eqn:X; [|reflexivity].
      destruct I as (_ & _ & _ & J). destruct (J _ Vt Ns) as [_ R]; [rewrite X; discriminate|]. contradiction. }
    assert (Nm : st_name s1 = st_name s) by (subst s1; destruct (recv_relay s p); reflexivity).
    assert (Cl : st_clients s1 = st_clients s) by (subst s1; destruct (recv_relay s p); reflexivity).
    assert (WA1 : forall bz s'', recv_relay s p = false -> write_ack P s1 p bz = Ok s'' -> inv5 s'' /\ keeps (is_akey P) s s'').
    { intros bz s'' RR WA. split.
      - eapply inv5_write_ack; [exact I1 | | | exact WA].
        + subst s1. rewrite RR. rewrite sget_set_kv_same. discriminate.
        + intros Vt Ns. rewrite Nm in Ns. subst s1. rewrite RR.
          rewrite sget_set_kv_other; [apply C0; assumption|]. intro X; eapply (ko_rc P KO); eauto.
      - eapply keeps_trans; [exact K1|]. apply write_ack_ok in WA as (_ & Fa & _ & ->).
        eapply keeps_trans; [|apply keeps_add_log]. apply keeps_set_fresh. exact Fa. }
    destruct Hc as [(Dn & s3 & a & bz & _ & WA & Hcb) | [(Dn & Cn & bz & _ & WA) | (_ & _ & ->)]].
    - assert (RR : recv_relay s p = false).
      { unfold recv_relay. destruct (aget (p_dst p) (st_clients s)); [|reflexivity].
        rewrite Dn, Nm, bytes_eqb_refl. reflexivity. }
      destruct Hcb as [(_ & -> & _) | (s2 & code & res & msg & CP & _ & _ & ->)]; [exact (WA1 _ _ RR WA)|].
      destruct (code =? 0); [|exact (WA1 _ _ RR WA)].
      pose proof (inv5_call _ _ _ _ I1 CP) as I2.
      pose proof (foreign_call _ _ _ _ CP) as [Nm2 Fs].
      pose proof (call_keeps_r P KO _ _ _ _ CP) as Kr.
      split.
      + eapply inv5_write_ack; [exact I2 | | | exact WA].
        * assert (X : sget (rkey P (triple_of p)) s1 = Some receipt_value)
            by (subst s1; rewrite RR; apply sget_set_kv_same).
          rewrite (Kr _ _ (ex_intro _ _ eq_refl) X). discriminate.
        * intros Vt Ns. rewrite Nm2, Nm in Ns. rewrite Fs; [|exact Vt | rewrite Nm; exact Ns].
          subst s1. rewrite RR. rewrite sget_set_kv_other; [apply C0; assumption|].
          intro X; eapply (ko_rc P KO); eauto.
      + eapply keeps_trans; [exact K1|]. eapply keeps_trans; [eapply akey_keeps_call; exact CP|].
        apply write_ack_ok in WA as (_ & Fa & _ & ->).
        eapply keeps_trans; [|apply keeps_add_log]. apply keeps_set_fresh. exact Fa.
    - eapply WA1; [|exact WA]. unfold recv_relay. rewrite <- Cl, Cn. reflexivity.
    - split; [exact I1 | exact K1].
  Qed.

  Lemma inv5_ack_handler env s m cb1 cb2 cb3 s' :
    inv5 s -> ack_handler P env s m cb1 cb2 cb3 = Ok s' -> inv5 s' /\ keeps (is_akey P) s s'.
  Proof.
    intros I H. apply ack_handler_ok in H. cbv zeta in H.
    destruct H as (s1 & a & AK & _ & _ & Hc).
    destruct (inv5_ack_keeper _ _ _ _ I AK) as [I1 K1].
    destruct Hc as [(_ & ->) | (_ & s2 & s3 & r & addr & C1 & _ & _ & C2 & C3)]; [split; assumption|].
    split.
    - eapply inv5_call; [|exact C3]. eapply inv5_call; [|exact C2]. eapply inv5_call; [|exact C1]. exact I1.
    - eapply keeps_trans; [exact K1|].
      eapply keeps_trans; [eapply akey_keeps_call; exact C1|].
      eapply keeps_trans; [eapply akey_keeps_call; exact C2|].
      eapply akey_keeps_call; exact C3.
  Qed.

  Lemma inv5_exec env s a s' : inv5 s -> exec P env s a = Ok s' -> inv5 s' /\ keeps (is_akey P) s s'.
  Proof.
    intro I.
    destruct a as [m cb|m cb1 cb2 cb3|cb|name ok| |name c ok|name c ok|addr chains addrs|name c ok]; cbn [exec]; intro H.
    - eapply inv5_recv_handler; eauto.
    - eapply inv5_ack_handler; eauto.
    - destruct (cb_fail cb); [discriminate|]. split; [eapply inv5_hook; eauto|].
      eapply hook_sends_keeps; [apply akey_not_n | apply akey_not_c' | exact H].
    - destruct ok; inversion H; subst; split; [exact I | apply keeps_refl].
    - inversion H; subst; split; [exact I | apply keeps_refl].
    - apply register_client_ok in H as (Vn & Nn & _ & H); subst s'.
      split; [|intros k v _ X; exact X].
      destruct I as (A & B & C & D). split; [exact A|]. split; [|split; assumption].
      intros n c0. cbn [st_clients set_clients]. rewrite aget_aset.
      destruct (bytes_eqb_spec n name) as [->|_]; [intros _; exact Vn | apply B].
    - unfold toggle_client in H. destruct (valid_name P name) eqn:Vn; cbn in H; [|discriminate].
      destruct (aget name (st_clients s)) as [c0|]; [|discriminate].
      destruct (c0 =? c); [discriminate|]. destruct ok; inversion H; subst.
      split; [|intros k v _ X; exact X].
      destruct I as (A & B & C & D). split; [exact A|]. split; [|split; assumption].
      intros n c1. cbn [st_clients set_clients]. rewrite aget_aset.
      destruct (bytes_eqb_spec n name) as [->|_]; [intros _; exact Vn | apply B].
    - inversion H; subst. split; [exact I | intros k v _ X; exact X].
    - apply upgrade_client_ok in H; subst s'. split; [exact I | apply keeps_refl].
  Qed.

  (** *** C05.acks_monotone *)
  Lemma run_inv5 ops : forall s, inv5 s -> inv5 (run P s ops) /\ keeps (is_akey P) s (run P s ops).
  Proof.
    induction ops as [|o ops IH]; intros s I; cbn [run]; [split; [exact I | apply keeps_refl]|].
    unfold step. destruct (deliver P (fst o) s (snd o)) as [s'| |] eqn:E0; [apply deliver_ok in E0 as E| |]; cbn [fst]; try (apply IH; exact I).
    destruct (inv5_exec _ _ _ _ I E) as [I' K'].
    destruct (IH s' I') as [I'' K'']. split; [exact I'' | eapply keeps_trans; eauto].
  Qed.

  (** ** C05.commitment_removed_only_by_ack *)
  Definition stays_all := stays (fun _ => True).

  Lemma send_stays_all s p ok s' : send_packet P s p ok = Ok s' -> stays_all s s'.
  Proof.
    intro H. apply send_packet_ok in H as (_ & _ & _ & _ & _ & bz & _ & ->). unfold sent_state, stays_all.
    eapply stays_trans; [|apply stays_add_log].
    eapply stays_trans; [|apply stays_set].
    eapply stays_trans; [|apply stays_add_log].
    eapply stays_trans; [|apply stays_set_cseq].
    apply stays_set.
  Qed.

  Lemma call_stays_all s e cb s' : call_packet P s e cb = Ok s' -> stays_all s s'.
  Proof.
    apply (call_packet_rel P stays_all).
    - apply stays_refl.
    - apply stays_trans.
    - intros; eapply send_stays_all; eauto.
    - intros; apply stays_add_log.
  Qed.

  Lemma hook_stays_all l s s' : hook_sends P s l = Ok s' -> stays_all s s'.
  Proof.
    apply (hook_sends_rel P stays_all).
    - apply stays_refl.
    - apply stays_trans.
    - intros; eapply send_stays_all; eauto.
  Qed.

  Lemma recv_handler_stays_all env s m cb s' : recv_handler P env s m cb = Ok s' -> stays_all s s'.
  Proof.
    intro H. apply recv_handler_ok in H. cbv zeta in H.
    destruct H as (s1 & relayer & RK & _ & _ & Hc).
    assert (S1 : stays_all s s1).
    { apply recv_keeper_ok in RK. cbv zeta in RK. destruct RK as (_ & _ & _ & ct & bz & _ & _ & _ & ->).
      destruct (recv_relay s _); [eapply stays_trans|]; apply stays_set. }
    assert (W : forall s3 p bz s'', write_ack P s3 p bz = Ok s'' -> stays_all s3 s'').
    { intros s3 p bz s'' WA. apply write_ack_ok in WA as (_ & _ & _ & ->).
      eapply stays_trans; [apply stays_set | apply stays_add_log]. }
    eapply stays_trans; [exact S1|].
    destruct Hc as [(_ & s3 & a & bz & _ & WA & Hcb) | [(_ & _ & bz & _ & WA) | (_ & _ & ->)]].
    - eapply stays_trans; [|eapply W; exact WA].
      destruct Hcb as [(_ & -> & _) | (s2 & code & res & msg & CP & _ & _ & ->)]; [apply stays_refl|].
      destruct (code =? 0); [eapply call_stays_all; exact CP | apply stays_refl].
    - eapply W; exact WA.
    - apply stays_refl.
  Qed.

  Lemma commitment_removed_only_by_ack env s a s' k h :
    exec P env s a = Ok s' -> sget k s = Some h -> sget k s' = None ->
    exists m cb1 cb2 cb3,
      a = AAck m cb1 cb2 cb3 /\ k = ckey P (triple_of (fst (decode P (am_packet m)))) /\
      ack_verified P env s m /\
      exists bz, abi_pack P (fst (decode P (am_packet m))) = Some bz /\ h = sha256 P bz.
  Proof.
    intros H Hk Hn.
    assert (NS : forall s0 s1, stays_all s0 s1 -> sget k s0 <> None -> sget k s1 <> None) by (intros s0 s1 X; apply X; exact I).
    destruct a as [m cb|m cb1 cb2 cb3|cb|name ok| |name c ok|name c ok|addr chains addrs|name c ok]; cbn [exec] in H.
    - exfalso. apply (NS _ _ (recv_handler_stays_all _ _ _ _ _ H)); [rewrite Hk; discriminate | exact Hn].
    - exists m, cb1, cb2, cb3. split; [reflexivity|].
      pose proof (ack_accepted_verified P sha_nonempty env s m cb1 cb2 cb3 s' H) as AV.
      apply ack_handler_ok in H. cbv zeta in H.
      set (p := fst (decode P (am_packet m))) in *.
      destruct H as (s1 & a & AK & _ & _ & Hc).
      assert (S1' : stays_all s1 s').
      { destruct Hc as [(_ & ->) | (_ & s2 & s3 & r & addr & C1 & _ & _ & C2 & C3)]; [apply stays_refl|].
        eapply stays_trans; [eapply call_stays_all; exact C1|].
        eapply stays_trans; [eapply call_stays_all; exact C2|]. eapply call_stays_all; exact C3. }
      assert (K1 : sget k s1 = None).
      { destruct (sget k s1) eqn:X; [|reflexivity]. exfalso. apply (NS _ _ S1'); [rewrite X; discriminate | exact Hn]. }
      apply ack_keeper_ok in AK. cbv zeta in AK. fold p in AK.
      destruct AK as (_ & _ & bz & ct & A & E & _ & _ & Hs).
      change (commitment_key P (p_src p) (p_dst p) (p_seq p)) with (ckey P (triple_of p)) in *.
      assert (Kc : k = ckey P (triple_of p)).
      { destruct (bytes_eq_dec k (ckey P (triple_of p))) as [->|Nk]; [reflexivity|]. exfalso.
        destruct Hs as [[_ ->] | (_ & _ & ->)].
        - rewrite sget_del_kv_other in K1 by exact Nk. congruence.
        - rewrite sget_add_log, sget_set_kv in K1. destruct (bytes_eqb k _); [discriminate|].
          rewrite sget_del_kv_other in K1 by exact Nk. congruence. }
      split; [exact Kc|]. split; [exact AV|]. exists bz. split; [exact A|].
      subst k. rewrite Hk in E. apply bytes_eqb_eq in E. exact E.
    - exfalso. destruct (cb_fail cb); [discriminate|].
      apply (NS _ _ (hook_stays_all _ _ _ H)); [rewrite Hk; discriminate | exact Hn].
    - destruct ok; inversion H; subst; congruence.
    - inversion H; subst; congruence.
    - apply register_client_ok in H as (Vn & Nn & _ & H); subst s'. unfold sget in *; cbn in Hn; congruence.
    - unfold toggle_client in H. destruct (valid_name P name); cbn in H; [|discriminate].
      destruct (aget name (st_clients s)) as [c0|]; [|discriminate].
      destruct (c0 =? c); [discriminate|]. destruct ok; inversion H; subst. unfold sget in *; cbn in Hn; congruence.
    - inversion H; subst. unfold sget in *; cbn in Hn; congruence.
    - apply upgrade_client_ok in H; subst s'. congruence.
  Qed.
End C05.
