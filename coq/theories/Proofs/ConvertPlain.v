(** C11 — the hypotheses of the voucher-backing theorem are satisfiable: a plain ERC-20 (Model/ConvertTokens.v
    [plain_call]) reports balances honestly and lets nobody but the holder lower a balance. *)
From Teleport Require Import Base.Bytes Base.Outcome Model.Convert Model.ConvertTokens Proofs.ConvertBase
  Proofs.ConvertExact Proofs.ConvertTokensLemmas Proofs.ConvertBacking Proofs.ConvertVoucher.
Local Open Scope Z_scope.

Lemma plain_honest_view : honest_view plain_call plain_ledger.
Proof.
  intros x c caller a x' r H O. unfold plain_call in H. unfold plain_ledger.
  destruct (afind Z.eqb x c) as [bal|]; inversion H; subst; [|cbn in O; discriminate].
  split; reflexivity.
Qed.

Lemma plain_others_cannot_debit M : others_cannot_debit plain_call M plain_ledger.
Proof.
  intros x c caller cl x' r H O c'. unfold plain_call in H.
  destruct (afind Z.eqb x c) as [bal|] eqn:F; [|inversion H; subst; right; lia].
  destruct cl as [a|to amt|to amt|from amt|amt|sp amt|sp amt|sp amt|from to amt|from amt]; try (inversion H; subst; right; lia).
  destruct ((amt <? 0) || (caller =? 0) || (to =? 0) || (zget bal caller <? amt)) eqn:G;
    inversion H; subst; [right; lia|].
  apply orb_false_elim in G as [G _]. apply orb_false_elim in G as [G _]. apply orb_false_elim in G as [G _].
  apply Z.ltb_ge in G.
  destruct (Z.eqb_spec c' c) as [->|NC].
  - destruct (Z.eqb_spec caller M) as [->|NM]; [left; reflexivity | right].
    unfold plain_ledger. rewrite (afind_aset_same Z.eqb Z.eqb_eq), F. rewrite !zget_zset.
    destruct (Z.eqb_spec to M) as [->|NT].
    + destruct (Z.eqb_spec caller M); [contradiction | lia].
    + destruct (Z.eqb_spec caller M); [contradiction | lia].
  - right. unfold plain_ledger. rewrite (afind_aset_other Z.eqb Z.eqb_eq) by congruence. lia.
Qed.
