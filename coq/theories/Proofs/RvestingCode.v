(** The generic lemmas of Proofs/RvestingParams.v and Proofs/RvestingWorld.v instantiated with the terms
    regenerated from the current source tree (Model/RvestingCode.v).  Every decidable side condition is
    discharged HERE by [vm_compute] on the regenerated term: a change of x/rvesting or app/app.go that keeps the
    conditions re-checks silently, one that breaks a condition makes this file fail to build (the obligation
    then names the condition). *)
From Teleport Require Import Base.Bytes Base.Outcome Model.Rvesting Model.RvestingCheck Model.RvestingIR Model.RvestingBank
  Model.RvestingParams Model.RvestingWorld Model.RvestingCode Model.RvestingWorldCheck
  Proofs.Rvesting Proofs.RvestingBank Proofs.RvestingParams Proofs.RvestingWorld Proofs.RvestingRefine.
Local Open Scope Z_scope.

(** * The obligations on the regenerated terms *)
Definition all_conditions (c : code_conditions) : bool :=
  cc_guards c && cc_pairs c && cc_validate_always c && cc_default_valid c && cc_genesis_validate c
  && cc_init_sets_params c && cc_init_stops c && cc_init_known c && cc_export c && cc_vest_wiring c
  && cc_no_mint_burn c && cc_order c && cc_pool_blocked c.

Lemma code_conditions_hold : all_conditions code_ok = true.
Proof. vm_compute. reflexivity. Qed.

Lemma code_guards_std : guards_std code_lgs code_cgs = true.
Proof. vm_compute. reflexivity. Qed.

Lemma code_pairs_std : pairs_std code_pairs = true.
Proof. vm_compute. reflexivity. Qed.

Lemma code_order_std : code_order = [BBRvesting; BBDistr].
Proof. vm_compute. reflexivity. Qed.

Lemma code_init_sets : sets_params_always G.init_genesis_steps = true.
Proof. vm_compute. reflexivity. Qed.

Lemma code_init_stops : only_params_without_from G.init_genesis_steps = true.
Proof. vm_compute. reflexivity. Qed.

Lemma code_init_known : forallb (istep_known G.module_name) G.init_genesis_steps = true.
Proof. vm_compute. reflexivity. Qed.

Lemma code_init_one_send : nsend G.init_genesis_steps = 1%nat.
Proof. vm_compute. reflexivity. Qed.

Lemma code_export_shape : G.export_genesis_shape = EParamsOnly.
Proof. vm_compute. reflexivity. Qed.

Lemma code_validate_shape : G.params_validate_shape = PVAlways.
Proof. vm_compute. reflexivity. Qed.

Lemma code_gvsteps_ok : gvsteps_ok G.validate_genesis_steps = true.
Proof. vm_compute. reflexivity. Qed.

Lemma code_gvsteps_parts :
  forallb (fun ts => fst ts || is_gv_params (snd ts)) G.validate_genesis_steps = true /\
  existsb (fun ts => negb (fst ts) && is_gv_params (snd ts)) G.validate_genesis_steps = true.
Proof.
  pose proof code_gvsteps_ok as H. unfold gvsteps_ok in H.
  repeat (apply andb_true_iff in H as [H ?]). split; assumption.
Qed.

(** * validatePerBlockReward of the source = [validate_rewards] *)
Lemma code_validate_total l :
  code_validate l = Ok (match strip_coins l with Some r => validate_rewards r | None => false end).
Proof. apply validate_raw_total. exact code_guards_std. Qed.

Lemma code_validate_lift r : code_validate (lift_coins r) = Ok (validate_rewards r).
Proof. apply validate_raw_std. exact code_guards_std. Qed.

(** * DefaultParams *)
Lemma code_default_ok :
  params_ok code_default_params /\
  exists s, default_store = Ok s /\ code_get_params s = Ok code_default_params.
Proof. split; [vm_compute; reflexivity|]. eexists. split; vm_compute; reflexivity. Qed.

(** * World *)
Definition code_inv : world -> Prop := w_inv code_pairs.
Definition code_op_known : wop -> Prop := op_known code_pairs.

Lemma code_step_inv op w :
  code_inv w -> code_op_known op ->
  exists w', code_step op w = Ok w' /\ code_inv w' /\ (is_mint_burn op = false -> w_sup w' = w_sup w).
Proof. apply w_step_inv; [exact code_pairs_std|exact code_guards_std]. Qed.

Lemma code_step_mint_burn op w w' :
  code_inv w -> code_step op w = Ok w' ->
  match op with
  | WMint _ l => w' = w \/ forall d, get (w_sup w') d = get (w_sup w) d + vtotal l d
  | WBurn _ l => w' = w \/ forall d, get (w_sup w') d = get (w_sup w) d - vtotal l d
  | _ => True
  end.
Proof. apply w_step_mint_burn. Qed.

Lemma code_run_inv ops w :
  code_inv w -> Forall code_op_known ops ->
  exists w', code_run ops w = Ok w' /\ code_inv w' /\
    (forallb (fun op => negb (is_mint_burn op)) ops = true -> w_sup w' = w_sup w).
Proof. apply w_run_inv; [exact code_pairs_std|exact code_guards_std]. Qed.

Lemma code_run_begin_exact ops w w1 p :
  code_inv w -> Forall code_op_known ops -> code_run ops w = Ok w1 -> code_get_params (w_ps w1) = Ok p ->
  exists w2, code_step WBegin w1 = Ok w2 /\ w_begin_spec p w1 w2 /\ code_inv w2.
Proof. apply w_run_begin_exact; [exact code_pairs_std|exact code_guards_std]. Qed.

Lemma code_run_begin_exact_spec ops w w1 p :
  code_inv w -> Forall code_op_known ops -> code_run ops w = Ok w1 -> code_get_params (w_ps w1) = Ok p ->
  exists w2, code_step WBegin w1 = Ok w2 /\ w_begin_spec p w1 w2.
Proof.
  intros Hi Hk Hr Hg. destruct (code_run_begin_exact ops w w1 p Hi Hk Hr Hg) as (w2 & Hs & Hspec & _).
  exists w2. split; [exact Hs|exact Hspec].
Qed.

Lemma code_block_exact w p :
  code_inv w -> code_get_params (w_ps w) = Ok p -> 0 <= w_height w ->
  exists w', code_step WBlock w = Ok w' /\ code_inv w' /\
    (forall d, get (acct (w_accts w') A_POOL) d =
               get (acct (w_accts w) A_POOL) d - expected_move p (get (acct (w_accts w) A_POOL) d) d) /\
    (w_height w = 0 ->
       (forall d, get (acct (w_accts w') A_FEE) d =
                  get (acct (w_accts w) A_FEE) d + expected_move p (get (acct (w_accts w) A_POOL) d) d) /\
       acct (w_accts w') A_DISTR = acct (w_accts w) A_DISTR) /\
    (0 < w_height w ->
       (forall d, get (acct (w_accts w') A_FEE) d = 0) /\
       (forall d, get (acct (w_accts w') A_DISTR) d =
                  get (acct (w_accts w) A_DISTR) d + get (acct (w_accts w) A_FEE) d
                  + expected_move p (get (acct (w_accts w) A_POOL) d) d)) /\
    (forall i, i <> A_POOL -> i <> A_FEE -> i <> A_DISTR -> acct (w_accts w') i = acct (w_accts w) i) /\
    w_sup w' = w_sup w /\ w_ps w' = w_ps w /\ w_height w' = w_height w + 1.
Proof. apply w_block_exact; first [exact code_pairs_std|exact code_guards_std|exact code_order_std]. Qed.

(** * Genesis *)
Lemma code_init_conserves g w w' :
  bank_ok (w_accts w) (w_sup w) -> code_init_genesis g w = Ok w' ->
  bank_ok (w_accts w') (w_sup w') /\ w_sup w' = w_sup w /\ w_height w' = w_height w.
Proof. apply init_steps_inv. Qed.

Definition plain_export (g : genesis) : genesis :=
  {| g_enable := g_enable g; g_rewards := g_rewards g; g_from := FromEmpty; g_init := [] |}.

Lemma code_genesis_round_trip g w w' :
  code_init_genesis g w = Ok w' ->
  (exists r, g_rewards g = lift_coins r /\ validate_rewards r = true /\
             code_get_params (w_ps w') = Ok {| enable := g_enable g; rewards := r |}) /\
  code_export_genesis w' = Ok (plain_export g) /\
  code_validate_genesis (plain_export g) = Ok true /\
  exists w2, code_init_genesis (plain_export g) w' = Ok w2 /\
             w_accts w2 = w_accts w' /\ w_sup w2 = w_sup w' /\ code_export_genesis w2 = Ok (plain_export g).
Proof.
  intro Hinit.
  pose proof (init_steps_params code_pairs code_lgs code_cgs code_pairs_std code_guards_std G.module_name
                G.init_genesis_steps g None w w' Hinit (or_introl code_init_sets)) as (r & Hr & Hv & Hgp).
  assert (Hexp : forall w0, code_get_params (w_ps w0) = Ok {| enable := g_enable g; rewards := r |} ->
                 code_export_genesis w0 = Ok (plain_export g)).
  { intros w0 H0. unfold code_export_genesis, export_genesis. rewrite code_export_shape.
    unfold code_get_params in H0. rewrite H0. unfold plain_export. cbn [enable rewards]. rewrite Hr. reflexivity. }
  split; [exists r; repeat split; assumption|]. split; [apply Hexp; exact Hgp|]. split.
  - unfold code_validate_genesis. apply validate_genesis_no_from_ok; [reflexivity|apply code_gvsteps_parts|].
    unfold params_validate. rewrite code_validate_shape. cbn [plain_export g_enable g_rewards].
    fold (code_validate (g_rewards g)). rewrite Hr, code_validate_lift, Hv. reflexivity.
  - destruct (init_steps_no_from_total code_pairs code_lgs code_cgs code_pairs_std code_guards_std G.module_name
                G.init_genesis_steps (plain_export g) r w' eq_refl code_init_stops Hr Hv) as (w2 & H2).
    exists w2. split; [exact H2|].
    destruct (init_steps_no_from code_pairs code_lgs code_cgs G.module_name G.init_genesis_steps (plain_export g) None w' w2
                eq_refl code_init_stops H2) as (Ha & Hs & _).
    split; [exact Ha|]. split; [exact Hs|].
    pose proof (init_steps_params code_pairs code_lgs code_cgs code_pairs_std code_guards_std G.module_name
                  G.init_genesis_steps (plain_export g) None w' w2 H2 (or_introl code_init_sets)) as (r2 & Hr2 & _ & Hgp2).
    cbn [plain_export g_rewards g_enable] in Hr2, Hgp2.
    assert (r2 = r).
    { rewrite Hr in Hr2. clear - Hr2. revert r2 Hr2. induction r as [|[d a] t IH]; intros [|[d2 a2] t2] H; try discriminate; [reflexivity|].
      cbn in H. inversion H; subst. f_equal. apply IH. assumption. }
    subst r2. apply Hexp. exact Hgp2.
Qed.

Lemma code_genesis_funding g i w w' :
  g_from g = FromAcct i -> i <> A_POOL -> code_init_genesis g w = Ok w' ->
  (forall d, get (acct (w_accts w') A_POOL) d = get (acct (w_accts w) A_POOL) d + vtotal (g_init g) d) /\
  (forall d, get (acct (w_accts w') i) d = get (acct (w_accts w) i) d - vtotal (g_init g) d) /\
  (forall k, k <> A_POOL -> k <> i -> acct (w_accts w') k = acct (w_accts w) k).
Proof.
  intros Hf Hi Hinit.
  pose proof (init_steps_moves code_pairs code_lgs code_cgs G.module_name G.init_genesis_steps g i None w w' Hf Hi
                (or_introl eq_refl) Hinit) as H.
  rewrite code_init_one_send in H. destruct H as (H1 & H2 & H3).
  repeat split; [intro d; rewrite H1; lia | intro d; rewrite H2; lia | exact H3].
Qed.

(** An accepted genesis state whose funding account covers InitReward is imported without panic. *)
Lemma code_valid_genesis_total_no_from g w :
  g_from g = FromEmpty -> code_validate_genesis g = Ok true -> exists w', code_init_genesis g w = Ok w'.
Proof.
  intros Hf Hv. destruct code_gvsteps_parts as (Hall & Hex).
  assert (Hpv : params_validate code_lgs code_cgs G.params_validate_shape (g_enable g) (g_rewards g) =
                Ok (match strip_coins (g_rewards g) with Some r => validate_rewards r | None => false end)).
  { unfold params_validate. rewrite code_validate_shape. apply code_validate_total. }
  destruct (strip_coins (g_rewards g)) as [r|] eqn:Es.
  - destruct (validate_rewards r) eqn:Evr.
    + apply (init_steps_no_from_total code_pairs code_lgs code_cgs code_pairs_std code_guards_std G.module_name
               G.init_genesis_steps g r w Hf code_init_stops (strip_lift _ _ Es) Evr).
    + unfold code_validate_genesis in Hv.
      rewrite (validate_genesis_no_from_reject _ _ _ g _ Hf Hall Hex Hpv) in Hv. discriminate.
  - unfold code_validate_genesis in Hv.
    rewrite (validate_genesis_no_from_reject _ _ _ g _ Hf Hall Hex Hpv) in Hv. discriminate.
Qed.

(** * Refinement: the single-module histories of Model/Rvesting.v are world histories *)
Lemma code_pairs_shape : pairs_shape code_pairs G.key_enable_vesting G.key_per_block_reward.
Proof.
  assert (E1 : bool_key code_pairs = G.key_enable_vesting) by (vm_compute; reflexivity).
  assert (E2 : coins_key code_pairs = G.key_per_block_reward) by (vm_compute; reflexivity).
  rewrite <- E1, <- E2. apply pairs_std_shape_keys. exact code_pairs_std.
Qed.

Definition code_agrees : world -> params -> state -> Prop := agrees code_pairs.
Definition code_block_ops : block -> list wop := block_ops G.key_enable_vesting G.key_per_block_reward.

Lemma code_run_refines bs w p s p' s' :
  code_agrees w p s -> run bs p s = Ok (p', s') ->
  exists w', code_run (flat_map code_block_ops bs) w = Ok w' /\ code_agrees w' p' s'.
Proof. apply (run_refines code_pairs code_lgs code_cgs code_order _ _ code_pairs_shape code_guards_std). Qed.
