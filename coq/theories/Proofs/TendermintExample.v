(** Concrete instances for C07: a non-vacuity example (an accepted skipping update
    under toy oracles) shared by Props/C07.v and Refuted/C07_refuted.v. *)
From Teleport Require Import Base.Bytes Base.Outcome Model.Tendermint Model.TendermintCheck
  Proofs.TendermintStore Proofs.TendermintVerify Proofs.Tendermint.
From Coq Require Import Lia.
Local Open Scope Z_scope.

(** toy oracles: a digest of sizes and powers, a digest of the height, and "the
    signature of a key is the key itself" *)
Definition nv_valset_hash (l : list (pubkey * Z)) : bytes :=
  repeat (byte_of_N (Z.to_N ((Z.of_nat (length l) * 16 + total_of l) mod 256))) 32.
Definition nv_header_hash (h : pheader) : bytes := repeat (byte_of_N (Z.to_N (hd_height h mod 256))) 32.
Definition nv_verify_sig (pk : pubkey) (_ : bytes) (c : pcommit) (idx : nat) : bool :=
  match nth_error (cm_sigs c) idx with Some s => bytes_eqb (sg_sig s) (snd pk) | None => false end.

Definition nv_key (b : byte) : pubkey := (O, repeat b 32).
Definition nv_addr (b : byte) : bytes := repeat b 20.
Definition nv_val (b : byte) (p : Z) : pvalidator := {| v_addr := nv_addr b; v_pk := Some (nv_key b); v_power := p |}.
Definition nv_set (l : list pvalidator) : option pvalset :=
  Some {| vs_vals := l; vs_proposer := hd_error l |}.
Definition nv_inp (l : list pvalidator) : list (pubkey * Z) :=
  map (fun v => (match v_pk v with Some k => k | None => (O, []) end, v_power v)) l.

Definition nv_chain : bytes := B "gaia-2".
Definition nv_client (num den : N) : client_state :=
  {| cs_chain_id := nv_chain; cs_tl_num := num; cs_tl_den := den; cs_trusting := 1000; cs_unbonding := 2000;
     cs_drift := 10; cs_latest := mkH 2 5; cs_delay := 0; cs_rest := [] |}.

Definition nv_sig (b : byte) (t : Z) : commit_sig := {| sg_flag := 2; sg_addr := nv_addr b; sg_time := t; sg_sig := repeat b 32 |}.
Definition nv_absent : commit_sig := {| sg_flag := 1; sg_addr := []; sg_time := zero_time; sg_sig := [] |}.

Definition nv_pheader (hgt time : Z) (own next : list pvalidator) : pheader :=
  {| hd_version_block := 11; hd_version_app := 2; hd_chain_id := nv_chain; hd_height := hgt; hd_time := time;
     hd_last_block_id := {| b_hash := []; b_parts := {| ps_total := 0; ps_hash := [] |} |};
     hd_last_commit_hash := []; hd_data_hash := []; hd_vals_hash := nv_valset_hash (nv_inp own);
     hd_next_vals_hash := nv_valset_hash (nv_inp next); hd_cons_hash := []; hd_app_hash := [x01; x02];
     hd_last_results_hash := []; hd_evidence_hash := []; hd_proposer := nv_addr x01 |}.

Definition nv_mk_header (hgt time : Z) (own next trusted : list pvalidator) (th : height) (sigs : list commit_sig) : header :=
  let h := nv_pheader hgt time own next in
  {| h_signed := Some {| sh_header := Some h;
                         sh_commit := Some {| cm_height := hgt; cm_round := 0;
                                              cm_block_id := {| b_hash := nv_header_hash h;
                                                                b_parts := {| ps_total := 1; ps_hash := [] |} |};
                                              cm_sigs := sigs |} |};
     h_valset := nv_set own; h_trusted_height := th; h_trusted_vals := nv_set trusted |}.

(** client created at height 2-5 trusting next set {A:2, B:1}; header for height 9
    with own set {A:2, C:1} signed by A and C: 3/3 of its own set and 2/3 of the
    trusted set (level 1/3) *)
Definition nv_trusted : list pvalidator := [nv_val x01 2; nv_val x02 1].
Definition nv_own : list pvalidator := [nv_val x01 2; nv_val x03 1].
Definition nv_store : store :=
  create_client [] (nv_client 1 3) {| c_time := 100; c_root := [x09]; c_nvh := nv_valset_hash (nv_inp nv_trusted) |} 100.
Definition nv_header : header := nv_mk_header 9 150 nv_own nv_own nv_trusted (mkH 2 5) [nv_sig x01 150; nv_sig x03 151].
Definition nv_now : Z := 160.

Lemma nonvacuous :
  exists s', update_client nv_valset_hash nv_header_hash nv_verify_sig nv_store nv_header nv_now = Ok s' /\
             wf_header nv_header /\ sorted nv_store /\
             match client_of s' with Some cs' => cs_latest cs' = mkH 2 9 | None => False end.
Proof.
  eexists. split; [vm_compute; reflexivity|]. split; [|split].
  - split; [split; vm_compute; reflexivity|].
    intros sh h E1 E2. vm_compute in E1. inversion E1; subst. vm_compute in E2. inversion E2; subst.
    unfold min_int64, max_int64. cbn. lia.
  - vm_compute. repeat split.
  - vm_compute. reflexivity.
Qed.
