(** C06 — what an EMPTY monitor verdict means: if the executable monitor of Model/AuthCheck.v
    reports nothing for an observed step, the clauses of the property hold of that observation
    (stated in Prop, with the monitor's own vocabulary over the observed registry dump).  Together
    with Proofs/AuthMonitor.monitor_sound (the monitor accepts every step of the model) this pins the
    monitor from both sides. *)
From Teleport Require Import Base.Bytes Base.Outcome Model.Auth Model.AuthCheck.

Lemma app_nil_inv {A} (l1 l2 : list A) : l1 ++ l2 = [] -> l1 = [] /\ l2 = [].
Proof. destruct l1; cbn; [auto | discriminate]. Qed.

Lemma if_nil_false (b : bool) (k : nat) : (if b then [k] else []) = [] -> b = false.
Proof. destruct b; [discriminate | reflexivity]. Qed.

(** a rejected step (message or proposal) left the observed state and registry untouched *)
Theorem monitor_rejected_meaning ct before o :
  mon_step ct before o = [] -> os_class o <> 0%nat ->
  os_same o = true /\ rdump_eqb before (os_reg o) = true.
Proof.
  unfold mon_step. intros H Hc. cbv beta zeta in H. apply app_nil_inv in H as [H _].
  apply Nat.eqb_neq in Hc. rewrite Hc in H. cbn [negb andb] in H.
  apply if_nil_false in H. apply Bool.negb_false_iff in H. apply Bool.andb_true_iff in H. exact H.
Qed.

(** a message never changed the observed registry *)
Theorem monitor_message_meaning ct before o :
  mon_step ct before o = [] ->
  match os_kind o with KGov _ _ _ | KRaw _ _ _ => True | _ => rdump_eqb before (os_reg o) = true end.
Proof.
  unfold mon_step. intro H. cbv beta zeta in H. apply app_nil_inv in H as [_ H]. apply app_nil_inv in H as [H _].
  destruct (os_kind o); try exact I; cbv beta iota zeta in H; cbn [andb] in H; apply if_nil_false in H; apply Bool.negb_false_iff in H; exact H.
Qed.

(** an accepted UpdateClient: the signer's record (observed registry before the step) lists the chain;
    for a TSS client the canonical signer is the TSS address *)
Theorem monitor_update_meaning ct before o chain signer :
  mon_step ct before o = [] -> os_kind o = KUpdate chain signer -> os_class o = 0%nat ->
  listed before signer chain = true /\
  (forall a, tss_of (os_facts o) chain = Some a -> canon_f ct signer = a).
Proof.
  unfold mon_step. intros H Hk Hc. rewrite Hk in H. cbv beta iota zeta in H.
  apply app_nil_inv in H as [_ H]. apply app_nil_inv in H as [_ H].
  apply app_nil_inv in H as [H1 H]. apply app_nil_inv in H as [H2 _].
  rewrite Hc in H1, H2. cbn [Nat.eqb andb] in H1, H2.
  apply if_nil_false in H1. apply Bool.negb_false_iff in H1. split; [exact H1|].
  intros a Ha. rewrite Ha in H2. destruct (bytes_eqb_spec (canon_f ct signer) a); [assumption | discriminate].
Qed.

(** an accepted RecvPacket: the signer's record lists the packet source; for a TSS source the signer
    string is the TSS address; if an acknowledgement was written it is for this packet, carries the
    packet's fee option, is the one the store holds, and its Relayer is Addresses[first i with
    Chains[i] = source] of the signer's record; if none was written the packet is not for this chain *)
Theorem monitor_recv_meaning ct before o signer src dst seq fee :
  mon_step ct before o = [] -> os_kind o = KRecv signer src dst seq fee -> os_class o = 0%nat ->
  listed before signer src = true /\
  (forall a, tss_of (os_facts o) src = Some a -> signer = a) /\
  match os_ack o with
  | Some (src', dst', seq', a) =>
      src' = src /\ dst' = dst /\ seq' = seq /\ ack_fee a = fee /\ os_ack_stored o = true /\
      registered_addr before signer src = Some (ack_relayer a)
  | None => dst <> f_self (os_facts o)
  end.
Proof.
  unfold mon_step. intros H Hk Hc. rewrite Hk in H. cbv beta iota zeta in H.
  apply app_nil_inv in H as [_ H]. apply app_nil_inv in H as [_ H].
  apply app_nil_inv in H as [H1 H]. apply app_nil_inv in H as [H2 H3].
  rewrite Hc in H1, H2, H3. cbn [Nat.eqb andb] in H1, H2, H3.
  apply if_nil_false in H1. apply Bool.negb_false_iff in H1. split; [exact H1|]. split.
  - intros a Ha. rewrite Ha in H2. destruct (bytes_eqb_spec signer a); [assumption | discriminate].
  - destruct (os_ack o) as [[[[src' dst'] seq'] a]|].
    + destruct (bytes_eqb_spec src src') as [E1|]; cbn [andb] in H3; [|discriminate].
      destruct (bytes_eqb_spec dst dst') as [E2|]; cbn [andb] in H3; [|discriminate].
      destruct (N.eqb_spec seq seq') as [E3|]; cbn [andb] in H3; [|discriminate].
      destruct (N.eqb_spec (ack_fee a) fee) as [Hf|]; cbn [andb] in H3; [|discriminate].
      destruct (os_ack_stored o); cbn [andb] in H3; [|discriminate].
      destruct (registered_addr before signer src) as [x|]; [|discriminate].
      destruct (bytes_eqb_spec x (ack_relayer a)) as [E4|]; [|discriminate].
      subst. repeat split; auto.
    + destruct (bytes_eqb_spec dst (f_self (os_facts o))) as [E|N]; [discriminate | exact N].
Qed.

(** an accepted Acknowledgement: for a TSS destination the signer string is the TSS address; an observed
    fee payout went to the first record (store order) listing (destination, ack.Relayer up to case) *)
Theorem monitor_ack_meaning ct before o signer src dst seq oa :
  mon_step ct before o = [] -> os_kind o = KAck signer src dst seq oa -> os_class o = 0%nat ->
  (forall t, tss_of (os_facts o) dst = Some t -> signer = t) /\
  (forall p, os_payee o = Some p ->
     exists a q, oa = Some a /\ rev_find before dst (ack_relayer a) = Some q /\ p = canon_f ct q).
Proof.
  unfold mon_step. intros H Hk Hc. rewrite Hk in H. cbv beta iota zeta in H.
  apply app_nil_inv in H as [_ H]. apply app_nil_inv in H as [_ H].
  apply app_nil_inv in H as [H1 H]. apply app_nil_inv in H as [_ H3].
  rewrite Hc in H1, H3. cbn [Nat.eqb andb] in H1, H3. split.
  - intros t Ht. rewrite Ht in H1. destruct (bytes_eqb_spec signer t); [assumption | discriminate].
  - intros p Hp. rewrite Hp in H3. destruct oa as [a|]; [|discriminate].
    destruct (rev_find before dst (ack_relayer a)) as [q|] eqn:Er; [|discriminate].
    destruct (bytes_eqb_spec p (canon_f ct q)) as [E|]; [|discriminate]. exists a, q. auto.
Qed.
