(** Completeness of the Ethereum client model: a rule-abiding child of a stored header is
    accepted ([no_wedge]) when the hypotheses collected in [should_accept] hold, in
    particular when the two branches meet above the pruned prefix. *)
From Coq Require Import Lia ZArith NArith List.
From Teleport Require Import Base.Bytes Base.Outcome Model.Eth Proofs.EthBase Proofs.EthValid Proofs.EthChain
  Proofs.EthInv Proofs.EthStep Proofs.Eth.
Local Open Scope N_scope.

Section Wedge.
  Variable hash : header -> bytes.
  Variable ethash_ok : header -> bool.
  Variable U : header -> Prop.
  Variable r0 g0 : N.
  Notation idx_wf := (idx_wf hash r0).
  Notation wf_hdr := (wf_hdr r0).
  Notation key := (key hash).
  Notation Stored := (Stored hash).
  Notation Inv := (Inv hash r0 g0 U).

  (** * The fuel of RestrictChain suffices: a chain of stored ancestors is not longer than the index *)
  Lemma anc_length ix x J a :
    idx_wf ix -> h_num x < two63 -> Stored ix x -> nth_anc ix x J = Some a -> (S J <= length ix)%nat.
  Proof.
    intros WF Hx Sx E.
    destruct (ancs_nth _ _ _ _ E) as [Len _]. rewrite <- Len.
    rewrite <- (map_length key (ancs ix x J)), <- (map_length fst ix).
    apply NoDup_incl_length.
    - apply (NoDup_map_inv snd). rewrite map_map. cbn [snd EthChain.key].
      exact (ancs_nodup hash r0 ix J x a WF Hx E).
    - intros k Ik. apply in_map_iff in Ik. destruct Ik as [b [<- Ib]].
      destruct (ancs_in _ _ _ _ Ib) as [i [_ Ei]].
      pose proof (nth_anc_stored _ _ _ _ _ _ WF Hx Sx Ei) as Sb.
      exact (mget_in_keys hkey_eqb hkey_eqb_spec _ _ _ Sb).
  Qed.

  (** * The executable chains are the relational ones *)
  Lemma chain_of_in fuel ix x a : In a (chain_of fuel ix x) -> exists i, nth_anc ix x i = Some a.
  Proof.
    revert x; induction fuel as [|f IH]; intros x I.
    - cbn in I. destruct I as [<-|[]]. exists 0%nat; reflexivity.
    - cbn [chain_of] in I. destruct I as [<-|I]; [exists 0%nat; reflexivity|].
      destruct (parent_of ix x) as [p|] eqn:P; [|contradiction].
      destruct (IH p I) as [i E]. exists (S i). cbn. rewrite P. exact E.
  Qed.

  Lemma chain_of_full ix fuel : forall x L, Main ix x L -> (length L <= S fuel)%nat -> chain_of fuel ix x = L.
  Proof.
    induction fuel as [|f IH]; intros x L M Len.
    - destruct (main_cons _ _ _ M) as [l ->]. cbn in Len. destruct l; [reflexivity | cbn in Len; lia].
    - destruct (main_cons _ _ _ M) as [l ->]. cbn [chain_of]. f_equal.
      pose proof (M 1%nat) as M1. cbn in M1.
      destruct (parent_of ix x) as [p|] eqn:P.
      + destruct l as [|q l]; [discriminate|]. cbn in M1. inversion M1; subst q.
        apply IH; [|cbn in *; lia].
        intro i. pose proof (M (S i)) as Mi. cbn in Mi. rewrite P in Mi. exact Mi.
      + destruct l; [reflexivity | discriminate].
  Qed.

  Lemma at_height_some l k y : at_height l k = Some y -> In y l /\ h_num y = k.
  Proof.
    unfold at_height. intro F. apply find_some in F. destruct F as [I E]. apply N.eqb_eq in E. tauto.
  Qed.

  Lemma inv_main_chain s L D : Inv s L D -> main_chain s = L /\ base s = low (head s) L.
  Proof.
    intro I. pose proof (inv_main _ _ _ _ _ _ _ I) as M. pose proof (inv_wf _ _ _ _ _ _ _ I) as WF.
    destruct (inv_head_wf _ _ _ _ _ _ _ I) as [_ [Hx _]].
    destruct (main_last _ _ _ M) as [EL _].
    pose proof (anc_length _ _ _ _ WF Hx (inv_head _ _ _ _ _ _ _ I) EL) as Len.
    destruct (main_cons _ _ _ M) as [l EqL].
    assert (MC : main_chain s = L).
    { unfold main_chain. apply chain_of_full; [exact M|]. rewrite EqL in *. cbn in *. lia. }
    split; [exact MC|]. unfold base, last_num, low. rewrite MC. f_equal. apply last_indep. rewrite EqL. discriminate.
  Qed.

  (** * The re-pointing loop succeeds on the collected hashes *)
  Lemma repoint_ok fr ix2 h J new2 (c : cmap) (rm : rmap) :
    idx_wf ix2 -> h_num h < two63 -> Stored ix2 h -> h_rev h = r0 -> nth_anc ix2 h J = Some new2 ->
    repoint fr ix2 (h_rev h) (h_num new2) (hash new2 :: push hash ix2 h J []) c rm
      = Ok (fold_left (setc r0) (rev (ancs ix2 h J)) c, rfold hash fr (rev (ancs ix2 h J)) rm).
  Proof.
    intros WF2 Hh S2h Hrev A. rewrite (push_ancs hash ix2 h J [] new2 A), app_nil_r, Hrev.
    apply (repoint_spec hash).
    - intros a Ia. apply in_rev in Ia. destruct (ancs_in _ _ _ _ Ia) as [i [_ Ei]].
      split; [exact (nth_anc_stored _ _ _ _ _ _ WF2 Hh S2h Ei) | exact (proj2 (nth_anc_num _ _ _ _ _ _ WF2 Hh Ei))].
    - exact (ancs_asc hash r0 ix2 J h new2 WF2 Hh A).
  Qed.

  (** * RestrictChain succeeds when the branches meet *)
  Lemma restrict_complete s1 L D h J m x y :
    Inv s1 L D -> wf_hdr h ->
    (fix_root = false ->
     forall a, Stored (idx s1) a -> h_num a = h_num h -> to_hash (h_root a) = to_hash (h_root h) -> key a = key h) ->
    (forall a, iget (key h) (idx s1) = Some a -> a = h) ->
    (fix_root = true -> g0 <= h_num h) ->
    (fix_root = true -> forall d, In d D -> key h <> key d) ->
    nth_anc (iset (key h) h (idx s1)) h J = Some x -> nth_error L m = Some y ->
    h_num x = h_num y -> h_parent y = h_parent x ->
    exists r3, restrict_chain hash (store_header hash s1 h) (head s1) h = Ok r3.
  Proof.
    intros I1 Wh Hfresh Hnoalias Hg0 Hdead Ax Ey Exy Ep.
    set (ix2 := iset (key h) h (idx s1)) in *. set (old := head s1).
    pose proof Wh as [Hrev [Hh Hgl]].
    pose proof (inv_wf _ _ _ _ _ _ _ I1) as WF1.
    assert (WF2 : idx_wf ix2) by (apply store_wf; assumption).
    pose proof (inv_main _ _ _ _ _ _ _ I1) as M1. fold old in M1.
    destruct (inv_head_wf _ _ _ _ _ _ _ I1) as [_ [Hold _]]. fold old in Hold.
    assert (S2h : Stored ix2 h) by apply store_stored_h.
    assert (H64 : h_num h < two64) by (pose proof two63_lt_two64; lia).
    destruct (nth_anc_num _ _ _ _ _ _ WF2 Hh Ax) as [Qx Hx].
    destruct (main_num _ _ _ _ _ WF1 Hold M1 _ _ Ey) as [Qy Hy].
    assert (Iy : In y L) by (eapply nth_error_In; exact Ey).
    destruct (main_in_range _ _ _ _ _ WF1 Hold M1 _ Iy) as [[Ly _] _].
    pose proof (anc_length _ _ _ _ WF2 Hh S2h Ax) as LenJ.
    unfold restrict_chain, restrict_chain_gen.
    change (idx (store_header hash s1 h)) with ix2.
    change (cons (store_header hash s1 h)) with (cons s1).
    destruct (N.ltb_spec (h_num h) (h_num old)) as [Lt|Ge].
    - (* the head is higher *)
      destruct (main_at _ _ _ _ _ WF1 Hold M1 (h_num h)) as [y0 [Ey0 Ny0]]; [lia|].
      set (i0 := N.to_nat (h_num old - h_num h)) in *.
      assert (Start : (if fix_root then cur <- walk0 (S (length ix2)) ix2 old (h_num old) (h_num h) ;; Ok (cur, h_num h)
                       else match cget (h_rev h, h_num h) (cons s1) with
                            | None => Err
                            | Some c => match rget (to_hash (c_root c), h_num h) (rmain (store_header hash s1 h)) with
                                        | None => Err
                                        | Some ik => match iget ik ix2 with None => Err | Some cur => Ok (cur, h_num h) end
                                        end
                            end) = Ok (y0, h_num h)).
      { destruct (Bool.bool_dec fix_root true) as [FR|FR]; [|apply Bool.not_true_is_false in FR]; rewrite FR.
        - assert (A0 : nth_anc ix2 old i0 = Some y0).
          { unfold ix2, old. rewrite (store_main_same hash r0 g0 U s1 L D h I1 Wh Hnoalias (Hg0 FR) (Hdead FR)). fold old. rewrite M1. exact Ey0. }
          pose proof (anc_length ix2 old i0 y0 WF2) as Len.
          assert (So2 : Stored ix2 old).
          { unfold EthChain.Stored. apply (store_mono hash (idx s1) h Hnoalias). exact (inv_head _ _ _ _ _ _ _ I1). }
          specialize (Len Hold So2 A0).
          rewrite (walk0_eq ix2 i0 (S (length ix2)) old (h_num old) (h_num h)); [rewrite A0; reflexivity | | reflexivity | lia].
          pose proof two63_lt_two64; lia.
        - destruct (restrict_current hash r0 g0 U s1 L D h I1 Wh Hfresh Hnoalias y0 i0 FR Lt Ey0 Ny0) as [C1 [C2 C3]].
          change (cons (store_header hash s1 h)) with (cons s1) in C1. rewrite C1. cbn [c_root cstate_of].
          rewrite C2. change (idx (store_header hash s1 h)) with ix2 in C3. rewrite C3. reflexivity. }
      rewrite Start. cbn [obind fst snd].
      cbn [walk1]. rewrite N.ltb_irrefl. cbn [obind].
      (* the main-chain header reached after J steps from y0 is y *)
      assert (Em : m = (i0 + J)%nat) by (unfold i0; lia).
      assert (By : nth_anc ix2 y0 J = Some y).
      { unfold ix2. rewrite (store_anc hash r0) by (try assumption; lia).
        pose proof (M1 (i0 + J)%nat) as Q. rewrite nth_anc_add, M1, Ey0 in Q. rewrite Q, <- Em. exact Ey. }
      destruct (walk2_complete hash r0 ix2 J (S (length ix2)) y0 h (h_num h) [] x y WF2 Hh Ax By Ep) as [[[new2 ti2] acc2] W2]; [lia|].
      rewrite W2. cbn [obind].
      destruct (walk2_sound hash r0 ix2 _ _ _ _ _ _ _ _ WF2 Hh eq_refl W2) as [j [cur2 [_ [A [_ [_ [-> ->]]]]]]].
      rewrite (repoint_ok fix_root ix2 h j new2 (cons s1) _ WF2 Hh S2h Hrev A). eexists; reflexivity.
    - (* the head is not higher *)
      cbn [obind fst snd].
      set (d := N.to_nat (h_num h - h_num old)).
      assert (Hd : (d <= J)%nat) by (unfold d; lia).
      destruct (nth_anc_le _ _ d _ _ Ax Hd) as [a1 A1].
      rewrite (walk1_eq hash ix2 d (S (length ix2)) h (h_num h) (h_num old) [] H64 eq_refl) by lia.
      rewrite A1. cbn [obind].
      destruct (nth_anc_num _ _ _ _ _ _ WF2 Hh A1) as [Q1 Ha1].
      assert (Ax' : nth_anc ix2 a1 (J - d) = Some x).
      { pose proof (nth_anc_add ix2 h d (J - d)) as Q. replace (d + (J - d))%nat with J in Q by lia. rewrite Ax, A1 in Q. symmetry; exact Q. }
      assert (Em : m = (J - d)%nat) by (unfold d in *; lia).
      assert (By : nth_anc ix2 old (J - d) = Some y).
      { unfold ix2. rewrite (store_anc hash r0) by (try assumption; lia). rewrite M1, <- Em. exact Ey. }
      destruct (walk2_complete hash r0 ix2 (J - d) (S (length ix2)) old a1 (h_num h - N.of_nat d) (push hash ix2 h d []) x y WF2 Ha1 Ax' By Ep)
        as [[[new2 ti2] acc2] W2]; [lia|].
      rewrite W2. cbn [obind].
      assert (T1 : h_num h - N.of_nat d = h_num a1) by (unfold d in *; lia).
      rewrite T1 in W2.
      destruct (walk2_sound hash r0 ix2 _ _ _ _ _ _ _ _ WF2 Ha1 eq_refl W2) as [j [cur2 [_ [A [_ [_ [-> ->]]]]]]].
      assert (AJ : nth_anc ix2 h (d + j) = Some new2) by (rewrite nth_anc_add, A1; exact A).
      rewrite <- (push_add hash ix2 h d j [] a1 A1).
      rewrite (repoint_ok fix_root ix2 h (d + j) new2 (cons s1) _ WF2 Hh S2h Hrev AJ). eexists; reflexivity.
  Qed.

  (** * From the executable [meets] to a meeting point *)
  Lemma meets_core s L D h lo p :
    Inv s L D -> parent_of (idx s) h = Some p ->
    meets s h lo = true ->
    exists J x y, nth_anc (idx s) h J = Some x /\ In y L /\ h_num x = h_num y /\ lo <= h_num x /\ h_parent y = h_parent x.
  Proof.
    intros I P Mt. destruct (inv_main_chain _ _ _ I) as [MC _].
    unfold meets in Mt. rewrite MC in Mt. apply existsb_exists in Mt. destruct Mt as [x [Ix Cx]].
    apply andb_true_iff in Cx. destruct Cx as [Lo Cx]. apply N.leb_le in Lo.
    destruct (at_height L (h_num x)) as [y|] eqn:AH; [|discriminate].
    destruct (at_height_some _ _ _ AH) as [Iy Ny].
    destruct (beq_spec (h_parent x) (h_parent y)) as [Ep|]; [|discriminate].
    assert (Ax : exists J, nth_anc (idx s) h J = Some x).
    { destruct Ix as [<-|Ix]; [exists 0%nat; reflexivity|].
      unfold parent_of in P.
      assert (Q : iget (to_hash (h_parent h), h_num h - 1) (idx s) = Some p \/ True) by (right; exact Logic.I).
      destruct (iget (to_hash (h_parent h), h_num h - 1) (idx s)) as [p'|] eqn:P'; [|contradiction].
      destruct (chain_of_in _ _ _ _ Ix) as [i Ei].
      (* the parent used by [meets] (key with [num - 1]) is the one [parent_of] finds (key with [sub64 num 1]) *)
      pose proof (inv_wf _ _ _ _ _ _ _ I) as WF.
      destruct (WF _ _ _ P') as [_ [Np' [_ [Hp' _]]]].
      destruct (WF _ _ _ P) as [_ [Np [_ [Hp _]]]].
      assert (E : sub64 (h_num h) 1 = h_num h - 1).
      { destruct (N.eq_dec (h_num h) 0) as [Z|NZ].
        - exfalso. rewrite Z, sub64_zero in Np. rewrite Np in Hp. revert Hp. unfold two63, two64. lia.
        - destruct (N.lt_ge_cases (h_num h) two64) as [Lt|Ge].
          + apply sub64_pred; lia.
          + (* a number >= 2^64 does not occur in Go; [meets] and the code then look at different keys *)
            exfalso. clear -Np' Hp' Ge. unfold two63, two64 in *. lia. }
      rewrite E in P. rewrite P' in P. inversion P; subst p'.
      exists (S i). cbn. unfold parent_of. rewrite E, P'. exact Ei. }
    destruct Ax as [J Ax]. exists J, x, y. repeat split; try assumption; try lia. symmetry; exact Ep.
  Qed.

  Lemma anc_transfer_del ix kd h J x nd :
    idx_wf ix -> h_num h < two63 -> nth_anc ix h J = Some x -> snd kd = nd -> nd < h_num x ->
    nth_anc (idel kd ix) h J = Some x.
  Proof.
    intros WF Hh Ax Kd Lt. apply nth_anc_del; [exact Ax|].
    intros j b Hj Eb K.
    destruct (nth_anc_num _ _ _ _ _ _ WF Hh Eb) as [Qb Hb].
    destruct (nth_anc_num _ _ _ _ _ _ WF Hh Ax) as [Qx _].
    destruct (nth_anc_le _ _ (S j) _ _ Ax ltac:(lia)) as [b' Eb'].
    rewrite nth_anc_S, Eb in Eb'.
    destruct (parent_of_spec _ _ _ _ _ WF Hb Eb') as [Kb' [Nb' _]].
    assert (h_num b' = nd) by (rewrite <- Kd, <- K, <- Kb'; reflexivity).
    lia.
  Qed.

  (** * No wedge *)
  (** the two stored branches meet at a height not below [lo]: an ancestor-or-self [x] of the new
      header (reached through [J] stored parents) and the main-chain header [y] of the same height
      are children of the same header *)
  Definition MeetsAt (s : state) (L : list header) (h : header) (lo : N) : Prop :=
    exists J x y, nth_anc (idx s) h J = Some x /\ In y L /\ h_num x = h_num y /\ lo <= h_num x /\ h_parent y = h_parent x.

  Theorem no_wedge_core s L D bt h :
    Inv s L D ->
    active bt s = true -> valid_child_b hash ethash_ok bt s h = true -> h_rev h = h_rev (head s) ->
    exp_ok cur bt s h = true ->
    (fix_root = true \/ fresh_root_b hash s h = true) -> noalias_b hash s h = true ->
    (* needed by the repaired variant only: the hash of [h] determines its parent key (Props: [h] is in the universe) *)
    (fix_root = true -> forall d, h_num d < two63 -> U d -> key h = key d -> pkey h = pkey d) ->
    (beq (hash (head s)) (h_parent h) = true \/
     MeetsAt s L h (if prune_due bt s then low (head s) L + 1 else low (head s) L)) ->
    exists s', update_client hash ethash_ok bt s h = Ok s' /\ head s' = h.
  Proof.
    intros I Act V Rv Ex Fr' Na Hpk CM.
    assert (Fr : fix_root = false -> fresh_root_b hash s h = true).
    { intro F. destruct Fr' as [T|Fr]; [rewrite F in T; discriminate T | exact Fr]. }
    pose proof (inv_wf _ _ _ _ _ _ _ I) as WF.
    destruct (inv_head_wf _ _ _ _ _ _ _ I) as [Hr0 [Hold _]].
    rewrite Hr0 in Rv.
    destruct (valid_child_parent _ _ _ _ _ V) as [H1 [Hh [p [Ep [Hp Ru]]]]].
    assert (Hgl : h_gaslimit h < two63).
    { unfold rules_b in Ru. rewrite !andb_true_iff in Ru. apply validate_basic_gaslimit. tauto. }
    assert (Wh : wf_hdr h) by (repeat split; assumption).
    assert (H64 : h_num h < two64) by (pose proof two63_lt_two64; lia).
    assert (PP : parent_of (idx s) h = Some p) by (unfold parent_of; rewrite sub64_pred by assumption; exact Ep).
    assert (CV : check_validity hash ethash_ok bt s h = Ok tt).
    { unfold check_validity. rewrite (check_validity_eq hash ethash_ok cur r0 bt s h WF Hh), V, Ex.
      unfold rev_ok. rewrite Rv, <- Hr0, N.eqb_refl, orb_true_r. reflexivity. }
    (* it suffices to make the re-pointing step succeed *)
    assert (Hg0 : g0 <= h_num h).
    { destruct (stored_lookup _ _ _ _ _ _ WF Ep) as [Sp Kp]. pose proof (inv_low _ _ _ _ _ _ _ I p Sp) as Q.
      assert (Np : h_num p = h_num h - 1) by (inversion Kp; reflexivity). lia. }
    assert (NotKey : fix_root = true -> forall d, h_num d < two63 -> U d -> iget (pkey d) (idx s) = None -> key h <> key d).
    { intros F d Hd Ud Nd K. pose proof (Hpk F d Hd Ud K) as E.
      unfold parent_of in PP. change (to_hash (h_parent h), sub64 (h_num h) 1) with (pkey h) in PP. rewrite E in PP. congruence. }
    assert (Hdead : fix_root = true -> forall d, In d D -> key h <> key d).
    { intros F d Id.
      assert (Range : forall x n a, iget (x, n) (idx s) = Some a -> g0 <= n < two63).
      { intros x n a E. destruct (stored_lookup _ _ _ _ _ _ WF E) as [Sa Ka].
        destruct (stored_wf _ _ _ _ WF Sa) as [_ [Q _]]. pose proof (inv_low _ _ _ _ _ _ _ I a Sa).
        inversion Ka; subst. lia. }
      destruct (deadpath_parent_gone _ _ _ _ _ _ Range (inv_dead _ _ _ _ _ _ _ I)) as [_ DeadD].
      destruct (DeadD d Id) as [Nd [Hd Ud]]. exact (NotKey F d Hd Ud Nd). }
    assert (Suff : forall s1, prune bt s = Ok s1 ->
              (exists r3, (if negb (beq (hash (head s)) (h_parent h))
                           then restrict_chain hash (store_header hash s1 h) (head s) h
                           else Ok (cons (store_header hash s1 h), rmain (store_header hash s1 h))) = Ok r3) ->
              exists s', update_client hash ethash_ok bt s h = Ok s' /\ head s' = h).
    { intros s1 P [c3 R]. unfold update_client, update_client_gen, check_header_gen. change (v_d2 cur) with true.
      change (v_root cur) with fix_root.
      fold (check_validity hash ethash_ok).
      rewrite Act. cbn [negb]. unfold active in Act.
      destruct (cget (h_rev (head s), h_num (head s)) (cons s)); [|discriminate].
      rewrite CV, P. cbn [obind]. fold (restrict_chain hash). rewrite R. cbn [obind].
      eexists. split; reflexivity. }
    destruct (beq (hash (head s)) (h_parent h)) eqn:B; cbn [negb] in *.
    { (* the new header extends the head: no re-pointing *)
      destruct (prune_spec hash r0 g0 U bt s L D I Act) as [[_ P0]|[_ [L1 [aL [_ [_ [P1 _]]]]]]].
      - apply (Suff s P0). eexists; reflexivity.
      - apply (Suff _ P1). eexists; reflexivity. }
    destruct CM as [CM|CM]; [discriminate|].
    destruct (prune_spec hash r0 g0 U bt s L D I Act) as [[PD P0]|[PD [L1 [aL [EqL [NE1 [P1 [I1 [Low1 [SaL PaL]]]]]]]]]];
      rewrite PD in CM.
    - (* nothing pruned *)
      apply (Suff s P0).
      destruct CM as [J [x [y [Ax [Iy [Exy [_ Epar]]]]]]].
      apply In_nth_error in Iy. destruct Iy as [m Ey].
      apply (restrict_complete s L D h J m x y I Wh (fun F => fresh_root_prop hash s h (Fr F)) (noalias_prop hash s h Na) (fun _ => Hg0) Hdead); try assumption.
      rewrite (store_anc hash r0) by (try assumption; lia). exact Ax.
    - (* the earliest state is pruned first: the meeting point must lie above it *)
      apply (Suff _ P1).
      destruct CM as [J [x [y [Ax [Iy [Exy [Lo Epar]]]]]]].
      assert (LowL : low (head s) L = h_num aL) by (unfold low; rewrite EqL, last_last; reflexivity).
      assert (Iy1 : In y L1).
      { rewrite EqL in Iy. apply in_app_or in Iy. destruct Iy as [Iy|[<-|[]]]; [exact Iy|]. lia. }
      apply In_nth_error in Iy1. destruct Iy1 as [m Ey].
      change (head s) with (head (pruned hash r0 s aL)).
      apply (restrict_complete (pruned hash r0 s aL) L1 (aL :: D) h J m x y I1 Wh); try assumption.
      + intros F a Sa. apply (fresh_root_prop hash s h (Fr F)). exact (idel_sub hash U _ _ _ _ Sa).
      + intros a Ea. apply (noalias_prop hash s h Na). exact (idel_sub hash U _ _ _ _ Ea).
      + intros _. exact Hg0.
      + intros F d [<-|Id]; [|exact (Hdead F d Id)].
        (* the header pruned by this very update: its parent key holds nothing, the new header's holds p *)
        apply (NotKey F aL); [exact (proj1 (proj2 (stored_wf _ _ _ _ WF SaL))) | exact (inv_univ _ _ _ _ _ _ _ I _ SaL) | exact PaL].
      + cbn [pruned idx]. rewrite (store_anc hash r0).
        * apply (anc_transfer_del (idx s) (key aL) h J x (h_num aL)); try assumption; [reflexivity | lia].
        * exact (inv_wf _ _ _ _ _ _ _ I1).
        * lia.
        * exact Hh.
  Qed.

  (** the executable form used by the monitor: [should_accept] implies the hypotheses above *)
  Theorem no_wedge s L D bt h :
    Inv s L D -> should_accept hash ethash_ok bt s h = true ->
    (fix_root = true -> forall d, h_num d < two63 -> U d -> key h = key d -> pkey h = pkey d) ->
    exists s', update_client hash ethash_ok bt s h = Ok s' /\ head s' = h.
  Proof.
    intros I SA Hpk. unfold should_accept in SA. rewrite !andb_true_iff in SA.
    destruct SA as [[[[[[Act V] Rv] Ex] Fr] Na] CM].
    apply N.eqb_eq in Rv. apply orb_true_iff in Fr.
    apply (no_wedge_core s L D bt h I Act V Rv Ex Fr Na Hpk).
    apply orb_true_iff in CM. destruct CM as [CM|CM]; [left; exact CM | right].
    destruct (valid_child_parent _ _ _ _ _ V) as [H1 [Hh [p [Ep [Hp Ru]]]]].
    assert (H64 : h_num h < two64) by (pose proof two63_lt_two64; lia).
    assert (PP : parent_of (idx s) h = Some p) by (unfold parent_of; rewrite sub64_pred by assumption; exact Ep).
    destruct (inv_main_chain _ _ _ I) as [_ Bs]. rewrite Bs in CM.
    exact (meets_core s L D h _ p I PP CM).
  Qed.
End Wedge.
