(** Lemmas about the client store model, big-endian height encoding and the key
    families of the Tendermint client (C07). *)
From Teleport Require Import Base.Bytes Base.Outcome Model.Tendermint.
From Coq Require Import Lia ZArith NArith List Bool.
From Coq Require Import ZifyN ZifyNat.
Local Open Scope Z_scope.

(** * get / set / delete *)
Lemma sget_sset_eq k v s : sget k (sset k v s) = Some v.
Proof.
  induction s as [|[k' v'] t IH]; cbn.
  - now rewrite bytes_eqb_refl.
  - destruct (bytes_cmp k k') eqn:C; cbn.
    + now rewrite bytes_eqb_refl.
    + now rewrite bytes_eqb_refl.
    + destruct (bytes_eqb_spec k k') as [->|N].
      * assert (E : bytes_cmp k' k' = Eq) by (apply bytes_cmp_eq; reflexivity). congruence.
      * exact IH.
Qed.

Lemma sget_sset_neq k k2 v s : k2 <> k -> sget k2 (sset k v s) = sget k2 s.
Proof.
  intro N. induction s as [|[k' v'] t IH]; cbn.
  - destruct (bytes_eqb_spec k2 k); [contradiction|reflexivity].
  - destruct (bytes_cmp k k') eqn:C; cbn.
    + apply bytes_cmp_eq in C; subst k'.
      destruct (bytes_eqb_spec k2 k); [contradiction|reflexivity].
    + destruct (bytes_eqb_spec k2 k); [contradiction|reflexivity].
    + destruct (bytes_eqb_spec k2 k'); [reflexivity|exact IH].
Qed.

Lemma sget_sset k k2 v s : sget k2 (sset k v s) = if bytes_eqb k2 k then Some v else sget k2 s.
Proof.
  destruct (bytes_eqb_spec k2 k) as [->|N]; [apply sget_sset_eq | now apply sget_sset_neq].
Qed.

Lemma sget_sdel_eq k s : sget k (sdel k s) = None.
Proof.
  induction s as [|[k' v'] t IH]; cbn; [reflexivity|].
  destruct (bytes_eqb_spec k k') as [->|N]; [exact IH|].
  cbn. destruct (bytes_eqb_spec k k'); [contradiction|exact IH].
Qed.

Lemma sget_sdel_neq k k2 s : k2 <> k -> sget k2 (sdel k s) = sget k2 s.
Proof.
  intro N. induction s as [|[k' v'] t IH]; cbn; [reflexivity|].
  destruct (bytes_eqb_spec k k') as [->|N'].
  - destruct (bytes_eqb_spec k2 k'); [contradiction|exact IH].
  - cbn. destruct (bytes_eqb_spec k2 k'); [reflexivity|exact IH].
Qed.

Lemma sget_sdel k k2 s : sget k2 (sdel k s) = if bytes_eqb k2 k then None else sget k2 s.
Proof.
  destruct (bytes_eqb_spec k2 k) as [->|N]; [apply sget_sdel_eq | now apply sget_sdel_neq].
Qed.

(** * Strictly sorted stores: preserved by set and delete; iteration order *)
Fixpoint lower_bound (k : bytes) (s : store) : Prop :=
  match s with [] => True | (k', _) :: t => bytes_cmp k k' = Lt /\ lower_bound k t end.

Fixpoint sorted (s : store) : Prop :=
  match s with [] => True | (k, _) :: t => lower_bound k t /\ sorted t end.

Lemma lower_bound_trans k k' s : bytes_cmp k k' = Lt -> lower_bound k' s -> lower_bound k s.
Proof.
  intros L. induction s as [|[k2 v2] t IH]; cbn; [trivial|].
  intros [L2 H]. split; [eapply bytes_cmp_lt_trans; eauto | auto].
Qed.

Lemma lower_bound_sset k0 k v s : bytes_cmp k0 k = Lt -> lower_bound k0 s -> lower_bound k0 (sset k v s).
Proof.
  intros L. induction s as [|[k' v'] t IH]; cbn.
  - auto.
  - intros [L' H]. destruct (bytes_cmp k k'); cbn; auto.
Qed.

Lemma bytes_cmp_gt_lt a b : bytes_cmp a b = Gt -> bytes_cmp b a = Lt.
Proof. intro H. rewrite bytes_cmp_antisym, H. reflexivity. Qed.

Lemma sorted_sset k v s : sorted s -> sorted (sset k v s).
Proof.
  induction s as [|[k' v'] t IH]; cbn; [auto|].
  intros [LB S]. destruct (bytes_cmp k k') eqn:C; cbn.
  - apply bytes_cmp_eq in C; subst. auto.
  - split; [split; [exact C | eapply lower_bound_trans; eauto] | auto].
  - split; [apply lower_bound_sset; [now apply bytes_cmp_gt_lt | exact LB] | auto].
Qed.

Lemma lower_bound_sdel k0 k s : lower_bound k0 s -> lower_bound k0 (sdel k s).
Proof.
  induction s as [|[k' v'] t IH]; cbn; [auto|].
  intros [L H]. destruct (bytes_eqb k k'); cbn; auto.
Qed.

Lemma sorted_sdel k s : sorted s -> sorted (sdel k s).
Proof.
  induction s as [|[k' v'] t IH]; cbn; [auto|].
  intros [LB S]. destruct (bytes_eqb k k'); cbn; auto using lower_bound_sdel.
Qed.

Lemma lower_bound_In k s k' v : lower_bound k s -> In (k', v) s -> bytes_cmp k k' = Lt.
Proof.
  induction s as [|[k2 v2] t IH]; cbn; [tauto|].
  intros [L H] [E|I]; [inversion E; subst; exact L | auto].
Qed.

(** in a sorted store the first entry with a prefix is the smallest such key *)
Lemma first_with_prefix_min p s k v :
  sorted s -> first_with_prefix p s = Some (k, v) ->
  In (k, v) s /\ is_prefix p k = true /\
  forall k' v', In (k', v') s -> is_prefix p k' = true -> k' = k \/ bytes_cmp k k' = Lt.
Proof.
  induction s as [|[k2 v2] t IH]; cbn; [discriminate|].
  intros [LB S]. destruct (is_prefix p k2) eqn:P.
  - intro E; inversion E; subst. split; [auto|]. split; [exact P|].
    intros k' v' [E'|I] _; [inversion E'; auto | right; eapply lower_bound_In; eauto].
  - intro F. destruct (IH S F) as (I & P' & M). split; [auto|]. split; [exact P'|].
    intros k' v' [E'|I'] Pk'; [inversion E'; subst; congruence | eauto].
Qed.

Lemma first_with_prefix_none p s : first_with_prefix p s = None -> forall k v, In (k, v) s -> is_prefix p k = false.
Proof.
  induction s as [|[k2 v2] t IH]; cbn; [tauto|].
  destruct (is_prefix p k2) eqn:P; [discriminate|].
  intros F k v [E|I]; [inversion E; subst; exact P | eauto].
Qed.

Lemma sget_In k s v : sget k s = Some v -> In (k, v) s.
Proof.
  induction s as [|[k' v'] t IH]; cbn; [discriminate|].
  destruct (bytes_eqb_spec k k') as [->|N]; [intro E; inversion E; auto | auto].
Qed.

Lemma In_sget_sorted k v s : sorted s -> In (k, v) s -> sget k s = Some v.
Proof.
  induction s as [|[k' v'] t IH]; cbn; [tauto|].
  intros [LB S] [E|I].
  - inversion E; subst. now rewrite bytes_eqb_refl.
  - destruct (bytes_eqb_spec k k') as [->|N]; [|auto].
    pose proof (lower_bound_In _ _ _ _ LB I) as L.
    assert (E : bytes_cmp k' k' = Eq) by (apply bytes_cmp_eq; reflexivity). congruence.
Qed.

(** * Big-endian encoding *)
Lemma be_bytes_length k n : length (be_bytes k n) = k.
Proof. revert n; induction k as [|k IH]; intro n; cbn; [reflexivity|]. rewrite app_length, IH. cbn. lia. Qed.

Lemma byte_of_N_to_N n : (n < 256)%N -> Byte.to_N (byte_of_N n) = n.
Proof.
  intro H. unfold byte_of_N. destruct (Byte.of_N n) eqn:E.
  - apply Byte.to_of_N in E. exact E.
  - apply Byte.of_N_None_iff in E. lia.
Qed.

Lemma be_decode_app a b : be_decode (a ++ b) = fold_left (fun acc x => acc * 256 + Byte.to_N x)%N b (be_decode a).
Proof. unfold be_decode. now rewrite fold_left_app. Qed.

Lemma be_decode_be_bytes k n : be_decode (be_bytes k n) = (n mod 256 ^ N.of_nat k)%N.
Proof.
  revert n; induction k as [|k IH]; intro n.
  - cbn. now rewrite N.mod_1_r.
  - cbn [be_bytes]. rewrite be_decode_app, IH. cbn [fold_left].
    rewrite byte_of_N_to_N by (apply N.mod_lt; lia).
    rewrite Nat2N.inj_succ, N.pow_succ_r'.
    assert (P : (0 < 256 ^ N.of_nat k)%N) by (apply N.neq_0_lt_0, N.pow_nonzero; lia).
    remember (256 ^ N.of_nat k)%N as m.
    (* (n/256 mod m) * 256 + n mod 256 = n mod (256*m) *)
    rewrite (N.mod_mul_r n 256 m) by lia. lia.
Qed.

Lemma be64_length n : length (be64 n) = 8%nat.
Proof. apply be_bytes_length. Qed.

Lemma be_decode_be64 n : (n < two64N)%N -> be_decode (be64 n) = n.
Proof.
  intro H. unfold be64. rewrite be_decode_be_bytes. apply N.mod_small. exact H.
Qed.

Lemma be64_inj a b : (a < two64N)%N -> (b < two64N)%N -> be64 a = be64 b -> a = b.
Proof. intros Ha Hb E. rewrite <- (be_decode_be64 a Ha), <- (be_decode_be64 b Hb), E. reflexivity. Qed.

Lemma be_uint64_be64 n : (n < two64N)%N -> be_uint64 (be64 n) = Ok n.
Proof.
  intro H. unfold be_uint64. rewrite be64_length. cbn [Nat.ltb Nat.leb].
  rewrite firstn_all2 by (rewrite be64_length; lia). now rewrite be_decode_be64.
Qed.

(** * Keys *)
Definition valid_height (h : height) : Prop := (h_rev h < two64N)%N /\ (h_hgt h < two64N)%N.

Lemma height_bytes_length h : length (height_bytes h) = 16%nat.
Proof. unfold height_bytes. now rewrite app_length, !be64_length. Qed.

Lemma app_inj_length {A} (a b c d : list A) : length a = length c -> a ++ b = c ++ d -> a = c /\ b = d.
Proof.
  revert c; induction a as [|x a IH]; intros [|y c] L E; cbn in *; try discriminate; [auto|].
  inversion E; subst. destruct (IH c) as [-> ->]; auto.
Qed.

Lemma height_bytes_inj a b : valid_height a -> valid_height b -> height_bytes a = height_bytes b -> a = b.
Proof.
  intros [Ha1 Ha2] [Hb1 Hb2] E. unfold height_bytes in E.
  apply app_inj_length in E as [E1 E2]; [|now rewrite !be64_length].
  apply be64_inj in E1; auto. apply be64_inj in E2; auto.
  destruct a, b; cbn in *; congruence.
Qed.

Lemma cons_key_length h : length (cons_key h) = 32%nat.
Proof. unfold cons_key. rewrite app_length, height_bytes_length. reflexivity. Qed.
Lemma pt_key_length h : length (pt_key h) = 46%nat.
Proof. unfold pt_key. rewrite app_length, cons_key_length. reflexivity. Qed.
Lemma iter_key_length h : length (iter_key h) = 38%nat.
Proof. unfold iter_key. rewrite app_length, height_bytes_length. reflexivity. Qed.
Lemma client_key_length : length client_key = 11%nat.
Proof. reflexivity. Qed.

Ltac by_length :=
  let E := fresh in intro E; apply (f_equal (@List.length byte)) in E;
  rewrite ?cons_key_length, ?pt_key_length, ?iter_key_length, ?client_key_length in E; discriminate.

Lemma cons_pt_neq a b : cons_key a <> pt_key b. Proof. by_length. Qed.
Lemma cons_iter_neq a b : cons_key a <> iter_key b. Proof. by_length. Qed.
Lemma pt_iter_neq a b : pt_key a <> iter_key b. Proof. by_length. Qed.
Lemma cons_client_neq a : cons_key a <> client_key. Proof. by_length. Qed.
Lemma pt_client_neq a : pt_key a <> client_key. Proof. by_length. Qed.
Lemma iter_client_neq a : iter_key a <> client_key. Proof. by_length. Qed.

Lemma cons_key_inj a b : valid_height a -> valid_height b -> cons_key a = cons_key b -> a = b.
Proof. intros Ha Hb E. unfold cons_key in E. apply app_inv_head in E. now apply height_bytes_inj. Qed.
Lemma iter_key_inj a b : valid_height a -> valid_height b -> iter_key a = iter_key b -> a = b.
Proof. intros Ha Hb E. unfold iter_key in E. apply app_inv_head in E. now apply height_bytes_inj. Qed.
Lemma pt_key_inj a b : valid_height a -> valid_height b -> pt_key a = pt_key b -> a = b.
Proof. intros Ha Hb E. unfold pt_key in E. apply app_inv_tail in E. now apply cons_key_inj. Qed.

(** the iteration key decodes back to its height *)
Lemma skipn_length_app {A} (a b : list A) : skipn (length a) (a ++ b) = b.
Proof. induction a; cbn; auto. Qed.
Lemma firstn_length_app {A} (a b : list A) : firstn (length a) (a ++ b) = a.
Proof. induction a; cbn; [reflexivity | now f_equal]. Qed.

Lemma height_from_iter_key_iter_key h : valid_height h -> height_from_iter_key (iter_key h) = Ok h.
Proof.
  intros [H1 H2]. unfold height_from_iter_key, iter_key.
  rewrite skipn_length_app, height_bytes_length. cbn [Nat.ltb Nat.leb].
  unfold height_bytes.
  assert (F : firstn 8 (be64 (h_rev h) ++ be64 (h_hgt h)) = be64 (h_rev h))
    by (rewrite <- (be64_length (h_rev h)) at 1; apply firstn_length_app).
  assert (S : skipn 8 (be64 (h_rev h) ++ be64 (h_hgt h)) = be64 (h_hgt h))
    by (rewrite <- (be64_length (h_rev h)) at 1; apply skipn_length_app).
  rewrite F, S.
  rewrite !be_uint64_be64 by assumption. cbn. destruct h; reflexivity.
Qed.

(** * Height order *)
Lemma h_cmp_refl a : h_cmp a a = Eq.
Proof. unfold h_cmp. rewrite N.eqb_refl. apply N.compare_refl. Qed.

Lemma h_lte_refl a : h_lte a a = true.
Proof. unfold h_lte. now rewrite h_cmp_refl. Qed.

Definition h_le (a b : height) : Prop :=
  (h_rev a < h_rev b)%N \/ (h_rev a = h_rev b /\ (h_hgt a <= h_hgt b)%N).

Lemma h_lte_le a b : h_lte a b = true <-> h_le a b.
Proof.
  unfold h_lte, h_cmp, h_le. destruct (N.eqb_spec (h_rev a) (h_rev b)) as [E|N].
  - destruct (N.compare_spec (h_hgt a) (h_hgt b)); split; intro HH; try reflexivity; try discriminate; try lia.
  - destruct (N.compare_spec (h_rev a) (h_rev b)); split; intro HH; try reflexivity; try discriminate; try lia.
Qed.

Lemma h_gt_lt a b : h_gt a b = true <-> ((h_rev b < h_rev a)%N \/ (h_rev a = h_rev b /\ (h_hgt b < h_hgt a)%N)).
Proof.
  unfold h_gt, h_cmp. destruct (N.eqb_spec (h_rev a) (h_rev b)) as [E|N].
  - destruct (N.compare_spec (h_hgt a) (h_hgt b)); split; intro HH; try reflexivity; try discriminate; try lia.
  - destruct (N.compare_spec (h_rev a) (h_rev b)); split; intro HH; try reflexivity; try discriminate; try lia.
Qed.

Lemma h_lt_iff a b : h_lt a b = true <-> ((h_rev a < h_rev b)%N \/ (h_rev a = h_rev b /\ (h_hgt a < h_hgt b)%N)).
Proof.
  unfold h_lt, h_cmp. destruct (N.eqb_spec (h_rev a) (h_rev b)) as [E|N].
  - destruct (N.compare_spec (h_hgt a) (h_hgt b)); split; intro HH; try reflexivity; try discriminate; try lia.
  - destruct (N.compare_spec (h_rev a) (h_rev b)); split; intro HH; try reflexivity; try discriminate; try lia.
Qed.

Lemma h_lte_trans a b c : h_lte a b = true -> h_lte b c = true -> h_lte a c = true.
Proof. rewrite !h_lte_le. unfold h_le. lia. Qed.

Lemma h_gt_lte a b : h_gt a b = true -> h_lte b a = true.
Proof. rewrite h_gt_lt, h_lte_le. unfold h_le. lia. Qed.

Lemma h_lt_false_lte a b : h_lt a b = false -> h_lte b a = true.
Proof.
  intro H. apply h_lte_le. unfold h_le.
  destruct (h_lt a b) eqn:E; [discriminate|].
  assert (N : ~ ((h_rev a < h_rev b)%N \/ (h_rev a = h_rev b /\ (h_hgt a < h_hgt b)%N))) by (rewrite <- h_lt_iff; congruence).
  lia.
Qed.
