(** Injectivity and disjointness of the store keys (C19; used by C01-C05, C13).

    Every theorem here instantiates a generic lemma of Base/Fmt.v with a format
    term REGENERATED from the Go source (Gen/KeysGen.v); the side condition
    ([key_ok], [disjoint] ...) is a closed Boolean computed by [vm_compute].  A
    harmless rewrite of a Go key builder re-checks; a dropped separator or
    argument makes the side condition [false] and the proof fails with the
    offending term in hand. *)
From Teleport Require Import Base.Bytes Base.Outcome Base.Fmt Gen.KeysGen Model.Keys.
Local Open Scope N_scope.

(** * Valid chain names contain no separator *)

(** decidable side condition on the regenerated character class *)
Definition class_sep_free : bool := forallb not_sep host_IsValidID_class.

Lemma class_sep_free_ok : class_sep_free = true.
Proof. vm_compute. reflexivity. Qed.

Lemma in_class_not_sep c : in_class host_IsValidID_class c = true -> not_sep c = true.
Proof.
  unfold in_class. rewrite existsb_exists. intros [x [Hx E]]. apply byte_eqb_eq in E. subst x.
  pose proof class_sep_free_ok as H. unfold class_sep_free in H. rewrite forallb_forall in H. auto.
Qed.

Lemma default_identifier_validator_no_sep s lo hi : default_identifier_validator s lo hi = true -> no_sep s = true.
Proof.
  unfold default_identifier_validator. intro H.
  repeat (apply andb_true_iff in H as [H ?]). assumption.
Qed.

Lemma valid_chain_name_no_sep s : valid_chain_name s = true -> no_sep s = true.
Proof. apply default_identifier_validator_no_sep. Qed.

Lemma valid_chain_name_nonempty s : valid_chain_name s = true -> s <> [].
Proof.
  unfold valid_chain_name, default_identifier_validator. intro H.
  repeat (apply andb_true_iff in H as [H ?]). destruct s; [discriminate | discriminate].
Qed.

Lemma valid_chain_name_length s : valid_chain_name s = true ->
  host_ClientIdentifierValidator_min <= N.of_nat (length s) <= host_ClientIdentifierValidator_max.
Proof.
  unfold valid_chain_name, default_identifier_validator. intro H.
  repeat (apply andb_true_iff in H as [H ?]).
  split; apply N.leb_le; assumption.
Qed.

(** the class check alone also excludes the separator (the regenerated class is separator-free) *)
Lemma class_no_sep s : forallb (in_class host_IsValidID_class) s = true -> no_sep s = true.
Proof.
  unfold no_sep. rewrite !forallb_forall. intros H c Hc. apply in_class_not_sep. auto.
Qed.

(** * Argument signatures *)

Definition sg_triple : list kind := [KStr; KStr; KNum].
Definition sg_pair : list kind := [KStr; KStr].
Definition sg_height : list kind := [KNum; KNum].
Definition sg_name_height : list kind := [KStr; KNum; KNum].
Definition sg_hash_num : list kind := [KHash; KNum].

Lemma triple_args_ok t : valid_triple t = true -> args_ok sg_triple (triple_args t) = true.
Proof.
  unfold valid_triple. intro H. apply andb_true_iff in H as [H H3]. apply andb_true_iff in H as [H1 H2].
  cbn [args_ok sg_triple triple_args val_ok]. rewrite (valid_chain_name_no_sep _ H1), (valid_chain_name_no_sep _ H2), H3. reflexivity.
Qed.

Lemma height_args_ok h : valid_height h = true -> args_ok sg_height (height_args h) = true.
Proof.
  unfold valid_height. intro H. apply andb_true_iff in H as [H1 H2].
  cbn [args_ok sg_height height_args val_ok]. rewrite H1, H2. reflexivity.
Qed.

Lemma triple_args_inj t1 t2 : triple_args t1 = triple_args t2 -> t1 = t2.
Proof. destruct t1, t2; cbn. intros [= -> -> ->]. reflexivity. Qed.

Lemma height_args_inj h1 h2 : height_args h1 = height_args h2 -> h1 = h2.
Proof. destruct h1, h2; cbn. intros [= -> ->]. reflexivity. Qed.

(** * Injectivity of each key family *)

Lemma triple_key_inj f :
  key_ok f sg_triple = true ->
  forall t1 t2, valid_triple t1 = true -> valid_triple t2 = true ->
    render f (triple_args t1) = render f (triple_args t2) -> t1 = t2.
Proof.
  intros K t1 t2 V1 V2 E. apply triple_args_inj.
  apply (key_inj f sg_triple); auto using triple_args_ok.
Qed.

Theorem packet_receipt_key_inj : forall t1 t2,
  valid_triple t1 = true -> valid_triple t2 = true -> packet_receipt_key t1 = packet_receipt_key t2 -> t1 = t2.
Proof. apply triple_key_inj. vm_compute. reflexivity. Qed.

Theorem packet_ack_key_inj : forall t1 t2,
  valid_triple t1 = true -> valid_triple t2 = true -> packet_ack_key t1 = packet_ack_key t2 -> t1 = t2.
Proof. apply triple_key_inj. vm_compute. reflexivity. Qed.

Theorem packet_commitment_key_inj : forall t1 t2,
  valid_triple t1 = true -> valid_triple t2 = true -> packet_commitment_key t1 = packet_commitment_key t2 -> t1 = t2.
Proof. apply triple_key_inj. vm_compute. reflexivity. Qed.

Theorem packet_relayer_key_inj : forall t1 t2,
  valid_triple t1 = true -> valid_triple t2 = true -> packet_relayer_key t1 = packet_relayer_key t2 -> t1 = t2.
Proof. apply triple_key_inj. vm_compute. reflexivity. Qed.

Theorem next_seq_send_key_inj : forall s1 d1 s2 d2,
  valid_chain_name s1 = true -> valid_chain_name d1 = true -> valid_chain_name s2 = true -> valid_chain_name d2 = true ->
  next_seq_send_key s1 d1 = next_seq_send_key s2 d2 -> s1 = s2 /\ d1 = d2.
Proof.
  intros s1 d1 s2 d2 H1 H2 H3 H4 E.
  assert (X : [VS s1; VS d1] = [VS s2; VS d2]).
  { apply (key_inj host_NextSequenceSendKey sg_pair); [vm_compute; reflexivity | | | exact E];
      cbn; rewrite ?(valid_chain_name_no_sep _ H1), ?(valid_chain_name_no_sep _ H2),
                   ?(valid_chain_name_no_sep _ H3), ?(valid_chain_name_no_sep _ H4); reflexivity. }
  inversion X. auto.
Qed.

(** all uint64 revision numbers and heights *)
Theorem consensus_state_key_inj : forall h1 h2,
  valid_height h1 = true -> valid_height h2 = true -> consensus_state_key h1 = consensus_state_key h2 -> h1 = h2.
Proof.
  intros h1 h2 V1 V2 E. apply height_args_inj.
  apply (key_inj host_ConsensusStateKey sg_height); [vm_compute; reflexivity | | | exact E]; auto using height_args_ok.
Qed.

Theorem full_consensus_state_key_inj : forall n1 h1 n2 h2,
  valid_chain_name n1 = true -> valid_chain_name n2 = true -> valid_height h1 = true -> valid_height h2 = true ->
  full_consensus_state_key n1 h1 = full_consensus_state_key n2 h2 -> n1 = n2 /\ h1 = h2.
Proof.
  intros n1 h1 n2 h2 N1 N2 V1 V2 E.
  assert (X : VS n1 :: height_args h1 = VS n2 :: height_args h2).
  { apply (key_inj host_FullConsensusStateKey sg_name_height); [vm_compute; reflexivity | | | exact E];
      cbn [args_ok sg_name_height val_ok]; rewrite ?(valid_chain_name_no_sep _ N1), ?(valid_chain_name_no_sep _ N2);
      [apply (height_args_ok h1 V1) | apply (height_args_ok h2 V2)]. }
  inversion X as [[X1 X2 X3]]. split; [reflexivity|]. destruct h1, h2; cbn in *; congruence.
Qed.

Theorem full_client_state_key_inj : forall n1 n2,
  valid_chain_name n1 = true -> valid_chain_name n2 = true ->
  full_client_state_key n1 = full_client_state_key n2 -> n1 = n2.
Proof.
  intros n1 n2 N1 N2 E.
  assert (X : [VS n1] = [VS n2]).
  { apply (key_inj host_FullClientStateKey [KStr]); [vm_compute; reflexivity | | | exact E];
      cbn; rewrite ?(valid_chain_name_no_sep _ N1), ?(valid_chain_name_no_sep _ N2); reflexivity. }
  congruence.
Qed.

Theorem tm_processed_time_key_inj : forall h1 h2,
  valid_height h1 = true -> valid_height h2 = true -> tm_processed_time_key h1 = tm_processed_time_key h2 -> h1 = h2.
Proof.
  intros h1 h2 V1 V2 E. apply height_args_inj.
  apply (key_inj tm_ProcessedTimeKey sg_height); [vm_compute; reflexivity | | | exact E]; auto using height_args_ok.
Qed.

Theorem tm_iteration_key_inj : forall h1 h2,
  valid_height h1 = true -> valid_height h2 = true -> tm_iteration_key h1 = tm_iteration_key h2 -> h1 = h2.
Proof.
  intros h1 h2 V1 V2 E. apply height_args_inj.
  apply (key_inj tm_IterationKey sg_height); [vm_compute; reflexivity | | | exact E]; auto using height_args_ok.
Qed.

Theorem bsc_recent_signer_key_inj : forall h1 h2,
  valid_height h1 = true -> valid_height h2 = true -> bsc_recent_signer_key h1 = bsc_recent_signer_key h2 -> h1 = h2.
Proof.
  intros h1 h2 V1 V2 E. apply height_args_inj.
  apply (key_inj bsc_keyRecentSinger sg_height); [vm_compute; reflexivity | | | exact E]; auto using height_args_ok.
Qed.

Theorem eth_header_index_key_inj : forall x1 n1 x2 n2,
  length x1 = 32%nat -> length x2 = 32%nat -> n1 < two64 -> n2 < two64 ->
  eth_header_index_key x1 n1 = eth_header_index_key x2 n2 -> x1 = x2 /\ n1 = n2.
Proof.
  intros x1 n1 x2 n2 L1 L2 B1 B2 E.
  assert (X : [VS x1; VN n1] = [VS x2; VN n2]).
  { apply (key_inj eth_EthHeaderIndexKey sg_hash_num); [vm_compute; reflexivity | | | exact E];
      cbn [args_ok sg_hash_num val_ok]; rewrite ?L1, ?L2; cbn [Nat.eqb];
      apply N.ltb_lt in B1, B2; rewrite ?B1, ?B2; reflexivity. }
  inversion X. auto.
Qed.

Theorem eth_root_main_key_inj : forall x1 n1 x2 n2,
  length x1 = 32%nat -> length x2 = 32%nat -> n1 < two64 -> n2 < two64 ->
  eth_root_main_key x1 n1 = eth_root_main_key x2 n2 -> x1 = x2 /\ n1 = n2.
Proof.
  intros x1 n1 x2 n2 L1 L2 B1 B2 E.
  assert (X : [VS x1; VN n1] = [VS x2; VN n2]).
  { apply (key_inj eth_EthRootMainKey sg_hash_num); [vm_compute; reflexivity | | | exact E];
      cbn [args_ok sg_hash_num val_ok]; rewrite ?L1, ?L2; cbn [Nat.eqb];
      apply N.ltb_lt in B1, B2; rewrite ?B1, ?B2; reflexivity. }
  inversion X. auto.
Qed.

(** The EVM storage-proof keys are keccak256 of a pre-image; the PRE-IMAGES are
    injective (so equal proof keys mean equal triples or a keccak collision). *)
Theorem evm_proof_key_preimage_inj : forall t1 t2,
  valid_triple t1 = true -> valid_triple t2 = true ->
  (render bsc_ProofKeyConstructor_GetPacketCommitmentProofKey_preimage (triple_args t1) =
   render bsc_ProofKeyConstructor_GetPacketCommitmentProofKey_preimage (triple_args t2) -> t1 = t2) /\
  (render bsc_ProofKeyConstructor_GetAckProofKey_preimage (triple_args t1) =
   render bsc_ProofKeyConstructor_GetAckProofKey_preimage (triple_args t2) -> t1 = t2) /\
  (render eth_ProofKeyConstructor_GetPacketCommitmentProofKey_preimage (triple_args t1) =
   render eth_ProofKeyConstructor_GetPacketCommitmentProofKey_preimage (triple_args t2) -> t1 = t2) /\
  (render eth_ProofKeyConstructor_GetAckProofKey_preimage (triple_args t1) =
   render eth_ProofKeyConstructor_GetAckProofKey_preimage (triple_args t2) -> t1 = t2).
Proof.
  intros t1 t2 V1 V2. repeat split; apply triple_key_inj; auto; vm_compute; reflexivity.
Qed.

(** * Cross-family disjointness *)

(** The key families of the xibc store (full keys) with their signatures. *)
Definition key_families : list (fmt * list kind) :=
  [ (host_PacketReceiptKey, sg_triple);
    (host_PacketAcknowledgementKey, sg_triple);
    (host_PacketCommitmentKey, sg_triple);
    (host_PacketRelayerKey, sg_triple);
    (host_NextSequenceSendKey, sg_pair);
    (host_FullClientStateKey, [KStr]);
    (host_FullConsensusStateKey, sg_name_height);
    (chain_name_fmt, []);
    (relayer_fmt, [KRaw]) ].

(** The key families inside one client's prefix store. *)
Definition client_store_families : list (fmt * list kind) :=
  [ (host_ClientStateKey, []);
    (host_ConsensusStateKey, sg_height);
    (tm_ProcessedTimeKey, sg_height);
    (tm_IterationKey, sg_height);
    (bsc_keyRecentSinger, sg_height);
    ([Lit bsc_PrefixPendingValidators], []);
    (eth_EthHeaderIndexKey, sg_hash_num);
    (eth_EthRootMainKey, sg_hash_num) ].

Definition disjoint (f g : fmt) : bool := heads_apart f g || apart f g.

Lemma disjoint_sound f g a b :
  disjoint f g = true -> valid f a = true -> valid g b = true -> render f a <> render g b.
Proof.
  unfold disjoint. intro H. apply orb_true_iff in H as [H|H]; intros Va Vb.
  - apply heads_apart_neq. exact H.
  - apply apart_sound; assumption.
Qed.

Fixpoint all_pairs_disjoint (l : list (fmt * list kind)) : bool :=
  match l with
  | [] => true
  | x :: r => forallb (fun y => disjoint (fst x) (fst y) && disjoint (fst y) (fst x)) r && all_pairs_disjoint r
  end.

Definition families_ok (l : list (fmt * list kind)) : bool :=
  forallb (fun x => typed (fst x) (snd x)) l && all_pairs_disjoint l.

Lemma all_pairs_disjoint_nth l : all_pairs_disjoint l = true ->
  forall i j x y, i <> j -> nth_error l i = Some x -> nth_error l j = Some y -> disjoint (fst x) (fst y) = true.
Proof.
  induction l as [|z l IH]; intros H i j x y Nij Hi Hj; [destruct i; discriminate|].
  cbn in H. apply andb_true_iff in H as [H1 H2]. rewrite forallb_forall in H1.
  destruct i as [|i], j as [|j]; cbn in Hi, Hj.
  - congruence.
  - inversion Hi; subst. apply nth_error_In in Hj. apply H1 in Hj. apply andb_true_iff in Hj. tauto.
  - inversion Hj; subst. apply nth_error_In in Hi. apply H1 in Hi. apply andb_true_iff in Hi. tauto.
  - apply (IH H2 i j x y); auto.
Qed.

Lemma families_disjoint_generic l : families_ok l = true ->
  forall i j f sf g sg a b, i <> j ->
    nth_error l i = Some (f, sf) -> nth_error l j = Some (g, sg) ->
    args_ok sf a = true -> args_ok sg b = true -> render f a <> render g b.
Proof.
  unfold families_ok. intro H. apply andb_true_iff in H as [T D]. rewrite forallb_forall in T.
  intros i j f sf g sg a b Nij Hi Hj Aa Ab.
  apply disjoint_sound.
  - apply (all_pairs_disjoint_nth l D i j (f, sf) (g, sg)); assumption.
  - apply (typed_valid f sf); [apply (T (f, sf)); eapply nth_error_In; eauto | exact Aa].
  - apply (typed_valid g sg); [apply (T (g, sg)); eapply nth_error_In; eauto | exact Ab].
Qed.

(** No key of one family of the xibc store ever equals a key of another family
    (receipts / acks / commitments / relayer / nextSequenceSend / client states /
    consensus states / chainName / relayers), for all valid arguments. *)
Theorem key_families_disjoint : forall i j f sf g sg a b, i <> j ->
  nth_error key_families i = Some (f, sf) -> nth_error key_families j = Some (g, sg) ->
  args_ok sf a = true -> args_ok sg b = true -> render f a <> render g b.
Proof. apply families_disjoint_generic. vm_compute. reflexivity. Qed.

(** Same inside a client's prefix store (client state / consensus state /
    processed time / iteration key / BSC signers, pending validators / ETH header
    index, main roots). *)
Theorem client_store_families_disjoint : forall i j f sf g sg a b, i <> j ->
  nth_error client_store_families i = Some (f, sf) -> nth_error client_store_families j = Some (g, sg) ->
  args_ok sf a = true -> args_ok sg b = true -> render f a <> render g b.
Proof. apply families_disjoint_generic. vm_compute. reflexivity. Qed.

(** The packet-core corollary in named form. *)
Corollary packet_keys_disjoint : forall t1 t2 s d,
  valid_triple t1 = true -> valid_triple t2 = true -> valid_chain_name s = true -> valid_chain_name d = true ->
  packet_receipt_key t1 <> packet_ack_key t2 /\
  packet_receipt_key t1 <> packet_commitment_key t2 /\
  packet_receipt_key t1 <> packet_relayer_key t2 /\
  packet_ack_key t1 <> packet_commitment_key t2 /\
  packet_ack_key t1 <> packet_relayer_key t2 /\
  packet_commitment_key t1 <> packet_relayer_key t2 /\
  next_seq_send_key s d <> packet_receipt_key t1 /\
  next_seq_send_key s d <> packet_ack_key t1 /\
  next_seq_send_key s d <> packet_commitment_key t1 /\
  next_seq_send_key s d <> packet_relayer_key t1.
Proof.
  intros t1 t2 s d V1 V2 Vs Vd.
  pose proof (triple_args_ok t1 V1) as A1. pose proof (triple_args_ok t2 V2) as A2.
  assert (Ap : args_ok sg_pair [VS s; VS d] = true)
    by (cbn; rewrite (valid_chain_name_no_sep _ Vs), (valid_chain_name_no_sep _ Vd); reflexivity).
  unfold packet_receipt_key, packet_ack_key, packet_commitment_key, packet_relayer_key, next_seq_send_key.
  repeat split.
  - apply (key_families_disjoint 0 1 _ sg_triple _ sg_triple); auto.
  - apply (key_families_disjoint 0 2 _ sg_triple _ sg_triple); auto.
  - apply (key_families_disjoint 0 3 _ sg_triple _ sg_triple); auto.
  - apply (key_families_disjoint 1 2 _ sg_triple _ sg_triple); auto.
  - apply (key_families_disjoint 1 3 _ sg_triple _ sg_triple); auto.
  - apply (key_families_disjoint 2 3 _ sg_triple _ sg_triple); auto.
  - apply (key_families_disjoint 4 0 _ sg_pair _ sg_triple); auto.
  - apply (key_families_disjoint 4 1 _ sg_pair _ sg_triple); auto.
  - apply (key_families_disjoint 4 2 _ sg_pair _ sg_triple); auto.
  - apply (key_families_disjoint 4 3 _ sg_pair _ sg_triple); auto.
Qed.

(** * Prefix iterators see exactly their own family *)

(** The literal prefixes handed to [sdk.KVStorePrefixIterator] on the xibc store,
    each with the indices (in [key_families]) of the families it is meant to select. *)
Definition iterator_prefixes : list (bytes * list nat) :=
  [ (host_KeyPacketReceiptPrefix, [0%nat]);
    (host_KeyPacketAckPrefix, [1%nat]);
    (host_KeyPacketCommitmentPrefix, [2%nat]);
    (host_KeyNextSeqSendPrefix, [4%nat]);
    (host_KeyClientStorePrefix, [5%nat; 6%nat]);
    (clienttypes_KeyRelayers, [8%nat]) ].

Fixpoint number_from {A} (i : nat) (l : list A) : list (nat * A) :=
  match l with [] => [] | x :: r => (i, x) :: number_from (S i) r end.

(** for every prefix P and family f: P selects every key of f when f is one of
    its families, and no key of f otherwise *)
Definition prefix_ok (p : bytes * list nat) : bool :=
  forallb (fun nf => if existsb (Nat.eqb (fst nf)) (snd p)
                     then is_prefix (fst p) (head_lit (fst (snd nf)))
                     else prefix_apart (fst p) (fst (snd nf)))
          (number_from 0 key_families).

Definition iterator_prefixes_ok : bool := forallb prefix_ok iterator_prefixes.

Lemma is_prefix_app_r p s t : is_prefix p s = true -> is_prefix p (s ++ t) = true.
Proof.
  rewrite !is_prefix_spec. intros [u ->]. exists (u ++ t). rewrite app_assoc. reflexivity.
Qed.

Lemma number_from_nth {A} (l : list A) i0 i x : nth_error l i = Some x -> In ((i0 + i)%nat, x) (number_from i0 l).
Proof.
  revert i0 i; induction l as [|y l IH]; intros i0 [|i]; cbn; try discriminate.
  - intros [= ->]. left. f_equal. lia.
  - intro H. right. replace (i0 + S i)%nat with (S i0 + i)%nat by lia. auto.
Qed.

Theorem iterator_prefix_exact : forall p own i f sf a,
  In (p, own) iterator_prefixes -> nth_error key_families i = Some (f, sf) ->
  is_prefix p (render f a) = if existsb (Nat.eqb i) own then true else false.
Proof.
  assert (OK : iterator_prefixes_ok = true) by (vm_compute; reflexivity).
  intros p own i f sf a Hp Hi. unfold iterator_prefixes_ok in OK. rewrite forallb_forall in OK.
  specialize (OK _ Hp). unfold prefix_ok in OK. rewrite forallb_forall in OK.
  specialize (OK (i, (f, sf)) (number_from_nth key_families 0 i (f, sf) Hi)). cbn [fst snd] in OK.
  destruct (existsb (Nat.eqb i) own).
  - destruct (head_lit_prefix f a) as [t ->]. apply is_prefix_app_r. exact OK.
  - apply prefix_apart_sound. exact OK.
Qed.
