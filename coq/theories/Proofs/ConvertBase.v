(** C11 — basic lemmas about the conversion model: association lists, the bank and EVM primitives
    (what each one changes and what it leaves alone). *)
From Teleport Require Import Base.Bytes Base.Outcome Model.Convert.
Local Open Scope Z_scope.

(** * Association lists *)
Section AListLemmas.
  Context {K V : Type} (keqb : K -> K -> bool) (dflt : V).
  Hypothesis keqb_eq : forall a b, keqb a b = true <-> a = b.

  Lemma keqb_refl a : keqb a a = true.
  Proof. apply keqb_eq; reflexivity. Qed.

  Lemma keqb_neq a b : a <> b -> keqb a b = false.
  Proof. intro N. destruct (keqb a b) eqn:E; [apply keqb_eq in E; contradiction | reflexivity]. Qed.

  Lemma aget_aset_same m k v : aget keqb dflt (aset m k v) k = v.
  Proof. unfold aset; cbn. rewrite keqb_refl. reflexivity. Qed.

  Lemma aget_aset_other m k k' v : k <> k' -> aget keqb dflt (aset m k v) k' = aget keqb dflt m k'.
  Proof. intro N. unfold aset; cbn. rewrite keqb_neq by exact N. reflexivity. Qed.

  Lemma afind_aset_same (m : list (K * V)) k v : afind keqb (aset m k v) k = Some v.
  Proof. unfold aset; cbn. rewrite keqb_refl. reflexivity. Qed.

  Lemma afind_aset_other (m : list (K * V)) k k' v : k <> k' -> afind keqb (aset m k v) k' = afind keqb m k'.
  Proof. intro N. unfold aset; cbn. rewrite keqb_neq by exact N. reflexivity. Qed.

  Lemma aget_adel_same m k : aget keqb dflt (adel keqb m k) k = dflt.
  Proof.
    induction m as [|[k' v] m IH]; cbn; [reflexivity|].
    destruct (keqb k' k) eqn:E; [exact IH|]. cbn. rewrite E. exact IH.
  Qed.

  Lemma aget_adel_other m k k' : k <> k' -> aget keqb dflt (adel keqb m k) k' = aget keqb dflt m k'.
  Proof.
    intro N. induction m as [|[k0 v] m IH]; cbn; [reflexivity|].
    destruct (keqb k0 k) eqn:E.
    - apply keqb_eq in E; subst k0. rewrite keqb_neq by exact N. exact IH.
    - cbn. destruct (keqb k0 k'); [reflexivity | exact IH].
  Qed.

  Lemma afind_adel_same (m : list (K * V)) k : afind keqb (adel keqb m k) k = None.
  Proof.
    induction m as [|[k' v] m IH]; cbn; [reflexivity|].
    destruct (keqb k' k) eqn:E; [exact IH|]. cbn. rewrite E. exact IH.
  Qed.

  Lemma afind_adel_other (m : list (K * V)) k k' : k <> k' -> afind keqb (adel keqb m k) k' = afind keqb m k'.
  Proof.
    intro N. induction m as [|[k0 v] m IH]; cbn; [reflexivity|].
    destruct (keqb k0 k) eqn:E.
    - apply keqb_eq in E; subst k0. rewrite keqb_neq by exact N. exact IH.
    - cbn. destruct (keqb k0 k'); [reflexivity | exact IH].
  Qed.

  Lemma afind_In (m : list (K * V)) k v : afind keqb m k = Some v -> In (k, v) m.
  Proof.
    induction m as [|[k' v'] m IH]; cbn; [discriminate|].
    destruct (keqb k' k) eqn:E.
    - intro H; inversion H; subst. apply keqb_eq in E; subst. left; reflexivity.
    - intro H; right; apply IH; exact H.
  Qed.

  Lemma In_afind (m : list (K * V)) k v : NoDup (map fst m) -> In (k, v) m -> afind keqb m k = Some v.
  Proof.
    induction m as [|[k' v'] m IH]; cbn; [intros _ []|].
    intros ND [H|H].
    - inversion H; subst. rewrite keqb_refl. reflexivity.
    - inversion ND as [|? ? NI ND']; subst.
      destruct (keqb k' k) eqn:E.
      + apply keqb_eq in E; subst k'. exfalso; apply NI. change k with (fst (k, v)). apply in_map; exact H.
      + apply IH; assumption.
  Qed.

  Lemma adel_In (m : list (K * V)) k k' v : In (k', v) (adel keqb m k) -> In (k', v) m /\ k' <> k.
  Proof.
    induction m as [|[k0 v0] m IH]; cbn; [intros []|].
    destruct (keqb k0 k) eqn:E.
    - intro H. destruct (IH H) as [H1 H2]. split; [right; exact H1 | exact H2].
    - intros [H|H].
      + inversion H; subst. split; [left; reflexivity|]. intro; subst. rewrite keqb_refl in E; discriminate.
      + destruct (IH H) as [H1 H2]. split; [right; exact H1 | exact H2].
  Qed.

  Lemma In_adel (m : list (K * V)) k k' v : In (k', v) m -> k' <> k -> In (k', v) (adel keqb m k).
  Proof.
    induction m as [|[k0 v0] m IH]; cbn; [intros []|].
    intros [H|H] N.
    - inversion H; subst. rewrite keqb_neq by exact N. left; reflexivity.
    - destruct (keqb k0 k); [apply IH; assumption | right; apply IH; assumption].
  Qed.

  Lemma adel_NoDup (m : list (K * V)) k : NoDup (map fst m) -> NoDup (map fst (adel keqb m k)).
  Proof.
    induction m as [|[k0 v0] m IH]; cbn; [intros; constructor|].
    intro ND; inversion ND as [|? ? NI ND']; subst.
    destruct (keqb k0 k); [apply IH; exact ND'|]. cbn. constructor; [|apply IH; exact ND'].
    intro H. apply NI. apply in_map_iff in H as [[k1 v1] [E1 H1]]. cbn in E1; subst k1.
    apply adel_In in H1 as [H1 _]. change k0 with (fst (k0, v1)). apply in_map; exact H1.
  Qed.

  Lemma aupd_keys (m : list (K * V)) k f : map fst (aupd keqb m k f) = map fst m.
  Proof.
    induction m as [|[k0 v0] m IH]; cbn; [reflexivity|].
    destruct (keqb k0 k); cbn; [reflexivity | rewrite IH; reflexivity].
  Qed.

  Lemma aupd_In (m : list (K * V)) k f k' v' :
    In (k', v') (aupd keqb m k f) -> exists v, In (k', v) m /\ (v' = v \/ (k' = k /\ v' = f v)).
  Proof.
    induction m as [|[k0 v0] m IH]; cbn; [intros []|].
    destruct (keqb k0 k) eqn:E.
    - intros [H|H].
      + inversion H; subst. apply keqb_eq in E; subst. exists v0. split; [left; reflexivity | right; split; reflexivity].
      + exists v'. split; [right; exact H | left; reflexivity].
    - intros [H|H].
      + inversion H; subst. exists v'. split; [left; reflexivity | left; reflexivity].
      + destruct (IH H) as [v [H1 H2]]. exists v. split; [right; exact H1 | exact H2].
  Qed.

  Lemma afind_aupd_other (m : list (K * V)) k f k' : k <> k' -> afind keqb (aupd keqb m k f) k' = afind keqb m k'.
  Proof.
    intro N. induction m as [|[k0 v0] m IH]; cbn; [reflexivity|].
    destruct (keqb k0 k) eqn:E; cbn.
    - apply keqb_eq in E; subst k0. rewrite keqb_neq by exact N. reflexivity.
    - destruct (keqb k0 k'); [reflexivity | exact IH].
  Qed.

  Lemma afind_aupd_same (m : list (K * V)) k f : afind keqb (aupd keqb m k f) k = option_map f (afind keqb m k).
  Proof.
    induction m as [|[k0 v0] m IH]; cbn; [reflexivity|].
    destruct (keqb k0 k) eqn:E; cbn; rewrite E; [reflexivity | exact IH].
  Qed.
End AListLemmas.

Lemma bkey_eqb_eq (a b : bkey) : bkey_eqb a b = true <-> a = b.
Proof.
  destruct a as [a1 a2], b as [b1 b2]; unfold bkey_eqb; cbn. rewrite andb_true_iff, Z.eqb_eq, bytes_eqb_eq.
  split; [intros [-> ->]; reflexivity | intro H; inversion H; split; reflexivity].
Qed.

Lemma zget_zset_same m k v : zget (zset m k v) k = v.
Proof. apply (aget_aset_same Z.eqb 0 Z.eqb_eq). Qed.
Lemma zget_zset_other m k k' v : k <> k' -> zget (zset m k v) k' = zget m k'.
Proof. apply (aget_aset_other Z.eqb 0 Z.eqb_eq). Qed.
Lemma zget_zset m k k' v : zget (zset m k v) k' = if k =? k' then v else zget m k'.
Proof.
  destruct (Z.eqb_spec k k') as [->|N]; [apply zget_zset_same | apply zget_zset_other; exact N].
Qed.

Lemma bget_bset m a d v a' d' :
  bget (bset m a d v) a' d' = if (a =? a') && bytes_eqb d d' then v else bget m a' d'.
Proof.
  unfold bget, bset. destruct ((a =? a') && bytes_eqb d d') eqn:E.
  - apply andb_true_iff in E as [E1 E2]. apply Z.eqb_eq in E1. apply bytes_eqb_eq in E2. subst.
    apply (aget_aset_same bkey_eqb 0 bkey_eqb_eq).
  - apply (aget_aset_other bkey_eqb 0 bkey_eqb_eq). intro H; inversion H; subst.
    rewrite Z.eqb_refl, bytes_eqb_refl in E; discriminate.
Qed.

Lemma sget_sset m d v d' : sget (sset m d v) d' = if bytes_eqb d d' then v else sget m d'.
Proof.
  unfold sget, sset. destruct (bytes_eqb d d') eqn:E.
  - apply bytes_eqb_eq in E; subst. apply (aget_aset_same bytes_eqb 0 bytes_eqb_eq).
  - apply (aget_aset_other bytes_eqb 0 bytes_eqb_eq). apply bytes_eqb_neq; exact E.
Qed.

Lemma zmem_In a l : zmem a l = true <-> In a l.
Proof.
  induction l as [|x l IH]; cbn; [split; [discriminate | intros []]|].
  rewrite orb_true_iff, Z.eqb_eq, IH. tauto.
Qed.
