(** Monitor soundness: the executable monitors of Model/AdapterCheck.v (evaluated on the IMPLEMENTATION's
    traces by every run) accept what the MODEL does — so a monitor failure on a trace on which model and
    implementation agree is impossible, and the monitors state consequences of the theorems, not something
    stronger.  Proved: the pure-hook monitor (kinds 11-14) and the comparison (kinds 1-2) on every receipt;
    of the application monitor the supply part (kind 44) and the atomicity part (kind 41) on every
    transaction; the attribution part (kind 42) is in Proofs/AdapterCheckAttr.v.  NOT proved: kind 43 (exact
    effect on the modelled native state) — validated on every run instead (a model step that failed it
    would show as a monitor failure on a trace where model = implementation). *)
From Teleport Require Import Base.Bytes Base.Outcome Model.Adapter Model.AdapterEvm Model.AdapterNative Model.AdapterCheck
  Proofs.Adapter Proofs.AdapterAbi Proofs.AdapterFields Proofs.AdapterNative.
From Coq Require Import Lia ZArith.
Local Open Scope Z_scope.

(** ** reflexivity of the comparisons *)
Lemma list_eqb_refl {A} (eqb : A -> A -> bool) : (forall x, eqb x x = true) -> forall l, list_eqb eqb l l = true.
Proof. intros R. induction l as [|x l IH]; cbn; [reflexivity|]. rewrite R, IH. reflexivity. Qed.

Lemma pair_eqb_refl {A B} (ea : A -> A -> bool) (eb : B -> B -> bool) :
  (forall x, ea x x = true) -> (forall x, eb x x = true) -> forall p, pair_eqb ea eb p p = true.
Proof. intros Ra Rb [a b]. unfold pair_eqb. cbn. rewrite Ra, Rb. reflexivity. Qed.

Lemma assoc_equiv_refl {K V} (keqb : K -> K -> bool) (veqb : V -> V -> bool) d :
  (forall v, veqb v v = true) -> forall m, assoc_equiv keqb veqb d m m = true.
Proof. intros R m. unfold assoc_equiv. apply forallb_forall. intros k _. apply R. Qed.

Lemma msg_eqb_refl m : msg_eqb m m = true.
Proof.
  destruct m; cbn; rewrite ?bytes_eqb_refl, ?Z.eqb_refl, ?N.eqb_refl; try reflexivity.
  cbn. apply list_eqb_refl. apply pair_eqb_refl; apply Z.eqb_refl.
Qed.

Lemma opt_list_eqb_refl l : opt_list_eqb l l = true.
Proof. apply list_eqb_refl. apply Z.eqb_refl. Qed.

Lemma native_eqb_refl s : native_eqb s s = true.
Proof.
  unfold native_eqb.
  rewrite (assoc_equiv_refl bytes_eqb Z.eqb 0 Z.eqb_refl), Z.eqb_refl, (list_eqb_refl Z.eqb Z.eqb_refl),
    (assoc_equiv_refl dkey_eqb Z.eqb 0 Z.eqb_refl), (assoc_equiv_refl dkey_eqb opt_list_eqb [] opt_list_eqb_refl),
    (assoc_equiv_refl rkey_eqb opt_list_eqb [] opt_list_eqb_refl).
  cbn. apply assoc_equiv_refl. apply list_eqb_refl. apply pair_eqb_refl; apply Z.eqb_refl.
Qed.

Lemma unchanged_refl s : unchanged s s = true.
Proof. unfold unchanged, ctr_eqb. rewrite native_eqb_refl. apply assoc_equiv_refl. apply N.eqb_refl. Qed.

(** ** application monitor on the model's transaction step: supply (44) and atomicity (41) *)
Section AppSound.
  Variable e : envinfo.
  Variable st : astep.

  Let ex := lift_exec (exec_native (resolve_of (a_vres st)) (e_bonded e) (e_notbonded e) (e_distr e) (e_max e)).

  Lemma lift_exec_conserves m s s' :
    ex m s = Ok s' -> n_supply (o_n s') = n_supply (o_n s) /\ total_bal (o_n s') = total_bal (o_n s).
  Proof.
    unfold ex, lift_exec.
    destruct (exec_native _ _ _ _ _ m (o_n s)) as [n'| |] eqn:E; try discriminate.
    intro H; inversion H; subst; cbn [o_n]. eapply exec_native_conserves; eauto.
  Qed.

  (** the model's transaction step never changes supply or the sum of balances *)
  Lemma model_tx_conserves :
    n_supply (o_n (snd (fst (model_tx e st)))) = n_supply (o_n (a_pre st)) /\
    total_bal (o_n (snd (fst (model_tx e st)))) = total_bal (o_n (a_pre st)).
  Proof.
    unfold model_tx. destruct (fr_ok (run_tx (a_tx st))); cbn [negb]; [|split; reflexivity].
    fold ex.
    set (evm := fun s : ostate => {| o_n := o_n s; o_ctr := add_ctrs (fr_ctr (run_tx (a_tx st))) (o_ctr s) |}).
    unfold deliver. rewrite multi_hook_char.
    destruct (run_items ostate ex _ (evm (a_pre st))) as [[u| |] s1] eqn:R; cbn [fst snd]; try (split; reflexivity).
    pose (P := fun s : ostate => n_supply (o_n s) = n_supply (o_n (a_pre st)) /\ total_bal (o_n s) = total_bal (o_n (a_pre st))).
    assert (HP : P s1).
    { eapply (run_items_invariant ex P); [| |exact R].
      - intros m s s' E [H1 H2]. destruct (lift_exec_conserves m s s' E) as [H3 H4]. split; congruence.
      - split; reflexivity. }
    exact HP.
  Qed.

  (** a transaction the model does not class "ok" leaves the state as it was *)
  Lemma model_tx_atomic : fst (fst (model_tx e st)) <> 0%nat -> snd (fst (model_tx e st)) = a_pre st.
  Proof.
    unfold model_tx. destruct (fr_ok (run_tx (a_tx st))); cbn [negb]; [|reflexivity]. fold ex.
    match goal with |- context [deliver ?x ?f ?l ?s] => destruct (deliver x f l s) as [[u| |] s1] eqn:D end; cbn [fst snd].
    - intro N; exfalso; apply N; reflexivity.
    - intros _. eapply deliver_fail; [exact D | discriminate].
    - intros _. eapply deliver_fail; [exact D | discriminate].
  Qed.

  (** the step as the model would have it observed *)
  Definition model_step : astep :=
    {| a_kind := 0; a_tx := a_tx st; a_vres := a_vres st; a_pre := a_pre st;
       a_post := snd (fst (model_tx e st)); a_class := fst (fst (model_tx e st)); a_logs := snd (model_tx e st);
       a_halt := false; a_other_ok := true |}.

  Theorem app_monitor_sound_supply_atomicity :
    total_bal (o_n (a_pre st)) = n_supply (o_n (a_pre st)) ->
    supply_ok (o_n (a_pre model_step)) (o_n (a_post model_step)) = true /\
    (a_class model_step <> 0%nat -> unchanged (a_pre model_step) (a_post model_step) = true).
  Proof.
    intro B. cbn [model_step a_pre a_post a_class]. destruct model_tx_conserves as [H1 H2]. split.
    - unfold supply_ok. rewrite H1, H2, B, !Z.eqb_refl. reflexivity.
    - intro N. rewrite (model_tx_atomic N). apply unchanged_refl.
  Qed.
End AppSound.

(** ** pure-hook monitor and comparison on the model's own output *)

Lemma matching_is_match h l : matching h l = is_match h l.
Proof. reflexivity. Qed.

(** the first field of every decoded event is the low 20 bytes of the first data word *)
Definition ev_first (ev : event) : bytes :=
  match ev with
  | EDelegated d _ _ | EUndelegated d _ _ | ERedelegated d _ _ _ | EWithdrew d _ | EVoted d _ _ | EVotedW d _ _ => d
  end.

Lemma unpack_first k d ev : unpack_event k d = Some ev -> exists w0, word_at d 0 = Some w0 /\ ev_first ev = dec_addr w0.
Proof.
  unfold unpack_event. destruct (word_at d 0) as [w0|] eqn:W.
  - intro H. exists w0. split; [reflexivity|].
    destruct k;
      repeat match type of H with
             | match ?x with _ => _ end = Some _ => destruct x; try discriminate
             end; inversion H; reflexivity.
  - destruct k; discriminate.
Qed.

Lemma item_signer_first ev m : item_of_event ev = Ok m -> msg_signer m = ev_first ev.
Proof.
  unfold item_of_event. destruct ev as [d v [a|] | d v [a|] | d s t [a|] | d v | d p o | d p os]; cbn [msg_of_event obind];
    try discriminate;
    try (destruct (validate_basic _); [intros [= <-]; reflexivity | discriminate]).
  destruct os; [discriminate|]. cbn [obind]. destruct (validate_basic _); [intros [= <-]; reflexivity | discriminate].
Qed.

Lemma scale_signer m : msg_signer (scale_msg m) = msg_signer m.
Proof. destruct m; reflexivity. Qed.

Lemma word0_low20 d w0 : word_at d 0 = Some w0 -> dec_addr w0 = firstn 20 (skipn 12 d).
Proof.
  unfold word_at. destruct (0 + 32 <=? blen d)%N; [|discriminate]. intros [= <-].
  unfold dec_addr, slice. change (N.to_nat 32) with 32%nat. change (N.to_nat 0) with 0%nat.
  change (skipn 0 d) with d. rewrite skipn_firstn_comm. reflexivity.
Qed.

(** a message submitted for a log carries the log's first data word as signer *)
Lemma classified_signer h l m :
  classify h l = Some (Ok m) -> (32 <= length (l_data l))%nat -> msg_signer m = firstn 20 (skipn 12 (l_data l)).
Proof.
  unfold classify. destruct (bytes_eqb (l_addr l) (sys_addr h)); [|discriminate].
  destruct (l_topics l) as [|t0 ts]; [discriminate|]. destruct (handler_of h t0) as [k|]; [|discriminate].
  unfold parse_log. destruct (l_data l) as [|b0 d'] eqn:D; [cbn; lia|]. intros H L.
  destruct (unpack_event k (b0 :: d')) as [ev|] eqn:U; [|discriminate].
  destruct (Nat.eqb (length (t0 :: ts)) 1); [|discriminate].
  inversion H as [H']. rewrite (item_signer_first _ _ H').
  destruct (unpack_first _ _ _ U) as [w0 [W ->]]. apply word0_low20; exact W.
Qed.

Section HookSound.
  Variable fail : option nat.
  Let exec := rec_exec fail.

  (** one hook: the recorded messages extend the state by one message per log of a PREFIX of the matching
      logs, each the message of that log; on success the prefix is everything *)
  Lemma run_one_hook h : forall logs s r ms,
    run_items (list msg) exec (filter_map (classify h) logs) s = (r, ms) ->
    exists ml1 rest ms1,
      ms = s ++ ms1 /\ filter (matching h) logs = ml1 ++ rest /\
      Forall2 (fun l m => classify h l = Some (Ok m)) ml1 ms1 /\ (r = Ok tt -> rest = []).
  Proof.
    induction logs as [|l logs IH]; intros s r ms H.
    - cbn in H. inversion H; subst. exists [], [], []. rewrite app_nil_r. repeat split; constructor.
    - cbn [filter_map filter] in *. rewrite matching_is_match.
      destruct (classify h l) as [[m| |]|] eqn:C.
      + rewrite (classify_some h l (Ok m) C) by discriminate.
        cbn [run_items] in H. unfold exec, rec_exec in H.
        assert (Stop : forall x, (x, s) = (r, ms) -> x <> Ok tt ->
                  exists ml1 rest ms1, ms = s ++ ms1 /\ l :: filter (matching h) logs = ml1 ++ rest /\
                    Forall2 (fun l m => classify h l = Some (Ok m)) ml1 ms1 /\ (r = Ok tt -> rest = [])).
        { intros x E N. inversion E; subst. exists [], (l :: filter (matching h) logs), [].
          rewrite app_nil_r. repeat split; [constructor | intro; contradiction]. }
        destruct fail as [k|].
        * destruct (Nat.eqb k (length s)); [apply (Stop Err H); discriminate|].
          destruct (IH _ _ _ H) as [ml1 [rest [ms1 [E1 [E2 [F R]]]]]].
          exists (l :: ml1), rest, (m :: ms1). rewrite E2. repeat split.
          -- rewrite E1, <- app_assoc. reflexivity.
          -- constructor; [exact C | exact F].
          -- exact R.
        * destruct (IH _ _ _ H) as [ml1 [rest [ms1 [E1 [E2 [F R]]]]]].
          exists (l :: ml1), rest, (m :: ms1). rewrite E2. repeat split.
          -- rewrite E1, <- app_assoc. reflexivity.
          -- constructor; [exact C | exact F].
          -- exact R.
      + (* the handler fails before the router *)
        cbn [run_items] in H. inversion H; subst.
        exists [], (filter (is_match h) (l :: logs)), []. rewrite app_nil_r.
        split; [reflexivity|]. split; [cbn [filter app]; destruct (is_match h l); reflexivity|].
        split; [constructor | discriminate].
      + cbn [run_items] in H. inversion H; subst.
        exists [], (filter (is_match h) (l :: logs)), []. rewrite app_nil_r.
        split; [reflexivity|]. split; [cbn [filter app]; destruct (is_match h l); reflexivity|].
        split; [constructor | discriminate].
      + rewrite (classify_none h l C). apply IH; exact H.
  Qed.

  (** any list of hooks *)
  Lemma Forall2_pair h (ml : list log) (ms : list msg) :
    Forall2 (fun l m => classify h l = Some (Ok m)) ml ms ->
    Forall2 (fun (hl : hkind * log) m => classify (fst hl) (snd hl) = Some (Ok m)) (map (pair h) ml) ms.
  Proof. induction 1; cbn; constructor; assumption. Qed.

  (** any list of hooks *)
  Lemma run_hooks hs : forall logs s r ms,
    run_items (list msg) exec (flat_map (fun h => filter_map (classify h) logs) hs) s = (r, ms) ->
    exists ml1 rest ms1,
      ms = s ++ ms1 /\ flat_map (fun h => map (pair h) (filter (matching h) logs)) hs = ml1 ++ rest /\
      Forall2 (fun (hl : hkind * log) m => classify (fst hl) (snd hl) = Some (Ok m)) ml1 ms1 /\ (r = Ok tt -> rest = []).
  Proof.
    induction hs as [|h hs IH]; intros logs s r ms H.
    - cbn in H. inversion H; subst. exists [], [], []. rewrite app_nil_r. repeat split; constructor.
    - cbn [flat_map] in *. rewrite run_items_app in H.
      destruct (run_items (list msg) exec (filter_map (classify h) logs) s) as [r1 s1] eqn:R1.
      destruct (run_one_hook h logs s r1 s1 R1) as [mlA [restA [msA [EA1 [EA2 [FA RA]]]]]].
      apply Forall2_pair in FA.
      destruct r1 as [[]| |].
      + specialize (RA eq_refl). subst restA. rewrite app_nil_r in EA2.
        destruct (IH _ _ _ _ H) as [mlB [restB [msB [EB1 [EB2 [FB RB]]]]]].
        exists (map (pair h) mlA ++ mlB), restB, (msA ++ msB). repeat split.
        * rewrite EB1, EA1, <- app_assoc. reflexivity.
        * rewrite EA2, EB2, app_assoc. reflexivity.
        * apply Forall2_app; assumption.
        * exact RB.
      + inversion H; subst.
        exists (map (pair h) mlA), (map (pair h) restA ++ flat_map (fun h0 => map (pair h0) (filter (matching h0) logs)) hs), msA.
        repeat split; [rewrite EA2, map_app, app_assoc; reflexivity | exact FA | discriminate].
      + inversion H; subst.
        exists (map (pair h) mlA), (map (pair h) restA ++ flat_map (fun h0 => map (pair h0) (filter (matching h0) logs)) hs), msA.
        repeat split; [rewrite EA2, map_app, app_assoc; reflexivity | exact FA | discriminate].
  Qed.
End HookSound.

Lemma signers_ok_prefix ml1 ms1 rest :
  Forall2 (fun (hl : hkind * log) m => classify (fst hl) (snd hl) = Some (Ok m)) ml1 ms1 ->
  signers_ok (ml1 ++ rest) (map scale_msg ms1) = true.
Proof.
  induction 1 as [|[h l] m ml1 ms1 C F IH]; cbn [app map signers_ok].
  - destruct rest; reflexivity.
  - rewrite IH, andb_true_r. cbn [fst snd] in *. destruct (32 <=? length (l_data l))%nat eqn:L; [|reflexivity].
    apply Nat.leb_le in L. rewrite scale_signer, (classified_signer h l m C L). apply bytes_eqb_refl.
Qed.

(** ** verbatim fields (kind 14) *)

Lemma be_N_bound b : (be_N b < 256 ^ N.of_nat (length b))%N.
Proof.
  induction b as [|x b IH] using rev_ind; [cbn; lia|].
  rewrite be_N_snoc, app_length. cbn [length]. replace (N.of_nat (length b + 1)) with (N.succ (N.of_nat (length b))) by lia.
  rewrite N.pow_succ_r'. pose proof (Byte.to_N_bounded x). lia.
Qed.

Lemma be_N_short b k : (length b <= k)%nat -> (be_N b < 256 ^ N.of_nat k)%N.
Proof.
  intro L. eapply N.lt_le_trans; [apply be_N_bound|]. apply N.pow_le_mono_r; lia.
Qed.

Lemma slice_len d i n : (length (slice d i n) <= N.to_nat n)%nat.
Proof. unfold slice. apply firstn_le_length. Qed.

Lemma word_at_len d i w : word_at d i = Some w -> (length w <= 32)%nat.
Proof. unfold word_at. destruct (_ <=? _)%N; [|discriminate]. intros [= <-]. apply (slice_len d i 32). Qed.

Lemma skipn_len {A} k (l : list A) n : (length l <= n)%nat -> (length (skipn k l) <= n - k)%nat.
Proof. intro L. rewrite skipn_length. lia. Qed.

Lemma dec_u32_bound w : (length w <= 32)%nat -> (dec_u32 w < 2 ^ 32)%N.
Proof. intro L. unfold dec_u32. change (2 ^ 32)%N with (256 ^ N.of_nat 4)%N. apply be_N_short. apply (skipn_len 28 w 32 L). Qed.

Lemma dec_u64_bound w : (length w <= 32)%nat -> (dec_u64 w < 2 ^ 64)%N.
Proof. intro L. unfold dec_u64. change (2 ^ 64)%N with (256 ^ N.of_nat 8)%N. apply be_N_short. apply (skipn_len 24 w 32 L). Qed.

Lemma dec_opt_elems_range d' : forall k j os, dec_opt_elems d' k j = Some os -> Forall opt_in_range os.
Proof.
  induction k as [|k IH]; intros j os H; cbn [dec_opt_elems] in H.
  - inversion H; constructor.
  - destruct (blen d' <? 64 * j + 32)%N; [discriminate|].
    destruct (blen (skipn (N.to_nat (64 * j)) d') <? 64)%N; [discriminate|].
    destruct (dec_opt_elems d' k (j + 1)) as [r|] eqn:E; [|discriminate]. inversion H; subst.
    constructor; [|eapply IH; eauto]. split; cbn [fst snd].
    + apply dec_u32_bound. apply (slice_len _ 0 32).
    + apply dec_u64_bound. apply (slice_len _ 32 32).
Qed.

(** what the decoder returns is within the Go types' ranges *)
Definition ev_in_range (ev : event) : Prop :=
  match ev with
  | EVoted _ _ opt => (opt < 2 ^ 32)%N
  | EVotedW _ _ os => Forall opt_in_range os
  | _ => True
  end.

Lemma unpack_range k d ev : unpack_event k d = Some ev -> ev_in_range ev.
Proof.
  unfold unpack_event. intro H.
  destruct k;
    repeat match type of H with
           | match ?x with _ => _ end = Some _ => let E := fresh "E" in destruct x eqn:E; try discriminate
           end; inversion H; subst; cbn [ev_in_range]; try exact I.
  - apply dec_u32_bound. eapply word_at_len; eauto.
  - unfold dec_opts in *.
    repeat match goal with
           | E : match ?x with _ => _ end = Some _ |- _ => let E' := fresh "E" in destruct x eqn:E'; try discriminate
           end.
    eapply dec_opt_elems_range; eauto.
Qed.

Lemma parse_range k n d ev : parse_log k n d = Some ev -> ev_in_range ev.
Proof.
  unfold parse_log. destruct d as [|b0 d'].
  - destruct (Nat.eqb n 1); [|discriminate]. intros [= <-]. destruct k; cbn; try exact I; try lia. constructor.
  - destruct (unpack_event k (b0 :: d')) as [e|] eqn:U; [|discriminate].
    destruct (Nat.eqb n 1); [|discriminate]. intros [= <-]. eapply unpack_range; eauto.
Qed.

Lemma list_eqb_map_refl os :
  list_eqb (pair_eqb Z.eqb Z.eqb)
    (map (fun ow : Z * Z => (fst ow, snd ow * dec16)) (map (fun ow : N * N => (Z.of_N (fst ow), Z.of_N (snd ow))) os))
    (map (fun ow : N * N => (Z.of_N (fst ow), Z.of_N (snd ow) * dec16)) os) = true.
Proof.
  induction os as [|ow os IH]; [reflexivity|]. cbn [map list_eqb]. rewrite IH, andb_true_r.
  unfold pair_eqb. cbn [fst snd]. rewrite !Z.eqb_refl. reflexivity.
Qed.

(** a message the handler submits for an in-range event carries the event's fields verbatim *)
Lemma verbatim_of_item ev m : item_of_event ev = Ok m -> ev_in_range ev -> verbatim ev (scale_msg m) = true.
Proof.
  intros H R. pose proof (item_fields_verbatim ev m H) as V.
  destruct ev as [d v a | d v a | d s t a | d v | d pid opt | d pid os]; cbn [ev_in_range] in R.
  - destruct V as [x [-> [-> _]]]. cbn. rewrite !bytes_eqb_refl, Z.eqb_refl. reflexivity.
  - destruct V as [x [-> [-> _]]]. cbn. rewrite !bytes_eqb_refl, Z.eqb_refl. reflexivity.
  - destruct V as [x [-> [-> _]]]. cbn. rewrite !bytes_eqb_refl, Z.eqb_refl. reflexivity.
  - destruct V as [-> _]. cbn. rewrite !bytes_eqb_refl. reflexivity.
  - destruct (V R) as [-> _]. cbn. rewrite bytes_eqb_refl, N.eqb_refl, Z.eqb_refl. reflexivity.
  - destruct (V R) as [-> _]. cbn [scale_msg verbatim]. rewrite bytes_eqb_refl, N.eqb_refl. cbn [andb]. apply list_eqb_map_refl.
Qed.

Lemma classified_fields h l m : classify h l = Some (Ok m) -> fields_ok (h, l) (scale_msg m) = true.
Proof.
  unfold classify, fields_ok. cbn [fst snd]. destruct (bytes_eqb (l_addr l) (sys_addr h)); [|discriminate].
  destruct (l_topics l) as [|t0 ts]; [discriminate|]. destruct (handler_of h t0) as [k|]; [|discriminate].
  destruct (parse_log k (length (t0 :: ts)) (l_data l)) as [ev|] eqn:P; [|discriminate].
  intros [= H]. apply verbatim_of_item; [exact H | eapply parse_range; eauto].
Qed.

Lemma fields_ok_prefix ml1 ms1 rest :
  Forall2 (fun (hl : hkind * log) m => classify (fst hl) (snd hl) = Some (Ok m)) ml1 ms1 ->
  all_fields_ok (ml1 ++ rest) (map scale_msg ms1) = true.
Proof.
  induction 1 as [|[h l] m ml1 ms1 C F IH]; cbn [app map all_fields_ok].
  - destruct rest; reflexivity.
  - rewrite IH, andb_true_r. apply classified_fields. exact C.
Qed.

Lemma hook_model_items w logs f :
  hook_model {| hc_which := w; hc_logs := logs; hc_fail_at := f; hc_class := 0; hc_msgs := []; hc_den_ok := true |} =
  run_items (list msg) (rec_exec f) (flat_map (fun h => filter_map (classify h) logs) (hooks_of w)) [].
Proof.
  unfold hook_model. cbn [hc_which hc_logs hc_fail_at].
  destruct w as [|[|w]]; cbn [hooks_of flat_map]; rewrite ?app_nil_r.
  - apply post_tx_char.
  - apply post_tx_char.
  - apply multi_hook_char.
Qed.

(** what the harness would record if the implementation behaved exactly as the model *)
Definition model_hcase (w : nat) (logs : list log) (f : option nat) : hcase :=
  let rm := hook_model {| hc_which := w; hc_logs := logs; hc_fail_at := f; hc_class := 0; hc_msgs := []; hc_den_ok := true |} in
  {| hc_which := w; hc_logs := logs; hc_fail_at := f; hc_class := oclass (fst rm); hc_msgs := map scale_msg (snd rm); hc_den_ok := true |}.

Lemma Forall2_len {A B} (R : A -> B -> Prop) a b : Forall2 R a b -> length a = length b.
Proof. induction 1; cbn; congruence. Qed.

Lemma oclass_ok_unit (r : outcome unit) : oclass r = 0%nat -> r = Ok tt.
Proof. destruct r as [[]| |]; cbn; congruence. Qed.

(** for EVERY hook selection, receipt and injected failure the monitor (11, 12, 13) and the comparison
    (1, 2, 3) accept the model's own output *)
Theorem hook_monitor_sound w logs f : mon_hcase (model_hcase w logs f) = [] /\ cmp_hcase (model_hcase w logs f) = [].
Proof.
  split.
  - unfold mon_hcase, model_hcase. cbn [hc_which hc_logs hc_msgs hc_class]. rewrite hook_model_items.
    destruct (run_items (list msg) (rec_exec f) _ []) as [r ms] eqn:R. cbn [fst snd].
    destruct (run_hooks f (hooks_of w) logs [] r ms R) as [ml1 [rest [ms1 [E1 [E2 [F Rk]]]]]].
    cbn [app] in E1. subst ms. unfold matching_logs. rewrite E2.
    pose proof (Forall2_len _ _ _ F) as L. rewrite map_length, app_length.
    replace (length ml1 + length rest <? length ms1)%nat with false by (symmetry; apply Nat.ltb_ge; lia).
    destruct (Nat.eqb (oclass r) 0) eqn:O.
    + apply Nat.eqb_eq in O. rewrite (Rk (oclass_ok_unit r O)), Nat.add_0_r, L, Nat.eqb_refl. cbn [negb andb].
      rewrite app_nil_r. pose proof (signers_ok_prefix ml1 ms1 [] F) as S. rewrite app_nil_r in S. rewrite S.
      pose proof (fields_ok_prefix ml1 ms1 [] F) as S2. rewrite app_nil_r in S2. rewrite S2. reflexivity.
    + cbn [andb]. rewrite (signers_ok_prefix ml1 ms1 rest F), (fields_ok_prefix ml1 ms1 rest F). reflexivity.
  - unfold cmp_hcase, model_hcase. cbn [hc_class hc_msgs hc_den_ok].
    match goal with |- context [hook_model ?c] => replace (hook_model c) with
      (hook_model {| hc_which := w; hc_logs := logs; hc_fail_at := f; hc_class := 0; hc_msgs := []; hc_den_ok := true |}) by reflexivity end.
    destruct (hook_model _) as [r ms]. cbn [fst snd]. rewrite Nat.eqb_refl. cbn [negb].
    rewrite (list_eqb_refl msg_eqb msg_eqb_refl). reflexivity.
Qed.
