(** [GetDelayBlock] / [GetDelayTime] of the ETH and BSC client states (Model/EvmProof.v: [delay_block],
    [delay_time]): the BSC confirmation depth is the least number of blocks exceeding half of the validator set,
    for every validator count a Go slice can have; when the products wrap. *)
From Teleport Require Import Base.Bytes Base.Outcome Model.EvmProof.
From Coq Require Import ZifyN ZifyNat.
Local Open Scope N_scope.
Ltac Zify.zify_post_hook ::= Z.div_mod_to_equations.

(** a Go slice has fewer than 2^63 elements *)
Definition slice_len (n : N) : Prop := n < 2 ^ 63.

Lemma bsc_delay_block_value cs : cs_kind cs = BSC -> slice_len (cs_nvalidators cs) ->
  delay_block cs = cs_nvalidators cs / 2 + 1.
Proof. intros K L. unfold delay_block, slice_len, two64 in *. rewrite K. apply N.mod_small. lia. Qed.

(** more than half of the validators, and no more than needed: d = min { d | 2 d > n } *)
Lemma bsc_delay_block_majority cs : cs_kind cs = BSC -> slice_len (cs_nvalidators cs) ->
  cs_nvalidators cs < 2 * delay_block cs /\ 2 * (delay_block cs - 1) <= cs_nvalidators cs /\ 1 <= delay_block cs.
Proof. intros K L. rewrite (bsc_delay_block_value cs K L). unfold slice_len in L. lia. Qed.

Lemma eth_delay_block_value cs : cs_kind cs = ETH -> delay_block cs = cs_block_delay cs.
Proof. intro K. unfold delay_block. rewrite K. reflexivity. Qed.

(** BSC [GetDelayTime] is [GetDelayBlock * BlockInteval] exactly when the product stays below 2^64 ... *)
Lemma bsc_delay_time_exact n iv : slice_len n -> (n / 2 + 1) * iv < two64 ->
  delay_time BSC n iv 0 = (n / 2 + 1) * iv.
Proof.
  intros L B. unfold delay_time, slice_len, two64 in *. rewrite (N.mod_small (n / 2 + 1)) by lia.
  apply N.mod_small. exact B.
Qed.

(** ... and wraps otherwise: a long block interval can make the delay time SMALLER than one interval *)
Lemma bsc_delay_time_wraps : exists n iv, slice_len n /\ iv < two64 /\ delay_time BSC n iv 0 < iv.
Proof. exists 2, (2 ^ 63). unfold slice_len, two64. vm_compute. repeat split; reflexivity. Qed.
