(** C12: soundness of the observation-level monitors of [Model/RegistryCheck.v].

    The monitors 23 (resolvable), 24 (MintingEnabled sound) and 25 (MintingEnabled complete) are evaluated on what
    the harness OBSERVED on the real code (answers of GetTokenPairID / MintingEnabled for a universe of token
    strings).  Here: on the observations the MODEL would produce ([model_ostep]: its own answers for the same
    universe) they accept every well-formed state, provided the universe contains the text and the denominations
    of every stored pair (the harness adds them while dumping).  So a monitor failure on an implementation trace
    is never an artefact of the monitor: it contradicts a theorem of Props/C12.v or the correspondence. *)
From Coq Require Import Lia.
From Teleport Require Import Base.Bytes Base.Outcome Base.AList Model.Registry Model.RegistryExport Model.RegistryCheck
  Proofs.RegistryMap Proofs.Registry Proofs.RegistrySorted.

Lemma in_number {A} (l : list A) : forall k i x, In (i, x) (number k l) -> nth_error l (i - k) = Some x /\ k <= i.
Proof.
  induction l as [|a l IH]; intros k i x H; cbn in H; [contradiction|]. destruct H as [E|H].
  - inversion E; subst. rewrite Nat.sub_diag. split; [reflexivity | lia].
  - destruct (IH _ _ _ H) as [N L]. split; [|lia]. replace (i - k) with (S (i - S k)) by lia. exact N.
Qed.

Lemma number_in {A} (l : list A) : forall k n x, nth_error l n = Some x -> In (k + n, x) (number k l).
Proof.
  induction l as [|a l IH]; intros k n x H; [destruct n; discriminate|]. destruct n as [|n]; cbn in *.
  - inversion H; subst. left. rewrite Nat.add_0_r. reflexivity.
  - right. replace (k + S n) with (S k + n) by lia. apply IH. exact H.
Qed.

Lemma lookup_tok_map (f : bytes -> bytes) toks t : In t toks -> lookup_tok toks (map f toks) t = Some (f t).
Proof.
  induction toks as [|a toks IH]; cbn; [intros []|]. destruct (bytes_eqb_spec t a) as [->|N]; [reflexivity|].
  intros [E|H]; [congruence | exact (IH H)].
Qed.

Lemma tok_index_in toks t : forall k, In t toks -> exists n, tok_index toks t k = Some (k + n) /\ nth_error toks n = Some t.
Proof.
  induction toks as [|a toks IH]; intros k H; [destruct H|]. cbn [tok_index].
  destruct (bytes_eqb_spec t a) as [->|N].
  - exists 0. rewrite Nat.add_0_r. split; reflexivity.
  - destruct H as [E|H]; [congruence|]. destruct (IH (S k) H) as (n & E & Hn). exists (S n).
    split; [rewrite E; f_equal; lia | exact Hn].
Qed.

Lemma index_of_aget id (l : alist pair) p : forall k, aget id l = Some p ->
  exists n, index_of id l k = k + n /\ nth_error l n = Some (id, p).
Proof.
  induction l as [|[k' v] l IH]; intros k H; cbn in H; [discriminate|]. cbn [index_of].
  rewrite (bytes_eqb_sym k' id). destruct (bytes_eqb_spec id k') as [->|N].
  - inversion H; subst. exists 0. rewrite Nat.add_0_r. split; reflexivity.
  - destruct (IH (S k) H) as (n & E & Hn). exists (S n). split; [rewrite E; lia | exact Hn].
Qed.

(* in a sorted list the position of a binding is the position [index_of] finds *)
Lemma index_of_nth id (l : alist pair) p : forall k n, Srt l -> nth_error l n = Some (id, p) -> index_of id l k = k + n.
Proof.
  induction l as [|[k' v] l IH]; intros k n Hs H; [destruct n; discriminate|]. cbn [index_of].
  destruct n as [|n]; cbn in H.
  - inversion H; subst. rewrite bytes_eqb_refl. lia.
  - destruct Hs as [B Hs]. destruct (bytes_eqb_spec k' id) as [->|N].
    + exfalso. assert (X : In id (map fst l)) by (apply in_map_iff; exists (id, p); split; [reflexivity | exact (nth_error_In _ _ H)]).
      specialize (B _ X). assert (Y : bytes_cmp id id = Eq) by (apply bytes_cmp_eq; reflexivity). congruence.
    + rewrite (IH (S k) n Hs H). lia.
Qed.

(** the executable form of the environment hypotheses is the [admissible] of the theorems *)
Lemma admissible_b_spec s o : admissible_b s o = true <-> admissible head s o.
Proof.
  destruct o; cbn [admissible_b admissible]; try tauto.
  - rewrite andb_true_iff, Nat.eqb_eq, negb_true_iff, ahas_false. tauto.
  - destruct (st_pairs s), (st_erc20 s), (st_denom s); split; try discriminate; try tauto;
      intros (A & B0 & C & _); discriminate.
Qed.

Section Mon.
  Variable hid : bytes -> bytes -> bytes.
  Hypothesis hid_nonempty : forall t d, hid t d <> [].

  Notation Good := (Good hid).

  (** what the harness would record if the code answered exactly like the model *)
  Definition model_ostep (o : op) (cl : nat) (s : state) (toks : list bytes) : ostep :=
    {| os_op := o; os_class := cl; os_after := s; os_other := 0; os_toks := toks;
       os_ids := map (get_token_pair_id s) toks; os_me := model_me hid s toks; os_me_bad := 0; os_export := 0 |}.

  (** the universe of token strings contains the text and every denomination of every stored pair *)
  Definition covers (s : state) (toks : list bytes) : Prop :=
    forall id p, In (id, p) (st_pairs s) -> In (p_text p) toks /\ forall d, In d (p_denoms p) -> In d toks.

  Lemma resolvable_model o cl s toks :
    Good s -> Srt (st_pairs s) -> covers s toks -> resolvable_b (model_ostep o cl s toks) = true.
  Proof.
    intros G S C. unfold resolvable_b. cbn [model_ostep os_after os_toks os_ids].
    apply forallb_forall. intros [id p] Hin. cbn [fst snd]. apply forallb_forall. intros t Ht.
    pose proof (Srt_in_aget _ _ _ S Hin) as Hp.
    destruct (resolvable_head hid s id p G Hp) as (_ & Rt & Rd). destruct (C _ _ Hin) as [Ct Cd].
    rewrite lookup_tok_map.
    - destruct Ht as [<-|Ht]; [rewrite Rt | rewrite (Rd _ Ht)]; apply bytes_eqb_refl.
    - destruct Ht as [<-|Ht]; [exact Ct | exact (Cd _ Ht)].
  Qed.

  (* the entries of the model's MintingEnabled table *)
  Lemma model_me_in s toks m : Good s -> In m (model_me hid s toks) ->
    exists t d p id, nth_error toks (fst m) = Some t /\ nth_error toks (fst (snd m)) = Some d /\
      minting_enabled head s t d = Ok p /\ aget id (st_pairs s) = Some p /\ get_token_pair_id s t = id /\
      snd (snd m) = index_of id (st_pairs s) 0.
  Proof.
    intros G H. unfold model_me in H. apply in_flat_map in H as ([i t] & Hi & H). apply in_flat_map in H as ([j d] & Hj & H).
    cbn [fst snd] in H. destruct (minting_enabled head s t d) as [p| |] eqn:Em; try (destruct H).
    destruct (minting_enabled_sound_head hid _ _ _ _ G Em) as (_ & _ & _ & id & Hp & Ht).
    destruct G as [C _]. destruct (c_pair _ _ _ _ C _ _ Hp) as (_ & Ip & _). rewrite Ip in H. destruct H as [<-|[]].
    apply in_number in Hi as [Hi _]. apply in_number in Hj as [Hj _]. rewrite Nat.sub_0_r in Hi, Hj.
    exists t, d, p, id. cbn [fst snd]. repeat split; assumption.
  Qed.

  Lemma me_sound_model o cl s toks : Good s -> me_sound_b (model_ostep o cl s toks) = true.
  Proof.
    intro G. unfold me_sound_b. cbn [model_ostep os_me_bad os_me os_toks os_after]. rewrite Nat.eqb_refl. cbn [andb].
    apply forallb_forall. intros m Hm.
    destruct (model_me_in _ _ _ G Hm) as (t & d & p & id & Nt & Nd & Em & Hp & Ht & Ix).
    rewrite Nt, Nd, Ix. destruct (index_of_aget _ _ _ 0 Hp) as (n & E & Hn). rewrite E. cbn [Nat.add]. rewrite Hn.
    destruct (minting_enabled_sound_head hid _ _ _ _ G Em) as (En & Ep & Hd & _).
    rewrite En, Ep. cbn [andb]. assert (X : existsb (bytes_eqb d) (p_denoms p) = true) by (apply existsb_eqb_In; exact Hd).
    rewrite X. cbn [andb].
    assert (Ne : id <> []) by (destruct G as [C _]; destruct (c_pair _ _ _ _ C _ _ Hp) as (_ & Ip & _); exact (pair_id_nonempty hid hid_nonempty _ _ Ip)).
    destruct G as [C N]. unfold get_token_pair_id in Ht. destruct (is_hex_address t) eqn:Hx.
    - (* resolved through the address index *)
      destruct id as [|b r]; [contradiction|]. apply get0_cons in Ht.
      destruct (c_erc20 _ _ _ _ C _ _ Ht) as (q & Hq & Ea). rewrite Hp in Hq. inversion Hq; subst q.
      rewrite Ea, bytes_eqb_refl. cbn [andb]. apply orb_true_r.
    - destruct id as [|b r]; [contradiction|]. apply get0_cons in Ht.
      destruct (c_denom _ _ _ _ C _ _ Ht) as (q & Hq & Iq). rewrite Hp in Hq. inversion Hq; subst q.
      assert (Y : existsb (bytes_eqb t) (p_denoms p) = true) by (apply existsb_eqb_In; exact Iq). rewrite Y. reflexivity.
  Qed.

  Lemma me_has_model o cl s toks t d p id n :
    Good s -> Srt (st_pairs s) -> In t toks -> In d toks ->
    minting_enabled head s t d = Ok p -> nth_error (st_pairs s) n = Some (id, p) ->
    me_has (model_ostep o cl s toks) t d n = true.
  Proof.
    intros G S It Id Em Hn. unfold me_has. cbn [model_ostep os_toks os_me].
    destruct (tok_index_in toks t 0 It) as (i & Ei & Ni). destruct (tok_index_in toks d 0 Id) as (j & Ej & Nj).
    rewrite Ei, Ej. cbn [Nat.add]. apply existsb_exists. exists (i, (j, n)). split.
    - unfold model_me. apply in_flat_map. exists (i, t). split; [exact (number_in toks 0 i t Ni)|].
      apply in_flat_map. exists (j, d). split; [exact (number_in toks 0 j d Nj)|]. cbn [fst snd]. rewrite Em.
      assert (Hp : aget id (st_pairs s) = Some p) by (apply Srt_in_aget; [exact S | exact (nth_error_In _ _ Hn)]).
      destruct G as [C _]. destruct (c_pair _ _ _ _ C _ _ Hp) as (_ & Ip & _). rewrite Ip.
      rewrite (index_of_nth _ _ _ 0 n S Hn). left. reflexivity.
    - unfold triple_eqb. cbn [fst snd]. rewrite !Nat.eqb_refl. reflexivity.
  Qed.

  Lemma me_complete_model o cl s toks :
    Good s -> Srt (st_pairs s) -> covers s toks -> me_complete_b (model_ostep o cl s toks) = true.
  Proof.
    intros G S C. unfold me_complete_b. cbn [model_ostep os_after].
    change (os_after (model_ostep o cl s toks)) with s.
    destruct (st_enable s) eqn:En; cbn [negb orb]; [|reflexivity].
    apply forallb_forall. intros [ix [id p]] Hin. cbn [fst snd].
    destruct (p_enabled p) eqn:Ep; cbn [negb orb]; [|reflexivity].
    apply in_number in Hin as [Hn _]. rewrite Nat.sub_0_r in Hn.
    assert (Hp : aget id (st_pairs s) = Some p) by (apply Srt_in_aget; [exact S | exact (nth_error_In _ _ Hn)]).
    destruct (C _ _ (nth_error_In _ _ Hn)) as [Ct Cd].
    apply forallb_forall. intros d Hd.
    destruct (minting_enabled_complete_head hid hid_nonempty _ _ _ _ G En Hp Ep Hd) as [M1 M2].
    rewrite (me_has_model o cl s toks d d p id ix G S (Cd _ Hd) (Cd _ Hd) M1 Hn).
    rewrite (me_has_model o cl s toks (p_text p) d p id ix G S Ct (Cd _ Hd) M2 Hn). reflexivity.
  Qed.

  (** ** Monitor 26 (convert back across a step) *)

  Lemma list_eqb_refl (l : list bytes) : list_eqb bytes_eqb l l = true.
  Proof. induction l as [|a l IH]; cbn; [reflexivity | rewrite bytes_eqb_refl; exact IH]. Qed.

  Lemma firstn_app_exact (l ext : list bytes) : firstn (length l) (l ++ ext) = l.
  Proof. induction l as [|a l IH]; cbn; [reflexivity | rewrite IH; reflexivity]. Qed.

  Section Step.
    Variable canon : bytes -> bytes.
    Variable evm_denom : bytes.
    Hypothesis hid_inj : forall t d t' d', is_hex_address t = true -> is_hex_address t' = true -> hid t d = hid t' d' -> t = t' /\ d = d'.
    Hypothesis canon_hex : forall a, is_hex_address (canon a) = true.
    Hypothesis canon_addr : forall a, length a = 20%nat -> addr_of (canon a) = a.

    Notation step := (step hid canon evm_denom head).

    (* the executable [explicit_b] is implied by the [explicit] of the theorems - unless the operation was refused by
       ValidateBasic, in which case nothing changed at all *)
    Lemma explicit_b_of_explicit o0 cl0 s toks o toks' id :
      explicit hid head s o id ->
      explicit_b (model_ostep o0 cl0 s toks) (model_ostep o (snd (step s o)) (fst (step s o)) toks') id = true \/
      fst (step s o) = s.
    Proof.
      intros E. unfold explicit_b. cbn [model_ostep os_op os_toks os_ids os_class].
      destruct o; cbn [explicit] in E; try contradiction.
      - (* Toggle *) left.
        destruct (lookup_tok toks (map (get_token_pair_id s) toks) token) as [id'|] eqn:L; [|reflexivity].
        assert (X : id' = get_token_pair_id s token).
        { clear - L. induction toks as [|a toks IH]; cbn in L; [discriminate|].
          destruct (bytes_eqb_spec token a) as [->|N]; [inversion L; reflexivity | exact (IH L)]. }
        rewrite X, E. apply bytes_eqb_refl.
      - (* ConvertCoin: the clean-up returns nil *)
        destruct E as (p & Em & Ip & Lv). unfold Registry.step.
        destruct (validate_basic (OConvertCoin denom live)); cbn [negb]; [left | right; reflexivity].
        unfold convert. rewrite Em, Lv. unfold delete_pair. rewrite Ip. reflexivity.
      - destruct E as (p & Em & Ip & Lv). unfold Registry.step.
        destruct (validate_basic (OConvertERC20 contract denom live)); cbn [negb]; [left | right; reflexivity].
        unfold convert. rewrite Em, Lv. unfold delete_pair. rewrite Ip. reflexivity.
      - (* SetEnable false *) left. subst b. reflexivity.
    Qed.

    Lemma convert_back_model o0 cl0 s toks o toks' :
      Good s -> SortedS s -> admissible head s o ->
      covers (fst (step s o)) toks' ->
      convert_back_b (model_ostep o0 cl0 s toks) (model_ostep o (snd (step s o)) (fst (step s o)) toks') = true.
    Proof.
      intros G SS A Cv. pose proof (step_good hid canon evm_denom hid_inj canon_hex canon_addr _ _ G A) as G'.
      pose proof (proj1 SS) as SP.
      unfold convert_back_b. cbn [model_ostep os_me os_toks os_after] . apply forallb_forall. intros m Hm.
      destruct (model_me_in _ _ _ G Hm) as (t & d & p & id & Nt & Nd & Em & Hp & Ht & Ix).
      change (os_toks (model_ostep o0 cl0 s toks)) with toks. change (os_after (model_ostep o0 cl0 s toks)) with s.
      rewrite Nt, Nd, Ix. destruct (index_of_aget _ _ _ 0 Hp) as (n & E & Hn). rewrite E. cbn [Nat.add]. rewrite Hn.
      destruct (bytes_eqb_spec t d) as [->|N]; cbn [negb orb]; [|reflexivity].
      assert (Ip : pair_id hid p = Ok id) by (destruct G as [C _]; exact (proj1 (proj2 (c_pair _ _ _ _ C _ _ Hp)))).
      (* either explicit, or still convertible through an evolved pair *)
      assert (R : explicit_b (model_ostep o0 cl0 s toks) (model_ostep o (snd (step s o)) (fst (step s o)) toks') id = true \/
                  exists p', minting_enabled head (fst (step s o)) d d = Ok p' /\ evolved p p').
      { destruct (convert_back_possible_head hid canon evm_denom hid_inj hid_nonempty canon_hex canon_addr _ _ _ _ _ G A Em Ip) as [X|X]; [|right; exact X].
        destruct (explicit_b_of_explicit o0 cl0 s toks o toks' id X) as [Y|Y]; [left; exact Y | right].
        exists p. rewrite Y. split; [exact Em | apply evolved_refl]. }
      destruct R as [R|(p' & Em' & ([ext Ee] & Eo & _))]; [rewrite R; reflexivity|].
      match goal with |- (?x || _) = true => destruct x; [reflexivity|] end. cbn [orb].
      destruct (minting_enabled_sound_head hid _ _ _ _ G' Em') as (_ & _ & Hd' & id' & Hp' & _).
      destruct (index_of_aget _ _ _ 0 Hp') as (n' & _ & Hn').
      apply existsb_exists. exists (n', (id', p')). split; [exact (number_in _ 0 n' _ Hn')|]. cbn [fst snd].
      assert (SP' : Srt (st_pairs (fst (step s o)))).
      { exact (proj1 (step_sorted hid canon evm_denom head s o SS)). }
      destruct (Cv _ _ (nth_error_In _ _ Hn')) as [_ Cd].
      rewrite (me_has_model o (snd (step s o)) _ toks' d d p' id' n' G' SP' (Cd _ Hd') (Cd _ Hd') Em' Hn').
      rewrite Ee, firstn_app_exact, list_eqb_refl, Eo, N.eqb_refl. reflexivity.
    Qed.
  End Step.

  (** all per-step monitors together *)
  Lemma step_monitors_accept_model o cl s toks :
    Good s -> SortedS s -> ValidDenoms s -> covers s toks ->
    consistent_b hid s = true /\ nohex_b s = true /\
    resolvable_b (model_ostep o cl s toks) = true /\ me_sound_b (model_ostep o cl s toks) = true /\
    me_complete_b (model_ostep o cl s toks) = true.
  Proof.
    intros G (SP & _) _ C. pose proof (proj2 (monitor_decides hid s) G) as [M1 M2].
    split; [exact M1|]. split; [exact M2|]. split; [apply resolvable_model; assumption|].
    split; [apply me_sound_model; assumption | apply me_complete_model; assumption].
  Qed.
End Mon.
