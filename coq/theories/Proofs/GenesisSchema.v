(** C13: the regenerated inventories agree with the model ([schema_ok], [lc_ok] evaluate to [true] on the regenerated
    terms), and what that gives: every key of every family a light client writes into its client store — for ALL
    arguments (heights, hashes, numbers) — is a metadata path of that client type, i.e. [export_metadata] exports it
    and [wf_xibc] accepts it. *)
From Coq Require Import String.
From Teleport Require Import Base.Bytes Base.Outcome Base.Fmt Gen.KeysGen Gen.GenesisSchemaGen Model.Keys Model.Genesis Model.GenesisSchema.
From Teleport Require Import Proofs.Keys Proofs.KeysParse Proofs.GenesisKeys.

Theorem schema_ok_true : schema_ok = true.
Proof. vm_compute. reflexivity. Qed.

Theorem lc_ok_true : lc_ok = true.
Proof. vm_compute. reflexivity. Qed.

(** generic: a format that starts with a literal under an exported prefix renders, for every argument list, to a
    metadata path of the type *)
Lemma family_covered_sound t f :
  family_covered t (FMeta f) = true -> forall a, metadata_path t (render f a) = true.
Proof.
  unfold family_covered. destruct f as [|it r]; [discriminate|]. destruct it; try discriminate.
  intros H a. apply existsb_exists in H as [q [I P]].
  assert (R : is_prefix q (render (Lit s :: r) a) = true) by (cbn [render render_item]; apply is_prefix_app_r; exact P).
  destruct t; cbn [model_exports snd] in I; unfold metadata_path.
  - destruct I as [<-|[]]. rewrite R. apply orb_true_r.
  - destruct I as [<-|[<-|[]]]; rewrite R; [reflexivity | apply orb_true_r].
  - destruct I as [<-|[<-|[]]]; rewrite R; [reflexivity | apply orb_true_r].
  - destruct I.
Qed.

Lemma slookup_in {X} k (l : list (string * X)) x : slookup k l = Some x -> In (k, x) l.
Proof.
  induction l as [|[k' y] l IH]; cbn; [discriminate|].
  destruct (String.eqb_spec k k') as [->|N]; [intros [= ->]; left; reflexivity | intro H; right; apply IH; exact H].
Qed.

(** every write head the translator found, of every light client, is a known family that the export covers *)
Theorem written_families_covered name t heads head :
  In (name, t) lc_types -> slookup name lc_store_writes = Some heads -> In head heads ->
  exists fam, write_family name head = Some fam /\ family_covered t fam = true.
Proof.
  intros It L Ih. pose proof lc_ok_true as O. unfold lc_ok in O.
  apply andb_true_iff in O as [O _]. apply andb_true_iff in O as [O _]. apply andb_true_iff in O as [_ O]. rewrite forallb_forall in O.
  specialize (O _ It). unfold lc_type_ok in O. rewrite L in O.
  destruct (slookup name lc_export_iterates); [|discriminate]. apply andb_true_iff in O as [_ O].
  rewrite forallb_forall in O. specialize (O _ Ih). destruct (write_family name head) as [fam|]; [|discriminate].
  exists fam. auto.
Qed.

(** ... hence, for ALL arguments, the keys of the written metadata families are exported metadata paths *)
Theorem written_families_exported name t heads head f :
  In (name, t) lc_types -> slookup name lc_store_writes = Some heads -> In head heads ->
  write_family name head = Some (FMeta f) -> forall a, metadata_path t (render f a) = true.
Proof.
  intros It L Ih W. destruct (written_families_covered name t heads head It L Ih) as [fam [W' C]].
  rewrite W in W'. inversion W'; subst fam. apply family_covered_sound. exact C.
Qed.

(** the Tendermint processed-time family: covered by the filter, for every height (Proofs/GenesisKeys.v) *)
Theorem processed_time_family_exported h :
  fst (model_exports TM) = true /\ metadata_path TM (tm_processed_time_key h) = true.
Proof. split; [reflexivity | apply tm_metadata_paths]. Qed.
