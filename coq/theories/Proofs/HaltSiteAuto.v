(** Generic discharge of index / slice sites from the facts the translator reads off the enclosing control flow
    (Gen/PanicSitesGen.v, [site_auto]): an occurrence needs [len(X) >= need]; the facts are lower bounds
    [(0, k)]: len(X) >= k and divisibility facts [(1, c)]: len(X) mod c = 0.  [lower_bound] is what they imply:
    the largest lower bound, raised to c when the length is positive and a multiple of c. *)
From Coq Require Import List NArith Bool Lia.
Import ListNotations.
Local Open Scope N_scope.

Definition fact_holds (L : N) (f : N * N) : Prop :=
  match f with
  | (0, k) => k <= L
  | (1, c) => L mod c = 0
  | _ => True
  end.

Definition ge_bound (facts : list (N * N)) : N :=
  fold_right (fun f a => match f with (0, k) => N.max a k | _ => a end) 0 facts.

Definition mod_bound (facts : list (N * N)) : N :=
  fold_right (fun f a => match f with (1, c) => N.max a c | _ => a end) 0 facts.

Definition lower_bound (facts : list (N * N)) : N :=
  let lb := ge_bound facts in if 1 <=? lb then N.max lb (mod_bound facts) else lb.

Lemma ge_bound_sound L facts : Forall (fact_holds L) facts -> ge_bound facts <= L.
Proof.
  induction 1 as [|[t k] l Hf _ IH]; cbn; [apply N.le_0_l|].
  destruct t as [|p]; [cbn in Hf; apply N.max_lub; assumption|]. destruct p; exact IH.
Qed.

Lemma mod_bound_sound L facts : 1 <= L -> Forall (fact_holds L) facts -> mod_bound facts <= L.
Proof.
  intro H1. induction 1 as [|[t c] l Hf _ IH]; cbn; [apply N.le_0_l|].
  destruct t as [|p]; [exact IH|]. destruct p; try exact IH.
  cbn in Hf. apply N.max_lub; [exact IH|].
  destruct (N.eq_dec c 0) as [->|Hc]; [apply N.le_0_l|].
  destruct (N.lt_ge_cases L c) as [Hlt|Hge]; [|exact Hge].
  rewrite (N.mod_small L c Hlt) in Hf. lia.
Qed.

Theorem lower_bound_sound L facts : Forall (fact_holds L) facts -> lower_bound facts <= L.
Proof.
  intro H. unfold lower_bound. pose proof (ge_bound_sound L facts H) as Hg.
  destruct (1 <=? ge_bound facts) eqn:E; [|exact Hg].
  apply N.leb_le in E. apply N.max_lub; [exact Hg|]. apply mod_bound_sound; [lia | exact H].
Qed.

Definition auto_ok (e : N * list (N * N)) : bool := fst e <=? lower_bound (snd e).

(** Whenever control reaches the occurrence (the facts hold of the length), the length is large enough. *)
Theorem auto_ok_sound need facts : auto_ok (need, facts) = true -> forall L, Forall (fact_holds L) facts -> need <= L.
Proof.
  unfold auto_ok; cbn [fst snd]. intros H L HF. apply N.leb_le in H. eapply N.le_trans; [exact H | apply lower_bound_sound; exact HF].
Qed.

Example auto_examples :
  auto_ok (20, [(1, 20); (0, 1)]) = true /\      (* len % 20 = 0, len > 0  =>  x[:20] *)
  auto_ok (20, [(0, 1)]) = false /\               (* len > 0 alone does not *)
  auto_ok (20, [(1, 20)]) = false /\              (* a multiple of 20 may be 0 *)
  auto_ok (65, [(0, 65)]) = true /\ auto_ok (2, [(0, 2)]) = true /\ auto_ok (1, []) = false.
Proof. vm_compute. repeat split; reflexivity. Qed.
