(** Completeness of acceptance: the conditions of [accept_conds] (Proofs/Bsc.v), the difficulty of the turn, a
    stored consensus state of the head and a head whose hash can be computed are not only necessary but also
    SUFFICIENT for [check_header_and_update] to accept — the model rejects nothing for another reason. *)
From Teleport Require Import Base.Bytes Base.Outcome Model.Bsc Proofs.BscBase Proofs.Bsc.
From Coq Require Import ZifyN ZifyNat.
Local Open Scope N_scope.

Section Complete.
  Variable HH : header -> bytes.
  Variable ER : N -> header -> option bytes.

  Lemma validate_basic_complete h :
    len (h_bloom h) <= 256 -> len (h_nonce h) <= 8 -> 97 <= len (h_extra h) ->
    to_hash (h_mix h) = zeros 32 -> to_hash (h_uncle h) = uncleHash ->
    (0 < h_num h -> N_of_bytes (h_diff h) mod two64 <> 0) ->
    validate_basic h = ROk tt.
  Proof.
    intros B1 B2 B3 B4 B5 B6. unfold validate_basic, extraVanity, extraSeal.
    replace (256 <? len (h_bloom h)) with false by (symmetry; apply N.ltb_ge; exact B1).
    replace (8 <? len (h_nonce h)) with false by (symmetry; apply N.ltb_ge; exact B2).
    replace (len (h_extra h) <? 32) with false by (symmetry; apply N.ltb_ge; lia).
    replace (len (h_extra h) <? 32 + 65) with false by (symmetry; apply N.ltb_ge; lia).
    rewrite B4, B5, !bytes_eqb_refl. cbn [negb].
    destruct (0 <? h_num h) eqn:E0; cbn [andb]; [|reflexivity].
    apply N.ltb_lt in E0. specialize (B6 E0). apply N.eqb_neq in B6. rewrite B6. reflexivity.
  Qed.

  Lemma verify_pre_complete cs st h signer :
    tobsc_ok (c_header cs) = true -> accept_conds HH ER cs st h signer -> verify_pre HH ER cs st h = ROk signer.
  Proof.
    intros T A. destruct A as [A1 A2 A3 A4 A5 A6 A7 A8 A9 A10 A11 A12 A13 A14 A15 A16 A17].
    unfold verify_pre, verify_pre_gen.
    rewrite (validate_basic_complete h A1 A2 A3 A4 A5 A6).
    apply N.eqb_neq in A7. rewrite A7. unfold extraVanity, extraSeal, addressLength.
    replace (negb (h_num h mod c_epoch cs =? 0) && negb (len (h_extra h) - 32 - 65 =? 0)) with false.
    2:{ symmetry. destruct (h_num h mod c_epoch cs =? 0); cbn [negb andb]; [reflexivity|].
        apply negb_false_iff, N.eqb_eq. lia. }
    replace ((h_num h mod c_epoch cs =? 0) && negb ((len (h_extra h) - 32 - 65) mod 20 =? 0)) with false.
    2:{ symmetry. destruct (h_num h mod c_epoch cs =? 0); cbn [negb andb]; [|reflexivity].
        apply negb_false_iff, N.eqb_eq. replace (len (h_extra h) - 32 - 65) with (len (h_extra h) - 97) by lia. exact A8. }
    rewrite T. cbn [negb]. rewrite A9, N.eqb_refl. cbn [negb]. rewrite A10, bytes_eqb_refl. cbn [negb].
    replace (9223372036854775807 <? h_gaslimit h) with false by (symmetry; apply N.ltb_ge; exact A11).
    replace (h_gaslimit h <? h_gasused h) with false by (symmetry; apply N.ltb_ge; exact A12).
    rewrite A13, A14. rewrite <- A15, bytes_eqb_refl. cbn [negb].
    apply mem_In in A16. rewrite A16. cbn [negb]. rewrite A17. reflexivity.
  Qed.

  Lemma update_complete cs st h :
    c_epoch cs <> 0 -> 97 <= len (h_extra h) ->
    (if h_num h mod c_epoch cs =? 0 then (len (h_extra h) - 97) mod 20 = 0 else len (h_extra h) = 97) ->
    exists st' cs' c', update cs st h = (st', ROk (cs', c')).
  Proof.
    intros E0 E1 E2. unfold update, extraVanity, extraSeal, addressLength.
    apply N.eqb_neq in E0. rewrite E0.
    destruct (h_num h mod c_epoch cs =? 0).
    - replace (len (h_extra h) <? 32 + 65) with false by (symmetry; apply N.ltb_ge; lia).
      rewrite E2. cbn [N.eqb negb].
      destruct (h_num h mod c_epoch cs =? len (c_vals cs) / 2); cbv zeta;
        [destruct (limit_of_vals _ <? len (c_vals cs) / 2 + 1)|]; do 3 eexists; reflexivity.
    - destruct (h_num h mod c_epoch cs =? len (c_vals cs) / 2); cbv zeta;
        [destruct (limit_of_vals _ <? len (c_vals cs) / 2 + 1)|]; do 3 eexists; reflexivity.
  Qed.

  Theorem accept_complete bt cs st h signer :
    get_cons st (hheight (c_header cs)) <> None -> tobsc_ok (c_header cs) = true ->
    accept_conds HH ER cs st h signer ->
    N_of_bytes (h_diff h) = (if inturn cs signer then 2 else 1) ->
    exists st' cs' c', check_header_and_update HH ER bt cs st h = (st', ROk (cs', c')).
  Proof.
    intros G T A D. unfold check_header_and_update, check_header_and_update_gen.
    destruct (get_cons st (hheight (c_header cs))); [|contradiction].
    fold (verify_pre HH ER cs st h). rewrite (verify_pre_complete _ _ _ _ T A).
    unfold verify_post, diffInTurn, diffNoTurn. rewrite D.
    destruct (inturn cs signer); cbn [N.eqb Pos.eqb];
      apply update_complete; first [exact (ac_epoch _ _ _ _ _ _ A) | exact (ac_extra _ _ _ _ _ _ A) | exact (ac_vals_bytes _ _ _ _ _ _ A)].
  Qed.

  (** acceptance, characterised *)
  Theorem accept_iff bt cs st h :
    (exists st' cs' c', check_header_and_update HH ER bt cs st h = (st', ROk (cs', c'))) <->
    (get_cons st (hheight (c_header cs)) <> None /\ tobsc_ok (c_header cs) = true /\
     exists signer, accept_conds HH ER cs st h signer /\ N_of_bytes (h_diff h) = (if inturn cs signer then 2 else 1)).
  Proof.
    split.
    - intros (st' & cs' & c' & H).
      destruct (check_ok _ _ _ _ _ _ _ _ _ H) as (signer & G & A & D & _).
      split; [exact G|]. split; [|exists signer; auto].
      (* the head's hash was computed *)
      unfold check_header_and_update, check_header_and_update_gen in H.
      destruct (get_cons st (hheight (c_header cs))); [|discriminate H].
      unfold verify_pre_gen in H.
      destruct (validate_basic h) as [[]| |]; try discriminate H.
      destruct (c_epoch cs =? 0); [discriminate H|].
      destruct (negb (h_num h mod c_epoch cs =? 0) && _); [discriminate H|].
      destruct ((h_num h mod c_epoch cs =? 0) && _); [discriminate H|].
      destruct (tobsc_ok (c_header cs)); [reflexivity | discriminate H].
    - intros (G & T & signer & A & D). eapply accept_complete; eassumption.
  Qed.
End Complete.
