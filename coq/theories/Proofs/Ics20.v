(** Proofs about the ICS-20 middleware model (property C16), generic part: any state type, any wrapped
    application, any conversion function. *)
From Coq Require Import List ZArith Bool Lia.
From Teleport Require Import Base.Bytes Base.Outcome Model.Ics20.
Import ListNotations.
Local Open Scope Z_scope.

(** * Denomination strings *)
Lemma sls_app : forall a b,
  split_last_slash (a ++ slash :: b) =
  match split_last_slash b with
  | Some (p, q) => Some (a ++ slash :: p, q)
  | None => Some (a, b)
  end.
Proof.
  induction a as [|c a IH]; intros b.
  - cbn [app split_last_slash]. destruct (split_last_slash b) as [[p q]|]; reflexivity.
  - cbn [app]. cbn [split_last_slash]. rewrite IH.
    destruct (split_last_slash b) as [[p q]|]; reflexivity.
Qed.

Lemma sls_join : forall s p b, split_last_slash s = Some (p, b) -> s = p ++ slash :: b.
Proof.
  induction s as [|c s IH]; intros p b H; cbn [split_last_slash] in H; [discriminate|].
  destruct (split_last_slash s) as [[p' b']|] eqn:E.
  - inversion H; subst. cbn [app]. f_equal. apply IH. reflexivity.
  - destruct (Byte.eqb c slash) eqn:Eb; [|discriminate]. inversion H; subst.
    apply Byte.byte_dec_bl in Eb. subst. reflexivity.
Qed.

Lemma sls_none_no_slash : forall s, split_last_slash s = None -> ~ In slash s.
Proof.
  induction s as [|c s IH]; intros H; cbn [split_last_slash] in H; [intros []|].
  destruct (split_last_slash s) as [[p' b']|] eqn:E; [discriminate|].
  destruct (Byte.eqb c slash) eqn:Eb; [discriminate|].
  intros [Hc|Hin]; [subst; rewrite Byte.byte_dec_lb in Eb by reflexivity; discriminate | exact (IH eq_refl Hin)].
Qed.

Lemma sls_base_no_slash : forall s p b, split_last_slash s = Some (p, b) -> ~ In slash b.
Proof.
  induction s as [|c s IH]; intros p b H; cbn [split_last_slash] in H; [discriminate|].
  destruct (split_last_slash s) as [[p' b']|] eqn:E.
  - inversion H; subst. eapply IH; reflexivity.
  - destruct (Byte.eqb c slash); [|discriminate]. inversion H; subst. apply sls_none_no_slash; assumption.
Qed.

(** ParseDenomTrace(raw).IBCDenom() of a string with a non-empty path *)
Lemma trace_ibc_denom_path : forall sha raw p b,
  split_last_slash raw = Some (p, b) -> p <> [] -> trace_ibc_denom sha raw = ibc_slash ++ hex_upper (sha raw).
Proof.
  intros sha raw p b E Hp. unfold trace_ibc_denom. rewrite E.
  destruct p as [|c p]; [contradiction|]. rewrite (sls_join _ _ _ E). reflexivity.
Qed.

(** the string the hook hashes always has a non-empty path: the hook's denomination is always "ibc/" + HEX(sha256) *)
Lemma ibc_denom_shape : forall sha port chan denom,
  ibc_denom sha port chan denom = ibc_slash ++ hex_upper (sha (denom_prefix port chan ++ denom)).
Proof.
  intros sha port chan denom. unfold ibc_denom.
  assert (E : denom_prefix port chan ++ denom = port ++ slash :: (chan ++ slash :: denom)).
  { unfold denom_prefix. rewrite <- !app_assoc. reflexivity. }
  rewrite E.
  pose proof (sls_app port (chan ++ slash :: denom)) as H1. rewrite (sls_app chan denom) in H1.
  destruct (split_last_slash denom) as [[p q]|].
  - eapply trace_ibc_denom_path; [exact H1|]. destruct port; discriminate.
  - eapply trace_ibc_denom_path; [exact H1|]. destruct port; discriminate.
Qed.

(** hex_upper is injective *)
Lemma hex_digit_inj : forall a b, (a < 16)%N -> (b < 16)%N -> hex_digit a = hex_digit b -> a = b.
Proof.
  intros a b Ha Hb.
  assert (Hx : forall n, (n < 16)%N -> In n [0;1;2;3;4;5;6;7;8;9;10;11;12;13;14;15]%N).
  { intros n Hn. rewrite <- (N2Nat.id n). assert (Hk : (N.to_nat n < 16)%nat) by lia.
    destruct (N.to_nat n) as [|[|[|[|[|[|[|[|[|[|[|[|[|[|[|[|k]]]]]]]]]]]]]]]]; [..|lia];
      cbn; repeat (first [left; reflexivity | right]). }
  pose proof (Hx a Ha) as Ia. pose proof (Hx b Hb) as Ib. cbn [In] in Ia, Ib.
  repeat (destruct Ia as [Ia|Ia]; [subst a|]); try contradiction;
  repeat (destruct Ib as [Ib|Ib]; [subst b|]); try contradiction; cbn; intros H; try reflexivity; discriminate H.
Qed.

Lemma hex_upper_inj : forall a b, hex_upper a = hex_upper b -> a = b.
Proof.
  induction a as [|x a IH]; intros [|y b] H; cbn [hex_upper] in H; try discriminate; [reflexivity|].
  inversion H as [[H1 H2 H3]].
  assert (Hx : (Byte.to_N x < 256)%N) by (pose proof (Byte.to_N_bounded x); lia).
  assert (Hy : (Byte.to_N y < 256)%N) by (pose proof (Byte.to_N_bounded y); lia).
  apply hex_digit_inj in H1; [|apply N.div_lt_upper_bound; lia|apply N.div_lt_upper_bound; lia].
  apply hex_digit_inj in H2; [|apply N.mod_lt; lia|apply N.mod_lt; lia].
  f_equal; [|apply IH; assumption].
  apply byte_to_N_inj.
  rewrite (N.div_mod (Byte.to_N x) 16), (N.div_mod (Byte.to_N y) 16) by lia. rewrite H1, H2. reflexivity.
Qed.

Lemma hex_digit_not_slash : forall n, hex_digit n <> slash.
Proof.
  intros n. unfold hex_digit.
  destruct (N.to_nat n) as [|[|[|[|[|[|[|[|[|[|[|[|[|[|[|[|[|k]]]]]]]]]]]]]]]]]; cbn; try discriminate.
  all: try (destruct k; discriminate).
Qed.

Lemma hex_upper_no_slash : forall b, ~ In slash (hex_upper b).
Proof.
  induction b as [|c b IH]; cbn [hex_upper]; [intros []|].
  intros [H|[H|H]]; [exact (hex_digit_not_slash _ H)|exact (hex_digit_not_slash _ H)|exact (IH H)].
Qed.

(** ** Returning tokens: the denomination the hook computes is never the one the transfer application releases *)
Lemma returning_denoms_differ : forall sha pkt d,
  receiver_chain_is_source (pk_sport pkt) (pk_schan pkt) (fd_denom d) = true ->
  (* no sha256 collision between the hook's string and the (strictly shorter) remaining trace *)
  sha (denom_prefix (pk_dport pkt) (pk_dchan pkt) ++ fd_denom d) <>
  sha (skipn (length (denom_prefix (pk_sport pkt) (pk_schan pkt))) (fd_denom d)) ->
  ibc_denom sha (pk_dport pkt) (pk_dchan pkt) (fd_denom d) <> received_denom sha pkt d.
Proof.
  intros sha pkt d Hret Hsha. unfold received_denom. rewrite Hret. rewrite ibc_denom_shape.
  set (un := skipn _ (fd_denom d)) in *.
  unfold unescrow_denom, trace_ibc_denom.
  destruct (split_last_slash un) as [[p b]|] eqn:E.
  - destruct p as [|c p].
    + (* "/base": the released denomination is the string "/base" itself, which does not start with "i" *)
      intros H. rewrite (sls_join _ _ _ E) in H. cbn [app] in H. unfold ibc_slash in H. cbn [app] in H.
      inversion H.
    + change ((c :: p) ++ [slash] ++ b) with ((c :: p) ++ slash :: b).
      rewrite <- (sls_join _ _ _ E). intros H. apply app_inv_head in H. apply hex_upper_inj in H. contradiction.
  - intros H. apply (sls_none_no_slash _ E). rewrite <- H. unfold ibc_slash. cbn. unfold slash. tauto.
Qed.

(** The string behind the hook's denomination for a returning packet can never be the trace of a voucher the
    transfer application mints over the same channel: a packet carrying that trace would itself be "returning"
    (unescrow), not "mint". *)
Lemma returning_preimage_never_minted : forall pkt d pkt' d',
  pk_sport pkt' = pk_sport pkt -> pk_schan pkt' = pk_schan pkt ->
  pk_dport pkt' = pk_dport pkt -> pk_dchan pkt' = pk_dchan pkt ->
  receiver_chain_is_source (pk_sport pkt) (pk_schan pkt) (fd_denom d) = true ->
  (* pkt' is received in "mint" mode with exactly the hook's string as trace *)
  denom_prefix (pk_dport pkt') (pk_dchan pkt') ++ fd_denom d' =
  denom_prefix (pk_dport pkt) (pk_dchan pkt) ++ fd_denom d ->
  receiver_chain_is_source (pk_sport pkt') (pk_schan pkt') (fd_denom d') = true.
Proof.
  intros pkt d pkt' d' E1 E2 E3 E4 Hret Heq. rewrite E3, E4 in Heq. apply app_inv_head in Heq.
  rewrite E1, E2, Heq. exact Hret.
Qed.

(** * common.BytesToAddress *)
Lemma evm_addr_20 : forall b, length b = 20%nat -> evm_addr b = b.
Proof. intros b H. unfold evm_addr. rewrite H. reflexivity. Qed.

Lemma evm_addr_length : forall b, length (evm_addr b) = 20%nat.
Proof.
  intros b. unfold evm_addr. destruct (20 <=? length b)%nat eqn:E.
  - apply Nat.leb_le in E. rewrite skipn_length. lia.
  - apply Nat.leb_gt in E. rewrite app_length, repeat_length. lia.
Qed.

(** an address that is not 20 bytes long is never its own EVM address *)
Lemma evm_addr_other : forall b, length b <> 20%nat -> evm_addr b <> b.
Proof. intros b H E. apply H. rewrite <- E. apply evm_addr_length. Qed.

(** * The middleware *)
Section Generic.
  Variable state : Type.
  Variable sha256 : bytes -> bytes.
  Variable decode : bytes -> option ftpd.
  Variable parse_int : bytes -> option Z.
  Variable from_bech32 : bytes -> option bytes.
  Variable is_registered : state -> bytes -> bool.
  Variable convert : state -> conv_msg -> outcome state.
  Variable transfer_recv : state -> packet -> outcome (state * ack).

  Notation hook_gen := (hook_gen state sha256 decode parse_int from_bech32 is_registered convert).
  Notation hook := (hook state sha256 decode parse_int from_bech32 is_registered convert).
  Notation hook_old := (hook_old state sha256 decode parse_int from_bech32 is_registered convert).
  Notation hook_v1 := (hook_v1 state sha256 decode parse_int from_bech32 is_registered convert).
  Notation middleware_v1 := (middleware_v1 state sha256 decode parse_int from_bech32 is_registered convert transfer_recv).
  Notation hook_receiver := (hook_receiver from_bech32).
  Notation middleware := (middleware state sha256 decode parse_int from_bech32 is_registered convert transfer_recv).
  Notation middleware_old := (middleware_old state sha256 decode parse_int from_bech32 is_registered convert transfer_recv).
  Notation bare := (bare state transfer_recv).
  Notation core_recv := (core_recv state sha256).
  Notation hook_msg := (hook_msg sha256 from_bech32).

  (** every return statement of the hook hands back [ret ack]; the state changes only on the last path, and then
      it is exactly ConvertCoin's result for the message built from the packet *)
  Lemma hook_gen_spec : forall chk ret st pkt a st' oa p,
    hook_gen chk ret st pkt a = Ok (st', oa, p) ->
    oa = ret a /\
    ((st' = st /\ p <> HConverted) \/
     (p = HConverted /\ exists d amt,
        decode (pk_data pkt) = Some d /\ parse_int (fd_amount d) = Some amt /\ 0 <= amt /\
        (chk = true -> length (hook_receiver d) = 20%nat) /\
        is_registered st (cm_denom (hook_msg pkt d amt)) = true /\
        convert st (hook_msg pkt d amt) = Ok st')).
  Proof.
    intros chk ret st pkt a st' oa p H. unfold Ics20.hook_gen in H.
    destruct (decode (pk_data pkt)) as [d|] eqn:Ed.
    2:{ inversion H; subst. split; [reflexivity|left; split; [reflexivity|discriminate]]. }
    destruct (parse_int (fd_amount d)) as [amt|] eqn:Ea.
    2:{ inversion H; subst. split; [reflexivity|left; split; [reflexivity|discriminate]]. }
    destruct (chk && negb (Nat.eqb (length (hook_receiver d)) 20)) eqn:El.
    { inversion H; subst. split; [reflexivity|left; split; [reflexivity|discriminate]]. }
    destruct (is_registered st _) eqn:Er; cbn [negb] in H.
    2:{ inversion H; subst. split; [reflexivity|left; split; [reflexivity|discriminate]]. }
    destruct ((amt <? 0) || _) eqn:Ep; [discriminate|].
    apply orb_false_iff in Ep. destruct Ep as [Ep _]. apply Z.ltb_ge in Ep.
    destruct (convert st _) as [s2| |] eqn:Ec; [| |discriminate].
    - inversion H; subst. split; [reflexivity|]. right. split; [reflexivity|].
      exists d, amt. repeat split; try assumption.
      intros ->. cbn [andb] in El. apply negb_false_iff in El. apply Nat.eqb_eq in El. exact El.
    - inversion H; subst. split; [reflexivity|left; split; [reflexivity|discriminate]].
  Qed.

  (** ** Transparency: whatever the middleware returns is the wrapped application's acknowledgement *)
  Lemma middleware_transparent : forall st pkt st2 oa hp,
    middleware st pkt = Ok (st2, oa, hp) ->
    exists st1 a, transfer_recv st pkt = Ok (st1, a) /\ oa = Some a.
  Proof.
    intros st pkt st2 oa hp H. unfold Ics20.middleware, middleware_gen in H.
    destruct (transfer_recv st pkt) as [[st1 a]| |] eqn:Et; try discriminate.
    exists st1, a. split; [reflexivity|].
    destruct (ack_success a); cbn [negb] in H.
    - destruct (hook st1 pkt a) as [[[s o] p]| |] eqn:Eh; try discriminate.
      inversion H; subst. apply hook_gen_spec in Eh. tauto.
    - inversion H; reflexivity.
  Qed.

  (** the middleware fails / panics only where the wrapped application does, or where the hook panics *)
  Lemma middleware_err_iff : forall st pkt, middleware st pkt = Err <-> transfer_recv st pkt = Err.
  Proof.
    intros st pkt. unfold Ics20.middleware, middleware_gen.
    destruct (transfer_recv st pkt) as [[st1 a]| |] eqn:Et.
    - split; [|discriminate]. intros H. exfalso.
      destruct (ack_success a); cbn [negb] in H; [|discriminate].
      destruct (hook st1 pkt a) as [[[s o] p]| |] eqn:Eh; try discriminate.
      unfold Ics20.hook, Ics20.hook_gen in Eh.
      destruct (decode _); [|discriminate]. destruct (parse_int _); [|discriminate].
      destruct (_ && _); [discriminate|].
      destruct (negb _); [discriminate|]. destruct (_ || _); [discriminate|].
      destruct (convert _ _); discriminate.
    - tauto.
    - split; discriminate.
  Qed.

  (** Hypotheses under which the hook cannot panic (all are facts about library code the model takes as oracles). *)
  Definition transfer_sound : Prop := forall st pkt st1 a,
    transfer_recv st pkt = Ok (st1, a) -> ack_success a = true ->
    exists d amt, decode (pk_data pkt) = Some d /\ parse_int (fd_amount d) = Some amt /\ 0 < amt.

  Lemma hex_upper_tail : forall b, forallb is_denom_tail (hex_upper b) = true.
  Proof.
    induction b as [|c b IH]; [reflexivity|]. cbn [hex_upper forallb]. rewrite IH.
    assert (H : forall n, is_denom_tail (hex_digit n) = true).
    { intros n. unfold hex_digit.
      destruct (N.to_nat n) as [|[|[|[|[|[|[|[|[|[|[|[|[|[|[|[|[|k]]]]]]]]]]]]]]]]]; try reflexivity. all: try (destruct k; reflexivity). }
    rewrite !H. reflexivity.
  Qed.

  Lemma hex_upper_length : forall b, length (hex_upper b) = (2 * length b)%nat.
  Proof. induction b as [|c b IH]; [reflexivity|]. cbn [hex_upper length]. rewrite IH. lia. Qed.

  Lemma ibc_denom_valid : forall port chan denom,
    length (sha256 (denom_prefix port chan ++ denom)) = 32%nat ->
    valid_denom (ibc_denom sha256 port chan denom) = true.
  Proof.
    intros port chan denom H. rewrite ibc_denom_shape. unfold ibc_slash. cbn [app valid_denom forallb].
    rewrite hex_upper_tail. cbn [length]. rewrite hex_upper_length, H. reflexivity.
  Qed.

  (** pointwise form: the hypotheses are about THIS packet and the state the wrapped application left — so the
      statement also applies to conversions that can panic on other states (the concrete [convert_coin] panics on
      256-bit overflows; see [concrete_no_new_panic] in Proofs/Ics20Convert.v) *)
  Lemma middleware_no_new_panic_at : forall st pkt st1 a,
    transfer_recv st pkt = Ok (st1, a) ->
    (ack_success a = true ->
     exists d amt, decode (pk_data pkt) = Some d /\ parse_int (fd_amount d) = Some amt /\ 0 < amt /\
       length (sha256 (denom_prefix (pk_dport pkt) (pk_dchan pkt) ++ fd_denom d)) = 32%nat /\
       convert st1 (hook_msg pkt d amt) <> Panic) ->
    exists st2 hp, middleware st pkt = Ok (st2, Some a, hp).
  Proof.
    intros st pkt st1 a Et Hs. unfold Ics20.middleware, middleware_gen. rewrite Et.
    destruct (ack_success a) eqn:Es; cbn [negb]; [|eauto].
    destruct (Hs eq_refl) as (d & amt & Ed & Ea & Hpos & Hsha & Hcv).
    unfold Ics20.hook, Ics20.hook_gen. rewrite Ed, Ea.
    destruct (_ && _); [eauto|].
    destruct (is_registered st1 _); cbn [negb]; [|eauto].
    replace (amt <? 0) with false by (symmetry; apply Z.ltb_ge; lia).
    cbn [hook_msg Ics20.hook_msg cm_denom]. rewrite ibc_denom_valid by exact Hsha. cbn [negb orb].
    destruct (convert st1 _) as [s2| |] eqn:Ec; [eauto|eauto|]. exfalso. exact (Hcv eq_refl).
  Qed.

  Lemma middleware_no_new_panic :
    transfer_sound ->
    (forall x, length (sha256 x) = 32%nat) ->
    (forall st m, convert st m <> Panic) ->
    forall st pkt st1 a, transfer_recv st pkt = Ok (st1, a) ->
    exists st2 hp, middleware st pkt = Ok (st2, Some a, hp).
  Proof.
    intros Hts Hsha Hcv st pkt st1 a Et. apply (middleware_no_new_panic_at _ _ _ _ Et). intros Es.
    destruct (Hts _ _ _ _ Et Es) as (d & amt & Ed & Ea & Hpos).
    exists d, amt. repeat split; auto.
  Qed.

  (** conversely the ONLY panics the middleware adds are the hook's: sdk.NewCoin (negative amount / invalid
      denomination) or a panic inside ConvertCoin, both after a successful transfer of a registered denomination *)
  Lemma middleware_panic_inv : forall st pkt,
    middleware st pkt = Panic ->
    transfer_recv st pkt = Panic \/
    exists st1 a d amt, transfer_recv st pkt = Ok (st1, a) /\ ack_success a = true /\
      decode (pk_data pkt) = Some d /\ parse_int (fd_amount d) = Some amt /\
      is_registered st1 (cm_denom (hook_msg pkt d amt)) = true /\
      (amt < 0 \/ valid_denom (cm_denom (hook_msg pkt d amt)) = false \/ convert st1 (hook_msg pkt d amt) = Panic).
  Proof.
    intros st pkt H. unfold Ics20.middleware, middleware_gen in H.
    destruct (transfer_recv st pkt) as [[st1 a]| |] eqn:Et; [|discriminate|left; reflexivity].
    right. destruct (ack_success a) eqn:Es; cbn [negb] in H; [|discriminate].
    destruct (hook st1 pkt a) as [[[s o] p]| |] eqn:Eh; try discriminate. clear H.
    unfold Ics20.hook, Ics20.hook_gen in Eh.
    destruct (decode (pk_data pkt)) as [d|] eqn:Ed; [|discriminate].
    destruct (parse_int (fd_amount d)) as [amt|] eqn:Ea; [|discriminate].
    destruct (_ && _); [discriminate|].
    destruct (is_registered st1 _) eqn:Er; cbn [negb] in Eh; [|discriminate].
    exists st1, a, d, amt. repeat split; auto.
    destruct (amt <? 0) eqn:E1; [left; apply Z.ltb_lt; exact E1|]. cbn [orb] in Eh.
    destruct (valid_denom _) eqn:E2; [|right; left; reflexivity]. cbn [negb] in Eh.
    destruct (convert st1 _) as [s2| |] eqn:Ec; try discriminate. right; right; reflexivity.
  Qed.

  (** ** Failed transfer: the hook is not even called *)
  Lemma failed_transfer_passthrough : forall st pkt st1 a,
    transfer_recv st pkt = Ok (st1, a) -> ack_success a = false ->
    middleware st pkt = Ok (st1, Some a, None).
  Proof. intros st pkt st1 a Et Es. unfold Ics20.middleware, middleware_gen. rewrite Et, Es. reflexivity. Qed.

  (** ** Atomicity, structural form: after the middleware the state is the wrapped application's, or exactly
      ConvertCoin's successful result on it for (voucher of the packet, packet amount, receiver) *)
  Lemma middleware_state : forall st pkt st1 a st2 oa hp,
    transfer_recv st pkt = Ok (st1, a) ->
    middleware st pkt = Ok (st2, oa, hp) ->
    (st2 = st1 /\ hp <> Some HConverted) \/
    (hp = Some HConverted /\ ack_success a = true /\ exists d amt,
       decode (pk_data pkt) = Some d /\ parse_int (fd_amount d) = Some amt /\ 0 <= amt /\
       length (hook_receiver d) = 20%nat /\
       is_registered st1 (cm_denom (hook_msg pkt d amt)) = true /\
       convert st1 (hook_msg pkt d amt) = Ok st2).
  Proof.
    intros st pkt st1 a st2 oa hp Et H. unfold Ics20.middleware, middleware_gen in H. rewrite Et in H.
    destruct (ack_success a) eqn:Es; cbn [negb] in H.
    - destruct (hook st1 pkt a) as [[[s o] p]| |] eqn:Eh; try discriminate.
      inversion H; subst. apply hook_gen_spec in Eh. destruct Eh as [_ [[E Hp]|[Hp Hx]]].
      + left. split; [assumption|]. intros X; inversion X; contradiction.
      + right. subst p. split; [reflexivity|]. split; [reflexivity|].
        destruct Hx as (d & amt & Ed & Ea & Hpos & Hl & Hr & Hc). exists d, amt. repeat split; auto.
    - inversion H; subst. left. split; [reflexivity|discriminate].
  Qed.

  (** the same for the code between the two repairs (no test of the receiver's length) *)
  Lemma middleware_v1_state : forall st pkt st1 a st2 oa hp,
    transfer_recv st pkt = Ok (st1, a) ->
    middleware_v1 st pkt = Ok (st2, oa, hp) ->
    (st2 = st1 /\ hp <> Some HConverted) \/
    (hp = Some HConverted /\ exists d amt,
       decode (pk_data pkt) = Some d /\ parse_int (fd_amount d) = Some amt /\
       convert st1 (hook_msg pkt d amt) = Ok st2).
  Proof.
    intros st pkt st1 a st2 oa hp Et H. unfold Ics20.middleware_v1, middleware_gen in H. rewrite Et in H.
    destruct (ack_success a) eqn:Es; cbn [negb] in H.
    - destruct (hook_v1 st1 pkt a) as [[[s o] p]| |] eqn:Eh; try discriminate.
      inversion H; subst. apply hook_gen_spec in Eh. destruct Eh as [_ [[E Hp]|[Hp Hx]]].
      + left. split; [assumption|]. intros X; inversion X; contradiction.
      + right. subst p. split; [reflexivity|].
        destruct Hx as (d & amt & Ed & Ea & _ & _ & _ & Hc). exists d, amt. auto.
    - inversion H; subst. left. split; [reflexivity|discriminate].
  Qed.

  (** ** What ibc-go core commits *)
  Lemma core_commits_transfer_ack : forall st pkt st' oc,
    core_recv middleware st pkt = Ok (st', oc) ->
    exists st1 a, transfer_recv st pkt = Ok (st1, a) /\ ack_bytes a <> [] /\
      oc = Some (sha256 (ack_bytes a)) /\
      (ack_success a = false -> st' = st) /\
      exists st'', core_recv bare st pkt = Ok (st'', oc).
  Proof.
    intros st pkt st' oc H. unfold Ics20.core_recv in H.
    destruct (middleware st pkt) as [[[s2 oa] hp]| |] eqn:Em; try discriminate.
    destruct (middleware_transparent _ _ _ _ _ Em) as (st1 & a & Et & Eo). subst oa.
    exists st1, a. split; [assumption|].
    destruct (ack_bytes a) as [|b0 bs] eqn:Eb; [discriminate|].
    inversion H; subst. split; [discriminate|]. split; [reflexivity|]. split.
    - intros Es. rewrite Es. reflexivity.
    - unfold Ics20.core_recv, Ics20.bare. rewrite Et, Eb. eauto.
  Qed.

  (** conversely: whenever the bare application's acknowledgement would be committed, the middleware's is the same
      (unless the hook panics, which the hypotheses of [middleware_no_new_panic] exclude) *)
  Lemma core_same_ack_as_bare : forall st pkt sb oc st2 oa hp,
    core_recv bare st pkt = Ok (sb, oc) ->
    middleware st pkt = Ok (st2, oa, hp) ->
    exists sm, core_recv middleware st pkt = Ok (sm, oc) /\ oc <> None.
  Proof.
    intros st pkt sb oc st2 oa hp Hb Hm. unfold Ics20.core_recv in *. rewrite Hm.
    destruct (middleware_transparent _ _ _ _ _ Hm) as (st1 & a & Et & Eo). subst oa.
    unfold Ics20.bare in Hb. rewrite Et in Hb.
    destruct (ack_bytes a); [discriminate|]. inversion Hb; subst. eexists; split; [reflexivity|discriminate].
  Qed.

  (** ** Histories: in EVERY history of received packets, from every initial state, each packet that ibc-go core
      processes is committed with the transfer application's acknowledgement for the state that packet met — the
      very commitment core would store around the bare module in that state — and a packet acknowledged with an
      error leaves the state it met. *)
  Lemma history_acks : forall pkts st s p st' oc,
    In (s, p, Ok (st', oc)) (core_history state sha256 middleware st pkts) ->
    exists st1 a, transfer_recv s p = Ok (st1, a) /\ ack_bytes a <> [] /\
      oc = Some (sha256 (ack_bytes a)) /\
      (ack_success a = false -> st' = s) /\
      exists st'', core_recv bare s p = Ok (st'', oc).
  Proof.
    induction pkts as [|q t IH]; intros st s p st' oc H; cbn [core_history In] in H; [contradiction|].
    destruct H as [H|H].
    - injection H as E1 E2 E3. subst s p. apply core_commits_transfer_ack. exact E3.
    - eapply IH. exact H.
  Qed.

  (** no packet of a history is left unacknowledged: whenever core returns for it, something is stored *)
  Lemma history_no_silent_packet : forall pkts st s p st',
    ~ In (s, p, Ok (st', None)) (core_history state sha256 middleware st pkts).
  Proof.
    intros pkts st s p st' H. apply history_acks in H. destruct H as (st1 & a & _ & _ & H & _). discriminate.
  Qed.

  (** ** The code before 6fec139: a successful transfer is never acknowledged, although its effects are written *)
  Lemma old_never_acknowledges : forall st pkt st1 a st' oc,
    transfer_recv st pkt = Ok (st1, a) -> ack_success a = true ->
    core_recv middleware_old st pkt = Ok (st', oc) ->
    oc = None /\ exists hp, middleware_old st pkt = Ok (st', None, hp).
  Proof.
    intros st pkt st1 a st' oc Et Es H. unfold Ics20.core_recv in H.
    destruct (middleware_old st pkt) as [[[s2 oa] hp]| |] eqn:Em; try discriminate.
    unfold Ics20.middleware_old, middleware_gen in Em. rewrite Et, Es in Em. cbn [negb] in Em.
    destruct (hook_old st1 pkt a) as [[[s o] p]| |] eqn:Eh; try discriminate.
    inversion Em; subst. apply hook_gen_spec in Eh. destruct Eh as [Eo _]. subst oa.
    inversion H; subst. split; [reflexivity|]. eauto.
  Qed.

  (** ** The other callbacks *)
  Lemma on_ack_transparent : forall app_ack st pkt a, on_ack_gen state app_ack st pkt a = app_ack st pkt a.
  Proof. intros. unfold on_ack_gen. destruct (app_ack st pkt a); reflexivity. Qed.

  Lemma on_timeout_transparent : forall app_to st pkt, on_timeout_gen state app_to st pkt = app_to st pkt.
  Proof. reflexivity. Qed.
End Generic.
