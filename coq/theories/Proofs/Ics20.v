(** Proofs about the ICS-20 middleware model (property C16), generic part: any state type, any wrapped
    application, any conversion function. *)
From Coq Require Import List ZArith Bool Lia.
From Teleport Require Import Base.Bytes Base.Outcome Model.Ics20.
Import ListNotations.
Local Open Scope Z_scope.

(** * Denomination strings *)
Lemma sls_app : forall a b,
  split_last_slash (a ++ slash :: b) =
  match split_last_slash b with
  | Some (p, q) => Some (a ++ slash :: p, q)
  | None => Some (a, b)
  end.
Proof.
  induction a as [|c a IH]; intros b.
  - cbn [app split_last_slash]. destruct (split_last_slash b) as [[p q]|]; [reflexivity|].
    unfold slash. reflexivity.
  - cbn [app]. cbn [split_last_slash]. rewrite IH.
    destruct (split_last_slash b) as [[p q]|]; reflexivity.
Qed.

(** the string the hook hashes always has a non-empty path, so the hook's denomination is always "ibc/HASH" *)
Lemma ibc_denom_shape : forall sha port chan denom,
  ibc_denom sha port chan denom = ibc_slash ++ hex_upper (sha (denom_prefix port chan ++ denom)).
Proof.
  intros sha port chan denom. unfold ibc_denom, trace_ibc_denom, denom_prefix.
  replace ((port ++ [slash] ++ chan ++ [slash]) ++ denom) with (port ++ slash :: (chan ++ slash :: denom))
    by (rewrite <- !app_assoc; reflexivity).
  rewrite sls_app, sls_app.
  destruct (split_last_slash denom) as [[p q]|].
  - destruct port; cbn [app]; [|].
    + rewrite <- (sls_join_eq chan p q) at 1. all: fail.
Abort.
