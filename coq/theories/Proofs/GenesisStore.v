(** Sorted association lists as KV stores: a sequence of [store.Set] calls that
    writes exactly the entries of a strictly sorted store, in ANY order and with
    any repetitions, rebuilds that store ([apply_writes_exact]).  Generic part of
    the proof of the genesis round trip (C13). *)
From Teleport Require Import Base.Bytes Base.Outcome Base.AList Model.Genesis.

Lemma bytes_ltb_lt a b : bytes_ltb a b = true <-> bytes_cmp a b = Lt.
Proof. unfold bytes_ltb. destruct (bytes_cmp a b); split; congruence. Qed.

Lemma bytes_cmp_refl a : bytes_cmp a a = Eq.
Proof. apply bytes_cmp_eq. reflexivity. Qed.

Lemma bytes_cmp_gt_lt a b : bytes_cmp a b = Gt -> bytes_cmp b a = Lt.
Proof. intro H. rewrite bytes_cmp_antisym, H. reflexivity. Qed.

Lemma bytes_cmp_lt_gt a b : bytes_cmp a b = Lt -> bytes_cmp b a = Gt.
Proof. intro H. rewrite bytes_cmp_antisym, H. reflexivity. Qed.

Lemma bytes_lt_neq a b : bytes_cmp a b = Lt -> a <> b.
Proof. intros H E. subst. rewrite bytes_cmp_refl in H. discriminate. Qed.

(** every key of [s] is greater than [k] *)
Definition all_gt (k : bytes) (s : store) : bool := forallb (fun kv => bytes_ltb k (fst kv)) s.

Lemma sorted_cons k v s : sorted ((k, v) :: s) = true <-> all_gt k s = true /\ sorted s = true.
Proof.
  revert k v. induction s as [|[k' v'] s IH]; intros k v.
  - cbn. tauto.
  - change (sorted ((k, v) :: (k', v') :: s)) with (bytes_ltb k k' && sorted ((k', v') :: s)).
    cbn [all_gt forallb fst]. rewrite !andb_true_iff. split.
    + intros [L S]. split; [|exact S]. split; [exact L|].
      apply IH in S as [G _]. unfold all_gt in *. rewrite forallb_forall in *. intros x Hx.
      apply bytes_ltb_lt. apply bytes_ltb_lt in L. eapply bytes_cmp_lt_trans; [exact L|]. apply bytes_ltb_lt. apply G. exact Hx.
    + intros [[L _] S]. split; assumption.
Qed.

Lemma sorted_tail k v s : sorted ((k, v) :: s) = true -> sorted s = true.
Proof. intro H. apply sorted_cons in H. tauto. Qed.

Lemma all_gt_aget k s : all_gt k s = true -> aget k s = None.
Proof.
  unfold all_gt. induction s as [|[k' v'] s IH]; cbn; [reflexivity|].
  intro H. apply andb_true_iff in H as [L R]. apply bytes_ltb_lt in L.
  destruct (bytes_eqb_spec k k') as [->|N]; [rewrite bytes_cmp_refl in L; discriminate | apply IH; exact R].
Qed.

Lemma all_gt_trans k k' s : bytes_cmp k k' = Lt -> all_gt k' s = true -> all_gt k s = true.
Proof.
  unfold all_gt. rewrite !forallb_forall. intros L H x Hx. apply bytes_ltb_lt.
  eapply bytes_cmp_lt_trans; [exact L|]. apply bytes_ltb_lt. apply H. exact Hx.
Qed.

Lemma all_gt_in k s x : all_gt k s = true -> In x s -> bytes_cmp k (fst x) = Lt.
Proof. unfold all_gt. rewrite forallb_forall. intros H Hx. apply bytes_ltb_lt. apply H. exact Hx. Qed.

Lemma aget_some_in (s : store) k v : aget k s = Some v -> In (k, v) s.
Proof.
  induction s as [|[k' v'] s IH]; cbn; [discriminate|].
  destruct (bytes_eqb_spec k k') as [->|N]; intro H.
  - inversion H; subst. left; reflexivity.
  - right. apply IH. exact H.
Qed.

Lemma aget_in_sorted s k v : sorted s = true -> In (k, v) s -> aget k s = Some v.
Proof.
  induction s as [|[k' v'] s IH]; intros S H; [destruct H|].
  apply sorted_cons in S as [G S]. cbn. destruct H as [H|H].
  - inversion H; subst. rewrite bytes_eqb_refl. reflexivity.
  - destruct (bytes_eqb_spec k k') as [->|N].
    + pose proof (all_gt_in _ _ _ G H) as L. cbn in L. rewrite bytes_cmp_refl in L. discriminate.
    + apply IH; assumption.
Qed.

Lemma sorted_in_unique s k v v' : sorted s = true -> In (k, v) s -> In (k, v') s -> v = v'.
Proof.
  intros S H1 H2. apply (aget_in_sorted _ _ _ S) in H1. apply (aget_in_sorted _ _ _ S) in H2. congruence.
Qed.

Lemma aget_none_not_in s k v : sorted s = true -> aget k s = None -> ~ In (k, v) s.
Proof. intros S H I. apply (aget_in_sorted _ _ _ S) in I. congruence. Qed.

(** extensionality of strictly sorted lists *)
Lemma sorted_ext s1 s2 : sorted s1 = true -> sorted s2 = true -> (forall k, aget k s1 = aget k s2) -> s1 = s2.
Proof.
  revert s2. induction s1 as [|[k1 v1] s1 IH]; intros [|[k2 v2] s2] S1 S2 E.
  - reflexivity.
  - specialize (E k2). cbn in E. rewrite bytes_eqb_refl in E. discriminate.
  - specialize (E k1). cbn in E. rewrite bytes_eqb_refl in E. discriminate.
  - apply sorted_cons in S1 as [G1 S1]. apply sorted_cons in S2 as [G2 S2].
    destruct (bytes_cmp k1 k2) eqn:C.
    + apply bytes_cmp_eq in C. subst k2.
      pose proof (E k1) as E1. cbn in E1. rewrite bytes_eqb_refl in E1. inversion E1; subst v2.
      f_equal. apply IH; try assumption. intro k. specialize (E k). cbn in E.
      destruct (bytes_eqb_spec k k1) as [Ek|N]; [|exact E].
      rewrite Ek, (all_gt_aget _ _ G1), (all_gt_aget _ _ G2). reflexivity.
    + (* k1 < k2: k1 is not a key of the second list *)
      pose proof (E k1) as E1. cbn in E1. rewrite bytes_eqb_refl in E1.
      destruct (bytes_eqb_spec k1 k2) as [->|N]; [rewrite bytes_cmp_refl in C; discriminate|].
      rewrite (all_gt_aget k1 s2) in E1; [discriminate|]. eapply all_gt_trans; eassumption.
    + apply bytes_cmp_gt_lt in C.
      pose proof (E k2) as E2. cbn in E2. rewrite bytes_eqb_refl in E2.
      destruct (bytes_eqb_spec k2 k1) as [->|N]; [rewrite bytes_cmp_refl in C; discriminate|].
      rewrite (all_gt_aget k2 s1) in E2; [discriminate|]. eapply all_gt_trans; eassumption.
Qed.

Lemma all_gt_aset k k' v s : bytes_cmp k k' = Lt -> all_gt k s = true -> all_gt k (aset k' v s) = true.
Proof.
  intros L. induction s as [|[k2 v2] s IH]; cbn.
  - intros _. apply bytes_ltb_lt in L. rewrite L. reflexivity.
  - intro H. apply andb_true_iff in H as [H1 H2]. apply bytes_ltb_lt in L.
    destruct (bytes_cmp k' k2); cbn; rewrite ?L, ?H1, ?H2, ?IH; auto.
Qed.

Lemma aset_sorted k v s : sorted s = true -> sorted (aset k v s) = true.
Proof.
  induction s as [|[k' v'] s IH]; intro S; [reflexivity|].
  pose proof S as S0. apply sorted_cons in S as [G S]. cbn [aset]. destruct (bytes_cmp k k') eqn:C.
  - apply bytes_cmp_eq in C. subst k'. apply sorted_cons. split; assumption.
  - apply sorted_cons. split; [|exact S0]. cbn. apply bytes_ltb_lt in C. rewrite C. cbn.
    apply bytes_ltb_lt in C. eapply all_gt_trans; eassumption.
  - apply sorted_cons. split; [|apply IH; exact S]. apply all_gt_aset; [apply bytes_cmp_gt_lt; exact C | exact G].
Qed.

Lemma apply_writes_sorted w s : sorted s = true -> sorted (apply_writes w s) = true.
Proof.
  unfold apply_writes. revert s. induction w as [|[k v] w IH]; intros s S; [exact S|].
  cbn. apply IH. apply aset_sorted. exact S.
Qed.

Lemma apply_writes_app w1 w2 s : apply_writes (w1 ++ w2) s = apply_writes w2 (apply_writes w1 s).
Proof. unfold apply_writes. apply fold_left_app. Qed.

(** the last value written under [k] *)
Fixpoint last_write (k : bytes) (w : list (bytes * bytes)) : option bytes :=
  match w with
  | [] => None
  | (k', v) :: r => match last_write k r with
                    | Some x => Some x
                    | None => if bytes_eqb k k' then Some v else None
                    end
  end.

Lemma aget_apply_writes k w s :
  aget k (apply_writes w s) = match last_write k w with Some v => Some v | None => aget k s end.
Proof.
  unfold apply_writes. revert s. induction w as [|[k' v] w IH]; intro s; [reflexivity|].
  cbn [fold_left last_write fst snd]. rewrite IH. destruct (last_write k w); [reflexivity|].
  rewrite aget_aset. destruct (bytes_eqb k k'); reflexivity.
Qed.

Lemma last_write_in k w v : last_write k w = Some v -> In (k, v) w.
Proof.
  induction w as [|[k' v'] w IH]; cbn; [discriminate|].
  destruct (last_write k w) eqn:L.
  - intro H. inversion H; subst. right. apply IH. reflexivity.
  - destruct (bytes_eqb_spec k k') as [->|N]; intro H; [|discriminate]. inversion H; subst. left; reflexivity.
Qed.

Lemma last_write_none k w v : last_write k w = None -> ~ In (k, v) w.
Proof.
  induction w as [|[k' v'] w IH]; cbn; [tauto|].
  destruct (last_write k w) eqn:L; [discriminate|].
  destruct (bytes_eqb_spec k k') as [->|N]; [discriminate|]. intros _ [H|H].
  - inversion H; subst. contradiction.
  - revert H. apply IH. reflexivity.
Qed.

(** Writes that are exactly the entries of a sorted store rebuild it *)
Theorem apply_writes_exact w s :
  sorted s = true ->
  (forall kv, In kv w -> In kv s) ->
  (forall kv, In kv s -> In kv w) ->
  apply_writes w [] = s.
Proof.
  intros S Sound Complete. apply sorted_ext; [apply apply_writes_sorted; reflexivity | exact S |].
  intro k. rewrite aget_apply_writes. destruct (last_write k w) as [v|] eqn:L.
  - apply last_write_in in L. apply Sound in L. symmetry. apply aget_in_sorted; assumption.
  - cbn. destruct (aget k s) as [v|] eqn:G; [|reflexivity].
    apply aget_some_in in G. apply Complete in G. exfalso. eapply last_write_none; eassumption.
Qed.

(** * [ocollect] when every step succeeds *)
Lemma ocollect_total {A B} (f : A -> outcome (option B)) (g : A -> option B) (l : list A) :
  (forall x, In x l -> f x = Ok (g x)) ->
  ocollect f l = Ok (flat_map (fun x => match g x with Some b => [b] | None => [] end) l).
Proof.
  induction l as [|x l IH]; intro H; [reflexivity|].
  cbn [ocollect flat_map]. rewrite (H x (or_introl eq_refl)).
  rewrite IH by (intros y Hy; apply H; right; exact Hy).
  destruct (g x); reflexivity.
Qed.

(** * Sorting and grouping preserve membership *)
Lemma insert_by_name_in {X} (x y : bytes * X) l : In y (insert_by_name x l) <-> y = x \/ In y l.
Proof.
  induction l as [|z l IH]; cbn; [intuition|].
  destruct (bytes_cmp (fst x) (fst z)); cbn; rewrite ?IH; intuition.
Qed.

Lemma sort_by_name_in {X} (y : bytes * X) l : In y (sort_by_name l) <-> In y l.
Proof.
  unfold sort_by_name. induction l as [|z l IH]; cbn; [tauto|].
  rewrite insert_by_name_in, IH. intuition.
Qed.

Lemma group_add_in {X} name (x : X) g n y :
  (exists ys, In (n, ys) (group_add name x g) /\ In y ys) <->
  (n = name /\ y = x) \/ (exists ys, In (n, ys) g /\ In y ys).
Proof.
  induction g as [|[m xs] g IH]; cbn.
  - split.
    + intros [ys [[H|[]] Hy]]. inversion H; subst. destruct Hy as [->|[]]. left; auto.
    + intros [[-> ->]|[ys [[] _]]]. exists [x]. split; [left; reflexivity | left; reflexivity].
  - destruct (bytes_eqb_spec m name) as [->|N]; cbn.
    + split.
      * intros [ys [[H|H] Hy]].
        -- inversion H; subst. apply in_app_or in Hy as [Hy|[->|[]]]; [right; exists xs; auto | left; auto].
        -- right. exists ys. auto.
      * intros [[-> ->]|[ys [[H|H] Hy]]].
        -- exists (xs ++ [x]). split; [left; reflexivity | apply in_or_app; right; left; reflexivity].
        -- inversion H; subst. exists (ys ++ [x]). split; [left; reflexivity | apply in_or_app; left; exact Hy].
        -- exists ys. auto.
    + split.
      * intros [ys [[H|H] Hy]].
        -- inversion H; subst. right. exists ys. auto.
        -- assert (E : exists ys, In (n, ys) (group_add name x g) /\ In y ys) by (exists ys; auto).
           apply IH in E as [E|[zs [E1 E2]]]; [left; exact E | right; exists zs; auto].
      * intros [E|[ys [[H|H] Hy]]].
        -- assert (E' : (n = name /\ y = x) \/ (exists ys, In (n, ys) g /\ In y ys)) by (left; exact E).
           apply IH in E' as [zs [E1 E2]]. exists zs. auto.
        -- inversion H; subst. exists ys. auto.
        -- assert (E' : (n = name /\ y = x) \/ (exists ys, In (n, ys) g /\ In y ys)) by (right; exists ys; auto).
           apply IH in E' as [zs [E1 E2]]. exists zs. auto.
Qed.

Lemma group_by_name_in {X} (l : list (bytes * X)) n y :
  (exists ys, In (n, ys) (group_by_name l) /\ In y ys) <-> In (n, y) l.
Proof.
  unfold group_by_name.
  assert (G : forall g, (exists ys, In (n, ys) (fold_left (fun g nx => group_add (fst nx) (snd nx) g) l g) /\ In y ys) <->
                        In (n, y) l \/ (exists ys, In (n, ys) g /\ In y ys)).
  { induction l as [|[m x] l IH]; intro g; cbn [fold_left].
    - split; [intro H; right; exact H | intros [[]|H]; exact H].
    - rewrite IH. cbn [fst snd]. rewrite group_add_in. cbn. split.
      + intros [H|[[-> ->]|H]]; [left; right; exact H | left; left; reflexivity | right; exact H].
      + intros [[H|H]|H]; [inversion H; subst; right; left; auto | left; exact H | right; right; exact H]. }
  rewrite G. split; [intros [H|[ys [[] _]]]; exact H | intro H; left; exact H].
Qed.
