(** C02 — authenticity: an accepted receive / acknowledgement was verified by the counterparty's client for
    exactly the recomputed (path arguments, value); everything else is rejected without a state change. *)
From Teleport Require Import Base.Bytes Base.Outcome Base.AList Model.Packet Proofs.Packet.
Local Open Scope N_scope.

Section C02.
  Variable P : params.

  (** what "verified" means for a receive in state [s] under environment [env] *)
  Definition recv_verified (env : N) (s : cstate) (m : recv_msg) : Prop :=
    let p := fst (decode P (rm_packet m)) in
    snd (decode P (rm_packet m)) = false /\ validate_packet s p = true /\
    sget (rkey P (triple_of p)) s = None /\
    exists ct bz, aget (p_src p) (st_clients s) = Some ct /\ abi_pack P p = Some bz /\
      client_verify P env (p_src p) ct kind_commit (rm_height m)
                    (if is_tss ct then rm_signer m else rm_proof m)
                    (p_src p) (p_dst p) (p_seq p) (sha256 P bz) = true.

  Definition ack_verified (env : N) (s : cstate) (m : ack_msg) : Prop :=
    let p := fst (decode P (am_packet m)) in
    snd (decode P (am_packet m)) = false /\ validate_packet s p = true /\
    exists ct bz, aget (p_dst p) (st_clients s) = Some ct /\ abi_pack P p = Some bz /\
      sget (ckey P (triple_of p)) s = Some (sha256 P bz) /\
      client_verify P env (p_dst p) ct kind_ack (am_height m)
                    (if is_tss ct then am_signer m else am_proof m)
                    (p_src p) (p_dst p) (p_seq p) (sha256 P (am_ack m)) = true.

  Lemma recv_accepted_verified env s m cb s' : exec P env s (ARecv m cb) = Ok s' -> recv_verified env s m.
  Proof.
    cbn [exec]. intro H. apply recv_handler_ok in H. cbv zeta in H.
    destruct H as (s1 & relayer & RK & D & _).
    apply recv_keeper_ok in RK. cbv zeta in RK.
    destruct RK as (_ & V & F & ct & bz & C & A & Vf & _).
    unfold recv_verified. cbv zeta. split; [exact D|]. split; [exact V|]. split; [exact F|].
    exists ct, bz. auto.
  Qed.

  Hypothesis sha_nonempty : forall x, sha256 P x <> [].

  Lemma ack_accepted_verified env s m cb1 cb2 cb3 s' :
    exec P env s (AAck m cb1 cb2 cb3) = Ok s' -> ack_verified env s m.
  Proof.
    cbn [exec]. intro H. apply ack_handler_ok in H. cbv zeta in H.
    destruct H as (s1 & a & AK & _).
    apply ack_keeper_ok in AK. cbv zeta in AK.
    destruct AK as (D & V & bz & ct & A & E & C & Vf & _).
    unfold ack_verified. cbv zeta. split; [exact D|]. split; [exact V|].
    exists ct, bz. split; [exact C|]. split; [exact A|]. split; [|exact Vf].
    unfold triple_of. cbn [ckey].
    destruct (sget (commitment_key P _ _ _) s) as [c|].
    - apply bytes_eqb_eq in E. congruence.
    - apply bytes_eqb_eq in E. symmetry in E. apply sha_nonempty in E. contradiction.
  Qed.

  Lemma rejected_unchanged s o : snd (step P s o) = false -> fst (step P s o) = s.
  Proof. unfold step. destruct (deliver P (fst o) s (snd o)); cbn; [discriminate | reflexivity | reflexivity]. Qed.

  Lemma step_accepted s o : snd (step P s o) = true -> exec P (fst o) s (snd o) = Ok (fst (step P s o)).
  Proof.
    unfold step. destruct (deliver P (fst o) s (snd o)) eqn:D; cbn; [intros _; apply deliver_ok in D; exact D | discriminate | discriminate].
  Qed.

  (** every message that is not verified is rejected and changes nothing *)
  Lemma unverified_recv_rejected env s m cb : ~ recv_verified env s m -> step P s (env, ARecv m cb) = (s, false).
  Proof.
    intro N. apply step_rejected. intros s' E. apply N. eapply recv_accepted_verified; exact E.
  Qed.

  Lemma unverified_ack_rejected env s m cb1 cb2 cb3 :
    ~ ack_verified env s m -> step P s (env, AAck m cb1 cb2 cb3) = (s, false).
  Proof.
    intro N. apply step_rejected. intros s' E. apply N. eapply ack_accepted_verified; exact E.
  Qed.

  (** altered message: the client does not verify the recomputed commitment of the altered packet / proof / height *)
  Lemma altered_recv_rejected env s m cb :
    (forall ct bz, aget (p_src (fst (decode P (rm_packet m)))) (st_clients s) = Some ct ->
                   abi_pack P (fst (decode P (rm_packet m))) = Some bz ->
                   client_verify P env (p_src (fst (decode P (rm_packet m)))) ct kind_commit (rm_height m)
                     (if is_tss ct then rm_signer m else rm_proof m)
                     (p_src (fst (decode P (rm_packet m)))) (p_dst (fst (decode P (rm_packet m))))
                     (p_seq (fst (decode P (rm_packet m)))) (sha256 P bz) = false) ->
    step P s (env, ARecv m cb) = (s, false).
  Proof.
    intro A. apply unverified_recv_rejected. intros (_ & _ & _ & ct & bz & C & Pk & V).
    rewrite (A ct bz C Pk) in V. discriminate.
  Qed.

  Lemma altered_ack_rejected env s m cb1 cb2 cb3 :
    (forall ct bz, aget (p_dst (fst (decode P (am_packet m)))) (st_clients s) = Some ct ->
                   abi_pack P (fst (decode P (am_packet m))) = Some bz ->
                   sget (ckey P (triple_of (fst (decode P (am_packet m))))) s = Some (sha256 P bz) ->
                   client_verify P env (p_dst (fst (decode P (am_packet m)))) ct kind_ack (am_height m)
                     (if is_tss ct then am_signer m else am_proof m)
                     (p_src (fst (decode P (am_packet m)))) (p_dst (fst (decode P (am_packet m))))
                     (p_seq (fst (decode P (am_packet m)))) (sha256 P (am_ack m)) = false) ->
    step P s (env, AAck m cb1 cb2 cb3) = (s, false).
  Proof.
    intro A. apply unverified_ack_rejected. intros (_ & _ & ct & bz & C & Pk & St & V).
    rewrite (A ct bz C Pk St) in V. discriminate.
  Qed.
End C02.
