(** ABI head/tail encoding: the decoder of go-ethereum (transcribed in
    Model/Abi.v) inverts the encoder, for every list of typed values. *)
From Coq Require Import ZifyN ZifyNat.
From Teleport Require Import Base.Bytes Base.Outcome Base.Fmt Base.AbiSchema Model.Abi.
Local Open Scope N_scope.

(** * Lengths and slices *)

Lemma lenN_app a b : lenN (a ++ b) = lenN a + lenN b.
Proof. unfold lenN. rewrite app_length. lia. Qed.

Lemma lenN_nil : lenN [] = 0.
Proof. reflexivity. Qed.

Lemma word_length n : length (word n) = 32%nat.
Proof. apply be_bytes_length. Qed.

Lemma lenN_word n : lenN (word n) = 32.
Proof. unfold lenN. rewrite word_length. reflexivity. Qed.

Lemma pow256_32 : 256 ^ N.of_nat 32 = 115792089237316195423570985008687907853269984665640564039457584007913129639936.
Proof. reflexivity. Qed.

Lemma two63_lt_word : two63 < 256 ^ N.of_nat 32.
Proof. rewrite pow256_32. reflexivity. Qed.

Lemma be_val_word n : n < two63 -> be_val (word n) = n.
Proof. intro H. apply be_val_bytes_small. pose proof two63_lt_word. lia. Qed.

Lemma be_val_word64 n : n < two64 -> be_val (word n) = n.
Proof.
  intro H. apply be_val_bytes_small. rewrite pow256_32. unfold two64 in H. lia.
Qed.

Lemma slice_at (a w c : bytes) : slice (a ++ w ++ c) (lenN a) (lenN w) = w.
Proof.
  unfold slice, lenN. rewrite !Nnat.Nat2N.id.
  rewrite skipn_app, skipn_all, Nat.sub_diag. cbn [skipn app].
  rewrite firstn_app, firstn_all, Nat.sub_diag. cbn [firstn]. apply app_nil_r.
Qed.

Lemma slice_at' (a w c : bytes) p n : p = lenN a -> n = lenN w -> slice (a ++ w ++ c) p n = w.
Proof. intros -> ->. apply slice_at. Qed.

(** * The encoder *)

Lemma head_of_length v off : length (head_of v off) = 32%nat.
Proof. destruct v; apply word_length. Qed.

Lemma heads_length vs off : lenN (heads vs off) = 32 * N.of_nat (length vs).
Proof.
  revert off; induction vs as [|v r IH]; intro off; cbn [heads]; [reflexivity|].
  rewrite lenN_app, IH. unfold lenN. rewrite head_of_length. cbn [length]. lia.
Qed.

Lemma tails_app a b : tails (a ++ b) = tails a ++ tails b.
Proof. unfold tails. apply flat_map_app. Qed.

Lemma heads_app a b off : heads (a ++ b) off = heads a off ++ heads b (off + lenN (tails a)).
Proof.
  revert off; induction a as [|v a IH]; intro off; cbn [app heads].
  - cbn. rewrite N.add_0_r. reflexivity.
  - rewrite IH, <- app_assoc. do 3 f_equal.
    change (tails (v :: a)) with (tail_of v ++ tails a). rewrite lenN_app. unfold lenN. lia.
Qed.

Lemma lenN_enc_dyn s : 32 + lenN s <= lenN (enc_dyn s).
Proof. unfold enc_dyn. rewrite !lenN_app, lenN_word. lia. Qed.

(** * One field *)

Lemma dyn_slices A s R off : off = lenN A ->
  slice (A ++ enc_dyn s ++ R) off 32 = word (lenN s) /\ slice (A ++ enc_dyn s ++ R) (off + 32) (lenN s) = s.
Proof.
  intros ->. unfold enc_dyn. change (N.of_nat (length s)) with (lenN s). rewrite <- !app_assoc. split.
  - apply slice_at'; [reflexivity | rewrite lenN_word; reflexivity].
  - rewrite (app_assoc A (word (lenN s))). apply slice_at'; [|reflexivity].
    rewrite lenN_app, lenN_word. reflexivity.
Qed.

(** the tuple encoding split around the field under consideration *)
Definition foff (HD HR TD : bytes) : N := lenN HD + 32 + lenN HR + lenN TD.
Definition fT (HD HR TD TR : bytes) (v : fval) : bytes :=
  HD ++ head_of v (foff HD HR TD) ++ HR ++ TD ++ tail_of v ++ TR.

Lemma field_word HD HR TD TR v i : lenN HD = i * 32 -> slice (fT HD HR TD TR v) (i * 32) 32 = head_of v (foff HD HR TD).
Proof.
  intro Hi. unfold fT. apply slice_at'; [symmetry; exact Hi|].
  unfold lenN. rewrite head_of_length. reflexivity.
Qed.

Lemma T_len HD HR TD TR v :
  lenN (fT HD HR TD TR v) = lenN HD + 32 + lenN HR + lenN TD + lenN (tail_of v) + lenN TR.
Proof.
  unfold fT. rewrite !lenN_app. unfold lenN at 2. rewrite head_of_length.
  change (N.of_nat 32) with 32. lia.
Qed.

Lemma T_dyn HD HR TD TR v :
  fT HD HR TD TR v = (HD ++ head_of v (foff HD HR TD) ++ HR ++ TD) ++ tail_of v ++ TR /\
  lenN (HD ++ head_of v (foff HD HR TD) ++ HR ++ TD) = foff HD HR TD.
Proof.
  split; [unfold fT; rewrite <- !app_assoc; reflexivity|].
  rewrite !lenN_app. unfold lenN at 2. rewrite head_of_length. unfold foff. change (N.of_nat 32) with 32. lia.
Qed.

Lemma dec_dyn_ok HD HR TD TR v i s (mk : bytes -> fval) :
  lenN HD = i * 32 -> lenN (fT HD HR TD TR v) < two63 ->
  tail_of v = enc_dyn s -> head_of v (foff HD HR TD) = word (foff HD HR TD) ->
  (let T := fT HD HR TD TR v in
   let oe := be_val (slice T (i * 32) 32) + 32 in
    if lenN T <? oe then Err else
    if two63 <=? oe then Err else
    let ln := be_val (slice T (oe - 32) 32) in
    let total := oe + ln in
    if two63 <=? total then Err else
    if lenN T <? total then Err else
    Ok (mk (slice T oe ln))) = Ok (mk s).
Proof.
  intros Hi Hb Et Eh. pose proof (T_len HD HR TD TR v) as TL. rewrite Et in TL. pose proof (lenN_enc_dyn s) as LE.
  destruct (T_dyn HD HR TD TR v) as [TD1 TD2]. rewrite Et in TD1.
  destruct (dyn_slices _ s TR (foff HD HR TD) (eq_sym TD2)) as [S1 S2]. rewrite <- TD1 in S1, S2.
  cbv zeta. rewrite (field_word _ _ _ _ _ _ Hi), Eh.
  assert (Eo : foff HD HR TD = lenN HD + 32 + lenN HR + lenN TD) by reflexivity.
  set (T := fT HD HR TD TR v) in *. set (off := foff HD HR TD) in *.
  rewrite be_val_word by lia.
  replace (lenN T <? off + 32) with false by (symmetry; apply N.ltb_ge; lia).
  replace (two63 <=? off + 32) with false by (symmetry; apply N.leb_gt; lia).
  replace (off + 32 - 32) with off by lia.
  rewrite S1. rewrite be_val_word by lia.
  replace (two63 <=? off + 32 + lenN s) with false by (symmetry; apply N.leb_gt; lia).
  replace (lenN T <? off + 32 + lenN s) with false by (symmetry; apply N.ltb_ge; lia).
  rewrite S2. reflexivity.
Qed.

Lemma dec_field_ok HD HR TD TR v i t :
  lenN HD = i * 32 -> lenN (fT HD HR TD TR v) < two63 -> typed_val t v = true ->
  dec_field t i (fT HD HR TD TR v) = Ok v.
Proof.
  intros Hi Hb Ty. unfold dec_field. pose proof (T_len HD HR TD TR v) as TL.
  replace (lenN (fT HD HR TD TR v) <? i * 32 + 32) with false by (symmetry; apply N.ltb_ge; lia).
  destruct t; destruct v as [n|s|s]; cbn in Ty; try discriminate.
  - (* uint64 *)
    rewrite (field_word _ _ _ _ _ _ Hi). cbn [head_of].
    apply N.ltb_lt in Ty. rewrite (be_val_word64 n Ty). rewrite N.mod_small by exact Ty. reflexivity.
  - apply (dec_dyn_ok HD HR TD TR (FS s) i s FS); auto.
  - apply (dec_dyn_ok HD HR TD TR (FB s) i s FB); auto.
Qed.

(** * All fields: accumulator lemma over (done, todo) *)

Lemma dec_fields_ok : forall todo all done ts,
  all = done ++ todo -> typed_vals ts todo = true ->
  lenN (enc_tuple all) < two63 ->
  dec_fields ts (N.of_nat (length done)) (enc_tuple all) = Ok todo.
Proof.
  induction todo as [|v r IH]; intros all done ts E Ty B.
  - destruct ts; [reflexivity | discriminate].
  - destruct ts as [|t ts]; [discriminate|]. cbn in Ty. apply andb_true_iff in Ty as [Tv Tr].
    cbn [dec_fields].
    set (H := 32 * N.of_nat (length all)).
    set (HD := heads done H). set (HR := heads r (H + lenN (tails done) + lenN (tail_of v))).
    set (TD := tails done). set (TR := tails r).
    assert (S : enc_tuple all = fT HD HR TD TR v).
    { unfold enc_tuple, fT, foff. fold H. subst all. rewrite heads_app, tails_app. cbn [heads].
      change (tails (v :: r)) with (tail_of v ++ tails r).
      rewrite <- !app_assoc. fold HD TD TR HR. do 2 f_equal.
      f_equal. unfold HD, HR. rewrite !heads_length. unfold H. rewrite app_length. cbn [length]. lia. }
    rewrite S.
    rewrite dec_field_ok.
    + cbn [obind]. rewrite <- S.
      replace (N.of_nat (length done) + 1) with (N.of_nat (length (done ++ [v]))) by (rewrite app_length; cbn [length]; lia).
      rewrite (IH all (done ++ [v]) ts); [reflexivity | | exact Tr | exact B].
      subst all. rewrite <- app_assoc. reflexivity.
    + unfold HD. rewrite heads_length. lia.
    + rewrite <- S. exact B.
    + exact Tv.
Qed.

(** * ABI round trip for every list of typed values *)

Theorem abi_unpack_pack ts vs :
  typed_vals ts vs = true -> lenN (abi_pack vs) < two63 -> abi_unpack ts (abi_pack vs) = Ok vs.
Proof.
  intros Ty B. unfold abi_pack in *. rewrite lenN_app, lenN_word in B.
  unfold abi_unpack.
  destruct (word 32 ++ enc_tuple vs) as [|b0 l0] eqn:E.
  { apply (f_equal (@length byte)) in E. rewrite app_length, word_length in E. discriminate. }
  rewrite <- E. clear E b0 l0.
  replace (lenN (word 32 ++ enc_tuple vs) <? 32) with false
    by (symmetry; apply N.ltb_ge; rewrite lenN_app, lenN_word; lia).
  assert (S : slice (word 32 ++ enc_tuple vs) 0 32 = word 32).
  { rewrite <- (app_nil_l (word 32 ++ enc_tuple vs)). apply slice_at'; [reflexivity | rewrite lenN_word; reflexivity]. }
  rewrite S, be_val_word by reflexivity.
  replace (lenN (word 32 ++ enc_tuple vs) <? 32) with false
    by (symmetry; apply N.ltb_ge; rewrite lenN_app, lenN_word; lia).
  change (two63 <=? 32) with false. cbn iota.
  replace (skipn (N.to_nat 32) (word 32 ++ enc_tuple vs)) with (enc_tuple vs).
  - apply (dec_fields_ok vs vs [] ts); [reflexivity | exact Ty | lia].
  - change (N.to_nat 32) with 32%nat. rewrite <- (word_length 32) at 1.
    rewrite skipn_app, skipn_all, Nat.sub_diag. reflexivity.
Qed.
