(** Proofs about Model/Lifecycle.v (property C18): store algebra, the installed-client specification and
    the lifecycle theorems.  Statements are collected in Props/C18.v. *)
From Teleport Require Import Base.Bytes Base.Outcome Base.AList Model.Lifecycle.
Local Open Scope N_scope.

(** * Decidable equalities *)
Lemma h_eqb_spec a b : reflect (a = b) (h_eqb a b).
Proof.
  destruct a as [a1 a2], b as [b1 b2]; unfold h_eqb; cbn.
  destruct (N.eqb_spec a1 b1), (N.eqb_spec a2 b2); cbn; constructor; congruence.
Qed.

Lemma h_eqb_refl a : h_eqb a a = true.
Proof. destruct (h_eqb_spec a a); congruence. Qed.

Lemma ckey_eqb_spec a b : reflect (a = b) (ckey_eqb a b).
Proof.
  destruct a, b; cbn; try (constructor; congruence);
    try (destruct (h_eqb_spec h h0); constructor; congruence).
  - destruct (bytes_eqb_spec hash hash0), (N.eqb_spec n n0); cbn; constructor; congruence.
  - destruct (bytes_eqb_spec root root0), (N.eqb_spec n n0); cbn; constructor; congruence.
Qed.

Lemma ckey_eqb_refl a : ckey_eqb a a = true.
Proof. destruct (ckey_eqb_spec a a); congruence. Qed.

Lemma ckey_eqb_sym a b : ckey_eqb a b = ckey_eqb b a.
Proof. destruct (ckey_eqb_spec a b), (ckey_eqb_spec b a); congruence. Qed.

Lemma ctype_eqb_spec a b : reflect (a = b) (ctype_eqb a b).
Proof. destruct a, b; cbn; constructor; congruence. Qed.

Lemma ctype_eqb_refl a : ctype_eqb a a = true.
Proof. destruct a; reflexivity. Qed.

(** * Store algebra *)
Lemma sget_sdel_same k s : sget k (sdel k s) = None.
Proof.
  induction s as [|[k' v] s IH]; cbn; [reflexivity|].
  destruct (ckey_eqb_spec k k') as [->|N]; cbn; [exact IH|].
  destruct (ckey_eqb_spec k k'); [contradiction | exact IH].
Qed.

Lemma sget_sdel_other k k2 s : k2 <> k -> sget k2 (sdel k s) = sget k2 s.
Proof.
  intro N. induction s as [|[k' v] s IH]; cbn; [reflexivity|].
  destruct (ckey_eqb_spec k k') as [->|N2]; cbn.
  - destruct (ckey_eqb_spec k2 k'); [contradiction | exact IH].
  - destruct (ckey_eqb k2 k'); [reflexivity | exact IH].
Qed.

Lemma sget_sset_same k v s : sget k (sset k v s) = Some v.
Proof. unfold sset; cbn. rewrite ckey_eqb_refl. reflexivity. Qed.

Lemma sget_sset_other k k2 v s : k2 <> k -> sget k2 (sset k v s) = sget k2 s.
Proof.
  intro N. unfold sset; cbn. destruct (ckey_eqb_spec k2 k); [contradiction|]. apply sget_sdel_other; exact N.
Qed.

Lemma sget_sset k k2 v s : sget k2 (sset k v s) = if ckey_eqb k2 k then Some v else sget k2 s.
Proof.
  destruct (ckey_eqb_spec k2 k) as [->|N]; [apply sget_sset_same | apply sget_sset_other; exact N].
Qed.

Lemma sget_sdel k k2 s : sget k2 (sdel k s) = if ckey_eqb k2 k then None else sget k2 s.
Proof.
  destruct (ckey_eqb_spec k2 k) as [->|N]; [apply sget_sdel_same | apply sget_sdel_other; exact N].
Qed.

Lemma sget_In k s v : sget k s = Some v -> In (k, v) s.
Proof.
  induction s as [|[k' v'] s IH]; cbn; [discriminate|].
  destruct (ckey_eqb_spec k k') as [->|N]; intro H; [left; congruence | right; auto].
Qed.

Lemma In_sget k v s : In (k, v) s -> exists v', sget k s = Some v'.
Proof.
  induction s as [|[k' v'] s IH]; cbn; [contradiction|].
  intros [E|H].
  - inversion E; subst. rewrite ckey_eqb_refl. eauto.
  - destruct (ckey_eqb k k'); eauto.
Qed.

Lemma In_sdel kv k s : In kv (sdel k s) -> In kv s /\ fst kv <> k.
Proof.
  unfold sdel. rewrite filter_In. intros [H1 H2]. split; [exact H1|].
  destruct (ckey_eqb_spec k (fst kv)); [discriminate | congruence].
Qed.

Lemma In_sset kv k v s : In kv (sset k v s) -> kv = (k, v) \/ (In kv s /\ fst kv <> k).
Proof. unfold sset; cbn. intros [E|H]; [left; congruence | right; apply In_sdel; exact H]. Qed.

(** * Whole state *)
Lemma store_of_with_same st n s : store_of (with_store st n s) n = s.
Proof. unfold store_of, with_store; cbn. rewrite aget_aset_same. reflexivity. Qed.

Lemma store_of_with_other st n m s : m <> n -> store_of (with_store st n s) m = store_of st m.
Proof. intro N. unfold store_of, with_store; cbn. rewrite aget_aset_other by exact N. reflexivity. Qed.

Lemma relayers_with st n s : relayers (with_store st n s) = relayers st.
Proof. reflexivity. Qed.

Lemma now_with st n s : now (with_store st n s) = now st.
Proof. reflexivity. Qed.

(** * The wrappers *)
Lemma failed_step_unchanged cf st o : fst (step cf st o) <> 0%nat -> snd (step cf st o) = st.
Proof. unfold step. destruct (exec cf st o); cbn; intro H; [congruence | reflexivity | reflexivity]. Qed.

Lemma step_ok_iff cf st o st' : step cf st o = (0%nat, st') <-> exec cf st o = Ok st'.
Proof.
  unfold step. destruct (exec cf st o); split; intro H; try discriminate; inversion H; reflexivity.
Qed.

(** * Names *)
Lemma create_rejected cf st p :
  valid_name (p_name p) = false \/ has_client st (p_name p) = true -> step cf st (Create p) = (1%nat, st).
Proof.
  intros [H|H]; unfold step, exec; rewrite H; cbn; [reflexivity|].
  destruct (valid_name (p_name p) && p_validate p); reflexivity.
Qed.

(** * What "installed" means *)

(** The proposal's client state is stored, its consensus state is stored at the latest height (none for a
    TSS client), and the metadata the type's verification and update functions read for that height exist. *)
Definition metadata (tnow : N) (c : client_state) (s : cstore) : Prop :=
  match c with
  | ClTm latest _ _ _ _ => sget (KPTime latest) s = Some (VTime tnow) /\ sget (KIter latest) s = Some (VRefCons latest)
  | ClBsc hd _ _ _ _ =>
      exists sg vs, eh_signer hd = Some sg /\ eh_vals hd = Some vs /\
                    sget (KSigner (eh_height hd)) s = Some (VAddr sg) /\ sget KPending s = Some (VVals vs)
  | ClEth hd _ _ _ =>
      sget (KHIdx (eh_hash hd) (snd (eh_height hd))) s = Some (VHeader hd) /\
      sget (KRootMain (hash32 (eh_root hd)) (snd (eh_height hd))) s = Some (VRefHIdx (eh_hash hd) (snd (eh_height hd)))
  | ClTss _ _ => True
  end.

Definition installed (tnow : N) (c : client_state) (cns : cons_state) (s : cstore) : Prop :=
  sget KClient s = Some (VClient c) /\
  (if ctype_eqb (type_of c) TSS then True else sget (KCons (latest_of c)) s = Some (VCons cns)) /\
  metadata tnow c s.

(** The store a create (and a toggle, which starts from an empty store) leaves: exactly these entries. *)
Definition fresh_store (tnow : N) (c : client_state) (cns : cons_state) : cstore :=
  match c with
  | ClTm l _ _ _ _ => [(KCons l, VCons cns); (KIter l, VRefCons l); (KPTime l, VTime tnow); (KClient, VClient c)]
  | ClBsc hd _ _ _ _ =>
      [(KCons (eh_height hd), VCons cns);
       (KPending, VVals (match eh_vals hd with Some vs => vs | None => [] end));
       (KSigner (eh_height hd), VAddr (match eh_signer hd with Some sg => sg | None => [] end));
       (KClient, VClient c)]
  | ClEth hd _ _ _ =>
      [(KCons (eh_height hd), VCons cns);
       (KRootMain (hash32 (eh_root hd)) (snd (eh_height hd)), VRefHIdx (eh_hash hd) (snd (eh_height hd)));
       (KHIdx (eh_hash hd) (snd (eh_height hd)), VHeader hd);
       (KClient, VClient c)]
  | ClTss _ _ => [(KClient, VClient c)]
  end.

(** Content the type can be initialised with (what Initialize / UpgradeState check). *)
Definition installable (c : client_state) : Prop :=
  match c with
  | ClBsc hd epoch _ _ _ =>
      epoch <> 0 /\ snd (eh_height hd) mod epoch = 0 /\ eh_signer hd = Some (eh_coinbase hd) /\ exists vs, eh_vals hd = Some vs
  | _ => True
  end.

Definition well_typed (p : proposal) : Prop := cs_type (p_cons p) = type_of (p_client p).

Lemma fresh_store_installed tnow c cns : installable c -> installed tnow c cns (fresh_store tnow c cns).
Proof.
  intro I. destruct c as [l t d y r | hd e v t r | hd b t r | a r]; unfold installed; cbn.
  - rewrite h_eqb_refl. cbn. repeat split; reflexivity.
  - destruct I as (_ & _ & Hs & vs & Hv). rewrite Hs, Hv. rewrite h_eqb_refl; cbn.
    repeat split; try reflexivity. exists (eh_coinbase hd), vs. repeat split; reflexivity.
  - rewrite h_eqb_refl, !bytes_eqb_refl, !N.eqb_refl. cbn. repeat split; reflexivity.
  - repeat split.
Qed.

(** * Create *)
Lemma create_client_fresh tnow c cns :
  installable c -> cs_type cns = type_of c ->
  create_client tnow c cns [] = Ok (fresh_store tnow c cns).
Proof.
  intros I T. unfold create_client.
  destruct c as [l t d y r | hd e v t r | hd b t r | a r]; cbn in *; rewrite T; cbn.
  - reflexivity.
  - destruct I as (He & Hm & Hs & vs & Hv). unfold bsc_install.
    destruct (N.eqb_spec e 0); [contradiction|]. rewrite Hm. cbn. rewrite Hs, bytes_eqb_refl, Hv. cbn. reflexivity.
  - reflexivity.
  - reflexivity.
Qed.

(** In the states the lifecycle reaches, a chain name without client has an empty client store. *)
Definition wf_state (st : state) : Prop := forall n, has_client st n = false -> store_of st n = [].

Lemma create_succeeds cf st p :
  valid_name (p_name p) = true -> p_validate p = true -> has_client st (p_name p) = false ->
  store_of st (p_name p) = [] -> well_typed p -> roots_agree cf p = true -> installable (p_client p) ->
  exec cf st (Create p) = Ok (with_store st (p_name p) (fresh_store (now st) (p_client p) (p_cons p))).
Proof.
  intros Hn Hv Hc He Ht Hr Hi. unfold exec. rewrite Hn, Hv, Hc. cbn.
  unfold types_agree. rewrite Ht, ctype_eqb_refl, orb_true_r. cbn. rewrite Hr. cbn.
  rewrite He, create_client_fresh by assumption. reflexivity.
Qed.

(** * Usability of an installed client: Status and the gates of VerifyPacketCommitment *)
Definition fresh (t : N) (c : client_state) (cns : cons_state) : Prop :=
  match c with
  | ClTm _ trusting _ _ _ => t < cs_ts cns + trusting
  | ClBsc _ _ _ trusting _ | ClEth _ _ trusting _ => evm_expired (cs_ts cns) trusting t = false
  | ClTss _ _ => True
  end.

Lemma get_cons_of t h s cns : sget (KCons h) s = Some (VCons cns) -> cs_type cns = t -> get_cons t h s = Some cns.
Proof. intros H T. unfold get_cons. rewrite H, T, ctype_eqb_refl. reflexivity. Qed.

Lemma installed_active tnow t c cns s :
  installed tnow c cns s -> cs_type cns = type_of c -> fresh t c cns -> status t c s = 0%nat.
Proof.
  intros (Hc & Hk & Hm) T F.
  destruct c as [l tr d y r | hd e v tr r | hd b tr r | a r]; cbn in *.
  - rewrite (get_cons_of TM l s cns Hk T). destruct (N.leb_spec (cs_ts cns + tr) t); [lia | reflexivity].
  - rewrite (get_cons_of BSC _ s cns Hk T), F. reflexivity.
  - rewrite (get_cons_of ETH _ s cns Hk T), F. reflexivity.
  - reflexivity.
Qed.

Lemma sub64_same a : sub64 a a = 0.
Proof.
  unfold sub64. pose proof (N.div_mod' a two64) as D.
  assert (L : a mod two64 < two64) by (apply N.mod_lt; discriminate).
  assert (E : a + two64 - a mod two64 = (a / two64 + 1) * two64).
  { set (q := a / two64) in *. set (m := a mod two64) in *. clearbody q m. unfold two64 in *. lia. }
  rewrite E. apply N.mod_mul. discriminate.
Qed.

Lemma h_lt_irrefl h : h_lt h h = false.
Proof. unfold h_lt. rewrite N.eqb_refl. apply N.ltb_irrefl. Qed.

(** The outcome of VerifyPacketCommitment with an honest proof AT THE INSTALLED HEIGHT, at any later block
    time [t]: never "no consensus state" (3) nor "processed time missing" (4) nor "above the latest height"
    (1); only the delay (5) can stand between the proof and its verification against the installed root. *)
Definition installed_gate (tnow t : N) (fx prf : bytes) (c : client_state) (cns : cons_state) : nat :=
  match c with
  | ClTm _ _ _ delay _ => if (add64 tnow delay <? tnow) || (t <? add64 tnow delay) then 5%nat else root_gate fx cns
  | ClBsc _ _ vals _ _ => 5%nat                                      (* at least one more block is required *)
  | ClEth _ bd _ _ => if 0 <? bd then 5%nat else root_gate_evm fx cns
  | ClTss addr _ => if bytes_eqb prf addr then 0%nat else 7%nat
  end.

Lemma installed_gate_ok tnow t fx prf c cns s :
  installed tnow c cns s -> cs_type cns = type_of c ->
  gate t fx prf c s (latest_of c) = installed_gate tnow t fx prf c cns.
Proof.
  intros (Hc & Hk & Hm) T.
  destruct c as [l tr d y r | hd e v tr r | hd b tr r | a r]; cbn in *.
  - rewrite h_lt_irrefl, (get_cons_of TM l s cns Hk T). destruct Hm as [Hp _]. rewrite Hp. reflexivity.
  - rewrite h_lt_irrefl, N.eqb_refl, (get_cons_of BSC _ s cns Hk T), sub64_same. cbn.
    generalize (lenN v / 2); intro q. destruct (N.ltb_spec 0 (q + 1)); [reflexivity | lia].
  - rewrite h_lt_irrefl, N.eqb_refl, (get_cons_of ETH _ s cns Hk T), sub64_same. reflexivity.
  - reflexivity.
Qed.

(** Tendermint: once the delay has passed the honest proof is checked against the installed root. *)
Lemma installed_gate_tm_after tnow t fx prf l tr d y r cns :
  tnow + y < two64 -> tnow + y <= t ->
  installed_gate tnow t fx prf (ClTm l tr d y r) cns = root_gate fx cns.
Proof.
  intros B L. cbn. unfold add64. rewrite N.mod_small by exact B.
  destruct (N.ltb_spec (tnow + y) tnow); [lia|].
  destruct (N.ltb_spec t (tnow + y)); [lia | reflexivity].
Qed.

(** * Characterisation of create on an empty store *)
Lemma bsc_install_ok hd e s s' :
  bsc_install hd e s = Ok s' ->
  e <> 0 /\ snd (eh_height hd) mod e = 0 /\ eh_signer hd = Some (eh_coinbase hd) /\
  exists vs, eh_vals hd = Some vs /\
             s' = sset KPending (VVals vs) (sset (KSigner (eh_height hd)) (VAddr (eh_coinbase hd)) s).
Proof.
  unfold bsc_install. destruct (N.eqb_spec e 0); [discriminate|].
  destruct (N.eqb_spec (snd (eh_height hd) mod e) 0) as [M|M]; cbn; [|discriminate].
  destruct (eh_signer hd) as [sg|]; [|discriminate].
  destruct (bytes_eqb_spec sg (eh_coinbase hd)) as [->|]; cbn; [|discriminate].
  destruct (eh_vals hd) as [vs|]; [|discriminate].
  intro H; inversion H; subst. repeat split; try assumption. exists vs. split; reflexivity.
Qed.

Lemma create_client_nil_ok tnow c cns s' :
  cs_type cns = type_of c -> create_client tnow c cns [] = Ok s' ->
  installable c /\ s' = fresh_store tnow c cns.
Proof.
  intros T. unfold create_client.
  destruct c as [l t d y r | hd e v t r | hd b t r | a r]; cbn in *; rewrite T; cbn.
  - intro H; inversion H. split; [exact I | reflexivity].
  - destruct (bsc_install hd e (sset KClient (VClient (ClBsc hd e v t r)) [])) eqn:E; cbn; try discriminate.
    intro H; inversion H; subst.
    apply bsc_install_ok in E. destruct E as (He & Hm & Hs & vs & Hv & ->).
    split; [repeat split; eauto|]. rewrite Hs, Hv. reflexivity.
  - intro H; inversion H. split; [exact I | reflexivity].
  - intro H; inversion H. split; [exact I | reflexivity].
Qed.

Lemma create_spec cf st p st' :
  f_cons_type_check cf = true -> wf_state st ->
  exec cf st (Create p) = Ok st' ->
  valid_name (p_name p) = true /\ p_validate p = true /\ has_client st (p_name p) = false /\
  well_typed p /\ installable (p_client p) /\
  st' = with_store st (p_name p) (fresh_store (now st) (p_client p) (p_cons p)).
Proof.
  intros Hf W. unfold exec.
  destruct (valid_name (p_name p)) eqn:Hn; [|discriminate].
  destruct (p_validate p) eqn:Hv; [|discriminate]. cbn.
  destruct (has_client st (p_name p)) eqn:Hc; [discriminate|].
  unfold types_agree. rewrite Hf. cbn.
  destruct (ctype_eqb_spec (cs_type (p_cons p)) (type_of (p_client p))) as [T|]; [|discriminate]. cbn.
  destruct (roots_agree cf p); [|discriminate]. cbn.
  rewrite (W _ Hc).
  destruct (create_client (now st) (p_client p) (p_cons p) []) eqn:E; cbn; try discriminate.
  intro H; inversion H; subst.
  apply create_client_nil_ok in E; [|exact T]. destruct E as [I ->].
  repeat split; assumption.
Qed.

(** * Toggle (repaired: the new type's Initialize on an emptied store) *)
Lemma toggle_client_cleared cf tnow c cns s old :
  f_toggle_new cf = true -> f_toggle_clear cf = true ->
  sget KClient s = Some (VClient old) -> ctype_eqb (type_of old) (type_of c) = false ->
  toggle_client cf tnow c cns s = create_client tnow c cns [].
Proof.
  intros F1 F2 Ho Ht. unfold toggle_client, create_client. rewrite Ho, Ht, F1, F2. reflexivity.
Qed.

Lemma toggle_spec cf st p st' :
  f_toggle_new cf = true -> f_toggle_clear cf = true -> f_cons_type_check cf = true ->
  exec cf st (Toggle p) = Ok st' ->
  exists old, sget KClient (store_of st (p_name p)) = Some (VClient old) /\ type_of old <> type_of (p_client p) /\
    valid_name (p_name p) = true /\ p_validate p = true /\ well_typed p /\ installable (p_client p) /\
    st' = with_store st (p_name p) (fresh_store (now st) (p_client p) (p_cons p)).
Proof.
  intros F1 F2 F3. unfold exec.
  destruct (valid_name (p_name p)) eqn:Hn; [|discriminate].
  destruct (p_validate p) eqn:Hv; [|discriminate]. cbn.
  destruct (has_client st (p_name p)) eqn:Hc; [|discriminate]. cbn.
  unfold types_agree. rewrite F3. cbn.
  destruct (ctype_eqb_spec (cs_type (p_cons p)) (type_of (p_client p))) as [T|]; [|discriminate]. cbn.
  destruct (roots_agree cf p); [|discriminate]. cbn.
  destruct (toggle_client cf (now st) (p_client p) (p_cons p) (store_of st (p_name p))) eqn:E; cbn; try discriminate.
  intro H; inversion H; subst. clear H.
  unfold toggle_client in E.
  destruct (sget KClient (store_of st (p_name p))) as [[old| | | | | | |]|] eqn:Ho; try discriminate.
  destruct (ctype_eqb_spec (type_of old) (type_of (p_client p))) as [|Nt]; [discriminate|].
  rewrite F1, F2 in E.
  change (create_client (now st) (p_client p) (p_cons p) [] = Ok a) in E.
  apply create_client_nil_ok in E; [|exact T]. destruct E as [I ->].
  exists old. repeat split; assumption.
Qed.

Lemma toggle_succeeds cf st p old :
  f_toggle_new cf = true -> f_toggle_clear cf = true ->
  valid_name (p_name p) = true -> p_validate p = true ->
  sget KClient (store_of st (p_name p)) = Some (VClient old) -> type_of old <> type_of (p_client p) ->
  well_typed p -> roots_agree cf p = true -> installable (p_client p) ->
  exec cf st (Toggle p) = Ok (with_store st (p_name p) (fresh_store (now st) (p_client p) (p_cons p))).
Proof.
  intros F1 F2 Hn Hv Ho Nt T Hr I. unfold exec. rewrite Hn, Hv. cbn.
  unfold has_client. rewrite Ho. cbn.
  unfold types_agree. rewrite T, ctype_eqb_refl, orb_true_r. cbn. rewrite Hr. cbn.
  assert (Ht : ctype_eqb (type_of old) (type_of (p_client p)) = false)
    by (destruct (ctype_eqb_spec (type_of old) (type_of (p_client p))); [contradiction | reflexivity]).
  rewrite (toggle_client_cleared cf _ _ _ _ old F1 F2 Ho Ht), create_client_fresh by assumption. reflexivity.
Qed.

(** * Upgrade *)
Ltac sg := repeat (rewrite sget_sset; cbn [ckey_eqb]); rewrite ?h_eqb_refl, ?bytes_eqb_refl, ?N.eqb_refl; cbn [andb].

Lemma upgrade_client_ok cf tnow c cns s s' :
  f_upgrade_tss_nocons cf = true -> f_tm_upgrade_meta cf = true ->
  upgrade_client cf tnow c cns s = Ok s' ->
  exists old, sget KClient s = Some (VClient old) /\ type_of old = type_of c /\ installed tnow c cns s'.
Proof.
  intros F1 F2. unfold upgrade_client.
  destruct (sget KClient s) as [[old| | | | | | |]|] eqn:Ho; try discriminate.
  destruct (ctype_eqb_spec (type_of old) (type_of c)) as [Te|]; [|discriminate]. cbn.
  destruct (upgrade_state cf tnow c s) as [s1| |] eqn:E; cbn; try discriminate.
  rewrite F1. intro H; inversion H; subst; clear H.
  exists old. split; [reflexivity|]. split; [exact Te|].
  destruct c as [l t d y r | hd e v t r | hd b t r | a r]; cbn in *.
  - rewrite F2 in E. inversion E; subst. unfold installed, put_cons, set_tm_meta; cbn. repeat split; sg; reflexivity.
  - assert (X : exists s0, bsc_install hd e s0 = Ok s1).
    { destruct (e =? 0); [discriminate|]. destruct (negb (snd (eh_height hd) mod e =? 0)); [discriminate|].
      destruct (prune_target BSC t tnow s) as [pt| |]; cbn in E; try discriminate. eauto. }
    destruct X as [s0 X]. apply bsc_install_ok in X. destruct X as (He & Hm & Hs & vs & Hv & ->).
    unfold installed, put_cons; cbn. repeat split; sg; try reflexivity.
    exists (eh_coinbase hd), vs. repeat split; try assumption; sg; reflexivity.
  - inversion E; subst. unfold installed, put_cons, eth_install; cbn. repeat split; sg; reflexivity.
  - inversion E; subst. unfold installed; cbn. repeat split; sg; reflexivity.
Qed.

Lemma upgrade_spec cf st p st' :
  f_upgrade_tss_nocons cf = true -> f_tm_upgrade_meta cf = true -> f_cons_type_check cf = true ->
  exec cf st (Upgrade p) = Ok st' ->
  exists old s', sget KClient (store_of st (p_name p)) = Some (VClient old) /\ type_of old = type_of (p_client p) /\
    valid_name (p_name p) = true /\ p_validate p = true /\ well_typed p /\
    st' = with_store st (p_name p) s' /\ installed (now st) (p_client p) (p_cons p) s'.
Proof.
  intros F1 F2 F3. unfold exec.
  destruct (valid_name (p_name p)) eqn:Hn; [|discriminate].
  destruct (p_validate p) eqn:Hv; [|discriminate]. cbn.
  unfold types_agree. rewrite F3. cbn.
  destruct (ctype_eqb_spec (cs_type (p_cons p)) (type_of (p_client p))) as [T|]; [|discriminate]. cbn.
  destruct (roots_agree cf p); [|discriminate]. cbn.
  destruct (upgrade_client cf (now st) (p_client p) (p_cons p) (store_of st (p_name p))) as [s'| |] eqn:E; cbn; try discriminate.
  intro H; inversion H; subst; clear H.
  apply upgrade_client_ok in E; try assumption. destruct E as (old & Ho & Te & I).
  exists old, s'. split; [exact Ho|]. split; [exact Te|]. split; [reflexivity|]. split; [reflexivity|].
  split; [exact T|]. split; [reflexivity | exact I].
Qed.

(** * Shape of every successful step; [wf_state] is an invariant *)
Lemma initialize_keeps_client tnow c cns s s' : initialize tnow c cns s = Ok s' -> sget KClient s' = sget KClient s.
Proof.
  destruct c as [l t d y r | hd e v t r | hd b t r | a r]; cbn.
  - destruct (ctype_eqb (cs_type cns) TM); [|discriminate]. intro H; inversion H. unfold set_tm_meta. sg. reflexivity.
  - intro H. apply bsc_install_ok in H. destruct H as (_ & _ & _ & vs & _ & ->). sg. reflexivity.
  - intro H; inversion H. unfold eth_install. sg. reflexivity.
  - intro H; inversion H. reflexivity.
Qed.

Lemma create_client_has tnow c cns s s' : create_client tnow c cns s = Ok s' -> sget KClient s' = Some (VClient c).
Proof.
  unfold create_client. destruct (initialize tnow c cns (sset KClient (VClient c) s)) as [s1| |] eqn:E; cbn; try discriminate.
  apply initialize_keeps_client in E. intro H; inversion H; subst.
  destruct (ctype_eqb (cs_type cns) TSS); unfold put_cons; sg; rewrite E; sg; reflexivity.
Qed.

Lemma toggle_client_has cf tnow c cns s s' : toggle_client cf tnow c cns s = Ok s' -> sget KClient s' = Some (VClient c).
Proof.
  unfold toggle_client.
  destruct (sget KClient s) as [[old| | | | | | |]|]; try discriminate.
  destruct (ctype_eqb (type_of old) (type_of c)); [discriminate|].
  destruct (f_toggle_new cf).
  - destruct (initialize tnow c cns _) as [s1| |] eqn:E; cbn; try discriminate.
    apply initialize_keeps_client in E. intro H; inversion H; subst.
    destruct (ctype_eqb (cs_type cns) TSS); unfold put_cons; sg; rewrite E; sg; reflexivity.
  - destruct (initialize tnow old cns _) as [s1| |] eqn:E; cbn; try discriminate.
    apply initialize_keeps_client in E. intro H; inversion H; subst.
    unfold put_cons; sg; rewrite E; sg; reflexivity.
Qed.

Lemma upgrade_client_has cf tnow c cns s s' : upgrade_client cf tnow c cns s = Ok s' -> sget KClient s' = Some (VClient c).
Proof.
  unfold upgrade_client.
  destruct (sget KClient s) as [[old| | | | | | |]|]; try discriminate.
  destruct (negb (ctype_eqb (type_of old) (type_of c))); [discriminate|].
  destruct (upgrade_state cf tnow c s) as [s1| |]; cbn; try discriminate.
  intro H; inversion H; subst.
  destruct (f_upgrade_tss_nocons cf && ctype_eqb (type_of c) TSS); unfold put_cons; sg; reflexivity.
Qed.

Lemma keeper_update_has cf tnow h s s' : keeper_update cf tnow h s = Ok s' -> exists c, sget KClient s' = Some (VClient c).
Proof.
  unfold keeper_update.
  destruct (sget KClient s) as [[c| | | | | | |]|]; try discriminate.
  destruct (negb (Nat.eqb (status tnow c s) 0)); [discriminate|].
  destruct (check_header_and_update cf tnow c h s) as [[[c' cns] s1]| |]; cbn; try discriminate.
  destruct (hdr_height cf h) as [hh|]; [|discriminate].
  intro H; inversion H; subst. exists c'. destruct cns; sg; reflexivity.
Qed.

Lemma exec_shape cf st o st' :
  exec cf st o = Ok st' ->
  (exists n s', st' = with_store st n s' /\ sget KClient s' <> None) \/ clients st' = clients st.
Proof.
  destruct o as [p|p|p|addr chains wfb|name h signer vb|dt]; unfold exec.
  - destruct (negb (valid_name (p_name p) && p_validate p)); [discriminate|].
    destruct (has_client st (p_name p)); [discriminate|].
    destruct (negb (types_agree cf p)); [discriminate|]. destruct (negb (roots_agree cf p)); [discriminate|].
    destruct (create_client _ _ _ _) as [s'| |] eqn:E; cbn; try discriminate.
    intro H; inversion H. left. exists (p_name p), s'. split; [reflexivity|]. rewrite (create_client_has _ _ _ _ _ E). discriminate.
  - destruct (negb (valid_name (p_name p) && p_validate p)); [discriminate|].
    destruct (negb (types_agree cf p)); [discriminate|]. destruct (negb (roots_agree cf p)); [discriminate|].
    destruct (upgrade_client _ _ _ _ _) as [s'| |] eqn:E; cbn; try discriminate.
    intro H; inversion H. left. exists (p_name p), s'. split; [reflexivity|]. rewrite (upgrade_client_has _ _ _ _ _ _ E). discriminate.
  - destruct (negb (valid_name (p_name p) && p_validate p)); [discriminate|].
    destruct (negb (has_client st (p_name p))); [discriminate|].
    destruct (negb (types_agree cf p)); [discriminate|]. destruct (negb (roots_agree cf p)); [discriminate|].
    destruct (toggle_client _ _ _ _ _) as [s'| |] eqn:E; cbn; try discriminate.
    intro H; inversion H. left. exists (p_name p), s'. split; [reflexivity|]. rewrite (toggle_client_has _ _ _ _ _ _ E). discriminate.
  - destruct (negb (wfb && forallb valid_name chains)); [discriminate|]. intro H; inversion H. right. reflexivity.
  - destruct (negb vb); [discriminate|].
    destruct (negb _); [discriminate|].
    destruct (sget KClient (store_of st name)) as [[c| | | | | | |]|]; try discriminate.
    destruct (negb _); [discriminate|].
    destruct (keeper_update _ _ _ _) as [s'| |] eqn:E; cbn; try discriminate.
    intro H; inversion H. left. exists name, s'. split; [reflexivity|].
    destruct (keeper_update_has _ _ _ _ _ E) as [c' Hc]. rewrite Hc. discriminate.
  - intro H; inversion H. right. reflexivity.
Qed.

Lemma wf_state_step cf st o : wf_state st -> wf_state (snd (step cf st o)).
Proof.
  intro W. unfold step. destruct (exec cf st o) as [st'| |] eqn:E; cbn; try exact W.
  apply exec_shape in E. destruct E as [(n & s' & -> & Hc)|Hc].
  - intros m Hm. destruct (bytes_eqb_spec m n) as [->|N].
    + unfold has_client in Hm. rewrite store_of_with_same in Hm. destruct (sget KClient s'); [discriminate | contradiction].
    + rewrite store_of_with_other by exact N. apply W.
      unfold has_client in *. rewrite store_of_with_other in Hm by exact N. exact Hm.
  - intros m Hm. unfold has_client, store_of in *. rewrite Hc in *. apply W. exact Hm.
Qed.

Lemma wf_state_empty t : wf_state (empty_state t).
Proof. intros n _. reflexivity. Qed.

Lemma wf_state_run cf os : forall st, wf_state st -> wf_state (run cf st os).
Proof. induction os as [|o os IH]; intros st W; cbn; [exact W|]. apply IH, wf_state_step, W. Qed.

(** Nothing but the step's own client store (or the registry, or the clock) changes. *)
Lemma exec_frame cf st o st' :
  exec cf st o = Ok st' ->
  match o with
  | Create p | Upgrade p | Toggle p =>
      relayers st' = relayers st /\ now st' = now st /\ forall m, m <> p_name p -> store_of st' m = store_of st m
  | Update name _ _ _ =>
      relayers st' = relayers st /\ now st' = now st /\ forall m, m <> name -> store_of st' m = store_of st m
  | Register _ _ _ => now st' = now st /\ clients st' = clients st
  | Tick dt => relayers st' = relayers st /\ clients st' = clients st /\ now st' = now st + dt
  end.
Proof.
  destruct o as [p|p|p|addr chains wfb|name h signer vb|dt]; unfold exec.
  - destruct (negb _); [discriminate|]. destruct (has_client _ _); [discriminate|]. destruct (negb _); [discriminate|]. destruct (negb _); [discriminate|].
    destruct (create_client _ _ _ _); cbn; try discriminate. intro H; inversion H.
    repeat split. intros m N. apply store_of_with_other; exact N.
  - destruct (negb _); [discriminate|]. destruct (negb _); [discriminate|]. destruct (negb _); [discriminate|].
    destruct (upgrade_client _ _ _ _ _); cbn; try discriminate. intro H; inversion H.
    repeat split. intros m N. apply store_of_with_other; exact N.
  - destruct (negb _); [discriminate|]. destruct (negb _); [discriminate|]. destruct (negb _); [discriminate|]. destruct (negb _); [discriminate|].
    destruct (toggle_client _ _ _ _ _); cbn; try discriminate. intro H; inversion H.
    repeat split. intros m N. apply store_of_with_other; exact N.
  - destruct (negb _); [discriminate|]. intro H; inversion H. split; reflexivity.
  - destruct (negb vb); [discriminate|]. destruct (negb _); [discriminate|].
    destruct (sget KClient (store_of st name)) as [[c| | | | | | |]|]; try discriminate.
    destruct (negb _); [discriminate|].
    destruct (keeper_update _ _ _ _); cbn; try discriminate. intro H; inversion H.
    repeat split. intros m N. apply store_of_with_other; exact N.
  - intro H; inversion H. repeat split.
Qed.

(** * Consensus states of one type only: the invariant behind "a valid update succeeds" *)

(** every consensus state entry of the store is a consensus state of type [t] *)
Definition all_cons (t : ctype) (s : cstore) : Prop :=
  forall h v, In (KCons h, v) s -> exists cs, v = VCons cs /\ cs_type cs = t.

Lemma all_cons_nil t : all_cons t [].
Proof. intros h v []. Qed.

Lemma all_cons_sdel t k s : all_cons t s -> all_cons t (sdel k s).
Proof. intros A h v H. apply In_sdel in H. apply (A h v), H. Qed.

Lemma all_cons_sset_other t k v s : (forall h, k <> KCons h) -> all_cons t s -> all_cons t (sset k v s).
Proof.
  intros N A h v' H. apply In_sset in H. destruct H as [E|[H _]]; [|apply (A h v'), H].
  inversion E; subst. exfalso. apply (N h). reflexivity.
Qed.

Lemma all_cons_sset_cons t h cs s : cs_type cs = t -> all_cons t s -> all_cons t (sset (KCons h) (VCons cs) s).
Proof.
  intros T A h' v' H. apply In_sset in H. destruct H as [E|[H _]]; [|apply (A h' v'), H].
  inversion E; subst. eauto.
Qed.

Lemma all_cons_filter t f s : all_cons t s -> all_cons t (filter f s).
Proof. intros A h v H. apply filter_In in H. apply (A h v), H. Qed.

Lemma all_cons_del_range t rev k : forall start s, all_cons t s -> all_cons t (del_signers_range rev start k s).
Proof. induction k as [|k IH]; intros start s A; cbn; [exact A|]. apply IH, all_cons_sdel, A. Qed.

Lemma all_cons_get t h s v : all_cons t s -> sget (KCons h) s = Some v -> exists cs, get_cons t h s = Some cs.
Proof.
  intros A H. destruct (A h v (sget_In _ _ _ H)) as (cs & -> & T).
  exists cs. apply get_cons_of; assumption.
Qed.

(** the first key of the iteration is a key of the store *)
Lemma hmin_cases a b : hmin a b = a \/ hmin a b = Some b.
Proof. destruct a as [x|]; cbn; [destruct (h_lt b x)|]; auto. Qed.

Lemma first_cons_acc (s : cstore) : forall acc h,
  fold_left (fun acc (kv : ckey * value) => match fst kv with KCons h => hmin acc h | _ => acc end) s acc = Some h ->
  acc = Some h \/ exists v, In (KCons h, v) s.
Proof.
  induction s as [|[k v] s IH]; intros acc h; cbn; [auto|].
  intro H. apply IH in H. destruct H as [H|[v' H]]; [|right; eauto].
  destruct k; auto. destruct (hmin_cases acc h0) as [E|E]; rewrite E in H; [auto|].
  inversion H; subst. right. exists v. left. reflexivity.
Qed.

Lemma first_cons_In s h : first_cons s = Some h -> exists v, In (KCons h, v) s.
Proof. intro H. apply first_cons_acc in H. destruct H as [H|H]; [discriminate | exact H]. Qed.

Lemma first_iter_acc (s : cstore) : forall acc h,
  fold_left (fun acc (kv : ckey * value) => match fst kv with KIter h => hmin acc h | _ => acc end) s acc = Some h ->
  acc = Some h \/ exists v, In (KIter h, v) s.
Proof.
  induction s as [|[k v] s IH]; intros acc h; cbn; [auto|].
  intro H. apply IH in H. destruct H as [H|[v' H]]; [|right; eauto].
  destruct k; auto. destruct (hmin_cases acc h0) as [E|E]; rewrite E in H; [auto|].
  inversion H; subst. right. exists v. left. reflexivity.
Qed.

Lemma first_iter_In s h : first_iter s = Some h -> exists v, In (KIter h, v) s.
Proof. intro H. apply first_iter_acc in H. destruct H as [H|H]; [discriminate | exact H]. Qed.

(** with consensus states of one type only, the pruning step of BSC / ETH cannot fail *)
Lemma prune_target_ok t trusting tnow s : all_cons t s -> exists p, prune_target t trusting tnow s = Ok p.
Proof.
  intro A. unfold prune_target. destruct (first_cons s) as [h|] eqn:F; [|eauto].
  destruct (first_cons_In _ _ F) as [v Hv]. destruct (In_sget _ _ _ Hv) as [v' Hg].
  destruct (all_cons_get t h s v' A Hg) as [cs ->]. eauto.
Qed.

(** Tendermint: every iteration key has its consensus state *)
Definition iter_ok (s : cstore) : Prop := forall h, sget (KIter h) s <> None -> exists cs, get_cons TM h s = Some cs.

Lemma tm_prune_ok trusting tnow s : iter_ok s -> exists s', tm_prune trusting tnow s = Ok s'.
Proof.
  intro A. unfold tm_prune. destruct (first_iter s) as [h|] eqn:F; [|eauto].
  destruct (first_iter_In _ _ F) as [v Hv]. destruct (In_sget _ _ _ Hv) as [v' Hg].
  destruct (A h) as [cs ->]; [rewrite Hg; discriminate|].
  destruct (cs_ts cs + trusting <=? tnow); eauto.
Qed.

(** * A valid update from the authorised account succeeds (all four types) *)
Definition authorised (st : state) (name signer : bytes) : Prop :=
  exists cs, aget signer (relayers st) = Some cs /\ bmem name cs = true.

(** "the header is valid for the stored client": the checks the lifecycle layer can state (links to the
    installed / last header, the trusted consensus state, recent signers, header index); the inside of the
    light clients' verification is the oracle bit of the header, required to be [true]. *)
Definition header_valid_for (tnow : N) (c : client_state) (h : hdr) (s : cstore) : Prop :=
  match c, h with
  | ClTss _ _, HTss _ _ => True
  | ClTm latest trusting drift _ _, HTm trusted hh cns hv =>
      hv = true /\ exists tc, get_cons TM trusted s = Some tc /\ fst hh = fst trusted /\ h_lt trusted hh = true /\
                              tnow < cs_ts tc + trusting /\ cs_ts tc < cs_ts cns /\ cs_ts cns < tnow + drift
  | ClBsc cur epoch vals _ _, HEvm BSC hd hv =>
      hv = true /\ epoch <> 0 /\
      snd (eh_height cur) = sub64 (snd (eh_height hd)) 1 /\ eh_hash cur = eh_parent hd /\
      eh_signer hd = Some (eh_coinbase hd) /\ bmem (eh_coinbase hd) vals = true /\
      existsb (fun ha => bytes_eqb (snd ha) (eh_coinbase hd) &&
                         ((snd (eh_height hd) <? lenN (bdistinct vals) / 2 + 1)
                          || (snd (eh_height hd) - (lenN (bdistinct vals) / 2 + 1) <? snd (fst ha)))) (signers s) = false /\
      (snd (eh_height hd) mod epoch = 0 -> exists vs, eh_vals hd = Some vs)
  | ClEth cur _ trusting _, HEvm ETH hd hv =>
      hv = true /\ eh_hash cur = eh_parent hd /\ snd (eh_height cur) = sub64 (snd (eh_height hd)) 1 /\
      sget (KHIdx (eh_hash cur) (snd (eh_height cur))) s = Some (VHeader cur) /\ eh_time cur < eh_time hd /\
      fst (eh_height hd) = fst (eh_height cur) /\ evm_expired (eh_time hd) trusting tnow = false
  | _, _ => False
  end.

(** the store holds consensus states of the client's type only (what a toggle that clears the store and
    well-typed proposals guarantee, see [clean_reachable]); Tendermint: every iteration key has its
    consensus state; ETH: every consensus state has its root-main entry (true when the installed consensus
    state carries the root of the installed header). *)
Definition store_clean (c : client_state) (s : cstore) : Prop :=
  all_cons (type_of c) s /\
  match c with
  | ClTm _ _ _ _ _ => iter_ok s
  | ClEth _ _ _ _ =>
      forall h cs, get_cons ETH h s = Some cs -> exists hash n, sget (KRootMain (hash32 (cs_root cs)) (snd h)) s = Some (VRefHIdx hash n)
  | _ => True
  end.

(** what a successful update leaves *)
Definition updated (c : client_state) (h : hdr) (s' : cstore) : Prop :=
  match c, h with
  | ClTss _ _, HTss addr rest => sget KClient s' = Some (VClient (ClTss addr rest))          (* the key is rotated *)
  | ClTm latest trusting drift delay rest, HTm _ hh cns _ =>
      sget KClient s' = Some (VClient (ClTm (if h_lt latest hh then hh else latest) trusting drift delay rest)) /\
      sget (KCons hh) s' = Some (VCons (as_tm cns))
  | ClBsc _ epoch _ trusting rest, HEvm BSC hd _ =>
      (exists vals', sget KClient s' = Some (VClient (ClBsc hd epoch vals' trusting rest))) /\
      sget (KCons (eh_height hd)) s' =
        Some (VCons {| cs_type := BSC; cs_ts := eh_time hd; cs_root := eh_root hd; cs_dg := eh_cons_dg hd |})
  | ClEth _ bd trusting rest, HEvm ETH hd _ =>
      sget KClient s' = Some (VClient (ClEth hd bd trusting rest)) /\
      sget (KCons (eh_height hd)) s' =
        Some (VCons {| cs_type := ETH; cs_ts := eh_time hd; cs_root := eh_root hd; cs_dg := eh_cons_dg hd |})
  | _, _ => False
  end.

Lemma status_active_cons tnow c s :
  status tnow c s = 0%nat ->
  match c with
  | ClTm l _ _ _ _ => exists cs, get_cons TM l s = Some cs
  | ClBsc hd _ _ _ _ => exists cs, get_cons BSC (eh_height hd) s = Some cs
  | ClEth hd _ _ _ => exists cs, get_cons ETH (eh_height hd) s = Some cs
  | ClTss _ _ => True
  end.
Proof.
  destruct c as [l t d y r | hd e v t r | hd b t r | a r]; cbn; try exact (fun _ => I).
  - destruct (get_cons TM l s); [eauto | discriminate].
  - destruct (get_cons BSC (eh_height hd) s); [eauto | discriminate].
  - destruct (get_cons ETH (eh_height hd) s); [eauto | discriminate].
Qed.

Lemma eth_prune_ok trusting tnow s :
  all_cons ETH s ->
  (forall h cs, get_cons ETH h s = Some cs -> exists hash n, sget (KRootMain (hash32 (cs_root cs)) (snd h)) s = Some (VRefHIdx hash n)) ->
  exists s', eth_prune trusting tnow s = Ok s'.
Proof.
  intros A R. unfold eth_prune. destruct (prune_target_ok ETH trusting tnow s A) as [p E]. rewrite E. cbn.
  destruct p as [h|]; [|eauto].
  unfold prune_target in E. destruct (first_cons s) as [h'|]; [|discriminate].
  destruct (get_cons ETH h' s) as [cs|] eqn:G; [|discriminate].
  destruct (evm_expired (cs_ts cs) trusting tnow); inversion E; subst.
  rewrite G. destruct (R _ _ G) as (hash & n & ->). eauto.
Qed.

Lemma check_header_valid cf tnow c h s :
  status tnow c s = 0%nat -> store_clean c s -> header_valid_for tnow c h s ->
  exists c' cns s1, check_header_and_update cf tnow c h s = Ok (c', cns, s1) /\
    match c, h with
    | ClTss _ _, HTss addr rest => c' = ClTss addr rest /\ cns = None
    | ClTm latest trusting drift delay rest, HTm _ hh k _ =>
        c' = ClTm (if h_lt latest hh then hh else latest) trusting drift delay rest /\ cns = Some (as_tm k)
    | ClBsc _ epoch _ trusting rest, HEvm BSC hd _ =>
        (exists vals', c' = ClBsc hd epoch vals' trusting rest) /\
        cns = Some {| cs_type := BSC; cs_ts := eh_time hd; cs_root := eh_root hd; cs_dg := eh_cons_dg hd |}
    | ClEth _ bd trusting rest, HEvm ETH hd _ =>
        c' = ClEth hd bd trusting rest /\
        cns = Some {| cs_type := ETH; cs_ts := eh_time hd; cs_root := eh_root hd; cs_dg := eh_cons_dg hd |}
    | _, _ => False
    end.
Proof.
  intros St [A C] V. apply status_active_cons in St.
  destruct c as [l t d y r | cur e v t r | cur b t r | a r];
    destruct h as [trusted hh k hv | et hd hv | addr rest]; cbn in V; try contradiction.
  - (* Tendermint *)
    destruct V as (-> & tc & G & R & L & T1 & T2 & T3). cbn. unfold tm_update. rewrite G, R, N.eqb_refl, L.
    destruct (N.leb_spec (cs_ts tc + t) tnow); [lia|].
    destruct (N.ltb_spec (cs_ts tc) (cs_ts k)); [|lia].
    destruct (N.ltb_spec (cs_ts k) (tnow + d)); [|lia]. cbn.
    destruct (tm_prune_ok t tnow s C) as [s1 ->]. cbn. eauto 6.
  - (* BSC *)
    destruct et; try contradiction.
    destruct V as (-> & He & Hn & Hh & Hs & Hm & Hr & Hv). destruct St as [cc G].
    cbn. unfold bsc_update. rewrite G.
    destruct (N.eqb_spec e 0); [contradiction|]. cbn.
    rewrite Hn, N.eqb_refl, Hh, bytes_eqb_refl, Hs, bytes_eqb_refl, Hm. cbn. rewrite Hr.
    set (s1 := sset (KSigner (eh_height hd)) (VAddr (eh_coinbase hd)) s).
    assert (A1 : all_cons BSC s1) by (apply all_cons_sset_other; [intros; discriminate | exact A]).
    destruct (prune_target_ok BSC t tnow s1 A1) as [p ->]. cbn.
    destruct (N.eqb_spec (snd (eh_height hd) mod e) 0) as [M|M].
    + destruct (Hv M) as [vs ->]. cbn.
      destruct (snd (eh_height hd) mod e =? lenN v / 2); cbn; eauto 8.
    + cbn. destruct (snd (eh_height hd) mod e =? lenN v / 2); cbn; eauto 8.
  - (* ETH *)
    destruct et; try contradiction.
    destruct V as (-> & Hh & Hn & Hi & Ht & Hrv & Hold). destruct St as [cc G].
    cbn. unfold eth_update. rewrite G. cbn. rewrite Hrv, N.eqb_refl, andb_false_r. rewrite <- Hh, <- Hn, Hi, bytes_eqb_refl. cbn.
    destruct (N.leb_spec (eh_time hd) (eh_time cur)); [lia|]. rewrite Hold, andb_false_r.
    destruct (eth_prune_ok t tnow s A C) as [s1 ->]. cbn.
    unfold eth_is_fork. rewrite Hh, bytes_eqb_refl. cbn. eauto 6.
  - cbn. eauto 6.
Qed.

Lemma valid_update_succeeds cf st name c h signer :
  f_tss_height cf = true -> authorised st name signer ->
  sget KClient (store_of st name) = Some (VClient c) ->
  (forall a r, c = ClTss a r -> a = signer) ->
  status (now st) c (store_of st name) = 0%nat ->
  store_clean c (store_of st name) -> header_valid_for (now st) c h (store_of st name) ->
  exists st', step cf st (Update name h signer true) = (0%nat, st') /\ updated c h (store_of st' name).
Proof.
  intros F (cs & Ha & Hb) Hc Hs St Cl V.
  destruct (check_header_valid cf _ _ _ _ St Cl V) as (c' & cns & s1 & E & R).
  unfold step, exec. cbn. rewrite Ha, Hb, Hc. cbn.
  assert (Sg : (match c with ClTss addr _ => bytes_eqb addr signer | _ => true end) = true).
  { destruct c; try reflexivity. rewrite (Hs _ _ eq_refl). apply bytes_eqb_refl. }
  rewrite Sg. cbn. unfold keeper_update. rewrite Hc, St. cbn. rewrite E. cbn.
  destruct c as [l t d y r | cur e v t r | cur b t r | a r];
    destruct h as [trusted hh k hv | et hd hv | addr rest]; try contradiction;
    try (destruct et; try contradiction); cbn [hdr_height].
  - destruct R as [-> ->]. eexists. split; [reflexivity|]. rewrite store_of_with_same. cbn. split; sg; reflexivity.
  - destruct R as [[vals' ->] ->]. eexists. split; [reflexivity|]. rewrite store_of_with_same. cbn.
    split; [exists vals'|]; sg; reflexivity.
  - destruct R as [-> ->]. eexists. split; [reflexivity|]. rewrite store_of_with_same. cbn. split; sg; reflexivity.
  - destruct R as [-> ->]. rewrite F. eexists. split; [reflexivity|]. rewrite store_of_with_same. cbn. sg. reflexivity.
Qed.

(** * In every reachable state (repaired code) a client store holds consensus states of the client's type
      only, and every Tendermint iteration key has its consensus state *)
Definition typed_clean (c : client_state) (s : cstore) : Prop :=
  all_cons (type_of c) s /\ (type_of c = TM -> iter_ok s) /\ (type_of c = TSS -> forall h, sget (KCons h) s = None).

Definition clean_state (st : state) : Prop :=
  forall n c, sget KClient (store_of st n) = Some (VClient c) -> typed_clean c (store_of st n).

Ltac sd := repeat (rewrite sget_sdel; cbn [ckey_eqb]).

Lemma iter_ok_put tnow h cns c s :
  iter_ok s -> cs_type cns = TM ->
  iter_ok (sset (KCons h) (VCons cns) (sset KClient (VClient c) (set_tm_meta tnow h s))).
Proof.
  intros A T h' Hne. unfold get_cons, set_tm_meta in *. revert Hne. sg.
  destruct (h_eqb_spec h' h) as [->|N]; cbn.
  - intros _. rewrite T. cbn. eauto.
  - intro Hne. apply A in Hne. exact Hne.
Qed.

Lemma tm_prune_iter_ok trusting tnow s s' : iter_ok s -> tm_prune trusting tnow s = Ok s' -> iter_ok s'.
Proof.
  intros A. unfold tm_prune. destruct (first_iter s) as [h0|]; [|intro H; inversion H; subst; exact A].
  destruct (get_cons TM h0 s) as [cs|]; [|discriminate].
  destruct (cs_ts cs + trusting <=? tnow); intro H; inversion H; subst; [|exact A].
  intros h Hne. unfold get_cons in *. revert Hne. sd.
  destruct (h_eqb_spec h h0) as [->|N]; cbn; [intro X; contradiction|].
  intro Hne. apply A in Hne. exact Hne.
Qed.

Lemma tm_prune_all_cons t trusting tnow s s' : all_cons t s -> tm_prune trusting tnow s = Ok s' -> all_cons t s'.
Proof.
  intros A. unfold tm_prune. destruct (first_iter s) as [h0|]; [|intro H; inversion H; subst; exact A].
  destruct (get_cons TM h0 s) as [cs|]; [|discriminate].
  destruct (cs_ts cs + trusting <=? tnow); intro H; inversion H; subst; [|exact A].
  repeat apply all_cons_sdel. exact A.
Qed.

Lemma fresh_store_clean tnow c cns : cs_type cns = type_of c -> typed_clean c (fresh_store tnow c cns).
Proof.
  intro T. split; [|split].
  - intros h v H. destruct c; cbn in H;
      repeat (destruct H as [H|H]; [inversion H; subst; eauto|]); contradiction.
  - intros Tm h Hne. destruct c as [l t d y r | | |]; try discriminate. cbn in *. unfold get_cons. cbn in *.
    destruct (h_eqb h l); cbn in *.
    + rewrite T. cbn. eauto.
    + exfalso. apply Hne. reflexivity.
  - intros Ts h. destruct c; try discriminate. reflexivity.
Qed.

Lemma fresh_store_client tnow c cns : sget KClient (fresh_store tnow c cns) = Some (VClient c).
Proof. destruct c; reflexivity. Qed.

Lemma all_cons_bsc_install t hd e s s' : all_cons t s -> bsc_install hd e s = Ok s' -> all_cons t s'.
Proof.
  intros A H. apply bsc_install_ok in H. destruct H as (_ & _ & _ & vs & _ & ->).
  repeat (apply all_cons_sset_other; [intros; discriminate|]). exact A.
Qed.

Lemma upgrade_client_clean cf tnow c cns s s' old :
  f_upgrade_tss_nocons cf = true ->
  sget KClient s = Some (VClient old) -> typed_clean old s -> cs_type cns = type_of c ->
  upgrade_client cf tnow c cns s = Ok s' -> typed_clean c s'.
Proof.
  intros F Ho (A & C & D) T. unfold upgrade_client. rewrite Ho.
  destruct (ctype_eqb_spec (type_of old) (type_of c)) as [Te|]; [|discriminate]. cbn.
  destruct (upgrade_state cf tnow c s) as [s1| |] eqn:E; cbn; try discriminate.
  rewrite F. intro H; inversion H; subst; clear H. rewrite Te in A, C, D.
  assert (A1 : all_cons (type_of c) s1).
  { destruct c as [l t d y r | hd e v t r | hd b t r | a r]; cbn in E.
    - inversion E; subst. destruct (f_tm_upgrade_meta cf); [|exact A].
      unfold set_tm_meta. repeat (apply all_cons_sset_other; [intros; discriminate|]). exact A.
    - destruct (e =? 0); [discriminate|]. destruct (negb _); [discriminate|].
      destruct (prune_target BSC t tnow s) as [p| |]; cbn in E; try discriminate.
      eapply all_cons_bsc_install; [|exact E]. apply all_cons_filter.
      destruct p; [apply all_cons_sdel|]; exact A.
    - inversion E; subst. unfold eth_install. repeat (apply all_cons_sset_other; [intros; discriminate|]). exact A.
    - inversion E; subst. exact A. }
  split; [|split].
  - destruct (ctype_eqb (type_of c) TSS); cbn.
    + apply all_cons_sset_other; [intros; discriminate | exact A1].
    + unfold put_cons. apply all_cons_sset_cons; [exact T|]. apply all_cons_sset_other; [intros; discriminate | exact A1].
  - intro Tm. destruct c as [l t d y r | | |]; try discriminate. cbn in *. inversion E; subst.
    specialize (C eq_refl). unfold put_cons; cbn.
    destruct (f_tm_upgrade_meta cf).
    + apply iter_ok_put; assumption.
    + (* pinned Tendermint UpgradeState: no new iteration key *)
      intros h Hne. unfold get_cons in *. revert Hne. sg. intro Hne. apply C in Hne.
      destruct (h_eqb_spec h l) as [->|N]; cbn; [rewrite T; cbn; eauto | exact Hne].
  - intro Ts. destruct c as [| | |a r]; try discriminate. cbn in *. inversion E; subst.
    intro h. rewrite sget_sdel_other by discriminate. apply D. reflexivity.
Qed.

Lemma all_cons_eth_prune trusting tnow s s' : all_cons ETH s -> eth_prune trusting tnow s = Ok s' -> all_cons ETH s'.
Proof.
  intros A. unfold eth_prune. destruct (prune_target ETH trusting tnow s) as [p| |]; cbn; try discriminate.
  destruct p as [h|]; [|intro H; inversion H; subst; exact A].
  destruct (get_cons ETH h s) as [cs|]; [|discriminate].
  destruct (sget (KRootMain (hash32 (cs_root cs)) (snd h)) s) as [[| | | | | | |hash n]|]; try discriminate.
  intro H; inversion H; subst. repeat apply all_cons_sdel. exact A.
Qed.

Lemma keeper_update_clean cf tnow h s s' c :
  sget KClient s = Some (VClient c) -> typed_clean c s ->
  keeper_update cf tnow h s = Ok s' ->
  exists c', sget KClient s' = Some (VClient c') /\ typed_clean c' s'.
Proof.
  intros Hc (A & C & D). unfold keeper_update. rewrite Hc.
  destruct (negb (Nat.eqb (status tnow c s) 0)); [discriminate|].
  destruct (check_header_and_update cf tnow c h s) as [[[c' cns] s1]| |] eqn:E; cbn; try discriminate.
  destruct (hdr_height cf h) as [hh|] eqn:Hh; [|discriminate].
  intro H; inversion H; subst; clear H.
  destruct c as [l t d y r | cur e v t r | cur b t r | a r];
    destruct h as [trusted hx k hv | et hd hv | addr rest]; cbn in E; try discriminate.
  - (* Tendermint *)
    unfold tm_update in E. destruct (get_cons TM trusted s) as [tc|]; [|discriminate].
    destruct (negb _); [discriminate|].
    destruct (tm_prune t tnow s) as [s0| |] eqn:P; cbn in E; try discriminate.
    inversion E; subst; clear E. cbn in Hh. inversion Hh; subst.
    eexists. split; [sg; reflexivity|]. split; [|split]; cbn.
    + apply all_cons_sset_cons; [reflexivity|]. apply all_cons_sset_other; [intros; discriminate|].
      unfold set_tm_meta. repeat (apply all_cons_sset_other; [intros; discriminate|]).
      eapply tm_prune_all_cons; eassumption.
    + intros _. apply iter_ok_put; [|reflexivity]. eapply tm_prune_iter_ok; [|exact P]. apply C. reflexivity.
    + intro X; discriminate.
  - (* BSC *)
    destruct et; try discriminate. unfold bsc_update in E.
    destruct (get_cons BSC (eh_height cur) s); [|discriminate].
    destruct (e =? 0); [discriminate|]. destruct (negb hv); [discriminate|]. destruct (negb _); [discriminate|].
    destruct (eh_signer hd) as [sg0|]; [|discriminate].
    destruct (negb _); [discriminate|]. destruct (negb _); [discriminate|]. destruct (existsb _ _); [discriminate|].
    set (s1' := sset (KSigner (eh_height hd)) (VAddr sg0) s) in *.
    assert (A1 : all_cons BSC s1') by (apply all_cons_sset_other; [intros; discriminate | exact A]).
    destruct (prune_target BSC t tnow s1') as [p| |]; cbn [obind] in E; try discriminate.
    set (s2 := match p with Some h0 => sdel (KCons h0) s1' | None => s1' end) in *.
    assert (A2 : all_cons BSC s2) by (subst s2; destruct p; [apply all_cons_sdel|]; exact A1).
    destruct (if snd (eh_height hd) mod e =? 0
              then match eh_vals hd with None => Err | Some vs => Ok (sset KPending (VVals vs) s2) end
              else Ok s2) as [s3| |] eqn:E3; cbn [obind] in E; try discriminate.
    assert (A3 : all_cons BSC s3).
    { destruct (snd (eh_height hd) mod e =? 0).
      - destruct (eh_vals hd); [|discriminate]. inversion E3; subst.
        apply all_cons_sset_other; [intros; discriminate | exact A2].
      - inversion E3; subst. exact A2. }
    cbn in Hh. inversion Hh; subst; clear Hh.
    destruct (snd (eh_height hd) mod e =? lenN v / 2); cbn [obind] in E; inversion E; subst; clear E.
    + eexists. split; [sg; reflexivity|]. split; [|split; intro X; discriminate]. cbn.
      apply all_cons_sset_cons; [reflexivity|]. apply all_cons_sset_other; [intros; discriminate|].
      match goal with |- all_cons BSC (if ?c then _ else _) => destruct c end;
        [apply all_cons_sdel|]; (destruct (_ <? _); [apply all_cons_del_range|]; exact A3).
    + eexists. split; [sg; reflexivity|]. split; [|split; intro X; discriminate]. cbn.
      apply all_cons_sset_cons; [reflexivity|]. apply all_cons_sset_other; [intros; discriminate|].
      match goal with |- all_cons BSC (if ?c then _ else _) => destruct c end; [apply all_cons_sdel|]; exact A3.
  - (* ETH *)
    destruct et; try discriminate. unfold eth_update in E.
    destruct (get_cons ETH (eh_height cur) s); [|discriminate].
    destruct (negb hv); [discriminate|]. destruct (f_eth_rev_check cf && _); [discriminate|].
    destruct (sget (KHIdx (eh_parent hd) (sub64 (snd (eh_height hd)) 1)) s) as [[| | | | | |ph|]|]; try discriminate.
    destruct (negb _); [discriminate|]. destruct (eh_time hd <=? eh_time ph); [discriminate|].
    destruct (f_eth_old_header cf && _); [discriminate|].
    destruct (eth_prune t tnow s) as [s0| |] eqn:P; cbn in E; try discriminate.
    destruct (eth_is_fork cur hd); [discriminate|]. inversion E; subst; clear E.
    cbn in Hh. inversion Hh; subst; clear Hh.
    eexists. split; [sg; reflexivity|]. split; [|split; intro X; discriminate]. cbn.
    apply all_cons_sset_cons; [reflexivity|]. apply all_cons_sset_other; [intros; discriminate|].
    unfold eth_install. repeat (apply all_cons_sset_other; [intros; discriminate|]).
    eapply all_cons_eth_prune; eassumption.
  - (* TSS *)
    inversion E; subst; clear E. eexists. split; [sg; reflexivity|]. split; [|split; [intro X; discriminate|]]; cbn.
    + apply all_cons_sset_other; [intros; discriminate | exact A].
    + intros _ h0. rewrite sget_sdel_other by discriminate. apply D. reflexivity.
Qed.

Lemma clean_state_step cf st o :
  f_toggle_new cf = true -> f_toggle_clear cf = true -> f_cons_type_check cf = true -> f_upgrade_tss_nocons cf = true ->
  wf_state st -> clean_state st -> clean_state (snd (step cf st o)).
Proof.
  intros F1 F2 F3 F4 W Cl. unfold step. destruct (exec cf st o) as [st'| |] eqn:E; cbn; try exact Cl.
  destruct o as [p|p|p|addr chains wfb|name h signer vb|dt].
  - apply create_spec in E; try assumption. destruct E as (_ & _ & _ & T & _ & ->).
    intros n c. destruct (bytes_eqb_spec n (p_name p)) as [->|N].
    + rewrite store_of_with_same, fresh_store_client. intro H; inversion H; subst. apply fresh_store_clean, T.
    + rewrite store_of_with_other by exact N. apply Cl.
  - pose proof E as E0. unfold exec in E.
    destruct (negb (valid_name (p_name p) && p_validate p)); [discriminate|].
    unfold types_agree in E. rewrite F3 in E. cbn in E.
    destruct (ctype_eqb_spec (cs_type (p_cons p)) (type_of (p_client p))) as [T|]; [|discriminate]. cbn in E.
    destruct (roots_agree cf p); [|discriminate]. cbn in E.
    destruct (upgrade_client cf (now st) (p_client p) (p_cons p) (store_of st (p_name p))) as [s'| |] eqn:U; cbn in E; try discriminate.
    inversion E; subst; clear E.
    intros n c. destruct (bytes_eqb_spec n (p_name p)) as [->|N].
    + rewrite store_of_with_same, (upgrade_client_has _ _ _ _ _ _ U). intro H; inversion H; subst.
      pose proof U as U1. unfold upgrade_client in U1.
      destruct (sget KClient (store_of st (p_name p))) as [[old| | | | | | |]|] eqn:Ho; try discriminate.
      eapply upgrade_client_clean; try eassumption. apply Cl. exact Ho.
    + rewrite store_of_with_other by exact N. apply Cl.
  - apply toggle_spec in E; try assumption. destruct E as (old & _ & _ & _ & _ & T & _ & ->).
    intros n c. destruct (bytes_eqb_spec n (p_name p)) as [->|N].
    + rewrite store_of_with_same, fresh_store_client. intro H; inversion H; subst. apply fresh_store_clean, T.
    + rewrite store_of_with_other by exact N. apply Cl.
  - unfold exec in E. destruct (negb _); [discriminate|]. inversion E; subst. exact Cl.
  - unfold exec in E. destruct (negb vb); [discriminate|]. destruct (negb _); [discriminate|].
    destruct (sget KClient (store_of st name)) as [[c0| | | | | | |]|] eqn:Hc; try discriminate.
    destruct (negb _); [discriminate|].
    destruct (keeper_update cf (now st) h (store_of st name)) as [s'| |] eqn:U; cbn in E; try discriminate.
    inversion E; subst; clear E.
    intros n c. destruct (bytes_eqb_spec n name) as [->|N].
    + rewrite store_of_with_same.
      destruct (keeper_update_clean _ _ _ _ _ _ Hc (Cl _ _ Hc) U) as (c' & Hc' & Cc). rewrite Hc'.
      intro H; inversion H; subst. exact Cc.
    + rewrite store_of_with_other by exact N. apply Cl.
  - unfold exec in E. inversion E; subst. exact Cl.
Qed.

Lemma clean_reachable cf os :
  f_toggle_new cf = true -> f_toggle_clear cf = true -> f_cons_type_check cf = true -> f_upgrade_tss_nocons cf = true ->
  forall st, wf_state st -> clean_state st -> clean_state (run cf st os).
Proof.
  intros F1 F2 F3 F4. induction os as [|o os IH]; intros st W Cl; cbn; [exact Cl|].
  apply IH; [apply wf_state_step, W | apply clean_state_step; assumption].
Qed.

Lemma clean_state_empty t : clean_state (empty_state t).
Proof. intros n c H. discriminate. Qed.

(** a successful proposal passed the ETH root check *)
Lemma exec_roots_agree cf st o st' :
  exec cf st o = Ok st' ->
  match o with Create p | Upgrade p | Toggle p => roots_agree cf p = true | _ => True end.
Proof.
  destruct o as [p|p|p|addr chains wfb|name h signer vb|dt]; try exact (fun _ => I); unfold exec.
  - destruct (negb _); [discriminate|]. destruct (has_client _ _); [discriminate|]. destruct (negb _); [discriminate|].
    destruct (roots_agree cf p); [reflexivity | discriminate].
  - destruct (negb _); [discriminate|]. destruct (negb _); [discriminate|].
    destruct (roots_agree cf p); [reflexivity | discriminate].
  - destruct (negb _); [discriminate|]. destruct (negb _); [discriminate|]. destruct (negb _); [discriminate|].
    destruct (roots_agree cf p); [reflexivity | discriminate].
Qed.

Lemma roots_agree_head cf p : f_eth_root_check cf = true -> roots_agree cf p = roots_agree head_cfg p.
Proof. intro F. unfold roots_agree. rewrite F. reflexivity. Qed.
