(** Proofs about Model/Lifecycle.v (property C18). *)
From Teleport Require Import Base.Bytes Base.Outcome Base.AList Model.Lifecycle.
Local Open Scope N_scope.

(** A failed step (error or panic) leaves the whole state untouched. *)
Lemma failed_step_unchanged cf st o : fst (step cf st o) <> 0%nat -> snd (step cf st o) = st.
Proof. unfold step. destruct (exec cf st o); cbn; intro H; [congruence | reflexivity | reflexivity]. Qed.
