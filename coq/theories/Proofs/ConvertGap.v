(** C11 — conversions neither strand coins nor create unbacked tokens: for every contract deployed by the module the
    gap  backing − totalSupply  (escrowed coins of the contract's denominations minus tokens in circulation) is left
    EXACTLY unchanged by every successful conversion — in either direction, through any pair, by message or through
    the ICS-20 hook — and by every failed one.  (The gap only ever grows through what third parties do: burning
    their own tokens, sending coins to the module account; [C11_native_coin_backing] is the consequence gap >= 0.) *)
From Teleport Require Import Base.Bytes Base.Outcome Model.Convert Proofs.ConvertBase Proofs.ConvertExact
  Proofs.ConvertTokensLemmas Proofs.ConvertBacking.
Local Open Scope Z_scope.

Lemma sum_over_shift f g ds d0 delta :
  NoDup ds -> In d0 ds -> g d0 = f d0 + delta -> (forall d, d <> d0 -> g d = f d) ->
  sum_over g ds = sum_over f ds + delta.
Proof.
  intros ND I G O. rewrite (sum_over_drop f g ds d0 (- delta) ND I); [ring | rewrite G; ring | exact O].
Qed.

Lemma backing_of_shift f g c l d0 id0 p0 delta :
  NoDup (map fst l) ->
  (forall id p, In (id, p) l -> NoDup (p_denoms p) /\ (In d0 (p_denoms p) -> id = id0)) ->
  g d0 = f d0 + delta -> (forall d, d <> d0 -> g d = f d) ->
  In (id0, p0) l -> In d0 (p_denoms p0) ->
  backing_of g c l = backing_of f c l + (if (p_owner p0 =? 1) && (p_erc20 p0 =? c) then delta else 0).
Proof.
  intros ND U G O I0 D0. induction l as [|[k q] l IH]; [destruct I0|]. cbn [backing_of snd].
  inversion ND as [|? ? NI ND']; subst.
  destruct I0 as [E|I0].
  - inversion E; subst k q. destruct (U id0 p0 (or_introl eq_refl)) as [NDq _].
    rewrite (backing_of_other f g c l d0).
    + unfold pair_backing. destruct ((p_owner p0 =? 1) && (p_erc20 p0 =? c)); [|ring].
      rewrite (sum_over_shift f g (p_denoms p0) d0 delta NDq D0 G O). ring.
    + intros id p I Dp. exfalso. destruct (U id p (or_intror I)) as [_ Hid]. specialize (Hid Dp). subst id.
      apply NI. cbn. change id0 with (fst (id0, p)). apply in_map. exact I.
    + exact O.
  - assert (ND0 : ~ In d0 (p_denoms q)).
    { intro Dq. destruct (U k q (or_introl eq_refl)) as [_ Hk]. specialize (Hk Dq). subst k.
      apply NI. cbn. change id0 with (fst (id0, p0)). apply in_map. exact I0. }
    assert (pair_backing g c q = pair_backing f c q) as ->.
    { unfold pair_backing. destruct ((p_owner q =? 1) && (p_erc20 q =? c)); [|reflexivity].
      apply sum_over_ext. intros d Hd. apply O. intro; subst; contradiction. }
    rewrite IH; [ring | exact ND' | | exact I0]. intros id p I. apply U. right; exact I.
Qed.

Section Gap.
  Variable X : Type.
  Variable xcall : X -> Z -> Z -> call -> X * cres.
  Variable xcontract : X -> Z -> bool.
  Variable MODULE : Z.
  Notation state := (state X).
  Implicit Types s : state.

  (** backing after the escrow of ONE denomination [d] (listed by pair [p], the pair the gate resolved) moved by
      [delta] *)
  Lemma backing_shift s s' d p delta :
    WF s -> get_pair s (get_denom_map s d) = Some p -> s_pairs s' = s_pairs s ->
    (forall d', escrow MODULE s' d' = escrow MODULE s d' + ind (bytes_eqb d' d) delta) ->
    forall c, backing MODULE s' c = backing MODULE s c + (if (p_owner p =? 1) && (p_erc20 p =? c) then delta else 0).
  Proof.
    intros W GP P E c. pose proof W as (ND & W2 & W3 & W4). unfold backing. rewrite P.
    apply (backing_of_shift (escrow MODULE s) (escrow MODULE s') c (s_pairs s) d (get_denom_map s d) p delta ND).
    - intros id q I. destruct (W2 id q I) as (_ & NDq & Hd). split; [exact NDq|]. intro D. symmetry. apply Hd. exact D.
    - rewrite E, bytes_eqb_refl. reflexivity.
    - intros d' N. rewrite E. apply bytes_eqb_neq in N. rewrite N. unfold ind. ring.
    - apply get_pair_In. exact GP.
    - apply W3. exact GP.
  Qed.

  (** every successful run of a handler leaves the gap of every module contract unchanged *)
  Theorem handle_preserves_gap s m s' :
    handle xcall xcontract MODULE s m = Ok s' -> signer (OMsg m) <> Some MODULE -> WF s ->
    forall c t', find_mtok s' c = Some t' ->
      exists t, find_mtok s c = Some t /\ backing MODULE s' c - st_total t' = backing MODULE s c - st_total t.
  Proof.
    intros H NS W c t' F'.
    pose proof (handle_ok_gates _ _ _ _ _ _ _ H) as (_ & p & PR & _ & RB & _ & GP).
    assert (DEL : is_contract xcontract s (p_erc20 p) = false -> s' = delete_pair s p ->
                  exists t, find_mtok s c = Some t /\ backing MODULE s' c - st_total t' = backing MODULE s c - st_total t).
    { intros C ->. cbn in F'. exists t'. split; [exact F'|]. f_equal.
      unfold backing, delete_pair. cbn [s_pairs set_registry]. unfold escrow. cbn [s_bank set_registry].
      apply backing_of_adel. intros q I. pose proof W as (ND & W2 & _).
      assert (q = p).
      { pose proof (get_pair_In _ _ _ _ GP) as IP. destruct (W2 _ _ IP) as (PID & _). rewrite PID in I.
        pose proof (In_afind bytes_eqb bytes_eqb_eq _ _ _ ND I) as A1.
        pose proof (In_afind bytes_eqb bytes_eqb_eq _ _ _ ND IP) as A2. congruence. }
      subst q. unfold pair_backing. destruct (Z.eqb_spec (p_erc20 p) c) as [E|_]; [|rewrite andb_false_r; reflexivity].
      exfalso. unfold is_contract in C. subst c. unfold find_mtok in *. cbn in F'. rewrite F' in C. discriminate. }
    destruct m as [m|m]; cbn [handle] in H.
    - (* ConvertCoin *)
      pose proof (convert_coin_ok_exact _ _ _ _ _ _ _ _ H PR) as E. cbv zeta in E. cbn [signer] in NS.
      assert (NM : cc_sender m <> MODULE) by congruence.
      destruct (is_contract xcontract s (p_erc20 p)) eqn:C; [|apply DEL; [reflexivity | exact E]].
      destruct E as (OW & P & L & BS & SS & (G1 & G2 & G3 & G4 & G5 & G6 & G7 & G8) & A & res & TE & _).
      rewrite find_mtok_tokens in F'.
      assert (ESC : forall d, escrow MODULE s' d = escrow MODULE s d + ind (bytes_eqb d (cc_denom m)) (ind (p_owner p =? 1) (cc_amount m))).
      { intro d. unfold escrow. rewrite BS. destruct (Z.eqb_spec MODULE (cc_sender m)) as [EQ|_]; [congruence|].
        cbn [andb]. unfold ind at 1. rewrite Z.eqb_refl, andb_true_r. unfold ind.
        destruct (p_owner p =? 1); destruct (bytes_eqb d (cc_denom m)); cbn [andb]; ring. }
      rewrite (backing_shift s s' (cc_denom m) p _ W GP G3 ESC c).
      destruct OW as [O|O]; rewrite O in *; cbn [Z.eqb Pos.eqb andb ind] in *.
      + destruct (token_effect_totals _ _ _ _ _ _ _ _ _ _ _ TE c t' F') as (t & F & T).
        exists t. rewrite find_mtok_tokens. split; [exact F|]. rewrite T. unfold dtotal.
        destruct TE as (_ & _ & _ & _ & _ & _ & OK & _). rewrite OK.
        rewrite (Z.eqb_sym (p_erc20 p) c). destruct (c =? p_erc20 p); ring.
      + destruct (token_effect2_totals _ _ _ _ _ _ _ _ _ _ _ _ _ TE c t' F') as (t & F & T).
        exists t. rewrite find_mtok_tokens. split; [exact F|]. rewrite T.
        assert (dtotal (CTransfer (hex_to_addr (cc_receiver m)) (cc_amount m)) res = 0) as ->
          by (unfold dtotal; destruct (cr_ok res); reflexivity).
        destruct (c =? p_erc20 p); ring.
    - (* ConvertERC20 *)
      pose proof (convert_erc20_ok_exact _ _ _ _ _ _ _ _ H PR) as E. cbv zeta in E.
      pose proof (convert_erc20_inv X xcall xcontract MODULE s m s' H) as (q & PR' & FLOW). unfold ce_pair in PR. rewrite PR in PR'.
      inversion PR'; subst q; clear PR'.
      destruct (is_contract xcontract s (p_erc20 p)) eqn:C; [|apply DEL; [reflexivity | exact E]].
      destruct E as (OW & P & BL & BS & SS & (G1 & G2 & G3 & G4 & G5 & G6 & G7 & G8) & A & res & TE & _).
      rewrite find_mtok_tokens in F'.
      (* flow 1.2 never pays out to the module account (its coin-balance check); flow 2.1 may, but then the coins
         are vouchers of an external pair, which back no module contract *)
      assert (RM : p_owner p = 1 -> ce_receiver m <> MODULE).
      { intro O1. destruct FLOW as [(C' & _)|[(_ & _ & FL)|(_ & O2 & _)]]; [congruence | | congruence].
        eapply ce_native_coin_receiver; exact FL. }
      assert (ESC : forall d, escrow MODULE s' d = escrow MODULE s d
                              + ind (bytes_eqb d (ce_denom m)) (ind (p_owner p =? 1) (- ce_amount m) + ind (MODULE =? ce_receiver m) (ce_amount m))).
      { intro d. unfold escrow. rewrite BS. rewrite Z.eqb_refl, andb_true_r. unfold ind.
        destruct (p_owner p =? 1); destruct (bytes_eqb d (ce_denom m)); destruct (MODULE =? ce_receiver m); cbn [andb]; ring. }
      rewrite (backing_shift s s' (ce_denom m) p _ W GP G3 ESC c).
      destruct OW as [O|O]; rewrite O in *; cbn [Z.eqb Pos.eqb andb ind] in *.
      + destruct (token_effect_totals _ _ _ _ _ _ _ _ _ _ _ TE c t' F') as (t & F & T).
        exists t. rewrite find_mtok_tokens. split; [exact F|]. rewrite T. unfold dtotal.
        destruct TE as (_ & _ & _ & _ & _ & _ & OK & _). rewrite OK.
        destruct (Z.eqb_spec MODULE (ce_receiver m)) as [EQ|_]; [exfalso; apply (RM eq_refl); congruence|].
        unfold ind. rewrite (Z.eqb_sym (p_erc20 p) c). destruct (c =? p_erc20 p); ring.
      + destruct (token_effect_totals _ _ _ _ _ _ _ _ _ _ _ TE c t' F') as (t & F & T).
        exists t. rewrite find_mtok_tokens. split; [exact F|]. rewrite T.
        assert (dtotal (CTransfer MODULE (ce_amount m)) res = 0) as -> by (unfold dtotal; destruct (cr_ok res); reflexivity).
        destruct (c =? p_erc20 p); ring.
  Qed.

  (** ... hence so does every message delivered by BaseApp and every packet handled by the ICS-20 hook, whatever
      its outcome *)
  Definition is_conversion (o : op) : Prop := match o with OMsg _ | OHook _ _ _ => True | _ => False end.

  Theorem conversion_preserves_gap s o :
    is_conversion o -> not_module_signed MODULE o -> WF s ->
    forall c t', find_mtok (step xcall xcontract MODULE s o) c = Some t' ->
      exists t, find_mtok s c = Some t /\
        backing MODULE (step xcall xcontract MODULE s o) c - st_total t' = backing MODULE s c - st_total t.
  Proof.
    intros IC NS W c t'. destruct o as [m|? ? ?|? ? ? ?|?|? ? ? ?|r d a|? ? ?]; try destruct IC; cbn [step].
    - destruct (deliver xcall xcontract MODULE s m) as [s' k] eqn:D. cbn [fst].
      apply deliver_inv in D as [(_ & _ & H)|(_ & ->)].
      + apply (handle_preserves_gap s m s' H); assumption.
      + intro F. exists t'. split; [exact F | reflexivity].
    - destruct (hook_recv xcall xcontract MODULE s r d a) as [s' k] eqn:D. cbn [fst].
      apply (hook_recv_inv X) in D as [(_ & _ & _ & _ & H)|(_ & ->)].
      + apply (handle_preserves_gap s (MCC (hook_msg r d a)) s' H); assumption.
      + intro F. exists t'. split; [exact F | reflexivity].
  Qed.
End Gap.

Arguments is_conversion : clear implicits.
