(** A concrete instance of the oracle arguments of Model/Registry.v that satisfies the hypotheses of the
    C12 theorems (so the hypotheses are consistent and the theorems are not vacuous): [hid0] is an injective
    pairing, [canon0] the lower-case "0x…" rendering of an address. *)
From Teleport Require Import Base.Bytes Base.Outcome Base.AList Model.Registry Proofs.RegistryMap.
Local Open Scope N_scope.

Definition hex_digit (n : N) : byte := byte_of_N (if n <? 10 then 48 + n else 87 + n).

Definition hex_encode (l : bytes) : bytes :=
  flat_map (fun b => [hex_digit (Byte.to_N b / 16); hex_digit (Byte.to_N b mod 16)]) l.

Lemma hex_byte_roundtrip (b : byte) :
  let h := hex_digit (Byte.to_N b / 16) in let l := hex_digit (Byte.to_N b mod 16) in
  is_hex_char h && is_hex_char l = true /\ byte_of_N (16 * hex_val h + hex_val l) = b.
Proof. destruct b; vm_compute; split; reflexivity. Qed.

Lemma hex_encode_length l : length (hex_encode l) = (2 * length l)%nat.
Proof.
  induction l as [|b l IH]; [reflexivity|].
  change (hex_encode (b :: l)) with (hex_digit (Byte.to_N b / 16) :: hex_digit (Byte.to_N b mod 16) :: hex_encode l).
  cbn [length]. rewrite IH. lia.
Qed.

Lemma hex_encode_chars l : forallb is_hex_char (hex_encode l) = true.
Proof.
  induction l as [|b l IH]; [reflexivity|].
  change (hex_encode (b :: l)) with (hex_digit (Byte.to_N b / 16) :: hex_digit (Byte.to_N b mod 16) :: hex_encode l).
  cbn [forallb]. rewrite IH. destruct (hex_byte_roundtrip b) as [H _]. apply andb_true_iff in H as [-> ->]. reflexivity.
Qed.

Lemma hex_decode_encode l : hex_decode_prefix (hex_encode l) = l.
Proof.
  induction l as [|b l IH]; [reflexivity|].
  change (hex_encode (b :: l)) with (hex_digit (Byte.to_N b / 16) :: hex_digit (Byte.to_N b mod 16) :: hex_encode l).
  cbn [hex_decode_prefix]. destruct (hex_byte_roundtrip b) as [H1 H2]. cbv zeta in H1, H2. rewrite H1, H2, IH. reflexivity.
Qed.

(* any 20-byte normalisation: crop / pad on the right *)
Definition norm20 (a : bytes) : bytes := firstn 20 (a ++ repeat x00 20).

Lemma norm20_length a : length (norm20 a) = 20%nat.
Proof. unfold norm20. rewrite firstn_length, app_length, repeat_length. lia. Qed.

Lemma norm20_id a : length a = 20%nat -> norm20 a = a.
Proof.
  assert (G : forall n (l : bytes), length l = n -> firstn n (l ++ repeat x00 n) = l).
  { intros n l <-. rewrite firstn_app, Nat.sub_diag, firstn_all. cbn. apply app_nil_r. }
  intro L. exact (G 20%nat a L).
Qed.

Definition canon0 (a : bytes) : bytes := "0"%byte :: "x"%byte :: hex_encode (norm20 a).

Lemma canon0_hex a : is_hex_address (canon0 a) = true.
Proof.
  unfold is_hex_address, canon0.
  assert (S0 : strip_0x ("0"%byte :: "x"%byte :: hex_encode (norm20 a)) = hex_encode (norm20 a)) by reflexivity.
  rewrite S0, hex_encode_length, norm20_length, hex_encode_chars. reflexivity.
Qed.

Lemma canon0_addr a : length a = 20%nat -> addr_of (canon0 a) = a.
Proof.
  intro L. unfold addr_of, from_hex, canon0.
  assert (S0 : strip_0x ("0"%byte :: "x"%byte :: hex_encode (norm20 a)) = hex_encode (norm20 a)) by reflexivity.
  rewrite S0, hex_encode_length, norm20_length.
  change (Nat.odd (2 * 20)) with false. cbv iota.
  rewrite hex_decode_encode, norm20_length.
  change (Nat.ltb 20 20) with false. cbv iota. change (20 - 20)%nat with 0%nat. cbn [repeat app].
  apply norm20_id. exact L.
Qed.

(* an injective, non-empty pairing: unary length of the text, a separator, the text, the denomination *)
Definition hid0 (t d : bytes) : bytes := repeat x01 (length t) ++ x00 :: t ++ d.

Lemma hid0_nonempty t d : hid0 t d <> [].
Proof. unfold hid0. destruct (repeat x01 (length t)); discriminate. Qed.

Lemma repeat_sep_inj n m (a b : bytes) : repeat x01 n ++ x00 :: a = repeat x01 m ++ x00 :: b -> n = m /\ a = b.
Proof.
  revert m. induction n as [|n IH]; intros [|m] H; cbn in H.
  - inversion H. split; reflexivity.
  - discriminate.
  - discriminate.
  - inversion H as [H']. apply IH in H' as [-> ->]. split; reflexivity.
Qed.

Lemma hid0_inj t d t' d' : hid0 t d = hid0 t' d' -> t = t' /\ d = d'.
Proof.
  unfold hid0. intro H. apply repeat_sep_inj in H as [L H].
  assert (X : firstn (length t) (t ++ d) = firstn (length t) (t' ++ d')) by (rewrite H; reflexivity).
  rewrite firstn_app, Nat.sub_diag, firstn_all in X. cbn in X. rewrite app_nil_r in X.
  rewrite L, firstn_app, Nat.sub_diag, firstn_all in X. cbn in X. rewrite app_nil_r in X. subst t'.
  apply app_inv_head in H. split; [reflexivity | exact H].
Qed.
