(** Ancestor chains in the header index of the Ethereum client model, and the three loops
    of [RestrictChain] ([walk1], [walk2], [repoint]) characterised in terms of them. *)
From Teleport Require Import Base.Bytes Base.Outcome Model.Eth Proofs.EthBase Proofs.EthValid.
From Coq Require Import Lia ZArith NArith List.
Local Open Scope N_scope.

Section Chain.
  Variable hash : header -> bytes.
  Variable r0 : N.
  Notation idx_wf := (idx_wf hash r0).
  Notation wf_hdr := (wf_hdr r0).

  Definition key (a : header) : hkey := (hash a, h_num a).
  (** the key under which [GetParentHeaderFromIndex] looks the parent of [a] up *)
  Definition pkey (a : header) : hkey := (to_hash (h_parent a), sub64 (h_num a) 1).
  Definition Stored (ix : imap) (a : header) : Prop := iget (key a) ix = Some a.

  Lemma parent_of_pkey ix a : parent_of ix a = iget (pkey a) ix.
  Proof. reflexivity. Qed.

  Lemma parent_of_spec ix x p :
    idx_wf ix -> h_num x < two63 -> parent_of ix x = Some p ->
    key p = pkey x /\ h_num x = h_num p + 1 /\ wf_hdr p /\ Stored ix p.
  Proof.
    intros WF Hx E. unfold parent_of in E. pose proof (WF _ _ _ E) as [Hh [Hn W]].
    assert (Hx64 : h_num x < two64) by (pose proof two63_lt_two64; lia).
    destruct W as [Wr [Wn Wg]].
    destruct (sub64_small _ _ Hx64 (eq_sym Hn) Wn) as [H1 H2].
    split; [unfold key, pkey; congruence|]. split; [lia|]. split; [repeat split; assumption|].
    unfold Stored, key. rewrite Hh, Hn. exact E.
  Qed.

  Lemma stored_wf ix a : idx_wf ix -> Stored ix a -> wf_hdr a.
  Proof. intros WF S. apply WF in S. tauto. Qed.

  Lemma stored_lookup ix x k a : idx_wf ix -> iget (x, k) ix = Some a -> Stored ix a /\ key a = (x, k).
  Proof.
    intros WF E. pose proof (WF _ _ _ E) as [Hh [Hn _]]. unfold Stored, key. rewrite Hh, Hn. tauto.
  Qed.

  (** same (raw) parent hash and same number: same parent *)
  Lemma parent_of_same ix x y : h_parent x = h_parent y -> h_num x = h_num y -> parent_of ix x = parent_of ix y.
  Proof. intros E1 E2. unfold parent_of. rewrite E1, E2. reflexivity. Qed.

  Lemma pkey_height_ne x n : h_num x <= n -> n < two63 -> snd (pkey x) <> n.
  Proof.
    intros L Hn. unfold pkey; cbn [snd].
    assert (Hx64 : h_num x < two64) by (pose proof two63_lt_two64; lia).
    destruct (N.eq_dec (h_num x) 0) as [Z|NZ].
    - rewrite Z, sub64_zero. revert Hn. unfold two63, two64. lia.
    - rewrite sub64_pred by lia. lia.
  Qed.

  (** * The j-th stored ancestor *)
  Fixpoint nth_anc (ix : imap) (x : header) (j : nat) : option header :=
    match j with
    | O => Some x
    | S j' => match parent_of ix x with Some p => nth_anc ix p j' | None => None end
    end.

  Lemma nth_anc_S ix x j : nth_anc ix x (S j) = match nth_anc ix x j with Some a => parent_of ix a | None => None end.
  Proof.
    revert x; induction j as [|j IH]; intro x.
    - cbn. destruct (parent_of ix x); reflexivity.
    - cbn [nth_anc]. destruct (parent_of ix x) as [p|]; [|reflexivity]. rewrite <- IH. reflexivity.
  Qed.

  Lemma nth_anc_add ix x i j : nth_anc ix x (i + j) = match nth_anc ix x i with Some a => nth_anc ix a j | None => None end.
  Proof.
    revert x; induction i as [|i IH]; intro x; cbn; [reflexivity|].
    destruct (parent_of ix x); [apply IH | reflexivity].
  Qed.

  Lemma nth_anc_le ix x i j a : nth_anc ix x j = Some a -> (i <= j)%nat -> exists b, nth_anc ix x i = Some b.
  Proof.
    intros E L. replace j with (i + (j - i))%nat in E by lia. rewrite nth_anc_add in E.
    destruct (nth_anc ix x i) as [b|]; [exists b; reflexivity | discriminate].
  Qed.

  Lemma nth_anc_num ix x j a :
    idx_wf ix -> h_num x < two63 -> nth_anc ix x j = Some a -> h_num x = h_num a + N.of_nat j /\ h_num a < two63.
  Proof.
    intros WF. revert x; induction j as [|j IH]; intros x Hx E.
    - cbn in E. inversion E; subst. split; [lia | exact Hx].
    - cbn in E. destruct (parent_of ix x) as [p|] eqn:P; [|discriminate].
      destruct (parent_of_spec _ _ _ WF Hx P) as [_ [Hn [[_ [Wn _]] _]]].
      destruct (IH p Wn E) as [H1 H2]. split; [lia | exact H2].
  Qed.

  Lemma nth_anc_stored ix x j a : idx_wf ix -> h_num x < two63 -> Stored ix x -> nth_anc ix x j = Some a -> Stored ix a.
  Proof.
    intros WF. revert x; induction j as [|j IH]; intros x Hx S E.
    - cbn in E. inversion E; subst; exact S.
    - cbn in E. destruct (parent_of ix x) as [p|] eqn:P; [|discriminate].
      destruct (parent_of_spec _ _ _ WF Hx P) as [_ [_ [[_ [Wn _]] Sp]]]. exact (IH p Wn Sp E).
  Qed.

  (** ancestors above the 0-th are stored even when [x] itself is not *)
  Lemma nth_anc_stored_S ix x j a : idx_wf ix -> h_num x < two63 -> nth_anc ix x (S j) = Some a -> Stored ix a.
  Proof.
    intros WF Hx E. cbn in E. destruct (parent_of ix x) as [p|] eqn:P; [|discriminate].
    destruct (parent_of_spec _ _ _ WF Hx P) as [_ [_ [[_ [Wn _]] Sp]]].
    exact (nth_anc_stored _ _ _ _ WF Wn Sp E).
  Qed.

  (** two indexes that agree on every key whose height is not [n] give the same ancestors
      to headers not above [n] *)
  Lemma nth_anc_ext ix ix' n x j :
    (forall k, snd k <> n -> iget k ix' = iget k ix) ->
    idx_wf ix -> h_num x <= n -> n < two63 -> nth_anc ix' x j = nth_anc ix x j.
  Proof.
    intros A WF. revert x; induction j as [|j IH]; intros x Hx Hn; [reflexivity|].
    cbn. assert (P : parent_of ix' x = parent_of ix x).
    { unfold parent_of. apply A. apply (pkey_height_ne x n Hx Hn). }
    rewrite P. destruct (parent_of ix x) as [p|] eqn:E; [|reflexivity].
    assert (Hx63 : h_num x < two63) by lia.
    destruct (parent_of_spec _ _ _ WF Hx63 E) as [_ [Hp _]].
    apply IH; lia.
  Qed.

  (** descending list of the first [j]+1 ancestors *)
  Fixpoint ancs (ix : imap) (x : header) (j : nat) : list header :=
    x :: match j with
         | O => []
         | S j' => match parent_of ix x with Some p => ancs ix p j' | None => [] end
         end.

  Lemma ancs_nth ix x j a : nth_anc ix x j = Some a ->
    length (ancs ix x j) = S j /\ forall i, (i <= j)%nat -> nth_error (ancs ix x j) i = nth_anc ix x i.
  Proof.
    revert x; induction j as [|j IH]; intros x E.
    - cbn. split; [reflexivity|]. intros i Hi. assert (i = 0)%nat as -> by lia. reflexivity.
    - cbn in E. cbn [ancs]. destruct (parent_of ix x) as [p|] eqn:P; [|discriminate].
      destruct (IH p E) as [L N]. split; [cbn; rewrite L; reflexivity|].
      intros [|i] Hi; [reflexivity|]. cbn. rewrite P. apply N. lia.
  Qed.

  Lemma ancs_in ix x j b : In b (ancs ix x j) -> exists i, (i <= j)%nat /\ nth_anc ix x i = Some b.
  Proof.
    revert x; induction j as [|j IH]; intros x I.
    - cbn in I. destruct I as [<-|[]]. exists 0%nat. split; [lia | reflexivity].
    - cbn [ancs] in I. destruct I as [<-|I]; [exists 0%nat; split; [lia | reflexivity]|].
      destruct (parent_of ix x) as [p|] eqn:P; [|contradiction].
      destruct (IH p I) as [i [Hi E]]. exists (S i). split; [lia|]. cbn. rewrite P. exact E.
  Qed.

  Lemma ancs_last ix x j a : nth_anc ix x j = Some a -> last (ancs ix x j) x = a.
  Proof.
    revert x; induction j as [|j IH]; intros x E.
    - cbn in *. congruence.
    - cbn in E. cbn [ancs]. destruct (parent_of ix x) as [p|] eqn:P; [|discriminate].
      specialize (IH p E). destruct (ancs ix p j) as [|y l] eqn:A; [cbn in *; destruct j; discriminate|].
      cbn [last]. cbn [last] in IH.
      (* last (y :: l) with default p vs default x: the list is non-empty *)
      clear -IH. revert y IH. induction l as [|z l IHl]; intros y IH; cbn in *; [exact IH | apply IHl; exact IH].
  Qed.

  (** * Loop 1 *)
  Fixpoint push (ix : imap) (x : header) (j : nat) (acc : list bytes) : list bytes :=
    match j with
    | O => acc
    | S j' => match parent_of ix x with Some p => push ix p j' (hash x :: acc) | None => acc end
    end.

  Lemma walk1_eq ix d : forall fuel new ti si acc,
    ti < two64 -> d = N.to_nat (ti - si) -> (d <= fuel)%nat ->
    walk1 hash fuel ix new ti si acc =
      match nth_anc ix new d with
      | Some a => Ok (a, ti - N.of_nat d, push ix new d acc)
      | None => Err
      end.
  Proof.
    induction d as [|d IH]; intros fuel new ti si acc Hti Hd Hf.
    - assert (L : (si <? ti) = false) by (apply N.ltb_ge; lia).
      destruct fuel; cbn [walk1 nth_anc push]; rewrite L; rewrite N.sub_0_r; reflexivity.
    - assert (L : (si <? ti) = true) by (apply N.ltb_lt; lia).
      destruct fuel as [|f]; [lia|]. cbn [walk1 nth_anc push]. rewrite L.
      destruct (parent_of ix new) as [p|]; [|reflexivity].
      rewrite sub64_pred by lia.
      rewrite (IH f p (ti - 1) si (hash new :: acc)) by lia.
      destruct (nth_anc ix p d); [|reflexivity].
      replace (ti - 1 - N.of_nat d) with (ti - N.of_nat (S d)) by lia. reflexivity.
  Qed.

  (** * Loop 2 *)
  Lemma walk2_sound ix : forall fuel cur new ti acc new2 ti2 acc2,
    idx_wf ix -> h_num new < two63 -> ti = h_num new ->
    walk2 hash fuel ix cur new ti acc = Ok (new2, ti2, acc2) ->
    exists j cur2, (j <= fuel)%nat /\ nth_anc ix new j = Some new2 /\ nth_anc ix cur j = Some cur2 /\
                   h_parent cur2 = h_parent new2 /\ ti2 = h_num new2 /\ acc2 = push ix new j acc.
  Proof.
    induction fuel as [|f IH]; intros cur new ti acc new2 ti2 acc2 WF Hn Hti W.
    - cbn in W. destruct (beq_spec (h_parent cur) (h_parent new)) as [E|_]; [|discriminate].
      inversion W; subst. exists 0%nat, cur. repeat split; try reflexivity; try lia. exact E.
    - cbn in W. destruct (beq_spec (h_parent cur) (h_parent new)) as [E|_].
      + inversion W; subst. exists 0%nat, cur. repeat split; try reflexivity; try lia. exact E.
      + destruct (parent_of ix new) as [pn|] eqn:Pn; [|discriminate].
        destruct (parent_of ix cur) as [pc|] eqn:Pc; [|discriminate].
        destruct (parent_of_spec _ _ _ WF Hn Pn) as [_ [Hnum [[_ [Wn _]] _]]].
        assert (T : sub64 ti 1 = h_num pn).
        { subst ti. rewrite sub64_pred; [lia | lia | pose proof two63_lt_two64; lia]. }
        rewrite T in W.
        destruct (IH pc pn (h_num pn) (hash new :: acc) new2 ti2 acc2 WF Wn eq_refl W)
          as [j [cur2 [Hj [A [B [C [D F]]]]]]].
        exists (S j), cur2. cbn. rewrite Pn, Pc. repeat split; try assumption. lia.
  Qed.

  Lemma walk2_complete ix : forall j fuel cur new ti acc a b,
    idx_wf ix -> h_num new < two63 ->
    nth_anc ix new j = Some a -> nth_anc ix cur j = Some b -> h_parent b = h_parent a -> (j <= fuel)%nat ->
    exists r, walk2 hash fuel ix cur new ti acc = Ok r.
  Proof.
    induction j as [|j IH]; intros fuel cur new ti acc a b WF Hn A B E Hf.
    - cbn in A, B. inversion A; inversion B; subst.
      destruct fuel; cbn; rewrite E, beq_refl; eexists; reflexivity.
    - destruct fuel as [|f]; [lia|]. cbn.
      destruct (beq (h_parent cur) (h_parent new)); [eexists; reflexivity|].
      cbn in A, B. destruct (parent_of ix new) as [pn|] eqn:Pn; [|discriminate].
      destruct (parent_of ix cur) as [pc|] eqn:Pc; [|discriminate].
      destruct (parent_of_spec _ _ _ WF Hn Pn) as [_ [_ [[_ [Wn _]] _]]].
      eapply IH; eauto. lia.
  Qed.

  (** the collected hashes are those of the ancestors, newest last *)
  Lemma push_ancs ix x j acc a : nth_anc ix x j = Some a ->
    hash a :: push ix x j acc = map hash (rev (ancs ix x j)) ++ acc.
  Proof.
    revert x acc; induction j as [|j IH]; intros x acc E.
    - cbn in *. inversion E; subst. reflexivity.
    - cbn in E. cbn [push ancs]. destruct (parent_of ix x) as [p|] eqn:P; [|discriminate].
      rewrite (IH p (hash x :: acc) E). cbn [rev]. rewrite map_app. cbn [map]. rewrite <- app_assoc. reflexivity.
  Qed.

  (** * Loop 3 *)
  Fixpoint Asc (ti : N) (l : list header) : Prop :=
    match l with
    | [] => True
    | a :: l' => h_num a = ti /\ Asc (ti + 1) l'
    end.

  Definition setc (rev : N) (c : cmap) (a : header) : cmap := cset (rev, h_num a) (cstate_of a) c.

  (** the root-main slots written by the re-pointing loop of variant [v_root] *)
  Definition setr (rm : rmap) (a : header) : rmap := rset (to_hash (h_root a), h_num a) (key a) rm.
  Definition rfold (fr : bool) (l : list header) (rm : rmap) : rmap := if fr then fold_left setr l rm else rm.

  Lemma repoint_spec fr ix rev : forall l ti c rm,
    (forall a, In a l -> Stored ix a /\ h_num a < two63) -> Asc ti l ->
    repoint fr ix rev ti (map hash l) c rm = Ok (fold_left (setc rev) l c, rfold fr l rm).
  Proof.
    induction l as [|a l IH]; intros ti c rm S A; [destruct fr; reflexivity|].
    cbn [map repoint fold_left]. destruct A as [An A]. subst ti.
    destruct (S a (or_introl eq_refl)) as [Sa Ha]. unfold Stored, key in Sa. rewrite Sa.
    rewrite add64_succ by (pose proof two63_lt_two64; unfold two63, two64 in *; lia).
    change (cset (rev, h_num a) (cstate_of a) c) with (setc rev c a).
    rewrite IH; [|intros b I; apply S; right; exact I | exact A].
    destruct fr; reflexivity.
  Qed.

  Lemma fold_setr_other l : forall rm k, (forall a, In a l -> (to_hash (h_root a), h_num a) <> k) ->
    rget k (fold_left setr l rm) = rget k rm.
  Proof.
    induction l as [|a l IH]; intros rm k N; [reflexivity|].
    cbn [fold_left]. rewrite IH by (intros b I; apply N; right; exact I).
    unfold setr, rset, rget. rewrite rget_rset. destruct (hkey_eqb_spec k (to_hash (h_root a), h_num a)) as [E|_]; [|reflexivity].
    exfalso. apply (N a (or_introl eq_refl)). congruence.
  Qed.

  Lemma fold_setr_in l : forall rm a, NoDup (map h_num l) -> In a l ->
    rget (to_hash (h_root a), h_num a) (fold_left setr l rm) = Some (key a).
  Proof.
    induction l as [|b l IH]; intros rm a ND I; [contradiction|].
    cbn [fold_left]. cbn [map] in ND. inversion ND as [|? ? NI ND']; subst.
    destruct I as [->|I].
    - rewrite fold_setr_other.
      + unfold setr, rset, rget. rewrite rget_rset, hkey_eqb_refl. reflexivity.
      + intros x Ix E. apply NI. assert (E' : h_num x = h_num a) by congruence. rewrite <- E'. apply in_map. exact Ix.
    - apply IH; assumption.
  Qed.

  (** * Loop 0 *)
  Lemma walk0_eq ix d : forall fuel cur si ti,
    si < two64 -> d = N.to_nat (si - ti) -> (d <= fuel)%nat ->
    walk0 fuel ix cur si ti = match nth_anc ix cur d with Some a => Ok a | None => Err end.
  Proof.
    induction d as [|d IH]; intros fuel cur si ti Hsi Hd Hf.
    - assert (L : (ti <? si) = false) by (apply N.ltb_ge; lia).
      destruct fuel; cbn [walk0 nth_anc]; rewrite L; reflexivity.
    - assert (L : (ti <? si) = true) by (apply N.ltb_lt; lia).
      destruct fuel as [|f]; [lia|]. cbn [walk0 nth_anc]. rewrite L.
      destruct (parent_of ix cur) as [p|]; [|reflexivity].
      rewrite sub64_pred by lia. apply IH; lia.
  Qed.

  Lemma walk0_sound ix : forall fuel cur si ti r,
    si < two64 -> walk0 fuel ix cur si ti = Ok r -> nth_anc ix cur (N.to_nat (si - ti)) = Some r.
  Proof.
    induction fuel as [|f IH]; intros cur si ti r Hsi W.
    - cbn in W. destruct (N.ltb_spec ti si) as [L|L]; [discriminate|].
      inversion W; subst. replace (si - ti) with 0 by lia. reflexivity.
    - cbn in W. destruct (N.ltb_spec ti si) as [L|L].
      + destruct (parent_of ix cur) as [p|] eqn:P; [|discriminate].
        rewrite sub64_pred in W by lia.
        replace (N.to_nat (si - ti)) with (S (N.to_nat (si - 1 - ti))) by lia.
        cbn [nth_anc]. rewrite P. apply IH; [lia | exact W].
      + inversion W; subst. replace (si - ti) with 0 by lia. reflexivity.
  Qed.

  Lemma fold_setc_other rev l : forall c k, (forall a, In a l -> (rev, h_num a) <> k) ->
    cget k (fold_left (setc rev) l c) = cget k c.
  Proof.
    induction l as [|a l IH]; intros c k N; [reflexivity|].
    cbn [fold_left]. rewrite IH by (intros b I; apply N; right; exact I).
    unfold setc. rewrite cget_cset. destruct (ckey_eqb_spec k (rev, h_num a)) as [E|_]; [|reflexivity].
    exfalso. apply (N a (or_introl eq_refl)). congruence.
  Qed.

  Lemma fold_setc_in rev l : forall c a, NoDup (map h_num l) -> In a l ->
    cget (rev, h_num a) (fold_left (setc rev) l c) = Some (cstate_of a).
  Proof.
    induction l as [|b l IH]; intros c a ND I; [contradiction|].
    cbn [fold_left]. cbn [map] in ND. inversion ND as [|? ? NI ND']; subst.
    destruct I as [->|I].
    - rewrite fold_setc_other.
      + unfold setc. rewrite cget_cset, ckey_eqb_refl. reflexivity.
      + intros x Ix E. apply NI. assert (E' : h_num x = h_num a) by congruence. rewrite <- E'. apply in_map. exact Ix.
    - apply IH; assumption.
  Qed.

  Lemma fold_setc_keys rev l : forall c k v, cget k (fold_left (setc rev) l c) = Some v ->
    cget k c = Some v \/ exists a, In a l /\ k = (rev, h_num a).
  Proof.
    induction l as [|b l IH]; intros c k v E; [left; exact E|].
    cbn [fold_left] in E. destruct (IH _ _ _ E) as [E1|[a [I K]]].
    - unfold setc in E1. rewrite cget_cset in E1. destruct (ckey_eqb_spec k (rev, h_num b)) as [K|_].
      + right. exists b. split; [left; reflexivity | exact K].
      + left; exact E1.
    - right. exists a. split; [right; exact I | exact K].
  Qed.

  Lemma fold_setc_nodup rev l : forall c, NoDup (map fst c) -> NoDup (map fst (fold_left (setc rev) l c)).
  Proof.
    induction l as [|b l IH]; intros c ND; [exact ND|].
    cbn [fold_left]. apply IH. unfold setc. apply (mset_nodup ckey_eqb ckey_eqb_spec). exact ND.
  Qed.
End Chain.
