(** C03 — what the accepted operations do to the REAL ledgers, stated against the whole state ("and nothing
    else changes"): a successful receive credits the receiver with exactly the delivered amount and nothing
    else moves; an error acknowledgement gives back exactly what was taken and nothing else moves; every
    voucher minted anywhere is backed by escrow the origin chain's endpoint really holds. *)
From Coq Require Import List Arith PeanoNat NArith Bool Lia.
From Teleport Require Import Base.Outcome Model.Bridge Model.BridgeCheck Proofs.Bridge Proofs.BridgeOutcome Proofs.BridgeBacking.
Import ListNotations.
Local Open Scope N_scope.

Section WithCfg.
Variable cfg : config.

(** ** The token part of a receive, explicitly *)
Lemma give_tokens_effect cs p cs1 d :
  give_tokens cfg cs p = Some (cs1, d) ->
  (p_amount p = 0 /\ cs1 = cs /\ d = 0) \/
  (p_amount p <> 0 /\ p_ori p = None /\ exists loc k r,
     p_recv p = Some r /\ trace cfg (p_dst p) (p_src p) (p_token p) = Some (loc, k) /\ d = p_amount p * k /\
     cs1 = set_bind (mint cs loc r d) (upd_tc (bind_amt cs) loc (p_src p) (bind_amt cs loc (p_src p) + d))) \/
  (p_amount p <> 0 /\ exists t r,
     p_recv p = Some r /\ p_ori p = Some t /\ d = p_amount p /\
     d <= out_tokens cs t (p_src p) /\ d <= bal cs t Endpoint /\
     cs1 = set_out (move cs t Endpoint r d) (upd_tc (out_tokens cs) t (p_src p) (out_tokens cs t (p_src p) - d))).
Proof.
  unfold give_tokens. destruct (p_amount p =? 0) eqn:Ea.
  - intro H; inv H. apply N.eqb_eq in Ea. left. auto.
  - apply N.eqb_neq in Ea. destruct (p_recv p) as [r|]; [|discriminate].
    destruct (p_ori p) as [t|] eqn:Eo.
    + destruct (Nat.eqb t 0 && is_contract r); [discriminate|].
      destruct ((p_amount p <=? out_tokens cs t (p_src p)) && (p_amount p <=? bal cs t Endpoint)) eqn:Eg; [|discriminate].
      intro H; inv H. apply andb_true_iff in Eg as [Eg1 Eg2]. apply N.leb_le in Eg1, Eg2.
      right; right. split; [exact Ea|]. exists t, r. repeat split; auto.
    + destruct (trace cfg (p_dst p) (p_src p) (p_token p)) as [[loc k]|] eqn:Et; [|discriminate].
      intro H; inv H. right; left. split; [exact Ea|]. split; [reflexivity|].
      exists loc, k, r. repeat split; auto.
Qed.

(** balances after a mint / a move, point-wise *)
Lemma bal_mint cs t r a t' h :
  bal (mint cs t r a) t' h = if Nat.eqb t t' && holder_eqb r h then bal cs t r + a else bal cs t' h.
Proof.
  unfold mint, credit, set_supply, set_bal, upd_bal. cbn [bal].
  destruct (Nat.eqb_spec t t'); cbn [andb]; [|reflexivity]. subst.
  destruct (holder_eqb_spec r h); [subst|]; reflexivity.
Qed.

Lemma supply_mint cs t r a t' : supply (mint cs t r a) t' = if Nat.eqb t t' then supply cs t + a else supply cs t'.
Proof. unfold mint, set_supply, upd1. cbn [supply]. reflexivity. Qed.

(** ** A successful receive: the destination ledger is exactly "token part, then call data"; for a user
    receiver the balance of the delivered token grows by exactly the delivered amount, the total supply and
    [bindings.amount] grow by the same amount (mint) resp. the escrow and [outTokens] shrink by it (release),
    no other chain changes, and on the destination nothing else changes except the effect of succeeding call
    data.  (Packets whose call data is [Agent.send] additionally perform the agent's onward transfer, which is
    a [transfer_chain] of the agent on the resulting ledger: [recv_chain_cases].) *)
Definition no_agent (p : packet) : Prop :=
  match p_cd p with CdAgent _ _ _ _ => False | _ => True end.

Theorem recv_success_effect s src dst sq s' p q' :
  step cfg s (Recv src dst sq) = Ok s' ->
  lookup src dst sq (packets s) = Some p ->
  lookup src dst sq (packets s') = Some q' -> p_code q' = 0 ->
  (forall c, c <> dst -> chains s' c = chains s c) /\
  p_status q' = RecvOk /\
  exists cs1, give_tokens cfg (chains s dst) p = Some (cs1, p_delivered q') /\
    (no_agent p ->
       same_core (chains s' dst) cs1 /\
       (forall e, effects (chains s' dst) e = match p_cd p with
                                              | CdOk e0 => if Nat.eqb e0 e then 7 else effects (chains s dst) e
                                              | _ => effects (chains s dst) e end)).
Proof.
  intros H Hl Hl' Hc. unfold step, step_gen in H. rewrite Hl in H.
  destruct (is_sent p); [|discriminate].
  destruct (recv_chain cfg (chains s dst) p) as [[[code cs] d] onw] eqn:Er. inv H. cbn [packets chains set_chain] in *.
  rewrite lookup_app, (lookup_update _ _ _ _ _ _ _ _ (on_recv_key code d)), Hl in Hl'.
  destruct (lookup_in _ _ _ _ _ Hl) as [_ Hk]. rewrite Hk in Hl'. inv Hl'. cbn in Hc. subst code.
  split.
  { intros c Hne. unfold upd1. destruct (Nat.eqb_spec dst c); [congruence|reflexivity]. }
  split; [reflexivity|].
  unfold upd1. rewrite Nat.eqb_refl. cbn [p_delivered on_recv].
  unfold recv_chain in Er.
  destruct (give_tokens cfg (chains s dst) p) as [[cs1 d1]|] eqn:Eg; [|inv Er].
  destruct (run_calldata cfg cs1 p d1) as [[code1 cs2] onw1] eqn:E2.
  destruct (code1 =? 0) eqn:E3; inv Er; [|cbn in E3; discriminate].
  exists cs1. split; [reflexivity|].
  intro Hna. unfold no_agent in Hna. unfold run_calldata in E2.
  apply give_tokens_cases in Eg as (_ & _ & _ & Heff & _).
  destruct (p_cd p) as [|e0| | |]; try contradiction; inv E2; try discriminate.
  - split; [unfold same_core; repeat split; reflexivity|]. intro e. rewrite Heff. reflexivity.
  - split; [unfold same_core; cbn; repeat split; reflexivity|]. intro e. cbn. unfold upd1. rewrite Heff. reflexivity.
Qed.

(** The receiver of a delivered forward transfer holds exactly [amount * 10^scale] more of the bound token,
    minted against the binding; the receiver of a delivered return transfer holds exactly [amount] more of
    the origin token, taken out of the endpoint's escrow. *)
Theorem recv_success_credit s src dst sq s' p q' :
  step cfg s (Recv src dst sq) = Ok s' ->
  lookup src dst sq (packets s) = Some p ->
  lookup src dst sq (packets s') = Some q' -> p_code q' = 0 -> no_agent p -> p_amount p <> 0 ->
  exists r T k, p_recv p = Some r /\ delivered_token cfg p = Some (T, k) /\
    (r <> Endpoint -> bal (chains s' dst) T r = bal (chains s dst) T r + p_delivered q') /\
    (forall t h, (t <> T \/ (h <> r /\ h <> Endpoint)) -> bal (chains s' dst) t h = bal (chains s dst) t h) /\
    match p_ori p with
    | None => supply (chains s' dst) T = supply (chains s dst) T + p_delivered q' /\
              bind_amt (chains s' dst) T src = bind_amt (chains s dst) T src + p_delivered q' /\
              out_tokens (chains s' dst) = out_tokens (chains s dst) /\
              (forall h, bal (chains s' dst) T h = if holder_eqb r h then bal (chains s dst) T r + p_delivered q' else bal (chains s dst) T h)
    | Some _ => supply (chains s' dst) = supply (chains s dst) /\
                bind_amt (chains s' dst) = bind_amt (chains s dst) /\
                out_tokens (chains s' dst) T src = out_tokens (chains s dst) T src - p_delivered q' /\
                p_delivered q' <= out_tokens (chains s dst) T src /\ p_delivered q' <= bal (chains s dst) T Endpoint /\
                (r <> Endpoint -> bal (chains s' dst) T Endpoint = bal (chains s dst) T Endpoint - p_delivered q')
    end.
Proof.
  intros H Hl Hl' Hc Hna Ha.
  destruct (lookup_in _ _ _ _ _ Hl) as [_ Hk]. apply key_is_true in Hk as (K1 & K2 & K3).
  destruct (recv_success_effect _ _ _ _ _ _ _ H Hl Hl' Hc) as (_ & _ & cs1 & Hg & Hs).
  destruct (Hs Hna) as [(S1 & S2 & S3 & S4 & S5 & _) _]. clear Hs.
  apply give_tokens_effect in Hg as [(A & _)|[(_ & Ho & loc & k & r & Hr & Ht & Hd & ->)|(_ & t & r & Hr & Ho & Hd & L1 & L2 & ->)]]; [contradiction| |].
  - (* mint *)
    rewrite K1, K2 in Ht. exists r, loc, k. split; [exact Hr|]. unfold delivered_token. rewrite Ho, K1, K2, Ht.
    split; [reflexivity|]. rewrite S4, S5, S1, S2. cbn [bal supply bind_amt out_tokens set_bind].
    split. { intros _. rewrite bal_mint, Nat.eqb_refl, holder_eqb_refl. reflexivity. }
    split. { intros t h Hth. rewrite bal_mint. destruct (Nat.eqb_spec loc t); cbn [andb]; [subst|reflexivity].
             destruct (holder_eqb_spec r h); [subst|reflexivity]. destruct Hth as [Hth|[Hth _]]; contradiction. }
    split; [rewrite supply_mint, Nat.eqb_refl; reflexivity|].
    split; [rewrite K1; apply upd_tc_same|].
    split; [reflexivity|].
    intro h. rewrite bal_mint, Nat.eqb_refl. reflexivity.
  - (* release *)
    exists r, t, 1. split; [exact Hr|]. unfold delivered_token. rewrite Ho.
    split; [reflexivity|]. rewrite S4, S5, S1, S2. cbn [bal supply bind_amt out_tokens set_out].
    rewrite K1 in *.
    split. { intro Hne. rewrite bal_move_to by congruence. reflexivity. }
    split. { intros t' h Hth. unfold move, credit, debit, set_bal, upd_bal. cbn [bal].
             destruct (Nat.eqb_spec t t'); cbn [andb]; [subst t'|reflexivity].
             destruct Hth as [Hth|[H1 H2]]; [contradiction|].
             destruct (holder_eqb_spec r h); [congruence|]. destruct (holder_eqb_spec Endpoint h); [congruence|]. reflexivity. }
    split; [reflexivity|]. split; [reflexivity|].
    split; [apply upd_tc_same|].
    split; [exact L1|]. split; [exact L2|].
    intro Hne. rewrite bal_move_from by congruence. reflexivity.
Qed.

(** ** An error acknowledgement on the source, against the whole ledger: ack status := 2, the relayer fee moves
    packet contract -> relayer, the escrow is released (forward transfer: [outTokens] and the endpoint's balance
    shrink by the amount) or the burned amount is minted again (return transfer: total supply and
    [bindings.amount] grow by it) in favour of the sender resp. the agent's refund address, and NOTHING else
    changes: no other chain, no other counter, no balance of any other holder. *)
Lemma ack_chain_error_explicit cs p cs' r :
  ack_chain cfg cs p = Some (cs', r) -> p_code p <> 0 ->
  let csf := move (set_ackst cs (upd_cs (ack_status cs) (p_dst p) (p_seq p) 2))
                  (fst (fees cs (p_dst p) (p_seq p))) PacketC Relayer (snd (fees cs (p_dst p) (p_seq p))) in
  p_amount p <> 0 /\ r = refund_due cfg p /\
  exists cs2,
    (match p_ori p with
     | None => p_amount p <= out_tokens cs (p_token p) (p_dst p) /\ p_amount p <= bal csf (p_token p) Endpoint /\
               cs2 = set_out (move csf (p_token p) Endpoint (p_sender p) (p_amount p))
                       (upd_tc (out_tokens cs) (p_token p) (p_dst p) (out_tokens cs (p_token p) (p_dst p) - p_amount p))
     | Some _ => cs2 = set_bind (mint csf (p_token p) (p_sender p) r)
                         (upd_tc (bind_amt cs) (p_token p) (p_dst p) (bind_amt cs (p_token p) (p_dst p) + r))
     end) /\
    cs' = match p_cb p with
          | CbAgent ref => if r =? 0 then cs2 else move cs2 (p_token p) (p_sender p) (User ref) r
          | _ => cs2
          end.
Proof.
  intros H Hc csf. unfold ack_chain in H. apply N.eqb_neq in Hc as Hc'. rewrite Hc' in H.
  assert (G : exists cs2, give_back cfg csf p = Some (cs2, r) /\
                cs' = match p_cb p with
                      | CbAgent ref => if r =? 0 then cs2 else move cs2 (p_token p) (p_sender p) (User ref) r
                      | _ => cs2 end).
  { subst csf. destruct (fees cs (p_dst p) (p_seq p)) as [ft f]. cbn [fst snd].
    destruct (p_cb p) as [| |ref]; [|discriminate|];
      (match type of H with (if ?c then _ else _) = _ => destruct c end; [|discriminate]);
      (match type of H with match ?g with Some _ => _ | None => _ end = _ => destruct g as [[cs2 r2]|] eqn:Eg end; [|discriminate]);
      injection H as <- <-; exists cs2; split; reflexivity. }
  destruct G as (cs2 & G & E). unfold give_back in G. rewrite Hc' in G.
  destruct (p_amount p =? 0) eqn:Ea; [discriminate|]. apply N.eqb_neq in Ea. split; [exact Ea|].
  unfold refund_due.
  destruct (p_ori p) as [t0|].
  - destruct (bound cfg (p_src p) (p_token p) (p_dst p)) as [[o k]|]; [|discriminate].
    injection G as <- <-. split; [reflexivity|]. eexists. split; [reflexivity|exact E].
  - destruct ((p_amount p <=? out_tokens csf (p_token p) (p_dst p)) && (p_amount p <=? bal csf (p_token p) Endpoint)) eqn:Eg; [|discriminate].
    injection G as <- <-. apply andb_true_iff in Eg as [E1 E2]. apply N.leb_le in E1, E2.
    split; [reflexivity|]. eexists. split; [|exact E]. split; [exact E1|]. split; [exact E2|]. reflexivity.
Qed.

Definition touched_by_refund (p : packet) (h : holder) : Prop :=
  h = PacketC \/ h = Relayer \/ h = Endpoint \/ h = p_sender p \/ h = refund_target p.

Theorem ack_error_frame s src dst sq s' p :
  step cfg s (Ack src dst sq) = Ok s' -> lookup src dst sq (packets s) = Some p -> p_code p <> 0 ->
  (forall c, c <> src -> chains s' c = chains s c) /\
  next_seq (chains s' src) = next_seq (chains s src) /\
  fees (chains s' src) = fees (chains s src) /\
  effects (chains s' src) = effects (chains s src) /\
  (forall d q, ack_status (chains s' src) d q = if Nat.eqb dst d && N.eqb sq q then 2 else ack_status (chains s src) d q) /\
  (forall t h, ~ touched_by_refund p h -> bal (chains s' src) t h = bal (chains s src) t h) /\
  p_amount p <> 0 /\
  match p_ori p with
  | None =>
      supply (chains s' src) = supply (chains s src) /\ bind_amt (chains s' src) = bind_amt (chains s src) /\
      p_amount p <= out_tokens (chains s src) (p_token p) dst /\
      (forall t d, out_tokens (chains s' src) t d =
                   if Nat.eqb (p_token p) t && Nat.eqb dst d then out_tokens (chains s src) t d - p_amount p
                   else out_tokens (chains s src) t d)
  | Some _ =>
      out_tokens (chains s' src) = out_tokens (chains s src) /\
      (forall t, supply (chains s' src) t = if Nat.eqb (p_token p) t then supply (chains s src) t + refund_due cfg p
                                            else supply (chains s src) t) /\
      (forall t d, bind_amt (chains s' src) t d =
                   if Nat.eqb (p_token p) t && Nat.eqb dst d then bind_amt (chains s src) t d + refund_due cfg p
                   else bind_amt (chains s src) t d)
  end.
Proof.
  intros H Hl Hc. unfold step, step_gen in H. rewrite Hl in H.
  destruct (is_received p); [|discriminate].
  destruct (ack_chain cfg (chains s src) p) as [[cs r]|] eqn:Er; [|discriminate]. inv H.
  destruct (lookup_in _ _ _ _ _ Hl) as [_ Hk]. apply key_is_true in Hk as (K1 & K2 & K3).
  cbn [chains set_chain].
  split. { intros c Hne. unfold upd1. destruct (Nat.eqb_spec src c); [congruence|reflexivity]. }
  unfold upd1. rewrite Nat.eqb_refl.
  apply ack_chain_error_explicit in Er as (Ha & -> & cs2 & Hcs2 & ->); [|exact Hc].
  rewrite K2, K3 in *.
  set (csf := move (set_ackst (chains s src) (upd_cs (ack_status (chains s src)) dst sq 2))
                   (fst (fees (chains s src) dst sq)) PacketC Relayer (snd (fees (chains s src) dst sq))) in *.
  (* the last step (agent callback) only moves balances between the sender and the refund address *)
  set (fin := match p_cb p with
              | CbAgent ref => if refund_due cfg p =? 0 then cs2 else move cs2 (p_token p) (p_sender p) (User ref) (refund_due cfg p)
              | _ => cs2 end).
  assert (Hfin : next_seq fin = next_seq cs2 /\ fees fin = fees cs2 /\ effects fin = effects cs2 /\ ack_status fin = ack_status cs2 /\
                 supply fin = supply cs2 /\ bind_amt fin = bind_amt cs2 /\ out_tokens fin = out_tokens cs2 /\
                 (forall t h, ~ touched_by_refund p h -> bal fin t h = bal cs2 t h)).
  { subst fin. destruct (p_cb p) as [| |ref] eqn:Ecb; try (repeat split; reflexivity).
    destruct (refund_due cfg p =? 0); [repeat split; reflexivity|].
    repeat split; try reflexivity. intros t h Hh. apply bal_move_other.
    - intro; subst; apply Hh; unfold touched_by_refund; auto.
    - intro; subst; apply Hh; unfold touched_by_refund, refund_target; rewrite Ecb; auto 6. }
  destruct Hfin as (F1 & F2 & F3 & F4 & F5 & F6 & F7 & F8).
  rewrite F1, F2, F3, F4, F5, F6, F7.
  assert (Hcsf : forall t h, ~ touched_by_refund p h -> bal csf t h = bal (chains s src) t h).
  { intros t h Hh. try subst csf. rewrite bal_move_other; [reflexivity| |]; intro; subst; apply Hh; unfold touched_by_refund; auto. }
  destruct (p_ori p) as [t0|].
  - subst cs2. cbn [next_seq fees effects ack_status supply bind_amt out_tokens set_bind].
    split; [reflexivity|]. split; [reflexivity|]. split; [reflexivity|].
    split. { intros d q. cbn. unfold upd_cs. reflexivity. }
    split.
    { intros t h Hh. rewrite F8 by exact Hh. cbn [bal set_bind]. rewrite bal_mint.
      destruct (Nat.eqb_spec (p_token p) t); cbn [andb]; [|apply Hcsf; exact Hh].
      destruct (holder_eqb_spec (p_sender p) h); [subst; exfalso; apply Hh; unfold touched_by_refund; auto|apply Hcsf; exact Hh]. }
    split; [exact Ha|].
    split; [reflexivity|].
    split.
    + intro t. rewrite supply_mint. destruct (Nat.eqb_spec (p_token p) t); [subst|]; reflexivity.
    + intros t d. unfold upd_tc. destruct (Nat.eqb (p_token p) t && Nat.eqb dst d) eqn:E; [|reflexivity].
      apply andb_true_iff in E as [E1 E2]. apply Nat.eqb_eq in E1, E2. subst. reflexivity.
  - destruct Hcs2 as (L1 & L2 & ->). cbn [next_seq fees effects ack_status supply bind_amt out_tokens set_out].
    split; [reflexivity|]. split; [reflexivity|]. split; [reflexivity|].
    split. { intros d q. cbn. unfold upd_cs. reflexivity. }
    split.
    { intros t h Hh. rewrite F8 by exact Hh. cbn [bal set_out]. rewrite bal_move_other; [apply Hcsf; exact Hh| |];
        intro; subst; apply Hh; unfold touched_by_refund; auto. }
    split; [exact Ha|].
    split; [reflexivity|]. split; [reflexivity|]. split; [exact L1|].
    intros t d. unfold upd_tc. destruct (Nat.eqb (p_token p) t && Nat.eqb dst d) eqn:E; [|reflexivity].
    apply andb_true_iff in E as [E1 E2]. apply Nat.eqb_eq in E1, E2. subst. reflexivity.
Qed.

End WithCfg.

(** ** Every voucher is backed: in every state reachable from a fresh system, what chain [B] has minted for
    token [t] of chain [A] never exceeds (in origin units) what [A] counts as escrowed towards [B], and the
    endpoint contract on [A] holds at least the sum of what it counts as escrowed towards all chains.  So no
    history creates value: a unit that exists on a destination is locked on its origin. *)
Theorem vouchers_backed cfg s0 h :
  cfg_consistent cfg -> init_ok s0 ->
  forall A t,
    (forall B loc k, A <> B -> trace cfg B A t = Some (loc, k) ->
       bind_amt (chains (run cfg s0 h) B) loc A <= out_tokens (chains (run cfg s0 h) A) t B * k) /\
    sum_over (nchains cfg) (out_tokens (chains (run cfg s0 h) A) t) <= bal (chains (run cfg s0 h) A) t Endpoint.
Proof.
  intros Hc Hi A t. split.
  - intros B loc k HAB Ht. pose proof (run_conserved cfg s0 h Hc Hi A B t HAB) as Hcons. rewrite Ht in Hcons. lia.
  - exact (proj1 (run_backed_init cfg Hc s0 h Hi) A t).
Qed.

(** The refund theorem for REACHABLE states (no side condition on the sender: in every reachable state the
    sender of a packet is a user or the agent contract). *)
Theorem ack_error_refund_reachable cfg s0 h src dst sq s' p :
  cfg_consistent cfg -> init_ok s0 ->
  step cfg (run cfg s0 h) (Ack src dst sq) = Ok s' -> lookup src dst sq (packets (run cfg s0 h)) = Some p -> p_code p <> 0 ->
  (forall c, c <> src -> chains s' c = chains (run cfg s0 h) c) /\
  ack_status (chains s' src) dst sq = 2 /\
  bal (chains s' src) (p_token p) (refund_target p) =
    bal (chains (run cfg s0 h) src) (p_token p) (refund_target p) + refund_due cfg p.
Proof.
  intros Hc Hi H Hl Hcode.
  destruct (run_good cfg Hc h s0 (init_good cfg s0 Hi)) as [_ HG].
  apply (ack_error_refund cfg _ _ _ _ _ _ H Hl Hcode).
  destruct (lookup_in _ _ _ _ _ Hl) as [Hin _]. exact (proj1 (HG p Hin)).
Qed.
