(** Schema-level round trip: ABIDecode (ABIPack v) = v for every struct value
    with well-formed UTF-8 strings, provided the regenerated schema satisfies
    the decidable condition [schema_ok]; canonicity and injectivity follow. *)
From Coq Require Import ZifyN ZifyNat.
From Teleport Require Import Base.Bytes Base.Outcome Base.Fmt Base.AbiSchema Model.Abi Proofs.Abi.
Local Open Scope N_scope.

(** * JSON strings *)

Lemma json_string_aux_valid l k : utf8_valid_aux l k = true -> json_string_aux l k = l.
Proof.
  revert k; induction l as [|b r IH]; intros k H; [reflexivity|].
  cbn [utf8_valid_aux json_string_aux] in *. destruct k as [|k].
  - destruct (rune_size (b :: r)) as [|n]; [discriminate|]. f_equal. auto.
  - f_equal. auto.
Qed.

Lemma json_string_valid s : utf8_valid s = true -> json_string s = s.
Proof. apply json_string_aux_valid. Qed.

(** * List helpers *)

Lemma all_some_cons {A} (o : option A) l m :
  all_some (o :: l) = Some m -> exists x m', o = Some x /\ m = x :: m' /\ all_some l = Some m'.
Proof.
  cbn. destruct o as [x|]; [|discriminate]. destruct (all_some l) as [t|]; [|discriminate].
  intros [= <-]. eauto.
Qed.

Lemma set_nth_length {A} (l : list A) i x : length (set_nth l i x) = length l.
Proof. revert i; induction l as [|y l IH]; intros [|i]; cbn; auto. Qed.

Lemma set_nth_same {A} (l : list A) i x : (i < length l)%nat -> nth_error (set_nth l i x) i = Some x.
Proof. revert i; induction l as [|y l IH]; intros [|i]; cbn; intro H; try lia; auto. apply IH. lia. Qed.

Lemma set_nth_other {A} (l : list A) i j x : i <> j -> nth_error (set_nth l i x) j = nth_error l j.
Proof.
  revert i j; induction l as [|y l IH]; intros [|i] [|j] H; cbn; auto; try congruence.
Qed.

Lemma typed_vals_length ts vs : typed_vals ts vs = true -> length vs = length ts.
Proof.
  revert vs; induction ts as [|t ts IH]; intros [|v vs]; cbn; try discriminate; [reflexivity|].
  intro H. apply andb_true_iff in H as [_ H]. f_equal. auto.
Qed.

Lemma typed_vals_nth ts vs j t :
  typed_vals ts vs = true -> nth_error ts j = Some t -> exists x, nth_error vs j = Some x /\ typed_val t x = true.
Proof.
  revert vs j; induction ts as [|t0 ts IH]; intros [|v vs] [|j]; cbn; try discriminate.
  - intros H [= ->]. apply andb_true_iff in H as [H _]. eauto.
  - intros H E. apply andb_true_iff in H as [_ H]. eauto.
Qed.

(** * Rows: tuple component / struct field / value alignment *)

Inductive rows (sfs : list sfield) (v : list fval) : list tfield -> list tfield -> list nat -> list fval -> Prop :=
| rows_nil : rows sfs v [] [] [] []
| rows_cons pk up j x f pks ups js xs :
    pack_field sfs (tf_name pk) = Some j -> json_field sfs (tf_name up) = Some j ->
    nth_error sfs j = Some f -> sf_ty f = tf_ty pk -> tf_ty up = tf_ty pk ->
    nth_error v j = Some x -> typed_val (sf_ty f) x = true ->
    rows sfs v pks ups js xs -> rows sfs v (pk :: pks) (up :: ups) (j :: js) (x :: xs).

Lemma build_rows sc v : forall pack unpack m,
  all_some (map (fun t => pack_field (sc_struct sc) (tf_name t)) pack) = Some m ->
  forallb (fun it => match nth_error (sc_struct sc) (fst it) with
                     | Some f => aty_eqb (sf_ty f) (tf_ty (snd it))
                     | None => false end) (combine m pack) = true ->
  length pack = length unpack ->
  forallb (fun pu => tuple_field_ok sc (fst pu) (snd pu)) (combine pack unpack) = true ->
  typed_vals (map sf_ty (sc_struct sc)) v = true ->
  exists tv, all_some (map (nth_error v) m) = Some tv /\ rows (sc_struct sc) v pack unpack m tv.
Proof.
  induction pack as [|pk pack IH]; intros unpack m A Bc L D V.
  - cbn in A. inversion A; subst. destruct unpack; [|discriminate]. exists []. split; [reflexivity | constructor].
  - destruct unpack as [|up unpack]; [discriminate|]. cbn [map] in A.
    apply all_some_cons in A as (j & m' & Ej & -> & A').
    cbn [combine forallb fst snd] in Bc, D. apply andb_true_iff in Bc as [B1 B2]. apply andb_true_iff in D as [D1 D2].
    destruct (nth_error (sc_struct sc) j) as [f|] eqn:Ef; [|discriminate]. apply aty_eqb_eq in B1.
    unfold tuple_field_ok in D1. apply andb_true_iff in D1 as [D1 D1'].
    apply aty_eqb_eq in D1. rewrite Ej in D1'.
    destruct (json_field (sc_struct sc) (tf_name up)) as [b|] eqn:Eb; [|discriminate].
    apply Nat.eqb_eq in D1'. subst b.
    assert (Et : nth_error (map sf_ty (sc_struct sc)) j = Some (sf_ty f)) by (rewrite nth_error_map, Ef; reflexivity).
    destruct (typed_vals_nth _ _ _ _ V Et) as (x & Ex & Tx).
    injection L as L.
    destruct (IH unpack m' A' B2 L D2 V) as (tv & Etv & R).
    exists (x :: tv). split.
    + cbn [map all_some]. rewrite Ex, Etv. reflexivity.
    + econstructor; eauto.
Qed.

Lemma rows_typed sfs v pks ups js xs : rows sfs v pks ups js xs -> typed_vals (map tf_ty ups) xs = true.
Proof.
  induction 1; [reflexivity|]. cbn. rewrite IHrows, andb_true_r. congruence.
Qed.

Lemma rows_pack_types sfs v pks ups js xs : rows sfs v pks ups js xs -> map tf_ty ups = map tf_ty pks.
Proof. induction 1; cbn; congruence. Qed.

(** * The JSON re-mapping writes every value back into its own field *)

Lemma json_value_same t x :
  typed_val t x = true -> (match x with FS s => utf8_valid s | _ => true end) = true -> json_value t x = Some x.
Proof.
  destruct t, x; cbn; try discriminate; try reflexivity. intros _ U. rewrite (json_string_valid _ U). reflexivity.
Qed.

Lemma remap_ok sfs v : strings_valid v = true ->
  forall pks ups js xs, rows sfs v pks ups js xs ->
  forall acc, length acc = length v ->
  exists acc', json_remap sfs (combine ups xs) acc = Ok acc' /\ length acc' = length v /\
    (forall j, nth_error acc j = nth_error v j -> nth_error acc' j = nth_error v j) /\
    (forall j, In j js -> nth_error acc' j = nth_error v j).
Proof.
  intro SV. induction 1 as [|pk up j x f pks ups js xs Hp Hj Hf Ht Hu Hx Tx R IH]; intros acc L.
  - exists acc. cbn. repeat split; auto. intros j [].
  - cbn [combine json_remap]. rewrite Hj, Hf.
    assert (U : (match x with FS s => utf8_valid s | _ => true end) = true).
    { unfold strings_valid in SV. rewrite forallb_forall in SV. apply (SV x). eapply nth_error_In; eauto. }
    rewrite (json_value_same _ _ Tx U).
    assert (Lj : (j < length acc)%nat) by (rewrite L; apply nth_error_Some; congruence).
    destruct (IH (set_nth acc j x)) as (acc' & E & L' & P1 & P2); [rewrite set_nth_length; exact L|].
    exists acc'. split; [exact E|]. split; [exact L'|]. split.
    + intros k Hk. apply P1. destruct (Nat.eq_dec j k) as [->|N].
      * rewrite set_nth_same by exact Lj. congruence.
      * rewrite set_nth_other by exact N. exact Hk.
    + intros k [<-|Hk]; [|auto]. apply P1. rewrite set_nth_same by exact Lj. congruence.
Qed.

(** * The theorems *)

Lemma schema_ok_unfold sc : schema_ok sc = true ->
  exists m, pack_map (sc_struct sc) (sc_pack sc) = Some m /\
    length (sc_pack sc) = length (sc_unpack sc) /\
    forallb (fun pu => tuple_field_ok sc (fst pu) (snd pu)) (combine (sc_pack sc) (sc_unpack sc)) = true /\
    forallb (fun j => existsb (Nat.eqb j) m) (seq 0 (length (sc_struct sc))) = true.
Proof.
  unfold schema_ok. destruct (pack_map _ _) as [m|]; [|discriminate]. intro H.
  apply andb_true_iff in H as [H H3]. apply andb_true_iff in H as [H1 H2]. apply Nat.eqb_eq in H1.
  exists m. auto.
Qed.

Lemma pack_map_unfold sfs tup m : pack_map sfs tup = Some m ->
  all_some (map (fun t => pack_field sfs (tf_name t)) tup) = Some m /\
  forallb (fun it => match nth_error sfs (fst it) with
                     | Some f => aty_eqb (sf_ty f) (tf_ty (snd it))
                     | None => false end) (combine m tup) = true.
Proof.
  unfold pack_map. destruct (all_some _) as [m0|]; [|discriminate].
  destruct (nodupb m0 && _) eqn:E; [|discriminate]. intros [= <-].
  apply andb_true_iff in E as [_ E]. auto.
Qed.

(** decode (encode v) = v *)
Theorem schema_roundtrip sc v :
  schema_ok sc = true -> struct_val_ok sc v = true -> strings_valid v = true ->
  exists bz, encode sc v = Ok bz /\ (lenN bz < two63 -> decode sc bz = Ok v).
Proof.
  intros OK V SV. destruct (schema_ok_unfold sc OK) as (m & Pm & L & D & Cov).
  destruct (pack_map_unfold _ _ _ Pm) as [A Bc].
  destruct (build_rows sc v _ _ m A Bc L D V) as (tv & Etv & R).
  exists (abi_pack tv). split.
  - unfold encode. rewrite Pm, Etv. reflexivity.
  - intro Bd. unfold decode.
    rewrite (abi_unpack_pack _ tv (rows_typed _ _ _ _ _ _ R) Bd). cbn [obind].
    set (zeros := map (fun f => zero_of (sf_ty f)) (sc_struct sc)).
    assert (Lz : length zeros = length v).
    { unfold zeros. rewrite map_length. rewrite (typed_vals_length _ _ V), map_length. reflexivity. }
    destruct (remap_ok _ v SV _ _ _ _ R zeros Lz) as (acc' & E & L' & _ & P2).
    rewrite E. f_equal. apply nth_error_ext; [exact L'|]. intros j Hj. apply P2.
    rewrite forallb_forall in Cov.
    assert (Hs : In j (seq 0 (length (sc_struct sc)))).
    { apply in_seq. rewrite L', (typed_vals_length _ _ V), map_length in Hj. lia. }
    specialize (Cov j Hs). apply existsb_exists in Cov as (k & Hk & Ek). apply Nat.eqb_eq in Ek. subst k. exact Hk.
Qed.

(** encode (decode (encode v)) = encode v *)
Corollary schema_canonical sc v bz :
  schema_ok sc = true -> struct_val_ok sc v = true -> strings_valid v = true ->
  encode sc v = Ok bz -> lenN bz < two63 ->
  exists v', decode sc bz = Ok v' /\ encode sc v' = Ok bz.
Proof.
  intros OK V SV E Bd. destruct (schema_roundtrip sc v OK V SV) as (bz' & E' & Dd).
  rewrite E in E'. inversion E'; subst bz'. exists v. auto.
Qed.

(** the encoder is injective on valid values *)
Corollary encode_injective sc v w bz :
  schema_ok sc = true -> struct_val_ok sc v = true -> strings_valid v = true ->
  struct_val_ok sc w = true -> strings_valid w = true ->
  encode sc v = Ok bz -> encode sc w = Ok bz -> lenN bz < two63 -> v = w.
Proof.
  intros OK V SV W SW Ev Ew Bd.
  destruct (schema_roundtrip sc v OK V SV) as (b1 & E1 & D1). rewrite Ev in E1. inversion E1; subst b1.
  destruct (schema_roundtrip sc w OK W SW) as (b2 & E2 & D2). rewrite Ew in E2. inversion E2; subst b2.
  specialize (D1 Bd). specialize (D2 Bd). congruence.
Qed.

(** * Commitments: [CommitPacket p = sha256 (ABIPack p)], sha256 arbitrary *)
Section Commit.
  Variable sha256 : bytes -> bytes.

  Definition commit (sc : schema) (v : list fval) : outcome bytes :=
    match encode sc v with Ok bz => Ok (sha256 bz) | Err => Err | Panic => Panic end.

  (** equal commitments: equal values, or an explicit sha256 collision *)
  Theorem commit_injective sc v w c :
    schema_ok sc = true -> struct_val_ok sc v = true -> strings_valid v = true ->
    struct_val_ok sc w = true -> strings_valid w = true ->
    commit sc v = Ok c -> commit sc w = Ok c ->
    (forall bz, encode sc v = Ok bz -> lenN bz < two63) ->
    v = w \/ exists x y, x <> y /\ sha256 x = sha256 y /\ encode sc v = Ok x /\ encode sc w = Ok y.
  Proof.
    intros OK V SV W SW Cv Cw Bd. unfold commit in *.
    destruct (encode sc v) as [x| |] eqn:Ev; try discriminate.
    destruct (encode sc w) as [y| |] eqn:Ew; try discriminate.
    inversion Cv; inversion Cw; subst.
    destruct (bytes_eq_dec x y) as [->|N].
    - left. eapply encode_injective; eauto.
    - right. exists x, y. auto.
  Qed.
End Commit.
