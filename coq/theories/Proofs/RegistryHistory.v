(** C12, history-level statements over the model of [Model/Registry.v]:
      - a refused / failed / panicking operation changes nothing ([failed_step_changes_nothing]);
      - an operation leaves every pair it does not target exactly as it was ([step_untouched]);
      - convert-back over a whole history ([convert_back_run]): a denomination that converts before a sequence of
        operations converts after it - in both directions, through a pair that kept all its denominations - unless
        some operation of the sequence explicitly toggled / cleaned up the pair the denomination belonged to at
        that moment, or disabled the module. *)
From Teleport Require Import Base.Bytes Base.Outcome Base.AList Model.Registry Model.RegistryCheck
  Proofs.RegistryMap Proofs.Registry.

(** * Failed operations *)
Section Frame.
  Variable hid : bytes -> bytes -> bytes.
  Variable canon : bytes -> bytes.
  Variable evm_denom : bytes.
  Variable v : variant.

  Notation step := (step hid canon evm_denom v).

  Definition is_genesis (o : op) : bool := match o with OGenesis _ _ => true | _ => false end.

  Lemma commit_failed s r : snd (commit s r) <> 0%nat -> fst (commit s r) = s.
  Proof. destruct r; cbn; [intro H; exfalso; apply H; reflexivity | reflexivity | reflexivity]. Qed.

  (** every outcome class other than 0 (1 error, 2 panic, 3 refused by ValidateBasic, 9 conversion proper /
      environment) leaves the whole state as it was; the only exception is the bank metadata a genesis file
      brings with it (imported by the bank module, independently of the aggregate genesis) *)
  Lemma failed_step_changes_nothing s o :
    snd (step s o) <> 0%nat ->
    (is_genesis o = false -> fst (step s o) = s) /\
    st_pairs (fst (step s o)) = st_pairs s /\ st_erc20 (fst (step s o)) = st_erc20 s /\
    st_denom (fst (step s o)) = st_denom s /\ st_enable (fst (step s o)) = st_enable s.
  Proof.
    unfold Registry.step. destruct (validate_basic o) eqn:VB; cbn [negb]; [|intros _; repeat split; reflexivity].
    destruct o; cbn [is_genesis]; intro H;
      try (rewrite (commit_failed _ _ H); repeat split; reflexivity).
    - (* ConvertCoin *)
      unfold convert in *. destruct (minting_enabled v s denom denom) as [p| |]; cbn in *; try (repeat split; reflexivity).
      destruct (existsb (bytes_eqb (addr_of (p_text p))) live); cbn in *; [repeat split; reflexivity|].
      destruct (delete_pair hid s p); cbn in *; try (repeat split; reflexivity). exfalso. apply H. reflexivity.
    - (* ConvertERC20 *)
      unfold convert in *. destruct (minting_enabled v s contract denom) as [p| |]; cbn in *; try (repeat split; reflexivity).
      destruct (existsb (bytes_eqb (addr_of (p_text p))) live); cbn in *; [repeat split; reflexivity|].
      destruct (delete_pair hid s p); cbn in *; try (repeat split; reflexivity). exfalso. apply H. reflexivity.
    - (* SetEnable: always class 0 *) exfalso. apply H. reflexivity.
    - (* Genesis *)
      split; [discriminate|].
      destruct (validate_genesis v [] [] pairs) as [[]| |]; try (repeat split; reflexivity).
      rewrite (commit_failed _ _ H). repeat split; reflexivity.
    - repeat split; reflexivity.
  Qed.
End Frame.

Section History.
  Variable hid : bytes -> bytes -> bytes.
  Variable canon : bytes -> bytes.
  Variable evm_denom : bytes.
  Hypothesis hid_inj : forall t d t' d', is_hex_address t = true -> is_hex_address t' = true -> hid t d = hid t' d' -> t = t' /\ d = d'.
  Hypothesis hid_nonempty : forall t d, hid t d <> [].
  Hypothesis canon_hex : forall a, is_hex_address (canon a) = true.
  Hypothesis canon_addr : forall a, length a = 20%nat -> addr_of (canon a) = a.

  Notation step := (step hid canon evm_denom head).
  Notation run := (run hid canon evm_denom head).
  Notation Good := (Good hid).
  Notation admissible_run := (admissible_run hid canon evm_denom head).

  Lemma run_app os1 : forall s os2, run s (os1 ++ os2) = run (run s os1) os2.
  Proof. induction os1 as [|o r IH]; intros s os2; cbn; [reflexivity | apply IH]. Qed.

  Lemma evolved_trans p q r : evolved p q -> evolved q r -> evolved p r.
  Proof.
    intros ([e1 I1] & O1 & E1) ([e2 I2] & O2 & E2). split; [|split].
    - exists (e1 ++ e2). rewrite I2, I1, app_assoc. reflexivity.
    - rewrite O2. exact O1.
    - rewrite E2. exact E1.
  Qed.

  Lemma good_step s o : Good s -> admissible head s o -> Good (fst (step s o)).
  Proof. apply step_good; assumption. Qed.

  (** an evolved pair has the same first denomination: for a given contract text its id is the same *)
  Lemma evolved_first_denom p p' id : evolved p p' -> pair_id hid p = Ok id ->
    exists d0 r r', p_denoms p = d0 :: r /\ p_denoms p' = d0 :: r' /\ pair_id hid p' = Ok (hid (p_text p') d0).
  Proof.
    intros [[ext E] _] Hp. apply pair_id_ok in Hp as (d0 & r & Ed & _).
    exists d0, r, (r ++ ext). split; [exact Ed|]. rewrite E, Ed. split; [reflexivity|].
    unfold Registry.pair_id. rewrite E, Ed. reflexivity.
  Qed.

  (** ** Convert back over a history *)

  (** [hit s os d]: some operation of [os] explicitly removes / disables the pair the denomination [d] converts
      through at that moment (or the module) *)
  Definition hit (s : state) (os : list op) (d : bytes) : Prop :=
    exists pre o post p0 id0, os = pre ++ o :: post /\
      minting_enabled head (run s pre) d d = Ok p0 /\ pair_id hid p0 = Ok id0 /\ explicit hid head (run s pre) o id0.

  Lemma convert_back_run os : forall s d p,
    Good s -> admissible_run s os -> minting_enabled head s d d = Ok p ->
    hit s os d \/
    exists p', minting_enabled head (run s os) d d = Ok p' /\
               minting_enabled head (run s os) (p_text p') d = Ok p' /\ evolved p p'.
  Proof.
    induction os as [|o r IH]; intros s d p G A H.
    - right. exists p. cbn [Registry.run]. split; [exact H|]. split; [|apply evolved_refl].
      destruct (minting_enabled_sound_head hid _ _ _ _ G H) as (En & Ep & Hd & id & Hp & _).
      exact (proj2 (minting_enabled_complete_head hid hid_nonempty _ _ _ _ G En Hp Ep Hd)).
    - destruct A as [A1 A2].
      destruct (minting_enabled_sound_head hid _ _ _ _ G H) as (_ & _ & _ & id & Hp & _).
      assert (Ip : pair_id hid p = Ok id).
      { destruct G as [C _]. exact (proj1 (proj2 (c_pair _ _ _ _ C _ _ Hp))). }
      destruct (convert_back_possible_head hid canon evm_denom hid_inj hid_nonempty canon_hex canon_addr
                  _ _ _ _ _ G A1 H Ip) as [E|(p1 & H1 & Ev1)].
      + left. exists [], o, r, p, id. cbn [app Registry.run]. repeat split; assumption.
      + pose proof (good_step _ _ G A1) as G1.
        destruct (IH _ _ _ G1 A2 H1) as [(pre & o' & post & p0 & id0 & -> & Hm & Hi & Hx)|(p' & Ha & Hb & Ev)].
        * left. exists (o :: pre), o', post, p0, id0. cbn [app Registry.run]. repeat split; assumption.
        * right. exists p'. cbn [Registry.run]. split; [exact Ha|]. split; [exact Hb|]. exact (evolved_trans _ _ _ Ev1 Ev).
  Qed.

  (** ** Every operation leaves the pairs it does not target exactly as they were *)

  (** the pair stored under [id] is the one the operation works on *)
  Definition target (s : state) (o : op) (id : bytes) : Prop :=
    match o with
    | OAddCoin _ c _ => get0 (st_erc20 s) (addr_of c) = id
    | OToggle t => get_token_pair_id s t = id
    | OUpdate a _ _ => get0 (st_erc20 s) (addr_of a) = id
    | OConvertCoin _ _ | OConvertERC20 _ _ _ => explicit hid head s o id
    | OGenesis _ _ => True
    | _ => False
    end.

  Lemma fresh_id s text d0 a :
    Consistent hid s -> length a = 20%nat -> text = canon a -> aget a (st_erc20 s) = None ->
    aget (hid text d0) (st_pairs s) = None.
  Proof.
    intros C L -> Fr. destruct (aget (hid (canon a) d0) (st_pairs s)) as [q|] eqn:Eq; [|reflexivity]. exfalso.
    destruct (c_pair _ _ _ _ C _ _ Eq) as ((_ & _ & Wq) & Iq & Eq' & _).
    apply pair_id_ok in Iq as (d1 & r & _ & X). apply (hid_inj _ _ _ _ (canon_hex _) Wq) in X as [X _].
    rewrite <- X, canon_addr in Eq' by exact L. congruence.
  Qed.

  Lemma step_untouched s o id p :
    Good s -> admissible head s o -> aget id (st_pairs s) = Some p ->
    target s o id \/ aget id (st_pairs (fst (step s o))) = Some p.
  Proof.
    intros G A Hp. pose proof (good_inv _ _ G) as I. destruct G as [C N].
    unfold Registry.step. destruct (validate_basic o) eqn:VB; cbn [negb]; [|right; exact Hp].
    destruct o; cbn [target admissible] in *.
    - (* RegisterCoin *) right. destruct A as [L Fr].
      destruct (register_coin hid canon evm_denom head s md deploy has_supply) as [s'| |] eqn:H; cbn [commit fst]; try exact Hp.
      unfold register_coin in H.
      destruct (coin_checks evm_denom head s md has_supply) as [s1| |] eqn:Ec; cbn [obind] in H; try discriminate.
      destruct (md_units md) eqn:Eu; [discriminate|].
      assert (U : md_units md <> []) by (rewrite Eu; discriminate).
      destruct (coin_checks_ok hid evm_denom head _ _ _ _ I U Ec) as ((EP & EE & ED & EN) & _).
      unfold store_new_pair in H. cbn [Registry.pair_id p_denoms p_text obind] in H. apply Ok_inj in H. subst s'.
      cbn [st_pairs]. rewrite EP, aget_aset.
      destruct (bytes_eqb_spec id (hid (canon deploy) (md_base md))) as [->|_]; [|exact Hp].
      rewrite (fresh_id s (canon deploy) (md_base md) deploy C L eq_refl Fr) in Hp. discriminate.
    - (* AddCoin *)
      destruct (add_coin hid evm_denom head s md contract has_supply) as [s'| |] eqn:H; cbn [commit fst]; try (right; exact Hp).
      assert (U : md_units md <> []).
      { cbn [validate_basic] in VB. unfold coin_vb in VB. rewrite !andb_true_iff in VB. apply metadata_validate_units. tauto. }
      unfold add_coin in H. destruct (negb (is_hex_address contract)); [discriminate|].
      destruct (coin_checks evm_denom head s md has_supply) as [s1| |] eqn:Ec; cbn [obind] in H; try discriminate.
      destruct (coin_checks_ok hid evm_denom head _ _ _ _ I U Ec) as ((EP & EE & ED & EN) & _).
      destruct (get_pair s1 (get0 (st_erc20 s1) (addr_of contract))) as [q|] eqn:Eq; [|discriminate].
      rewrite EE in *.
      match type of H with context [Registry.pair_id hid ?x] => destruct (Registry.pair_id hid x) as [id'| |] eqn:Ei end;
        cbn [obind] in H; try discriminate.
      destruct (bytes_eqb_spec (get0 (st_erc20 s) (addr_of contract)) id') as [E|_]; cbn [negb] in H; [|discriminate].
      apply Ok_inj in H. subst s'. cbn [st_pairs]. rewrite EP, aget_aset.
      destruct (bytes_eqb_spec id id') as [->|_]; [left; exact E | right; exact Hp].
    - (* RegisterERC20 *) right.
      destruct (register_erc20 hid canon s text q) as [s'| |] eqn:H; cbn [commit fst]; try exact Hp.
      unfold register_erc20 in H.
      destruct (negb (st_enable s)); [discriminate|].
      destruct (ahas (addr_of text) (st_erc20 s)) eqn:Ea; [discriminate|]. apply ahas_false in Ea.
      destruct q as [q|]; [|discriminate].
      destruct (ahas (create_denom (canon (addr_of text))) (st_meta s)); [discriminate|].
      destruct (ahas (create_denom (canon (addr_of text))) (st_denom s)); [discriminate|].
      destruct (negb (metadata_validate (erc20_metadata (canon (addr_of text)) q))); [discriminate|].
      unfold store_new_pair in H. cbn [Registry.pair_id p_denoms p_text obind erc20_metadata md_name md_base] in H.
      apply Ok_inj in H. subst s'. cbn [st_pairs with_meta]. rewrite aget_aset.
      destruct (bytes_eqb_spec id (hid (canon (addr_of text)) (create_denom (canon (addr_of text))))) as [->|_]; [|exact Hp].
      rewrite (fresh_id s _ _ (addr_of text) C (addr_of_length _) eq_refl Ea) in Hp. discriminate.
    - (* Toggle *)
      destruct (toggle hid s token) as [s'| |] eqn:H; cbn [commit fst]; try (right; exact Hp).
      destruct (toggle_shape hid head _ _ _ I H) as (T & _). destruct (T _ _ Hp) as [->|K]; [left; reflexivity | right; exact K].
    - (* Update *)
      destruct (update_pair hid canon head s old_text new_text q) as [s'| |] eqn:H; cbn [commit fst]; try (right; exact Hp).
      unfold update_pair in H. cbn [head v_update_guard v_reindex_all andb] in H.
      destruct (get0 (st_erc20 s) (addr_of old_text)) as [|b r] eqn:Eid; [discriminate|].
      destruct (ahas (addr_of new_text) (st_erc20 s)) eqn:En; [discriminate|]. apply ahas_false in En.
      destruct (get_pair s (b :: r)) as [x|] eqn:Ex; [|discriminate].
      apply get_pair_some in Ex as [Ex _].
      destruct (c_pair _ _ _ _ C _ _ Ex) as (_ & Ix & _).
      destruct (p_denoms x) as [|d0 ds] eqn:Eds; [discriminate|].
      destruct (aget d0 (st_meta s)) as [m|]; [|discriminate].
      destruct (md_units m); [discriminate|]. destruct q as [q|]; [|discriminate].
      match type of H with (if ?c then _ else _) = _ => destruct c; [discriminate|] end.
      match type of H with (if ?c then _ else _) = _ => destruct c; [discriminate|] end.
      unfold delete_pair in H. rewrite Ix in H. cbn [obind] in H.
      unfold Registry.pair_id in H. cbn [p_denoms p_text] in H. rewrite Eds in H. cbn [obind] in H.
      apply Ok_inj in H. subst s'. cbn [st_pairs with_meta].
      destruct (bytes_eqb_spec id (b :: r)) as [->|Nid]; [left; reflexivity | right].
      rewrite aget_aset, aget_adel.
      destruct (bytes_eqb_spec id (hid (canon (addr_of new_text)) d0)) as [->|_].
      + rewrite (fresh_id s _ _ (addr_of new_text) C (addr_of_length _) eq_refl En) in Hp. discriminate.
      + destruct (bytes_eqb_spec id (b :: r)); [contradiction | exact Hp].
    - (* ConvertCoin *)
      destruct (convert hid head s denom denom live) as [[s' cl]| |] eqn:E; cbn [fst]; try (right; exact Hp).
      destruct (convert_tracks hid head _ _ _ _ _ _ _ _ I E Hp) as [X|[K _]]; [left; exact X | right; exact K].
    - (* ConvertERC20 *)
      destruct (convert hid head s contract denom live) as [[s' cl]| |] eqn:E; cbn [fst]; try (right; exact Hp).
      destruct (convert_tracks hid head _ _ _ _ _ _ _ _ I E Hp) as [X|[K _]]; [left; exact X | right; exact K].
    - right. exact Hp.
    - left. exact Logic.I.
    - right. exact Hp.
  Qed.

  (** ... and (consistency after the step) such a pair keeps all its index entries *)
  Lemma step_untouched_indexes s o id p :
    Good s -> admissible head s o -> aget id (st_pairs s) = Some p ->
    target s o id \/
    (aget id (st_pairs (fst (step s o))) = Some p /\
     aget (addr_of (p_text p)) (st_erc20 (fst (step s o))) = Some id /\
     forall d, In d (p_denoms p) -> aget d (st_denom (fst (step s o))) = Some id).
  Proof.
    intros G A Hp. destruct (step_untouched _ _ _ _ G A Hp) as [T|K]; [left; exact T | right].
    destruct (good_step _ _ G A) as [C' _]. destruct (c_pair _ _ _ _ C' _ _ K) as (_ & _ & HE & HD).
    split; [exact K|]. split; assumption.
  Qed.
End History.
