(** Whatever ABIDecode accepts — canonical or not (go-ethereum's decoder does not
    check padding, tail order, trailing bytes or the high bytes of a uint64
    word) — is a well-typed struct value, and that value is a FIXED POINT:
    re-encoding it gives a canonical encoding that decodes to the same value.
    This is what monitor 35 of Model/EncodingCheck.v demands of the
    implementation on mutated inputs. *)
From Teleport Require Import Base.Bytes Base.Outcome Base.Fmt Base.AbiSchema Model.Abi Proofs.Abi Proofs.AbiRoundtrip.
Local Open Scope N_scope.

(** the values produced by the ABI decoder: uint64 fields are already reduced mod 2^64 *)
Definition bounded (v : fval) : bool := match v with FU n => n <? two64 | _ => true end.

Lemma dec_field_bounded t i out v : dec_field t i out = Ok v -> bounded v = true /\ fval_ty v = t.
Proof.
  unfold dec_field. destruct (lenN out <? i * 32 + 32); [discriminate|].
  destruct t.
  - intros [= <-]. split; [|reflexivity]. cbn. apply N.ltb_lt. apply N.mod_lt. discriminate.
  - destruct (lenN out <? _); [discriminate|]. destruct (two63 <=? _); [discriminate|].
    destruct (two63 <=? _); [discriminate|]. destruct (lenN out <? _); [discriminate|].
    intros [= <-]. split; reflexivity.
  - destruct (lenN out <? _); [discriminate|]. destruct (two63 <=? _); [discriminate|].
    destruct (two63 <=? _); [discriminate|]. destruct (lenN out <? _); [discriminate|].
    intros [= <-]. split; reflexivity.
Qed.

Lemma dec_fields_bounded ts : forall i out vs, dec_fields ts i out = Ok vs -> forallb bounded vs = true.
Proof.
  induction ts as [|t ts IH]; intros i out vs; cbn [dec_fields].
  - intros [= <-]. reflexivity.
  - destruct (dec_field t i out) as [v| |] eqn:E; cbn [obind]; try discriminate.
    destruct (dec_fields ts (i + 1) out) as [r| |] eqn:E2; cbn [obind]; try discriminate.
    intros [= <-]. cbn. rewrite (proj1 (dec_field_bounded _ _ _ _ E)). exact (IH _ _ _ E2).
Qed.

Lemma abi_unpack_bounded ts data vs : abi_unpack ts data = Ok vs -> forallb bounded vs = true.
Proof.
  unfold abi_unpack. destruct data as [|b data]; [discriminate|].
  destruct (lenN (b :: data) <? 32); [discriminate|]. destruct (lenN (b :: data) <? _); [discriminate|].
  destruct (two63 <=? _); [discriminate|]. apply dec_fields_bounded.
Qed.

Lemma json_value_typed t v v' : bounded v = true -> json_value t v = Some v' -> typed_val t v' = true.
Proof. destruct t, v; cbn; try discriminate; intros B [= <-]; cbn; auto. Qed.

Lemma typed_vals_set_nth ts : forall vs j t x,
  typed_vals ts vs = true -> nth_error ts j = Some t -> typed_val t x = true -> typed_vals ts (set_nth vs j x) = true.
Proof.
  induction ts as [|t0 ts IH]; intros [|v vs] [|j] t x; cbn; try discriminate; auto.
  - intros H [= ->] T. apply andb_true_iff in H as [_ H]. rewrite T, H. reflexivity.
  - intros H E T. apply andb_true_iff in H as [H1 H2]. rewrite H1. cbn. eapply IH; eauto.
Qed.

Lemma json_remap_typed sfs : forall kvs acc r,
  forallb (fun kv => bounded (snd kv)) kvs = true ->
  typed_vals (map sf_ty sfs) acc = true -> json_remap sfs kvs acc = Ok r -> typed_vals (map sf_ty sfs) r = true.
Proof.
  induction kvs as [|[t v] kvs IH]; intros acc r B T; cbn [json_remap].
  - intros [= <-]. exact T.
  - cbn in B. apply andb_true_iff in B as [Bv B].
    destruct (json_field sfs (tf_name t)) as [j|]; [|exact (IH acc r B T)].
    destruct (nth_error sfs j) as [f|] eqn:Ef; [|discriminate].
    destruct (json_value (sf_ty f) v) as [v'|] eqn:Ev; [|discriminate].
    apply IH; [exact B|]. eapply typed_vals_set_nth; [exact T | | exact (json_value_typed _ _ _ Bv Ev)].
    rewrite nth_error_map, Ef. reflexivity.
Qed.

Lemma zeros_typed sfs : typed_vals (map sf_ty sfs) (map (fun f => zero_of (sf_ty f)) sfs) = true.
Proof. induction sfs as [|f sfs IH]; [reflexivity|]. cbn. rewrite IH. destruct (sf_ty f); reflexivity. Qed.

Lemma forallb_combine_snd {A B} (p : B -> bool) (l : list A) (l' : list B) :
  forallb p l' = true -> forallb (fun kv => p (snd kv)) (combine l l') = true.
Proof.
  revert l'; induction l as [|a l IH]; intros [|b l']; cbn; auto.
  intro H. apply andb_true_iff in H as [H1 H2]. rewrite H1. cbn. auto.
Qed.

(** ABIDecode returns a well-typed struct value (right fields, uint64 range) on EVERY accepted input *)
Theorem decode_typed sc bz v : decode sc bz = Ok v -> struct_val_ok sc v = true.
Proof.
  unfold decode, struct_val_ok.
  destruct (abi_unpack (map tf_ty (sc_unpack sc)) bz) as [tv| |] eqn:E; cbn [obind]; try discriminate.
  intro R. eapply json_remap_typed; [| apply zeros_typed | exact R].
  apply forallb_combine_snd. exact (abi_unpack_bounded _ _ _ E).
Qed.

(** ** The JSON step always produces well-formed UTF-8 *)

Lemma json_string_aux_split : forall k r, (k <= length r)%nat ->
  json_string_aux r k = firstn k r ++ json_string_aux (skipn k r) 0.
Proof.
  induction k as [|k IH]; intros r L; [reflexivity|].
  destruct r as [|b r]; [cbn in L; lia|]. cbn [json_string_aux firstn skipn app]. f_equal. apply IH. cbn in L. lia.
Qed.

Lemma rune_size_stable b r k : rune_size (b :: r) = S k ->
  (k <= length r)%nat /\ forall t, rune_size (b :: firstn k r ++ t) = S k.
Proof.
  unfold rune_size.
  repeat match goal with
  | |- context [if ?c then _ else _] => destruct c eqn:?
  end;
  try (intros [= <-]; split; [cbn; lia | intros; reflexivity]);
  try discriminate;
  destruct r as [|b1 [|b2 [|b3 r]]]; try discriminate;
  repeat match goal with
  | |- context [if ?c then _ else _] => destruct c eqn:?
  end; try discriminate;
  intros [= <-]; (split; [cbn; lia | intro t; cbn [firstn app];
    repeat match goal with H : ?c = _ |- context [?c] => rewrite H end; reflexivity]).
Qed.

Lemma json_string_aux_valid_out : forall l k, utf8_valid_aux (json_string_aux l k) k = true.
Proof.
  induction l as [|b r IH]; intros k; [destruct k; reflexivity|].
  destruct k as [|k].
  - cbn [json_string_aux]. destruct (rune_size (b :: r)) as [|k] eqn:E.
    + change (utf8_valid_aux (xef :: xbf :: xbd :: json_string_aux r 0) 0)
        with (utf8_valid_aux (json_string_aux r 0) 0). apply IH.
    + destruct (rune_size_stable b r k E) as [L S].
      cbn [utf8_valid_aux]. rewrite (json_string_aux_split k r L), S, <- (json_string_aux_split k r L). apply IH.
  - cbn [json_string_aux utf8_valid_aux]. apply IH.
Qed.

Theorem json_string_always_valid s : utf8_valid (json_string s) = true.
Proof. apply json_string_aux_valid_out. Qed.

Lemma forallb_set_nth {A} (p : A -> bool) : forall l j x, forallb p l = true -> p x = true -> forallb p (set_nth l j x) = true.
Proof.
  induction l as [|y l IH]; intros [|j] x H Px; cbn in *; auto.
  - apply andb_true_iff in H as [_ H]. rewrite Px, H. reflexivity.
  - apply andb_true_iff in H as [H1 H2]. rewrite H1. cbn. auto.
Qed.

Definition str_ok (x : fval) : bool := match x with FS s => utf8_valid s | _ => true end.

Lemma json_value_str_ok t v v' : json_value t v = Some v' -> str_ok v' = true.
Proof. destruct t, v; cbn; try discriminate; intros [= <-]; cbn; auto. apply json_string_always_valid. Qed.

Lemma json_remap_strings_valid sfs : forall kvs acc r,
  forallb str_ok acc = true -> json_remap sfs kvs acc = Ok r -> forallb str_ok r = true.
Proof.
  induction kvs as [|[t v] kvs IH]; intros acc r S; cbn [json_remap].
  - intros [= <-]. exact S.
  - destruct (json_field sfs (tf_name t)) as [j|]; [|exact (IH acc r S)].
    destruct (nth_error sfs j) as [f|]; [|discriminate].
    destruct (json_value (sf_ty f) v) as [v'|] eqn:Ev; [|discriminate].
    apply IH. apply forallb_set_nth; [exact S | exact (json_value_str_ok _ _ _ Ev)].
Qed.

(** every string ABIDecode returns is well-formed UTF-8 (ill-formed input bytes were replaced by U+FFFD) *)
Theorem decode_strings_valid sc bz v : decode sc bz = Ok v -> strings_valid v = true.
Proof.
  unfold decode, strings_valid.
  destruct (abi_unpack (map tf_ty (sc_unpack sc)) bz) as [tv| |]; cbn [obind]; try discriminate.
  apply json_remap_strings_valid. induction (sc_struct sc) as [|f l IH]; [reflexivity|].
  cbn. rewrite IH. destruct (sf_ty f); reflexivity.
Qed.

(** ... and the accepted value is normalised: its (canonical) encoding decodes to itself *)
Theorem decode_normalises sc bz v :
  schema_ok sc = true -> decode sc bz = Ok v ->
  exists bz', encode sc v = Ok bz' /\ (lenN bz' < two63 -> decode sc bz' = Ok v).
Proof.
  intros OK D. apply schema_roundtrip; [exact OK | exact (decode_typed _ _ _ D) | exact (decode_strings_valid _ _ _ D)].
Qed.

(** re-encoding returns the SAME bytes exactly for the canonical inputs: [bz] is
    reproduced iff it is the encoding of the value it decodes to *)
Theorem reencode_same_iff_canonical sc bz v :
  decode sc bz = Ok v -> (encode sc v = Ok bz <-> exists w, struct_val_ok sc w = true /\ encode sc w = Ok bz /\ decode sc bz = Ok w).
Proof.
  intro D. split.
  - intro E. exists v. split; [exact (decode_typed _ _ _ D)|]. auto.
  - intros (w & _ & E & D'). rewrite D in D'. injection D' as <-. exact E.
Qed.
