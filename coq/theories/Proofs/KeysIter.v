(** Exactness of EVERY iterator over a client's prefix store (C19, "every
    stored key is read back as the ... height it was written for"), and of the
    packet keeper's by-path iterator.

    Universe: the key families a light client writes into its prefix store
    ([client_store_families]: clientState, consensusStates/<h>,
    consensusStates/<h>/processedTime, iterateConsensusStates<h>,
    recentSingers/<r>-<h>, pendingValidators, ethHeaderIndex/.., ethRootMain/..)
    with ALL valid arguments — in particular all 2^128 binary heights, whatever
    their bytes spell.  For every iterator (literal prefix handed to
    [KVStorePrefixIterator] + the filter in the loop body):

      the iterator hands out key k  <->  k is a key of the iterator's own family

    first per key ([*_iterator_exact]), then for whole stores
    ([tm_export_exact], ...: ExportMetadata returns exactly the metadata
    entries). *)
From Teleport Require Import Base.Bytes Base.Outcome Base.Fmt Gen.KeysGen Gen.KeysIterGen Model.Keys Proofs.Keys Proofs.KeysParse Proofs.KeysExact.
Local Open Scope N_scope.

(** * The prefixes of the iterators are REGENERATED (Gen/KeysIterGen.v)

    [regen_ok fams l owns]: the translator understood every prefix of the
    iterator description [l], there are as many as intended ([owns] = for each
    prefix the indices of the families it is meant to select), and every prefix
    selects every key of its own families and no key of any other family of
    [fams] — a closed Boolean decided by vm_compute on the regenerated term, so
    a harmless rewrite of the Go iterator (another spelling of the same prefix,
    a longer literal that still covers its family) re-checks. *)

Definition prefix_ok_in (fams : list (fmt * list kind)) (p : bytes * list nat) : bool :=
  forallb (fun nf => if existsb (Nat.eqb (fst nf)) (snd p)
                     then is_prefix (fst p) (head_lit (fst (snd nf)))
                     else prefix_apart (fst p) (fst (snd nf)))
          (number_from 0 fams).

Lemma prefixes_exact_generic fams prefs :
  forallb (prefix_ok_in fams) prefs = true ->
  forall p own i f sf a, In (p, own) prefs -> nth_error fams i = Some (f, sf) ->
    is_prefix p (render f a) = existsb (Nat.eqb i) own.
Proof.
  intros OK p own i f sf a Hp Hi. rewrite forallb_forall in OK.
  specialize (OK _ Hp). unfold prefix_ok_in in OK. rewrite forallb_forall in OK.
  specialize (OK (i, (f, sf)) (number_from_nth fams 0 i (f, sf) Hi)). cbn [fst snd] in OK.
  destruct (existsb (Nat.eqb i) own).
  - destruct (head_lit_prefix f a) as [t ->]. apply is_prefix_app_r. exact OK.
  - apply prefix_apart_sound. exact OK.
Qed.

Definition regen_ok (fams : list (fmt * list kind)) (l : list iter_prefix) (owns : list (list nat)) : bool :=
  match lit_prefixes l with
  | Some ps => Nat.eqb (length ps) (length owns) && forallb (prefix_ok_in fams) (combine ps owns)
  | None => false
  end.

Lemma regen_ok_unfold fams l owns : regen_ok fams l owns = true ->
  length (prefixes_of l) = length owns /\ forallb (prefix_ok_in fams) (combine (prefixes_of l) owns) = true.
Proof.
  unfold regen_ok, prefixes_of. destruct (lit_prefixes l) as [ps|]; [|discriminate].
  intro H. apply andb_true_iff in H as [H1 H2]. apply Nat.eqb_eq in H1. auto.
Qed.

Theorem regen_prefix_exact fams l owns : regen_ok fams l owns = true ->
  forall p own i f sf a, In (p, own) (combine (prefixes_of l) owns) -> nth_error fams i = Some (f, sf) ->
    is_prefix p (render f a) = existsb (Nat.eqb i) own.
Proof. intro H. apply prefixes_exact_generic. exact (proj2 (regen_ok_unfold _ _ _ H)). Qed.

(** an iterator with ONE prefix: a key of family i is visited iff i is one of the prefix's families *)
Definition prefix_any (ps : list bytes) (k : bytes) : bool := existsb (fun p => is_prefix p k) ps.

Lemma prefix_any_exact fams l own : regen_ok fams l [own] = true ->
  forall i f sf a, nth_error fams i = Some (f, sf) ->
    prefix_any (prefixes_of l) (render f a) = existsb (Nat.eqb i) own.
Proof.
  intros H i f sf a Hi. pose proof (regen_prefix_exact fams l [own] H) as X.
  destruct (regen_ok_unfold _ _ _ H) as [L _].
  destruct (prefixes_of l) as [|p [|q r]]; try discriminate L.
  unfold prefix_any. cbn [existsb]. rewrite orb_false_r.
  apply (X p own i f sf a); [left; reflexivity | exact Hi].
Qed.

(** the intended families of every regenerated iterator of a client's prefix store
    (indices in [client_store_families]) ... *)
Lemma ok_tm_processed_time : regen_ok client_store_families iterprefix_tm_IterateProcessedTime [[1%nat; 2%nat]] = true.
Proof. vm_compute. reflexivity. Qed.
Lemma ok_bsc_consensus : regen_ok client_store_families iterprefix_bsc_IterateConsensusStateAscending [[1%nat; 2%nat]] = true.
Proof. vm_compute. reflexivity. Qed.
Lemma ok_eth_consensus : regen_ok client_store_families iterprefix_eth_IterateConsensusStateAscending [[1%nat; 2%nat]] = true.
Proof. vm_compute. reflexivity. Qed.
Lemma ok_tm_iteration : regen_ok client_store_families iterprefix_tm_IterateConsensusStateAscending [[3%nat]] = true.
Proof. vm_compute. reflexivity. Qed.
Lemma ok_tm_export : regen_ok client_store_families tm_export_own [[3%nat]] = true.
Proof. vm_compute. reflexivity. Qed.
Lemma ok_bsc_signers : regen_ok client_store_families iterprefix_bsc_GetRecentSigners [[4%nat]] = true.
Proof. vm_compute. reflexivity. Qed.
Lemma ok_bsc_delete_signers : regen_ok client_store_families iterprefix_bsc_DeleteAllSigner [[4%nat]] = true.
Proof. vm_compute. reflexivity. Qed.
Lemma ok_bsc_export : regen_ok client_store_families iterprefix_bsc_ClientState_ExportMetadata [[4%nat]; [5%nat]] = true.
Proof. vm_compute. reflexivity. Qed.
Lemma ok_eth_export : regen_ok client_store_families iterprefix_eth_ClientState_ExportMetadata [[6%nat]; [7%nat]] = true.
Proof. vm_compute. reflexivity. Qed.

(** ... and of the xibc store (indices in [key_families]: 0 receipts, 1 acks, 2 commitments,
    4 nextSequenceSend, 5 client states, 6 consensus states, 8 relayers) *)
Lemma ok_keeper_consensus : regen_ok key_families iterprefix_clientkeeper_IterateConsensusStates [[5%nat; 6%nat]] = true.
Proof. vm_compute. reflexivity. Qed.
Lemma ok_keeper_clients : regen_ok key_families iterprefix_clientkeeper_IterateClients [[5%nat; 6%nat]] = true.
Proof. vm_compute. reflexivity. Qed.
Lemma ok_keeper_relayers : regen_ok key_families iterprefix_clientkeeper_GetAllRelayers [[8%nat]] = true.
Proof. vm_compute. reflexivity. Qed.
Lemma ok_packet_sendseqs : regen_ok key_families iterprefix_packetkeeper_GetAllPacketSendSeqs [[4%nat]] = true.
Proof. vm_compute. reflexivity. Qed.
Lemma ok_packet_commitments : regen_ok key_families iterprefix_packetkeeper_IteratePacketCommitment [[2%nat]] = true.
Proof. vm_compute. reflexivity. Qed.
Lemma ok_packet_receipts : regen_ok key_families iterprefix_packetkeeper_IteratePacketReceipt [[0%nat]] = true.
Proof. vm_compute. reflexivity. Qed.
Lemma ok_packet_acks : regen_ok key_families iterprefix_packetkeeper_IteratePacketAcknowledgement [[1%nat]] = true.
Proof. vm_compute. reflexivity. Qed.

(** every regenerated iterator of the xibc store visits exactly its own families — for ALL arguments *)
Theorem xibc_iterators_exact : forall l own, In (l, own)
    [ (iterprefix_clientkeeper_IterateConsensusStates, [5%nat; 6%nat]); (iterprefix_clientkeeper_IterateClients, [5%nat; 6%nat]);
      (iterprefix_clientkeeper_GetAllRelayers, [8%nat]); (iterprefix_packetkeeper_GetAllPacketSendSeqs, [4%nat]);
      (iterprefix_packetkeeper_IteratePacketCommitment, [2%nat]); (iterprefix_packetkeeper_IteratePacketReceipt, [0%nat]);
      (iterprefix_packetkeeper_IteratePacketAcknowledgement, [1%nat]) ] ->
  forall i f sf a, nth_error key_families i = Some (f, sf) ->
    prefix_any (prefixes_of l) (render f a) = existsb (Nat.eqb i) own.
Proof.
  intros l own H. cbn [In] in H.
  destruct H as [H|[H|[H|[H|[H|[H|[H|[]]]]]]]]; injection H as <- <-; apply prefix_any_exact.
  - exact ok_keeper_consensus.
  - exact ok_keeper_clients.
  - exact ok_keeper_relayers.
  - exact ok_packet_sendseqs.
  - exact ok_packet_commitments.
  - exact ok_packet_receipts.
  - exact ok_packet_acks.
Qed.

(** * Arguments of the height families *)

Lemma args_ok_height a : args_ok sg_height a = true -> exists h, a = height_args h /\ valid_height h = true.
Proof.
  destruct a as [|[s|r] [|[s'|n] [|x a]]]; cbn; try discriminate;
    rewrite ?andb_false_r; try discriminate.
  intro H. exists {| rev_number := r; rev_height := n |}. split; [reflexivity|].
  unfold valid_height. cbn. rewrite andb_true_r in H. exact H.
Qed.

Lemma parse_consensus_state_key_ptime h : parse_consensus_state_key (tm_processed_time_key h) = None.
Proof.
  destruct (parse_consensus_state_key (tm_processed_time_key h)) eqn:E; [|reflexivity].
  apply parse_consensus_state_key_length in E. exfalso. revert E.
  unfold tm_processed_time_key, height_args. rewrite shape_processed_time.
  cbn [render render_item get_n nth_error]. rewrite !app_length, !be8_length. cbn. lia.
Qed.

(** case analysis on the family index: the eight families, nothing else *)
Lemma family_cases i f sf :
  nth_error client_store_families i = Some (f, sf) ->
  (i = 0%nat /\ f = host_ClientStateKey /\ sf = []) \/
  (i = 1%nat /\ f = host_ConsensusStateKey /\ sf = sg_height) \/
  (i = 2%nat /\ f = tm_ProcessedTimeKey /\ sf = sg_height) \/
  (i = 3%nat /\ f = tm_IterationKey /\ sf = sg_height) \/
  (i = 4%nat /\ f = bsc_keyRecentSinger /\ sf = sg_height) \/
  (i = 5%nat /\ f = [Lit bsc_PrefixPendingValidators] /\ sf = []) \/
  (i = 6%nat /\ f = eth_EthHeaderIndexKey /\ sf = sg_hash_num) \/
  (i = 7%nat /\ f = eth_EthRootMainKey /\ sf = sg_hash_num).
Proof.
  unfold client_store_families.
  do 8 (destruct i as [|i]; [cbn [nth_error]; intros [= <- <-]; tauto|]).
  cbn [nth_error]. destruct i; discriminate.
Qed.

(** * tendermint IterateProcessedTime: exactly the processed-time keys *)

(** what the loop does with a key of the store: visited only under the
    (regenerated) prefix, then filtered *)
Definition visit_processed_time (k : bytes) : seen bytes :=
  if prefix_any (prefixes_of iterprefix_tm_IterateProcessedTime) k then iter_processed_time k else Skip.

Theorem processed_time_iterator_exact : forall i f sf a,
  nth_error client_store_families i = Some (f, sf) -> args_ok sf a = true ->
  visit_processed_time (render f a) = if Nat.eqb i 2 then Got (render f a) else Skip.
Proof.
  intros i f sf a Hi A. unfold visit_processed_time.
  rewrite (prefix_any_exact _ _ _ ok_tm_processed_time i f sf a Hi).
  destruct (family_cases i f sf Hi) as [H|[H|[H|[H|[H|[H|[H|H]]]]]]]; destruct H as (-> & -> & ->);
    cbn [existsb Nat.eqb orb]; try reflexivity.
  (* i = 1 (a consensus-state key) is closed by conversion: 16 height bytes, whatever they spell *)
  destruct (args_ok_height a A) as (h & -> & V).
  exact (proj1 (processed_time_key_roundtrip h)).
Qed.

(** * bsc / eth IterateConsensusStateAscending: exactly the consensus-state keys, each read as its height *)

Definition visit_evm_consensus (l : list iter_prefix) (k : bytes) : outcome (seen height) :=
  if prefix_any (prefixes_of l) k then iter_evm_consensus k else Ok Skip.

Lemma evm_consensus_iterator_exact_gen l : regen_ok client_store_families l [[1%nat; 2%nat]] = true ->
  forall i f sf a, nth_error client_store_families i = Some (f, sf) -> args_ok sf a = true ->
  visit_evm_consensus l (render f a) =
    if Nat.eqb i 1 then Ok (Got {| rev_number := get_n a 0; rev_height := get_n a 1 |}) else Ok Skip.
Proof.
  intros OK i f sf a Hi A. unfold visit_evm_consensus.
  rewrite (prefix_any_exact _ _ _ OK i f sf a Hi).
  destruct (family_cases i f sf Hi) as [H|[H|[H|[H|[H|[H|[H|H]]]]]]]; destruct H as (-> & -> & ->);
    cbn [existsb Nat.eqb orb]; try reflexivity.
  (* i = 2 (a processed-time key: 30 bytes after the prefix, never 16) is closed by conversion *)
  destruct (args_ok_height a A) as (h & -> & V).
  rewrite (evm_consensus_key_roundtrip h V : iter_evm_consensus (render host_ConsensusStateKey (height_args h)) = _).
  destruct h; reflexivity.
Qed.

Theorem evm_consensus_iterator_exact : forall l, In l [iterprefix_bsc_IterateConsensusStateAscending; iterprefix_eth_IterateConsensusStateAscending] ->
  forall i f sf a, nth_error client_store_families i = Some (f, sf) -> args_ok sf a = true ->
  visit_evm_consensus l (render f a) =
    if Nat.eqb i 1 then Ok (Got {| rev_number := get_n a 0; rev_height := get_n a 1 |}) else Ok Skip.
Proof.
  intros l [<-|[<-|[]]]; apply evm_consensus_iterator_exact_gen; [exact ok_bsc_consensus | exact ok_eth_consensus].
Qed.

(** * tendermint IterateConsensusStateAscending: exactly the iteration keys *)

Definition visit_tm_iteration (k : bytes) : outcome (seen height) :=
  if prefix_any (prefixes_of iterprefix_tm_IterateConsensusStateAscending) k
  then match tm_height_from_iteration_key k with Ok h => Ok (Got h) | Err => Err | Panic => Panic end
  else Ok Skip.

Theorem tm_iteration_iterator_exact : forall i f sf a,
  nth_error client_store_families i = Some (f, sf) -> args_ok sf a = true ->
  visit_tm_iteration (render f a) =
    if Nat.eqb i 3 then Ok (Got {| rev_number := get_n a 0; rev_height := get_n a 1 |}) else Ok Skip.
Proof.
  intros i f sf a Hi A. unfold visit_tm_iteration.
  rewrite (prefix_any_exact _ _ _ ok_tm_iteration i f sf a Hi).
  destruct (family_cases i f sf Hi) as [H|[H|[H|[H|[H|[H|[H|H]]]]]]]; destruct H as (-> & -> & ->);
    cbn [existsb Nat.eqb orb]; try reflexivity.
  destruct (args_ok_height a A) as (h & -> & V).
  rewrite (tm_iteration_key_roundtrip h V : tm_height_from_iteration_key (render tm_IterationKey (height_args h)) = _).
  destruct h; reflexivity.
Qed.

(** * bsc GetRecentSigners / DeleteAllSigner: exactly the signer keys *)

Definition visit_bsc_signers (l : list iter_prefix) (k : bytes) : outcome (seen height) :=
  if prefix_any (prefixes_of l) k
  then match bsc_signer_height_parse k with Ok h => Ok (Got h) | Err => Err | Panic => Panic end
  else Ok Skip.

Lemma bsc_signers_iterator_exact_gen l : regen_ok client_store_families l [[4%nat]] = true ->
  forall i f sf a, nth_error client_store_families i = Some (f, sf) -> args_ok sf a = true ->
  visit_bsc_signers l (render f a) =
    if Nat.eqb i 4 then Ok (Got {| rev_number := get_n a 0; rev_height := get_n a 1 |}) else Ok Skip.
Proof.
  intros OK i f sf a Hi A. unfold visit_bsc_signers.
  rewrite (prefix_any_exact _ _ _ OK i f sf a Hi).
  destruct (family_cases i f sf Hi) as [H|[H|[H|[H|[H|[H|[H|H]]]]]]]; destruct H as (-> & -> & ->);
    cbn [existsb Nat.eqb orb]; try reflexivity.
  destruct (args_ok_height a A) as (h & -> & V).
  rewrite (bsc_signer_key_roundtrip h V : bsc_signer_height_parse (render bsc_keyRecentSinger (height_args h)) = _).
  destruct h; reflexivity.
Qed.

Theorem bsc_signers_iterator_exact : forall l, In l [iterprefix_bsc_GetRecentSigners; iterprefix_bsc_DeleteAllSigner] ->
  forall i f sf a, nth_error client_store_families i = Some (f, sf) -> args_ok sf a = true ->
  visit_bsc_signers l (render f a) =
    if Nat.eqb i 4 then Ok (Got {| rev_number := get_n a 0; rev_height := get_n a 1 |}) else Ok Skip.
Proof.
  intros l [<-|[<-|[]]]; apply bsc_signers_iterator_exact_gen; [exact ok_bsc_signers | exact ok_bsc_delete_signers].
Qed.

(** DeleteAllSigner deletes the entry it found: the key rebuilt from the parsed height IS the stored key *)
Theorem bsc_signer_key_rebuilt : forall h, valid_height h = true ->
  match bsc_signer_height_parse (bsc_recent_signer_key h) with Ok h' => bsc_recent_signer_key h' = bsc_recent_signer_key h | _ => False end.
Proof. intros h V. rewrite (bsc_signer_key_roundtrip h V). reflexivity. Qed.

(** * Whole stores: ExportMetadata returns exactly the metadata entries *)

(** k is a key of family i of [fams] (for some valid arguments) *)
Definition family_key_in (fams : list (fmt * list kind)) (i : nat) (k : bytes) : Prop :=
  exists f sf a, nth_error fams i = Some (f, sf) /\ args_ok sf a = true /\ k = render f a.

Definition family_store_in (fams : list (fmt * list kind)) (ks : list bytes) : Prop :=
  forall k, In k ks -> exists i, family_key_in fams i k.

(** the client-store instance *)
Definition family_key : nat -> bytes -> Prop := family_key_in client_store_families.
Definition family_store : list bytes -> Prop := family_store_in client_store_families.

Lemma family_key_unique i j k : family_key i k -> family_key j k -> i = j.
Proof.
  intros (f & sf & a & Hi & A & ->) (g & sg & b & Hj & Bk & E).
  destruct (Nat.eq_dec i j) as [|N]; [assumption|]. exfalso.
  exact (client_store_families_disjoint i j f sf g sg a b N Hi Hj A Bk E).
Qed.

Lemma in_collect {A} (f : bytes -> seen A) ks x : In x (collect f ks) <-> exists k, In k ks /\ f k = Got x.
Proof.
  induction ks as [|k r IH]; cbn [collect In].
  - split; [tauto | intros (k & [] & _)].
  - destruct (f k) as [|y] eqn:E; cbn [In]; rewrite IH; split.
    + intros (k' & H1 & H2). exists k'. auto.
    + intros (k' & [<-|H1] & H2); [congruence | eauto].
    + intros [<-|(k' & H1 & H2)]; [exists k; auto | exists k'; auto].
    + intros (k' & [<-|H1] & H2); [left; congruence | right; eauto].
Qed.

Lemma in_keys_with_prefix p ks k : In k (keys_with_prefix p ks) <-> In k ks /\ is_prefix p k = true.
Proof. unfold keys_with_prefix. apply filter_In. Qed.

Lemma in_keys_with_prefixes ps ks k : In k (keys_with_prefixes ps ks) <-> In k ks /\ exists p, In p ps /\ is_prefix p k = true.
Proof.
  unfold keys_with_prefixes. rewrite in_flat_map. split.
  - intros (p & Hp & H). apply in_keys_with_prefix in H as [H1 H2]. eauto.
  - intros (H1 & p & Hp & H2). exists p. split; [exact Hp|]. apply in_keys_with_prefix. auto.
Qed.

Lemma existsb_eqb_in i own : existsb (Nat.eqb i) own = true <-> In i own.
Proof.
  rewrite existsb_exists. split.
  - intros (x & Hx & E). apply Nat.eqb_eq in E. subst. exact Hx.
  - intro H. exists i. split; [exact H | apply Nat.eqb_refl].
Qed.

Lemma in_combine_exists_r {A B} (l : list A) (l' : list B) x : length l = length l' -> In x l -> exists y, In (x, y) (combine l l').
Proof.
  revert l'; induction l as [|a l IH]; intros [|b l'] L H; try discriminate; [destruct H|].
  destruct H as [<-|H]; [exists b; left; reflexivity|].
  destruct (IH l' (eq_add_S _ _ L) H) as [y Hy]. exists y. right. exact Hy.
Qed.

Lemma in_combine_exists_l {A B} (l : list A) (l' : list B) y : length l = length l' -> In y l' -> exists x, In (x, y) (combine l l').
Proof.
  revert l'; induction l as [|a l IH]; intros [|b l'] L H; try discriminate; [destruct H|].
  destruct H as [<-|H]; [exists a; left; reflexivity|].
  destruct (IH l' (eq_add_S _ _ L) H) as [x Hx]. exists x. right. exact Hx.
Qed.

(** a sequence of plain prefix iterations (no filter) over a store of family
    keys: exactly the keys of the intended families — for any family list *)
Lemma prefix_iteration_exact fams l owns ks :
  regen_ok fams l owns = true -> family_store_in fams ks ->
  forall k, In k (keys_with_prefixes (prefixes_of l) ks) <-> In k ks /\ exists i, In i (concat owns) /\ family_key_in fams i k.
Proof.
  intros OK FS k. destruct (regen_ok_unfold _ _ _ OK) as [L _]. pose proof (regen_prefix_exact _ _ _ OK) as X.
  rewrite in_keys_with_prefixes. split.
  - intros [Hk (p & Hp & P)]. split; [exact Hk|]. destruct (FS k Hk) as [i Fi]. exists i. split; [|exact Fi].
    destruct (in_combine_exists_r _ owns p L Hp) as [own Hpo].
    destruct Fi as (f & sf & a & Hi & _ & ->).
    rewrite (X p own i f sf a Hpo Hi) in P. apply existsb_eqb_in in P.
    apply in_concat. exists own. split; [|exact P]. apply in_combine_r in Hpo. exact Hpo.
  - intros [Hk (i & Hi & Fi)]. split; [exact Hk|].
    apply in_concat in Hi as (own & Hown & Hio).
    destruct (in_combine_exists_l (prefixes_of l) owns own L Hown) as [p Hpo].
    exists p. split; [apply in_combine_l in Hpo; exact Hpo|].
    destruct Fi as (f & sf & a & Hf & _ & ->).
    rewrite (X p own i f sf a Hpo Hf). apply existsb_eqb_in. exact Hio.
Qed.

Lemma prefix_export_exact l owns ks :
  regen_ok client_store_families l owns = true -> family_store ks ->
  forall k, In k (keys_with_prefixes (prefixes_of l) ks) <-> In k ks /\ exists i, In i (concat owns) /\ family_key i k.
Proof. apply prefix_iteration_exact. Qed.

(** the xibc store: every keeper iterator visits exactly the keys of its own
    families among the stored keys of the nine families of the store *)
Theorem xibc_iteration_exact : forall l own, In (l, own)
    [ (iterprefix_clientkeeper_IterateConsensusStates, [5%nat; 6%nat]); (iterprefix_clientkeeper_IterateClients, [5%nat; 6%nat]);
      (iterprefix_clientkeeper_GetAllRelayers, [8%nat]); (iterprefix_packetkeeper_GetAllPacketSendSeqs, [4%nat]);
      (iterprefix_packetkeeper_IteratePacketCommitment, [2%nat]); (iterprefix_packetkeeper_IteratePacketReceipt, [0%nat]);
      (iterprefix_packetkeeper_IteratePacketAcknowledgement, [1%nat]) ] ->
  forall ks, family_store_in key_families ks ->
  forall k, In k (keys_with_prefixes (prefixes_of l) ks) <-> In k ks /\ exists i, In i own /\ family_key_in key_families i k.
Proof.
  intros l own H ks FS k. cbn [In] in H.
  assert (R : regen_ok key_families l [own] = true).
  { destruct H as [H|[H|[H|[H|[H|[H|[H|[]]]]]]]]; injection H as <- <-;
      [exact ok_keeper_consensus | exact ok_keeper_clients | exact ok_keeper_relayers | exact ok_packet_sendseqs
      | exact ok_packet_commitments | exact ok_packet_receipts | exact ok_packet_acks]. }
  rewrite (prefix_iteration_exact key_families l [own] ks R FS k). cbn [concat]. rewrite app_nil_r. reflexivity.
Qed.

(** e.g. GetAllPacketCommitments over a store of family keys returns, for every
    stored commitment key, the triple it was written for — and nothing else *)
Corollary commitments_read_back ks : family_store_in key_families ks ->
  forall k, In k (keys_with_prefixes (prefixes_of iterprefix_packetkeeper_IteratePacketCommitment) ks) ->
    exists t, valid_triple_args t /\ k = packet_commitment_key t /\ iterate_hashes_parse k = Ok t.
Proof.
  intros FS k Hk.
  apply (xibc_iteration_exact _ [2%nat]) in Hk; [|cbn; tauto | exact FS].
  destruct Hk as [_ (i & [<-|[]] & (f & sf & a & Hf & A & ->))].
  cbn in Hf. injection Hf as <- <-.
  destruct a as [|[s|n] [|[d|m] [|[x|q] [|y a]]]]; cbn in A; try discriminate; rewrite ?andb_false_r in A; try discriminate.
  rewrite andb_true_r in A. apply andb_true_iff in A as [A1 A]. apply andb_true_iff in A as [A2 A3]. apply N.ltb_lt in A3.
  exists {| t_src := s; t_dst := d; t_seq := q |}.
  assert (V : valid_triple_args {| t_src := s; t_dst := d; t_seq := q |}) by (repeat split; assumption).
  split; [exact V|]. split; [reflexivity|].
  change (render host_PacketCommitmentKey [VS s; VS d; VN q]) with (packet_commitment_key {| t_src := s; t_dst := d; t_seq := q |}).
  unfold packet_commitment_key. rewrite shape_commitment. apply iterate_hashes_shape_args; [reflexivity | reflexivity | exact V].
Qed.

(** tendermint ExportMetadata = exactly the processed-time entries and the
    iteration entries of the store — no consensus state, whatever its height
    bytes spell, and nothing is left out *)
Theorem tm_export_exact ks : family_store ks ->
  forall k, In k (tm_export_keys ks) <-> In k ks /\ (family_key 2 k \/ family_key 3 k).
Proof.
  intros FS k. unfold tm_export_keys. rewrite in_app_iff, in_collect.
  rewrite (prefix_export_exact _ _ ks ok_tm_export FS k). split.
  - intros [(k' & Hk' & G)|[Hk (i & [<-|[]] & Fi)]]; [|tauto].
    apply in_keys_with_prefixes in Hk' as [Hk' (p & Hp & P)]. destruct (FS k' Hk') as [i Fi].
    destruct Fi as (f & sf & a & Hi & A & ->).
    pose proof (processed_time_iterator_exact i f sf a Hi A) as X.
    unfold visit_processed_time in X.
    assert (PA : prefix_any (prefixes_of iterprefix_tm_IterateProcessedTime) (render f a) = true).
    { unfold prefix_any. apply existsb_exists. exists p. auto. }
    rewrite PA, G in X.
    destruct (Nat.eqb i 2) eqn:E; [|discriminate]. apply Nat.eqb_eq in E. subst i.
    injection X as ->. split; [exact Hk'|]. left. exists f, sf, a. auto.
  - intros [Hk [F2|F3]].
    + left. exists k. destruct F2 as (f & sf & a & Hi & A & ->).
      pose proof (processed_time_iterator_exact 2 f sf a Hi A) as X. cbn [Nat.eqb] in X.
      unfold visit_processed_time in X.
      destruct (prefix_any (prefixes_of iterprefix_tm_IterateProcessedTime) (render f a)) eqn:P; [|discriminate].
      split; [|exact X]. apply in_keys_with_prefixes. split; [exact Hk|].
      unfold prefix_any in P. apply existsb_exists in P. exact P.
    + right. split; [exact Hk|]. exists 3%nat. split; [left; reflexivity | exact F3].
Qed.

Theorem bsc_export_exact ks : family_store ks ->
  forall k, In k (bsc_export_keys ks) <-> In k ks /\ (family_key 4 k \/ family_key 5 k).
Proof.
  intros FS k. unfold bsc_export_keys. rewrite (prefix_export_exact _ _ ks ok_bsc_export FS k). cbn [concat app In]. split.
  - intros [Hk (i & [<-|[<-|[]]] & Fi)]; tauto.
  - intros [Hk [F|F]]; (split; [exact Hk|]); eexists; (split; [|exact F]); tauto.
Qed.

Theorem eth_export_exact ks : family_store ks ->
  forall k, In k (eth_export_keys ks) <-> In k ks /\ (family_key 6 k \/ family_key 7 k).
Proof.
  intros FS k. unfold eth_export_keys. rewrite (prefix_export_exact _ _ ks ok_eth_export FS k). cbn [concat app In]. split.
  - intros [Hk (i & [<-|[<-|[]]] & Fi)]; tauto.
  - intros [Hk [F|F]]; (split; [exact Hk|]); eexists; (split; [|exact F]); tauto.
Qed.

(** each entry is exported once: the export of a duplicate-free store (a KV store
    has no duplicate keys) is duplicate-free, provided the regenerated prefixes
    of one ExportMetadata are pairwise incomparable (decided by vm_compute) *)
Lemma collect_processed_time_filter ks :
  collect iter_processed_time ks = filter (fun k => match iter_processed_time k with Got _ => true | Skip => false end) ks.
Proof.
  induction ks as [|k r IH]; [reflexivity|]. cbn [collect filter].
  destruct (iter_processed_time k) as [|x] eqn:E; [exact IH|].
  assert (x = k) as ->.
  { unfold iter_processed_time in E. destruct (parse_consensus_state_key k); [discriminate|].
    destruct (has_suffix tm_KeyProcessedTime k); [congruence | discriminate]. }
  f_equal. exact IH.
Qed.

Lemma NoDup_app_disjoint {A} (l1 l2 : list A) :
  NoDup l1 -> NoDup l2 -> (forall x, In x l1 -> In x l2 -> False) -> NoDup (l1 ++ l2).
Proof.
  induction l1 as [|x l1 IH]; intros N1 N2 D; [exact N2|]. cbn. inversion N1; subst. constructor.
  - rewrite in_app_iff. intros [H|H]; [contradiction | exact (D x (or_introl eq_refl) H)].
  - apply IH; auto. intros y Hy. apply D. right. exact Hy.
Qed.

Lemma prefixes_comparable p q k :
  is_prefix p k = true -> is_prefix q k = true -> is_prefix p q = true \/ is_prefix q p = true.
Proof.
  revert q k; induction p as [|x p IH]; intros q k P Q; [left; reflexivity|].
  destruct q as [|y q]; [right; reflexivity|]. destruct k as [|c k]; [discriminate|].
  cbn in P, Q. apply andb_true_iff in P as [P1 P2]. apply andb_true_iff in Q as [Q1 Q2].
  apply byte_eqb_eq in P1, Q1. subst x y. cbn. rewrite byte_eqb_refl. cbn. exact (IH q k P2 Q2).
Qed.

Lemma prefixes_disjoint p q k : incomparable p q = true -> is_prefix p k = true -> is_prefix q k = true -> False.
Proof.
  unfold incomparable. intros I P Q. apply andb_true_iff in I as [I1 I2]. apply negb_true_iff in I1, I2.
  destruct (prefixes_comparable p q k P Q) as [H|H]; congruence.
Qed.

(** every prefix of [ps] incomparable with every prefix of [qs] *)
Definition apart_lists (ps qs : list bytes) : bool := forallb (fun p => forallb (incomparable p) qs) ps.

Fixpoint pairwise_apart (ps : list bytes) : bool :=
  match ps with [] => true | p :: r => forallb (incomparable p) r && pairwise_apart r end.

Lemma NoDup_keys_with_prefixes ps ks : pairwise_apart ps = true -> NoDup ks -> NoDup (keys_with_prefixes ps ks).
Proof.
  intros PA N. induction ps as [|p r IH]; [constructor|].
  cbn in PA. apply andb_true_iff in PA as [P1 P2].
  change (keys_with_prefixes (p :: r) ks) with (keys_with_prefix p ks ++ keys_with_prefixes r ks).
  apply NoDup_app_disjoint; [apply NoDup_filter; exact N | exact (IH P2) |].
  intros k H1 H2. apply in_keys_with_prefix in H1 as [_ H1]. apply in_keys_with_prefixes in H2 as [_ (q & Hq & H2)].
  rewrite forallb_forall in P1. exact (prefixes_disjoint p q k (P1 q Hq) H1 H2).
Qed.

Theorem tm_export_nodup ks : NoDup ks -> NoDup (tm_export_keys ks).
Proof.
  intro N. unfold tm_export_keys. rewrite collect_processed_time_filter.
  apply NoDup_app_disjoint.
  - apply NoDup_filter. apply NoDup_keys_with_prefixes; [vm_compute; reflexivity | exact N].
  - apply NoDup_keys_with_prefixes; [vm_compute; reflexivity | exact N].
  - intros k H1 H2. apply filter_In in H1 as [H1 _].
    apply in_keys_with_prefixes in H1 as [_ (p & Hp & P1)]. apply in_keys_with_prefixes in H2 as [_ (q & Hq & P2)].
    assert (AP : apart_lists (prefixes_of iterprefix_tm_IterateProcessedTime) (prefixes_of tm_export_own) = true)
      by (vm_compute; reflexivity).
    unfold apart_lists in AP. rewrite forallb_forall in AP. specialize (AP p Hp). rewrite forallb_forall in AP.
    exact (prefixes_disjoint p q k (AP q Hq) P1 P2).
Qed.

Theorem bsc_export_nodup ks : NoDup ks -> NoDup (bsc_export_keys ks).
Proof. intro N. apply NoDup_keys_with_prefixes; [vm_compute; reflexivity | exact N]. Qed.

Theorem eth_export_nodup ks : NoDup ks -> NoDup (eth_export_keys ks).
Proof. intro N. apply NoDup_keys_with_prefixes; [vm_compute; reflexivity | exact N]. Qed.

(** * Packet keeper: IteratePacketCommitmentByPath *)

Lemma is_prefix_app_same p x y : is_prefix (p ++ x) (p ++ y) = is_prefix x y.
Proof. induction p as [|c p IH]; [reflexivity|]. cbn. rewrite byte_eqb_refl. exact IH. Qed.

Lemma not_sep_eqb c : not_sep c = true -> Byte.eqb c sep = false /\ Byte.eqb sep c = false.
Proof.
  unfold not_sep, is_sep. intro H. apply negb_true_iff in H. split; [exact H|].
  destruct (Byte.eqb sep c) eqn:E; [|reflexivity]. apply byte_eqb_eq in E. subst c.
  rewrite byte_eqb_refl in H. discriminate.
Qed.

(** two '/'-terminated fields: equal fields and the rest a prefix, or not a prefix at all *)
Lemma is_prefix_field s s' r r' : no_sep s = true -> no_sep s' = true ->
  is_prefix (s ++ sep :: r) (s' ++ sep :: r') = bytes_eqb s s' && is_prefix r r'.
Proof.
  revert s'; induction s as [|c s IH]; intros [|c' s'] Hs Hs'.
  - cbn [app is_prefix bytes_eqb]. rewrite byte_eqb_refl. reflexivity.
  - change (no_sep (c' :: s')) with (not_sep c' && no_sep s') in Hs'. apply andb_true_iff in Hs' as [Hc _].
    apply not_sep_eqb in Hc as [_ Hc].
    cbn [app is_prefix bytes_eqb]. rewrite Hc. reflexivity.
  - change (no_sep (c :: s)) with (not_sep c && no_sep s) in Hs. apply andb_true_iff in Hs as [Hc _].
    apply not_sep_eqb in Hc as [Hc _].
    cbn [app is_prefix bytes_eqb]. rewrite Hc. reflexivity.
  - change (no_sep (c :: s)) with (not_sep c && no_sep s) in Hs. apply andb_true_iff in Hs as [_ Hs].
    change (no_sep (c' :: s')) with (not_sep c' && no_sep s') in Hs'. apply andb_true_iff in Hs' as [_ Hs'].
    cbn [app is_prefix bytes_eqb]. rewrite (IH s' Hs Hs'). apply andb_assoc.
Qed.

Lemma shape_commitment_prefix_path :
  host_PacketCommitmentPrefixPath = [Lit host_KeyPacketCommitmentPrefix; Sep; Str 0; Sep; Str 1; Sep; Lit host_KeySequencePrefix].
Proof. reflexivity. Qed.

(** tie to the regenerated iterator description: the format and the order of its arguments *)
Lemma commitment_path_prefix_shape s d : commitment_path_prefix s d = render host_PacketCommitmentPrefixPath [VS s; VS d].
Proof. reflexivity. Qed.

(** the by-path iterator of (src, dst) visits a commitment key iff it was written for exactly that source and destination *)
Theorem commitment_by_path_exact s d t :
  valid_chain_name s = true -> valid_chain_name d = true -> valid_triple t = true ->
  is_prefix (commitment_path_prefix s d) (packet_commitment_key t) = bytes_eqb s (t_src t) && bytes_eqb d (t_dst t).
Proof.
  intros Vs Vd V. unfold valid_triple in V. apply andb_true_iff in V as [V _]. apply andb_true_iff in V as [V1 V2].
  apply valid_chain_name_no_sep in Vs, Vd, V1, V2.
  destruct t as [s' d' n]. cbn [t_src t_dst t_seq] in *.
  rewrite commitment_path_prefix_shape. unfold packet_commitment_key, triple_args. cbn [t_src t_dst t_seq].
  rewrite shape_commitment_prefix_path, shape_commitment. unfold triple_shape.
  cbn [render render_item get_s get_n nth_error]. rewrite !app_nil_r.
  rewrite is_prefix_app_same. cbn [app is_prefix]. rewrite byte_eqb_refl. cbn [andb].
  rewrite (is_prefix_field s s' _ _ Vs V1), (is_prefix_field d d' _ _ Vd V2).
  rewrite is_prefix_app, andb_true_r. reflexivity.
Qed.

(** and no key of another family of the xibc store: the by-path prefix extends "commitments" *)
Theorem commitment_by_path_other_families s d i f sf a :
  nth_error key_families i = Some (f, sf) -> i <> 2%nat ->
  is_prefix (commitment_path_prefix s d) (render f a) = false.
Proof.
  intros Hi N. destruct (is_prefix (commitment_path_prefix s d) (render f a)) eqn:E; [|reflexivity]. exfalso.
  assert (P : is_prefix host_KeyPacketCommitmentPrefix (render f a) = true).
  { apply is_prefix_spec in E as [u E]. rewrite E. rewrite commitment_path_prefix_shape, shape_commitment_prefix_path.
    cbn [render render_item]. rewrite <- app_assoc. apply is_prefix_app. }
  rewrite (iterator_prefix_exact host_KeyPacketCommitmentPrefix [2%nat] i f sf a) in P; [|cbn; auto | exact Hi].
  cbn [existsb orb] in P. destruct (Nat.eqb i 2) eqn:E2; [apply Nat.eqb_eq in E2; contradiction | discriminate].
Qed.
