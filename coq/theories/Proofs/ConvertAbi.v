(** C11 — the token interface the model assumes is the interface of the contract the module deploys, and the EVM
    calls the model lets the module make are the ones msg_server.go makes: decidable conditions on the terms
    REGENERATED on every run from the compiled contract's ABI and from the Go source (Gen/Erc20AbiGen.v, translator
    tools/gotocoq/erc20abi), evaluated by [vm_compute]. *)
From Teleport Require Import Base.Bytes Base.Outcome Model.Convert Gen.Erc20AbiGen.
Local Open Scope Z_scope.

Definition tyA : bytes := B "address".
Definition tyU : bytes := B "uint256".
Definition tyB : bytes := B "bool".

(** the contract function each constructor of [call] stands for, its argument types and what it returns *)
Definition call_method (cl : call) : bytes :=
  match cl with
  | CBalanceOf _ => B "balanceOf" | CTransfer _ _ => B "transfer" | CMint _ _ => B "mint"
  | CBurnCoins _ _ => B "burnCoins" | CBurn _ => B "burn" | CApprove _ _ => B "approve"
  | CIncAllow _ _ => B "increaseAllowance" | CDecAllow _ _ => B "decreaseAllowance"
  | CTransferFrom _ _ _ => B "transferFrom" | CBurnFrom _ _ => B "burnFrom"
  end.
Definition call_inputs (cl : call) : list bytes :=
  match cl with
  | CBalanceOf _ => [tyA] | CBurn _ => [tyU] | CTransferFrom _ _ _ => [tyA; tyA; tyU] | _ => [tyA; tyU]
  end.
(** [std_call] returns one uint256 word for balanceOf, the word 1 (a strict bool, [unpack_bool]) for transfer /
    approve / increaseAllowance / decreaseAllowance / transferFrom, and nothing for mint / burnCoins / burn / burnFrom *)
Definition call_outputs (cl : call) : list bytes :=
  match cl with
  | CBalanceOf _ => [tyU]
  | CTransfer _ _ | CApprove _ _ | CIncAllow _ _ | CDecAllow _ _ | CTransferFrom _ _ _ => [tyB]
  | _ => []
  end.
Definition call_mutates (cl : call) : bool := match cl with CBalanceOf _ => false | _ => true end.

(** one representative per constructor (the functions above ignore the arguments) *)
Definition call_reps : list call :=
  [CBalanceOf 0; CTransfer 0 0; CMint 0 0; CBurnCoins 0 0; CBurn 0; CApprove 0 0; CIncAllow 0 0; CDecAllow 0 0;
   CTransferFrom 0 0 0; CBurnFrom 0 0].

Fixpoint blist_eqb (a b : list bytes) : bool :=
  match a, b with
  | [], [] => true
  | x :: a', y :: b' => bytes_eqb x y && blist_eqb a' b'
  | _, _ => false
  end.

Lemma blist_eqb_eq a : forall b, blist_eqb a b = true -> a = b.
Proof.
  induction a as [|x a IH]; intros [|y b] H; cbn in H; try discriminate; [reflexivity|].
  apply andb_prop in H as [E H]. apply bytes_eqb_eq in E. subst. f_equal. apply IH. exact H.
Qed.

Definition abi_find (n : bytes) : option (list bytes * (list bytes * bool)) := afind bytes_eqb erc20_abi n.

Definition call_in_abi (cl : call) : bool :=
  match abi_find (call_method cl) with
  | Some (ins, (outs, mut)) => blist_eqb ins (call_inputs cl) && blist_eqb outs (call_outputs cl) && Bool.eqb mut (call_mutates cl)
  | None => false
  end.

Fixpoint bmem (x : bytes) (l : list bytes) : bool :=
  match l with [] => false | y :: l' => bytes_eqb y x || bmem x l' end.

Lemma bmem_In x l : bmem x l = true -> In x l.
Proof.
  induction l as [|y l IH]; cbn; [discriminate|]. intro H. apply orb_prop in H as [E|H].
  - left. apply bytes_eqb_eq. exact E.
  - right. apply IH. exact H.
Qed.

(** administration of ERC20MinterBurnerDecimals: callable by role holders only (pause / unpause: PAUSER_ROLE;
    grantRole / revokeRole: the role's admin = DEFAULT_ADMIN_ROLE; renounceRole: the account itself).  For a contract
    deployed by the module the only holder of every role is the module account, which never calls them. *)
Definition role_gated : list bytes := [B "pause"; B "unpause"; B "grantRole"; B "revokeRole"; B "renounceRole"].
Definition mutator_names : list bytes := map call_method (filter call_mutates call_reps).

Definition abi_alphabet_complete : bool :=
  forallb (fun e => negb (snd (snd (snd e))) || bmem (fst e) mutator_names || bmem (fst e) role_gated) erc20_abi.

(** the EVM calls the model's flows make, as (method, from) with from: 0 the module, 1 the message's sender:
    [balance_of] (every flow), [CMint] by the module (1.1), [CBurnCoins] by the module (1.2), [CTransfer] by the
    SENDER (2.1), [CTransfer] by the module (2.2) *)
Definition model_sites : list (bytes * nat) :=
  [(B "balanceOf", 0%nat); (B "mint", 0%nat); (B "burnCoins", 0%nat); (B "transfer", 1%nat); (B "transfer", 0%nat)].

Definition site_eqb (a b : bytes * nat) : bool := bytes_eqb (fst a) (fst b) && Nat.eqb (snd a) (snd b).
Fixpoint smem (x : bytes * nat) (l : list (bytes * nat)) : bool :=
  match l with [] => false | y :: l' => site_eqb y x || smem x l' end.

Lemma smem_In x l : smem x l = true <-> In x l.
Proof.
  induction l as [|y l IH]; cbn; [split; [discriminate | intros []]|]. split.
  - intro H. apply orb_prop in H as [E|H]; [left | right; apply IH; exact H].
    unfold site_eqb in E. apply andb_prop in E as [E1 E2]. apply bytes_eqb_eq in E1. apply Nat.eqb_eq in E2.
    destruct x, y; cbn in *; subst; reflexivity.
  - intros [->|H]; apply orb_true_iff; [left | right; apply IH; exact H].
    unfold site_eqb. rewrite bytes_eqb_refl, Nat.eqb_refl. reflexivity.
Qed.

Definition go_sites : list (bytes * nat) := map snd erc20_call_sites.
Definition sites_agree : bool :=
  forallb (fun x => smem x model_sites) go_sites && forallb (fun x => smem x go_sites) model_sites.

(** * The obligations (they re-check whenever the contract JSON or msg_server.go changes) *)
Lemma calls_in_abi_ok : forallb call_in_abi call_reps = true.
Proof. vm_compute. reflexivity. Qed.

Lemma abi_alphabet_complete_ok : abi_alphabet_complete = true.
Proof. vm_compute. reflexivity. Qed.

Lemma sites_agree_ok : sites_agree = true.
Proof. vm_compute. reflexivity. Qed.

Theorem token_interface_tied :
  (forall cl, exists ins outs mut,
      abi_find (call_method cl) = Some (ins, (outs, mut)) /\
      ins = call_inputs cl /\ outs = call_outputs cl /\ mut = call_mutates cl) /\
  (forall name ins outs, In (name, (ins, (outs, true))) erc20_abi -> In name mutator_names \/ In name role_gated) /\
  (forall site, In site go_sites <-> In site model_sites).
Proof.
  split; [|split].
  - intro cl.
    assert (R : exists rep, In rep call_reps /\ call_method rep = call_method cl /\ call_inputs rep = call_inputs cl /\
                            call_outputs rep = call_outputs cl /\ call_mutates rep = call_mutates cl).
    { destruct cl;
        [exists (CBalanceOf 0) | exists (CTransfer 0 0) | exists (CMint 0 0) | exists (CBurnCoins 0 0) | exists (CBurn 0)
         | exists (CApprove 0 0) | exists (CIncAllow 0 0) | exists (CDecAllow 0 0) | exists (CTransferFrom 0 0 0)
         | exists (CBurnFrom 0 0)]; (split; [cbn; tauto | repeat split; reflexivity]). }
    destruct R as (rep & I & M & IN & OUT & MU).
    pose proof calls_in_abi_ok as K. rewrite forallb_forall in K. specialize (K rep I).
    unfold call_in_abi in K. rewrite M in K.
    destruct (abi_find (call_method cl)) as [[ins [outs mut]]|]; [|discriminate].
    apply andb_prop in K as [K K3]. apply andb_prop in K as [K1 K2].
    apply blist_eqb_eq in K1. apply blist_eqb_eq in K2. apply Bool.eqb_prop in K3.
    exists ins, outs, mut. repeat split; congruence.
  - intros name ins outs I. pose proof abi_alphabet_complete_ok as K. unfold abi_alphabet_complete in K.
    rewrite forallb_forall in K. specialize (K _ I). cbn [fst snd negb orb] in K.
    apply orb_prop in K as [K|K]; [left | right]; apply bmem_In; exact K.
  - intro site. pose proof sites_agree_ok as K. unfold sites_agree in K. apply andb_prop in K as [K1 K2].
    rewrite forallb_forall in K1, K2. split; intro I.
    + apply smem_In. apply K1. exact I.
    + apply smem_In. apply K2. exact I.
Qed.
