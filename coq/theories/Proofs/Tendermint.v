(** Main lemmas of C07: acceptance soundness of checkValidity /
    CheckHeaderAndUpdateState, exact store update, latest-height monotonicity over
    histories, expiry, proof-height and delay gates. *)
From Teleport Require Import Base.Bytes Base.Outcome Model.Tendermint Model.TendermintCheck Proofs.TendermintStore Proofs.TendermintVerify.
From Coq Require Import Lia ZArith NArith List Bool.
From Coq Require Import ZifyN ZifyNat ZifyBool.
Local Open Scope Z_scope.

(** Ranges the Go types guarantee for relayer-supplied data *)
Definition wf_header (hdr : header) : Prop :=
  valid_height (h_trusted_height hdr) /\
  forall sh h, h_signed hdr = Some sh -> sh_header sh = Some h -> min_int64 <= hd_height h <= max_int64.

Section Main.
  Variable valset_hash : list (pubkey * Z) -> bytes.
  Variable header_hash : pheader -> bytes.
  Variable verify_sig : pubkey -> bytes -> pcommit -> nat -> bool.

  Notation chus := (check_header_and_update_state valset_hash header_hash verify_sig).
  Notation upd := (update_client valset_hash header_hash verify_sig).

  (** everything acceptance of a header implies *)
  Definition accept_facts (cs : client_state) (s : store) (hdr : header) (now : Z) : Prop :=
    exists tc tvals ttot sh h c vals tot hrev,
      (* the trusted validator set hashes to the next-validators hash stored at the trusted height *)
      get_cons s (h_trusted_height hdr) = Ok tc /\
      valset_from_proto (h_trusted_vals hdr) = Ok (tvals, ttot) /\
      valset_hash (hash_input tvals) = c_nvh tc /\
      (* shape of the header *)
      h_signed hdr = Some sh /\ sh_header sh = Some h /\ sh_commit sh = Some c /\
      valset_from_proto (h_valset hdr) = Ok (vals, tot) /\
      parse_chain_id (hd_chain_id h) = Ok hrev /\
      (* newer than the trusted height, in the same revision *)
      hrev = h_rev (h_trusted_height hdr) /\
      Z.of_N (h_hgt (h_trusted_height hdr)) < hd_height h /\
      (* trusted state within the trusting period, header time after it and within the clock drift *)
      c_time tc + cs_trusting cs > now /\
      c_time tc < hd_time h /\ hd_time h < now + cs_drift cs /\
      (* header, commit and validator set are consistent *)
      hd_chain_id h = verification_chain_id cs hrev /\
      cm_height c = hd_height h /\
      header_hash h = b_hash (cm_block_id c) /\
      valset_hash (hash_input vals) = hd_vals_hash h /\
      (* more than two thirds of the header's own validator set signed *)
      3 * signed_own verify_sig (hd_chain_id h) c (hash_input vals) > 2 * total_of (hash_input vals) /\
      (* adjacent: the own set is the stored next set *)
      (hd_height h = Z.of_N (h_hgt (h_trusted_height hdr)) + 1 -> hd_vals_hash h = c_nvh tc) /\
      (* non-adjacent: more than the trust level of the trusted set signed *)
      (hd_height h <> Z.of_N (h_hgt (h_trusted_height hdr)) + 1 ->
       (cs_tl_num cs < 9223372036854775808)%N -> (cs_tl_den cs < 9223372036854775808)%N ->
       Z.of_N (cs_tl_den cs) * signed_trusted verify_sig (hd_chain_id h) c (hash_input tvals)
       > Z.of_N (cs_tl_num cs) * total_of (hash_input tvals)).

  Lemma bytes_eqb_true a b : bytes_eqb a b = true -> a = b.
  Proof. apply bytes_eqb_eq. Qed.

  Lemma negb_if_ok {A} (b : bool) (x : outcome A) r :
    (if negb b then Err else x) = Ok r -> b = true /\ x = Ok r.
  Proof. destruct b; cbn; intro H; [auto|discriminate]. Qed.

  Lemma if_err_ok {A} (b : bool) (x : outcome A) r :
    (if b then Err else x) = Ok r -> b = false /\ x = Ok r.
  Proof. destruct b; cbn; intro H; [discriminate|auto]. Qed.

  Lemma signed_header_basic_ok h oc chain c :
    signed_header_basic header_hash h oc chain = Ok c ->
    oc = Some c /\ header_basic h = true /\ hd_chain_id h = chain /\ cm_height c = hd_height h /\
    header_hash h = b_hash (cm_block_id c).
  Proof.
    unfold signed_header_basic. destruct oc as [c0|]; [|discriminate]. intro H.
    apply negb_if_ok in H as [H1 H]. apply negb_if_ok in H as [H2 H]. apply negb_if_ok in H as [H3 H].
    apply negb_if_ok in H as [H4 H]. apply negb_if_ok in H as [H5 H]. inversion H; subst.
    apply bytes_eqb_true in H3, H5. apply Z.eqb_eq in H4. auto.
  Qed.

  Lemma header_basic_height h : header_basic h = true -> 0 < hd_height h.
  Proof.
    unfold header_basic. intro H. repeat (apply andb_true_iff in H as [H ?]).
    match goal with X : (0 <? hd_height h) = true |- _ => apply Z.ltb_lt in X; exact X end.
  Qed.

  Lemma light_verify_sound chain th t_time t_nvh tvals ttotal h oc vals total trusting now drift num den :
    nonneg_powers tvals -> ttotal = total_of (hash_input tvals) ->
    nonneg_powers vals -> total = total_of (hash_input vals) ->
    (th < two64N)%N -> min_int64 <= hd_height h <= max_int64 ->
    Z.of_N th < hd_height h ->
    light_verify valset_hash header_hash verify_sig chain (i64 th) t_time t_nvh tvals ttotal h oc vals total
                 trusting now drift num den = Ok tt ->
    exists c, oc = Some c /\
      t_time + trusting > now /\ t_time < hd_time h /\ hd_time h < now + drift /\
      hd_chain_id h = chain /\ cm_height c = hd_height h /\ header_hash h = b_hash (cm_block_id c) /\
      valset_hash (hash_input vals) = hd_vals_hash h /\
      3 * signed_own verify_sig chain c (hash_input vals) > 2 * total /\
      (hd_height h = Z.of_N th + 1 -> hd_vals_hash h = t_nvh) /\
      (hd_height h <> Z.of_N th + 1 -> (num < 9223372036854775808)%N -> (den < 9223372036854775808)%N ->
       Z.of_N den * signed_trusted verify_sig chain c (hash_input tvals) > Z.of_N num * ttotal).
  Proof.
    intros Hnt Ett Hnv Etv Hth Hr Hgt H.
    assert (Eth : i64 th = Z.of_N th).
    { apply i64_small. unfold max_int64 in Hr. lia. }
    unfold light_verify in H. rewrite Eth in H.
    rewrite wrap64_small in H by (unfold min_int64, max_int64 in *; lia).
    apply negb_if_ok in H as [Hexp H]. apply obind_ok in H as (c & Hsb & H).
    apply signed_header_basic_ok in Hsb as (-> & Hb & Hc & Hch & Hhh).
    apply if_err_ok in H as [_ H]. apply negb_if_ok in H as [Ht1 H]. apply negb_if_ok in H as [Ht2 H].
    apply negb_if_ok in H as [Hvh H]. apply bytes_eqb_true in Hvh.
    pose proof (total_of_nonneg vals Hnv) as Tv.
    exists c. split; [reflexivity|].
    split; [lia|]. split; [lia|]. split; [lia|]. split; [exact Hc|]. split; [exact Hch|]. split; [exact Hhh|].
    split; [congruence|].
    destruct (hd_height h =? Z.of_N th + 1) eqn:Adj.
    - apply Z.eqb_eq in Adj. apply negb_if_ok in H as [Hn H]. apply bytes_eqb_true in Hn.
      apply verify_commit_light_sound in H as (_ & _ & S); auto; [|lia].
      split; [lia|]. split; [intros _; exact Hn | intro N; contradiction].
    - apply Z.eqb_neq in Adj. apply obind_ok in H as ([] & Htr & H).
      apply verify_commit_light_sound in H as (_ & _ & S); auto; [|lia].
      split; [lia|]. split; [intro N; contradiction|].
      intros _ Hnum Hden. rewrite Ett.
      eapply verify_commit_light_trusting_sound; eauto.
  Qed.

  Lemma get_height_ok hdr hh :
    get_height hdr = Ok hh ->
    exists sh h hrev, h_signed hdr = Some sh /\ sh_header sh = Some h /\ header_pheader hdr = Ok h /\
                      parse_chain_id (hd_chain_id h) = Ok hrev /\ hh = mkH hrev (u64 (hd_height h)).
  Proof.
    unfold get_height. intro H. apply obind_ok in H as (h & Hp & H). apply obind_ok in H as (r & Hr & H).
    inversion H; subst. unfold header_pheader in *. destruct (h_signed hdr) as [sh|] eqn:Es; [|discriminate].
    destruct (sh_header sh) as [h'|] eqn:Eh; [|discriminate]. inversion Hp; subst.
    exists sh, h, r. rewrite Eh. auto.
  Qed.

  Lemma check_validity_sound cs cons hdr now :
    wf_header hdr ->
    check_validity valset_hash header_hash verify_sig cs cons hdr now = Ok tt ->
    forall s, get_cons s (h_trusted_height hdr) = Ok cons -> accept_facts cs s hdr now.
  Proof.
    intros [Hvh Hwf] H s Hs. unfold check_validity in H.
    apply obind_ok in H as ([tvals ttot] & Htv & H).
    unfold check_trusted_header in Htv. apply obind_ok in Htv as ([tvals' ttot'] & Htv & Hh).
    cbn [fst] in Hh. destruct (bytes_eqb (c_nvh cons) (valset_hash (hash_input tvals'))) eqn:Eh; [|discriminate].
    inversion Hh; subst tvals' ttot'. apply bytes_eqb_true in Eh.
    apply obind_ok in H as (hh & Hgh & H).
    apply negb_if_ok in H as [Hrev H]. apply N.eqb_eq in Hrev.
    apply obind_ok in H as (sh & Hsh & H).
    apply negb_if_ok in H as [_ H].
    apply obind_ok in H as ([vals tot] & Hov & H).
    apply if_err_ok in H as [Hlte H].
    apply obind_ok in H as (h & Hph & H). cbn [fst snd] in H.
    apply get_height_ok in Hgh as (sh' & h' & hrev & Es & Eh' & Eph & Epc & ->).
    rewrite Es in Hsh. inversion Hsh; subst sh'. rewrite Eph in Hph. inversion Hph; subst h'.
    cbn [h_rev h_hgt] in *.
    destruct (valset_from_proto_ok _ _ _ Htv) as (tp & _ & _ & _ & Hnt & Ett & _).
    destruct (valset_from_proto_ok _ _ _ Hov) as (vp & _ & _ & _ & Hnv & Etv & _).
    specialize (Hwf sh h Es Eh').
    (* the header height exceeds the trusted height, compared as uint64 in the same revision *)
    assert (Hlt : (h_hgt (h_trusted_height hdr) < u64 (hd_height h))%N).
    { unfold h_lte, h_cmp in Hlte. cbn [h_rev h_hgt] in Hlte. rewrite Hrev, N.eqb_refl in Hlte.
      destruct (N.compare_spec (u64 (hd_height h)) (h_hgt (h_trusted_height hdr))); try discriminate. lia. }
    (* light.Verify rejects non-positive heights, so the uint64 view is the height itself *)
    assert (Hpos : 0 < hd_height h).
    { unfold light_verify in H. apply negb_if_ok in H as [_ H]. apply obind_ok in H as (c & Hsb & _).
      apply signed_header_basic_ok in Hsb as (_ & Hb & _). now apply header_basic_height. }
    assert (Eu : u64 (hd_height h) = Z.to_N (hd_height h)).
    { apply u64_small. unfold max_int64, two64 in *. lia. }
    rewrite Eu in Hlt.
    destruct Hvh as [_ Hvh].
    eapply light_verify_sound in H; eauto; [|lia].
    destruct H as (c & Ec & F1 & F2 & F3 & F4 & F5 & F6 & F7 & F8 & F9 & F10).
    exists cons, tvals, ttot, sh, h, c, vals, tot, hrev.
    rewrite F4. rewrite <- Etv, <- Ett.
    repeat match goal with |- _ /\ _ => split end;
      first [assumption | reflexivity | exact F9 | exact F10 | congruence | lia].
  Qed.

  (** ** Acceptance soundness *)
  Lemma chus_accept_sound cs s hdr now r :
    wf_header hdr -> chus cs s hdr now = Ok r -> accept_facts cs s hdr now.
  Proof.
    intros Hwf H. unfold check_header_and_update_state in H.
    apply obind_ok in H as (cons & Hc & H). apply obind_ok in H as ([] & Hv & _).
    eapply check_validity_sound; eauto.
  Qed.

  Lemma update_client_ok s hdr now s' :
    upd s hdr now = Ok s' ->
    exists cs cs' cons' s1 hh,
      sget client_key s = Some (VClient cs) /\ status_active cs s now = true /\
      chus cs s hdr now = Ok (cs', cons', s1) /\ get_height hdr = Ok hh /\
      s' = sset (cons_key hh) (VCons cons') (sset client_key (VClient cs') s1).
  Proof.
    unfold update_client. destruct (sget client_key s) as [[cs| |]|] eqn:Ec; try discriminate.
    intro H. apply negb_if_ok in H as [Hst H]. apply obind_ok in H as ([[cs' cons'] s1] & Hch & H).
    apply obind_ok in H as (hh & Hh & H). inversion H; subst.
    exists cs, cs', cons', s1, hh. auto.
  Qed.

  Lemma update_accept_sound s hdr now s' :
    wf_header hdr -> upd s hdr now = Ok s' ->
    exists cs, sget client_key s = Some (VClient cs) /\ accept_facts cs s hdr now.
  Proof.
    intros Hwf H. apply update_client_ok in H as (cs & cs' & cons' & s1 & hh & Ec & _ & Hch & _).
    exists cs. split; [exact Ec|]. eapply chus_accept_sound; eauto.
  Qed.

  (** ** Exact update *)
  Definition in_pruned (p : option height) (k : bytes) : bool :=
    match p with
    | Some ph => bytes_eqb k (cons_key ph) || bytes_eqb k (pt_key ph) || bytes_eqb k (iter_key ph)
    | None => false
    end.

  Lemma sget_delete_consensus s ph k :
    sget k (delete_consensus s ph) = if in_pruned (Some ph) k then None else sget k s.
  Proof.
    unfold delete_consensus, in_pruned. rewrite !sget_sdel.
    destruct (bytes_eqb k (cons_key ph)), (bytes_eqb k (pt_key ph)), (bytes_eqb k (iter_key ph)); reflexivity.
  Qed.

  Lemma chus_exact cs s hdr now cs' cons' s1 :
    chus cs s hdr now = Ok (cs', cons', s1) ->
    exists h hh pruned,
      header_pheader hdr = Ok h /\ get_height hdr = Ok hh /\ prune_height cs s now = Ok pruned /\
      cs' = (if h_gt hh (cs_latest cs) then with_latest cs hh else cs) /\
      cons' = new_cons_state h /\
      forall k, sget k s1 =
        if bytes_eqb k (iter_key hh) then Some (VBytes (cons_key hh))
        else if bytes_eqb k (pt_key hh) then Some (VBytes (be64 (u64 now)))
        else if in_pruned pruned k then None else sget k s.
  Proof.
    intro H. unfold check_header_and_update_state in H.
    apply obind_ok in H as (cons & Hc & H). apply obind_ok in H as ([] & Hv & H).
    apply obind_ok in H as (p & Hp & H). apply obind_ok in H as (hh & Hh & H). apply obind_ok in H as (h & Hph & H).
    inversion H; subst. exists h, hh, p. repeat (split; [assumption || reflexivity|]).
    intro k. unfold set_metadata. rewrite !sget_sset.
    destruct (bytes_eqb k (iter_key hh)); [reflexivity|]. destruct (bytes_eqb k (pt_key hh)); [reflexivity|].
    destruct p as [ph|]; [apply sget_delete_consensus | reflexivity].
  Qed.

  (** the whole client store after an accepted [UpdateClient], key by key *)
  Lemma update_exact s hdr now s' :
    upd s hdr now = Ok s' ->
    exists cs h hh pruned,
      sget client_key s = Some (VClient cs) /\ header_pheader hdr = Ok h /\ get_height hdr = Ok hh /\
      prune_height cs s now = Ok pruned /\
      forall k, sget k s' =
        if bytes_eqb k (cons_key hh) then Some (VCons (new_cons_state h))
        else if bytes_eqb k client_key
             then Some (VClient (if h_gt hh (cs_latest cs) then with_latest cs hh else cs))
        else if bytes_eqb k (iter_key hh) then Some (VBytes (cons_key hh))
        else if bytes_eqb k (pt_key hh) then Some (VBytes (be64 (u64 now)))
        else if in_pruned pruned k then None else sget k s.
  Proof.
    intro H. apply update_client_ok in H as (cs & cs' & cons' & s1 & hh & Ec & _ & Hch & Hh & ->).
    apply chus_exact in Hch as (h & hh' & p & Hph & Hh' & Hp & -> & -> & Hk).
    rewrite Hh in Hh'. inversion Hh'; subst hh'.
    exists cs, h, hh, p. repeat (split; [assumption|]).
    intro k. rewrite !sget_sset.
    destruct (bytes_eqb k (cons_key hh)); [reflexivity|]. destruct (bytes_eqb k client_key); [reflexivity|].
    apply Hk.
  Qed.

  (** ** Latest height never decreases *)
  Definition same_config (a b : client_state) : Prop :=
    cs_chain_id a = cs_chain_id b /\ cs_tl_num a = cs_tl_num b /\ cs_tl_den a = cs_tl_den b /\
    cs_trusting a = cs_trusting b /\ cs_unbonding a = cs_unbonding b /\ cs_drift a = cs_drift b /\
    cs_delay a = cs_delay b /\ cs_rest a = cs_rest b.

  Lemma same_config_refl a : same_config a a.
  Proof. unfold same_config; tauto. Qed.

  Lemma same_config_trans a b c : same_config a b -> same_config b c -> same_config a c.
  Proof. unfold same_config. intuition congruence. Qed.

  Lemma update_latest s hdr now s' cs :
    client_of s = Some cs -> upd s hdr now = Ok s' ->
    exists cs' hh, client_of s' = Some cs' /\ get_height hdr = Ok hh /\ same_config cs cs' /\
      cs_latest cs' = (if h_gt hh (cs_latest cs) then hh else cs_latest cs) /\
      h_lte (cs_latest cs) (cs_latest cs') = true /\ h_lte hh (cs_latest cs') = true.
  Proof.
    intros Hc H. apply update_exact in H as (cs0 & h & hh & p & Ec & _ & Hh & _ & Hk).
    unfold client_of in *. rewrite Ec in Hc. inversion Hc; subst cs0.
    exists (if h_gt hh (cs_latest cs) then with_latest cs hh else cs), hh.
    rewrite (Hk client_key).
    destruct (bytes_eqb_spec client_key (cons_key hh)) as [E|_]; [symmetry in E; now apply cons_client_neq in E|].
    rewrite bytes_eqb_refl. split; [reflexivity|]. split; [exact Hh|].
    destruct (h_gt hh (cs_latest cs)) eqn:G; cbn.
    - split; [unfold same_config; cbn; tauto|]. split; [reflexivity|]. split; [now apply h_gt_lte | apply h_lte_refl].
    - split; [apply same_config_refl|]. split; [reflexivity|]. split; [apply h_lte_refl|].
      apply h_lte_le. unfold h_le.
      assert (N : ~ ((h_rev (cs_latest cs) < h_rev hh)%N \/ (h_rev hh = h_rev (cs_latest cs) /\ (h_hgt (cs_latest cs) < h_hgt hh)%N)))
        by (rewrite <- h_gt_lt; congruence).
      lia.
  Qed.

  (** histories: any sequence of [UpdateClient] messages (header, block time), each
      executed under BaseApp's rollback of failed messages *)
  Fixpoint run_updates (s : store) (ops : list (header * Z)) : store :=
    match ops with
    | [] => s
    | (hdr, now) :: ops' => run_updates (deliver_update valset_hash header_hash verify_sig s hdr now) ops'
    end.

  Lemma latest_monotone ops : forall s cs,
    client_of s = Some cs ->
    exists cs', client_of (run_updates s ops) = Some cs' /\ same_config cs cs' /\
                h_lte (cs_latest cs) (cs_latest cs') = true.
  Proof.
    induction ops as [|[hdr now] ops IH]; intros s cs Hc; cbn [run_updates].
    - exists cs. split; [exact Hc|]. split; [apply same_config_refl | apply h_lte_refl].
    - unfold deliver_update. destruct (upd s hdr now) as [s'| |] eqn:U; try (apply IH; exact Hc).
      destruct (update_latest _ _ _ _ _ Hc U) as (cs1 & hh & Hc1 & _ & Sc & _ & L & _).
      destruct (IH s' cs1 Hc1) as (cs2 & Hc2 & Sc2 & L2).
      exists cs2. split; [exact Hc2|]. split; [eapply same_config_trans; eauto | eapply h_lte_trans; eauto].
  Qed.

  (** ** An expired client accepts nothing *)
  Lemma expired_accepts_nothing s cs hdr now :
    sget client_key s = Some (VClient cs) -> status_active cs s now = false -> upd s hdr now = Err.
  Proof. intros Hc Hs. unfold update_client. rewrite Hc, Hs. reflexivity. Qed.

  Lemma status_expired cs s now lc :
    get_cons s (cs_latest cs) = Ok lc -> c_time lc + cs_trusting cs <= now -> status_active cs s now = false.
  Proof.
    intros Hl Ht. unfold status_active, is_expired. rewrite Hl.
    destruct (c_time lc + cs_trusting cs >? now) eqn:E; [lia|reflexivity].
  Qed.

  Lemma status_unknown cs s now :
    get_cons s (cs_latest cs) <> Ok (match get_cons s (cs_latest cs) with Ok c => c | _ => Build_cons_state 0 [] [] end) ->
    status_active cs s now = false.
  Proof. unfold status_active. destruct (get_cons s (cs_latest cs)); [congruence|reflexivity|reflexivity]. Qed.
End Main.

(** * Proof gates *)
Section Gates.
  Variable proof_decodes : bytes -> bool.
  Variable membership_ok : client_state -> bytes -> bytes -> bool -> (bytes * bytes * N) -> bytes -> bool.

  Lemma verify_packet_with_ok gate cs s now h proof ack path val :
    verify_packet_with proof_decodes membership_ok gate cs s now h proof ack path val = Ok tt ->
    h_lte h (cs_latest cs) = true /\
    exists cons pf, get_cons s h = Ok cons /\ proof = Some pf /\ proof_decodes pf = true /\
                    gate s now h (cs_delay cs) = Ok tt /\
                    membership_ok cs (c_root cons) pf ack path val = true.
  Proof.
    unfold verify_packet_with. intro H.
    destruct (h_lt (cs_latest cs) h) eqn:L; [discriminate|].
    destruct proof as [pf|]; [|discriminate].
    destruct (proof_decodes pf) eqn:D; cbn [negb] in H; [|discriminate].
    apply obind_ok in H as (cons & Hc & H). apply obind_ok in H as ([] & Hg & H).
    destruct (membership_ok cs (c_root cons) pf ack path val) eqn:M; [|discriminate].
    split; [now apply h_lt_false_lte|]. exists cons, pf. auto.
  Qed.

End Gates.

  Lemma be_decode_bound b : (be_decode b < 256 ^ N.of_nat (length b))%N.
  Proof.
    induction b as [|x b IH] using rev_ind; [cbn; lia|].
    rewrite be_decode_app, app_length. cbn [fold_left length].
    replace (N.of_nat (length b + 1)) with (N.succ (N.of_nat (length b))) by lia.
    rewrite N.pow_succ_r'.
    pose proof (Byte.to_N_bounded x) as X.
    lia.
  Qed.

  Lemma get_processed_time_bound s h pt : get_processed_time s h = Some (Ok pt) -> (pt < two64N)%N.
  Proof.
    unfold get_processed_time. destruct (sget (pt_key h) s) as [[| |b]|]; try discriminate.
    intro H. inversion H as [E]. clear H. destruct b as [|x b]; [inversion E; reflexivity|].
    unfold be_uint64 in E. destruct (length (x :: b) <? 8)%nat; [discriminate|].
    pose proof (firstn_le_length 8 (x :: b)) as L.
    remember (firstn 8 (x :: b)) as f. inversion E.
    pose proof (be_decode_bound f) as B.
    assert (P : (256 ^ N.of_nat (length f) <= 256 ^ 8)%N) by (apply N.pow_le_mono_r; lia).
    change (256 ^ 8)%N with two64N in P. lia.
  Qed.

  (** the delay gate of the current tree: no wrap-around hypothesis needed
      ([delay] is a Go uint64) *)
  Lemma delay_gate_ok s now h delay :
    (delay < two64N)%N ->
    verify_delay_period_passed s now h delay = Ok tt ->
    exists pt, get_processed_time s h = Some (Ok pt) /\ (pt + delay <= u64 now)%N.
  Proof.
    intro Hd. unfold verify_delay_period_passed. destruct (get_processed_time s h) as [o|] eqn:G; [|discriminate].
    intro H. apply obind_ok in H as (pt & -> & H). exists pt. split; [reflexivity|].
    apply get_processed_time_bound in G.
    destruct ((add64 pt delay <? pt)%N || (u64 now <? add64 pt delay)%N) eqn:E; [discriminate|].
    apply orb_false_iff in E as [E1 E2]. apply N.ltb_ge in E1, E2.
    unfold add64, two64N in *.
    destruct (N.lt_ge_cases (pt + delay) 18446744073709551616) as [S|B].
    - rewrite N.mod_small in E2 by exact S. exact E2.
    - (* a wrapped sum of two uint64 values is smaller than its first summand *)
      exfalso.
      assert (W : ((pt + delay) mod 18446744073709551616 = pt + delay - 18446744073709551616)%N).
      { symmetry. apply (N.mod_unique _ _ 1%N); lia. }
      lia.
  Qed.

  (** the gate before the fix needs the no-wrap hypothesis *)
  Lemma delay_gate_old_ok s now h delay :
    verify_delay_period_passed_old s now h delay = Ok tt ->
    exists pt, get_processed_time s h = Some (Ok pt) /\
               ((pt + delay < two64N)%N -> (pt + delay <= u64 now)%N).
  Proof.
    unfold verify_delay_period_passed_old. destruct (get_processed_time s h) as [o|]; [|discriminate].
    intro H. apply obind_ok in H as (pt & -> & H). exists pt. split; [reflexivity|].
    destruct (u64 now <? add64 pt delay)%N eqn:E; [discriminate|]. apply N.ltb_ge in E.
    intro S. unfold add64 in E. rewrite N.mod_small in E by exact S. exact E.
  Qed.

(** * Adjacent headers and the trust level (observation O1) *)
Section Adjacent.
  Variable verify_sig : pubkey -> bytes -> pcommit -> nat -> bool.
  Variables (chain : bytes) (c : pcommit).

  Lemma signed_trusted_nonneg l :
    Forall (fun v : pubkey * Z => 0 <= snd v) l -> 0 <= signed_trusted verify_sig chain c l.
  Proof.
    induction 1 as [|v l Hv Hl IH]; cbn; [lia|].
    change (fold_right _ 0 l) with (signed_trusted verify_sig chain c l).
    destruct (signed_by verify_sig chain c (fst v)); lia.
  Qed.

  Lemma signed_own_le_signed_trusted : forall (l : list (pubkey * Z)) sigs pre i,
    cm_sigs c = pre ++ sigs -> length pre = i -> Forall (fun v => 0 <= snd v) l ->
    signed_own_from verify_sig chain c i l sigs <= signed_trusted verify_sig chain c l.
  Proof.
    induction l as [|v l IH]; intros sigs pre i Hc Hl Hn; [cbn; lia|].
    inversion Hn as [|? ? Hv Hn']; subst.
    destruct sigs as [|s sigs]; [cbn [signed_own_from]; now apply signed_trusted_nonneg|].
    cbn [signed_own_from signed_trusted fold_right].
    change (fold_right _ 0 l) with (signed_trusted verify_sig chain c l).
    assert (Hc' : cm_sigs c = (pre ++ [s]) ++ sigs) by (rewrite <- app_assoc; exact Hc).
    assert (Hl' : length (pre ++ [s]) = S (length pre)) by (rewrite app_length; cbn; lia).
    specialize (IH sigs (pre ++ [s]) (S (length pre)) Hc' Hl' Hn').
    destruct (signs verify_sig chain c (fst v) (length pre, s)) eqn:S.
    - assert (B : signed_by verify_sig chain c (fst v) = true).
      { unfold signed_by. apply existsb_exists. exists (length pre, s). split; [|exact S].
        rewrite Hc, number_from_app. apply in_or_app. right. cbn. left. reflexivity. }
      rewrite B. lia.
    - destruct (signed_by verify_sig chain c (fst v)); lia.
  Qed.

  Lemma hash_input_nonneg vals : nonneg_powers vals -> Forall (fun v : pubkey * Z => 0 <= snd v) (hash_input vals).
  Proof. induction 1; cbn; constructor; auto. Qed.

  (** when more than 2/3 of a set signed positionally, more than any level <= 2/3 of
      the same set signed in the sense of the trusted-set tally *)
  Lemma adjacent_implies_trust_level vals num den :
    nonneg_powers vals ->
    3 * signed_own verify_sig chain c (hash_input vals) > 2 * total_of (hash_input vals) ->
    0 <= num -> 0 < den -> 3 * num <= 2 * den ->
    den * signed_trusted verify_sig chain c (hash_input vals) > num * total_of (hash_input vals).
  Proof.
    intros Hn H Hnum Hden Hlvl.
    pose proof (signed_own_le_signed_trusted (hash_input vals) (cm_sigs c) [] 0%nat eq_refl eq_refl (hash_input_nonneg _ Hn)) as LE.
    fold (signed_own verify_sig chain c (hash_input vals)) in LE.
    pose proof (total_of_nonneg vals Hn) as T.
    set (st := signed_trusted verify_sig chain c (hash_input vals)) in *.
    set (own := signed_own verify_sig chain c (hash_input vals)) in *.
    set (tt := total_of (hash_input vals)) in *.
    assert (A1 : den * (3 * st) >= den * (2 * tt + 1)) by nia.
    assert (A2 : (2 * den) * tt >= (3 * num) * tt) by nia.
    lia.
  Qed.
End Adjacent.

(** * Corollaries *)
Section Corollaries.
  Variable valset_hash : list (pubkey * Z) -> bytes.
  Variable header_hash : pheader -> bytes.
  Variable verify_sig : pubkey -> bytes -> pcommit -> nat -> bool.

  Lemma hash_input_eq_dec (a b : list (pubkey * Z)) : {a = b} + {a <> b}.
  Proof.
    apply list_eq_dec. intros [[t1 k1] p1] [[t2 k2] p2].
    destruct (Nat.eq_dec t1 t2), (bytes_eq_dec k1 k2), (Z.eq_dec p1 p2); subst; auto; right; congruence.
  Qed.

  Lemma adjacent_uniform cs s hdr now r :
    wf_header hdr ->
    check_header_and_update_state valset_hash header_hash verify_sig cs s hdr now = Ok r ->
    forall sh h c tvals ttot vals tot,
    h_signed hdr = Some sh -> sh_header sh = Some h -> sh_commit sh = Some c ->
    valset_from_proto (h_trusted_vals hdr) = Ok (tvals, ttot) ->
    valset_from_proto (h_valset hdr) = Ok (vals, tot) ->
    hd_height h = Z.of_N (h_hgt (h_trusted_height hdr)) + 1 ->
    (0 < cs_tl_den cs)%N -> (3 * cs_tl_num cs <= 2 * cs_tl_den cs)%N ->
    (hash_input vals <> hash_input tvals /\ valset_hash (hash_input vals) = valset_hash (hash_input tvals)) \/
    Z.of_N (cs_tl_den cs) * signed_trusted verify_sig (hd_chain_id h) c (hash_input tvals)
    > Z.of_N (cs_tl_num cs) * total_of (hash_input tvals).
  Proof.
    intros Hwf H sh h c tvals ttot vals tot Es Eh Ec Etv Eov Adj Hden Hlvl.
    apply chus_accept_sound in H; [|exact Hwf].
    destruct H as (tc & tvals' & ttot' & sh' & h' & c' & vals' & tot' & hrev & F).
    destruct F as (_ & Ftv & Fth & Fs & Fh & Fc & Fov & _ & _ & _ & _ & _ & _ & _ & _ & _ & Fvh & Fown & Fadj & _).
    rewrite Es in Fs. inversion Fs; subst sh'. rewrite Eh in Fh. inversion Fh; subst h'.
    rewrite Ec in Fc. inversion Fc; subst c'. rewrite Etv in Ftv. inversion Ftv; subst tvals' ttot'.
    rewrite Eov in Fov. inversion Fov; subst vals' tot'.
    specialize (Fadj Adj).
    destruct (hash_input_eq_dec (hash_input vals) (hash_input tvals)) as [E|N].
    - right. rewrite E in Fown.
      destruct (valset_from_proto_ok _ _ _ Etv) as (_ & _ & _ & _ & Hnt & _).
      apply adjacent_implies_trust_level; auto; lia.
    - left. split; [exact N|]. congruence.
  Qed.

  Lemma u64_bound z : (u64 z < two64N)%N.
  Proof.
    unfold u64, two64N, two64. pose proof (Z.mod_pos_bound z 18446744073709551616 ltac:(lia)). lia.
  Qed.

  Lemma processed_time_recorded s hdr now s' hh :
    update_client valset_hash header_hash verify_sig s hdr now = Ok s' -> get_height hdr = Ok hh ->
    get_processed_time s' hh = Some (Ok (u64 now)) /\ get_cons s' hh <> Err.
  Proof.
    intros H Hh. apply update_exact in H as (cs & h & hh' & p & _ & _ & Hh' & _ & Hk).
    rewrite Hh in Hh'. inversion Hh'; subst hh'. split.
    - unfold get_processed_time. rewrite (Hk (pt_key hh)).
      destruct (bytes_eqb_spec (pt_key hh) (cons_key hh)) as [E|_]; [symmetry in E; now apply cons_pt_neq in E|].
      destruct (bytes_eqb_spec (pt_key hh) client_key) as [E|_]; [now apply pt_client_neq in E|].
      destruct (bytes_eqb_spec (pt_key hh) (iter_key hh)) as [E|_]; [now apply pt_iter_neq in E|].
      rewrite bytes_eqb_refl.
      destruct (be64 (u64 now)) as [|x b] eqn:E.
      + apply (f_equal (@length byte)) in E. rewrite be64_length in E. discriminate.
      + rewrite <- E. now rewrite be_uint64_be64 by apply u64_bound.
    - unfold get_cons. rewrite (Hk (cons_key hh)), bytes_eqb_refl. discriminate.
  Qed.
End Corollaries.

Section Gates2.
  Variable proof_decodes : bytes -> bool.
  Variable membership_ok : client_state -> bytes -> bytes -> bool -> (bytes * bytes * N) -> bytes -> bool.

  Lemma verify_packet_gates cs s now h proof ack path val :
    (cs_delay cs < two64N)%N ->
    verify_packet proof_decodes membership_ok cs s now h proof ack path val = Ok tt ->
    h_lte h (cs_latest cs) = true /\
    exists cons pf pt,
      get_cons s h = Ok cons /\ proof = Some pf /\ proof_decodes pf = true /\
      membership_ok cs (c_root cons) pf ack path val = true /\
      get_processed_time s h = Some (Ok pt) /\ (pt + cs_delay cs <= u64 now)%N.
  Proof.
    intros Hd H. unfold verify_packet in H. apply verify_packet_with_ok in H as (L & cons & pf & Hc & Hp & Hdc & Hg & Hm).
    apply delay_gate_ok in Hg as (pt & Hpt & Hle); [|exact Hd].
    split; [exact L|]. exists cons, pf, pt. auto 10.
  Qed.
End Gates2.


(** * Admissible configurations (ClientState.Validate since fix d656e11) *)
Lemma client_validate_trust_level cs :
  client_validate cs = true ->
  (cs_tl_num cs < 9223372036854775808)%N /\ (cs_tl_den cs < 9223372036854775808)%N /\
  (0 < cs_tl_den cs)%N /\ (cs_tl_den cs <= 3 * cs_tl_num cs)%N /\ (cs_tl_num cs <= cs_tl_den cs)%N.
Proof.
  unfold client_validate, client_validate_with. intro H.
  repeat (apply andb_true_iff in H as [H ?]).
  match goal with X : trust_level_valid _ _ && _ && _ = true |- _ =>
    apply andb_true_iff in X as [X Hd]; apply andb_true_iff in X as [X Hn]; rename X into Hv end.
  apply N.leb_le in Hd, Hn. unfold trust_level_valid in Hv.
  apply negb_true_iff in Hv. apply orb_false_iff in Hv as [Hv Z0]. apply orb_false_iff in Hv as [X1 X2].
  apply N.ltb_ge in X1, X2. apply N.eqb_neq in Z0.
  assert (M : ((cs_tl_num cs * 3) mod two64N <= cs_tl_num cs * 3)%N) by (apply N.mod_le; unfold two64N; lia).
  lia.
Qed.

Section Validated.
  Variable valset_hash : list (pubkey * Z) -> bytes.
  Variable header_hash : pheader -> bytes.
  Variable verify_sig : pubkey -> bytes -> pcommit -> nat -> bool.

  (** for a configuration admitted by Validate the trust-level clause needs no side condition *)
  Lemma accept_sound_validated cs s hdr now r :
    wf_header hdr -> client_validate cs = true ->
    check_header_and_update_state valset_hash header_hash verify_sig cs s hdr now = Ok r ->
    forall sh h c tvals ttot,
    h_signed hdr = Some sh -> sh_header sh = Some h -> sh_commit sh = Some c ->
    valset_from_proto (h_trusted_vals hdr) = Ok (tvals, ttot) ->
    hd_height h <> Z.of_N (h_hgt (h_trusted_height hdr)) + 1 ->
    Z.of_N (cs_tl_den cs) * signed_trusted verify_sig (hd_chain_id h) c (hash_input tvals)
    > Z.of_N (cs_tl_num cs) * total_of (hash_input tvals).
  Proof.
    intros Hwf Hv H sh h c tvals ttot Es Eh Ec Etv Nadj.
    apply chus_accept_sound in H; [|exact Hwf].
    destruct H as (tc & tvals' & ttot' & sh' & h' & c' & vals' & tot' & hrev & F).
    destruct F as (_ & Ftv & _ & Fs & Fh & Fc & _ & _ & _ & _ & _ & _ & _ & _ & _ & _ & _ & _ & _ & Fn).
    rewrite Es in Fs. inversion Fs; subst sh'. rewrite Eh in Fh. inversion Fh; subst h'.
    rewrite Ec in Fc. inversion Fc; subst c'. rewrite Etv in Ftv. inversion Ftv; subst tvals' ttot'.
    destruct (client_validate_trust_level cs Hv) as (Hn & Hd & _).
    exact (Fn Nadj Hn Hd).
  Qed.

  Lemma header_within_trusting_period cs s hdr now r :
    wf_header hdr ->
    check_header_and_update_state valset_hash header_hash verify_sig cs s hdr now = Ok r ->
    forall sh h, h_signed hdr = Some sh -> sh_header sh = Some h ->
    hd_time h + cs_trusting cs > now /\ hd_time h < now + cs_drift cs.
  Proof.
    intros Hwf H sh h Es Eh. apply chus_accept_sound in H; [|exact Hwf].
    destruct H as (tc & tvals' & ttot' & sh' & h' & c' & vals' & tot' & hrev & F).
    destruct F as (_ & _ & _ & Fs & Fh & _ & _ & _ & _ & _ & T1 & T2 & T3 & _).
    rewrite Es in Fs. inversion Fs; subst sh'. rewrite Eh in Fh. inversion Fh; subst h'. lia.
  Qed.
End Validated.
