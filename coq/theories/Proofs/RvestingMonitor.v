(** Monitor soundness for the world and genesis monitors of Model/RvestingWorldCheck.v: applied to the
    observation of a model step they accept (so a monitor failure on a trace that agrees with the model is
    impossible, and a monitor failure is a real deviation from the property). *)
From Teleport Require Import Base.Bytes Base.Outcome Model.Rvesting Model.RvestingCheck Model.RvestingIR Model.RvestingBank
  Model.RvestingParams Model.RvestingWorld Model.RvestingCode Model.RvestingWorldCheck
  Proofs.Rvesting Proofs.RvestingBank Proofs.RvestingParams Proofs.RvestingWorld Proofs.RvestingCode.
Local Open Scope Z_scope.

(** What the harness would observe of a model world. *)
Definition obs_of (ds : list bytes) (w : world) : wobs :=
  {| wo_class := 0; wo_role := 0; wo_bal := bal_table ds (w_accts w); wo_sup := map (get (w_sup w)) ds;
     wo_total := map (sumd (w_accts w)) ds; wo_rest_same := true; wo_store := []; wo_height := w_height w |}.

Lemma list_Z_eqb_refl l : list_Z_eqb l l = true.
Proof. induction l as [|x l IH]; cbn; [reflexivity|]. rewrite Z.eqb_refl, IH. reflexivity. Qed.

Lemma list_Z_eqb_map {A} (f g : A -> Z) l : (forall x, f x = g x) -> list_Z_eqb (map f l) (map g l) = true.
Proof. intro H. rewrite (map_ext f g H). apply list_Z_eqb_refl. Qed.

Lemma row_obs ds w i : (i < 6)%nat -> row (obs_of ds w) i = map (get (acct (w_accts w) i)) ds.
Proof.
  intro Hi. unfold row, obs_of, bal_table; cbn [wo_bal n_tracked seq map].
  do 6 (destruct i as [|i]; [reflexivity|]). lia.
Qed.

Lemma zip_add_map {A} (f g : A -> Z) l : zip_add (map f l) (map g l) = map (fun x => f x + g x) l.
Proof. induction l as [|x l IH]; cbn; [reflexivity|]. rewrite IH. reflexivity. Qed.

(** [check_amounts] over arbitrary balance functions. *)
Lemma check_amounts_fun p ds (P F P' F' : bytes -> Z) :
  params_ok p -> (forall d, 0 <= P d) ->
  (forall d, P' d = P d - expected_move p (P d) d) -> (forall d, F' d = F d + expected_move p (P d) d) ->
  check_amounts p ds (map P ds) (map F ds) (map P' ds) (map F' ds) = true.
Proof.
  intros Hpar Hn H1 H2. induction ds as [|d ds IH]; cbn [map check_amounts]; [reflexivity|].
  rewrite IH, andb_true_r, H1, H2, !Z.eqb_refl. cbn [andb]. apply Z.leb_le.
  unfold expected_move. apply validate_rewards_parts in Hpar as (_ & Hfa & _).
  pose proof (reward_of_nonneg (rewards p) d Hfa). specialize (Hn d). destruct (enable p); lia.
Qed.

(** The BeginBlocker of the model passes the monitor. *)
Lemma tick_sound_begin ds p w w' :
  code_inv w -> code_inv w' -> params_ok p -> w_begin_spec p w w' ->
  tick_ok false p ds (obs_of ds w) (obs_of ds w') = None.
Proof.
  intros [[_ Hn] _] [[Hs' _] _] Hpar (S1 & S2 & S3 & S4 & _).
  unfold tick_ok. cbn [obs_of wo_class wo_rest_same wo_sup wo_total Nat.eqb negb andb orb].
  rewrite !row_obs by lia. rewrite S4, list_Z_eqb_refl.
  rewrite (S3 2%nat), (S3 3%nat), (S3 4%nat), (S3 5%nat) by (unfold A_POOL, A_FEE; lia).
  rewrite !list_Z_eqb_refl. cbn [andb negb].
  rewrite (list_Z_eqb_map (sumd (w_accts w')) (get (w_sup w)) ds) by (intro d; rewrite <- S4; apply Hs'). cbn [negb].
  rewrite (check_amounts_fun p ds (get (acct (w_accts w) 0)) (get (acct (w_accts w) 1))
             (get (acct (w_accts w') 0)) (get (acct (w_accts w') 1)) Hpar (Hn 0%nat) S1 S2). reflexivity.
Qed.

(** A whole block of the model (rvesting before distribution) passes the monitor. *)
Lemma tick_sound_block ds p w :
  code_inv w -> code_get_params (w_ps w) = Ok p -> params_ok p -> 0 <= w_height w ->
  exists w', code_step WBlock w = Ok w' /\ tick_ok true p ds (obs_of ds w) (obs_of ds w') = None.
Proof.
  intros Hinv Hgp Hpar Hh. destruct (code_block_exact w p Hinv Hgp Hh) as (w' & Hstep & Hinv' & B1 & B2 & B3 & B4 & B5 & _).
  exists w'. split; [exact Hstep|].
  destruct Hinv as [[_ Hn] _]. destruct Hinv' as [[Hs' _] _].
  unfold tick_ok. cbn [obs_of wo_class wo_rest_same wo_sup wo_total Nat.eqb negb andb orb].
  rewrite !row_obs by lia. rewrite B5, list_Z_eqb_refl.
  rewrite (B4 3%nat), (B4 4%nat), (B4 5%nat) by (unfold A_POOL, A_FEE, A_DISTR; lia).
  rewrite !list_Z_eqb_refl. cbn [andb negb].
  rewrite (list_Z_eqb_map (sumd (w_accts w')) (get (w_sup w)) ds) by (intro d; rewrite <- B5; apply Hs'). cbn [negb].
  rewrite !zip_add_map.
  rewrite (check_amounts_fun p ds (get (acct (w_accts w) 0))
             (fun d => get (acct (w_accts w) 1) d + get (acct (w_accts w) 2) d)
             (get (acct (w_accts w') 0))
             (fun d => get (acct (w_accts w') 1) d + get (acct (w_accts w') 2) d) Hpar (Hn 0%nat) B1); [reflexivity|].
  intro d. destruct (Z.eq_dec (w_height w) 0) as [E|E].
  - destruct (B2 E) as (F & D). unfold A_POOL, A_FEE, A_DISTR in *. rewrite F, D. lia.
  - assert (Hpos : 0 < w_height w) by lia. destruct (B3 Hpos) as (F & D).
    unfold A_POOL, A_FEE, A_DISTR in *. rewrite F, D. lia.
Qed.

(** * Genesis monitor *)
Lemma list_ZZ_eqb_refl l : list_ZZ_eqb l l = true.
Proof. induction l as [|x l IH]; cbn; [reflexivity|]. rewrite list_Z_eqb_refl, IH. reflexivity. Qed.

Lemma coins_eqb_refl l : coins_eqb l l = true.
Proof. induction l as [|[d a] l IH]; cbn; [reflexivity|]. rewrite bytes_eqb_refl, Z.eqb_refl, IH. reflexivity. Qed.

Lemma zip_sub_map {A} (f g : A -> Z) l : zip_sub (map f l) (map g l) = map (fun x => f x - g x) l.
Proof. induction l as [|x l IH]; cbn; [reflexivity|]. rewrite IH. reflexivity. Qed.

(** The observation of a model import (funding account = tracked account 4, or no From) with its export and
    re-import passes the genesis monitor. *)
Lemma g_mon_sound ds g w w' :
  bank_ok (w_accts w) (w_sup w) ->
  (g_from g = FromEmpty \/ g_from g = FromAcct A_FROM) ->
  code_init_genesis g w = Ok w' ->
  exists r w2, g_rewards g = lift_coins r /\ code_init_genesis (plain_export g) w' = Ok w2 /\
    g_mon_case {| gc_denoms := ds; gc_gen := g; gc_validate := 0; gc_before := obs_of ds w; gc_init := 0;
                  gc_after := obs_of ds w'; gc_exported := Some (g_enable g, r); gc_exp_plain := true;
                  gc_revalidate := 0; gc_reinit := 0; gc_after2 := Some (obs_of ds w2) |} = [].
Proof.
  intros Hb Hfrom Hinit.
  destruct (code_genesis_round_trip g w w' Hinit) as ((r & Hr & _ & _) & _ & _ & (w2 & H2 & Ha2 & Hs2 & _)).
  exists r, w2. split; [exact Hr|]. split; [exact H2|].
  destruct (code_init_conserves g w w' Hb Hinit) as ([Hsum' _] & Hsup & _).
  unfold g_mon_case. cbn [gc_init gc_denoms gc_before gc_after gc_gen gc_exported gc_exp_plain gc_revalidate gc_reinit gc_after2 Nat.eqb negb].
  cbn [obs_of wo_sup wo_total wo_rest_same wo_bal wo_store]. rewrite !row_obs by (unfold A_FROM; lia).
  rewrite Hsup, list_Z_eqb_refl.
  rewrite (list_Z_eqb_map (sumd (w_accts w')) (get (w_sup w)) ds) by (intro d; rewrite <- Hsup; apply Hsum'). cbn [andb negb].
  assert (Hrows :
    list_Z_eqb (map (get (acct (w_accts w') 0)) ds)
      (zip_add (map (get (acct (w_accts w) 0)) ds)
         match g_from g with FromAcct _ => map (vtotal (g_init g)) ds | _ => map (fun _ : bytes => 0) ds end) = true /\
    list_Z_eqb (map (get (acct (w_accts w') A_FROM)) ds)
      (zip_sub (map (get (acct (w_accts w) A_FROM)) ds)
         match g_from g with FromAcct _ => map (vtotal (g_init g)) ds | _ => map (fun _ : bytes => 0) ds end) = true /\
    acct (w_accts w') 1 = acct (w_accts w) 1 /\ acct (w_accts w') 2 = acct (w_accts w) 2 /\
    acct (w_accts w') 3 = acct (w_accts w) 3 /\ acct (w_accts w') 5 = acct (w_accts w) 5).
  { destruct Hfrom as [Hf|Hf]; rewrite Hf.
    - destruct (init_steps_no_from code_pairs code_lgs code_cgs G.module_name G.init_genesis_steps g None w w' Hf code_init_stops Hinit) as (Ha & _).
      rewrite Ha, zip_add_map, zip_sub_map. repeat split; apply list_Z_eqb_map; intro d; lia.
    - assert (Hi : A_FROM <> A_POOL) by (unfold A_FROM, A_POOL; lia).
      destruct (code_genesis_funding g A_FROM w w' Hf Hi Hinit) as (F1 & F2 & F3).
      rewrite zip_add_map, zip_sub_map. unfold A_POOL in F1.
      split; [apply list_Z_eqb_map; exact F1|]. split; [apply list_Z_eqb_map; exact F2|].
      repeat split; apply F3; unfold A_POOL, A_FROM; lia. }
  destruct Hrows as (R0 & R4 & R1 & R2 & R3 & R5).
  rewrite R0, R4, R1, R2, R3, R5, !list_Z_eqb_refl. cbn [andb negb].
  unfold rcoins_eqb. rewrite Hr, strip_lift_id, coins_eqb_refl, Bool.eqb_reflx. cbn [andb negb].
  rewrite Ha2, Hs2, Hsup, list_ZZ_eqb_refl, list_Z_eqb_refl. reflexivity.
Qed.
